import CM.Proofs.QuoteGStep2
/-
C09 (with link reference definitions): the one-sided invariant `TP (GL …)` when a root block is cut off on the bare side
(the pending blocks are re-based by `offsetPBs (-n)`, the source loses its first `n` bytes).
-/
namespace CM.Proofs.Quote
open CM CM.Model CM.Gen CM.Proofs.BT CM.Proofs.BSp CM.Proofs.Nest

theorem isUnparsed_offset (m : Int) (t : Tree) : isUnparsed (offsetTree m t) = isUnparsed t := by
  unfold isUnparsed Node.isI
  rw [BSp.offsetTree_label]

theorem SegOK_shift {src : Bytes} {t : Tree} (n : Nat) (h : SegOK src t) (hn : (n : Int) ≤ t.label.start) :
    SegOK (src.drop n) (offsetTree (-(n : Int)) t) := by
  obtain ⟨h1, h2, h3, h4, h5, h6⟩ := h
  have hl : (src.drop n).length = src.length - n := List.length_drop
  have e1 : (offsetTree (-(n : Int)) t).label.start = t.label.start - n := by rw [BSp.offsetTree_label]; show _ + _ = _; omega
  have e2 : (offsetTree (-(n : Int)) t).label.stop = t.label.stop - n := by
    rw [BSp.offsetTree_label]
    show (if t.label.stop ≥ 0 then t.label.stop + -(n : Int) else t.label.stop) = _
    rw [if_pos (by omega)]; omega
  refine ⟨by rw [isUnparsed_offset]; exact h1, by rw [e1]; omega, by rw [e1, e2]; omega, by rw [e2, hl]; omega, ?_, ?_⟩
  · intro j ha hb
    rw [e1] at ha; rw [e2] at hb ⊢
    rw [getD_drop'']
    have := h5 (n + j) (by omega) (by omega)
    refine ⟨this.1, this.2.1, fun hlf => ?_⟩
    have := this.2.2 hlf
    omega
  · rw [e2, hl, getD_drop'']
    rcases h6 with h6 | h6
    · left
      have e : n + ((t.label.stop - (n : Int)).toNat - 1) = t.label.stop.toNat - 1 := by omega
      rw [e]; exact h6
    · right; omega

theorem GL_shift {src : Bytes} {bd : Int} {is : List Tree} (n : Nat) (h : GL src bd is)
    (hn : ∀ t ∈ is, (n : Int) ≤ t.label.start) : GL (src.drop n) (bd - n) (offsetTrees (-(n : Int)) is) := by
  rw [offsetTrees_eq_map]
  constructor
  · unfold SortedSpans
    rw [List.pairwise_map]
    refine List.Pairwise.imp_of_mem ?_ h.1
    intro a b ha hb hab
    have s1 := (h.2 a ha).1
    have s2 := (h.2 b hb).1
    rw [BSp.offsetTree_label, BSp.offsetTree_label]
    show (if a.label.stop ≥ 0 then a.label.stop + -(n : Int) else a.label.stop) ≤ b.label.start + -(n : Int)
    rw [if_pos (by have := s1.2.1; have := s1.2.2.1; omega)]
    omega
  · intro t' ht'
    obtain ⟨t, ht, rfl⟩ := List.mem_map.mp ht'
    obtain ⟨s1, s2⟩ := h.2 t ht
    refine ⟨SegOK_shift n s1 (hn t ht), ?_⟩
    rw [BSp.offsetTree_label]
    show (if t.label.stop ≥ 0 then t.label.stop + -(n : Int) else t.label.stop) ≤ bd - n
    rw [if_pos (by have := s1.2.1; have := s1.2.2.1; omega)]
    omega

mutual
/-- Re-basing a block whose positions all lie at or after the cut. -/
theorem TP_offset {src : Bytes} {bd : Int} (n : Nat) : ∀ (b : PB) {lo hi : Int}, TP (GL src bd) b → PBSpans QT lo hi b →
    (n : Int) ≤ lo → TP (GL (src.drop n) (bd - n)) (offsetPB (-(n : Int)) b)
  | .mk l bs is, lo, hi, h, hsp, hn => by
    rw [TP_mk] at h
    rw [PBSpans_mk] at hsp
    obtain ⟨a1, a2, a3, a4, a5, a6⟩ := hsp
    simp only [offsetPB]
    rw [TP_mk]
    refine ⟨fun hp => ?_, ?_⟩
    · obtain ⟨hg, hk⟩ := h.1 hp
      have hge := InlsOK.ge is a4
      exact ⟨GL_shift n hg fun t ht => by have := hge t ht; omega, hk⟩
    · exact TPs_offset n bs h.2 a5 (by omega)
theorem TPs_offset {src : Bytes} {bd : Int} (n : Nat) : ∀ (bs : List PB) {po : Bool} {lo hi : Int}, (∀ b ∈ bs, TP (GL src bd) b) →
    PBSpansL QT po lo hi bs → (n : Int) ≤ lo → ∀ b ∈ offsetPBs (-(n : Int)) bs, TP (GL (src.drop n) (bd - n)) b
  | [], _, _, _, _, _, _ => by intro b hb; simp only [offsetPBs] at hb; cases hb
  | b :: rest, po, lo, hi, h, hsp, hn => by
    rw [PBSpansL_cons] at hsp
    obtain ⟨s1, s2, s3⟩ := hsp
    simp only [offsetPBs]
    intro c hc
    rcases List.mem_cons.mp hc with rfl | hc
    · exact TP_offset n b (h b List.mem_cons_self) s1 hn
    · by_cases hre : rest = []
      · subst hre; simp only [offsetPBs] at hc; cases hc
      · have hbc : 0 ≤ b.label.stop := by
          cases hco : b.isOpen
          · exact (isOpen_false_iff b).mp hco
          · exact absurd (s2 hco).1 hre
        have hb := PBSpans_closed_bounds s1 hbc
        exact TPs_offset n rest (fun d hd => h d (List.mem_cons_of_mem _ hd)) s3 (by omega) c hc
end

/-- The pending blocks behind a root block that is cut off. -/
theorem tp_cut {D : Bytes} {c S : Nat} {k : PB} {rest : List PB} {po : Bool} {lo : Int}
    (htp : ∀ b ∈ k :: rest, TP (GLs D c S) b) (hks : PBSpansL QT po lo S (k :: rest)) (hk0 : 0 ≤ k.label.stop)
    (hnle : k.label.stop.toNat ≤ S) :
    ∀ b ∈ offsetPBs (-(k.label.stop.toNat : Int)) rest, TP (GLs D (c + k.label.stop.toNat) (S - k.label.stop.toNat)) b := by
  rw [PBSpansL_cons] at hks
  obtain ⟨s1, s2, s3⟩ := hks
  have hb := PBSpans_closed_bounds s1 hk0
  have := TPs_offset (src := (D.drop c).take S) (bd := (S : Int)) k.label.stop.toNat rest
    (fun d hd => htp d (List.mem_cons_of_mem _ hd)) s3 (by omega)
  have e1 : ((D.drop c).take S).drop k.label.stop.toNat = (D.drop (c + k.label.stop.toNat)).take (S - k.label.stop.toNat) := by
    rw [take_drop_comm, List.drop_drop]
  have e2 : ((S : Int) - (k.label.stop.toNat : Int)) = ((S - k.label.stop.toNat : Nat) : Int) := by omega
  rw [e1, e2] at this
  exact this

theorem tp_docRoot {G : List Tree → Prop} {bs : List PB} (h : ∀ b ∈ bs, TP G b) : TP G (docRoot bs) := by
  unfold docRoot
  rw [TP_mk]
  refine ⟨fun hp => ?_, h⟩
  exfalso
  have hp' : PKind BK.document := hp
  revert hp'; decide

end CM.Proofs.Quote
