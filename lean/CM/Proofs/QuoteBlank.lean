import CM.Proofs.QuoteFirst
/-
C09 (block-quote half): a blank line fed to a parser whose document is empty leaves the document empty.

The stream machine never feeds such a line to the parser of the bare document (it skips blank lines between root blocks),
but the prefixed document is one root block, so its parser sees `> ` followed by a blank rest; the simulation compares it
with a *virtual* parser of the bare side on the blank line, and this lemma says that the virtual parser opens nothing.
-/
namespace CM.Proofs.Quote
open CM CM.Model CM.Gen CM.Proofs.BT

variable {x : PExt}

/-- The rest of a blank line behind its indentation (no tab, no carriage return): nothing or the line feed. -/
def BlankRest (p : LP) : Prop := p.isRestBlank = true ∧ (p.bytesAfterIndent = [] ∨ p.bytesAfterIndent = [LF])

theorem atx_blank : (parseATXHeading []).level < 1 ∧ (parseATXHeading [LF]).level < 1 := by decide
theorem fence_blank : (parseCodeFence []).n = 0 ∧ (parseCodeFence [LF]).n = 0 := by decide
theorem thematic_blank : parseThematicBreak [] < 0 ∧ parseThematicBreak [LF] < 0 := by decide
theorem marker_blank : (parseListMarker []).stop < 0 ∧ (parseListMarker [LF]).stop < 0 := by decide

/-- No start rule applies on a blank rest of line when the container is the document. -/
theorem blockStartFns_blank (p : LP) (hb : BlankRest p) (hk : p.containerKind = BK.document) :
    ∀ f ∈ blockStartFns x, f p = p := by
  obtain ⟨hrb, hbai⟩ := hb
  intro f hf
  simp only [blockStartFns, List.mem_cons, List.not_mem_nil, or_false] at hf
  rcases hf with rfl | rfl | rfl | rfl | rfl | rfl | rfl | rfl
  · unfold startBlockQuote
    simp only []
    split
    · rfl
    · rcases hbai with e | e <;> rw [e] <;> rfl
  · unfold startATX
    simp only []
    split
    · rfl
    · rcases hbai with e | e
      · rw [e, if_pos atx_blank.1]
      · rw [e, if_pos atx_blank.2]
  · unfold startFenced
    simp only []
    split
    · rfl
    · rcases hbai with e | e
      · rw [e, if_pos (by rw [fence_blank.1]; rfl)]
      · rw [e, if_pos (by rw [fence_blank.2]; rfl)]
  · unfold startHTML
    simp only []
    split
    · rfl
    · rcases hbai with e | e <;> rw [e] <;> rfl
  · unfold startSetext
    rw [if_pos (by rw [hk]; rfl)]
  · unfold startThematicBreak
    simp only []
    split
    · rfl
    · rcases hbai with e | e
      · rw [e, if_pos thematic_blank.1]
      · rw [e, if_pos thematic_blank.2]
  · unfold startListItem
    simp only []
    split
    · rfl
    · rcases hbai with e | e
      · rw [e]
        have := marker_blank.1
        rw [if_pos (by simp [this])]
      · rw [e]
        have := marker_blank.2
        rw [if_pos (by simp [this])]
  · unfold startIndentedCode
    rw [hrb]
    simp

theorem tryStarts_id : ∀ (fs : List (LP → LP)) (p : LP), p.state = stateOpening → (∀ f ∈ fs, f p = p) → tryStarts fs p = p := by
  intro fs
  induction fs with
  | nil => intro p _ _; rfl
  | cons f rest ih =>
    intro p hs hf
    unfold tryStarts
    have e0 : ({ p with state := stateOpening } : LP) = p := by rw [← hs]
    simp only []
    rw [e0, hf f (List.mem_cons_self ..), hs]
    simp only [stateOpening, stateOpenMatched, stateLineConsumed, Nat.reduceBEq, Bool.or_self, Bool.false_eq_true, if_false]
    exact ih p hs fun g hg => hf g (List.mem_cons_of_mem _ hg)

/-- **A blank line on an empty document**: nothing is opened. -/
theorem processLine_blank_empty (p : LP) (hroot : p.root.blocks = []) (hk : p.root.label.kind = BK.document)
    (hne : p.line ≠ []) (hb : BlankRest p) (hs : p.state ≠ stateDescendTerminated) :
    (processLine x p).root.blocks = [] := by
  have hdp : descendOpenBlocks x p = (true, { p with depth := 0 }) := by
    unfold descendOpenBlocks descendLoop
    have : spineGet p.root (0 + 1) = none := by rw [CM.Proofs.spineGet_one, hroot]; rfl
    rw [this]
  rw [processLine_eq, hdp]
  simp only []
  rw [if_neg (by simpa using hs)]
  unfold lineTail
  rw [openNewBlocks_true x _ (show ({ p with depth := 0 } : LP).line ≠ [] from hne)]
  -- the opening loop: one iteration, nothing starts
  have hck : ∀ s, ({ p with depth := 0, state := s } : LP).containerKind = BK.document := by
    intro s
    simp only [LP.containerKind, LP.container, spineGet_zero, Option.getD_some, PB.kind]
    exact hk
  have hts : tryStarts (blockStartFns x) ({ p with depth := 0 } : LP) = { p with depth := 0, state := stateOpening } := by
    have e : tryStarts (blockStartFns x) ({ p with depth := 0 } : LP) =
        tryStarts (blockStartFns x) ({ p with depth := 0, state := stateOpening } : LP) := by
      unfold blockStartFns tryStarts
      rfl
    rw [e]
    apply tryStarts_id _ _ rfl
    exact blockStartFns_blank _ hb (hck _)
  have hloop : openingLoop x (({ p with depth := 0 } : LP).line.length + 8) ({ p with depth := 0 } : LP) =
      (true, { p with depth := 0, state := stateOpening }) := by
    have e8 : ({ p with depth := 0 } : LP).line.length + 8 = (p.line.length + 7) + 1 := rfl
    rw [e8]
    unfold openingLoop
    have := hck p.state
    have e1 : ({ p with depth := 0 } : LP).containerKind = BK.document := this
    rw [e1]
    simp only [show (!(BK.document == BK.paragraph || !acceptsLines BK.document)) = false from rfl, Bool.false_eq_true, if_false]
    rw [hts]
    simp only [stateOpening, stateOpenMatched, stateLineConsumed, Nat.reduceBEq, Bool.false_eq_true, if_false]
  rw [hloop]
  simp only [if_true]
  -- addLineText on the blank line: only flags
  rw [BT.addLineText_eq]
  have hrb : ({ p with depth := 0, state := stateOpening } : LP).isRestBlank = true := hb.1
  rw [hrb]
  have hcont : BT.altCont x true (altFlags true (altBlank ({ p with depth := 0, state := stateOpening } : LP))) = none := by
    unfold BT.altCont
    simp only []
    have t0 : TreeOK ({ p with depth := 0, state := stateOpening } : LP) :=
      ⟨hk, by show (spineGet p.root 0).isSome; rw [spineGet_zero]; rfl⟩
    have e1 : (altBlank ({ p with depth := 0, state := stateOpening } : LP)).containerKind = BK.document := by
      unfold altBlank
      rw [if_pos hrb]
      simp only [LP.containerKind, LP.container]
      show PB.kind ((spineGet (spineModify _ p.root 0) 0).getD _) = _
      rw [spineModify_zero, spineGet_zero]
      simp only [Option.getD_some, PB.kind, blankFn_label]
      exact hk
    have t1 : TreeOK (altBlank ({ p with depth := 0, state := stateOpening } : LP)) := by
      unfold altBlank
      rw [if_pos hrb]
      exact modify_ok _ _ blankFn_label t0
    have e2 : (altFlags true (altBlank ({ p with depth := 0, state := stateOpening } : LP))).containerKind = BK.document :=
      (setBlankFlags_ok _ _ t1).2.trans e1
    rw [e2]
    rfl
  rw [hcont]
  simp only []
  -- the children of the document are still none
  unfold altFlags altBlank
  rw [if_pos hrb]
  simp only []
  show (setBlankFlags _ (spineModify _ p.root 0) 0).blocks = []
  rw [spineModify_zero]
  rcases hp : p.root with ⟨l, bs, is⟩
  rw [hp] at hroot
  simp only [PB.blocks] at hroot
  subst hroot
  simp only [List.getLast?_nil]
  rfl

end CM.Proofs.Quote
