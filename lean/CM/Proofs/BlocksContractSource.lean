import CM.Proofs.BlocksWell
/-
The block phase never changes the `source` field of the line parser (only `reset` sets it).
-/
namespace CM.Proofs
open CM CM.Model CM.Gen

@[simp] theorem setPanic_source (p : LP) (m : String) : (p.setPanic m).source = p.source := (setPanic_frame p m).1.source
@[simp] theorem markMatched_source (p : LP) : p.markMatched.source = p.source := (markMatched_frame p).1.source
@[simp] theorem advance_source (p : LP) (n : Nat) : (p.advance n).source = p.source := (advance_frame p n).1.source
@[simp] theorem consumeLine_source (p : LP) : p.consumeLine.source = p.source := (consumeLine_frame p).1.source
@[simp] theorem consumeIndentN_source (p : LP) (n : Nat) : (p.consumeIndentN n).source = p.source :=
  (consumeIndentN_frame p n).1.source

@[simp] theorem closeContainer_source (x : PExt) (p : LP) (e : Int) : (p.closeContainer x e).source = p.source := by
  unfold LP.closeContainer; split <;> rfl

@[simp] theorem closeLastChild_source (x : PExt) (p : LP) (e : Int) : (p.closeLastChild x e).source = p.source := rfl

@[simp] theorem openBlockLoop_source (x : PExt) (kind : Nat) : ∀ (fuel : Nat) (p : LP),
    (LP.openBlockLoop x kind fuel p).source = p.source := by
  intro fuel
  induction fuel with
  | zero => intro p; rfl
  | succ fuel ih =>
    intro p
    unfold LP.openBlockLoop
    split
    · rfl
    · split
      · simp
      · rw [ih]; simp

@[simp] theorem openBlock_source (x : PExt) (p : LP) (kind : Nat) (a : PLabel → PLabel) :
    (p.openBlock x kind a).source = p.source := by
  unfold LP.openBlock
  split
  · simp
  · simp

@[simp] theorem modifyContainer_source (p : LP) (f : PB → PB) : (p.modifyContainer f).source = p.source := rfl
@[simp] theorem appendInline_source (p : LP) (t : Tree) : (p.appendInline t).source = p.source := rfl

@[simp] theorem setContainerIndent_source (p : LP) (n : Int) : (p.setContainerIndent n).source = p.source := by
  unfold LP.setContainerIndent
  split
  · simp
  · split <;> simp

@[simp] theorem collectInline_source (x : PExt) (p : LP) (kind n : Nat) : (p.collectInline x kind n).source = p.source := by
  unfold LP.collectInline
  split
  · simp
  · simp only
    split <;> split <;> simp

@[simp] theorem endBlock_source (x : PExt) (p : LP) : (p.endBlock x).source = p.source := by
  unfold LP.endBlock
  split <;> simp

@[simp] theorem startBlockQuote_source (x : PExt) (p : LP) : (startBlockQuote x p).source = p.source := by
  unfold startBlockQuote
  simp only
  repeat' split
  all_goals simp

@[simp] theorem startATX_source (x : PExt) (p : LP) : (startATX x p).source = p.source := by
  unfold startATX
  simp only
  repeat' split
  all_goals simp

@[simp] theorem startFenced_source (x : PExt) (p : LP) : (startFenced x p).source = p.source := by
  unfold startFenced
  simp only
  repeat' split
  all_goals simp

@[simp] theorem htmlStartLoop_source (x : PExt) (line : Bytes) : ∀ (fuel i : Nat) (p : LP),
    (htmlStartLoop x line fuel i p).source = p.source := by
  intro fuel
  induction fuel with
  | zero => intro i p; rfl
  | succ fuel ih =>
    intro i p
    unfold htmlStartLoop
    split
    · rfl
    · split
      · split
        · rfl
        · simp only
          split <;> simp
      · exact ih _ _

@[simp] theorem startHTML_source (x : PExt) (p : LP) : (startHTML x p).source = p.source := by
  unfold startHTML
  simp only
  repeat' split
  all_goals simp

@[simp] theorem startSetext_source (x : PExt) (p : LP) : (startSetext x p).source = p.source := by
  unfold startSetext
  split
  · rfl
  · simp only
    repeat' split
    all_goals simp

@[simp] theorem startThematicBreak_source (x : PExt) (p : LP) : (startThematicBreak x p).source = p.source := by
  unfold startThematicBreak
  simp only
  repeat' split
  all_goals simp

@[simp] theorem startListItem_source (x : PExt) (p : LP) : (startListItem x p).source = p.source := by
  unfold startListItem
  simp only
  repeat' split
  all_goals simp

@[simp] theorem startIndentedCode_source (x : PExt) (p : LP) : (startIndentedCode x p).source = p.source := by
  unfold startIndentedCode
  repeat' split
  all_goals simp

theorem blockStarts_source (x : PExt) : ∀ f ∈ blockStartFns x, ∀ p : LP, (f p).source = p.source := by
  intro f hf p
  simp only [blockStartFns, List.mem_cons, List.mem_nil_iff, or_false] at hf
  rcases hf with rfl | rfl | rfl | rfl | rfl | rfl | rfl | rfl <;> simp

theorem tryStarts_source (x : PExt) : ∀ (fs : List (LP → LP)), (∀ f ∈ fs, f ∈ blockStartFns x) → ∀ p : LP,
    (tryStarts fs p).source = p.source := by
  intro fs
  induction fs with
  | nil => intro _ p; rfl
  | cons f rest ih =>
    intro hfs p
    have hf := blockStarts_source x f (hfs f (by simp)) { p with state := stateOpening }
    simp only [tryStarts]
    split
    · exact hf
    · rw [ih (fun g hg => hfs g (by simp [hg]))]; exact hf

@[simp] theorem openingLoop_source (x : PExt) : ∀ (fuel : Nat) (p : LP), (openingLoop x fuel p).2.source = p.source := by
  intro fuel
  induction fuel with
  | zero => intro p; rfl
  | succ fuel ih =>
    intro p
    unfold openingLoop
    split
    · rfl
    · have ht := tryStarts_source x (blockStartFns x) (fun f hf => hf) p
      simp only
      split
      · rw [ih]; exact ht
      · split <;> exact ht

theorem ruleMatch_source (x : PExt) (kind : Nat) (p : LP) {ok : Bool} {p' : LP} (e : ruleMatch x kind p = some (ok, p')) :
    p'.source = p.source := by
  unfold ruleMatch at e
  split at e
  · cases e; rfl
  · split at e
    · split at e
      · split at e
        · cases e; rfl
        · cases e; simp
      · split at e
        · split at e
          · cases e; simp
          · cases e; rfl
        · cases e; rfl
    · split at e
      · simp only at e
        split at e
        · cases e; rfl
        · split at e
          · cases e; rfl
          · cases e
            split <;> simp
      · split at e
        · simp only at e
          split at e
          · cases e; simp
          · cases e
            split <;> simp
        · split at e
          · simp only at e
            split at e
            · split at e
              · cases e; rfl
              · cases e; simp
            · cases e; simp
          · split at e
            · split at e
              · split at e
                · cases e; rfl
                · cases e; simp
              · cases e; rfl
            · split at e
              · cases e; rfl
              · cases e

@[simp] theorem descendLoop_source (x : PExt) : ∀ (fuel : Nat) (p : LP) (parent : Nat),
    (descendLoop x fuel p parent).2.source = p.source := by
  intro fuel
  induction fuel with
  | zero => intro p parent; rfl
  | succ fuel ih =>
    intro p parent
    unfold descendLoop
    cases hc : spineGet p.root (parent + 1) with
    | none => rfl
    | some c =>
      simp only
      split
      · rfl
      · cases hr : ruleMatch x c.kind { p with depth := parent + 1, state := stateDescending } with
        | none => rfl
        | some r =>
          obtain ⟨ok, p2⟩ := r
          have h2 : p2.source = p.source := by
            have := ruleMatch_source x _ _ hr
            exact this
          simp only
          split
          · show (p2.closeContainer x _).source = p.source
            rw [closeContainer_source]; exact h2
          · split
            · exact h2
            · rw [ih]; exact h2

@[simp] theorem openNewBlocks_source (x : PExt) (p : LP) (am : Bool) : (openNewBlocks x p am).2.source = p.source := by
  unfold openNewBlocks
  split
  · simp
  · simp only
    split
    · simp
    · split <;> simp

theorem altPrep_source (p : LP) : (altPrep p).source = p.source := by
  unfold altPrep
  simp only
  split <;> rfl

theorem altCont_source (x : PExt) (blank : Bool) (q r : LP) (e : altCont x blank q = some r) : r.source = q.source := by
  unfold altCont at e
  simp only at e
  split at e
  · split at e
    · simp only [Option.some.injEq] at e; subst e; simp
    · simp only [Option.some.injEq] at e; subst e; rfl
  · split at e
    · simp only [Option.some.injEq] at e; subst e; simp
    · cases e

theorem altFinish_source (r : LP) : (altFinish r).source = r.source := by
  unfold altFinish
  simp only
  generalize (if (r.containerKind == BK.indentedCode || r.containerKind == BK.fencedCode) = true then IK.text
      else if (r.containerKind == BK.htmlBlock) = true then IK.rawHTML else IK.unparsed) = ik
  split <;> rfl

@[simp] theorem addLineText_source (x : PExt) (p : LP) : (addLineText x p).source = p.source := by
  rw [addLineText_eq]
  cases hc : altCont x p.isRestBlank (altPrep p) with
  | none => exact altPrep_source p
  | some r =>
    simp only
    rw [altFinish_source, altCont_source x _ _ _ hc, altPrep_source]

theorem processLine_source (x : PExt) (p : LP) : (processLine x p).source = p.source := by
  unfold processLine descendOpenBlocks
  simp only
  split
  · simp
  · split <;> simp

end CM.Proofs
