import CM.Proofs.EolCursor2
import CM.Proofs.EolClose
/-
C14 (a), block level — the tree operations of the line parser commute with `mapLP`:
`container`, `containerKind`, `tipKind`, `closeContainer`, `closeLastChild`, `openBlock` (with its closing loop),
`modifyContainer`, `appendInline`, `setContainerIndent`, `endBlock`.
The paragraph hook is the hypothesis `ParaCloseSim x e X p.source` (see EolClose.lean).
-/
namespace CM.Proofs
open CM CM.Model CM.Gen CM.Proofs.BT

section
variable {e X body nl : Bytes} {p : LP}

/-! ### Reading the tree -/

theorem mapLP_container : (mapLP e X p).container = mapPB (eolPosZ e X) p.container := by
  unfold LP.container
  rw [mapLP_root, mapLP_depth, spineGet_map]
  cases spineGet p.root p.depth <;> rfl

@[simp] theorem mapLP_containerKind : (mapLP e X p).containerKind = p.containerKind := by
  unfold LP.containerKind
  rw [mapLP_container, mapPB_kind]

theorem mapLP_container_label : (mapLP e X p).container.label =
    { p.container.label with start := eolPosZ e X p.container.label.start, stop := eolPosZ e X p.container.label.stop } := by
  rw [mapLP_container, mapPB_label]

theorem mapLP_container_n : (mapLP e X p).container.label.n = p.container.label.n := by rw [mapLP_container_label]
theorem mapLP_container_char : (mapLP e X p).container.label.char = p.container.label.char := by rw [mapLP_container_label]
theorem mapLP_container_indent : (mapLP e X p).container.label.indent = p.container.label.indent := by
  rw [mapLP_container_label]
theorem mapLP_container_childCount : (mapLP e X p).container.childCount = p.container.childCount := by
  rw [mapLP_container, mapPB_childCount]

theorem mapLP_containerIndent : (mapLP e X p).containerIndent = p.containerIndent := by
  unfold LP.containerIndent
  rw [mapLP_container_indent]; rfl

theorem mapLP_tipKind : (mapLP e X p).tipKind = p.tipKind := by
  unfold LP.tipKind
  rw [mapLP_root, tipDepth_map (signOK_eolPosZ e X), spineGet_map]
  cases spineGet p.root (tipDepth p.root 0) <;> simp [mapPB_kind]

/-! ### Frames: the tree operations do not touch the cursor -/

theorem source_eq_take (h : LineOK X body nl p) : p.source = X.take p.source.length :=
  List.prefix_iff_eq_take.1 h.pre

/-! ### `closeContainer`, `closeLastChild` -/

theorem headD_mapPBs (g : Int → Int) (l : List PB) (b : PB) : (mapPBs g l).headD (mapPB g b) = mapPB g (l.headD b) := by
  cases l <;> rfl

theorem mapLP_closeContainer (x : PExt) (h : LineOK X body nl p) (he : StdEol e) (hpara : ParaCloseSim x e X p.source)
    (endPos : Int) : (mapLP e X p).closeContainer x (eolPosZ e X endPos) = mapLP e X (p.closeContainer x endPos) := by
  have hsrc := source_eq_take h
  have hcb : ∀ b, closeBlock x (toEol e p.source) (eolPosZ e X endPos) (mapPB (eolPosZ e X) b) =
      mapPBs (eolPosZ e X) (closeBlock x p.source endPos b) := by
    intro b
    rw [hsrc] at hpara ⊢
    exact closeBlock_map x he _ hpara endPos b
  unfold LP.closeContainer
  by_cases hd : (p.depth == 0) = true
  · have hd' : ((mapLP e X p).depth == 0) = true := hd
    rw [if_pos hd', if_pos hd]
    have hroot : (closeBlock x (mapLP e X p).source (eolPosZ e X endPos) (mapLP e X p).root).headD (mapLP e X p).root =
        mapPB (eolPosZ e X) ((closeBlock x p.source endPos p.root).headD p.root) := by
      rw [mapLP_root, mapLP_source, hcb, headD_mapPBs]
    rw [hroot]
    rfl
  · have hd' : ¬ ((mapLP e X p).depth == 0) = true := hd
    rw [if_neg hd', if_neg hd]
    have hroot : spineReplaceLast (closeBlock x (mapLP e X p).source (eolPosZ e X endPos)) (mapLP e X p).root ((mapLP e X p).depth - 1) =
        mapPB (eolPosZ e X) (spineReplaceLast (closeBlock x p.source endPos) p.root (p.depth - 1)) := by
      rw [mapLP_root, mapLP_source, mapLP_depth, spineReplaceLast_map _ _ _ hcb]
    rw [hroot]
    rfl

theorem mapLP_closeLastChild (x : PExt) (h : LineOK X body nl p) (he : StdEol e) (hpara : ParaCloseSim x e X p.source)
    (endPos : Int) : (mapLP e X p).closeLastChild x (eolPosZ e X endPos) = mapLP e X (p.closeLastChild x endPos) := by
  have hsrc := source_eq_take h
  have hcb : ∀ b, closeBlock x (toEol e p.source) (eolPosZ e X endPos) (mapPB (eolPosZ e X) b) =
      mapPBs (eolPosZ e X) (closeBlock x p.source endPos b) := by
    intro b
    rw [hsrc] at hpara ⊢
    exact closeBlock_map x he _ hpara endPos b
  unfold LP.closeLastChild
  have hroot : spineReplaceLast (closeBlock x (mapLP e X p).source (eolPosZ e X endPos)) (mapLP e X p).root (mapLP e X p).depth =
      mapPB (eolPosZ e X) (spineReplaceLast (closeBlock x p.source endPos) p.root p.depth) := by
    rw [mapLP_root, mapLP_source, mapLP_depth, spineReplaceLast_map _ _ _ hcb]
  rw [hroot]
  rfl

theorem LineOK.closeContainer (x : PExt) (h : LineOK X body nl p) (endPos : Int) :
    LineOK X body nl (p.closeContainer x endPos) := by
  unfold LP.closeContainer
  split
  · exact h.frame rfl rfl rfl h.hi
  · exact h.frame rfl rfl rfl h.hi

theorem LineOK.closeLastChild (x : PExt) (h : LineOK X body nl p) (endPos : Int) :
    LineOK X body nl (p.closeLastChild x endPos) := h.frame rfl rfl rfl h.hi

theorem closeContainer_source (x : PExt) (p : LP) (endPos : Int) : (p.closeContainer x endPos).source = p.source := by
  unfold LP.closeContainer; split <;> rfl

/-- The start of the line as an `Int` position. -/
theorem mapLP_lineStart_cast : eolPosZ e X (p.lineStart : Int) = ((mapLP e X p).lineStart : Int) := by
  rw [eolPosZ_ofNat]; rfl

/-- The cursor as an `Int` position. -/
theorem mapLP_cursor_cast (h : LineOK X body nl p) :
    eolPosZ e X ((p.lineStart : Int) + (p.i : Int)) = ((mapLP e X p).lineStart : Int) + ((mapLP e X p).i : Int) := by
  have : ((p.lineStart : Int) + (p.i : Int)) = ((p.lineStart + p.i : Nat) : Int) := by omega
  rw [this, eolPosZ_ofNat, h.abs_pos h.hi]
  simp only [mapLP_lineStart, mapLP_i]
  omega

/-! ### `openBlock` -/

theorem mapLP_openBlockLoop (x : PExt) (he : StdEol e) (kind : Nat) : ∀ (fuel : Nat) (p : LP), LineOK X body nl p →
    ParaCloseSim x e X p.source →
    LP.openBlockLoop x kind fuel (mapLP e X p) = mapLP e X (LP.openBlockLoop x kind fuel p) ∧
      LineOK X body nl (LP.openBlockLoop x kind fuel p) ∧ (LP.openBlockLoop x kind fuel p).source = p.source := by
  intro fuel
  induction fuel with
  | zero => intro p h _; exact ⟨rfl, h, rfl⟩
  | succ fuel ih =>
    intro p h hpara
    unfold LP.openBlockLoop
    rw [mapLP_containerKind]
    by_cases h1 : canContain p.containerKind kind = true
    · rw [if_pos h1, if_pos h1]; exact ⟨rfl, h, rfl⟩
    · rw [if_neg h1, if_neg h1]
      by_cases h2 : (p.depth == 0) = true
      · have h2' : ((mapLP e X p).depth == 0) = true := h2
        rw [if_pos h2', if_pos h2, mapLP_setPanic]
        refine ⟨rfl, ?_, ?_⟩
        · unfold LP.setPanic; split
          · exact h
          · exact h.frame rfl rfl rfl h.hi
        · unfold LP.setPanic; split <;> rfl
      · have h2' : ¬ ((mapLP e X p).depth == 0) = true := h2
        rw [if_neg h2', if_neg h2]
        have hc := mapLP_closeContainer x h he hpara (p.lineStart : Int)
        rw [mapLP_lineStart_cast] at hc
        rw [hc]
        have hs := closeContainer_source x p (p.lineStart : Int)
        obtain ⟨a1, a2, a3⟩ := ih (p.closeContainer x p.lineStart) (h.closeContainer x _) (by rw [hs]; exact hpara)
        exact ⟨a1, a2, by rw [a3, hs]⟩

theorem markMatched_source (p : LP) : p.markMatched.source = p.source := by rw [markMatched_eq]

theorem LineOK.markMatched (h : LineOK X body nl p) : LineOK X body nl p.markMatched := by
  rw [markMatched_eq]; exact h.frame rfl rfl rfl h.hi

/-- Label attributes set by the `Open…Block` wrappers do not involve positions. -/
theorem mapLP_openBlock (x : PExt) (h : LineOK X body nl p) (he : StdEol e) (hpara : ParaCloseSim x e X p.source)
    (kind : Nat) (setAttrs : PLabel → PLabel) (hf : PosFree setAttrs) :
    (mapLP e X p).openBlock x kind setAttrs = mapLP e X (p.openBlock x kind setAttrs) := by
  unfold LP.openBlock
  by_cases h1 : (p.state == stateDescending || p.state == stateDescendTerminated) = true
  · have h1' : ((mapLP e X p).state == stateDescending || (mapLP e X p).state == stateDescendTerminated) = true := h1
    rw [if_pos h1', if_pos h1, mapLP_setPanic]
  · have h1' : ¬ ((mapLP e X p).state == stateDescending || (mapLP e X p).state == stateDescendTerminated) = true := h1
    rw [if_neg h1', if_neg h1]
    simp only []
    rw [mapLP_markMatched]
    have hq := h.markMatched
    have hqs := markMatched_source p
    rw [← hqs] at hpara
    generalize p.markMatched = q at hq hpara
    obtain ⟨a1, a2, a3⟩ := mapLP_openBlockLoop x he kind (q.depth + 1) q hq hpara
    rw [mapLP_depth, a1]
    rw [← a3] at hpara
    generalize LP.openBlockLoop x kind (q.depth + 1) q = q2 at a2 hpara
    have hc := mapLP_closeLastChild x a2 he hpara (q2.lineStart : Int)
    rw [mapLP_lineStart_cast] at hc
    rw [hc]
    have hq3 := a2.closeLastChild x (q2.lineStart : Int)
    generalize q2.closeLastChild x (q2.lineStart : Int) = q3 at hq3
    -- the new child
    have hchild : (PB.mk (setAttrs { kind := kind, start := ((mapLP e X q3).lineStart : Int) + ((mapLP e X q3).i : Int) }) [] []) =
        mapPB (eolPosZ e X) (PB.mk (setAttrs { kind := kind, start := (q3.lineStart : Int) + (q3.i : Int) }) [] []) := by
      rw [mapPB]
      have hl := hf { kind := kind, start := (q3.lineStart : Int) + (q3.i : Int) }
        (eolPosZ e X ((q3.lineStart : Int) + (q3.i : Int))) (eolPosZ e X (-1))
      have hl0 := hf { kind := kind, start := (q3.lineStart : Int) + (q3.i : Int) }
        ((q3.lineStart : Int) + (q3.i : Int)) (-1)
      have hid : ({ ({ kind := kind, start := (q3.lineStart : Int) + (q3.i : Int) } : PLabel) with
          start := (q3.lineStart : Int) + (q3.i : Int), stop := -1 } : PLabel) =
          { kind := kind, start := (q3.lineStart : Int) + (q3.i : Int) } := rfl
      rw [hid] at hl0
      have hs1 : (setAttrs { kind := kind, start := (q3.lineStart : Int) + (q3.i : Int) }).start =
          (q3.lineStart : Int) + (q3.i : Int) := by rw [hl0]
      have hs2 : (setAttrs { kind := kind, start := (q3.lineStart : Int) + (q3.i : Int) }).stop = -1 := by rw [hl0]
      rw [hs1, hs2, ← hl, mapLP_cursor_cast hq3, eolPosZ_neg_one]
      rfl
    rw [hchild]
    simp only [mapLP]
    congr 1
    apply spineModify_map
    intro b
    obtain ⟨l, bs, is⟩ := b
    simp only [mapPB, mapPBs_append, mapPBs_singleton]

theorem LineOK.openBlockLoop (x : PExt) (kind : Nat) : ∀ (fuel : Nat) (p : LP), LineOK X body nl p →
    LineOK X body nl (LP.openBlockLoop x kind fuel p) ∧ (LP.openBlockLoop x kind fuel p).source = p.source := by
  intro fuel
  induction fuel with
  | zero => intro p h; exact ⟨h, rfl⟩
  | succ fuel ih =>
    intro p h
    unfold LP.openBlockLoop
    split
    · exact ⟨h, rfl⟩
    · split
      · unfold LP.setPanic; split
        · exact ⟨h, rfl⟩
        · exact ⟨h.frame rfl rfl rfl h.hi, rfl⟩
      · obtain ⟨a1, a2⟩ := ih _ (h.closeContainer x (p.lineStart : Int))
        exact ⟨a1, by rw [a2, closeContainer_source]⟩

theorem LineOK.openBlock (x : PExt) (h : LineOK X body nl p) (kind : Nat) (setAttrs : PLabel → PLabel) :
    LineOK X body nl (p.openBlock x kind setAttrs) ∧ (p.openBlock x kind setAttrs).source = p.source := by
  unfold LP.openBlock
  split
  · unfold LP.setPanic; split
    · exact ⟨h, rfl⟩
    · exact ⟨h.frame rfl rfl rfl h.hi, rfl⟩
  · simp only []
    obtain ⟨a1, a2⟩ := LineOK.openBlockLoop x kind (p.markMatched.depth + 1) p.markMatched h.markMatched
    have a3 := a1.closeLastChild x ((LP.openBlockLoop x kind (p.markMatched.depth + 1) p.markMatched).lineStart : Int)
    exact ⟨a3.frame rfl rfl rfl a3.hi, by
      show (LP.closeLastChild x _ _).source = _
      show (LP.openBlockLoop x kind (p.markMatched.depth + 1) p.markMatched).source = _
      rw [a2, markMatched_source]⟩

/-! ### `modifyContainer`, `appendInline`, `setContainerIndent`, `endBlock` -/

theorem mapLP_modifyContainer (f f' : PB → PB) (hf : ∀ b, f' (mapPB (eolPosZ e X) b) = mapPB (eolPosZ e X) (f b)) :
    (mapLP e X p).modifyContainer f' = mapLP e X (p.modifyContainer f) := by
  unfold LP.modifyContainer
  rw [mapLP_root, mapLP_depth, spineModify_map _ _ _ hf]
  rfl

theorem mapLP_appendInline (t : Tree) :
    (mapLP e X p).appendInline (mapTree (eolPosZ e X) t) = mapLP e X (p.appendInline t) := by
  unfold LP.appendInline
  apply mapLP_modifyContainer
  intro b
  obtain ⟨l, bs, is⟩ := b
  simp only [mapPB, mapTrees_append, mapTrees_singleton]

theorem mapLP_modifyContainer_setLabel (f : PLabel → PLabel) (hf : PosFree f) :
    (mapLP e X p).modifyContainer (PB.setLabel f) = mapLP e X (p.modifyContainer (PB.setLabel f)) :=
  mapLP_modifyContainer _ _ (fun b => (mapPB_setLabel _ hf b).symm)

theorem LineOK.modifyContainer (h : LineOK X body nl p) (f : PB → PB) : LineOK X body nl (p.modifyContainer f) :=
  h.frame rfl rfl rfl h.hi

theorem LineOK.appendInline (h : LineOK X body nl p) (t : Tree) : LineOK X body nl (p.appendInline t) :=
  h.frame rfl rfl rfl h.hi

theorem LineOK.setPanic (h : LineOK X body nl p) (m : String) : LineOK X body nl (p.setPanic m) := by
  unfold LP.setPanic; split
  · exact h
  · exact h.frame rfl rfl rfl h.hi

theorem mapLP_setContainerIndent (n : Int) :
    (mapLP e X p).setContainerIndent n = mapLP e X (p.setContainerIndent n) := by
  unfold LP.setContainerIndent
  by_cases h1 : (p.state == stateOpening || p.state == stateDescending || p.state == stateDescendTerminated) = true
  · have h1' : ((mapLP e X p).state == stateOpening || (mapLP e X p).state == stateDescending ||
        (mapLP e X p).state == stateDescendTerminated) = true := h1
    rw [if_pos h1', if_pos h1, mapLP_setPanic]
  · have h1' : ¬ ((mapLP e X p).state == stateOpening || (mapLP e X p).state == stateDescending ||
        (mapLP e X p).state == stateDescendTerminated) = true := h1
    rw [if_neg h1', if_neg h1, mapLP_containerKind]
    by_cases h2 : (p.containerKind != BK.listItem && p.containerKind != BK.fencedCode) = true
    · rw [if_pos h2, if_pos h2, mapLP_setPanic]
    · rw [if_neg h2, if_neg h2]
      exact mapLP_modifyContainer_setLabel _ (fun l a b => rfl)

theorem LineOK.setContainerIndent (h : LineOK X body nl p) (n : Int) : LineOK X body nl (p.setContainerIndent n) := by
  unfold LP.setContainerIndent
  split
  · exact h.setPanic _
  · split
    · exact h.setPanic _
    · exact h.modifyContainer _

theorem mapLP_endBlock (x : PExt) (h : LineOK X body nl p) (he : StdEol e) (hpara : ParaCloseSim x e X p.source) :
    (mapLP e X p).endBlock x = mapLP e X (p.endBlock x) := by
  unfold LP.endBlock
  by_cases h1 : (p.state == stateDescending || p.state == stateDescendTerminated) = true
  · have h1' : ((mapLP e X p).state == stateDescending || (mapLP e X p).state == stateDescendTerminated) = true := h1
    rw [if_pos h1', if_pos h1, mapLP_setPanic]
  · have h1' : ¬ ((mapLP e X p).state == stateDescending || (mapLP e X p).state == stateDescendTerminated) = true := h1
    rw [if_neg h1', if_neg h1]
    simp only []
    rw [mapLP_markMatched]
    have hq := h.markMatched
    rw [← markMatched_source p] at hpara
    generalize p.markMatched = q at hq hpara
    have := mapLP_closeContainer x hq he hpara ((q.lineStart : Int) + (q.i : Int))
    rw [mapLP_cursor_cast hq] at this
    exact this

theorem LineOK.endBlock (x : PExt) (h : LineOK X body nl p) : LineOK X body nl (p.endBlock x) := by
  unfold LP.endBlock
  split
  · exact h.setPanic _
  · exact h.markMatched.closeContainer x _

theorem endBlock_source (x : PExt) (p : LP) : (p.endBlock x).source = p.source := by
  unfold LP.endBlock
  split
  · unfold LP.setPanic; split <;> rfl
  · simp only []; rw [closeContainer_source, markMatched_source]

end

end CM.Proofs
