import CM.Proofs.InlShapeSiteRun
/-
C13, inline half — emphasis, strong emphasis, links, images: the state invariant.
`StkE`: every entry of the delimiter stack points to its own Text node, which lies inside the source and consists of the
entry's delimiter only (`*`…, `_`…, `[`, `![`) and is not empty (except for the nodes in `E`, while `processEmphasis`
is between shrinking a delimiter and removing it).  `EmNodes`: every Emphasis / Strong node starts and ends with one /
two equal delimiter bytes, every Link starts with `[`, every Image with `![`, and both end with `]` or `)` (except the
nodes in `X`: a link between `wrap` and the assignment of its span).  Part 1: definitions and pure lemmas.
-/
namespace CM.Proofs.InlH
open CM CM.Model CM.Model.Inl

/-- all source bytes in `[a, b)` are `ch` -/
def AllCh (c : ICtx) (ch : UInt8) (a b : Int) : Prop := ∀ q : Nat, a ≤ (q : Int) → (q : Int) < b → c.srcA[q]! = ch

theorem AllCh.mono {c : ICtx} {ch : UInt8} {a b a' b' : Int} (h : AllCh c ch a b) (ha : a ≤ a') (hb : b' ≤ b) :
    AllCh c ch a' b' := fun q h1 h2 => h q (by omega) (by omega)

/-- what the Text node `[a, b)` of a stack entry of type `typ` consists of -/
def DelimChars (c : ICtx) (typ : Int) (a b : Int) : Prop :=
  (typ = 1 ∧ AllCh c 0x2A a b) ∨ (typ = 2 ∧ AllCh c 0x5F a b) ∨
  (typ = 3 ∧ b = a + 1 ∧ c.srcA[a.toNat]! = 0x5B) ∨
  (typ = 4 ∧ b = a + 2 ∧ c.srcA[a.toNat]! = 0x21 ∧ c.srcA[(a + 1).toNat]! = 0x5B)

structure DelimW (c : ICtx) (e : DelimE) (n : INode) : Prop where
  kind : n.kind = IK.text
  lo : 0 ≤ n.start
  le : n.start ≤ n.stop
  hi : n.stop ≤ c.srcA.size
  chars : DelimChars c e.elem.typ n.start n.stop

/-- The stack invariant (`E`: the nodes that may be empty). -/
structure StkE (c : ICtx) (E : Nat → Prop) (a : Array INode) (st : Array DelimE) : Prop where
  ok : ∀ e ∈ st, e.node < a.size ∧ DelimW c e (a[e.node]!)
  ne : ∀ e ∈ st, ¬ E e.node → (a[e.node]!).start < (a[e.node]!).stop
  inj : (st.toList.map (·.node)).Nodup

/-- an Emphasis (`w = 1`) / Strong (`w = 2`) node `[a, b)`: `w` equal delimiter bytes at both ends -/
def EmAt (c : ICtx) (w : Nat) (a b : Int) : Prop :=
  ∃ ch : UInt8, (ch = 0x2A ∨ ch = 0x5F) ∧ 0 ≤ a ∧ b ≤ c.srcA.size ∧ AllCh c ch a (a + w) ∧ AllCh c ch (b - w) b

/-- the end of a link / image: `]` or `)` -/
def EndAt (c : ICtx) (b : Int) : Prop := 1 ≤ b ∧ (c.srcA[(b - 1).toNat]! = 0x5D ∨ c.srcA[(b - 1).toNat]! = 0x29)

def LinkAt (c : ICtx) (a b : Int) : Prop := 0 ≤ a ∧ c.srcA[a.toNat]! = 0x5B ∧ EndAt c b

def ImageAt (c : ICtx) (a b : Int) : Prop :=
  0 ≤ a ∧ c.srcA[a.toNat]! = 0x21 ∧ c.srcA[(a + 1).toNat]! = 0x5B ∧ EndAt c b

/-- The per-node clause (`Q`: what is known of nodes taken over from the block phase). -/
def EmP (c : ICtx) (Q : Nat → Int → Int → Prop) (n : INode) : Prop :=
  Q n.kind n.start n.stop ∨
  ((n.kind = IK.emphasis → EmAt c 1 n.start n.stop) ∧ (n.kind = IK.strong → EmAt c 2 n.start n.stop) ∧
   (n.kind = IK.link → LinkAt c n.start n.stop) ∧ (n.kind = IK.image → ImageAt c n.start n.stop))

theorem EmP.other {c : ICtx} {Q : Nat → Int → Int → Prop} {n : INode} (h1 : n.kind ≠ IK.emphasis) (h2 : n.kind ≠ IK.strong)
    (h3 : n.kind ≠ IK.link) (h4 : n.kind ≠ IK.image) : EmP c Q n :=
  Or.inr ⟨fun h => absurd h h1, fun h => absurd h h2, fun h => absurd h h3, fun h => absurd h h4⟩

/-- `f` keeps kind and span. -/
def FPres (f : INode → INode) : Prop := ∀ n, (f n).kind = n.kind ∧ (f n).start = n.start ∧ (f n).stop = n.stop

theorem EmP.congr {c : ICtx} {Q : Nat → Int → Int → Prop} {n m : INode} (h : EmP c Q n)
    (hk : m.kind = n.kind) (hs : m.start = n.start) (he : m.stop = n.stop) : EmP c Q m := by
  unfold EmP at *
  rw [hk, hs, he]; exact h

/-- every arena node outside `X` has its clause -/
def EmNodes (c : ICtx) (Q : Nat → Int → Int → Prop) (X : Nat → Prop) (a : Array INode) : Prop :=
  ∀ i, (h : i < a.size) → X i ∨ EmP c Q a[i]

/-! ### arrays -/

theorem get!_modify_ne {a : Array INode} {i j : Nat} {f : INode → INode} (h : i ≠ j) : (a.modify i f)[j]! = a[j]! := by
  by_cases hj : j < a.size
  · rw [getElem!_pos (a.modify i f) j (by simpa using hj), getElem!_pos a j hj, Array.getElem_modify, if_neg h]
  · rw [getElem!_neg (a.modify i f) j (by simpa using hj), getElem!_neg a j hj]

theorem get!_modify_eq {a : Array INode} {i : Nat} {f : INode → INode} (h : i < a.size) : (a.modify i f)[i]! = f a[i]! := by
  rw [getElem!_pos (a.modify i f) i (by simpa using h), getElem!_pos a i h, Array.getElem_modify, if_pos rfl]

theorem get!_push_lt' {a : Array INode} {n : INode} {i : Nat} (h : i < a.size) : (a.push n)[i]! = a[i]! :=
  getElem!_push_lt h

/-! ### `EmNodes` -/

theorem EmNodes.push {c : ICtx} {Q : Nat → Int → Int → Prop} {X : Nat → Prop} {a : Array INode} {n : INode}
    (h : EmNodes c Q X a) (hn : X a.size ∨ EmP c Q n) : EmNodes c Q X (a.push n) := by
  intro i hi
  rw [Array.getElem_push]
  split
  · exact h i _
  · rename_i hlt
    have : i = a.size := by simp only [Array.size_push] at hi; omega
    subst this
    exact hn

theorem EmNodes.modify {c : ICtx} {Q : Nat → Int → Int → Prop} {X : Nat → Prop} {a : Array INode} {id : Nat}
    {f : INode → INode} (h : EmNodes c Q X a) (hf : ∀ (hid : id < a.size), X id ∨ EmP c Q a[id] → X id ∨ EmP c Q (f a[id])) :
    EmNodes c Q X (a.modify id f) := by
  intro i hi
  simp only [Array.size_modify] at hi
  simp only [Array.getElem_modify]
  split
  · rename_i heq; subst heq; exact hf hi (h _ hi)
  · exact h i hi

theorem EmNodes.modify_pres {c : ICtx} {Q : Nat → Int → Int → Prop} {X : Nat → Prop} {a : Array INode} {id : Nat}
    {f : INode → INode} (h : EmNodes c Q X a) (hf : FPres f) : EmNodes c Q X (a.modify id f) :=
  h.modify fun _ hx => hx.imp (fun hx => hx) (fun hp => hp.congr (hf _).1 (hf _).2.1 (hf _).2.2)

/-- a Text node (or the root) changes its span -/
theorem EmNodes.modify_text {c : ICtx} {Q : Nat → Int → Int → Prop} {X : Nat → Prop} {a : Array INode} {id : Nat}
    {f : INode → INode} (h : EmNodes c Q X a) (hk : ∀ n, (f n).kind = n.kind) (hid : id < a.size → (a[id]!).kind ≤ 1) :
    EmNodes c Q X (a.modify id f) := by
  refine h.modify fun hlt _ => Or.inr ?_
  have h1 := hid hlt
  rw [getElem!_pos a id hlt] at h1
  have h2 := hk a[id]
  refine EmP.other ?_ ?_ ?_ ?_ <;> (rw [h2]; intro h'; rw [h'] at h1; exact absurd h1 (by decide))

theorem EmNodes.mono {c : ICtx} {Q : Nat → Int → Int → Prop} {X Y : Nat → Prop} {a : Array INode}
    (h : EmNodes c Q X a) (hxy : ∀ i (hi : i < a.size), X i → Y i ∨ EmP c Q a[i]) : EmNodes c Q Y a := by
  intro i hi
  rcases h i hi with h' | h'
  · exact hxy i hi h'
  · exact Or.inr h'

/-! ### `StkE` -/

section
variable {c : ICtx} {E : Nat → Prop} {a : Array INode} {st : Array DelimE}

theorem StkE.pushN {n : INode} (h : StkE c E a st) : StkE c E (a.push n) st := by
  refine ⟨fun e he => ?_, fun e he hE => ?_, h.inj⟩
  · obtain ⟨h1, h2⟩ := h.ok e he
    refine ⟨by simp only [Array.size_push]; omega, ?_⟩
    rw [getElem!_push_lt h1]; exact h2
  · rw [getElem!_push_lt (h.ok e he).1]; exact h.ne e he hE

/-- a node that is not on the stack changes -/
theorem StkE.modify_off {id : Nat} {f : INode → INode} (h : StkE c E a st) (hoff : ∀ e ∈ st, e.node ≠ id) :
    StkE c E (a.modify id f) st := by
  refine ⟨fun e he => ?_, fun e he hE => ?_, h.inj⟩
  · obtain ⟨h1, h2⟩ := h.ok e he
    refine ⟨by simpa using h1, ?_⟩
    rw [get!_modify_ne (hoff e he).symm]; exact h2
  · rw [get!_modify_ne (hoff e he).symm]; exact h.ne e he hE

/-- a node changes, but not its kind or span -/
theorem StkE.modify_pres {id : Nat} {f : INode → INode} (h : StkE c E a st) (hf : FPres f) :
    StkE c E (a.modify id f) st := by
  have key : ∀ j, j < a.size → ((a.modify id f)[j]!).kind = (a[j]!).kind ∧ ((a.modify id f)[j]!).start = (a[j]!).start ∧
      ((a.modify id f)[j]!).stop = (a[j]!).stop := by
    intro j hj
    by_cases hij : id = j
    · subst hij; rw [get!_modify_eq hj]; exact hf _
    · rw [get!_modify_ne hij]; exact ⟨rfl, rfl, rfl⟩
  refine ⟨fun e he => ?_, fun e he hE => ?_, h.inj⟩
  · obtain ⟨h1, h2⟩ := h.ok e he
    obtain ⟨k1, k2, k3⟩ := key e.node h1
    refine ⟨by simpa using h1, ⟨by rw [k1]; exact h2.kind, by rw [k2]; exact h2.lo, by rw [k2, k3]; exact h2.le,
      by rw [k3]; exact h2.hi, by rw [k2, k3]; exact h2.chars⟩⟩
  · obtain ⟨k1, k2, k3⟩ := key e.node (h.ok e he).1
    rw [k2, k3]; exact h.ne e he hE

theorem StkE.mono (h : StkE c E a st) {E' : Nat → Prop}
    (hE : ∀ e ∈ st, E e.node → ¬ E' e.node → (a[e.node]!).start < (a[e.node]!).stop) : StkE c E' a st := by
  refine ⟨h.ok, fun e he hE' => ?_, h.inj⟩
  by_cases hx : E e.node
  · exact hE e he hx hE'
  · exact h.ne e he hx

theorem sublist_take_drop {α} (l : List α) (i j : Nat) (hij : i ≤ j) : (l.take i ++ l.drop j).Sublist l := by
  have h1 : l = l.take i ++ l.drop i := (List.take_append_drop i l).symm
  have h2 : (l.drop j).Sublist (l.drop i) := by
    have : l.drop j = (l.drop i).drop (j - i) := by rw [List.drop_drop]; congr 1; omega
    rw [this]; exact List.drop_sublist _ _
  calc (l.take i ++ l.drop j).Sublist (l.take i ++ l.drop i) := List.Sublist.append (List.Sublist.refl _) h2
    _ = l := h1.symm

/-- a sub-stack -/
theorem StkE.sub {st' : Array DelimE} (h : StkE c E a st) (hs : st'.toList.Sublist st.toList) : StkE c E a st' := by
  have hm : ∀ e ∈ st', e ∈ st := fun e he => Array.mem_toList_iff.1 (hs.subset (Array.mem_toList_iff.2 he))
  exact ⟨fun e he => h.ok e (hm e he), fun e he => h.ne e (hm e he), (hs.map _).nodup h.inj⟩

theorem toList_del (st : Array DelimE) (i j : Nat) :
    (st.extract 0 i ++ st.extract j st.size).toList = st.toList.take i ++ st.toList.drop j := by
  simp only [Array.toList_append, Array.toList_extract, List.extract_eq_take_drop, Nat.sub_zero, List.drop_zero]
  congr 1
  apply List.take_of_length_le
  simp
/-- `delStack i j` -/
theorem StkE.del (h : StkE c E a st) (i j : Nat) (hij : i ≤ j) :
    StkE c E a (st.extract 0 i ++ st.extract j st.size) :=
  h.sub (by rw [toList_del]; exact sublist_take_drop _ i j hij)

/-- a new entry for a fresh node -/
theorem StkE.pushE {e : DelimE} (h : StkE c E a st) (hlt : e.node < a.size) (hw : DelimW c e (a[e.node]!))
    (hne : (a[e.node]!).start < (a[e.node]!).stop) (hfresh : ∀ x ∈ st, x.node ≠ e.node) : StkE c E a (st.push e) := by
  refine ⟨fun x hx => ?_, fun x hx hE => ?_, ?_⟩
  · rcases Array.mem_push.1 hx with h' | rfl
    · exact h.ok x h'
    · exact ⟨hlt, hw⟩
  · rcases Array.mem_push.1 hx with h' | rfl
    · exact h.ne x h' hE
    · exact hne
  · rw [Array.toList_push, List.map_append, List.nodup_append]
    refine ⟨h.inj, by simp, ?_⟩
    intro x hx y hy
    simp only [List.map_cons, List.map_nil, List.mem_singleton] at hy
    obtain ⟨z, hz, rfl⟩ := List.mem_map.1 hx
    subst hy
    exact hfresh z (Array.mem_toList_iff.1 hz)

/-- two entries with the same node are the same entry -/
theorem inj_of_nodup_map {α β} (f : α → β) : ∀ (l : List α), (l.map f).Nodup → ∀ x ∈ l, ∀ y ∈ l, f x = f y → x = y := by
  intro l
  induction l with
  | nil => intro _ x hx; cases hx
  | cons a r ih =>
    intro h x hx y hy hxy
    rw [List.map_cons, List.nodup_cons] at h
    rcases List.mem_cons.1 hx with hxa | hx' <;> rcases List.mem_cons.1 hy with hya | hy'
    · rw [hxa, hya]
    · exfalso; apply h.1; rw [← hxa, hxy]; exact List.mem_map_of_mem hy'
    · exfalso; apply h.1; rw [← hya, ← hxy]; exact List.mem_map_of_mem hx'
    · exact ih h.2 x hx' y hy' hxy

theorem StkE.entry_eq (h : StkE c E a st) {x y : DelimE} (hx : x ∈ st) (hy : y ∈ st) (hn : x.node = y.node) : x = y :=
  inj_of_nodup_map _ _ h.inj x (Array.mem_toList_iff.2 hx) y (Array.mem_toList_iff.2 hy) hn

/-- the Text node of an emphasis delimiter shrinks (it may become empty) -/
theorem StkE.shrink1 (h : StkE c E a st) {e : DelimE} (he : e ∈ st) (hte : e.elem.typ = 1 ∨ e.elem.typ = 2)
    (f : INode → INode) (hk : (f (a[e.node]!)).kind = (a[e.node]!).kind)
    (h1 : (a[e.node]!).start ≤ (f (a[e.node]!)).start) (h2 : (f (a[e.node]!)).stop ≤ (a[e.node]!).stop)
    (h3 : (f (a[e.node]!)).start ≤ (f (a[e.node]!)).stop) :
    StkE c (fun x => E x ∨ x = e.node) (a.modify e.node f) st := by
  have hlt := (h.ok e he).1
  refine ⟨fun x hx => ?_, fun x hx hE => ?_, h.inj⟩
  · by_cases hxe : x.node = e.node
    · have := h.entry_eq hx he hxe
      subst this
      obtain ⟨_, hw⟩ := h.ok x hx
      refine ⟨by simpa using hlt, ?_⟩
      rw [get!_modify_eq hlt]
      refine ⟨by rw [hk]; exact hw.kind, by have := hw.lo; omega, h3, by have := hw.hi; omega, ?_⟩
      rcases hw.chars with ⟨ht, hc⟩ | ⟨ht, hc⟩ | ⟨ht, _⟩ | ⟨ht, _⟩
      · exact Or.inl ⟨ht, hc.mono h1 h2⟩
      · exact Or.inr (Or.inl ⟨ht, hc.mono h1 h2⟩)
      · rcases hte with h' | h' <;> omega
      · rcases hte with h' | h' <;> omega
    · obtain ⟨h1', h2'⟩ := h.ok x hx
      refine ⟨by simpa using h1', ?_⟩
      rw [get!_modify_ne (fun h' => hxe h'.symm)]; exact h2'
  · have hxe : x.node ≠ e.node := fun h' => hE (Or.inr h')
    rw [get!_modify_ne (fun h' => hxe h'.symm)]
    exact h.ne x hx (fun h' => hE (Or.inl h'))

/-- an entry is replaced by one for the same node with the same type -/
theorem StkE.set!_same (h : StkE c E a st) (i : Nat) (e' : DelimE) (hn : e'.node = (st[i]!).node)
    (ht : e'.elem.typ = (st[i]!).elem.typ) : StkE c E a (st.set! i e') := by
  by_cases hi : i < st.size
  · rw [getElem!_pos st i hi] at hn ht
    have hmem : st[i] ∈ st := Array.getElem_mem hi
    refine ⟨fun x hx => ?_, fun x hx hE => ?_, ?_⟩
    · rw [Array.set!_eq_setIfInBounds] at hx
      rcases Array.mem_or_eq_of_mem_setIfInBounds hx with h' | rfl
      · exact h.ok x h'
      · obtain ⟨k1, k2⟩ := h.ok _ hmem
        rw [hn]
        exact ⟨k1, ⟨k2.kind, k2.lo, k2.le, k2.hi, by rw [ht]; exact k2.chars⟩⟩
    · rw [Array.set!_eq_setIfInBounds] at hx
      rcases Array.mem_or_eq_of_mem_setIfInBounds hx with h' | rfl
      · exact h.ne x h' hE
      · rw [hn] at hE ⊢; exact h.ne _ hmem hE
    · have : (st.set! i e').toList.map (·.node) = st.toList.map (·.node) := by
        rw [Array.set!_eq_setIfInBounds, Array.toList_setIfInBounds, List.map_set, hn]
        apply List.ext_getElem?
        intro k
        rw [List.getElem?_set]
        split
        · rename_i hik
          subst hik
          simp [hi]
        · rfl
      rw [this]; exact h.inj
  · rw [Array.set!_eq_setIfInBounds, Array.setIfInBounds_eq_of_size_le (by omega)]
    exact h

/-- the entry at index `i` is deleted: no entry for its node is left -/
theorem StkE.erase (h : StkE c E a st) (i : Nat) (hi : i < st.size) :
    StkE c (fun x => E x ∧ x ≠ st[i].node) a (st.extract 0 i ++ st.extract (i + 1) st.size) := by
  have hd := h.del i (i + 1) (by omega)
  refine ⟨hd.ok, fun e he hE => ?_, hd.inj⟩
  by_cases hx : E e.node
  · exfalso
    have hne : e.node = st[i].node := by
      by_cases h' : e.node = st[i].node
      · exact h'
      · exact absurd ⟨hx, h'⟩ hE
    -- `e` is in `take i ++ drop (i+1)`, and `st[i]` is not, by `Nodup`
    have hl : st.toList = st.toList.take i ++ st[i] :: st.toList.drop (i + 1) := by
      have hi' : i < st.toList.length := by simpa using hi
      have e1 := (List.take_append_drop i st.toList).symm
      rw [List.drop_eq_getElem_cons hi'] at e1
      simpa using e1
    have hnd := h.inj
    rw [hl, List.map_append, List.map_cons] at hnd
    have hmem : e ∈ st.toList.take i ++ st.toList.drop (i + 1) := by
      rw [← toList_del]; exact Array.mem_toList_iff.2 he
    rw [List.nodup_append] at hnd
    obtain ⟨_, hnd2, hdis⟩ := hnd
    rcases List.mem_append.1 hmem with hm | hm
    · exact hdis _ (List.mem_map_of_mem hm) _ (List.mem_cons_self ..) hne
    · rw [List.nodup_cons] at hnd2
      exact hnd2.1 (hne ▸ List.mem_map_of_mem hm)
  · refine h.ne e (Array.mem_toList_iff.1 ((sublist_take_drop _ i (i + 1) (by omega)).subset ?_)) hx
    rw [← toList_del]; exact Array.mem_toList_iff.2 he

end

end CM.Proofs.InlH
