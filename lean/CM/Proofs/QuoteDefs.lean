import CM.Proofs.QuoteCut
/-
C09 (block-quote half), the statement: `quote D` prefixes every line of `D` (lines end at LF) with `> `;
`psiS` / `psiE` map the offsets of `D` to offsets of `quote D` (`psiS` for the first byte of something: behind the
prefix of the line it is on; `psiE` for an end: a block that ends where a line starts ends *before* that line's prefix).

* `blocks_quote_sim_target` — the exact statement: the block phase of `quote D` delivers one block quote whose children
  are the blocks of `D` with every span mapped through `psiS` / `psiE`.
* `blocks_quote_sim_target_false` — it fails, with two kinds of witnesses, both about link reference definitions:
    - `[a]: /u` followed by a setext underline: the synthetic paragraph for the underline starts at the *line start* on
      both sides, i.e. before the `> ` on the prefixed side (its Unparsed child is placed correctly);
    - a link title (or label) that continues on the next line is one Text node in `D` and one Text node per line in
      `quote D` (the line-jumping reader ends a text node at every jump over a prefix).
* `QuoteRelated` — the relational statement that is true (proved in `QuoteStream.lean`): kinds, attributes and nesting
  agree, every end corresponds through `psiS` or `psiE`, per-line inline nodes have the same bytes.
-/
namespace CM.Proofs.Quote
open CM CM.Model CM.Gen

/-- No tab, no carriage return, no NUL. -/
def Clean (D : Bytes) : Prop := ∀ c ∈ D, c ≠ TAB ∧ c ≠ CR ∧ c ≠ 0

instance (D : Bytes) : Decidable (Clean D) := by unfold Clean; infer_instance

/-- `quote`, behind the prefix of the current line. -/
def qgo : Bytes → Bytes
  | [] => []
  | c :: rest => if c = LF then (if rest = [] then [LF] else LF :: GT :: SP :: qgo rest) else c :: qgo rest

/-- Every line of `D` (blank lines included) prefixed with `> `. -/
def quote (D : Bytes) : Bytes := if D = [] then [] else GT :: SP :: qgo D

/-- Number of line feeds among the first `j` bytes. -/
def nLF (D : Bytes) (j : Nat) : Nat := ((D.take j).filter (· == LF)).length

/-- Position map for starts: behind the prefixes of all lines that start at or before `j`. -/
def psiS (D : Bytes) (j : Nat) : Nat := j + 2 * (1 + nLF D j)

/-- Position map for ends: behind the prefixes of all lines that start before `j`. -/
def psiE (D : Bytes) (j : Nat) : Nat := if j = 0 then 0 else j + 2 * (1 + nLF D (j - 1))

/-! ### the exact statement, as a Boolean check -/

mutual
def mapTree (D : Bytes) (off : Nat) : Tree → Tree
  | .node l cs => .node { l with start := psiS D (l.start.toNat + off), stop := psiE D (l.stop.toNat + off) } (mapTrees D off cs)
def mapTrees (D : Bytes) (off : Nat) : List Tree → List Tree
  | [] => []
  | t :: ts => mapTree D off t :: mapTrees D off ts
end

def runBlocks (x : PExt) (inp : Bytes) : List Root × NBOut × BP := drain (blocksLP x) (inp.length + 8) (memParser inp) []

/-- What the exact statement predicts for `quote D`. -/
def quoteExpected (x : PExt) (D : Bytes) : List Tree :=
  [.node { isBlock := true, kind := BK.blockQuote, start := 0, stop := (quote D).length }
    ((runBlocks x D).1.map fun r => mapTree D r.startOffset (pbToTree r.block))]

def quoteActual (x : PExt) (D : Bytes) : List Tree := (runBlocks x (quote D)).1.map fun r => pbToTree r.block

mutual
/-- Equality of trees (all label fields, all children). -/
def eqT : Tree → Tree → Bool
  | .node l cs, t' => decide (l = t'.label) && eqTs cs t'.children
def eqTs : List Tree → List Tree → Bool
  | [], ts' => ts'.isEmpty
  | t :: ts, ts' => match ts' with
    | [] => false
    | t' :: r' => eqT t t' && eqTs ts r'
end

def quoteExact (x : PExt) (D : Bytes) : Bool := eqTs (quoteExpected x D) (quoteActual x D)

/-- **The exact block-phase statement of C09 (block quotes).** -/
def blocks_quote_sim_target : Prop := ∀ (x : PExt) (D : Bytes), Clean D → D ≠ [] → quoteExact x D = true

def qX : PExt := { ext := { unescape := fun s => s }, fold := fun b => b }

/-- `[a]: /u` + setext underline. -/
def qW1 : Bytes := Bytes.ofString "[a]: /u\n==="
/-- a title continued on the next line. -/
def qW2 : Bytes := Bytes.ofString "[a]: /u 'x\ny'"

/-- The starts of the children of each tree. -/
def childStarts (ts : List Tree) : List (List Int) := ts.map fun t => t.children.map fun c => c.label.start

theorem eqT_label : ∀ (t t' : Tree), eqT t t' = true → t.label = t'.label
  | .node l cs, t', h => by
    simp only [eqT, Bool.and_eq_true, decide_eq_true_eq] at h
    exact h.1

theorem eqTs_starts : ∀ (ts ts' : List Tree), eqTs ts ts' = true → ts.map (fun c => c.label.start) = ts'.map (fun c => c.label.start)
  | [], ts', h => by
    simp only [eqTs, List.isEmpty_iff] at h
    subst h; rfl
  | t :: ts, [], h => by simp [eqTs] at h
  | t :: ts, t' :: r', h => by
    simp only [eqTs, Bool.and_eq_true] at h
    simp only [List.map_cons]
    rw [eqT_label t t' h.1, eqTs_starts ts r' h.2]

theorem eqTs_childStarts : ∀ (ts ts' : List Tree), eqTs ts ts' = true → childStarts ts = childStarts ts'
  | [], ts', h => by
    simp only [eqTs, List.isEmpty_iff] at h
    subst h; rfl
  | t :: ts, [], h => by simp [eqTs] at h
  | .node l cs :: ts, t' :: r', h => by
    simp only [eqTs, eqT, Bool.and_eq_true, decide_eq_true_eq] at h
    have ih := eqTs_childStarts ts r' h.2
    simp only [childStarts, List.map_cons] at ih ⊢
    rw [ih]
    congr 1
    exact eqTs_starts cs t'.children h.1.2

/-- On `[a]: /u` + underline the paragraph of the underline starts at 12 = `psiS 8` according to the exact statement, but
    at 10 (the line start, before the `> `) in the parse of `quote D`. -/
theorem qW1_fails : quoteExact qX qW1 = false := by
  cases h : quoteExact qX qW1 with
  | false => rfl
  | true =>
    have := eqTs_childStarts _ _ h
    have e1 : childStarts (quoteExpected qX qW1) = [[2, 12]] := by decide +kernel
    have e2 : childStarts (quoteActual qX qW1) = [[2, 10]] := by decide +kernel
    rw [e1, e2] at this
    exact absurd this (by decide)

theorem blocks_quote_sim_target_false : ¬ blocks_quote_sim_target := by
  intro h
  have := h qX qW1 (by decide +kernel) (by decide +kernel)
  rw [qW1_fails] at this
  cases this

-- `#eval quoteExact qX qW2` is `false` as well: the title `'x\ny'` is one Text node `[9, 12)` in `D` and the two Text
-- nodes `[11, 13)`, `[15, 16)` in `quote D`. (The kernel cannot evaluate `collectTextNodes`, so this stays a comment.)

-- the statement holds on ordinary documents (setext heading, list with a blank line, indented code, nested quote, fence)
example : quoteExact qX (Bytes.ofString "a\n===\n\n- b\n\n  c\n\n    code\n> q\n```\nx") = true := by decide +kernel
-- all-blank documents and leading blank lines: still one block quote
example : quoteExact qX (Bytes.ofString "\n") = true := by decide +kernel
example : quoteExact qX (Bytes.ofString "\n  \na") = true := by decide +kernel

/-! ### the relational statement -/

/-- Corresponding positions: `a` (relative to offset `c` of `D`) and `a'` in `quote D`. -/
def PRabs (D : Bytes) (c : Nat) (a a' : Int) : Prop :=
  0 ≤ a ∧ (a' = (psiS D (a.toNat + c) : Nat) ∨ a' = (psiE D (a.toNat + c) : Nat))

/-- The environment in which a root block of `D` that starts at offset `c` is compared with its image. -/
def envAt (DR : List Tree → List Tree → Prop) (D : Bytes) (c : Nat) : Env :=
  { PR := PRabs D c, src := D.drop c, src' := quote D, DR := DR }

/-- `Qb` is the block quote around the blocks of the roots `rs` of `D`: as trees (i.e. up to the blank-line flags, which
    `pbToTree` drops) its children are blocks `BR`-related to the root blocks. -/
structure QuoteRelated (DR : List Tree → List Tree → Prop) (D : Bytes) (rs : List Root) (Qb : PB) : Prop where
  kind : Qb.label.kind = BK.blockQuote
  start : Qb.label.start = 0
  stop : Qb.label.stop = (quote D).length
  n : Qb.label.n = 0
  char : Qb.label.char = 0
  indent : Qb.label.indent = 0
  loose : Qb.label.loose = false
  inlines : Qb.inlines = []
  kids : ∃ ks : List PB, Qb.blocks.map pbToTree = ks.map pbToTree ∧
    L2 (fun (r : Root) k => BR (envAt DR D r.startOffset) r.block k) rs ks

end CM.Proofs.Quote
