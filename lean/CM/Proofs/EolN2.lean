import CM.Proofs.EolN1
/-
C14 (a), block phase, inputs with NUL bytes — part 2: `makeRoot`, `readline`, the blank-line loop on the two sides.
(The lemmas of `EolStream1/2` with `BPRelN` and the C01 invariant `MInv` in place of `BPRel` and "no NUL".)
-/
namespace CM.Proofs.EolN
open CM CM.Model CM.Gen CM.Spec CM.Proofs CM.Proofs.BT

section
variable {e inp : Bytes} {p p' : BP} {c y : Bytes}

/-- Cutting the first child off on the two sides. -/
theorem makeRoot_simN (he : StdEol e) (hcr : NoCR inp) (h : MInv inp p c y) (R : BPRelN e inp p p') (kids : List PB)
    (hord : kidsOrd kids = true)
    (hgc : ∀ k rest, kids = k :: rest → k.isOpen = false → GoodCut p.buf (stopOf k)) :
    (makeRoot p kids = none ∧ makeRoot p' (mapPBs (eolPosZ e p.buf) kids) = none) ∨
    ∃ r q q', makeRoot p kids = some (r, q) ∧
      makeRoot p' (mapPBs (eolPosZ e p.buf) kids) = some (mapRootN e inp r, q') ∧ BPRelN e inp q q' := by
  cases kids with
  | nil => left; exact ⟨rfl, rfl⟩
  | cons k rest =>
    rw [mapPBs]
    cases ho : k.isOpen with
    | true =>
      left
      exact ⟨makeRoot_open _ _ _ ho, makeRoot_open _ _ _ (by rw [isOpen_mapPB_eol]; exact ho)⟩
    | false =>
      right
      have ho' : (mapPB (eolPosZ e p.buf) k).isOpen = false := by rw [isOpen_mapPB_eol]; exact ho
      rw [makeRoot_closed _ _ _ ho, makeRoot_closed _ _ _ ho']
      have hne := stdEol_ne_nil he
      have hk0 : 0 ≤ k.label.stop := closed_of_isOpen_false ho
      have hstop : (mapPB (eolPosZ e p.buf) k).label.stop.toNat = eolPos e p.buf k.label.stop.toNat := by
        rw [mapPB_label]; exact eolPosZ_toNat e p.buf hk0
      have hbufC : NoCR p.buf := MInv.noCR hcr h
      obtain ⟨y₁, y₂, e1, c1, c2, c3, c4, c5, c6⟩ := cut_rel he h R (hgc k rest rfl ho)
      have hsn : stopOf k = k.label.stop.toNat := rfl
      simp only [hsn] at c1 c2 c3 c4 c5 c6
      refine ⟨rootOf p k, afterRoot p k rest,
        afterRoot p' (mapPB (eolPosZ e p.buf) k) (mapPBs (eolPosZ e p.buf) rest), rfl, ?_, ?_⟩
      · -- the root
        unfold rootOf mapRootN
        simp only []
        have hb : padNulls (inp.drop p.offset) 0 = p.buf := by rw [← MInv.drop h, h.buf]
        rw [hstop, c6, c4, c2, c5, R.lineno, R.off', hb]
      · -- the state after the cut
        rw [kidsOrd] at hord
        simp only [ho, Bool.false_or, Bool.and_eq_true] at hord
        have hge : pbsGE (k.label.stop.toNat : Int) rest = true := by
          rw [Int.toNat_of_nonneg hk0]; exact hord.1
        refine ⟨?_, ?_, ?_, ?_, ?_, ?_, ?_, ?_, ?_, ?_⟩
        · show p'.buf.drop _ = toEol e (p.buf.drop _)
          rw [hstop, R.buf', drop_toEol e hne]
        · show p'.i - _ = eolPos e (p.buf.drop _) (p.i - _)
          rw [hstop, R.i']
          by_cases hle : k.label.stop.toNat ≤ p.i
          · obtain ⟨d, hd⟩ := Nat.exists_eq_add_of_le hle
            rw [hd, eolPos_add, Nat.add_sub_cancel_left, Nat.add_sub_cancel_left]
          · have := eolPos_mono e p.buf (j := p.i) (k := k.label.stop.toNat) (by omega)
            rw [Nat.sub_eq_zero_of_le this, Nat.sub_eq_zero_of_le (by omega)]; simp
        · show p.i - _ ≤ (p.buf.drop _).length
          rw [List.length_drop]; have := R.ile; omega
        · show p'.offset + unpaddedNullLength _ = eolPos e inp (p.offset + unpaddedNullLength _)
          rw [hstop, c4, c2, c5]
        · show p'.lineno + lineCount _ = p.lineno + lineCount _
          rw [hstop, c3, lineCount_toEol he _ (noCR_take hbufC _), R.lineno]
        · exact R.err
        · exact R.err'
        · exact R.rd
        · show offsetPBs _ (mapPBs (eolPosZ e p.buf) rest) = mapPBs (eolPosZ e (p.buf.drop _)) (offsetPBs _ rest)
          rw [hstop, mapPBs_offset _ rest hge]
        · show (if _ then _ else _) = (if _ then _ else _)
          rw [hstop, R.i', R.buf', R.panic]
          have d1 : (eolPos e p.buf k.label.stop.toNat > eolPos e p.buf p.i) ↔ (k.label.stop.toNat > p.i) :=
            eolPos_lt_iff e p.buf
          have d2 : (eolPos e p.buf k.label.stop.toNat > (toEol e p.buf).length) ↔ (k.label.stop.toNat > p.buf.length) := by
            rw [← eolPos_length e hne]; exact eolPos_lt_iff e p.buf
          simp only [d1, d2]

/-! ### `readline` -/

theorem BPRelN.readline (he : StdEol e) (hC : NoCR p.buf) (R : BPRelN e inp p p') :
    BPRelN e inp { p with i := p.i + lineLen (p.buf.drop p.i) } { p' with i := p'.i + lineLen (p'.buf.drop p'.i) } ∧
    decide (0 < lineLen (p'.buf.drop p'.i)) = decide (0 < lineLen (p.buf.drop p.i)) := by
  have hne := stdEol_ne_nil he
  have hd : p'.buf.drop p'.i = toEol e (p.buf.drop p.i) := by rw [R.buf', R.i', drop_toEol e hne]
  have hll := lineLen_toEol he (noCR_drop hC p.i)
  have hle := lineLen_le (p.buf.drop p.i)
  simp only [List.length_drop] at hle
  refine ⟨⟨R.buf', ?_, ?_, R.off', R.lineno, R.err, R.err', R.rd, R.blocks, R.panic⟩, ?_⟩
  · show p'.i + lineLen (p'.buf.drop p'.i) = eolPos e p.buf (p.i + lineLen (p.buf.drop p.i))
    rw [hd, hll, R.i', eolPos_add]
  · show p.i + lineLen (p.buf.drop p.i) ≤ p.buf.length
    have := R.ile; omega
  · rw [hd]
    by_cases h : p.buf.drop p.i = []
    · rw [h]; rfl
    · have h' : toEol e (p.buf.drop p.i) ≠ [] := fun h0 => h ((toEol_eq_nil hne).1 h0)
      simp [lineLen_pos h, lineLen_pos h']

theorem lineCond_nextN (hC : NoCR p.buf) : LineCond { p with i := p.i + lineLen (p.buf.drop p.i) } p.i := by
  obtain ⟨body, nl, h1, h2, h3⟩ := first_line_shape (p.buf.drop p.i) (noCR_drop hC _)
  exact ⟨Nat.le_add_right _ _, body, nl, by show (p.buf.take (p.i + _)).drop p.i = _; rw [take_drop_line, h1], h2, h3⟩

theorem BPRelN.ile' (he : StdEol e) (R : BPRelN e inp p p') : p'.i ≤ p'.buf.length := by
  rw [R.buf', R.i', ← eolPos_length e (stdEol_ne_nil he)]; exact eolPos_mono _ _ R.ile

theorem bpFuel_leN (R : BPRelN e inp p p') (he : StdEol e) : bpFuel p ≤ bpFuel p' := by
  unfold bpFuel
  have := length_toEol_ge e (stdEol_ne_nil he) p.buf
  rw [← R.buf'] at this
  have := R.rd
  omega

/-! ### The blank-line loop -/

theorem isBlankLine_take_relN (he : StdEol e) (R : BPRelN e inp p p') :
    isBlankLine (p'.buf.take p'.i) = isBlankLine (p.buf.take p.i) := by
  rw [R.buf', R.i', take_toEol e (stdEol_ne_nil he), isBlankLine_toEol he]

/-- Dropping the bytes before the parse position (`freshLine`, and the step of the blank-line loop). -/
theorem BPRelN.advance (he : StdEol e) (h : MInv inp p c y) (R : BPRelN e inp p p')
    (hb : p.blocks = []) (ln ln' : Nat) (hln : ln' = ln) :
    BPRelN e inp { p with offset := p.offset + unpaddedNullLength (p.buf.take p.i), lineno := ln, buf := p.buf.drop p.i, i := 0 }
      { p' with offset := p'.offset + unpaddedNullLength (p'.buf.take p'.i), lineno := ln', buf := p'.buf.drop p'.i, i := 0 } := by
  have hne := stdEol_ne_nil he
  obtain ⟨y₁, y₂, e1, c1, c2, c3, c4, c5, c6⟩ := cut_rel he h R h.cut_i
  refine ⟨?_, ?_, Nat.zero_le _, ?_, hln, R.err, R.err', R.rd, ?_, R.panic⟩
  · show p'.buf.drop p'.i = toEol e (p.buf.drop p.i)
    rw [R.buf', R.i', drop_toEol e hne]
  · show 0 = eolPos e (p.buf.drop p.i) 0
    simp
  · show p'.offset + unpaddedNullLength _ = eolPos e inp (p.offset + unpaddedNullLength _)
    rw [R.i', c4, c2, c5]
  · show p'.blocks = mapPBs (eolPosZ e (p.buf.drop p.i)) p.blocks
    rw [R.blocks, hb]; rfl

end

end CM.Proofs.EolN
