import CM.Proofs.InlShapeAll
import CM.Proofs.ParseSeamsFinal
import CM.Proofs.RefDefSpansDef
/-
C13 for the whole of `Parse`, part 2 (no block phase here): **a condition on the inline children of a container, in
terms of the bytes of the source, that implies `InlH.HBreakOK` and `InlH.CSHyp`.**

`NodeQ src t` (one inline child of a paragraph / setext heading):
  * an Indent node is one byte long and covers a TAB;
  * any other node is not empty, a line ending occurs only at its very end (`RDS.EolAtEnd`), and it holds a byte
    that is neither a space, a tab nor a line ending (`NonBlankIn`: the line is not blank).
`RunsOK src L`: every child satisfies `NodeQ`, the byte before every child but the first is not a backtick, the children are lines (`PS.Lines`: each one but the last ends right
after a line ending), in order, disjoint, inside the source.

`runsOK_hbreak : RunsOK src L → HBreakOK src L`, `runsOK_cshyp : RunsOK src L → CSHyp L src src.length`.
-/
namespace CM.Proofs.PSh
open CM CM.Model CM.Gen CM.Spec CM.Model.Inl
open CM.Proofs.InlH CM.Proofs.PS

/-- The byte before position `s` is not a backtick. -/
def NoTickBeforeI (src : Bytes) (s : Int) : Prop := ∀ q : Nat, (q : Int) + 1 = s → src[q]? ≠ some 0x60

/-- `[s, e)` holds a byte that is neither a space, a tab nor a line ending. -/
def NonBlankIn (src : Bytes) (s e : Int) : Prop :=
  ∃ j : Nat, s ≤ (j : Int) ∧ (j : Int) < e ∧ ∃ c, src[j]? = some c ∧ c ≠ SP ∧ c ≠ TAB ∧ c ≠ LF ∧ c ≠ CR

/-- One inline child of a paragraph or setext heading (if it starts inside the source). -/
structure NodeQ (src : Bytes) (t : Tree) : Prop where
  ind : isIndent t = true → t.label.stop = t.label.start + 1 ∧ src[t.label.start.toNat]? = some TAB
  run : isIndent t = false → t.label.start < t.label.stop ∧
    RDS.EolAtEnd src t.label.start t.label.stop ∧ NonBlankIn src t.label.start t.label.stop

/-- The inline children of a container, in the root's source. -/
structure RunsOK (src : Bytes) (L : List Tree) : Prop where
  lines : Lines src L
  pos : ∀ t ∈ L, 0 ≤ t.label.start
  sorted : SortedSpans L
  bound : SpansOK src.length L
  node : ∀ t ∈ L, NodeQ src t
  pre : ∀ t ∈ L.tail, NoTickBeforeI src t.label.start

/-! ### the end of a non-blank line -/

/-- The last byte of `[j, ce)` that is not a space. -/
theorem last_nonspace (src : Bytes) (ce : Nat) : ∀ (d j : Nat), ce - j = d → j < ce → src[j]? ≠ some SP →
    ∃ k, j ≤ k ∧ k < ce ∧ src[k]? ≠ some SP ∧ ∀ q, k < q → q < ce → src[q]? = some SP := by
  intro d
  induction d using Nat.strongRecOn with
  | _ d ih =>
    intro j hd hj hne
    by_cases hall : ∀ q, j < q → q < ce → src[q]? = some SP
    · exact ⟨j, Nat.le_refl _, hj, hne, hall⟩
    · have : ∃ q, j < q ∧ q < ce ∧ src[q]? ≠ some SP := by
        apply Classical.byContradiction
        intro hno
        apply hall
        intro q h1 h2
        apply Classical.byContradiction
        intro h3
        exact hno ⟨q, h1, h2, h3⟩
      obtain ⟨q, h1, h2, h3⟩ := this
      obtain ⟨k, k1, k2, k3, k4⟩ := ih (ce - q) (by omega) q rfl h2 h3
      exact ⟨k, by omega, k2, k3, k4⟩

theorem getD_of_getElem? {src : Bytes} {q : Nat} {c : UInt8} (h : src[q]? = some c) : src.getD q 0 = c := by
  rw [List.getD_eq_getElem?_getD, h]; rfl

theorem getElem?_of_lt {src : Bytes} {q : Nat} (h : q < src.length) : src[q]? = some (src.getD q 0) := by
  rw [List.getD_eq_getElem?_getD, List.getElem?_eq_getElem h]; rfl

/-- A non-empty, non-blank piece `[a, e)` of the source that ends with a line ending and holds no other line ending
    ends at the end of a non-blank line. -/
theorem lineEnd_of (src : Bytes) (a e : Nat) (he : e ≤ src.length) (h1 : 1 ≤ e)
    (heol : RDC.isEolB (src.getD (e - 1) 0) = true) (hE : RDS.EolAtEnd src a e)
    (hnb : NonBlankIn src a e) : LineEnd src e := by
  obtain ⟨j, hja, hje, c, hc, c1, c2, c3, c4⟩ := hnb
  have hja' : a ≤ j := by omega
  have hje' : j < e := by omega
  have hcD := getD_of_getElem? hc
  -- the content end
  have hce : ∃ ce, j < ce ∧ ce < e ∧ e ≤ ce + 2 ∧ CM.Spec.isEOL ((src.take e).drop ce) = true ∧
      ∀ q, j ≤ q → q < ce → src.getD q 0 ≠ LF ∧ src.getD q 0 ≠ CR := by
    have hlast : src.getD (e - 1) 0 = LF ∨ src.getD (e - 1) 0 = CR := by
      unfold RDC.isEolB at heol
      simpa using heol
    have hjne : j ≠ e - 1 := by
      intro hj
      rw [← hj, hcD] at hlast
      rcases hlast with h | h
      · exact c3 h
      · exact c4 h
    have hXlen : (src.take e).length = e := by rw [List.length_take]; omega
    have hnoeol : ∀ (ce : Nat), ce < e → e ≤ ce + 2 → (e = ce + 2 → src.getD ce 0 = CR ∧ src.getD (ce + 1) 0 = LF) →
        (e = ce + 1 → ¬ (2 ≤ e ∧ src.getD (e - 2) 0 = CR ∧ src.getD (e - 1) 0 = LF)) →
        ∀ q, j ≤ q → q < ce → src.getD q 0 ≠ LF ∧ src.getD q 0 ≠ CR := by
      intro ce hce1 hce2 hA hB q hq1 hq2
      obtain ⟨e1, e2⟩ := hE q (by omega) (by omega)
      refine ⟨fun h => ?_, fun h => ?_⟩
      · have := e1 h; omega
      · rcases e2 h with h' | ⟨h', h''⟩
        · omega
        · have hq : q = e - 2 := by omega
          by_cases hcase : e = ce + 2
          · omega
          · have : e = ce + 1 := by omega
            apply hB this
            refine ⟨by omega, by rw [← hq]; exact h, ?_⟩
            have : q + 1 = e - 1 := by omega
            rw [← this]; exact h''
    by_cases hA : 2 ≤ e ∧ src.getD (e - 2) 0 = CR ∧ src.getD (e - 1) 0 = LF
    · obtain ⟨hA1, hA2, hA3⟩ := hA
      have hj2 : j ≠ e - 2 := by
        intro hj; rw [← hj, hcD] at hA2; exact c4 hA2
      refine ⟨e - 2, by omega, by omega, by omega, ?_, hnoeol (e - 2) (by omega) (by omega) (fun _ => ?_) (fun h => by omega)⟩
      · have : (src.take e).drop (e - 2) = [CR, LF] := by
          apply List.ext_getElem
          · rw [List.length_drop, hXlen]; simp; omega
          · intro i hi1 hi2
            simp only [List.length_cons, List.length_nil] at hi2
            rw [List.getElem_drop, List.getElem_take]
            have hi : i = 0 ∨ i = 1 := by omega
            rcases hi with rfl | rfl
            · have := getElem?_of_lt (src := src) (q := e - 2) (by omega)
              rw [List.getElem?_eq_getElem (by omega)] at this
              simp only [Option.some.injEq, Nat.add_zero] at this ⊢
              rw [this, hA2]; rfl
            · have := getElem?_of_lt (src := src) (q := e - 2 + 1) (by omega)
              rw [List.getElem?_eq_getElem (by omega)] at this
              simp only [Option.some.injEq] at this
              rw [this, show e - 2 + 1 = e - 1 by omega, hA3]; rfl
        rw [this]; rfl
      · refine ⟨hA2, ?_⟩
        rw [show e - 2 + 1 = e - 1 by omega]; exact hA3
    · refine ⟨e - 1, by omega, by omega, by omega, ?_, hnoeol (e - 1) (by omega) (by omega) (fun h => by omega) (fun _ => ?_)⟩
      · have : (src.take e).drop (e - 1) = [src.getD (e - 1) 0] := by
          apply List.ext_getElem
          · rw [List.length_drop, hXlen]; simp; omega
          · intro i hi1 hi2
            simp only [List.length_cons, List.length_nil] at hi2
            have hi : i = 0 := by omega
            subst hi
            rw [List.getElem_drop, List.getElem_take]
            have := getElem?_of_lt (src := src) (q := e - 1) (by omega)
            rw [List.getElem?_eq_getElem (by omega)] at this
            simp only [Option.some.injEq, Nat.add_zero, List.getElem_cons_zero] at this ⊢
            exact this
        rw [this]
        rcases hlast with h | h <;> (rw [h]; rfl)
      · exact hA
  obtain ⟨ce, hjc, hcee, hce2, heolL, hno⟩ := hce
  -- the last byte of the content that is not a space
  obtain ⟨k, hk1, hk2, hk3, hk4⟩ := last_nonspace src ce (ce - j) j rfl hjc (by rw [hc]; simpa using c1)
  have hklt : k < src.length := by omega
  have hXlen : (src.take e).length = e := by rw [List.length_take]; omega
  have hXget : ∀ q (hq : q < e), (src.take e)[q]'(by rw [hXlen]; exact hq) = src.getD q 0 := by
    intro q hq
    rw [List.getElem_take]
    have := getElem?_of_lt (src := src) (q := q) (by omega)
    rw [List.getElem?_eq_getElem (by omega)] at this
    simpa using this
  refine ⟨src.take k, src.getD k 0, ((src.take e).drop (k + 1)).take (ce - (k + 1)), (src.take e).drop ce, ?_, he,
    ?_, (hno k hk1 hk2).1, (hno k hk1 hk2).2, ?_, heolL⟩
  · -- the decomposition
    have s1 : src.take e = (src.take e).take k ++ (src.take e).drop k := (List.take_append_drop k _).symm
    have s2 : (src.take e).take k = src.take k := by rw [List.take_take]; congr 1; omega
    have s3 : (src.take e).drop k = src.getD k 0 :: (src.take e).drop (k + 1) := by
      rw [List.drop_eq_getElem_cons (by rw [hXlen]; omega), hXget k (by omega)]
    have s4 : (src.take e).drop (k + 1) =
        ((src.take e).drop (k + 1)).take (ce - (k + 1)) ++ ((src.take e).drop (k + 1)).drop (ce - (k + 1)) :=
      (List.take_append_drop _ _).symm
    have s5 : ((src.take e).drop (k + 1)).drop (ce - (k + 1)) = (src.take e).drop ce := by
      rw [List.drop_drop]; congr 1; omega
    rw [s5] at s4
    calc src.take e = (src.take e).take k ++ (src.take e).drop k := s1
      _ = src.take k ++ src.getD k 0 :: (src.take e).drop (k + 1) := by rw [s2, s3]
      _ = _ := by rw [← s4]
  · intro hsp
    apply hk3
    rw [getElem?_of_lt hklt, hsp]
  · intro c' hc'
    obtain ⟨i, hi, rfl⟩ := List.getElem_of_mem hc'
    rw [List.length_take, List.length_drop, hXlen] at hi
    rw [List.getElem_take, List.getElem_drop, hXget (k + 1 + i) (by omega)]
    have := hk4 (k + 1 + i) (by omega) (by omega)
    exact getD_of_getElem? this

/-! ### `parseHardLineBreakSpace` on a piece that ends with a tab -/

theorem phlbs_last_tab (r : Bytes) (h : r.getLast? = some TAB) : (parseHardLineBreakSpace r).snd = false := by
  cases hs : (parseHardLineBreakSpace r).snd with
  | false => rfl
  | true =>
    exfalso
    obtain ⟨rest, rfl, hrest⟩ := phlbs_snd r hs
    have hm : TAB ∈ SP :: SP :: rest := List.mem_of_getLast? h
    simp only [List.mem_cons] at hm
    rcases hm with h' | h' | h'
    · exact absurd h' (by decide)
    · exact absurd h' (by decide)
    · rcases hrest _ h' with h'' | h'' | h'' <;> exact absurd h'' (by decide)

theorem sliceI_getLast (src : Bytes) (p e : Nat) (hpe : p < e) (he : e ≤ src.length) :
    (sliceI src (p : Int) (e : Int)).getLast? = src[e - 1]? := by
  rw [sliceI_of_nat src p e (by omega)]
  have hlen : ((src.drop p).take (e - p)).length = e - p := by
    rw [List.length_take, List.length_drop]; omega
  rw [List.getLast?_eq_getElem?, hlen, List.getElem?_take_of_lt (by omega), List.getElem?_drop]
  congr 1; omega

/-! ### from `RunsOK` to the hypotheses of the inline-shape theorems -/

theorem lines_get {src : Bytes} : ∀ {L : List Tree} (k : Nat) (u : Tree), Lines src L → k + 1 < L.length → L[k]? = some u →
    isIndent u = false → EolEnd src u.label.stop ∨ AtEnd src u.label.stop
  | [], k, u, _, hk, _, _ => by simp at hk
  | [_], k, u, _, hk, _, _ => by simp at hk
  | t :: v :: rest, 0, u, h, _, hu, hi => by
    simp only [List.getElem?_cons_zero, Option.some.injEq] at hu
    subst hu
    exact h.1 hi
  | t :: v :: rest, k + 1, u, h, hk, hu, hi => by
    simp only [List.getElem?_cons_succ] at hu
    simp only [List.length_cons] at hk
    exact lines_get (L := v :: rest) k u h.2 (by simp only [List.length_cons]; omega) hu hi

theorem sorted_get {L : List Tree} (h : SortedSpans L) {k : Nat} {u v : Tree} (hu : L[k]? = some u)
    (hv : L[k + 1]? = some v) : u.label.stop ≤ v.label.start := by
  unfold SortedSpans at h
  rw [List.pairwise_iff_getElem] at h
  obtain ⟨h1, rfl⟩ := List.getElem?_eq_some_iff.1 hu
  obtain ⟨h2, rfl⟩ := List.getElem?_eq_some_iff.1 hv
  exact h k (k + 1) h1 h2 (by omega)

/-- A node of `L` is not empty. -/
theorem RunsOK.ne {src : Bytes} {L : List Tree} (h : RunsOK src L) : NodesNE L := by
  intro t ht
  refine ⟨h.pos t ht, ?_⟩
  cases hi : isIndent t with
  | true => have := ((h.node t ht).ind hi).1; omega
  | false => exact ((h.node t ht).run hi).1

/-- A child that has a successor and is not an Indent node ends, inside the source, right after a line ending. -/
theorem RunsOK.eolEnd {src : Bytes} {L : List Tree} (h : RunsOK src L) {k : Nat} {u : Tree} (hk : k + 1 < L.length)
    (hu : L[k]? = some u) (hi : isIndent u = false) :
    ∃ e : Nat, u.label.stop = (e : Int) ∧ 1 ≤ e ∧ e ≤ src.length ∧ RDC.isEolB (src.getD (e - 1) 0) = true := by
  have hmem : u ∈ L := List.mem_of_getElem? hu
  obtain ⟨h0, hlt⟩ := h.ne u hmem
  obtain ⟨e, he⟩ := Int.eq_ofNat_of_zero_le (show 0 ≤ u.label.stop by omega)
  have hb := (h.bound u hmem).2
  refine ⟨e, he, by omega, by omega, ?_⟩
  rcases lines_get k u h.lines hk hu hi with h' | h'
  · rcases h'.2 with h'' | h''
    · omega
    · rw [he] at h''; simpa using h''
  · exfalso
    rcases h' with h'' | h''
    · -- the next child would lie outside the source
      obtain ⟨v, hv⟩ : ∃ v, L[k + 1]? = some v := ⟨L[k + 1], List.getElem?_eq_getElem hk⟩
      have hvm : v ∈ L := List.mem_of_getElem? hv
      have hs := sorted_get h.sorted hu hv
      have hvne := (h.ne v hvm).2
      have hvb := (h.bound v hvm).2
      omega
    · omega

theorem runsOK_hbreak {src : Bytes} {L : List Tree} (h : RunsOK src L) : HBreakOK src L := by
  intro k u hk hu
  have hmem : u ∈ L := List.mem_of_getElem? hu
  cases hi : isIndent u with
  | true =>
    obtain ⟨hst, htab⟩ := (h.node u hmem).ind hi
    have h0 := h.pos u hmem
    obtain ⟨a, ha⟩ := Int.eq_ofNat_of_zero_le h0
    rw [ha] at hst htab
    simp only [Int.toNat_natCast] at htab
    have halt : a < src.length := by
      obtain ⟨hh, _⟩ := List.getElem?_eq_some_iff.1 htab; exact hh
    refine ⟨fun p hp => ?_, fun p hp hle hs => ?_⟩
    · have : p = a := by omega
      rw [this, htab]; decide
    · exfalso
      rw [hst] at hp hs
      have hstop : (a : Int) + 1 = ((a + 1 : Nat) : Int) := by omega
      rw [hstop] at hs hp
      have hp' : p ≤ a + 1 := by omega
      by_cases hpe : p = a + 1
      · subst hpe
        rw [sliceI_of_nat src (a + 1) (a + 1) (Nat.le_refl _)] at hs
        simp [parseHardLineBreakSpace, Gen.numSpaces] at hs
      · have hl := sliceI_getLast src p (a + 1) (by omega) (by omega)
        rw [show a + 1 - 1 = a by omega, htab] at hl
        rw [phlbs_last_tab _ hl] at hs
        cases hs
  | false =>
    obtain ⟨e, he, h1, hle, heol⟩ := h.eolEnd hk hu hi
    obtain ⟨hlt, hE, hnb⟩ := (h.node u hmem).run hi
    obtain ⟨a, ha⟩ := Int.eq_ofNat_of_zero_le (h.pos u hmem)
    rw [ha, he] at hE hnb
    have hl : LineEnd src e := lineEnd_of src a e hle h1 heol hE hnb
    obtain ⟨hA, hB⟩ := hbreak_lineEnd src e hl
    rw [he]
    refine ⟨fun p hp => hA p (by omega), fun p hp _ hs => ?_⟩
    have hp' : p ≤ e := by omega
    rw [sliceI_of_nat src p e hp'] at hs ⊢
    exact hB p hp' hs

theorem runsOK_indentWS {src : Bytes} {L : List Tree} (h : RunsOK src L) : IndentWS src L := by
  intro t ht hi q h1 h2
  obtain ⟨hst, htab⟩ := (h.node t ht).ind hi
  have h0 := h.pos t ht
  have : t.label.start.toNat = q := by omega
  rw [this] at htab
  exact Or.inr htab

theorem runsOK_tickEdges {src : Bytes} {L : List Tree} (h : RunsOK src L) : TickEdges src L := by
  refine ⟨fun k t hk ht q hq => ?_, fun k t hk ht q hq => ?_⟩
  rotate_left
  · refine h.pre t ?_ q hq
    obtain ⟨k', rfl⟩ : ∃ k', k = k' + 1 := ⟨k - 1, by omega⟩
    have : L.tail[k']? = some t := by rw [List.getElem?_tail]; exact ht
    exact List.mem_of_getElem? this
  have hmem : t ∈ L := List.mem_of_getElem? ht
  cases hi : isIndent t with
  | true =>
    obtain ⟨hst, htab⟩ := (h.node t hmem).ind hi
    have h0 := h.pos t hmem
    have : t.label.start.toNat = q := by omega
    rw [this] at htab
    rw [htab]; decide
  | false =>
    obtain ⟨e, he, h1, hle, heol⟩ := h.eolEnd hk ht hi
    have hqe : q = e - 1 := by omega
    rw [hqe, getElem?_of_lt (by omega)]
    intro hc
    simp only [Option.some.injEq] at hc
    rw [hc] at heol
    revert heol; decide

theorem runsOK_cshyp {src : Bytes} {L : List Tree} (h : RunsOK src L) : CSHyp L src src.length where
  ind := runsOK_indentWS h
  edges := runsOK_tickEdges h
  ne := h.ne
  sorted := h.sorted
  bound := h.bound

/-! ### a container with one child -/

/-- One child that is not an Indent node: `HBreakOK` and `TickEdges` say nothing; `CSHyp` asks that it is not empty. -/
theorem single_hbreak (src : Bytes) (t : Tree) : HBreakOK src [t] := fun k u hk _ => by simp at hk

theorem single_cshyp (src : Bytes) (t : Tree) (hi : isIndent t = false) (h0 : 0 ≤ t.label.start)
    (hlt : t.label.start < t.label.stop) (hb : t.label.stop ≤ (src.length : Int)) : CSHyp [t] src src.length where
  ind := fun u hu hiu => by
    rw [List.mem_singleton] at hu; subst hu; rw [hi] at hiu; cases hiu
  edges := ⟨fun k u hk _ => by simp at hk, fun k u hk hu => by
    match k, hk, hu with
    | k + 1, _, hu => simp at hu⟩
  ne := fun u hu => by rw [List.mem_singleton] at hu; subst hu; exact ⟨h0, hlt⟩
  sorted := by simp [SortedSpans]
  bound := fun u hu => by
    rw [List.mem_singleton] at hu; subst hu
    unfold TB; omega

end CM.Proofs.PSh
