import CM.Proofs.ReparseBlocksSess
import CM.Proofs.ReparseRd6
/-
C16: **`ParaCloseLocal x` holds.** Closing a top-level paragraph whose text ends in a line ending does not look at
what follows in the source. (`BI` provides the shape of the text — Unparsed nodes tiling `[a, |src|)` —, `refDefLoop_two`
the loop of `onCloseParagraph`.)
-/
namespace CM.Proofs.Rp
open CM CM.Model CM.Gen CM.Proofs

theorem lastEOL_of_terminated {src : Bytes} (hne : src ≠ []) (ht : terminated src = true) : LastEOL src src.length := by
  unfold terminated at ht
  have hl : src.getLast? = some (src.getD (src.length - 1) 0) := by
    rw [List.getLast?_eq_getElem?, List.getD_eq_getElem?_getD]
    have : src.length - 1 < src.length := by have := List.length_pos_iff.mpr hne; omega
    rw [List.getElem?_eq_getElem this]; rfl
  rw [hl] at ht
  simp only [Bool.or_eq_true, beq_iff_eq] at ht
  exact ht

theorem onCloseParagraph_two (x : PExt) (s u : Bytes) (l : PLabel) (bs : List PB) (is : List Tree) (hk : l.kind = BK.paragraph)
    (hne : s ≠ []) (ht : terminated s = true) (hp : is ≠ [] → ∃ a, ContigL is a s.length) :
    onCloseParagraph x (s ++ u) (.mk l bs is) = onCloseParagraph x s (.mk l bs is) := by
  cases is with
  | nil => rfl
  | cons first rest =>
    obtain ⟨a, hc⟩ := hp (by simp)
    have hfs : first.label.start = (a : Int) := hc.1
    have hlt : a < s.length := hc.lt (by simp)
    simp only [onCloseParagraph]
    have hns : (l.kind == BK.setextHeading) = false := by rw [hk]; rfl
    simp only [hns, Bool.false_eq_true, if_false]
    have hpos : first.label.start.toNat = a := by rw [hfs]; simp
    rw [hpos]
    exact refDefLoop_two (u := u) x none rfl (lastEOL_of_terminated hne ht) _ _ l _ [] a
      (newReader_rw hc (Nat.le_refl _) hlt) hc (Nat.le_refl _) hlt

/-- **Closing a top-level paragraph reads nothing beyond it.** -/
theorem paraCloseLocal (x : PExt) : ParaCloseLocal x := by
  intro src σ k0 ln h hb ho hk _ _ ht
  have hp := h.para k0 hb ho
  cases k0 with
  | mk l0 bs0 is0 =>
    simp only [PB.label] at ho hk
    have hcl : ¬ l0.stop ≥ 0 := by omega
    rw [closeBlock, closeBlock]
    have h1 : (l0.kind == BK.list) = false := by rw [hk]; rfl
    have h2 : (l0.kind == BK.paragraph || l0.kind == BK.setextHeading) = true := by rw [hk]; rfl
    simp only [hcl, if_false, h1, h2, Bool.false_eq_true, if_true]
    show onCloseParagraph x (src ++ ln) (.mk { l0 with stop := (src.length : Int) } bs0 is0) =
      onCloseParagraph x src (.mk { l0 with stop := (src.length : Int) } bs0 is0)
    exact onCloseParagraph_two x src ln _ bs0 is0 hk h.pos ht (fun hne => hp hk hne)

/-- The second condition on roots is void. -/
theorem good2_all (x : PExt) (src : Bytes) (k : PB) : Good2 x src k := fun _ => Or.inl (paraCloseLocal x)

end CM.Proofs.Rp
