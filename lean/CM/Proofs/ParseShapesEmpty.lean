import CM.Proofs.EscapedText
import CM.Proofs.InlShapeAll
/-
C13 for the whole of `Parse`, part 3: **the inline phase on a container whose only inline child is an EMPTY Unparsed
run** (an ATX heading with no content, `#` alone on its line: the block phase collects the run `[e, e)`).

Such a run does not meet `InlH.NodesNE` (a hypothesis of the code-span theorem, `InlH.CSHyp`), so the container is
handled by evaluation: `parseInlines … [t] = .ok []` — no panic, no fuel exhaustion, no new inline child.
-/
namespace CM.Proofs.PSh
open CM CM.Model CM.Model.Inl CM.Spec CM.Proofs.InlH

theorem parseRun_empty (c : ICtx) (t : Tree) (s : IState) (hu : c.unparsed = #[t]) (hp : s.unparsedPos = 0)
    (hig : s.ignoreNextIndent = false) (he : t.label.start = t.label.stop) :
    (parseRun c).run s = pure ((), s) := by
  unfold parseRun
  simp [StateT.run_bind, unparsedAt, hig, setIgnoreNextIndent, Std.Legacy.Range.forIn_eq_forIn_range',
    Std.Legacy.Range.size, List.range'_succ, he, spanEnd, addText, addLeaf, spanLenI, spanEndOf, hu, hp]
  cases s
  simp only at hp hig
  subst hp hig
  rfl

theorem parseBody_empty (c : ICtx) (t : Tree) (s : IState) (hu : c.unparsed = #[t]) (hp : s.unparsedPos = 0)
    (hig : s.ignoreNextIndent = false) (hst : s.stack = #[])
    (hb : t.label.isBlock = false) (hk : t.label.kind = IK.unparsed) (he : t.label.start = t.label.stop) :
    (parseBody c).run s = pure ((), { s with unparsedPos := 1 }) := by
  unfold parseBody
  have hrun := parseRun_empty c t s hu hp hig he
  simp [StateT.run_bind, Std.Legacy.Range.forIn_eq_forIn_range', Std.Legacy.Range.size, List.range'_succ, hb, hk,
    IK.unparsed, IK.indent, hu, hp, hrun, setUnparsedPos]
  exact EscText.processEmphasis_empty _ hst

/-- **The inline phase on a container with one empty Unparsed run returns no inline child.** -/
theorem parseInlines_empty (x : IExt) (src : Bytes) (srcA : Array UInt8) (matchRef : Bytes → Bool) (cs ce : Int) (t : Tree)
    (hb : t.label.isBlock = false) (hk : t.label.kind = IK.unparsed) (he : t.label.start = t.label.stop) :
    parseInlines x src srcA matchRef cs ce [t] = .ok [] := by
  unfold parseInlines
  simp only []
  rw [parseBody_empty _ t _ rfl rfl rfl rfl hb hk he]
  simp [pure, Except.pure, exportNode, Tree.children]

/-- Non-vacuity: the content run of `#⏎`. -/
example : parseInlines ShapeEx.x0 [0x23, 0x0A] #[0x23, 0x0A] (fun _ => false) 0 2 [Model.mkInline IK.unparsed 1 1] = .ok [] :=
  parseInlines_empty _ _ _ _ _ _ _ rfl rfl rfl

end CM.Proofs.PSh
