import CM.Proofs.InlShapeStkInv
/-
C13, inline half — emphasis: the pure lemmas behind one match of `processEmphasis` (the two delimiter nodes shrink,
`wrap` makes the Emphasis / Strong node between them, emptied delimiters leave the stack).
-/
namespace CM.Proofs.InlH
open CM CM.Model CM.Model.Inl

section
variable {c : ICtx} {Q : Nat → Int → Int → Prop} {E X : Nat → Prop} {a : Array INode} {st : Array DelimE}

/-- `deleteDelimiterStack(st, i, j)` -/
abbrev delS (st : Array DelimE) (i j : Nat) : Array DelimE := st.extract 0 i ++ st.extract j st.size

theorem delS_size (st : Array DelimE) (i j : Nat) (hi : i ≤ j) (hj : j ≤ st.size) : (delS st i j).size = i + (st.size - j) := by
  simp [delS]; omega

theorem delS_get_lt (st : Array DelimE) (i j k : Nat) (hk : k < i) (hi : i ≤ st.size) : (delS st i j)[k]! = st[k]! := by
  have h1 : k < (delS st i j).size := by simp [delS]; omega
  rw [getElem!_pos _ k h1, getElem!_pos st k (by omega)]
  simp only [delS]
  rw [Array.getElem_append_left (by simp; omega)]
  simp

theorem delS_get_ge (st : Array DelimE) (i j k : Nat) (hk : i ≤ k) (hi : i ≤ j) (hj : j + (k - i) < st.size) :
    (delS st i j)[k]! = st[j + (k - i)]! := by
  have h1 : k < (delS st i j).size := by simp [delS]; omega
  rw [getElem!_pos _ k h1, getElem!_pos st _ hj]
  simp only [delS]
  rw [Array.getElem_append_right (by simp; omega)]
  simp only [Array.size_extract, Array.getElem_extract]
  congr 1
  omega

theorem Wg.wrapFr {s0 s : IState} {kind sn : Nat} {en : Option Nat} (h : Wg c Q E X s0.nodes s0.stack)
    (hf : WrapFr s0 kind sn en s) (hnew : X s0.nodes.size ∨ EmP c Q (s.nodes[s0.nodes.size]!)) :
    Wg c Q E X s.nodes s.stack := by
  obtain ⟨h1, h2, h3, h4, h5, h6, h7⟩ := hf
  have key : ∀ i, i < s0.nodes.size → (s.nodes[i]!).kind = (s0.nodes[i]!).kind ∧ (s.nodes[i]!).start = (s0.nodes[i]!).start ∧
      (s.nodes[i]!).stop = (s0.nodes[i]!).stop := by
    intro i hi
    have := h4 i hi
    unfold Fl at this
    simpa using this
  rw [h1]
  refine ⟨⟨fun e he => ?_, fun e he hE => ?_, h.stk.inj⟩, fun i hi => ?_, ?_⟩
  · obtain ⟨k1, k2⟩ := h.stk.ok e he
    obtain ⟨e1, e2, e3⟩ := key e.node k1
    exact ⟨by omega, ⟨by rw [e1]; exact k2.kind, by rw [e2]; exact k2.lo, by rw [e2, e3]; exact k2.le,
      by rw [e3]; exact k2.hi, by rw [e2, e3]; exact k2.chars⟩⟩
  · obtain ⟨e1, e2, e3⟩ := key e.node (h.stk.ok e he).1
    rw [e2, e3]; exact h.stk.ne e he hE
  · by_cases hlt : i < s0.nodes.size
    · obtain ⟨e1, e2, e3⟩ := key i hlt
      rw [getElem!_pos s.nodes i hi, getElem!_pos s0.nodes i hlt] at e1 e2 e3
      exact (h.em i hlt).imp (fun hx => hx) (fun hp => hp.congr e1 e2 e3)
    · have : i = s0.nodes.size := by omega
      subst this
      rw [getElem!_pos s.nodes _ hi] at hnew
      exact hnew
  · refine ⟨by have := h.root.1; omega, ?_⟩
    rw [(key 0 h.root.1).1]; exact h.root.2

theorem Wg.weakenE {E' : Nat → Prop} (h : Wg c Q E X a st) (hE : ∀ y, E y → E' y) : Wg c Q E' X a st :=
  ⟨h.stk.mono (fun e _ hx hx' => absurd (hE _ hx) hx'), h.em, h.root⟩

/-- the entry at index `i` (for node `x`) leaves the stack: `x` needs no exemption any more -/
theorem Wg.settle_erase (h : Wg c Q E X a st) (i : Nat) (hi : i < st.size) (x : Nat) (hx : (st[i]!).node = x) :
    Wg c Q (fun y => E y ∧ y ≠ x) X a (delS st i (i + 1)) := by
  rw [getElem!_pos st i hi] at hx
  subst hx
  exact ⟨h.stk.erase i hi, h.em, h.root⟩

theorem Wg.delS (h : Wg c Q E X a st) (i j : Nat) (hij : i ≤ j) : Wg c Q E X a (delS st i j) := h.del i j hij

/-- node `x` is not empty: it needs no exemption -/
theorem Wg.settle_keep (h : Wg c Q E X a st) (x : Nat) (hne : (a[x]!).start < (a[x]!).stop) :
    Wg c Q (fun y => E y ∧ y ≠ x) X a st := by
  refine ⟨h.stk.mono (fun e _ hE hE' => ?_), h.em, h.root⟩
  by_cases hx : e.node = x
  · rw [hx]; exact hne
  · exact absurd ⟨hE, hx⟩ hE'

theorem spanLen_pos {a b : Int} (h : ¬ (spanLenI a b == 0) = true) : a < b := by
  unfold spanLenI at h
  split at h
  · rename_i hc
    simp only [Bool.and_eq_true, decide_eq_true_eq] at hc
    simp only [beq_iff_eq] at h
    omega
  · simp at h

theorem spanLen_ge2 {a b : Int} (h : spanLenI a b ≥ 2) : a + 2 ≤ b := by
  unfold spanLenI at h
  split at h
  · rename_i hc
    simp only [Bool.and_eq_true, decide_eq_true_eq] at hc
    omega
  · omega

theorem match_typ {o cl : Gen.DelimElem} (h : Gen.isEmphasisDelimiterMatch o cl = true) :
    (o.typ = 1 ∨ o.typ = 2) ∧ o.typ = cl.typ := by
  unfold Gen.isEmphasisDelimiterMatch at h
  simp only [Bool.and_eq_true, Bool.or_eq_true, beq_iff_eq] at h
  exact ⟨h.1.1.1.1, h.1.1.1.2⟩

/-- distinct indices of the stack hold distinct nodes -/
theorem StkE.node_ne (h : StkE c E a st) {i j : Nat} (hi : i < st.size) (hj : j < st.size) (hij : i < j) :
    st[i].node ≠ st[j].node := by
  have hnd := h.inj
  unfold List.Nodup at hnd
  rw [List.pairwise_iff_getElem] at hnd
  have := hnd i j (by simpa using hi) (by simpa using hj) hij
  simpa using this

/-- ONE MATCH, before `wrap`: the opener `on` loses `w` bytes at its end, the closer `cn` `w` bytes at its start (`w` = 2
    if both have two, else 1); the invariant holds with the two nodes exempted from being non-empty, and the span
    between them — where `wrap` puts the new node — starts and ends with `w` delimiter bytes. -/
theorem shrink_ok (h : Wg c Q NoN NoN a st) (oi cur : Nat) (hoc : oi < cur) (hcur : cur < st.size)
    (hm : Gen.isEmphasisDelimiterMatch (st[oi]!).elem (st[cur]!).elem = true) (on cn : Nat)
    (hon : on = (st[oi]!).node) (hcn : cn = (st[cur]!).node) (strong : Bool)
    (hs : strong = (decide (spanLenI (a[on]!).start (a[on]!).stop ≥ 2) && decide (spanLenI (a[cn]!).start (a[cn]!).stop ≥ 2)))
    (w : Int) (hw : w = if strong = true then 2 else 1) (a' : Array INode)
    (ha' : a' = (a.modify on (fun n => { n with stop := n.stop - w })).modify cn (fun n => { n with start := n.start + w })) :
    Wg c Q (fun y => y = on ∨ y = cn) NoN a' st ∧
    EmAt c (if strong = true then 2 else 1) ((a'[on]!).stop) ((a'[cn]!).start) := by
  have hoi : oi < st.size := by omega
  rw [getElem!_pos st oi hoi] at hon hm
  rw [getElem!_pos st cur hcur] at hcn hm
  have heo : st[oi] ∈ st := Array.getElem_mem hoi
  have hec : st[cur] ∈ st := Array.getElem_mem hcur
  have hne : on ≠ cn := by rw [hon, hcn]; exact h.stk.node_ne hoi hcur hoc
  obtain ⟨hto, htc⟩ := match_typ hm
  obtain ⟨olt, ow⟩ := h.stk.ok _ heo
  obtain ⟨clt, cw⟩ := h.stk.ok _ hec
  have one := h.stk.ne _ heo (fun hx => hx)
  have cne := h.stk.ne _ hec (fun hx => hx)
  rw [← hon] at olt ow one
  rw [← hcn] at clt cw cne
  -- the widths
  have hwo : w ≤ (a[on]!).stop - (a[on]!).start ∧ w ≤ (a[cn]!).stop - (a[cn]!).start ∧ 1 ≤ w := by
    cases strong with
    | true =>
      simp only [if_true] at hw
      have hs' := hs.symm
      simp only [Bool.and_eq_true, decide_eq_true_eq] at hs'
      have := spanLen_ge2 hs'.1
      have := spanLen_ge2 hs'.2
      omega
    | false =>
      simp only [Bool.false_eq_true, if_false] at hw
      omega
  obtain ⟨hw1, hw2, hw3⟩ := hwo
  -- the arena after the two modifications
  have e1 : a'[on]! = { a[on]! with stop := (a[on]!).stop - w } := by
    rw [ha', get!_modify_ne (fun h' => hne h'.symm), get!_modify_eq olt]
  have e2 : a'[cn]! = { a[cn]! with start := (a[cn]!).start + w } := by
    rw [ha', get!_modify_eq (by simpa using clt), get!_modify_ne hne]
  have hstk : StkE c (fun y => y = on ∨ y = cn) a' st := by
    have s1 := h.stk.shrink1 heo hto (fun n => { n with stop := n.stop - w }) rfl (Int.le_refl _)
      (by rw [← hon]; show (a[on]!).stop - w ≤ _; omega) (by rw [← hon]; show (a[on]!).start ≤ (a[on]!).stop - w; omega)
    rw [← hon] at s1
    have hcn' : (a.modify on (fun n => { n with stop := n.stop - w }))[cn]! = a[cn]! := get!_modify_ne hne
    have s2 := s1.shrink1 hec (by rw [← htc]; exact hto) (fun n => { n with start := n.start + w }) rfl
      (by rw [← hcn, hcn']; show (a[cn]!).start ≤ (a[cn]!).start + w; omega)
      (by rw [← hcn, hcn']; exact Int.le_refl _)
      (by rw [← hcn, hcn']; show (a[cn]!).start + w ≤ (a[cn]!).stop; omega)
    rw [← hcn, ← ha'] at s2
    exact s2.mono (fun e _ hx hx' => by
      rcases hx with (hx | hx) | hx
      · exact absurd hx (fun h' => h')
      · exact absurd (Or.inl hx) hx'
      · exact absurd (Or.inr hx) hx')
  refine ⟨⟨hstk, ?_, ?_⟩, ?_⟩
  · -- the other nodes
    rw [ha']
    have m1 : EmNodes c Q NoN (a.modify on (fun n => { n with stop := n.stop - w })) :=
      h.em.modify_text (f := fun n => { n with stop := n.stop - w }) (fun _ => rfl) (fun _ => by rw [ow.kind]; decide)
    exact m1.modify_text (f := fun n => { n with start := n.start + w }) (fun _ => rfl)
      (fun _ => by rw [get!_modify_ne hne, cw.kind]; decide)
  · rw [ha']
    have r1 : KindP (· = 0) (a.modify on (fun n => { n with stop := n.stop - w })) 0 :=
      h.root.modify (f := fun n => { n with stop := n.stop - w }) (fun _ => rfl)
    exact r1.modify (f := fun n => { n with start := n.start + w }) (fun _ => rfl)
  · -- the new span
    rw [e1, e2]
    show EmAt c _ ((a[on]!).stop - w) ((a[cn]!).start + w)
    have hww : ((if strong = true then 2 else 1 : Nat) : Int) = w := by
      rw [hw]; cases strong <;> rfl
    have key : ∀ ch : UInt8, AllCh c ch (a[on]!).start (a[on]!).stop →
        AllCh c ch (a[cn]!).start (a[cn]!).stop → (ch = 0x2A ∨ ch = 0x5F) →
        EmAt c (if strong = true then 2 else 1) ((a[on]!).stop - w) ((a[cn]!).start + w) := by
      intro ch ho hc hch
      refine ⟨ch, hch, by have := ow.lo; omega, by have := cw.hi; omega, ho.mono (by omega) (by rw [hww]; omega),
        hc.mono (by rw [hww]; omega) (by omega)⟩
    rcases ow.chars with ⟨t1, c1⟩ | ⟨t1, c1⟩ | ⟨t1, _⟩ | ⟨t1, _⟩
    · rcases cw.chars with ⟨t2, c2⟩ | ⟨t2, c2⟩ | ⟨t2, _⟩ | ⟨t2, _⟩
      · exact key _ c1 c2 (Or.inl rfl)
      all_goals (rw [← htc, t1] at t2; omega)
    · rcases cw.chars with ⟨t2, c2⟩ | ⟨t2, c2⟩ | ⟨t2, _⟩ | ⟨t2, _⟩
      · rw [← htc, t1] at t2; omega
      · exact key _ c1 c2 (Or.inr rfl)
      all_goals (rw [← htc, t1] at t2; omega)
    · rcases hto with h' | h' <;> omega
    · rcases hto with h' | h' <;> omega

theorem em_new {n : INode} {strong : Bool} (hk : n.kind = if strong = true then IK.strong else IK.emphasis)
    (hat : EmAt c (if strong = true then 2 else 1) n.start n.stop) : EmP c Q n := by
  cases strong with
  | true =>
    simp only [if_true] at hk hat
    exact Or.inr ⟨fun h => (by rw [hk] at h; cases h), fun _ => hat, fun h => (by rw [hk] at h; cases h),
      fun h => (by rw [hk] at h; cases h)⟩
  | false =>
    simp only [Bool.false_eq_true, if_false] at hk hat
    exact Or.inr ⟨fun _ => hat, fun h => (by rw [hk] at h; cases h), fun h => (by rw [hk] at h; cases h),
      fun h => (by rw [hk] at h; cases h)⟩

/-! ### after `wrap`: the four ways the two delimiters leave (or stay on) the stack -/

theorem idx_o (st : Array DelimE) (oi cur : Nat) (hoc : oi < cur) (hcur : cur < st.size) :
    (delS st (oi + 1) cur)[oi]! = st[oi]! := delS_get_lt st (oi + 1) cur oi (by omega) (by omega)

theorem idx_c1 (st : Array DelimE) (oi cur : Nat) (hoc : oi < cur) (hcur : cur < st.size) :
    (delS st (oi + 1) cur)[oi + 1]! = st[cur]! := by
  rw [delS_get_ge st (oi + 1) cur (oi + 1) (Nat.le_refl _) (by omega) (by simpa using hcur)]
  simp

theorem size1 (st : Array DelimE) (oi cur : Nat) (hoc : oi < cur) (hcur : cur < st.size) :
    (delS st (oi + 1) cur).size = oi + 1 + (st.size - cur) := delS_size st (oi + 1) cur (by omega) (by omega)

theorem idx_c2 (st : Array DelimE) (oi cur : Nat) (hoc : oi < cur) (hcur : cur < st.size) :
    (delS (delS st (oi + 1) cur) oi (oi + 1))[oi]! = st[cur]! := by
  have hs := size1 st oi cur hoc hcur
  rw [delS_get_ge _ oi (oi + 1) oi (Nat.le_refl _) (by omega) (by simp only [Nat.sub_self, Nat.add_zero]; omega)]
  simp only [Nat.sub_self, Nat.add_zero]
  exact idx_c1 st oi cur hoc hcur

theorem noE2 {o cl : Nat} : ∀ y, ((y = o ∨ y = cl) ∧ y ≠ o) ∧ y ≠ cl → NoN y := by
  intro y h
  rcases h.1.1 with h' | h'
  · exact h.1.2 h'
  · exact h.2 h'

section
variable {o cl : Nat} (hB : Wg c Q (fun y => y = o ∨ y = cl) NoN a st) (oi cur : Nat) (hoc : oi < cur) (hcur : cur < st.size)
  (ho : (st[oi]!).node = o) (hc : (st[cur]!).node = cl)
include hB hoc hcur ho hc

/-- both delimiters are used up -/
theorem path_TT {f1 f2 : INode → INode} (h1 : FPres f1) (h2 : FPres f2) (p1 p2 : Nat) :
    Wg c Q NoN NoN ((a.modify p1 f1).modify p2 f2) (delS (delS (delS st (oi + 1) cur) oi (oi + 1)) oi (oi + 1)) := by
  have hs := size1 st oi cur hoc hcur
  have k1 := (hB.delS (oi + 1) cur (by omega)).settle_erase oi (by omega) o (by rw [idx_o st oi cur hoc hcur]; exact ho)
  have hs2 : (delS (delS st (oi + 1) cur) oi (oi + 1)).size = oi + (st.size - cur) := by
    rw [delS_size _ oi (oi + 1) (by omega) (by omega)]; omega
  have k2 := k1.settle_erase oi (by omega) cl (by rw [idx_c2 st oi cur hoc hcur]; exact hc)
  exact ((k2.weakenE noE2).modify_pres h1).modify_pres h2

/-- the opener is used up, the closer is not -/
theorem path_TF {f1 : INode → INode} (h1 : FPres f1) (p1 : Nat)
    (hne : ((a.modify p1 f1)[cl]!).start < ((a.modify p1 f1)[cl]!).stop) :
    Wg c Q NoN NoN (a.modify p1 f1) (delS (delS st (oi + 1) cur) oi (oi + 1)) := by
  have hs := size1 st oi cur hoc hcur
  have k1 := (hB.delS (oi + 1) cur (by omega)).settle_erase oi (by omega) o (by rw [idx_o st oi cur hoc hcur]; exact ho)
  exact ((k1.modify_pres h1).settle_keep cl hne).weakenE noE2

/-- the closer is used up, the opener is not -/
theorem path_FT {f2 : INode → INode} (h2 : FPres f2) (p2 : Nat) (hne : (a[o]!).start < (a[o]!).stop) :
    Wg c Q NoN NoN (a.modify p2 f2) (delS (delS st (oi + 1) cur) (oi + 1) (oi + 1 + 1)) := by
  have hs := size1 st oi cur hoc hcur
  have k1 := (hB.delS (oi + 1) cur (by omega)).settle_keep o hne
  have k2 := k1.settle_erase (oi + 1) (by omega) cl (by rw [idx_c1 st oi cur hoc hcur]; exact hc)
  exact (k2.weakenE noE2).modify_pres h2

/-- both stay -/
theorem path_FF (hno : (a[o]!).start < (a[o]!).stop) (hnc : (a[cl]!).start < (a[cl]!).stop) :
    Wg c Q NoN NoN a (delS st (oi + 1) cur) :=
  (((hB.delS (oi + 1) cur (by omega)).settle_keep o hno).settle_keep cl hnc).weakenE noE2

end

end

end CM.Proofs.InlH
