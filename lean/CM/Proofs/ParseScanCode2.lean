import CM.Proofs.ParseScanCode
/-
C02 / C04, inline halves, for the whole of `Parse` — `parseCodeSpan_res`: the three loops of `parseCodeSpan` with the
invariants `I1x`, `I2x`, `I3x` (the proof follows `InlH.parseCodeSpan_good`).
-/
namespace CM.Proofs.PSc
open CM CM.Model CM.Model.Inl CM.Gen CM.Proofs CM.Proofs.BG CM.Proofs.InlH
open Std.Do

set_option mvcgen.warning false

theorem parseCodeSpan_res (c : ICtx) (start : Int) (N : Nat) (h0 : 0 ≤ start) (hN : start.toNat ≤ N)
    (hstart : c.src[start.toNat]? = some 0x60) (H : CSHyp c.unparsedL c.src N) (s0 : IState) :
    ⦃fun s => ⌜s = s0⌝⦄ parseCodeSpan c start
    ⦃⇓? r _ => ⌜CodeRes (c.unparsedL.drop s0.unparsedPos) c.src start r⌝⦄ := by
  mvcgen [parseCodeSpan, -parseCodeSpan_spec, -parseCodeSpan_specT]
  case inv1 =>
    exact PostCond.mayThrow (fun p _ => ⌜I1x c.unparsedL (c.unparsedL.drop s0.unparsedPos) c.src start.toNat N p.2.1 p.2.2.1 p.2.2.2.1 p.2.2.2.2.1 p.2.2.2.2.2 ∧
      (p.1.suffix ≠ [] → p.2.1 = none ∧ p.2.2.2.2.2 = false)⌝)
  case inv3 =>
    exact PostCond.mayThrow (fun _ _ => ⌜True⌝)
  case inv4 =>
    exact PostCond.mayThrow (fun p _ => ⌜I2x c.unparsedL (c.unparsedL.drop s0.unparsedPos) c.src start.toNat N
      (‹Option CodeSpan × Rd × Int × Nat × Bool›).2.2.2.1 start p.2.1 p.2.2 ∧ (p.1.suffix ≠ [] → p.2.1 = none)⌝)
  case inv5 =>
    exact PostCond.mayThrow (fun p _ => ⌜I3x c.unparsedL (c.unparsedL.drop s0.unparsedPos) c.src
      (start.toNat + (‹Option CodeSpan × Rd × Int × Nat × Bool›).2.2.2.1) N
      (Rd.current c.src (‹Option CodeSpan × Rd›).2).2.pos p.2.1 p.2.2.1 p.2.2.2 ∧
      (p.1.suffix ≠ [] → p.2.2.2 = false)⌝)
  inl_norm
  all_goals (try (exact fun h => h))
  all_goals (try (exact ExceptConds.entails.refl _))
  -- the opening run
  · obtain ⟨hI, hc⟩ := ‹I1x _ _ _ _ _ _ _ _ _ _ ∧ _›
    obtain ⟨hn, ho⟩ := hc (by simp)
    rw [hn, ho] at hI
    exact ⟨I1x.opened H hstart hI (by simpa using ‹(_ != (96 : UInt8)) = true›), fun h' => absurd rfl h'⟩
  · obtain ⟨hI, hc⟩ := ‹I1x _ _ _ _ _ _ _ _ _ _ ∧ _›
    obtain ⟨hn, ho⟩ := hc (by simp)
    rw [hn, ho] at hI
    exact ⟨I1x.ret_invalid _ _ _ (I1x.lo hI), fun h' => absurd rfl h'⟩
  · obtain ⟨hI, hc⟩ := ‹I1x _ _ _ _ _ _ _ _ _ _ ∧ _›
    obtain ⟨hn, ho⟩ := hc (by simp)
    rw [hn, ho] at hI
    refine ⟨?_, fun _ => ⟨trivial, ho⟩⟩
    simp +zetaDelta only [ho]
    exact I1x.tick H hI (u8_of_not_bne' ‹¬(_ != (96 : UInt8)) = true›) (by simpa using ‹¬(!_) = true›)
  · obtain ⟨hs1, hsp⟩ := ‹(_ : IState) = _ ∧ (_ : List Tree) = _›
    have hs0 : _ = s0 := ‹_ = s0›
    subst hsp
    rw [← hs0]
    exact ⟨I1x.init H _ _ hN _ (by omega), fun _ => ⟨trivial, trivial⟩⟩
  · obtain ⟨hI, -⟩ := ‹I1x _ _ _ _ _ _ _ _ _ _ ∧ _›
    have h1 := hI.1.1 _ ‹_ = some _›
    have h2 := hI.2.1 _ ‹_ = some _›
    exact ⟨by omega, fun hv => by rw [h1] at hv; cases hv⟩
  -- the body: a byte that is not a backtick
  · obtain ⟨hI1, -⟩ := ‹I1x _ _ _ _ _ _ _ _ _ _ ∧ _›
    have hr1 : (‹Option CodeSpan × Rd × Int × Nat × Bool›).1 = none := ‹_ = none›
    have ho : (‹Option CodeSpan × Rd × Int × Nat × Bool›).2.2.2.2 = true := by simpa using ‹¬(!_) = true›
    rw [hr1, ho] at hI1
    obtain ⟨-, -, -, -, hcs, -, -⟩ := I2x.init (start := start) H hI1
    exact ⟨I2x.ret (Good.invalid _ _ _) (ext_invalid _ _ _ (by simp +zetaDelta only [hcs]; omega)), fun h' => absurd rfl h'⟩
  · obtain ⟨hI, hc⟩ := ‹I2x _ _ _ _ _ _ _ _ _ ∧ _›
    have hn := hc (by simp)
    rw [hn] at hI
    exact ⟨I2x.step H hI (by simpa using ‹(_ != (96 : UInt8)) = true›) (by simpa using ‹¬(!_) = true›), fun _ => trivial⟩
  -- the closing run
  · obtain ⟨hI, hc⟩ := ‹I3x _ _ _ _ _ _ _ _ _ ∧ _›
    have hd := hc (by simp)
    rw [hd] at hI
    exact ⟨I3x.stop_fail H hI (by simpa using ‹(!_) = true›), fun h' => absurd rfl h'⟩
  · obtain ⟨hI, hc⟩ := ‹I3x _ _ _ _ _ _ _ _ _ ∧ _›
    have hd := hc (by simp)
    rw [hd] at hI
    exact ⟨I3x.stop_byte H hI (by simpa using ‹¬(!_) = true›) (by simpa using ‹(_ != (96 : UInt8)) = true›),
      fun h' => absurd rfl h'⟩
  · obtain ⟨hI, hc⟩ := ‹I3x _ _ _ _ _ _ _ _ _ ∧ _›
    have hd := hc (by simp)
    rw [hd] at hI
    refine ⟨?_, fun _ => hd⟩
    simp +zetaDelta only [hd]
    exact I3x.tick H hI (by simpa using ‹¬(!_) = true›) (u8_of_not_bne' ‹¬(_ != (96 : UInt8)) = true›)
  -- a closing run starts
  · obtain ⟨hI2, hc⟩ := ‹I2x _ _ _ _ _ _ _ _ _ ∧ _›
    have hn := hc (by simp)
    rw [hn] at hI2
    obtain ⟨hI1, -⟩ := ‹I1x _ _ _ _ _ _ _ _ _ _ ∧ _›
    have hr1 : (‹Option CodeSpan × Rd × Int × Nat × Bool›).1 = none := ‹_ = none›
    have ho : (‹Option CodeSpan × Rd × Int × Nat × Bool›).2.2.2.2 = true := by simpa using ‹¬(!_) = true›
    rw [hr1, ho] at hI1
    obtain ⟨-, hnt, -, -⟩ := I2x.init (start := start) H hI1
    exact ⟨(I2x.found H hI2 hnt (u8_of_not_bne' ‹¬(_ != (96 : UInt8)) = true›)).1, fun _ => trivial⟩
  -- the closing run is over: the result, the end of the reader, or on with the body
  · obtain ⟨hI2, hc⟩ := ‹I2x _ _ _ _ _ _ _ _ _ ∧ _›
    have hn := hc (by simp)
    rw [hn] at hI2
    obtain ⟨hI1, -⟩ := ‹I1x _ _ _ _ _ _ _ _ _ _ ∧ _›
    have hr1 : (‹Option CodeSpan × Rd × Int × Nat × Bool›).1 = none := ‹_ = none›
    have ho : (‹Option CodeSpan × Rd × Int × Nat × Bool›).2.2.2.2 = true := by simpa using ‹¬(!_) = true›
    rw [hr1, ho] at hI1
    obtain ⟨-, hnt, -, -, hcs, ha, han⟩ := I2x.init (start := start) H hI1
    obtain ⟨-, hpre, hlt⟩ := I2x.found H hI2 hnt (u8_of_not_bne' ‹¬(_ != (96 : UInt8)) = true›)
    obtain ⟨hI3, -⟩ := ‹I3x _ _ _ _ _ _ _ _ _ ∧ _›
    have hd : (‹Rd × Nat × Bool›).2.2 = true := by simpa using ‹¬(!_) = true›
    rw [hd] at hI3
    have hrn : (‹Rd × Nat × Bool›).2.1 = (‹Option CodeSpan × Rd × Int × Nat × Bool›).2.2.2.1 := by
      have := ‹((_ : Nat) == _) = true›
      simpa +zetaDelta using this
    obtain ⟨g1, g2⟩ := I3x.result hI3 h0 hrn hpre hlt _ _ hcs rfl ha han
    exact ⟨I2x.ret g1 g2, fun h' => absurd rfl h'⟩
  · obtain ⟨hI1, -⟩ := ‹I1x _ _ _ _ _ _ _ _ _ _ ∧ _›
    have hr1 : (‹Option CodeSpan × Rd × Int × Nat × Bool›).1 = none := ‹_ = none›
    have ho : (‹Option CodeSpan × Rd × Int × Nat × Bool›).2.2.2.2 = true := by simpa using ‹¬(!_) = true›
    rw [hr1, ho] at hI1
    obtain ⟨-, -, -, -, hcs, -, -⟩ := I2x.init (start := start) H hI1
    exact ⟨I2x.ret (Good.invalid _ _ _) (ext_invalid _ _ _ (by simp +zetaDelta only [hcs]; omega)), fun h' => absurd rfl h'⟩
  · obtain ⟨hI3, -⟩ := ‹I3x _ _ _ _ _ _ _ _ _ ∧ _›
    have hd : (‹Rd × Nat × Bool›).2.2 = true := by simpa using ‹¬(!_) = true›
    rw [hd] at hI3
    exact ⟨I3x.continue hI3 (by simpa using ‹¬(!(Rd.next _ _).fst) = true›), fun _ => trivial⟩
  -- the body starts; the result
  · obtain ⟨hI1, -⟩ := ‹I1x _ _ _ _ _ _ _ _ _ _ ∧ _›
    have hr1 : (‹Option CodeSpan × Rd × Int × Nat × Bool›).1 = none := ‹_ = none›
    have ho : (‹Option CodeSpan × Rd × Int × Nat × Bool›).2.2.2.2 = true := by simpa using ‹¬(!_) = true›
    rw [hr1, ho] at hI1
    exact ⟨(I2x.init (start := start) H hI1).1, fun _ => trivial⟩
  · obtain ⟨hI1, -⟩ := ‹I1x _ _ _ _ _ _ _ _ _ _ ∧ _›
    have hr1 : (‹Option CodeSpan × Rd × Int × Nat × Bool›).1 = none := ‹_ = none›
    have ho : (‹Option CodeSpan × Rd × Int × Nat × Bool›).2.2.2.2 = true := by simpa using ‹¬(!_) = true›
    rw [hr1, ho] at hI1
    obtain ⟨-, hnt, hn1, hrun, -, -, -⟩ := I2x.init (start := start) H hI1
    obtain ⟨hI2, -⟩ := ‹I2x _ _ _ _ _ _ _ _ _ ∧ _›
    exact CodeRes.of h0 (hI2.1.1 _ ‹_ = some _›) (hI2.2.1 _ ‹_ = some _›) hn1 hrun hnt
  · intro h; exact h.elim
end CM.Proofs.PSc
