import CM.Proofs.QuoteMatch
/-
C09 (block-quote half), step (2) for `addLineText`: the blank-line marks (`lastLineBlank`, which decide list looseness),
the paragraph opened for the text, and the text / soft line break nodes of the line.
-/
namespace CM.Proofs.Quote
open CM CM.Model CM.Gen CM.Proofs.BT

variable {E : Env} {k : Nat} {p q : LP} {x : PExt}

/-! ### the blank mark on the container's last child -/

/-- The function `addLineText` applies to the container on a blank line. -/
def blankFn : PB → PB := fun b => match b with
  | .mk l bs is => match bs.getLast? with
    | some c => .mk l (bs.dropLast ++ [c.setLabel fun cl => { cl with lastLineBlank := true }]) is
    | none => .mk l bs is

theorem BR.markBlank {c c' : PB} (h : BR E c c') :
    BR E (c.setLabel fun cl => { cl with lastLineBlank := true }) (c'.setLabel fun cl => { cl with lastLineBlank := true }) :=
  h.setLabel _ (h.label.setBlank true) rfl

theorem BR.blankFn {c c' : PB} (h : BR E c c') : BR E (blankFn c) (blankFn c') := by
  obtain ⟨l, bs, is⟩ := c
  obtain ⟨l', bs', is'⟩ := c'
  have hb := (BR_mk E _ _ _ _ _ _).mp h
  obtain ⟨hl, hd⟩ := hb.2.1.getLast
  simp only [Quote.blankFn]
  cases hc : bs.getLast? with
  | none => rw [hc] at hl; rw [hl.none_left]; exact h
  | some a =>
    rw [hc] at hl
    obtain ⟨a', ea, r⟩ := hl.some_left
    rw [ea]
    simp only []
    rw [BR_mk]
    exact ⟨hb.1, hd.concat r.markBlank, hb.2.2⟩

theorem TopR.blankFn {P Qb : PB} (h : TopR E P Qb) : TopR E (blankFn P) (blankFn Qb) := by
  obtain ⟨lp, bs, isP⟩ := P
  obtain ⟨lq, bq, isq⟩ := Qb
  obtain ⟨pre, bs', ebq, hpre, hr⟩ := h.kids
  simp only [PB.blocks] at ebq hr
  subst ebq
  simp only [Quote.blankFn]
  obtain ⟨hl, hd⟩ := hr.getLast
  cases hc : bs.getLast? with
  | none =>
    have hnil : bs = [] := List.getLast?_eq_none_iff.mp hc
    have hnil' : bs' = [] := hr.nil_iff.mp hnil
    subst hnil'
    rw [List.append_nil]
    cases hp2 : pre.getLast? with
    | none =>
      show TopR E (PB.mk lp bs isP) (PB.mk lq pre isq)
      exact ⟨h.pkind, h.popen, h.qlab, h.qinl, pre, [], by simp [PB.blocks], hpre, by simp only [PB.blocks, hnil]; exact .nil⟩
    | some c' =>
      show TopR E (PB.mk lp bs isP) (PB.mk lq (pre.dropLast ++ [c'.setLabel fun cl => { cl with lastLineBlank := true }]) isq)
      refine ⟨h.pkind, h.popen, h.qlab, h.qinl, pre.dropLast ++ [c'.setLabel fun cl => { cl with lastLineBlank := true }], [],
        by simp [PB.blocks], ?_, by simp only [PB.blocks, hnil]; exact .nil⟩
      have hne : pre ≠ [] := by intro e0; rw [e0] at hp2; cases hp2
      have hsplit : pre = pre.dropLast ++ [c'] := by
        have h1 := List.dropLast_concat_getLast hne
        rw [List.getLast?_eq_some_getLast hne] at hp2
        cases hp2
        exact h1.symm
      refine ⟨?_, ?_⟩
      · intro b hb
        rcases List.mem_append.mp hb with hb | hb
        · exact hpre.1 b ((List.dropLast_sublist pre).subset hb)
        · simp only [List.mem_singleton] at hb
          subst hb
          have := hpre.1 c' (List.mem_of_getLast? hp2)
          obtain ⟨l0, b0, i0⟩ := c'
          exact this
      · rw [← hpre.2]
        conv => rhs; rw [hsplit]
        simp only [List.map_append, List.map_cons, List.map_nil]
        congr 2
        obtain ⟨l0, b0, i0⟩ := c'
        simp only [PB.setLabel, pbToTree]
  | some a =>
    rw [hc] at hl
    obtain ⟨a', ea, r⟩ := hl.some_left
    have hne : bs ≠ [] := by intro e0; rw [e0] at hc; cases hc
    have hne' : bs' ≠ [] := fun e0 => hne (hr.nil_iff.mpr e0)
    rw [getLast?_append_ne' _ _ hne', ea]
    simp only []
    refine ⟨h.pkind, h.popen, h.qlab, h.qinl, pre, bs'.dropLast ++ [a'.setLabel fun cl => { cl with lastLineBlank := true }], ?_, hpre, ?_⟩
    · simp only [PB.blocks]
      rw [dropLast_append_ne' _ _ hne', List.append_assoc]
    · simp only [PB.blocks]
      exact hd.concat r.markBlank

theorem altBlank_sim (h : Sim E k p q) : Sim E k (altBlank p) (altBlank q) := by
  unfold altBlank
  rw [h.cur.isRestBlank]
  split
  · have hr := h.root.modify blankFn blankFn p.depth h.valid (fun _ c c' _ _ r => r.blankFn) (fun _ Qb ht => ht.blankFn)
    have := h.setRoot _ _ p.depth hr (spineModify_valid _ _ _ h.valid)
    rw [h.depth]
    exact this
  · exact h

/-! ### the `lastLineBlank` flags -/

theorem TopR.blankFlags {P Qb : PB} (h : TopR E P Qb) (v v' : Bool) (d : Nat) (hv : (spineGet P d).isSome)
    (hvv : 1 ≤ d → v' = v) : TopR E (setBlankFlags v P d) (setBlankFlags v' Qb d) := by
  obtain ⟨lp, bs, isP⟩ := P
  obtain ⟨lq, bq, isq⟩ := Qb
  obtain ⟨pre, bs', ebq, hpre, hr⟩ := h.kids
  simp only [PB.blocks] at ebq hr
  subst ebq
  have hq : QLab ({ lq with lastLineBlank := v' } : PLabel) :=
    ⟨h.qlab.kind, h.qlab.start, h.qlab.stop, h.qlab.n, h.qlab.char, h.qlab.indent, h.qlab.loose⟩
  cases d with
  | zero =>
    rw [setBlankFlags_zero, setBlankFlags_zero]
    exact ⟨h.pkind, h.popen, hq, h.qinl, pre, bs', rfl, hpre, hr⟩
  | succ d =>
    have e : v' = v := hvv (by omega)
    subst e
    rw [BT.spineGet_succ] at hv
    rw [setBlankFlags_succ, setBlankFlags_succ]
    obtain ⟨hl, hd⟩ := hr.getLast
    cases hc : bs.getLast? with
    | none => rw [hc] at hv; cases hv
    | some a =>
      rw [hc] at hl
      obtain ⟨a', ea, r⟩ := hl.some_left
      have hne : bs ≠ [] := by intro e0; rw [e0] at hc; cases hc
      have hne' : bs' ≠ [] := fun e0 => hne (hr.nil_iff.mpr e0)
      rw [getLast?_append_ne' _ _ hne', ea]
      simp only []
      refine ⟨h.pkind, h.popen, hq, h.qinl, pre, bs'.dropLast ++ [setBlankFlags v' a' d], ?_, hpre, ?_⟩
      · simp only [PB.blocks]
        rw [dropLast_append_ne' _ _ hne', List.append_assoc]
      · simp only [PB.blocks]
        exact hd.concat (BR.setBlankFlags_rel v' d a a' r)

theorem RootR.blankFlags {P Q : PB} (h : RootR E P Q) (v v' : Bool) (d : Nat) (hv : (spineGet P d).isSome)
    (hvv : 1 ≤ d → v' = v) : RootR E (setBlankFlags v P d) (setBlankFlags v' Q (d + 1)) := by
  obtain ⟨lq, isQ, Qb, rfl, h1, h2, ht⟩ := h
  rw [setBlankFlags_succ]
  simp only [List.getLast?_singleton, List.dropLast_singleton, List.nil_append]
  exact ⟨_, isQ, _, rfl, h1, h2, ht.blankFlags v v' d hv hvv⟩

theorem setBlankFlags_valid (v : Bool) : ∀ (d : Nat) (b : PB), (spineGet b d).isSome → (spineGet (setBlankFlags v b d) d).isSome := by
  intro d
  induction d with
  | zero => intro b _; rw [spineGet_zero]; rfl
  | succ d ih =>
    intro b h
    obtain ⟨l, bs, is⟩ := b
    rw [BT.spineGet_succ] at h
    rw [setBlankFlags_succ]
    cases hc : bs.getLast? with
    | none => rw [hc] at h; cases h
    | some c =>
      rw [hc] at h
      simp only []
      rw [BT.spineGet_succ]
      simp only [List.getLast?_append, List.getLast?_singleton, Option.some_or]
      exact ih c h

theorem altFlags_sim (h : Sim E k p q) (b : Bool) : Sim E k (altFlags b p) (altFlags b q) := by
  unfold altFlags
  simp only []
  have key : 1 ≤ p.depth →
      (b && !(q.containerKind == BK.blockQuote || q.containerKind == BK.fencedCode ||
        (q.containerKind == BK.listItem && q.container.childCount == 1 && decide (q.container.label.start ≥ q.lineStart)))) =
      (b && !(p.containerKind == BK.blockQuote || p.containerKind == BK.fencedCode ||
        (p.containerKind == BK.listItem && p.container.childCount == 1 && decide (p.container.label.start ≥ p.lineStart)))) := by
    intro hd
    have r := h.container_pos hd
    rw [h.containerKind_pos hd]
    by_cases hk : p.containerKind = BK.listItem
    · have e1 : q.container.childCount = p.container.childCount := r.childCount (by show p.containerKind ≠ _; rw [hk]; decide)
      have e2 : decide (q.container.label.start ≥ (q.lineStart : Int)) = decide (p.container.label.start ≥ (p.lineStart : Int)) := by
        have := h.ord _ _ r.label.start
        by_cases hp : p.container.label.start ≥ (p.lineStart : Int)
        · have hq : q.container.label.start ≥ (q.lineStart : Int) := this.mp hp
          simp [hp, hq]
        · have hq : ¬ q.container.label.start ≥ (q.lineStart : Int) := fun hq => hp (this.mpr hq)
          simp [hp, hq]
      rw [e1, e2]
    · have : (p.containerKind == BK.listItem) = false := by simpa using hk
      simp only [this, Bool.false_and]
  have hr := h.root.blankFlags
    (b && !(p.containerKind == BK.blockQuote || p.containerKind == BK.fencedCode ||
      (p.containerKind == BK.listItem && p.container.childCount == 1 && decide (p.container.label.start ≥ p.lineStart))))
    (b && !(q.containerKind == BK.blockQuote || q.containerKind == BK.fencedCode ||
      (q.containerKind == BK.listItem && q.container.childCount == 1 && decide (q.container.label.start ≥ q.lineStart))))
    p.depth h.valid key
  have := h.setRoot _ _ p.depth hr (setBlankFlags_valid _ _ _ h.valid)
  rw [h.depth]
  exact this

/-! ### where the text goes -/

theorem getD_mem {l : Bytes} {i : Nat} (h : i < l.length) : l.getD i 0 ∈ l := by
  rw [List.getD_eq_getElem?_getD, List.getElem?_eq_getElem h]
  exact List.getElem_mem _

theorem altCont_sim (HC : CloseParaSim x E) (h : Sim E k p q) (b : Bool) (hs : acceptsLines p.containerKind = false → p.state ≤ 2) :
    OR (fun a c => Sim E k a c ∧ 1 ≤ a.depth ∧ acceptsLines a.containerKind = true) (BT.altCont x b p) (BT.altCont x b q) := by
  unfold BT.altCont
  simp only []
  rw [h.acceptsLines_eq]
  by_cases ha : acceptsLines p.containerKind = true
  · rw [if_pos ha, if_pos ha]
    have hd : 1 ≤ p.depth := by
      apply h.depth_pos_of_kind
      intro e; rw [e] at ha; exact absurd ha (by decide)
    -- no tab in front of the cursor on either side
    have nt : ¬ (decide (p.i < p.line.length) && p.line.getD p.i 0 == TAB && decide (p.tabRem > 0) && p.tabPartial) = true := by
      simp only [Bool.and_eq_true, decide_eq_true_eq, beq_iff_eq]
      intro hc
      exact h.cur.notab _ (getD_mem hc.1.1.1) hc.1.1.2
    have ntq : ¬ (decide (q.i < q.line.length) && q.line.getD q.i 0 == TAB && decide (q.tabRem > 0) && q.tabPartial) = true := by
      rw [h.cur.getD]
      simp only [Bool.and_eq_true, decide_eq_true_eq, beq_iff_eq]
      intro hc
      exact h.cur.notab _ (getD_mem (h.cur.lt_iff.mp hc.1.1.1)) hc.1.1.2
    rw [if_neg nt, if_neg ntq]
    exact .ss ⟨h, hd, ha⟩
  · rw [if_neg ha, if_neg ha]
    split
    · have hs2 := hs (by simpa using ha)
      have h2 := h.openBlock HC BK.paragraph id (fun _ _ r => r) (fun _ => rfl) (Or.inl (by decide)) (by decide)
      have g2 := good_openBlock x p BK.paragraph id (fun _ => rfl) h.treeOK_p hs2 (Or.inl (by decide))
      rw [h2.cur.indent]
      have g3 := g2.consumeIndentN (p.openBlock x BK.paragraph).indent
      exact .ss ⟨h2.consumeIndentN _, g3.dep, by rw [g3.ck]; decide⟩
    · exact .nn

/-! ### the text node -/

theorem hasByteSuffix_single (l : Bytes) (c : UInt8) : hasByteSuffix l [c] = (l.getLast? == some c) := by
  unfold hasByteSuffix
  rw [List.getLast?_eq_head?_reverse]
  cases l.reverse with
  | nil => simp [hasBytePrefix]
  | cons a t => simp [hasBytePrefix]

theorem CRel.getLast (h : CRel k p q) (hne : p.line ≠ []) : q.line.getLast? = p.line.getLast? := by
  have e : q.line = q.line.take k ++ p.line := by rw [← h.rest]; exact (List.take_append_drop k q.line).symm
  rw [e, getLast?_append_ne' _ _ hne]

theorem altTail_eq (p : LP) : altTail p =
    if ((p.containerKind == BK.indentedCode || p.containerKind == BK.fencedCode) && !hasByteSuffix p.line [LF] &&
        !hasByteSuffix p.line [CR]) = true then
      (p.appendInline (mkInline (if (p.containerKind == BK.indentedCode || p.containerKind == BK.fencedCode) = true then IK.text
        else if (p.containerKind == BK.htmlBlock) = true then IK.rawHTML else IK.unparsed)
        (p.lineStart + p.i) (p.lineStart + p.line.length))).appendInline
        (mkInline IK.softBreak (p.lineStart + p.line.length) (p.lineStart + p.line.length))
    else
      p.appendInline (mkInline (if (p.containerKind == BK.indentedCode || p.containerKind == BK.fencedCode) = true then IK.text
        else if (p.containerKind == BK.htmlBlock) = true then IK.rawHTML else IK.unparsed)
        (p.lineStart + p.i) (p.lineStart + p.line.length)) := rfl

theorem altTail_sim (h : Sim E k p q) (hd : 1 ≤ p.depth) (ha : acceptsLines p.containerKind = true) (hne : p.line ≠ []) :
    Sim E k (altTail p) (altTail q) := by
  rw [altTail_eq, altTail_eq]
  rw [h.containerKind_pos hd, hasByteSuffix_single, hasByteSuffix_single, hasByteSuffix_single, hasByteSuffix_single,
    h.cur.getLast hne]
  have hk : p.containerKind ≠ BK.linkRefDef := by
    intro e; rw [e] at ha; exact absurd ha (by decide)
  have hlen : q.line.length = p.line.length + k := h.cur.len
  have h1 : ∀ kd, Sim E k (p.appendInline (mkInline kd (p.lineStart + p.i) (p.lineStart + p.line.length)))
      (q.appendInline (mkInline kd (q.lineStart + q.i) (q.lineStart + q.line.length))) := by
    intro kd
    apply h.appendInline hd hk
    apply h.inode { isBlock := false, kind := kd } (a := p.i) (b := p.line.length) h.cur.ile (Nat.le_refl _)
    · show (p.lineStart : Int) + (p.i : Int) = _; omega
    · show (p.lineStart : Int) + (p.line.length : Int) = _; omega
    · show (q.lineStart : Int) + (q.i : Int) = _; rw [h.cur.i]; omega
    · show (q.lineStart : Int) + (q.line.length : Int) = _; rw [hlen]; omega
    · exact .nil
    · intro _ hc; cases hc
  have h2 := h1 (if (p.containerKind == BK.indentedCode || p.containerKind == BK.fencedCode) = true then IK.text
    else if (p.containerKind == BK.htmlBlock) = true then IK.rawHTML else IK.unparsed)
  generalize (if (p.containerKind == BK.indentedCode || p.containerKind == BK.fencedCode) = true then IK.text
    else if (p.containerKind == BK.htmlBlock) = true then IK.rawHTML else IK.unparsed) = kd at h2 ⊢
  split
  · have hd2 : 1 ≤ (p.appendInline (mkInline kd (p.lineStart + p.i) (p.lineStart + p.line.length))).depth := hd
    have hk2 : (p.appendInline (mkInline kd (p.lineStart + p.i) (p.lineStart + p.line.length))).containerKind ≠ BK.linkRefDef := by
      rw [appendInline_containerKind _ _ h.treeOK_p]; exact hk
    apply h2.appendInline hd2 hk2
    apply h2.inode { isBlock := false, kind := IK.softBreak } (a := p.line.length) (b := p.line.length) (Nat.le_refl _) (Nat.le_refl _)
    · show (p.lineStart : Int) + (p.line.length : Int) = ((p.lineStart + p.line.length : Nat) : Int); omega
    · show (p.lineStart : Int) + (p.line.length : Int) = ((p.lineStart + p.line.length : Nat) : Int); omega
    · show (q.lineStart : Int) + (q.line.length : Int) = ((q.lineStart + k + p.line.length : Nat) : Int); rw [hlen]; omega
    · show (q.lineStart : Int) + (q.line.length : Int) = ((q.lineStart + k + p.line.length : Nat) : Int); rw [hlen]; omega
    · exact .nil
    · intro _ hc; cases hc
  · exact h2

/-- **`addLineText`** on related parsers. -/
theorem addLineText_sim (HC : CloseParaSim x E) (h : Sim E k p q) (hne : p.line ≠ [])
    (hs : acceptsLines p.containerKind = false → p.state ≤ 2) : Sim E k (addLineText x p) (addLineText x q) := by
  rw [BT.addLineText_eq, BT.addLineText_eq, h.cur.isRestBlank]
  have h1 := altFlags_sim (altBlank_sim h) p.isRestBlank
  have ab := altBlank_sim h
  -- the container kind and the state are those of `p`
  have hk1 : (altFlags p.isRestBlank (altBlank p)).containerKind = p.containerKind := by
    have t1 : TreeOK (altBlank p) := ab.treeOK_p
    have e1 : (altBlank p).containerKind = p.containerKind := by
      unfold altBlank
      split
      · have := labelAt_modify_self _ blankFn_label p.depth p.root
        have hv := h.valid
        simp only [LP.containerKind, LP.container]
        simp only [labelAt] at this
        cases hsg : spineGet p.root p.depth with
        | none => rw [hsg] at hv; cases hv
        | some c =>
          rw [hsg] at this
          cases hsg' : spineGet (spineModify _ p.root p.depth) p.depth with
          | none => rw [hsg'] at this; cases this
          | some c' =>
            rw [hsg'] at this
            simp only [Option.map_some, Option.some.injEq] at this
            simp only [Option.getD_some, PB.kind, this]
      · rfl
    exact (setBlankFlags_ok (altBlank p) _ t1).2.trans e1
  have hs1 : (altFlags p.isRestBlank (altBlank p)).state = p.state := by
    unfold altFlags altBlank
    split <;> rfl
  have hl1 : (altFlags p.isRestBlank (altBlank p)).line = p.line := by
    unfold altFlags altBlank
    split <;> rfl
  have hc := altCont_sim (x := x) HC h1 p.isRestBlank (by rw [hk1, hs1]; exact hs)
  cases hcp : BT.altCont x p.isRestBlank (altFlags p.isRestBlank (altBlank p)) with
  | none =>
    rw [hcp] at hc
    rw [hc.none_left]
    exact h1
  | some p3 =>
    rw [hcp] at hc
    obtain ⟨q3, e, h3, hd3, ha3⟩ := hc.some_left
    rw [e]
    simp only []
    have hl3 : p3.line = p.line := by
      -- `BT.altCont` only opens a paragraph and consumes indentation
      unfold BT.altCont at hcp
      simp only [] at hcp
      split at hcp
      · split at hcp
        · simp only [Option.some.injEq] at hcp
          rw [← hcp, consumeIndentN_line]
          exact hl1
        · simp only [Option.some.injEq] at hcp
          rw [← hcp]; exact hl1
      · split at hcp
        · simp only [Option.some.injEq] at hcp
          rw [← hcp, consumeIndentN_line]
          have := cur_line (openBlock_post x _ BK.paragraph id (fun _ => rfl) h1.treeOK_p
            (by rw [hs1]; exact hs (by rw [← hk1]; exact Bool.eq_false_iff.mpr ‹¬ _›)) (Or.inl (by decide))).cur
          rw [this]; exact hl1
        · cases hcp
    exact altTail_sim h3 hd3 ha3 (by rw [hl3]; exact hne)

end CM.Proofs.Quote
