import CM.Proofs.LeafBlocksPara
/-
C06 (block piece, leaf blocks): setext headings — paragraph lines followed by an underline of `=` or `-`.
-/
namespace CM.Proofs.Leaf
open CM CM.Model CM.Gen
open CM.Proofs CM.Proofs.BT

/-! ### the underline -/

def isUnderlineChar (c : UInt8) : Bool := c == 0x3D || c == 0x2D

/-- Heading level of an underline character: `=` gives 1, `-` gives 2. -/
def setextLevel (c : UInt8) : Nat := if c == 0x3D then 1 else 2

theorem underline_classes : ∀ c : UInt8, isUnderlineChar c = true →
    c ≠ SP ∧ c ≠ TAB ∧ c ≠ 0x3E ∧ c ≠ 0x23 ∧ c ≠ 0x60 ∧ c ≠ 0x7E ∧ c ≠ 0x3C ∧ c ≠ LF ∧ c ≠ CR ∧ c ≠ 0 := by
  intro c hc
  simp only [isUnderlineChar, Bool.or_eq_true, beq_iff_eq] at hc
  rcases hc with h | h <;> subst h <;> decide

theorem setextRest_replicate (c : UInt8) (hc : c ≠ LF) : ∀ k, setextRest c (List.replicate k c ++ [LF]) = true := by
  intro k
  induction k with
  | zero =>
    have : (LF != c) = true := by simp [Ne.symm hc]
    simp [setextRest, this, isBlankLine, isWs_LF]
  | succ k ih => simp [List.replicate_succ, setextRest, ih]

theorem parseSetext_underline (c : UInt8) (m : Nat) (hc : isUnderlineChar c = true) (hm : 1 ≤ m) :
    parseSetextHeadingUnderline (List.replicate m c ++ [LF]) = setextLevel c := by
  obtain ⟨k, rfl⟩ : ∃ k, m = k + 1 := ⟨m - 1, by omega⟩
  have hne := (underline_classes c hc).2.2.2.2.2.2.2.1
  simp only [isUnderlineChar, Bool.or_eq_true, beq_iff_eq] at hc
  rw [List.replicate_succ, List.cons_append]
  rcases hc with h | h <;> subst h <;>
  simp [parseSetextHeadingUnderline, setextRest_replicate _ hne k, setextLevel]

/-! ### `startSetext` -/

theorem consumeLine_state_open (p : LP) (hc : CurOK p) (hs : p.state ≤ 2) : p.consumeLine.state = stateLineConsumed := by
  have cl := consumeLine_post p hc
  rw [cl.state]
  split
  · exact clState_le _ hs
  · exact clState_le _ (mm_le _ hs).2.1

/-- The underline line on a document with an open paragraph that does not begin with `[`. -/
theorem processLine_setext (x : PExt) (p : LP) (first : Tree) (rest : List Tree) (c : UInt8) (r : Bytes) (level : Nat)
    (hroot : p.root = doc1 (leafOpen BK.paragraph 0 (first :: rest))) (hi : p.i = 0) (hc : CurOK p)
    (hline : p.line = c :: r) (hu : isUnderlineChar c = true)
    (hlevel : parseSetextHeadingUnderline p.line = level) (hl0 : level ≠ 0)
    (hb : p.source.getD first.label.start.toNat 0 ≠ 0x5B) :
    (processLine x p).root = docClosed1 (leafClosed BK.setextHeading level ((p.lineStart + p.line.length : Nat) : Int) (first :: rest)) ∧
    (processLine x p).panic = p.panic := by
  obtain ⟨m1, m2, m3, m4, m5, m6, m7, m8, m9, _⟩ := underline_classes c hu
  obtain ⟨hind, hbai⟩ := noIndent p c r hc hi hline m1 m2
  have hnb : isBlankLine p.line = false := by
    rw [hline]; simp [isBlankLine, not_ws_of c m1 m2 m8 m9]
  have hrb : ∀ q : LP, cur q = cur p → q.isRestBlank = false := by
    intro q hq
    rw [isRestBlank_of_cur hq]; simp only [LP.isRestBlank, hi, List.drop_zero, hnb]
  have hrm : ruleMatch x BK.paragraph { p with depth := 1, state := stateDescending } =
      some (true, { p with depth := 1, state := stateDescending }) := by
    rw [ruleMatch_para, hrb { p with depth := 1, state := stateDescending } rfl]; rfl
  unfold processLine
  rw [descend_doc1 x p BK.paragraph 0 _ true hroot hrm]
  simp only [if_true, show (stateDescending == stateDescendTerminated) = false from rfl, Bool.false_eq_true, if_false]
  have hemp : p.line.isEmpty = false := by rw [hline]; rfl
  unfold openNewBlocks
  simp only [hemp, Bool.false_eq_true, if_false, if_true]
  have hkq : ({ p with depth := 1, state := stateDescending } : LP).containerKind = BK.paragraph :=
    containerKind_doc1 _ BK.paragraph 0 _ hroot rfl
  -- the line parser the block starts see
  generalize hq0 : ({ p with depth := 1, state := stateOpening } : LP) = q0
  have q0cur : cur q0 = cur p := by rw [← hq0]; rfl
  have q0tree : q0.root = p.root ∧ q0.depth = 1 ∧ q0.lineStart = p.lineStart ∧ q0.source = p.source ∧ q0.panic = p.panic := by
    rw [← hq0]; exact ⟨rfl, rfl, rfl, rfl, rfl⟩
  have q0st : q0.state = stateOpening := by rw [← hq0]
  have q0ind : q0.indent = 0 := by rw [indent_of_cur q0cur]; exact hind
  have q0bai : q0.bytesAfterIndent = p.line := by rw [bai_of_cur q0cur]; exact hbai
  have q0k : q0.containerKind = BK.paragraph := containerKind_doc1 q0 BK.paragraph 0 _ (by rw [q0tree.1, hroot]) q0tree.2.1
  have q0c : CurOK q0 := CurOK.of_cur q0cur hc
  have hlt : q0.indent < codeBlockIndentLimit := by rw [q0ind]; decide
  -- what `startSetext` does
  have hss : (startSetext x q0).root = docClosed1 (leafClosed BK.setextHeading level ((p.lineStart + p.line.length : Nat) : Int) (first :: rest)) ∧
      (startSetext x q0).panic = p.panic ∧ (startSetext x q0).state = stateLineConsumed := by
    unfold startSetext
    have h0 : ¬ (0 ≥ codeBlockIndentLimit) := by decide
    have hlv : (level == 0) = false := by simpa using hl0
    simp only [q0k, bne_self_eq_false, Bool.false_eq_true, if_false, q0ind, h0, q0bai, hlevel, hlv]
    generalize hq1 : q0.modifyContainer (PB.setLabel fun l => { l with kind := BK.setextHeading, n := level }) = q1
    have q1cur : cur q1 = cur q0 := by rw [← hq1]; rfl
    have q1root : q1.root = doc1 (leafOpen BK.setextHeading level (first :: rest)) := by
      rw [← hq1]
      show spineModify _ q0.root q0.depth = _
      rw [q0tree.1, q0tree.2.1, hroot]
      simp [doc1, docRoot, leafOpen, spineModify, PB.setLabel]
    have q1o : q1.depth = 1 ∧ q1.lineStart = p.lineStart ∧ q1.source = p.source ∧ q1.panic = p.panic ∧ q1.state = stateOpening := by
      rw [← hq1]; exact ⟨q0tree.2.1, q0tree.2.2.1, q0tree.2.2.2.1, q0tree.2.2.2.2, q0st⟩
    have q1c : CurOK q1 := CurOK.of_cur q1cur q0c
    have cl := consumeLine_post q1 q1c
    have hs2 := consumeLine_state_open q1 q1c (by rw [q1o.2.2.2.2]; decide)
    generalize LP.consumeLine q1 = q2 at cl hs2 ⊢
    have t2 := cl.tree
    simp only [tree, Prod.mk.injEq] at t2
    obtain ⟨ts, tr, td, tl⟩ := t2
    rw [endBlock_doc1 x q2 _ (by rw [tr]; exact q1root) (by rw [td]; exact q1o.1) (by rw [hs2]; decide)]
    refine ⟨?_, ?_, ?_⟩
    · show PB.mk _ (closeBlock x q2.source (q2.lineStart + q2.i) _) [] = _
      rw [closeBlock_doc1_para x _ _ BK.setextHeading level first rest (Or.inr rfl) (by rw [ts, q1o.2.2.1]; exact hb)]
      rw [tl, q1o.2.1, cl.i, cur_line q1cur, cur_line q0cur]
      simp [docClosed1]
    · show q2.panic = p.panic
      rw [cl.panic]; exact q1o.2.2.2.1
    · show mm q2.state = _
      rw [hs2]; rfl
  have hbq : hasBytePrefix q0.bytesAfterIndent blockQuotePrefix = false := by
    rw [q0bai, hline]; simp [hasBytePrefix, blockQuotePrefix, m3]
  have hatx : (parseATXHeading q0.bytesAfterIndent).level = 0 := by
    rw [q0bai, hline]; simp [parseATXHeading, countPrefix, m4]
  have hfen : (parseCodeFence q0.bytesAfterIndent).n = 0 := by
    rw [q0bai, hline]
    have : (c != 0x60 && c != 0x7E) = true := by simp [m5, m6]
    simp [parseCodeFence, this, noFence]
  have hhtml : q0.bytesAfterIndent.head? ≠ some 0x3C := by
    rw [q0bai, hline]; simp [m7]
  have hts : tryStarts (blockStartFns x) { p with depth := 1, state := stateDescending } = startSetext x q0 := by
    unfold blockStartFns
    rw [tryStarts_state, hq0,
      tryStarts_skip _ _ q0 q0st (startBlockQuote_none x q0 hlt hbq),
      tryStarts_skip _ _ q0 q0st (startATX_none x q0 hlt hatx),
      tryStarts_skip _ _ q0 q0st (startFenced_none x q0 hfen),
      tryStarts_skip _ _ q0 q0st (startHTML_none_head x q0 hhtml),
      tryStarts_hit _ _ q0 q0st (Or.inr hss.2.2)]
  rw [show p.line.length + 8 = (p.line.length + 7) + 1 from rfl, openingLoop_step x _ _ (Or.inl hkq), hts]
  simp only [hss.2.2, show (stateLineConsumed == stateOpenMatched) = false from rfl, beq_self_eq_true, Bool.false_eq_true,
    if_false, if_true]
  exact ⟨hss.1, hss.2.1⟩

/-! ### the run -/

/-- **Setext heading** (the run of the stream machine): paragraph lines as in `paragraph_run`, then an underline of `m ≥ 1`
    characters `=` (level 1) or `-` (level 2): exactly one root, a SetextHeading block of that level spanning the document
    (underline included) whose inline children are one Unparsed node per text line; then the end of input. -/
theorem setext_run (x : PExt) (l0 : Bytes) (ls : List Bytes) (c : UInt8) (m : Nat) (fuel : Nat)
    (h0 : paraFirstOK l0 = true) (hb : l0.head? ≠ some 0x5B)
    (hls : ∀ l ∈ ls, plainLine l = true ∧ paraContOK l = true)
    (hu : isUnderlineChar c = true) (hm : 1 ≤ m) (hfuel : 2 ≤ fuel) :
    drain (blocksLP x) fuel (memParser (leafDoc l0 ls (List.replicate m c ++ [LF]))) [] =
      ([{ source := leafDoc l0 ls (List.replicate m c ++ [LF]), startLine := 1, startOffset := 0,
          endOffset := (leafDoc l0 ls (List.replicate m c ++ [LF])).length,
          block := leafClosed BK.setextHeading (setextLevel c) ((leafDoc l0 ls (List.replicate m c ++ [LF])).length : Nat)
            (runNodes IK.unparsed 0 (l0 :: ls)) }],
       .err .eof, doneBP (leafDoc l0 ls (List.replicate m c ++ [LF])).length
         (1 + lineCount (leafDoc l0 ls (List.replicate m c ++ [LF])))) := by
  have h0' := h0
  simp only [paraFirstOK, Bool.and_eq_true] at h0'
  obtain ⟨⟨hpl, hs⟩, _⟩ := h0'
  obtain ⟨b, rest, rfl, h1, h2⟩ := lineStartOK_elim hs
  obtain ⟨_, _, _, _, _, _, _, u8, u9, u10⟩ := underline_classes c hu
  generalize htl : List.replicate m c ++ [LF] = tail
  have hupl : plainLine (List.replicate m c) = true := plainLine_replicate m u8 u9 u10
  have hlen : (leafDoc (b :: rest) ls tail).length = (b :: rest).length + 1 + (body ls).length + tail.length := by
    simp [leafDoc]; omega
  have hnb0 : isBlankLine (b :: rest) = false := by
    have := not_blank_of_start h1 h2 hpl []; rwa [List.append_nil] at this
  have htll : lineLen tail = tail.length := by
    rw [← htl]
    have := lineLen_plain (List.replicate m c) [] hupl
    rw [this]; simp
  refine leaf_run x BK.paragraph 0 IK.unparsed (fun l => paraContOK l = true) (b :: rest) ls tail fuel
    [mkInline IK.unparsed (0 : Nat) ((0 + ((b :: rest).length + 1) : Nat) : Int)]
    { kind := BK.document, start := 0, stop := -1 }
    (leafClosed BK.setextHeading (setextLevel c) ((leafDoc (b :: rest) ls tail).length : Nat) (runNodes IK.unparsed 0 ((b :: rest) :: ls)))
    hpl hnb0 hls htll (by rw [← htl]; exact noNul_line hupl) (para_first x _ h0) (para_stepOK x) ?_ rfl hfuel
  intro lp hroot hpanic
  have hroot' : lp.root = doc1 (leafOpen BK.paragraph 0
      (mkInline IK.unparsed (0 : Nat) ((0 + ((b :: rest).length + 1) : Nat) : Int) :: runNodes IK.unparsed ((b :: rest).length + 1) ls)) := hroot
  rw [blocksLP_line]
  have r := reset_facts lp (leafDoc (b :: rest) ls tail) ((b :: rest).length + 1 + (body ls).length)
  generalize lp.reset (leafDoc (b :: rest) ls tail) ((b :: rest).length + 1 + (body ls).length) = p at r
  have hdrop : (leafDoc (b :: rest) ls tail).drop ((b :: rest).length + 1 + (body ls).length) = tail := by
    have : leafDoc (b :: rest) ls tail = ((b :: rest ++ [LF]) ++ body ls) ++ tail := by simp [leafDoc]
    rw [this, List.drop_left' (by simp; omega)]
  obtain ⟨k, rfl⟩ : ∃ k, m = k + 1 := ⟨m - 1, by omega⟩
  have hline : p.line = c :: (List.replicate k c ++ [LF]) := by
    rw [r.line, hdrop, ← htl, List.replicate_succ]; rfl
  have hline' : p.line = tail := by rw [r.line, hdrop]
  have := processLine_setext x p _ _ c _ (setextLevel c) (by rw [r.root]; exact hroot') r.i r.cur hline hu
    (by rw [hline', ← htl]; exact parseSetext_underline c (k + 1) hu hm)
    (by unfold setextLevel; split <;> decide)
    (by
      rw [r.source]
      show (leafDoc (b :: rest) ls tail).getD 0 0 ≠ 0x5B
      intro h; apply hb; rw [← h]; rfl)
  refine ⟨?_, by rw [this.2, r.panic]; exact hpanic⟩
  rw [this.1, r.lineStart, hline', ← hlen]
  simp [runNodes, docClosed1]

end CM.Proofs.Leaf
