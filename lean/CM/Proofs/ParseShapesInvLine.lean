import CM.Proofs.ParseShapesInvStarts2
import CM.Proofs.RefDefSpansLine3
/-
C13 for the whole of `Parse`, part 10 (block phase): `ruleMatch`, `descendLoop`, `tryStarts`, `openingLoop`,
`openNewBlocks` keep `GQ`, and - unless the line is consumed - no byte before the cursor is a backtick.
Follows `RefDefSpansLine.lean` / `RefDefSpansLine2.lean` (and `BlocksLine.lean` for the cursor facts).
-/
namespace CM.Proofs.PSh
open CM CM.Model CM.Gen CM.Spec
open CM.Proofs.BSp CM.Proofs.BT CM.Proofs.BG CM.Proofs.RDS

variable {S : Bytes} {bd : Int} {ls : Nat}

/-! ### ruleMatch -/

structure RMQ (S : Bytes) (bd : Int) (ls : Nat) (p p' : LP) : Prop where
  gq : GQ S bd ls p'
  nt : p'.state ≠ 4 → NoTickPref p → NoTickPref p'

theorem RMQ.refl {p : LP} (hg : GQ S bd ls p) : RMQ S bd ls p p := ⟨hg, fun _ h => h⟩

theorem RMQ.ofCI {p p' : LP} {n : Nat} (hg : GQ S bd ls p) (hc : CurOK p) (e : fr p' = fr p) (c : CIPost p p' n) :
    RMQ S bd ls p p' := ⟨hg.of_fr e, fun _ h => NoTickPref.ci hc c h⟩

theorem ruleMatch_q (x : PExt) (kind : Nat) (p : LP) (h : BT.Inv p) (hs : p.state = 3)
    (hg : GQ S bd ls p) (hck : p.containerKind = kind) (ok : Bool) (p' : LP)
    (hrm : ruleMatch x kind p = some (ok, p')) : RMQ S bd ls p p' := by
  unfold ruleMatch at hrm
  split at hrm
  · simp only [Option.some.injEq, Prod.mk.injEq] at hrm; obtain ⟨_, rfl⟩ := hrm
    exact RMQ.refl hg
  split at hrm
  · -- list item
    split at hrm
    · split at hrm
      · simp only [Option.some.injEq, Prod.mk.injEq] at hrm; obtain ⟨_, rfl⟩ := hrm
        exact RMQ.refl hg
      · simp only [Option.some.injEq, Prod.mk.injEq] at hrm; obtain ⟨_, rfl⟩ := hrm
        exact RMQ.ofCI hg h.cur (fr_consumeIndentN _ _) (consumeIndentN_post p p.indent h.cur (Nat.le_refl _))
    · split at hrm
      · rename_i ci hci
        split at hrm
        · rename_i hge
          simp only [Option.some.injEq, Prod.mk.injEq] at hrm; obtain ⟨_, rfl⟩ := hrm
          exact RMQ.ofCI hg h.cur (fr_consumeIndentN _ _) (consumeIndentN_post p ci.toNat h.cur (by omega))
        · simp only [Option.some.injEq, Prod.mk.injEq] at hrm; obtain ⟨_, rfl⟩ := hrm
          exact RMQ.refl hg
      · simp only [Option.some.injEq, Prod.mk.injEq] at hrm; obtain ⟨_, rfl⟩ := hrm
        exact RMQ.refl hg
  split at hrm
  · -- block quote
    simp only [] at hrm
    split at hrm
    · simp only [Option.some.injEq, Prod.mk.injEq] at hrm; obtain ⟨_, rfl⟩ := hrm
      exact RMQ.refl hg
    split at hrm
    · simp only [Option.some.injEq, Prod.mk.injEq] at hrm; obtain ⟨_, rfl⟩ := hrm
      exact RMQ.refl hg
    rename_i _ hpre
    have hpre' : hasBytePrefix p.bytesAfterIndent blockQuotePrefix = true := by
      cases hh : hasBytePrefix p.bytesAfterIndent blockQuotePrefix
      · rw [hh] at hpre; exact absurd rfl hpre
      · rfl
    have hlen := hasBytePrefix_length _ _ hpre'
    have hbq : blockQuotePrefix.length = 1 := rfl
    simp only [Option.some.injEq, Prod.mk.injEq] at hrm; obtain ⟨_, rfl⟩ := hrm
    obtain ⟨ci, hdrop, hil⟩ := consumeAll p h
    have g1 := hg.of_fr (fr_consumeIndentN p p.indent)
    have n1 : NoTickPref p → NoTickPref (p.consumeIndentN p.indent) := NoTickPref.ci h.cur ci
    generalize p.consumeIndentN p.indent = p1 at ci hdrop hil g1 n1 ⊢
    have i1 := ci.inv h
    have ad := advance_post p1 blockQuotePrefix.length i1.cur (by rw [ci.line]; omega)
    have g3 := g1.of_fr (fr_advance p1 blockQuotePrefix.length)
    have n3 : NoTickPref p → NoTickPref (p1.advance blockQuotePrefix.length) := by
      intro hq
      refine NoTickPref.adv ad ?_ (n1 hq)
      intro k hk
      rw [hdrop]
      have hk0 : k = 0 := by omega
      rw [hk0, hasBytePrefix_getElem _ hpre']
      decide
    generalize p1.advance blockQuotePrefix.length = p3 at ad g3 n3
    have i3 := ad.inv i1
    split
    · have c4 := consumeIndentN_post p3 1 i3.cur (by omega)
      exact ⟨g3.of_fr (fr_consumeIndentN p3 1), fun _ hq => NoTickPref.ci i3.cur c4 (n3 hq)⟩
    · exact ⟨g3, fun _ hq => n3 hq⟩
  split at hrm
  · -- fenced code
    simp only [] at hrm
    split at hrm
    · simp only [Option.some.injEq, Prod.mk.injEq] at hrm; obtain ⟨_, rfl⟩ := hrm
      have cl := consumeLine_post p h.cur
      exact ⟨hg.of_fr (fr_consumeLine p), fun hne => absurd (cl.st3 hs) hne⟩
    · simp only [Option.some.injEq, Prod.mk.injEq] at hrm; obtain ⟨_, rfl⟩ := hrm
      split
      · exact RMQ.ofCI hg h.cur (fr_consumeIndentN _ _) (consumeIndentN_post p p.indent h.cur (Nat.le_refl _))
      · exact RMQ.ofCI hg h.cur (fr_consumeIndentN _ _) (consumeIndentN_post p _ h.cur (by omega))
  split at hrm
  · -- indented code
    simp only [] at hrm
    split at hrm
    · split at hrm
      · simp only [Option.some.injEq, Prod.mk.injEq] at hrm; obtain ⟨_, rfl⟩ := hrm
        exact RMQ.refl hg
      · simp only [Option.some.injEq, Prod.mk.injEq] at hrm; obtain ⟨_, rfl⟩ := hrm
        exact RMQ.ofCI hg h.cur (fr_consumeIndentN _ _) (consumeIndentN_post p p.indent h.cur (Nat.le_refl _))
    · simp only [Option.some.injEq, Prod.mk.injEq] at hrm; obtain ⟨_, rfl⟩ := hrm
      exact RMQ.ofCI hg h.cur (fr_consumeIndentN _ _) (consumeIndentN_post p _ h.cur (by omega))
  split at hrm
  · -- HTML block
    rename_i hk
    have hke : kind = BK.htmlBlock := by simpa using hk
    split at hrm
    · split at hrm
      · simp only [Option.some.injEq, Prod.mk.injEq] at hrm; obtain ⟨_, rfl⟩ := hrm
        exact RMQ.refl hg
      · simp only [Option.some.injEq, Prod.mk.injEq] at hrm; obtain ⟨_, rfl⟩ := hrm
        have co := collectInline_post x p IK.rawHTML p.bytesAfterIndent.length h (by omega) (by
          rw [ciSkip_bai p h.cur]; exact Nat.le_refl _)
        have hk' : p.containerKind = BK.htmlBlock := by rw [hck]; exact hke
        have cg := collectInline_GQ x p IK.rawHTML p.bytesAfterIndent.length
          (Free.of_kind (by rw [hk']; decide) (by rw [hk']; decide) (by rw [hk']; decide)) hg
        generalize p.collectInline x IK.rawHTML p.bytesAfterIndent.length = p4 at co cg
        have cl := consumeLine_post p4 co.inv.cur
        exact ⟨cg.of_fr (fr_consumeLine p4), fun hne => absurd (cl.st3 (co.st3 hs)) hne⟩
    · simp only [Option.some.injEq, Prod.mk.injEq] at hrm; obtain ⟨_, rfl⟩ := hrm
      exact RMQ.refl hg
  split at hrm
  · simp only [Option.some.injEq, Prod.mk.injEq] at hrm; obtain ⟨_, rfl⟩ := hrm
    exact RMQ.refl hg
  · cases hrm

/-! ### descendLoop -/

theorem descendLoop_q (x : PExt) : ∀ (fuel : Nat) (p : LP) (parent : Nat),
    BT.Inv { p with depth := parent } → GQ S bd ls p → NoTickPref p →
    GQ S bd ls (descendLoop x fuel p parent).2 ∧
      ((descendLoop x fuel p parent).2.state ≠ 4 → NoTickPref (descendLoop x fuel p parent).2) := by
  intro fuel
  induction fuel with
  | zero => intro p parent _ hg hn; exact ⟨hg.setDepth _, fun _ => hn⟩
  | succ fuel ih =>
    intro p parent h hg hn
    have base : GQ S bd ls ({ p with depth := parent } : LP) := hg.setDepth _
    have nbase : NoTickPref ({ p with depth := parent } : LP) := hn
    unfold descendLoop
    split
    · exact ⟨base, fun _ => nbase⟩
    rename_i c hc
    split
    · exact ⟨base, fun _ => nbase⟩
    simp only []
    have h1 : BT.Inv { p with depth := parent + 1 } :=
      ⟨h.panic, ⟨h.cur.hi, h.cur.htab⟩, ⟨h.tree.root, by show (spineGet p.root (parent + 1)).isSome; rw [hc]; rfl⟩⟩
    split
    · exact ⟨base, fun _ => nbase⟩
    · rename_i ok p2 hrm
      have hck : ({ p with depth := parent + 1, state := stateDescending } : LP).containerKind = c.kind := by
        show PB.kind ((spineGet p.root (parent + 1)).getD p.root) = c.kind
        rw [hc]; rfl
      have g1 : GQ S bd ls ({ p with depth := parent + 1, state := stateDescending } : LP) :=
        ⟨⟨hg.gi.source, hg.gi.lineStart, hg.gi.line, hg.gi.good⟩, hg.good⟩
      have n1 : NoTickPref ({ p with depth := parent + 1, state := stateDescending } : LP) := hn
      have rm := ruleMatch_post x c.kind _ (h1.setState stateDescending) rfl ok p2 hrm
      have rq := ruleMatch_q x c.kind _ (h1.setState stateDescending) rfl g1 hck ok p2 hrm
      have d2 : p2.depth = parent + 1 := rm.depth
      split
      · rename_i hs4
        have hs4' : p2.state = 4 := by simpa [stateDescendTerminated] using hs4
        have cg := closeContainer_GQ x p2 (↑p2.lineStart + ↑p2.i) rq.gq
        refine ⟨cg.setDepth _, fun hne => ?_⟩
        exfalso; apply hne
        have cc := closeContainer_post x p2 (↑p2.lineStart + ↑p2.i) rm.inv.tree
        show (p2.closeContainer x (↑p2.lineStart + ↑p2.i)).state = 4
        rw [cc.state]; exact hs4'
      · rename_i hs4
        have hs4' : p2.state ≠ 4 := by simpa [stateDescendTerminated] using hs4
        split
        · exact ⟨rq.gq.setDepth _, fun _ => rq.nt hs4' n1⟩
        · have hinv2 : BT.Inv { p2 with depth := parent + 1 } := rm.inv.setDepth (parent + 1) (by omega)
          exact ih p2 (parent + 1) hinv2 rq.gq (rq.nt hs4' n1)

/-! ### tryStarts -/

/-- What a block start (setext included) guarantees. -/
structure StQ' (S : Bytes) (bd : Int) (q q' : LP) : Prop where
  pq : PostQ S bd q'
  nt : q'.state ≠ 2 → NoTickPref q → NoTickPref q'

theorem StQ.toStQ' {q q' : LP} (hb : bd ≤ (S.length : Int)) (h : StQ S bd ls q q') : StQ' S bd q q' :=
  ⟨PostQ.of_good hb h.gq.good, h.nt⟩

theorem startSetext_q (x : PExt) (hbd : bd ≤ (ls : Int)) (hls : ls ≤ S.length)
    (hLO : LineOK (S.drop ls)) (hlsOK : LsOK S ls)
    (q : LP) (h : BT.Inv q) (hs : q.state = 0) (hg : GQ S bd ls q) : StQ' S bd q (startSetext x q) := by
  obtain ⟨h1, h2⟩ := startSetext_PQ x hbd hls hLO hlsOK q h hs hg
  exact ⟨h1, fun hne hq => by rw [h2 hne]; exact hq⟩

/-- All block starts. -/
theorem blockStartFns_q (x : PExt) (hbd : bd ≤ (ls : Int)) (hls : ls ≤ S.length)
    (hLO : LineOK (S.drop ls)) (hlsOK : LsOK S ls) :
    ∀ f ∈ blockStartFns x, ∀ q, BT.Inv q → q.state = 0 → GQ S bd ls q → StQ' S bd q (f q) := by
  have hb : bd ≤ (S.length : Int) := by omega
  intro f hf q h hs hg
  simp only [blockStartFns, List.mem_cons, List.mem_nil_iff, or_false] at hf
  rcases hf with rfl | rfl | rfl | rfl | rfl | rfl | rfl | rfl
  · exact (startBlockQuote_q x q h hs hg).toStQ' hb
  · exact (startATX_q x q h hs hg).toStQ' hb
  · exact (startFenced_q x q h hs hg).toStQ' hb
  · exact (startHTML_q x q h hs hg).toStQ' hb
  · exact startSetext_q x hbd hls hLO hlsOK q h hs hg
  · exact (startThematicBreak_q x q h hs hg).toStQ' hb
  · exact (startListItem_q x q h hs hg).toStQ' hb
  · exact (startIndentedCode_q x q h hs hg).toStQ' hb

structure TQ (S : Bytes) (bd : Int) (p r : LP) : Prop where
  pq : PostQ S bd r
  nt : r.state ≠ 2 → NoTickPref p → NoTickPref r

theorem tryStarts_q : ∀ (fs : List (LP → LP)),
    (∀ f ∈ fs, ∀ q, BT.Inv q → q.state = 0 → GI S bd ls q → StPost S bd ls q (f q)) →
    (∀ f ∈ fs, ∀ q, BT.Inv q → q.state = 0 → SPost q (f q)) →
    (∀ f ∈ fs, ∀ q, BT.Inv q → q.state = 0 → GQ S bd ls q → StQ' S bd q (f q)) →
    ∀ p, BT.Inv p → GQ S bd ls p → TQ S bd p (tryStarts fs p) ∨ (fs = [] ∧ tryStarts fs p = p) := by
  intro fs
  induction fs with
  | nil => intro _ _ _ p _ _; exact Or.inr ⟨rfl, rfl⟩
  | cons f rest ih =>
    intro hf hf' hq p h hg
    left
    unfold tryStarts
    simp only []
    have g0 : GQ S bd ls ({ p with state := stateOpening } : LP) := hg.setState _
    have sp := hf f (List.mem_cons_self ..) { p with state := stateOpening } (h.setState _) rfl g0.gi
    have spo := hf' f (List.mem_cons_self ..) { p with state := stateOpening } (h.setState _) rfl
    have sq := hq f (List.mem_cons_self ..) { p with state := stateOpening } (h.setState _) rfl g0
    generalize hp' : f { p with state := stateOpening } = p' at sp spo sq
    split
    · exact ⟨sq.pq, fun hne hn => sq.nt hne hn⟩
    · rename_i hne
      have s0 : p'.state = 0 := by
        have := spo.st
        simp only [stateOpenMatched, stateLineConsumed, Bool.or_eq_true, beq_iff_eq, not_or] at hne
        omega
      have e := sp.same s0
      have g' : GQ S bd ls p' := ⟨sp.gi, sq.pq.1 (by omega)⟩
      rcases ih (fun g hg' => hf g (List.mem_cons_of_mem _ hg')) (fun g hg' => hf' g (List.mem_cons_of_mem _ hg'))
        (fun g hg' => hq g (List.mem_cons_of_mem _ hg')) p' spo.inv g' with r | r
      · exact ⟨r.pq, fun hne' hn => r.nt hne' (sq.nt (by omega) hn)⟩
      · rw [r.2]
        exact ⟨sq.pq, fun hne' hn => sq.nt hne' hn⟩

theorem tryStarts_blockStarts_q (x : PExt) (hbd : bd ≤ (ls : Int)) (hls : ls ≤ S.length)
    (hLO : LineOK (S.drop ls)) (hlsOK : LsOK S ls)
    (p : LP) (h : BT.Inv p) (hg : GQ S bd ls p) : TQ S bd p (tryStarts (blockStartFns x) p) := by
  rcases tryStarts_q (blockStartFns x) (blockStartFns_st x (fun q hq hs hg' => startSetext_st x hbd hls q hq hs hg'))
    (blockStartFns_post x) (blockStartFns_q x hbd hls hLO hlsOK) p h hg with r | r
  · exact r
  · exact absurd r.1 (by simp [blockStartFns])

/-! ### openingLoop, openNewBlocks -/

/-- What the opening phase leaves: if text is to be added, the invariant with the bound of the line and no backtick
    before the cursor; otherwise the invariant with the end of the source as bound. -/
def Post2 (S : Bytes) (bd : Int) (ls : Nat) (r : Bool × LP) : Prop :=
  (r.1 = true → GQ S bd ls r.2 ∧ NoTickPref r.2) ∧ (r.1 = false → GQ S (S.length : Int) ls r.2)

theorem openingLoop_q (x : PExt) (hbd : bd ≤ (ls : Int)) (hls : ls ≤ S.length)
    (hLO : LineOK (S.drop ls)) (hlsOK : LsOK S ls) :
    ∀ (fuel : Nat) (p : LP), BT.Inv p → GQ S bd ls p → NoTickPref p → Post2 S bd ls (openingLoop x fuel p) := by
  have hb : bd ≤ (S.length : Int) := by omega
  intro fuel
  induction fuel with
  | zero => intro p _ hg hn; exact ⟨fun _ => ⟨hg, hn⟩, fun hh => by cases hh⟩
  | succ fuel ih =>
    intro p h hg hn
    unfold openingLoop
    split
    · exact ⟨fun _ => ⟨hg, hn⟩, fun hh => by cases hh⟩
    · have ts := tryStarts_blockStarts x p h
      have st := tryStarts_blockStarts_st x hbd hls p h hg.gi
      have tq := tryStarts_blockStarts_q x hbd hls hLO hlsOK p h hg
      simp only []
      generalize tryStarts (blockStartFns x) p = p' at ts st tq
      split
      · rename_i h1
        have s1 : p'.state = 1 := by simpa [stateOpenMatched] using h1
        exact ih p' ts.inv ⟨st.gi, tq.pq.1 (by omega)⟩ (tq.nt (by omega) hn)
      · split
        · rename_i h2
          have s2 : p'.state = 2 := by simpa [stateLineConsumed] using h2
          refine ⟨fun hh => (by cases hh), fun _ => ⟨?_, tq.pq.2 s2⟩⟩
          exact ⟨st.gi.source, st.gi.lineStart, st.gi.line, GoodT_mono (List.prefix_refl _) hb _ st.gi.good⟩
        · rename_i h1 h2
          have s0 : p'.state = 0 := by
            have := ts.st
            simp only [stateOpenMatched, beq_iff_eq] at h1
            simp only [stateLineConsumed, beq_iff_eq] at h2
            omega
          exact ⟨fun _ => ⟨⟨st.gi, tq.pq.1 (by omega)⟩, tq.nt (by omega) hn⟩, fun hh => by cases hh⟩

theorem openNewBlocks_q (x : PExt) (hbd : bd ≤ (ls : Int)) (hls : ls ≤ S.length)
    (hLO : LineOK (S.drop ls)) (hlsOK : LsOK S ls)
    (p : LP) (allMatched : Bool) (h : BT.Inv p) (hg : GQ S bd ls p) (hn : NoTickPref p) :
    Post2 S bd ls (openNewBlocks x p allMatched) := by
  have hb : bd ≤ (S.length : Int) := by omega
  unfold openNewBlocks
  split
  · refine ⟨fun hh => (by cases hh), fun _ => ?_⟩
    exact (closeContainer_GQ x _ _ (hg.setDepth 0)).mono hb
  · have oq := openingLoop_q x hbd hls hLO hlsOK (p.line.length + 8) p h hg hn
    generalize openingLoop x (p.line.length + 8) p = r at oq
    obtain ⟨hasText, q⟩ := r
    simp only [] at oq ⊢
    split
    · exact oq
    · split
      · exact ⟨fun ht => ⟨(oq.1 ht).1.setDepth _, (oq.1 ht).2⟩, fun hf => (oq.2 hf).setDepth _⟩
      · exact ⟨fun ht => ⟨closeLastChild_GQ x q _ (oq.1 ht).1, (oq.1 ht).2⟩, fun hf => closeLastChild_GQ x q _ (oq.2 hf)⟩

end CM.Proofs.PSh
