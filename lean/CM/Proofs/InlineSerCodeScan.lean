import CM.Proofs.InlineSerCode
/-
Inline serialisation — part 7b, code spans: `parseCodeSpan` as an equation.  The reader (`Rd`) inside one run, the three
loops of `parseCodeSpan` (opening run, closing scan, run counter) unrolled by induction, for the canonical spelling:
`n` backticks, a content whose runs of backticks are all shorter than `n`, `n` backticks.
-/
namespace CM.Proofs.InlSer
open CM CM.Gen CM.Model CM.Model.Inl CM.Proofs.EscText

/-- The reader at `pos` (no NUL padding in progress). -/
def rdAt (spans : List Tree) (pos : Nat) (prev : Int) : Rd := { spans := spans, pos := pos, vpos := 0, prev := prev }

theorem nifp_head (t : Tree) (more : List Tree) (pos : Nat) (h : spanContains t pos = true) :
    nodeIndexForPosition (t :: more) pos 0 = some 0 := by
  unfold nodeIndexForPosition
  have : ¬ (t.label.start > (pos : Int)) := by
    simp only [spanContains, Bool.and_eq_true, decide_eq_true_eq] at h
    omega
  rw [if_neg this, if_pos h]

theorem cur_at (src : Bytes) (t : Tree) (more : List Tree) (pos : Nat) (prev : Int) (b : UInt8)
    (hc : spanContains t pos = true) (hi : isIndent t = false) (hb : src[pos]? = some b) (h0 : b ≠ 0) :
    Rd.current src (rdAt (t :: more) pos prev) = (b, rdAt (t :: more) pos prev) := by
  have hlt := lt_of_get hb
  simp [Rd.current, rdAt, Rd.currentNode, nifp_head t more pos hc, Nat.not_le.2 hlt, hi, hb, h0]

theorem next_at (src : Bytes) (t : Tree) (more : List Tree) (pos : Nat) (prev : Int) (b : UInt8)
    (hc : spanContains t pos = true) (hi : isIndent t = false) (hb : src[pos]? = some b) (h0 : b ≠ 0)
    (hn : ((pos + 1 : Nat) : Int) < t.label.stop) :
    Rd.next src (rdAt (t :: more) pos prev) = (true, rdAt (t :: more) (pos + 1) pos) := by
  have hn' : (pos : Int) + 1 < t.label.stop := by simpa using hn
  simp [Rd.next, rdAt, Rd.currentNode, nifp_head t more pos hc, hi, hb, h0, hn']


/-- Inner loop of the closing scan: counts the rest of a run of backticks. `k` more backticks follow `pos`. -/
theorem loop3 (src : Bytes) (g3 : Nat → Rd × Nat × Bool → IM (ForInStep (Rd × Nat × Bool)))
    (hg3 : ∀ (x : Nat) (r : Rd × Nat × Bool), g3 x r =
      (if (!(Rd.next src r.fst).fst) = true then pure (ForInStep.done ((Rd.next src r.fst).snd, r.snd.fst, true))
      else
        if ((Rd.current src (Rd.next src r.fst).snd).fst != 96) = true then
          pure (ForInStep.done ((Rd.current src (Rd.next src r.fst).snd).snd, r.snd.fst, true))
        else pure (ForInStep.yield ((Rd.current src (Rd.next src r.fst).snd).snd, r.snd.fst + 1, r.snd.snd)) :
        IM (ForInStep (Rd × Nat × Bool))))
    (t : Tree) (more : List Tree) (hi : isIndent t = false) (s : IState) :
    ∀ (k pos run i fuel : Nat) (prev : Int) (x : UInt8), k + 1 ≤ fuel →
      (∀ j, j ≤ k → spanContains t (pos + j) = true) → spanContains t (pos + k + 1) = true →
      (∀ j, j < k → src[pos + 1 + j]? = some 0x60) → src[pos]? = some 0x60 → src[pos + k + 1]? = some x → x ≠ 0x60 → x ≠ 0 →
      (forIn (List.range' i fuel) (rdAt (t :: more) pos prev, run, false) g3).run s =
        pure ((rdAt (t :: more) (pos + k + 1) ((pos + k : Nat) : Int), run + k, true), s) := by
  intro k
  induction k with
  | zero =>
    intro pos run i fuel prev x hf hc hc1 _ hb hx hx1 hx0
    obtain ⟨fuel', rfl⟩ : ∃ f', fuel = f' + 1 := ⟨fuel - 1, by omega⟩
    have hn : ((pos + 1 : Nat) : Int) < t.label.stop := by
      have := hc1
      simp only [spanContains, Bool.and_eq_true, decide_eq_true_eq] at this
      omega
    rw [List.range'_succ, List.forIn_cons, StateT.run_bind, hg3]
    simp [next_at src t more pos prev 0x60 (hc 0 (Nat.zero_le _)) hi hb (by decide) hn,
      cur_at src t more (pos + 1) pos x hc1 hi hx hx0, hx1]
  | succ k ih =>
    intro pos run i fuel prev x hf hc hc1 hbs hb hx hx1 hx0
    obtain ⟨fuel', rfl⟩ : ∃ f', fuel = f' + 1 := ⟨fuel - 1, by omega⟩
    have hc' := hc 1 (by omega)
    have hn : ((pos + 1 : Nat) : Int) < t.label.stop := by
      have := hc'
      simp only [spanContains, Bool.and_eq_true, decide_eq_true_eq] at this
      omega
    have hb1 : src[pos + 1]? = some 0x60 := hbs 0 (by omega)
    rw [List.range'_succ, List.forIn_cons, StateT.run_bind, hg3]
    simp only [next_at src t more pos prev 0x60 (hc 0 (Nat.zero_le _)) hi hb (by decide) hn,
      cur_at src t more (pos + 1) pos 0x60 hc' hi hb1 (by decide)]
    simp only [Bool.not_true, Bool.false_eq_true, if_false, bne_self_eq_false, StateT.run_pure, pure_bind]
    have := ih (pos + 1) (run + 1) (i + 1) fuel' (pos : Int) x (by omega)
      (fun j hj => by have := hc (j + 1) (by omega); rwa [show pos + (j + 1) = pos + 1 + j by omega] at this)
      (by rwa [show pos + 1 + k + 1 = pos + (k + 1) + 1 by omega])
      (fun j hj => by have := hbs (j + 1) (by omega); rwa [show pos + 1 + (j + 1) = pos + 1 + 1 + j by omega] at this)
      hb1 (by rwa [show pos + 1 + k + 1 = pos + (k + 1) + 1 by omega]) hx1 hx0
    rw [this]
    simp only [show pos + 1 + k = pos + (k + 1) by omega, show run + 1 + k = run + (k + 1) by omega]


/-- The longest run of backticks. -/
def maxRun : Bytes → Nat
  | [] => 0
  | b :: r => if b == 0x60 then max (1 + countPrefix 0x60 r) (maxRun r) else maxRun r

theorem maxRun_tail (b : UInt8) (r : Bytes) : maxRun r ≤ maxRun (b :: r) := by
  rw [maxRun]; split
  · exact Nat.le_max_right _ _
  · exact Nat.le_refl _

theorem maxRun_drop (j : Nat) : ∀ l : Bytes, maxRun (l.drop j) ≤ maxRun l := by
  induction j with
  | zero => intro l; simp
  | succ j ih =>
    intro l
    cases l with
    | nil => simp
    | cons b r => rw [List.drop_succ_cons]; exact Nat.le_trans (ih r) (maxRun_tail b r)

theorem countPrefix_split (c : UInt8) (l : Bytes) :
    l = List.replicate (countPrefix c l) c ++ l.drop (countPrefix c l) ∧ (l.drop (countPrefix c l)).head? ≠ some c := by
  induction l with
  | nil => simp [countPrefix]
  | cons b r ih =>
    rw [countPrefix]
    by_cases hb : b = c
    · subst hb
      simp only [beq_self_eq_true, if_true]
      rw [Nat.add_comm 1, List.replicate_succ, List.drop_succ_cons, List.cons_append]
      exact ⟨by rw [← ih.1], ih.2⟩
    · have : (b == c) = false := by simpa using hb
      simp [this, hb]

theorem drop_get {src : Bytes} {q : Nat} {L : Bytes} (h : src.drop q = L) (j : Nat) : src[q + j]? = L[j]? := by
  rw [← h, List.getElem?_drop]

/-- Opening run: `k` backticks from `pos`, then a byte `x` that is none. -/
theorem loop1 (src : Bytes) (p : Int) (g1 : Nat → Option CodeSpan × Rd × Int × Nat × Bool → IM (ForInStep (Option CodeSpan × Rd × Int × Nat × Bool)))
    (hg1 : ∀ (x : Nat) (r : Option CodeSpan × Rd × Int × Nat × Bool), g1 x r =
      (if ((Rd.current src r.snd.fst).fst != 96) = true then
        pure (ForInStep.done (none, (Rd.current src r.snd.fst).snd, r.snd.snd.fst, r.snd.snd.snd.fst, true))
      else
        if (!(Rd.next src (Rd.current src r.snd.fst).snd).fst) = true then
          pure (ForInStep.done
            (some { span := { start := p, stop := -1 },
                    content := { start := ((Rd.next src (Rd.current src r.snd.fst).snd).snd.pos : Int), stop := -1 } },
              (Rd.next src (Rd.current src r.snd.fst).snd).snd,
              ((Rd.next src (Rd.current src r.snd.fst).snd).snd.pos : Int), r.snd.snd.snd.fst + 1, r.snd.snd.snd.snd))
        else
          pure (ForInStep.yield
            (none, (Rd.next src (Rd.current src r.snd.fst).snd).snd,
              ((Rd.next src (Rd.current src r.snd.fst).snd).snd.pos : Int), r.snd.snd.snd.fst + 1, r.snd.snd.snd.snd))))
    (t : Tree) (more : List Tree) (hi : isIndent t = false) (s : IState) :
    ∀ (k pos btl i fuel : Nat) (prev cst : Int) (x : UInt8), k + 1 ≤ fuel →
      (∀ j, j ≤ k → spanContains t (pos + j) = true) →
      (∀ j, j < k → src[pos + j]? = some 0x60) → src[pos + k]? = some x → x ≠ 0x60 → x ≠ 0 →
      ∃ prev' cst', (k ≠ 0 → cst' = ((pos + k : Nat) : Int)) ∧ (k = 0 → cst' = cst) ∧
      (forIn (List.range' i fuel) ((none : Option CodeSpan), rdAt (t :: more) pos prev, cst, btl, false) g1).run s =
        pure (((none : Option CodeSpan), rdAt (t :: more) (pos + k) prev', cst', btl + k, true), s) := by
  intro k
  induction k with
  | zero =>
    intro pos btl i fuel prev cst x hf hc _ hx hx1 hx0
    obtain ⟨fuel', rfl⟩ : ∃ f', fuel = f' + 1 := ⟨fuel - 1, by omega⟩
    refine ⟨prev, cst, fun h => absurd rfl h, fun _ => rfl, ?_⟩
    rw [List.range'_succ, List.forIn_cons, StateT.run_bind, hg1]
    simp [cur_at src t more pos prev x (hc 0 (Nat.le_refl _)) hi hx hx0, hx1]
  | succ k ih =>
    intro pos btl i fuel prev cst x hf hc hbs hx hx1 hx0
    obtain ⟨fuel', rfl⟩ : ∃ f', fuel = f' + 1 := ⟨fuel - 1, by omega⟩
    have hc' := hc 1 (by omega)
    have hn : ((pos + 1 : Nat) : Int) < t.label.stop := by
      have := hc'
      simp only [spanContains, Bool.and_eq_true, decide_eq_true_eq] at this
      omega
    have hb : src[pos]? = some 0x60 := hbs 0 (by omega)
    obtain ⟨prev', cst', hc1, hc0, hih⟩ := ih (pos + 1) (btl + 1) (i + 1) fuel' (pos : Int) ((pos + 1 : Nat) : Int) x (by omega)
      (fun j hj => by have := hc (j + 1) (by omega); rwa [show pos + (j + 1) = pos + 1 + j by omega] at this)
      (fun j hj => by have := hbs (j + 1) (by omega); rwa [show pos + (j + 1) = pos + 1 + j by omega] at this)
      (by rwa [show pos + 1 + k = pos + (k + 1) by omega]) hx1 hx0
    refine ⟨prev', cst', fun _ => ?_, fun h => by omega, ?_⟩
    · by_cases hk : k = 0
      · rw [hc0 hk, hk]
      · rw [hc1 hk]; congr 1; omega
    · rw [List.range'_succ, List.forIn_cons, StateT.run_bind, hg1]
      simp only [cur_at src t more pos prev 0x60 (hc 0 (Nat.zero_le _)) hi hb (by decide),
        next_at src t more pos prev 0x60 (hc 0 (Nat.zero_le _)) hi hb (by decide) hn]
      simp only [Bool.not_true, Bool.false_eq_true, if_false, bne_self_eq_false, StateT.run_pure, pure_bind, rdAt]
      simp only [rdAt] at hih
      rw [hih]
      simp only [show pos + 1 + k = pos + (k + 1) by omega, show btl + 1 + k = btl + (k + 1) by omega]


/-- the continuation of the closing scan after a run of backticks has been counted -/
def afterRun (src : Bytes) (p cst : Int) (n : Nat) (r0 : Rd) (s2 : Rd × Nat × Bool) : IM (ForInStep (Option CodeSpan × Rd)) :=
  if (s2.snd.fst == n) = true then
    pure (ForInStep.done
      (some { span := { start := p, stop := s2.fst.prev + 1 }, content := { start := cst, stop := (r0.pos : Int) } }, s2.fst))
  else
    if (!(Rd.next src s2.fst).fst) = true then
      pure (ForInStep.done
        (some { span := { start := p, stop := -1 }, content := { start := cst, stop := -1 } }, (Rd.next src s2.fst).snd))
    else pure (ForInStep.yield (none, (Rd.next src s2.fst).snd))

/-- The closing scan over `mid ++ n backticks ++ x`, all runs of backticks in `mid` shorter than `n`. -/
theorem loop2 (src : Bytes) (p cst : Int) (n fl : Nat) (hn : 1 ≤ n) (hfl : src.length + 1 ≤ fl)
    (g3 : Nat → Rd × Nat × Bool → IM (ForInStep (Rd × Nat × Bool)))
    (hg3 : ∀ (x : Nat) (r : Rd × Nat × Bool), g3 x r =
      (if (!(Rd.next src r.fst).fst) = true then pure (ForInStep.done ((Rd.next src r.fst).snd, r.snd.fst, true))
      else
        if ((Rd.current src (Rd.next src r.fst).snd).fst != 96) = true then
          pure (ForInStep.done ((Rd.current src (Rd.next src r.fst).snd).snd, r.snd.fst, true))
        else pure (ForInStep.yield ((Rd.current src (Rd.next src r.fst).snd).snd, r.snd.fst + 1, r.snd.snd)) :
        IM (ForInStep (Rd × Nat × Bool))))
    (g2 : Nat → Option CodeSpan × Rd → IM (ForInStep (Option CodeSpan × Rd)))
    (hg2 : ∀ (x : Nat) (r : Option CodeSpan × Rd), g2 x r =
      (if ((Rd.current src r.snd).fst != 96) = true then
        if (!(Rd.next src (Rd.current src r.snd).snd).fst) = true then
          pure (ForInStep.done
            (some { span := { start := p, stop := -1 }, content := { start := cst, stop := -1 } },
              (Rd.next src (Rd.current src r.snd).snd).snd))
        else pure (ForInStep.yield (none, (Rd.next src (Rd.current src r.snd).snd).snd))
      else do
        let s2 ← forIn (List.range' 0 fl) ((Rd.current src r.snd).snd, 1, false) g3
        if (!s2.snd.snd) = true then do
          outOfFuel "parseCodeSpan: closing run"
          afterRun src p cst n (Rd.current src r.snd).snd s2
        else afterRun src p cst n (Rd.current src r.snd).snd s2))
    (t : Tree) (more : List Tree) (hi : isIndent t = false) (s : IState) :
    ∀ (m : Nat) (mid : Bytes) (q i fuel : Nat) (prev : Int) (x : UInt8) (rest : Bytes), mid.length ≤ m →
      mid.length + 1 ≤ fuel → src.drop q = mid ++ (List.replicate n 0x60 ++ x :: rest) → x ≠ 0x60 → x ≠ 0 →
      (∀ b ∈ mid, b ≠ 0) → maxRun mid < n → mid.getLast? ≠ some 0x60 →
      (∀ j, j ≤ mid.length + n → spanContains t (q + j) = true) →
      (forIn (List.range' i fuel) ((none : Option CodeSpan), rdAt (t :: more) q prev) g2).run s =
        pure ((some { span := { start := p, stop := ((q + mid.length + n : Nat) : Int) },
                      content := { start := cst, stop := ((q + mid.length : Nat) : Int) } },
               rdAt (t :: more) (q + mid.length + n) ((q + mid.length + n - 1 : Nat) : Int)), s) := by
  intro m
  induction m with
  | zero =>
    intro mid q i fuel prev x rest hm hf hsrc hx1 hx0 _ _ _ hc
    have : mid = [] := List.length_eq_zero_iff.1 (by omega)
    subst this
    simp only [List.nil_append, List.length_nil, Nat.add_zero, Nat.zero_add] at hsrc hc ⊢
    obtain ⟨fuel', rfl⟩ : ∃ f', fuel = f' + 1 := ⟨fuel - 1, by omega⟩
    obtain ⟨n', rfl⟩ : ∃ n', n = n' + 1 := ⟨n - 1, by omega⟩
    have hb : src[q]? = some 0x60 := by
      have := drop_get hsrc 0
      simpa [List.replicate_succ] using this
    have hbs : ∀ j, j < n' → src[q + 1 + j]? = some 0x60 := by
      intro j hj
      have := drop_get hsrc (1 + j)
      rw [← Nat.add_assoc] at this
      rw [this, List.getElem?_append_left (by simp; omega)]
      simp [List.getElem?_replicate]; omega
    have hxq : src[q + n' + 1]? = some x := by
      have := drop_get hsrc (n' + 1)
      rw [← Nat.add_assoc] at this
      rw [this, List.getElem?_append_right (by simp)]
      simp
    have hlen : q + n' + 1 < src.length := lt_of_get hxq
    have h3 := loop3 src g3 hg3 t more hi s n' q 1 0 fl prev x (by omega) (fun j hj => hc j (by omega)) (hc (n' + 1) (Nat.le_refl _))
      hbs hb hxq hx1 hx0
    rw [List.range'_succ, List.forIn_cons, StateT.run_bind, hg2]
    simp only [cur_at src t more q prev 0x60 (hc 0 (Nat.zero_le _)) hi hb (by decide)]
    simp only [bne_self_eq_false, Bool.false_eq_true, if_false, StateT.run_bind]
    rw [h3]
    simp only [pure_bind, Bool.not_true, afterRun, Nat.add_comm 1 n', beq_self_eq_true, if_true, StateT.run_pure, rdAt,
      Bool.false_eq_true, if_false]
    simp [Nat.add_assoc, Int.add_assoc]
  | succ m ih =>
    intro mid q i fuel prev x rest hm hf hsrc hx1 hx0 hnz hmax hlast hc
    cases mid with
    | nil => exact ih [] q i fuel prev x rest (by simp) hf hsrc hx1 hx0 hnz hmax hlast hc
    | cons b r =>
      obtain ⟨fuel', rfl⟩ : ∃ f', fuel = f' + 1 := ⟨fuel - 1, by simp at hf; omega⟩
      simp only [List.length_cons] at hm hf hc
      have hb : src[q]? = some b := by
        have := drop_get hsrc 0
        simpa using this
      have hb0 : b ≠ 0 := hnz b (by simp)
      have hcq : spanContains t q = true := hc 0 (Nat.zero_le _)
      have hrlast : r.getLast? ≠ some 0x60 := by
        intro h
        apply hlast
        cases r with
        | nil => simp at h
        | cons y r' => rw [List.getLast?_cons_cons]; exact h
      by_cases hbt : b = 0x60
      · -- a run of backticks shorter than `n`
        subst hbt
        obtain ⟨hsplit, hhead⟩ := countPrefix_split 0x60 r
        generalize hk0 : countPrefix 0x60 r = k0 at hsplit hhead
        have hkn : 1 + k0 < n := by
          have : 1 + k0 ≤ maxRun (0x60 :: r) := by
            rw [maxRun, ← hk0]; simp only [beq_self_eq_true, if_true]; exact Nat.le_max_left _ _
          omega
        cases hr' : r.drop k0 with
        | nil =>
          exfalso
          rw [hr', List.append_nil] at hsplit
          apply hlast
          rw [hsplit]
          cases k0 with
          | zero => simp
          | succ k => rw [← List.replicate_succ, List.getLast?_replicate]; simp
        | cons y r'' =>
          rw [hr'] at hsplit hhead
          have hy1 : y ≠ 0x60 := by simpa using hhead
          have hrlen : r.length = k0 + (r''.length + 1) := by rw [hsplit]; simp
          have hy0 : y ≠ 0 := hnz y (by rw [hsplit]; simp)
          have hsrc' : src.drop q = 0x60 :: (List.replicate k0 0x60 ++ y :: (r'' ++ (List.replicate n 0x60 ++ x :: rest))) := by
            rw [hsrc, hsplit]; simp
          have hbs : ∀ j, j < k0 → src[q + 1 + j]? = some 0x60 := by
            intro j hj
            have := drop_get hsrc' (1 + j)
            rw [← Nat.add_assoc] at this
            rw [this, Nat.add_comm 1 j, List.getElem?_cons_succ, List.getElem?_append_left (by simp; omega)]
            simp [List.getElem?_replicate]; omega
          have hyq : src[q + k0 + 1]? = some y := by
            have := drop_get hsrc' (k0 + 1)
            rw [← Nat.add_assoc] at this
            rw [this, List.getElem?_cons_succ, List.getElem?_append_right (by simp)]
            simp
          have hcy : spanContains t (q + k0 + 1) = true := by
            have := hc (k0 + 1) (by omega); rwa [← Nat.add_assoc] at this
          have hcy2 : spanContains t (q + k0 + 1 + 1) = true := by
            have := hc (k0 + 2) (by omega); rwa [show q + (k0 + 2) = q + k0 + 1 + 1 by omega] at this
          have hn2 : ((q + k0 + 1 + 1 : Nat) : Int) < t.label.stop := by
            have := hcy2
            simp only [spanContains, Bool.and_eq_true, decide_eq_true_eq] at this
            omega
          have hlen : q + k0 + 1 < src.length := lt_of_get hyq
          have h3 := loop3 src g3 hg3 t more hi s k0 q 1 0 fl prev y (by omega) (fun j hj => hc j (by omega)) hcy
            hbs hb hyq hy1 hy0
          have hih := ih r'' (q + k0 + 2) (i + 1) fuel' ((q + k0 + 1 : Nat) : Int) x rest (by omega) (by omega)
            (by
              have : src.drop (q + k0 + 2) = (src.drop q).drop (k0 + 2) := by rw [List.drop_drop, Nat.add_assoc]
              rw [this, hsrc']
              simp [List.drop_append, show k0 + 2 = (k0 + 1) + 1 by omega, List.drop_succ_cons])
            hx1 hx0 (fun b hb => hnz b (by rw [hsplit]; simp [hb]))
            (Nat.lt_of_le_of_lt (by
              have h1 : r'' = (0x60 :: r).drop (k0 + 2) := by
                rw [List.drop_succ_cons, show k0 + 1 = k0 + 1 from rfl, ← List.drop_drop, hr']; rfl
              rw [h1]; exact maxRun_drop _ _) hmax)
            (by
              intro h
              apply hrlast
              rw [hsplit]
              cases r'' with
              | nil => simp at h
              | cons z r3 =>
                rw [List.getLast?_append, List.getLast?_cons_cons, h]
                rfl)
            (fun j hj => by have := hc (k0 + 2 + j) (by omega); rwa [show q + (k0 + 2 + j) = q + k0 + 2 + j by omega] at this)
          rw [List.range'_succ, List.forIn_cons, StateT.run_bind, hg2]
          simp only [cur_at src t more q prev 0x60 hcq hi hb (by decide)]
          simp only [bne_self_eq_false, Bool.false_eq_true, if_false, StateT.run_bind]
          rw [h3]
          have hne : ((1 + k0 == n) = false) := by simp only [beq_eq_false_iff_ne, ne_eq]; omega
          simp only [pure_bind, Bool.not_true, afterRun, hne, Bool.false_eq_true, if_false,
            next_at src t more (q + k0 + 1) ((q + k0 : Nat) : Int) y hcy hi hyq hy0 hn2, StateT.run_pure]
          rw [show q + k0 + 1 + 1 = q + k0 + 2 by omega, hih]
          simp only [List.length_cons, hrlen]
          have e1 : q + k0 + 2 + r''.length + n = q + (k0 + (r''.length + 1) + 1) + n := by omega
          have e2 : q + k0 + 2 + r''.length = q + (k0 + (r''.length + 1) + 1) := by omega
          rw [e1, e2]
      · -- an ordinary byte
        have hcq1 : spanContains t (q + 1) = true := hc 1 (by omega)
        have hn1 : ((q + 1 : Nat) : Int) < t.label.stop := by
          have := hcq1
          simp only [spanContains, Bool.and_eq_true, decide_eq_true_eq] at this
          omega
        have hih := ih r (q + 1) (i + 1) fuel' (q : Int) x rest (by omega) (by omega)
          (by
            have : src.drop (q + 1) = (src.drop q).drop 1 := by rw [List.drop_drop]
            rw [this, hsrc]; simp)
          hx1 hx0 (fun b hb => hnz b (by simp [hb])) (Nat.lt_of_le_of_lt (maxRun_tail b r) hmax) hrlast
          (fun j hj => by have := hc (1 + j) (by omega); rwa [← Nat.add_assoc] at this)
        have hbne : (b != 96) = true := by simpa using hbt
        rw [List.range'_succ, List.forIn_cons, StateT.run_bind, hg2]
        simp only [cur_at src t more q prev b hcq hi hb hb0, hbne, if_true,
          next_at src t more q prev b hcq hi hb hb0 hn1, Bool.not_true, Bool.false_eq_true, if_false, StateT.run_pure, pure_bind]
        rw [hih]
        have e1 : q + 1 + r.length + n = q + (r.length + 1) + n := by omega
        have e2 : q + 1 + r.length = q + (r.length + 1) := by omega
        rw [e1, e2]
        rfl


/-- **`parseCodeSpan` on a canonical code span** inside one run: `n` backticks, content `mid` (not empty, does not begin or
    end with a backtick, every run of backticks shorter than `n`, no NUL), `n` backticks, then a byte of the run that is no backtick. -/
theorem parseCodeSpan_run {c : ICtx} {src : Bytes} (hsrc : c.src = src) (s : IState) (p n : Nat) (mid : Bytes) (x : UInt8) (rest : Bytes)
    (t : Tree) (more : List Tree) (hL : c.unparsedL.drop s.unparsedPos = t :: more) (hup : s.unparsedPos ≤ c.unparsed.size)
    (hi : isIndent t = false) (hc : ∀ j, j ≤ n + mid.length + n → spanContains t (p + j) = true)
    (hn : 1 ≤ n) (hfl : src.length + 1 ≤ c.fl)
    (hd : src.drop p = List.replicate n 0x60 ++ (mid ++ (List.replicate n 0x60 ++ x :: rest)))
    (hx1 : x ≠ 0x60) (hx0 : x ≠ 0) (hnz : ∀ b ∈ mid, b ≠ 0) (hmax : maxRun mid < n)
    (hhead : ∃ y r, mid = y :: r ∧ y ≠ 0x60) (hlast : mid.getLast? ≠ some 0x60) :
    (parseCodeSpan c (p : Int)).run s =
      pure ({ span := ⟨(p : Int), ((p + n + mid.length + n : Nat) : Int)⟩,
              content := ⟨((p + n : Nat) : Int), ((p + n + mid.length : Nat) : Int)⟩ }, s) := by
  obtain ⟨y, r, rfl, hy1⟩ := hhead
  have hy0 : y ≠ 0 := hnz y (by simp)
  have hun : (unparsedFrom c).run s = pure (t :: more, s) := by
    simp [unparsedFrom, StateT.run_bind, hL, Nat.not_lt.2 hup]
  have hrange : Std.Legacy.Range.size [:c.fl] = c.fl := by simp [Std.Legacy.Range.size]
  have hlenp : p + n < src.length := by
    have := congrArg List.length hd
    simp at this; omega
  unfold parseCodeSpan
  simp only []
  rw [StateT.run_bind, hun, pure_bind, hsrc]
  simp only [Int.toNat_natCast, Std.Legacy.Range.forIn_eq_forIn_range', hrange]
  generalize hg3 : (fun (x : Nat) (r : Rd × Nat × Bool) => (_ : IM (ForInStep (Rd × Nat × Bool)))) = g3
  generalize hg1 : (fun (x : Nat) (r : Option CodeSpan × Rd × Int × Nat × Bool) =>
    (_ : IM (ForInStep (Option CodeSpan × Rd × Int × Nat × Bool)))) = g1
  have hbs : ∀ j, j < n → src[p + j]? = some 0x60 := by
    intro j hj
    rw [drop_get hd j, List.getElem?_append_left (by simp; omega)]
    simp [List.getElem?_replicate]; omega
  have hyp : src[p + n]? = some y := by
    rw [drop_get hd n, List.getElem?_append_right (by simp)]
    simp
  obtain ⟨prev', cst', hcst, _, h1⟩ := loop1 src (p : Int) g1 (by intro x r; rw [← hg1]) t more hi s n p 0 0 c.fl (-1) (p : Int) y
    (by omega) (fun j hj => hc j (by omega)) hbs hyp hy1 hy0
  rw [StateT.run_bind, show newReader (t :: more) p = rdAt (t :: more) p (-1) from rfl, h1, pure_bind]
  simp only [Bool.not_true, Bool.false_eq_true, if_false, Nat.zero_add, hcst (by omega)]
  generalize hg2 : (fun (x : Nat) (r : Option CodeSpan × Rd) => (_ : IM (ForInStep (Option CodeSpan × Rd)))) = g2
  have h2 := loop2 src (p : Int) ((p + n : Nat) : Int) n c.fl hn hfl g3 (by intro x r; rw [← hg3]) g2
    (by intro x r; rw [← hg2]; rfl) t more hi s (y :: r).length (y :: r) (p + n) 0 c.fl prev' x rest (Nat.le_refl _)
    (by have := congrArg List.length hd; simp at this ⊢; omega)
    (by
      have : src.drop (p + n) = (src.drop p).drop n := by rw [List.drop_drop]
      rw [this, hd, List.drop_left' (by simp)])
    hx1 hx0 hnz hmax hlast (fun j hj => by have := hc (n + j) (by omega); rwa [← Nat.add_assoc] at this)
  rw [StateT.run_bind, h2, pure_bind]
  rfl


/-- The code-span piece: its node at `p` for `n` backticks around `m` content bytes. -/
def codeNodeAt (src : Bytes) (n m : Nat) (p : Nat) : INode := codeNode src p (p + n + m + n) (p + n) (p + n + m)

/-- **A canonical code span is a segment**: one CodeSpan node whose only child is the Text of the stripped content. -/
theorem code_seg {c : ICtx} {src : Bytes} (hA : c.srcA = src.toArray) (hsrc : c.src = src) (hfl : src.length + 1 ≤ c.fl)
    {f : Nat → LS → IM (ForInStep LS)} (hf : Steps c src f) {a E : Nat} {last : Bool}
    (p n : Nat) (mid : Bytes) (x : UInt8) (rest : Bytes) (hap : a ≤ p) (hlt : p + n + mid.length + n < E) (hE : E ≤ src.length)
    (hn : 1 ≤ n) (hd : src.drop p = List.replicate n 0x60 ++ (mid ++ (List.replicate n 0x60 ++ x :: rest)))
    (hx1 : x ≠ 0x60) (hx0 : x ≠ 0) (hnz : ∀ b ∈ mid, b ≠ 0) (hmax : maxRun mid < n)
    (hhead : ∃ y r, mid = y :: r ∧ y ≠ 0x60) (hlast : mid.getLast? ≠ some 0x60)
    (hlastb : ∀ z, mid.getLast? = some z → z ≠ LF ∧ z ≠ CR) (ps : Nat) :
    Seg c f a E last p ps (p + (n + mid.length + n)) (p + (n + mid.length + n))
      (pushP (codeNodeAt src n mid.length p) ∘ pushAll (flushN ps p)) := by
  obtain ⟨y, r, hmid, hy1⟩ := hhead
  have hmlen : 1 ≤ mid.length := by rw [hmid]; simp
  refine Seg.ofStep (by omega) (fun s => by simp [Function.comp, pushAll_up]) (fun s hs i => ?_)
  obtain ⟨more, hrun⟩ := hs.run
  have hi : isIndent (mkInline IK.unparsed (a : Int) (E : Int)) = false := rfl
  have hcont : ∀ pos, a ≤ pos → pos < E → spanContains (mkInline IK.unparsed (a : Int) (E : Int)) pos = true := by
    intro pos h1 h2
    simp [spanContains, Node.spanValid, mkInline, Tree.label]
    omega
  have hup : s.unparsedPos ≤ c.unparsed.size := Nat.le_of_lt hs.lt
  have hb : src[p]? = some 0x60 := by
    have := drop_get hd 0
    obtain ⟨n', rfl⟩ : ∃ n', n = n' + 1 := ⟨n - 1, by omega⟩
    simpa [List.replicate_succ] using this
  have hcs := parseCodeSpan_run hsrc s p n mid x rest _ more hrun hup hi
    (fun j hj => hcont (p + j) (by omega) (by omega)) hn hfl hd hx1 hx0 hnz hmax ⟨y, r, hmid, hy1⟩ hlast
  -- the last byte of the content
  obtain ⟨z, hz⟩ : ∃ z, mid.getLast? = some z := by
    rw [List.getLast?_eq_getElem?]
    exact ⟨mid[mid.length - 1], List.getElem?_eq_getElem (by omega)⟩
  have hzq : src[p + n + mid.length - 1]? = some z := by
    have h1 := drop_get hd (n + (mid.length - 1))
    rw [show p + (n + (mid.length - 1)) = p + n + mid.length - 1 by omega] at h1
    rw [h1, List.getElem?_append_right (by simp), List.length_replicate, Nat.add_sub_cancel_left,
      List.getElem?_append_left (by omega)]
    rw [List.getLast?_eq_getElem?] at hz
    exact hz
  obtain ⟨hzLF, hzCR⟩ := hlastb z hz
  have hs' : At c a E last (addLeafP IK.text (ps : Int) (p : Int) s) := hs.congr (by simp)
  obtain ⟨more', hrun'⟩ := hs'.run
  have hcol := collectCodeSpan_run hA (addLeafP IK.text (ps : Int) (p : Int) s) p (p + n + mid.length + n) (p + n) (p + n + mid.length)
    (by omega) (by omega) (by omega) z hzq hzLF hzCR _ more' hrun' (Nat.le_of_lt hs'.lt) (hcont _ (by omega) (by omega))
  have := hf.code i p a E last (ps : Int) s _ (pushP (codeNodeAt src n mid.length p)) hs (by omega) hb hcs
    (by simp [SpanI.isValid]; omega) hcol
  rw [this, addText_flush]
  simp only [Function.comp, Nat.add_assoc]

end CM.Proofs.InlSer
