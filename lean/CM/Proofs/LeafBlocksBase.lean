import CM.Proofs.CodeVerbatimFenced
import CM.Proofs.CodeVerbatimIndentLine
/-
C06 (block piece, leaf blocks), helper: the pieces of `processLine` every leaf-block run shares.
* block starts that do nothing (`start…_none`), `tryStarts` step by step, `openingLoop` by the state `tryStarts` leaves;
* `processLine` on the empty document and on a document whose only child is an open leaf block;
* `openBlock` / `endBlock` / `closeBlock` on these two shapes of tree;
* the stream machine: one line through `parseLines`, the delivery of the only root, `drain`.
-/
namespace CM.Proofs.Leaf
open CM CM.Model CM.Gen
open CM.Proofs CM.Proofs.BT

/-! ### small facts -/

theorem with_state_eq (p : LP) (s : Nat) (h : p.state = s) : { p with state := s } = p := by
  obtain ⟨source, root, depth, lineStart, line, i, col, tabRem, tabPartial, state, panic⟩ := p
  simp only at h; subst h; rfl

theorem with_depth_eq (p : LP) (d : Nat) (h : p.depth = d) : { p with depth := d } = p := by
  obtain ⟨source, root, depth, lineStart, line, i, col, tabRem, tabPartial, state, panic⟩ := p
  simp only at h; subst h; rfl

/-! ### block starts that do nothing -/

theorem startFenced_none (x : PExt) (p : LP) (h : (parseCodeFence p.bytesAfterIndent).n = 0) : startFenced x p = p := by
  unfold startFenced
  simp only [h, beq_self_eq_true, if_true, ite_self]

theorem startHTML_none_head (x : PExt) (p : LP) (h : p.bytesAfterIndent.head? ≠ some 0x3C) : startHTML x p = p := by
  unfold startHTML
  have : (p.bytesAfterIndent.head? != some 0x3C) = true := by simpa using h
  simp only [this, if_true, ite_self]

/-- The scan of `htmlStartLoop`, as a test: no HTML block start condition applies, or the first one that does cannot
    interrupt a paragraph and we are in one. -/
def htmlNoStart (inPara : Bool) (line : Bytes) : Nat → Nat → Bool
  | 0, _ => true
  | fuel + 1, i =>
    if i ≥ 7 then true
    else if htmlBlockStart i line then (!htmlBlockCanInterrupt i && inPara)
    else htmlNoStart inPara line fuel (i + 1)

theorem htmlStartLoop_none (x : PExt) (line : Bytes) (p : LP) :
    ∀ (fuel i : Nat), htmlNoStart (p.containerKind == BK.paragraph) line fuel i = true → htmlStartLoop x line fuel i p = p := by
  intro fuel
  induction fuel with
  | zero => intro i _; rfl
  | succ fuel ih =>
    intro i h
    unfold htmlStartLoop
    unfold htmlNoStart at h
    by_cases h7 : i ≥ 7
    · simp only [h7, if_true]
    · simp only [h7, if_false] at h ⊢
      by_cases hs : htmlBlockStart i line = true
      · simp only [hs, if_true] at h ⊢
        simp only [h, if_true]
      · simp only [hs, Bool.false_eq_true, if_false] at h ⊢
        exact ih (i + 1) h

theorem startHTML_none (x : PExt) (p : LP)
    (h : p.bytesAfterIndent.head? ≠ some 0x3C ∨ htmlNoStart (p.containerKind == BK.paragraph) p.bytesAfterIndent 8 0 = true) :
    startHTML x p = p := by
  rcases h with h | h
  · exact startHTML_none_head x p h
  · unfold startHTML
    simp only [htmlStartLoop_none x _ p 8 0 h, ite_self]

theorem startSetext_none (x : PExt) (p : LP)
    (h : p.containerKind ≠ BK.paragraph ∨ parseSetextHeadingUnderline p.bytesAfterIndent = 0) : startSetext x p = p := by
  unfold startSetext
  rcases h with h | h
  · have : (p.containerKind != BK.paragraph) = true := by simpa using h
    simp only [this, if_true]
  · simp only [h, beq_self_eq_true, if_true, ite_self]

theorem startThematicBreak_none (x : PExt) (p : LP) (h : parseThematicBreak p.bytesAfterIndent < 0) :
    startThematicBreak x p = p := by
  unfold startThematicBreak
  simp only [h, if_true, ite_self]

/-- `startListItem` does nothing: no marker, or in a paragraph an ordered marker that does not start at 1, or in a paragraph
    an empty item. -/
def listNoStart (inPara : Bool) (line : Bytes) : Bool :=
  let m := parseListMarker line
  decide (m.stop < 0) || (inPara && (m.delim == 0x2E || m.delim == 0x29) && m.n != 1) ||
    (inPara && isBlankLine (line.drop m.stop.toNat))

theorem startListItem_none (x : PExt) (p : LP)
    (h : listNoStart (p.containerKind == BK.paragraph) p.bytesAfterIndent = true) : startListItem x p = p := by
  unfold startListItem
  simp only [listNoStart, Bool.or_eq_true, Bool.and_eq_true, decide_eq_true_eq] at h
  by_cases hi : p.indent ≥ codeBlockIndentLimit
  · simp only [hi, if_true]
  · simp only [hi, if_false]
    rcases h with (h | h) | h
    · simp only [h, decide_true, Bool.true_or, if_true]
    · have : (decide ((parseListMarker p.bytesAfterIndent).stop < 0) ||
          (p.containerKind == BK.paragraph && ((parseListMarker p.bytesAfterIndent).delim == 0x2E ||
            (parseListMarker p.bytesAfterIndent).delim == 0x29) && (parseListMarker p.bytesAfterIndent).n != 1)) = true := by
        simp only [Bool.or_eq_true, Bool.and_eq_true, decide_eq_true_eq]
        exact Or.inr h
      simp only [this, if_true]
    · have : (p.containerKind == BK.paragraph &&
          isBlankLine (p.bytesAfterIndent.drop (parseListMarker p.bytesAfterIndent).stop.toNat)) = true := by
        simp only [Bool.and_eq_true]; exact h
      simp only [this, if_true, ite_self]

theorem startIndentedCode_none (x : PExt) (p : LP) (h : p.indent < codeBlockIndentLimit) : startIndentedCode x p = p := by
  unfold startIndentedCode
  simp only [h, decide_true, Bool.true_or, if_true]

/-! ### `tryStarts` -/

theorem tryStarts_skip (f : LP → LP) (rest : List (LP → LP)) (p : LP) (hst : p.state = stateOpening) (h : f p = p) :
    tryStarts (f :: rest) p = tryStarts rest p := by
  simp only [tryStarts, with_state_eq p _ hst, h, hst]
  simp [stateOpening, stateOpenMatched, stateLineConsumed]

theorem tryStarts_hit (f : LP → LP) (rest : List (LP → LP)) (p : LP) (hst : p.state = stateOpening)
    (h : (f p).state = stateOpenMatched ∨ (f p).state = stateLineConsumed) :
    tryStarts (f :: rest) p = f p := by
  simp only [tryStarts, with_state_eq p _ hst]
  rcases h with h | h <;> simp [h, stateOpenMatched, stateLineConsumed]

/-- The side condition "this line starts no block" in terms of the model's recognisers, for a line that does not begin
    with a space or a tab (`line` is the whole line, terminator included). `inPara`: the line follows a paragraph line. -/
def noBlockStart (inPara : Bool) (line : Bytes) : Bool :=
  !hasBytePrefix line blockQuotePrefix &&
  ((parseATXHeading line).level == 0) &&
  ((parseCodeFence line).n == 0) &&
  (line.head? != some 0x3C || htmlNoStart inPara line 8 0) &&
  (!inPara || parseSetextHeadingUnderline line == 0) &&
  decide (parseThematicBreak line < 0) &&
  listNoStart inPara line

theorem tryStarts_none (x : PExt) (p : LP) (hst : p.state = stateOpening) (hind : p.indent = 0)
    (h : noBlockStart (p.containerKind == BK.paragraph) p.bytesAfterIndent = true) :
    tryStarts (blockStartFns x) p = p := by
  simp only [noBlockStart, Bool.and_eq_true, Bool.not_eq_true', beq_iff_eq, decide_eq_true_eq, Bool.or_eq_true,
    bne_iff_ne, ne_eq] at h
  obtain ⟨⟨⟨⟨⟨⟨h1, h2⟩, h3⟩, h4⟩, h5⟩, h6⟩, h7⟩ := h
  have hlt : p.indent < codeBlockIndentLimit := by rw [hind]; decide
  unfold blockStartFns
  rw [tryStarts_skip _ _ p hst (startBlockQuote_none x p hlt h1),
    tryStarts_skip _ _ p hst (startATX_none x p hlt h2),
    tryStarts_skip _ _ p hst (startFenced_none x p h3),
    tryStarts_skip _ _ p hst (startHTML_none x p h4),
    tryStarts_skip _ _ p hst (startSetext_none x p (by
      rcases h5 with h5 | h5
      · left; intro hk; rw [hk] at h5; simp at h5
      · right; exact h5)),
    tryStarts_skip _ _ p hst (startThematicBreak_none x p h6),
    tryStarts_skip _ _ p hst (startListItem_none x p h7),
    tryStarts_skip _ _ p hst (startIndentedCode_none x p hlt)]
  rfl

/-! ### `openingLoop` by what `tryStarts` leaves -/

theorem openingLoop_accepts (x : PExt) (f : Nat) (p : LP) (h1 : p.containerKind ≠ BK.paragraph)
    (h2 : acceptsLines p.containerKind = true) : openingLoop x (f + 1) p = (true, p) := by
  rw [openingLoop]
  have : (p.containerKind == BK.paragraph) = false := by simpa using h1
  simp [this, h2]

theorem openingLoop_step (x : PExt) (f : Nat) (p : LP)
    (hk : p.containerKind = BK.paragraph ∨ acceptsLines p.containerKind = false) :
    openingLoop x (f + 1) p =
      (if (tryStarts (blockStartFns x) p).state == stateOpenMatched then openingLoop x f (tryStarts (blockStartFns x) p)
       else if (tryStarts (blockStartFns x) p).state == stateLineConsumed then (false, tryStarts (blockStartFns x) p)
       else (true, tryStarts (blockStartFns x) p)) := by
  rw [openingLoop]
  have : (!(p.containerKind == BK.paragraph || !acceptsLines p.containerKind)) = false := by
    rcases hk with hk | hk <;> simp [hk]
  simp only [this, Bool.false_eq_true, if_false]

theorem kind_doc_noLines : acceptsLines BK.document = false := by decide

/-! ### `processLine` on the two shapes of tree -/

/-- On the empty document there is nothing to descend into. -/
theorem processLine_doc0 (x : PExt) (p : LP) (hroot : p.root = docRoot []) (hd : p.depth = 0)
    (hst : p.state = stateOpening) (hne : p.line ≠ []) :
    processLine x p =
      (if (openingLoop x (p.line.length + 8) p).1 then addLineText x (openingLoop x (p.line.length + 8) p).2
       else (openingLoop x (p.line.length + 8) p).2) := by
  have hemp : p.line.isEmpty = false := by cases h : p.line <;> simp_all
  unfold processLine descendOpenBlocks
  simp only [hroot, docRoot, spineLength_doc0]
  rw [descendLoop]
  have hsg : spineGet p.root (0 + 1) = none := by rw [hroot]; rfl
  simp only [hsg, with_depth_eq p 0 hd]
  simp only [hst, show (stateOpening == stateDescendTerminated) = false from rfl, Bool.false_eq_true, if_false]
  unfold openNewBlocks
  simp only [hemp, Bool.false_eq_true, if_false, if_true]

theorem containerKind_doc0 (p : LP) (hroot : p.root = docRoot []) (hd : p.depth = 0) : p.containerKind = BK.document := by
  simp [LP.containerKind, LP.container, hd, hroot, spineGet_zero, docRoot, PB.kind, PB.label]

/-- A line on the empty document on which some block start consumes the whole line. -/
theorem processLine_doc0_consumed (x : PExt) (p : LP) (hroot : p.root = docRoot []) (hd : p.depth = 0)
    (hst : p.state = stateOpening) (hne : p.line ≠ [])
    (hts : (tryStarts (blockStartFns x) p).state = stateLineConsumed) :
    processLine x p = tryStarts (blockStartFns x) p := by
  rw [processLine_doc0 x p hroot hd hst hne,
    show p.line.length + 8 = (p.line.length + 7) + 1 from rfl,
    openingLoop_step x _ p (Or.inr (by rw [containerKind_doc0 p hroot hd]; decide))]
  simp [hts, stateOpenMatched, stateLineConsumed]

/-! ### a document with one open leaf child -/

/-- A document whose only child is the block `c`. -/
def doc1 (c : PB) : PB := docRoot [c]

/-- An open leaf block that starts at offset 0. -/
def leafOpen (kind : Nat) (n : Int) (inl : List Tree) : PB := .mk { kind := kind, start := 0, stop := -1, n := n } [] inl
/-- … closed at `e`. -/
def leafClosed (kind : Nat) (n : Int) (e : Int) (inl : List Tree) : PB := .mk { kind := kind, start := 0, stop := e, n := n } [] inl

theorem containerKind_doc1 (p : LP) (kind : Nat) (n : Int) (inl : List Tree)
    (hroot : p.root = doc1 (leafOpen kind n inl)) (hd : p.depth = 1) : p.containerKind = kind := by
  simp [LP.containerKind, LP.container, hd, hroot, doc1, docRoot, leafOpen, spineGet, PB.kind, PB.label]

theorem openBlock_doc0 (x : PExt) (p : LP) (kind : Nat) (n : Int)
    (hroot : p.root = docRoot []) (hd : p.depth = 0) (hs : p.state ≤ 2) (hls : p.lineStart = 0) (hi : p.i = 0)
    (hcc : canContain BK.document kind = true) :
    p.openBlock x kind (fun l => { l with n := n }) =
      { p with state := mm p.state, root := doc1 (leafOpen kind n []), depth := 1 } := by
  obtain ⟨source, root, depth, lineStart, line, i, col, tabRem, tabPartial, state, panic⟩ := p
  simp only at hroot hd hs hls hi
  subst hroot hd hls hi
  have h3 : (state == stateDescending) = false := by simp [stateDescending]; omega
  have h4 : (state == stateDescendTerminated) = false := by simp [stateDescendTerminated]; omega
  unfold LP.openBlock
  simp only [h3, h4, Bool.or_self, Bool.false_eq_true, if_false]
  rw [markMatched_eq]
  simp [LP.openBlockLoop, LP.containerKind, LP.container, spineGet, docRoot, PB.kind, PB.label, hcc,
    LP.closeLastChild, spineReplaceLast, spineModify, doc1, leafOpen]

theorem openBlock_doc0_id (x : PExt) (p : LP) (kind : Nat)
    (hroot : p.root = docRoot []) (hd : p.depth = 0) (hs : p.state ≤ 2) (hls : p.lineStart = 0) (hi : p.i = 0)
    (hcc : canContain BK.document kind = true) :
    p.openBlock x kind = { p with state := mm p.state, root := doc1 (leafOpen kind 0 []), depth := 1 } := by
  obtain ⟨source, root, depth, lineStart, line, i, col, tabRem, tabPartial, state, panic⟩ := p
  simp only at hroot hd hs hls hi
  subst hroot hd hls hi
  have h3 : (state == stateDescending) = false := by simp [stateDescending]; omega
  have h4 : (state == stateDescendTerminated) = false := by simp [stateDescendTerminated]; omega
  unfold LP.openBlock
  simp only [h3, h4, Bool.or_self, Bool.false_eq_true, if_false]
  rw [markMatched_eq]
  simp [LP.openBlockLoop, LP.containerKind, LP.container, spineGet, docRoot, PB.kind, PB.label, hcc,
    LP.closeLastChild, spineReplaceLast, spineModify, doc1, leafOpen]

theorem closeBlock_leaf (x : PExt) (src : Bytes) (e : Int) (kind : Nat) (n : Int) (inl : List Tree)
    (h1 : kind ≠ BK.list) (h2 : kind ≠ BK.paragraph) (h3 : kind ≠ BK.setextHeading) (h4 : kind ≠ BK.indentedCode) :
    closeBlock x src e (leafOpen kind n inl) = [leafClosed kind n e inl] := by
  rw [leafOpen, closeBlock]
  simp [h1, h2, h3, h4, closeLast, leafClosed]

/-- `EndBlock` on a document with one open child. -/
theorem endBlock_doc1 (x : PExt) (p : LP) (c : PB) (hroot : p.root = doc1 c) (hd : p.depth = 1) (hs : p.state ≤ 2) :
    p.endBlock x = { p with state := mm p.state,
                            root := .mk { kind := BK.document, start := 0, stop := -1 } (closeBlock x p.source (p.lineStart + p.i) c) [],
                            depth := 0 } := by
  obtain ⟨source, root, depth, lineStart, line, i, col, tabRem, tabPartial, state, panic⟩ := p
  simp only at hroot hd hs
  subst hroot hd
  have h3 : (state == stateDescending) = false := by simp [stateDescending]; omega
  have h4 : (state == stateDescendTerminated) = false := by simp [stateDescendTerminated]; omega
  unfold LP.endBlock
  simp only [h3, h4, Bool.or_self, Bool.false_eq_true, if_false]
  rw [markMatched_eq]
  simp [LP.closeContainer, spineReplaceLast, spineModify, doc1, docRoot]

/-- `CollectInline(kind, n)` where the cursor is not at a space or tab. -/
theorem collectInline_plain (x : PExt) (p : LP) (kind n : Nat) (hk : kind ≠ IK.infoString) (hind : p.indent = 0)
    (hst : 1 ≤ p.state ∧ p.state ≤ 3) :
    p.collectInline x kind n =
      (p.advance n).appendInline (mkInline kind ((p.lineStart + p.i : Nat) : Int)
        (((p.advance n).lineStart + (p.advance n).i : Nat) : Int)) := by
  have hm : p.markMatched = p := by
    rw [markMatched_eq, mm_of_pos _ hst.1]
  have h4 : (p.state == stateDescendTerminated) = false := by simp [stateDescendTerminated]; omega
  unfold LP.collectInline
  simp only [h4, Bool.false_eq_true, if_false]
  have hm' : LP.markMatched p = p := hm
  have hk' : (kind == IK.infoString) = false := by simpa using hk
  simp only [hm', hind, Nat.lt_irrefl, if_false, gt_iff_lt, hk', Bool.false_eq_true]

/-! ### the stream machine -/

/-- One line of a multi-line block through `parseLines`: the only child stays open. -/
theorem parseLines_line (x : PExt) (fuel : Nat) (lp : LP) (buf : Bytes) (s : Nat) (l rest : Bytes) (c' : PB)
    (hbuf : buf.drop s = l ++ LF :: rest)
    (hroot : ((blocksLP x).line lp (buf.take (s + (l.length + 1))) s).root = doc1 c')
    (hpanic : ((blocksLP x).line lp (buf.take (s + (l.length + 1))) s).panic = none)
    (hopen : c'.isOpen = true) :
    ∃ lp' : LP, lp'.root = doc1 c' ∧ lp'.panic = none ∧
      parseLines (blocksLP x) (fuel + 1) lp s (memBP buf (s + (l.length + 1))) =
        parseLines (blocksLP x) fuel lp' (s + (l.length + 1)) (memBP buf (s + (l.length + 1) + lineLen rest)) := by
  have hlen : s + (l.length + 1) + rest.length = buf.length := by
    have := congrArg List.length hbuf
    simp only [List.length_drop, List.length_append, List.length_cons] at this
    omega
  have hrest : buf.drop (s + (l.length + 1)) = rest := by
    rw [← List.drop_drop, hbuf, drop_line]
  refine ⟨_, hroot, hpanic, ?_⟩
  have htake : (memBP buf (s + (l.length + 1))).buf.take (memBP buf (s + (l.length + 1))).i = buf.take (s + (l.length + 1)) := rfl
  have key := @parseLines_next (blocksLP x) fuel lp s (memBP buf (s + (l.length + 1)))
  rw [htake] at key
  have hk : makeRoot (memBP buf (s + (l.length + 1))) ((blocksLP x).kids ((blocksLP x).line lp
      (buf.take (s + (l.length + 1))) s)) = none := by
    show makeRoot _ (LP.root ((blocksLP x).line lp (buf.take (s + (l.length + 1))) s)).blocks = none
    rw [hroot]
    simp [makeRoot, doc1, docRoot, PB.blocks, hopen]
  rw [key hpanic hk, readline_memBP buf _ (by omega), hrest]
  rfl

/-- The line (or the end of input) that closes the only child at the end of the buffer: the root is delivered. -/
theorem parseLines_last (x : PExt) (fuel : Nat) (lp : LP) (buf : Bytes) (s : Nat) (dl : PLabel) (k : PB)
    (hroot : ((blocksLP x).line lp buf s).root = .mk dl [k] [])
    (hpanic : ((blocksLP x).line lp buf s).panic = none)
    (hnul : ∀ b ∈ buf, b ≠ 0) (hk : k.label.stop = (buf.length : Nat)) :
    parseLines (blocksLP x) (fuel + 1) lp s (memBP buf buf.length) =
      (.block { source := buf, startLine := 1, startOffset := 0, endOffset := buf.length, block := k },
       doneBP buf.length (1 + lineCount buf)) := by
  have hsrc : (memBP buf buf.length).buf.take (memBP buf buf.length).i = buf := List.take_length
  have key := @parseLines_root (blocksLP x) fuel lp s (memBP buf buf.length)
  rw [hsrc] at key
  apply key hpanic
  show makeRoot _ (LP.root ((blocksLP x).line lp buf s)).blocks = _
  rw [hroot]
  exact makeRoot_memBP_closed buf _ hnul hk

/-- `drain` when the first `NextBlock` delivers the only root and consumes the buffer. -/
theorem drain_single (x : PExt) (doc : Bytes) (fuel : Nat) (r : Root) (hnul : ∀ b ∈ doc, b ≠ 0)
    (h1 : 0 < lineLen doc) (h2 : isBlankLine (doc.take (lineLen doc)) = false) (hfuel : 2 ≤ fuel)
    (h : parseLines (blocksLP x) (doc.length + 4) ((blocksLP x).new []) 0 (memBP doc (lineLen doc)) =
      (.block r, doneBP doc.length (1 + lineCount doc))) :
    drain (blocksLP x) fuel (memParser doc) [] = ([r], .err .eof, doneBP doc.length (1 + lineCount doc)) := by
  rw [memParser_eq doc hnul]
  obtain ⟨f, rfl⟩ : ∃ f, fuel = f + 2 := ⟨fuel - 2, by omega⟩
  have e0 := nextBlock_first (blocksLP x) doc h1 h2
  rw [h] at e0
  exact drain_two (blocksLP x) f _ _ _ _ _ e0 (nextBlock_done _ _ _)

/-- What `reset` establishes on the fresh line parser at the start of the document. -/
theorem reset_first (src : Bytes) :
    ∀ p, p = newLP.reset src 0 →
      p.root = docRoot [] ∧ p.depth = 0 ∧ p.i = 0 ∧ p.lineStart = 0 ∧ p.state = stateOpening ∧ p.panic = none ∧
      CurOK p ∧ p.line = src ∧ p.source = src ∧ p.tabPartial = false ∧ p.indent = wsWidth 0 src := by
  intro p hp
  have r := reset_facts newLP src 0
  rw [← hp] at r
  have h1 : p.root = docRoot [] := r.root
  have h5 : p.state = stateOpening := r.state
  have h6 : p.panic = none := r.panic
  have h8 : p.line = src := r.line
  have h11 : p.indent = wsWidth 0 src := r.indent
  exact ⟨h1, r.depth, r.i, r.lineStart, h5, h6, r.cur, h8, r.source, r.tabPartial, h11⟩

/-- A line that does not begin with a space or a tab: no indentation, the bytes after the indentation are the line. -/
theorem noIndent (p : LP) (c : UInt8) (rest : Bytes) (hc : CurOK p) (hi : p.i = 0) (hline : p.line = c :: rest)
    (h1 : c ≠ SP) (h2 : c ≠ TAB) : p.indent = 0 ∧ p.bytesAfterIndent = p.line := by
  have hg : p.line.getD p.i 0 = c := by rw [hi, hline]; rfl
  have hind : p.indent = 0 := indent_other p (by rw [hg]; exact h1) (by rw [hg]; exact h2)
  refine ⟨hind, ?_⟩
  rw [bai_of_indent_zero p hc hind, hi]; rfl

/-- The document after a one-line block has been opened and closed on its first line. -/
def docClosed1 (k : PB) : PB := .mk { kind := BK.document, start := 0, stop := -1 } [k] []

theorem blank_of_append_LF (l : Bytes) : isBlankLine (l ++ [LF]) = isBlankLine l := by
  rw [isBlankLine_append]; simp [isBlankLine, isWs_LF]

theorem noNul_line {l : Bytes} (h : plainLine l = true) : ∀ b ∈ l ++ [LF], b ≠ 0 := by
  apply noNul_mem
  rw [noNul_append, noNul_of_plain h]; decide

/-- A one-line document whose line opens and closes a block: exactly one root, then the end of input. -/
theorem oneLine_run (x : PExt) (l : Bytes) (fuel : Nat) (k : PB) (hpl : plainLine l = true) (hnb : isBlankLine l = false)
    (hfuel : 2 ≤ fuel)
    (hline : ∀ p, p = newLP.reset (l ++ [LF]) 0 → (processLine x p).root = docClosed1 k ∧ (processLine x p).panic = none)
    (hk : k.label.stop = ((l ++ [LF]).length : Nat)) :
    drain (blocksLP x) fuel (memParser (l ++ [LF])) [] =
      ([{ source := l ++ [LF], startLine := 1, startOffset := 0, endOffset := (l ++ [LF]).length, block := k }],
       .err .eof, doneBP (l ++ [LF]).length (1 + lineCount (l ++ [LF]))) := by
  have hnul := noNul_line hpl
  have hll : lineLen (l ++ [LF]) = (l ++ [LF]).length := by
    have := lineLen_plain l [] hpl
    rw [this]; simp
  apply drain_single x (l ++ [LF]) fuel _ hnul (by rw [hll]; simp) (by
    rw [hll, List.take_length, blank_of_append_LF]; exact hnb) hfuel
  rw [hll]
  obtain ⟨h1, h2⟩ := hline _ rfl
  exact parseLines_last x ((l ++ [LF]).length + 3) ((blocksLP x).new []) (l ++ [LF]) 0 _ k h1 h2 hnul hk

end CM.Proofs.Leaf
