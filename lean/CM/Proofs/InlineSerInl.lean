import CM.Proofs.InlineSerDoc
import CM.Spec.Doc
/-
Inline serialisation — part 11: the connection with `Spec/Doc.lean`.  For inline items `word`, `code`, `entity`,
`autolink` separated by spaces and by soft / hard breaks (`toSL`): the canonical serialisation `serInls` (default
choices: the exhausted choice stream) is the source of the lines, and `denoteInls` is the HTML of the pieces.
-/
namespace CM.Proofs.InlSer
open CM CM.Gen CM.Model CM.Model.Inl CM.Proofs.EscText CM.Spec

/-! ### the two escaping functions of `Spec/Doc` are the renderer's -/

theorem escText_eq (b : Bytes) : escText b = escapeHTML b := by
  unfold escText escapeHTML
  apply flatMap_congr'
  intro c _
  by_cases h1 : c = 0x26
  · subst h1; decide +kernel
  by_cases h2 : c = 0x3C
  · subst h2; decide +kernel
  by_cases h3 : c = 0x3E
  · subst h3; decide +kernel
  by_cases h4 : c = 0x22
  · subst h4; decide +kernel
  by_cases h5 : c = 0x27
  · subst h5; decide +kernel
  have e1 : (c == 0x26) = false := by simpa using h1
  have e2 : (c == 0x3C) = false := by simpa using h2
  have e3 : (c == 0x3E) = false := by simpa using h3
  have e4 : (c == 0x22) = false := by simpa using h4
  have e5 : (c == 0x27) = false := by simpa using h5
  have f1 : (38 == c) = false := by simp only [beq_eq_false_iff_ne, ne_eq]; exact fun h => h1 h.symm
  have f2 : (60 == c) = false := by simp only [beq_eq_false_iff_ne, ne_eq]; exact fun h => h2 h.symm
  have f3 : (62 == c) = false := by simp only [beq_eq_false_iff_ne, ne_eq]; exact fun h => h3 h.symm
  have f4 : (34 == c) = false := by simp only [beq_eq_false_iff_ne, ne_eq]; exact fun h => h4 h.symm
  have f5 : (39 == c) = false := by simp only [beq_eq_false_iff_ne, ne_eq]; exact fun h => h5 h.symm
  simp [e1, e2, e3, e4, e5, escapeHTMLCases, List.lookup, f1, f2, f3, f4, f5]

theorem escAttr_eq (b : Bytes) : escAttr b = escapeString b := by
  unfold escAttr escapeString
  apply flatMap_congr'
  intro c _
  by_cases h1 : c = 0x26
  · subst h1; decide +kernel
  by_cases h2 : c = 0x3C
  · subst h2; decide +kernel
  by_cases h3 : c = 0x3E
  · subst h3; decide +kernel
  by_cases h4 : c = 0x22
  · subst h4; decide +kernel
  by_cases h5 : c = 0x27
  · subst h5; decide +kernel
  have e1 : (c == 0x26) = false := by simpa using h1
  have e2 : (c == 0x3C) = false := by simpa using h2
  have e3 : (c == 0x3E) = false := by simpa using h3
  have e4 : (c == 0x22) = false := by simpa using h4
  have e5 : (c == 0x27) = false := by simpa using h5
  simp [e1, e2, e3, e4, e5]

/-! ### words -/

def wordP (b : Bytes) : List SPiece := b.map fun ch => if isWordSafe ch then .byte ch else .esc ch

theorem serWord_nil (b : Bytes) : serWord [] b = (pbytes (wordP b), []) := by
  unfold serWord
  have : ∀ (acc : Bytes), b.foldl (fun (acc : Bytes × Choices) ch =>
      if isWordSafe ch then (acc.1 ++ [ch], acc.2)
      else
        let (k, c') := pick acc.2 3
        if k == 2 then (acc.1 ++ s "&#" ++ decimalStr ch.toNat ++ s ";", c')
        else (acc.1 ++ [0x5C, ch], c')) (acc, []) = (acc ++ pbytes (wordP b), []) := by
    induction b with
    | nil => intro acc; simp [wordP, pbytes]
    | cons ch r ih =>
      intro acc
      rw [List.foldl_cons]
      by_cases hs : isWordSafe ch = true
      · simp only [hs, if_true]
        rw [ih]
        simp [wordP, pbytes, hs, SPiece.bytes]
      · have hstep : (if isWordSafe ch = true then (((acc, ([] : Choices))).1 ++ [ch], (acc, ([] : Choices)).2)
            else
              let (k, c') := pick (acc, ([] : Choices)).2 3
              if k == 2 then ((acc, ([] : Choices)).1 ++ s "&#" ++ decimalStr ch.toNat ++ s ";", c')
              else ((acc, ([] : Choices)).1 ++ [0x5C, ch], c')) = (acc ++ [0x5C, ch], ([] : Choices)) := by
          rw [if_neg hs]; rfl
        rw [hstep, ih]
        simp [wordP, pbytes, hs, SPiece.bytes]
  have := this []
  simpa using this

theorem html_wordP (cx : RCtx) (b : Bytes) : (wordP b).flatMap (htmlP cx) = escapeHTML b := by
  induction b with
  | nil => rfl
  | cons ch r ih =>
    have : escapeHTML (ch :: r) = escapeHTML [ch] ++ escapeHTML r := escapeHTML_append [ch] r
    rw [this, ← ih]
    simp only [wordP, List.map_cons, List.flatMap_cons]
    split <;> rfl

/-! ### code spans -/

theorem countPrefix_le_maxRun (b : Bytes) : countPrefix 0x60 b ≤ maxRun b := by
  cases b with
  | nil => simp [countPrefix, maxRun]
  | cons x r =>
    rw [countPrefix, maxRun]
    split
    · exact Nat.le_max_left _ _
    · exact Nat.zero_le _

/-- The serialiser's fold computes the longest run of backticks. -/
theorem fold_maxRun (b : Bytes) : ∀ (c m : Nat),
    (b.foldl (fun (acc : Nat × Nat) ch => if ch == 0x60 then (acc.1 + 1, max acc.2 (acc.1 + 1)) else (0, acc.2)) (c, m)).2 =
      max m (max (if 0 < countPrefix 0x60 b then c + countPrefix 0x60 b else 0) (maxRun b)) := by
  induction b with
  | nil => intro c m; simp [countPrefix, maxRun]
  | cons x r ih =>
    intro c m
    rw [List.foldl_cons]
    have hle := countPrefix_le_maxRun r
    by_cases hx : (x == 0x60) = true
    · simp only [hx, if_true]
      rw [ih, countPrefix, maxRun]
      simp only [hx, if_true]
      by_cases h0 : 0 < countPrefix 0x60 r
      · simp only [h0, if_true, show 0 < 1 + countPrefix 0x60 r by omega]
        omega
      · simp only [h0, if_false, show 0 < 1 + countPrefix 0x60 r by omega, if_true]
        omega
    · simp only [hx, Bool.false_eq_true, if_false]
      rw [ih, countPrefix, maxRun]
      simp only [hx, Bool.false_eq_true, if_false, Nat.lt_irrefl]
      by_cases h0 : 0 < countPrefix 0x60 r
      · simp only [h0, if_true]; omega
      · simp only [h0, if_false]

def codeN (b : Bytes) : Nat := 1 + maxRun b
def codePad (b : Bytes) : Bool :=
  b.head? == some 0x60 || b.getLast? == some 0x60 || (b.head? == some 0x20 && b.getLast? == some 0x20 && !b.all (· == 0x20))
def codeMid (b : Bytes) : Bytes := (if codePad b then [0x20] else []) ++ b ++ (if codePad b then [0x20] else [])

theorem serCode (pre eol : Bytes) (c : Choices) (b : Bytes) :
    serInl pre eol c (.code b) = (pbytes [.code (codeN b) (codeMid b)], c) := by
  rw [serInl]
  have := fold_maxRun b 0 0
  simp only [Nat.zero_add, Nat.zero_max] at this
  have hm : (b.foldl (fun (acc : Nat × Nat) ch => if ch == 0x60 then (acc.1 + 1, max acc.2 (acc.1 + 1)) else (0, acc.2)) (0, 0)).2 = maxRun b := by
    rw [this]
    have := countPrefix_le_maxRun b
    split <;> omega
  simp only [hm, pbytes, List.flatMap_cons, List.flatMap_nil, List.append_nil, SPiece.bytes, codeN, codeMid, codePad]
  simp [List.append_assoc]

def CodeOK (b : Bytes) : Prop := b ≠ [] ∧ ∀ ch ∈ b, ch ≠ 0 ∧ ch ≠ LF ∧ ch ≠ CR

theorem countPrefix_concat_SP (l : Bytes) : countPrefix 0x60 (l ++ [SP]) = countPrefix 0x60 l := by
  induction l with
  | nil => rfl
  | cons x r ih => simp only [List.cons_append, countPrefix, ih]

theorem maxRun_concat_SP (l : Bytes) : maxRun (l ++ [SP]) = maxRun l := by
  induction l with
  | nil => rfl
  | cons x r ih => simp only [List.cons_append, maxRun, ih, countPrefix_concat_SP]

theorem all_sp_of (b : Bytes) (x : UInt8) (hx : x ∈ b) (hne : x ≠ SP) : b.all (· == SP) = false := by
  rw [Bool.eq_false_iff]
  intro h
  rw [List.all_eq_true] at h
  exact hne (by simpa using h x hx)

/-- The facts about the padded content that `POK` and the renderer need. -/
theorem codeMid_facts (b : Bytes) (h : CodeOK b) :
    (∀ ch ∈ codeMid b, ch ≠ 0) ∧ maxRun (codeMid b) < codeN b ∧ (∃ y r', codeMid b = y :: r' ∧ y ≠ 0x60) ∧
    (codeMid b).getLast? ≠ some 0x60 ∧ (∀ z, (codeMid b).getLast? = some z → z ≠ LF ∧ z ≠ CR) ∧ stripMid (codeMid b) = b := by
  obtain ⟨hne, hb⟩ := h
  obtain ⟨y, r, rfl⟩ : ∃ y r, b = y :: r := by cases b with | nil => exact absurd rfl hne | cons y r => exact ⟨y, r, rfl⟩
  by_cases hp : codePad (y :: r) = true
  · have hmid : codeMid (y :: r) = SP :: ((y :: r) ++ [SP]) := by simp [codeMid, hp, SP]
    have hlast : (codeMid (y :: r)).getLast? = some SP := by
      rw [hmid, ← List.cons_append, List.getLast?_append]; simp
    have hall : isOnlySpaces (codeMid (y :: r)) = false := by
      have hx : ∃ x ∈ y :: r, x ≠ SP := by
        simp only [codePad, Bool.or_eq_true, Bool.and_eq_true, beq_iff_eq, Bool.not_eq_true'] at hp
        rcases hp with (hp | hp) | hp
        · simp only [List.head?_cons, Option.some.injEq] at hp
          exact ⟨y, by simp, by rw [hp]; decide⟩
        · have hm := List.mem_of_getLast? hp
          exact ⟨0x60, hm, by decide⟩
        · obtain ⟨_, hall⟩ := hp
          rw [Bool.eq_false_iff] at hall
          have : ¬ ∀ x ∈ y :: r, (x == 0x20) = true := fun hh => hall (List.all_eq_true.2 hh)
          rcases Classical.not_forall.1 this with ⟨x, hx⟩
          rcases Classical.not_imp.1 hx with ⟨hx1, hx2⟩
          exact ⟨x, hx1, by intro hh; apply hx2; rw [hh]; rfl⟩
      obtain ⟨x, hx, hxne⟩ := hx
      exact all_sp_of _ x (by rw [hmid]; simp at hx ⊢; rcases hx with h | h <;> simp [h]) hxne
    refine ⟨?_, ?_, ⟨SP, _, hmid, by decide⟩, by rw [hlast]; decide, ?_, ?_⟩
    · intro ch hch
      rw [hmid] at hch
      simp only [List.mem_cons, List.mem_append, List.mem_nil_iff, or_false] at hch
      rcases hch with rfl | (rfl | h) | rfl
      · decide
      · exact (hb _ (by simp)).1
      · exact (hb ch (by simp [h])).1
      · decide
    · rw [hmid, maxRun, if_neg (by decide), maxRun_concat_SP, codeN]; omega
    · intro z hz
      rw [hlast] at hz
      simp only [Option.some.injEq] at hz
      subst hz; exact ⟨by decide, by decide⟩
    · unfold stripMid
      rw [if_pos ⟨by rw [hmid]; rfl, hlast, by rw [hall]; decide⟩, hmid]
      simp only [List.drop_succ_cons, List.drop_zero]
      exact List.dropLast_concat
  · have hp' : codePad (y :: r) = false := by simpa using hp
    have hmid : codeMid (y :: r) = y :: r := by simp [codeMid, hp']
    simp only [codePad, Bool.or_eq_false_iff, Bool.and_eq_false_iff, beq_eq_false_iff_ne, ne_eq, Bool.not_eq_eq_eq_not,
      Bool.not_false] at hp'
    obtain ⟨⟨h1, h2⟩, h3⟩ := hp'
    rw [hmid]
    refine ⟨fun ch hch => (hb ch hch).1, by rw [codeN]; omega, ⟨y, r, rfl, by simpa using h1⟩, h2, ?_, ?_⟩
    · intro z hz
      have := List.mem_of_getLast? hz
      exact (hb z this).2
    · unfold stripMid
      rw [if_neg]
      rintro ⟨a1, a2, a3⟩
      rcases h3 with (h3 | h3) | h3
      · exact h3 a1
      · exact h3 a2
      · apply a3
        simpa [isOnlySpaces, SP] using h3

end CM.Proofs.InlSer
