import CM.Proofs.InlSpanScan
import CM.Proofs.InlExamples
/-
C02, inline half — non-vacuity of the span theorems: a concrete paragraph that meets all hypotheses (the scanner
hypotheses hold of it because its source has none of the bytes `<`, backtick, `(`, `[` at which the tokenizer calls the
scanners), on which the inline phase does real work (two emphasis nodes are built by `processEmphasis`, a `]` without
opener goes through `parseEndBracket`); and the axioms of the main theorems.
-/
namespace CM.Proofs.InlH.Examples
open CM CM.Model CM.Model.Inl CM.Proofs.InlH CM.Spec

/-- `*a* _b_ ]` -/
def src1S : Bytes := [0x2A, 0x61, 0x2A, 0x20, 0x5F, 0x62, 0x5F, 0x20, 0x5D]

/-- the inline children of the paragraph after the block phase: one run -/
def in1S : List Tree := [run 0 9]

/-- the paragraph -/
def t1S : Tree := .node { isBlock := true, kind := BK.paragraph, start := 0, stop := 9 } in1S

def m1 : Bytes → Bool := fun _ => false

/-- Emphasis, Text, Emphasis, Text, Text -/
example : okKinds (parseInlines x0 src1S src1S.toArray m1 0 9 in1S) = [(7, []), (1, []), (7, []), (1, []), (1, [])] := by
  decide +kernel

/-- no byte of the source is one of `<`, backtick, `(`, `[` -/
theorem src1_bytes : ∀ n, n < 9 → src1S.toArray[n]! ≠ 0x3C ∧ src1S.toArray[n]! ≠ 0x60 ∧ src1S.toArray[n]! ≠ 0x28 ∧
    src1S.toArray[n]! ≠ 0x5B := by decide

theorem src1_no (pos : Int) (h0 : 0 ≤ pos) (h1 : pos < ((inlCtx x0 src1S src1S.toArray m1 in1S).srcA.size : Int)) :
    (inlCtx x0 src1S src1S.toArray m1 in1S).srcA[pos.toNat]! ≠ 0x3C ∧
    (inlCtx x0 src1S src1S.toArray m1 in1S).srcA[pos.toNat]! ≠ 0x60 ∧
    (inlCtx x0 src1S src1S.toArray m1 in1S).srcA[pos.toNat]! ≠ 0x28 ∧
    (inlCtx x0 src1S src1S.toArray m1 in1S).srcA[pos.toNat]! ≠ 0x5B := by
  have hsz : (inlCtx x0 src1S src1S.toArray m1 in1S).srcA.size = 9 := by decide
  rw [hsz] at h1
  exact src1_bytes pos.toNat (by omega)

theorem tokScan1 : TokScan (inlCtx x0 src1S src1S.toArray m1 in1S) 9 :=
  TokScan.mk' _ _
    (fun u pos span r' h0 h1 hb => absurd hb (src1_no pos h0 h1).1)
    (fun s s' pos cs h0 h1 hb => absurd hb (src1_no pos h0 h1).2.1)

theorem linkScan1 : LinkScan (inlCtx x0 src1S src1S.toArray m1 in1S) 9 :=
  ⟨fun s s' start info h0 h1 hb => absurd hb (src1_no start h0 h1).2.2.1,
   fun u start label r' h0 h1 hb => absurd hb (src1_no start h0 h1).2.2.2⟩

theorem in1_WFL : WFL 0 9 in1S := by
  rw [in1S, WFL_cons, WFL_nil]
  exact ⟨by decide, WFT_leaf _ (by decide), by decide⟩

/-- `parseInlines_spans` applies: the four new inline children are in order inside `[0, 9]`. -/
example (kids : List Tree) (h : parseInlines x0 src1S src1S.toArray m1 0 9 in1S = .ok kids) : WFL 0 9 kids :=
  parseInlines_spans x0 src1S src1S.toArray m1 0 9 in1S (by decide) in1_WFL tokScan1 linkScan1 kids h

theorem t1_WFT : WFT t1S := by
  rw [t1S, WFT_iff]
  exact ⟨by decide, in1_WFL⟩

theorem t1_conts : ContsOK x0 src1S src1S.toArray m1 t1S := by
  intro u hu hb _
  have : T.nodes t1S = [t1S, run 0 9] := rfl
  rw [this] at hu
  simp only [List.mem_cons, List.mem_nil_iff, or_false] at hu
  rcases hu with rfl | rfl
  · exact ⟨by decide, tokScan1, linkScan1⟩
  · exact absurd hb (by decide)

/-- `rewriteE_spansOK_nodes` applies to the paragraph. -/
example (t' : Tree) (h : rewriteE x0 src1S src1S.toArray m1 t1S = .ok t') :
    ∀ u ∈ T.nodes t', spanValid 9 u = true ∧ childrenInside u = true ∧ siblingsOrdered u.children = true :=
  rewriteE_spansOK_nodes x0 src1S src1S.toArray m1 t1S t' 9 t1_WFT (by decide) (by decide) t1_conts h

example : isOk (rewriteE x0 src1S src1S.toArray m1 t1S) = true := by decide +kernel

/-! ### the scanner hypotheses cannot be dropped

`WFL cstart cstop unparsed` (runs in order inside the container) alone does not imply the conclusion of
`parseInlines_spans`: two witnesses on the model, evaluated by the kernel. -/

/-- spans of the top-level nodes -/
def okSpans (r : Except IErr (List Tree)) : List (Nat × Int × Int) :=
  match r with
  | .ok k => k.map (fun (t : Tree) => (t.label.kind, t.label.start, t.label.stop))
  | .error _ => [(999, 0, 0)]

/-- `[a](b)` -/
def srcW : Bytes := [0x5B, 0x61, 0x5D, 0x28, 0x62, 0x29]

/-- (1) The container is `[0, 5)` = `[a](b`; the byte behind it is `)`. The reader, at the end of the runs, goes on reading
    the source (`Rd.current` of a reader without nodes returns `src[pos]`), so the inline link is recognised and the
    Link node gets the span `[0, 6]`: it ends outside the container. -/
theorem witness_link_beyond_container :
    okSpans (parseInlines x0 srcW srcW.toArray (fun _ => false) 0 5 [run 0 5]) = [(IK.link, 0, 6)] := by decide +kernel

/-- two backticks, `a`, two backticks -/
def srcCS : Bytes := [0x60, 0x60, 0x61, 0x60, 0x60]

/-- (2) Two adjacent runs `[0, 4)`, `[4, 5)` without a line ending between them: the closing backtick run of the code
    span crosses from the first run into the second; the tokenizer stays in the first run, then parses the second run
    again: CodeSpan `[0, 5]` followed by Text `[4, 5]` — overlapping siblings. -/
theorem witness_codespan_across_runs :
    okSpans (parseInlines x0 srcCS srcCS.toArray (fun _ => false) 0 5 [run 0 4, run 4 5]) =
      [(IK.codeSpan, 0, 5), (IK.text, 4, 5)] := by decide +kernel

/-- the statement of `parseInlines_spans` without the scanner hypotheses -/
def parseInlines_spans_target : Prop :=
  ∀ (x : IExt) (src : Bytes) (srcA : Array UInt8) (matchRef : Bytes → Bool) (cstart cstop : Int) (unparsed kids : List Tree),
    0 ≤ cstart → WFL cstart cstop unparsed → parseInlines x src srcA matchRef cstart cstop unparsed = .ok kids →
    WFL cstart cstop kids

theorem parseInlines_spans_target_false : ¬ parseInlines_spans_target := by
  intro h
  have hw := witness_link_beyond_container
  cases hr : parseInlines x0 srcW srcW.toArray (fun _ => false) 0 5 [run 0 5] with
  | error e => rw [hr] at hw; simp [okSpans] at hw
  | ok kids =>
    rw [hr] at hw
    have hin : WFL 0 5 [run 0 5] := by
      rw [WFL_cons, WFL_nil]; exact ⟨by decide, WFT_leaf _ (by decide), by decide⟩
    have hk := h x0 srcW srcW.toArray (fun _ => false) 0 5 [run 0 5] kids (by decide) hin hr
    simp only [okSpans] at hw
    cases kids with
    | nil => simp at hw
    | cons t rest =>
      simp only [List.map_cons, List.cons.injEq, Prod.mk.injEq] at hw
      rw [WFL_cons] at hk
      have := hk.2.2.le
      rw [hw.1.2.2] at this
      omega

end CM.Proofs.InlH.Examples
