import CM.Proofs.LeafBlocksATX
/-
C06 (block piece, leaf blocks): the side condition of the ATX heading theorem is necessary and sufficient.
For content `c` without LF/CR/NUL, non-empty, not beginning or ending with a space or tab (`atxBaseOK`):
`parseATXHeading` returns exactly `c` as the content of `#…# c [ #…#]\n` iff `atxTailOK c k`.
-/
namespace CM.Proofs.Leaf
open CM CM.Model CM.Gen CM.Spec
open CM.Proofs CM.Proofs.BT

/-- The shape conditions of a canonical heading content. -/
def atxBaseOK (c : Bytes) : Bool :=
  plainLine c && !c.isEmpty && !isSpTab (c.headD 0) && !isSpTab (c.getLast?.getD 0)

/-- The condition proper: without a closing sequence the content must not look like one; with a closing sequence it must
    not end in an odd number of backslashes. -/
def atxTailOK (c : Bytes) (k : Nat) : Bool :=
  if k = 0 then
    (let r2 := dropRight (· == 0x23) c
     r2.length == c.length || (!r2.isEmpty && !isSpTab (r2.getLast?.getD 0)))
  else !isEndEscaped c

theorem atxContentOK_eq (c : Bytes) (k : Nat) : atxContentOK c k = (atxBaseOK c && atxTailOK c k) := rfl

/-- When the condition fails, `parseATXHeading` ends the content elsewhere. -/
theorem atxStopModel_atxLine_neg (n : Nat) (c : Bytes) (k : Nat) (hb : atxBaseOK c = true) (ht : atxTailOK c k = false) :
    atxStopModel (atxLine n c k) (n + 1) ≠ n + 1 + c.length := by
  simp only [atxBaseOK, Bool.and_eq_true, Bool.not_eq_true', List.isEmpty_eq_false_iff] at hb
  obtain ⟨⟨⟨h1, h2⟩, _⟩, h4⟩ := hb
  have hpre : (List.replicate n (0x23 : UInt8) ++ [SP]).length = n + 1 := by simp
  have hcl : ∀ x ∈ closingSeq k, isNL x = false := by
    intro x hx
    unfold closingSeq at hx
    split at hx
    · simp at hx
    · simp only [List.mem_cons, List.mem_replicate] at hx
      rcases hx with hx | ⟨_, hx⟩ <;> subst hx <;> decide
  have hcont : ∀ x ∈ c ++ closingSeq k, isNL x = false := by
    intro x hx
    rcases List.mem_append.1 hx with hx | hx
    · exact plain_not_NL h1 x hx
    · exact hcl x hx
  have key := atxStopModel_eq (List.replicate n (0x23 : UInt8) ++ [SP]) (c ++ closingSeq k) [LF] hcont (by
    intro x hx; simp at hx; subst hx; decide)
  rw [hpre] at key
  unfold atxLine
  rw [key]
  simp only []
  by_cases hk : k = 0
  · -- no closing sequence: the content ends in a run of `#` that is everything or follows a blank
    have hcs : closingSeq k = [] := by simp [closingSeq, hk]
    simp only [atxTailOK, hk, if_true, Bool.or_eq_false_iff, beq_eq_false_iff_ne, Bool.and_eq_false_iff,
      Bool.not_eq_false', List.isEmpty_iff] at ht
    obtain ⟨hne, hor⟩ := ht
    rw [hcs, List.append_nil, dropRight_spTab_content h4]
    simp only [Nat.lt_irrefl, false_and, if_false]
    have hlast : c.getLast? = some 0x23 := by
      cases hl : c.getLast? with
      | none => exact absurd (List.getLast?_eq_none_iff.1 hl) h2
      | some y =>
        by_cases hy : y = 0x23
        · rw [hy]
        · exfalso; apply hne
          rw [dropRight_id_of_getLast (· == 0x23) c (by intro z hz; rw [hl] at hz; simp at hz; subst hz; simpa using hy)]
    have hlt : (dropRight (· == 0x23) c).length < c.length := by
      have := dropRight_length_le (· == 0x23) c; omega
    have hlt3 := dropRight_length_le isSpTab (dropRight (· == 0x23) c)
    simp only [hlast, if_true]
    rcases hor with hor | hor
    · simp only [hor, List.isEmpty_nil, if_true]
      have : 0 < c.length := List.length_pos_iff.mpr h2
      omega
    · by_cases he : (dropRight (· == 0x23) c).isEmpty = true
      · simp only [he, if_true]
        have : 0 < c.length := List.length_pos_iff.mpr h2
        omega
      · simp only [he, Bool.false_eq_true, if_false, hor, if_true]
        -- the blank in front of the `#` run is dropped
        have hlt3' : (dropRight isSpTab (dropRight (· == 0x23) c)).length < (dropRight (· == 0x23) c).length := by
          obtain ⟨q, hq⟩ : ∃ q, dropRight (· == 0x23) c = q ++ [(dropRight (· == 0x23) c).getLast?.getD 0] := by
            cases hl : (dropRight (· == 0x23) c).getLast? with
            | none => rw [List.getLast?_eq_none_iff.1 hl] at he; simp at he
            | some y =>
              obtain ⟨q, hq⟩ := List.getLast?_eq_some_iff.1 hl
              exact ⟨q, by rw [hq]; simp⟩
          rw [hq, dropRight_snoc, hor]
          simp only [if_true, List.length_append, List.length_singleton]
          have := dropRight_length_le isSpTab q
          omega
        split <;> omega
  · -- a closing sequence: the content ends in an odd number of backslashes
    have hcs : closingSeq k = SP :: List.replicate k 0x23 := by simp [closingSeq, hk]
    simp only [atxTailOK, hk, if_false, Bool.not_eq_false'] at ht
    obtain ⟨m, rfl⟩ : ∃ m, k = m + 1 := ⟨k - 1, by omega⟩
    have hcontent : c ++ closingSeq (m + 1) = ((c ++ [SP]) ++ List.replicate m 0x23) ++ [0x23] := by
      rw [hcs, List.replicate_succ']; simp
    have hr1 : dropRight isSpTab (c ++ closingSeq (m + 1)) = c ++ closingSeq (m + 1) := by
      rw [hcontent, dropRight_snoc]; simp [isSpTab]
    have hr2 : dropRight (· == 0x23) (c ++ closingSeq (m + 1)) = c ++ [SP] := by
      rw [hcs, show c ++ SP :: List.replicate (m + 1) 0x23 = (c ++ [SP]) ++ List.replicate (m + 1) 0x23 by simp,
        dropRight_append, dropRight_all (· == 0x23) (List.replicate (m + 1) 0x23) (by
          intro x hx; simp only [List.mem_replicate] at hx; rw [hx.2]; rfl)]
      simp only [if_true, dropRight_snoc]
      simp [SP]
    have hr3 : dropRight isSpTab (c ++ [SP]) = c := by
      rw [dropRight_snoc]
      simp only [show isSpTab SP = true from rfl, if_true]
      exact dropRight_spTab_content h4
    rw [hr1, hr2, hr3]
    have hlast : (c ++ closingSeq (m + 1)).getLast? = some 0x23 := by
      rw [hcontent]; exact List.getLast?_concat
    have hesc : isEndEscaped ((List.replicate n (0x23 : UInt8) ++ [SP]) ++ c) = true := by
      rw [isEndEscaped_pre _ _ _ (by decide)]; exact ht
    simp only [Nat.lt_irrefl, false_and, if_false, hlast, if_true, hesc, and_true]
    simp [isSpTab, SP]

/-- **The side condition is necessary and sufficient**: for a well-shaped content `c`, `parseATXHeading` returns level `n`
    and exactly `c` as the content of the canonical heading line iff `atxTailOK c k`. -/
theorem parseATXHeading_atxLine_iff (n : Nat) (c : Bytes) (k : Nat) (hn1 : 1 ≤ n) (hn6 : n ≤ 6) (hb : atxBaseOK c = true) :
    parseATXHeading (atxLine n c k) = ⟨n, n + 1, n + 1 + c.length⟩ ↔ atxTailOK c k = true := by
  constructor
  · intro h
    cases ht : atxTailOK c k with
    | true => rfl
    | false =>
      exfalso
      have hneg := atxStopModel_atxLine_neg n c k hb ht
      simp only [atxBaseOK, Bool.and_eq_true, Bool.not_eq_true', List.isEmpty_eq_false_iff] at hb
      obtain ⟨⟨⟨_, h2⟩, h3⟩, _⟩ := hb
      have hcp : countPrefix 0x23 (atxLine n c k) = n := by
        unfold atxLine
        rw [List.append_assoc, List.append_assoc, countPrefix_replicate_append, countPrefix_of_head_ne]
        · rfl
        · simp [SP]
      rw [parseATXHeading_eq] at h
      simp only [hcp] at h
      have hlv : (n == 0 || decide (n > 6)) = false := by simp; omega
      simp only [hlv, Bool.false_eq_true, if_false, atxLine_getElem] at h
      have hskip : skipSpTab ((atxLine n c k).drop (n + 1)) = 0 := by
        rw [atxLine_drop]
        cases c with
        | nil => exact absurd rfl h2
        | cons b t =>
          have : (b == SP || b == TAB) = false := h3
          simp [skipSpTab, this]
      rw [hskip, Nat.add_zero] at h
      simp [SP, LF, CR, isSpTab] at h
      exact hneg h
  · intro ht
    exact parseATXHeading_atxLine n c k hn1 hn6 (by rw [atxContentOK_eq, hb, ht]; rfl)

end CM.Proofs.Leaf
