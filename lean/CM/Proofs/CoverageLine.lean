import CM.Proofs.CoverageStarts2
import CM.Proofs.BlocksLine
/-
C03, part B — `ruleMatch`, `descendLoop` (`descendOpenBlocks`), `tryStarts`, `openingLoop` transport `CI`.

Two levels of the paragraph predicate are used: `Q` (an open paragraph can be closed at the start of the line, *and*
turned into a setext heading closed at the end of the line) and `Q'` (it can be closed at the start of the line).
Only the setext start needs `Q`; it leaves the tree at level `Q'` and consumes the line, so no other start runs after it.
-/
namespace CM.Proofs.Cov
open CM CM.Model CM.Gen CM.Spec CM.Spec.T CM.Proofs.BT
open CM.Proofs.BSp (ParaPred QT isContainerKind)

/-! ### ruleMatch -/

/-- What `ruleMatch` guarantees besides `RMPost`. -/
structure RMC (Q : ParaPred) (S : Bytes) (L : Nat) (Z : Prop) (kind : Nat) (p p' : LP) : Prop where
  ci : CI Q S L Z p'
  ck : p'.containerKind = kind
  term : p'.state = 4 → (kind = BK.fencedCode ∨ kind = BK.htmlBlock) ∧ p'.i = p'.line.length
  lab : ∀ j, j ≤ p.depth → labelAt p'.root j = labelAt p.root j

theorem ruleMatch_C {Q : ParaPred} (x : PExt) (kind : Nat) (p : LP) (h : CI Q S L Z p) (hs : p.state = 3)
    (hk : p.containerKind = kind) (ok : Bool) (p' : LP) (hrm : ruleMatch x kind p = some (ok, p')) : RMC Q S L Z kind p p' := by
  have same : RMC Q S L Z kind p p := ⟨h, hk, fun h4 => by omega, fun _ _ => rfl⟩
  have ofci : ∀ n, n ≤ p.indent → RMC Q S L Z kind p (p.consumeIndentN n) := by
    intro n hn
    have c := consumeIndentN_post p n h.inv.cur hn
    exact ⟨h.ofCI c, by rw [c.ckind]; exact hk, fun h4 => by rw [c.st3 hs] at h4; omega, fun _ _ => by rw [tree_root c.tree]⟩
  unfold ruleMatch at hrm
  split at hrm
  · simp only [Option.some.injEq, Prod.mk.injEq] at hrm; obtain ⟨_, rfl⟩ := hrm; exact same
  split at hrm
  · split at hrm
    · split at hrm
      · simp only [Option.some.injEq, Prod.mk.injEq] at hrm; obtain ⟨_, rfl⟩ := hrm; exact same
      · simp only [Option.some.injEq, Prod.mk.injEq] at hrm; obtain ⟨_, rfl⟩ := hrm
        exact ofci _ (Nat.le_refl _)
    · split at hrm
      · rename_i ci hci
        split at hrm
        · rename_i hge
          simp only [Option.some.injEq, Prod.mk.injEq] at hrm; obtain ⟨_, rfl⟩ := hrm
          exact ofci _ (by omega)
        · simp only [Option.some.injEq, Prod.mk.injEq] at hrm; obtain ⟨_, rfl⟩ := hrm; exact same
      · simp only [Option.some.injEq, Prod.mk.injEq] at hrm; obtain ⟨_, rfl⟩ := hrm; exact same
  split at hrm
  · -- block quote
    simp only [] at hrm
    split at hrm
    · simp only [Option.some.injEq, Prod.mk.injEq] at hrm; obtain ⟨_, rfl⟩ := hrm; exact same
    split at hrm
    · simp only [Option.some.injEq, Prod.mk.injEq] at hrm; obtain ⟨_, rfl⟩ := hrm; exact same
    rename_i _ hpre
    have hpre' : hasBytePrefix p.bytesAfterIndent blockQuotePrefix = true := by
      cases hh : hasBytePrefix p.bytesAfterIndent blockQuotePrefix
      · rw [hh] at hpre; exact absurd rfl hpre
      · rfl
    have hlen := hasBytePrefix_length _ _ hpre'
    have hgt := hasBytePrefix_gt _ hpre'
    have hbq : blockQuotePrefix.length = 1 := rfl
    simp only [Option.some.injEq, Prod.mk.injEq] at hrm; obtain ⟨_, rfl⟩ := hrm
    obtain ⟨ci, hdrop, hil⟩ := consumeAll p h.inv
    generalize p.consumeIndentN p.indent = p1 at ci hdrop hil ⊢
    have c1 := h.ofCI ci
    have ad := advance_post p1 blockQuotePrefix.length c1.inv.cur (by rw [ci.line]; omega)
    have c3 := c1.ofAdv ad (by
      intro m h1 h2
      rw [hbq] at h2
      have : m = p1.i + 0 := by omega
      rw [this, getD_of_drop p1 _ 0 hdrop, hgt]
      exact gt_not_need)
    generalize p1.advance blockQuotePrefix.length = p3 at ad c3
    have s3 := ad.st3 (ci.st3 hs)
    have k3 : p3.containerKind = kind := by rw [ad.ckind, ci.ckind]; exact hk
    split
    · have c4 := consumeIndentN_post p3 1 c3.inv.cur (by omega)
      exact ⟨c3.ofCI c4, by rw [c4.ckind]; exact k3, fun h4 => by rw [c4.st3 s3] at h4; omega,
        fun _ _ => by rw [tree_root c4.tree, tree_root ad.tree, tree_root ci.tree]⟩
    · exact ⟨c3, k3, fun h4 => by omega, fun _ _ => by rw [tree_root ad.tree, tree_root ci.tree]⟩
  split at hrm
  · -- fenced code
    rename_i _ _ _ hfk
    have hfk' : kind = BK.fencedCode := by simpa using hfk
    simp only [] at hrm
    split at hrm
    · rename_i hclosing
      simp only [Option.some.injEq, Prod.mk.injEq] at hrm; obtain ⟨_, rfl⟩ := hrm
      simp only [Bool.and_eq_true, decide_eq_true_eq, Bool.not_eq_true'] at hclosing
      obtain ⟨_, ⟨⟨⟨hn, hninfo⟩, _⟩, _⟩⟩ := hclosing
      have hby := parseCodeFence_bytes p.bytesAfterIndent (by omega)
      have hall : ∀ c ∈ p.bytesAfterIndent, need c = false := by
        rcases hby.2.2 with hr | ⟨s, e, hs', he', _, hse, _, _, _⟩
        · intro c hc
          obtain ⟨k, hk1, hk2⟩ := List.getElem_of_mem hc
          have := hr.2.2 k hk1
          rw [List.getD_eq_getElem?_getD, List.getElem?_eq_getElem hk1] at this
          simpa [hk2] using this
        · exfalso
          rw [hs', he'] at hninfo
          simp only [Bool.and_eq_false_iff, decide_eq_false_iff_not] at hninfo
          omega
      have cl := consumeLine_post p h.inv.cur
      refine ⟨h.ofCL cl (rest_of_bai p hall), by rw [cl.ckind]; exact hk, fun _ => ⟨Or.inl hfk', cl.i.trans (by rw [cl.line])⟩,
        fun _ _ => by rw [tree_root cl.tree]⟩
    · simp only [Option.some.injEq, Prod.mk.injEq] at hrm; obtain ⟨_, rfl⟩ := hrm
      split
      · exact ofci _ (Nat.le_refl _)
      · exact ofci _ (by omega)
  split at hrm
  · simp only [] at hrm
    split at hrm
    · split at hrm
      · simp only [Option.some.injEq, Prod.mk.injEq] at hrm; obtain ⟨_, rfl⟩ := hrm; exact same
      · simp only [Option.some.injEq, Prod.mk.injEq] at hrm; obtain ⟨_, rfl⟩ := hrm
        exact ofci _ (Nat.le_refl _)
    · simp only [Option.some.injEq, Prod.mk.injEq] at hrm; obtain ⟨_, rfl⟩ := hrm
      exact ofci _ (by omega)
  split at hrm
  · -- HTML block
    rename_i _ _ _ _ _ hhk
    have hhk' : kind = BK.htmlBlock := by simpa using hhk
    split at hrm
    · split at hrm
      · simp only [Option.some.injEq, Prod.mk.injEq] at hrm; obtain ⟨_, rfl⟩ := hrm; exact same
      · simp only [Option.some.injEq, Prod.mk.injEq] at hrm; obtain ⟨_, rfl⟩ := hrm
        have hbnd : p.i + ciSkip p + p.bytesAfterIndent.length ≤ p.line.length := by
          rw [ciSkip_bai p h.inv.cur]; exact Nat.le_refl _
        have co := collectInline_post x p IK.rawHTML p.bytesAfterIndent.length h.inv (by omega) hbnd
        have c4 := collectInline_C x p IK.rawHTML p.bytesAfterIndent.length h (by omega) hbnd (by rw [hk, hhk']; rfl)
          (by rw [hk, hhk']; decide) (by decide)
        have hlab := collectInline_label x p IK.rawHTML p.bytesAfterIndent.length (by omega)
        generalize p.collectInline x IK.rawHTML p.bytesAfterIndent.length = p4 at co c4 hlab
        have cl := consumeLine_post p4 c4.inv.cur
        refine ⟨c4.ofCL cl (by
          intro m h1 h2
          rw [co.i, ciSkip_bai p h.inv.cur] at h1
          rw [co.line] at h2
          omega), by rw [cl.ckind, co.ckind]; exact hk, fun _ => ⟨Or.inr hhk', cl.i.trans (by rw [cl.line])⟩,
          fun j hj => by rw [tree_root cl.tree]; exact hlab j hj⟩
    · simp only [Option.some.injEq, Prod.mk.injEq] at hrm; obtain ⟨_, rfl⟩ := hrm; exact same
  split at hrm
  · simp only [Option.some.injEq, Prod.mk.injEq] at hrm; obtain ⟨_, rfl⟩ := hrm; exact same
  · cases hrm

/-! ### descendLoop -/

/-- The kinds whose `blockRule` has a `match` function. -/
def matchable (k : Nat) : Bool :=
  (k == BK.document || k == BK.list) || k == BK.listItem || k == BK.blockQuote || k == BK.fencedCode ||
    k == BK.indentedCode || k == BK.htmlBlock || k == BK.paragraph

theorem ruleMatch_isSome (x : PExt) (kind : Nat) (p : LP) : (ruleMatch x kind p).isSome = matchable kind := by
  unfold ruleMatch matchable
  split
  · rename_i h; simp [h]
  rename_i h1
  split
  · rename_i h; simp only [h, Bool.true_or, Bool.or_true]; repeat' (first | rfl | split)
  rename_i h2
  split
  · rename_i h; simp only [h, Bool.true_or, Bool.or_true]; repeat' (first | rfl | split)
  rename_i h3
  split
  · rename_i h; simp only [h, Bool.true_or, Bool.or_true]; repeat' (first | rfl | split)
  rename_i h4
  split
  · rename_i h; simp only [h, Bool.true_or, Bool.or_true]; repeat' (first | rfl | split)
  rename_i h5
  split
  · rename_i h; simp only [h, Bool.true_or, Bool.or_true]; repeat' (first | rfl | split)
  rename_i h6
  split
  · rename_i h; simp only [h, Bool.or_true]; rfl
  rename_i h7
  simp [h1, h2, h3, h4, h5, h6, h7]

/-- The document's last child, if open, is of a kind with a `match` function. -/
def TopOK (root : PB) : Prop := ∃ c, spineGet root 1 = some c ∧ (c.isOpen = true → matchable c.kind = true)

/-- What `descendLoop` guarantees: `CI`, and — when it stops because a block consumed the line and was closed — the
    cursor is at the end of the line, the document has a child, and its last child is closed or can be matched. -/
structure DC (Q : ParaPred) (S : Bytes) (L : Nat) (Z : Prop) (r : LP) : Prop where
  ci : CI Q S L Z r
  term : r.state = 4 → r.i = r.line.length ∧ r.root.blocks ≠ [] ∧ TopOK r.root

theorem spineModify_blocks_ne (f : PB → PB) (d : Nat) (root : PB) (h : (spineGet root (d + 1)).isSome) :
    (spineModify f root (d + 1)).blocks ≠ [] := by
  obtain ⟨l, bs, is⟩ := root
  rw [spineModify_succ]
  rw [spineGet_succ] at h
  cases hgl : bs.getLast? with
  | none => rw [hgl] at h; cases h
  | some c => simp [PB.blocks]

/-- The first child on the spine below `parent` is open and its kind has a `match` function (so the descent runs once
    more and resets the state). -/
def Runs (x : PExt) (p : LP) (parent : Nat) : Prop :=
  ∃ c, spineGet p.root (parent + 1) = some c ∧ c.isOpen = true ∧
    (ruleMatch x c.kind { ({ p with depth := parent + 1 } : LP) with state := stateDescending }).isSome = true

theorem descendLoop_C {Q : ParaPred} (x : PExt) : ∀ (fuel : Nat) (p : LP) (parent : Nat), CI Q S L Z { p with depth := parent } →
    (p.state ≠ 4 ∨ (0 < fuel ∧ Runs x p parent)) →
    (1 ≤ parent → ∃ l1, labelAt p.root 1 = some l1 ∧ matchable l1.kind = true) →
    DC Q S L Z (descendLoop x fuel p parent).2 := by
  intro fuel
  induction fuel with
  | zero =>
    intro p parent h hs _
    rcases hs with hs | hs
    · exact ⟨h, fun h4 => absurd h4 hs⟩
    · omega
  | succ fuel ih =>
    intro p parent h hs hinv1
    have keep : p.state ≠ 4 → DC Q S L Z ({ p with depth := parent } : LP) := fun hs => ⟨h, fun h4 => absurd h4 hs⟩
    unfold descendLoop
    split
    · rename_i hnone
      rcases hs with hs | ⟨_, c', hc', _, _⟩
      · exact keep hs
      · rw [hc'] at hnone; cases hnone
    rename_i c hc
    split
    · rename_i hno
      rcases hs with hs | ⟨_, c', hc', hco', _⟩
      · exact keep hs
      · rw [hc] at hc'; cases hc'
        rw [hco'] at hno; cases hno
    simp only []
    have h1 : CI Q S L Z { p with depth := parent + 1 } :=
      ⟨⟨h.inv.panic, ⟨h.inv.cur.hi, h.inv.cur.htab⟩, ⟨h.inv.tree.root, by show (spineGet p.root (parent + 1)).isSome; rw [hc]; rfl⟩⟩,
        h.src, h.ls, h.eol, h.wf, h.cov, h.seq, h.leq, h.cons⟩
    split
    · rename_i hnone
      rcases hs with hs | ⟨_, c', hc', _, hsome'⟩
      · exact keep hs
      · rw [hc] at hc'; cases hc'
        rw [hnone] at hsome'; cases hsome'
    · rename_i ok p2 hrm
      have hck : ({ ({ p with depth := parent + 1 } : LP) with state := stateDescending } : LP).containerKind = c.kind := by
        show PB.kind ((spineGet p.root (parent + 1)).getD p.root) = c.kind
        rw [hc]; rfl
      have rm := ruleMatch_post x c.kind _ (h1.inv.setState stateDescending) rfl ok p2 hrm
      have rc := ruleMatch_C x c.kind _ (h1.setState stateDescending (fun h => by cases h)) rfl hck ok p2 hrm
      have d2 : p2.depth = parent + 1 := rm.depth
      have hmc : matchable c.kind = true := by
        rw [← ruleMatch_isSome x c.kind { ({ p with depth := parent + 1 } : LP) with state := stateDescending }, hrm]; rfl
      -- the label at depth 1, for the next round
      have hinv1' : ∃ l1, labelAt p.root 1 = some l1 ∧ matchable l1.kind = true := by
        cases parent with
        | zero => exact ⟨c.label, BSp.labelAt_of_spineGet hc, hmc⟩
        | succ n => exact hinv1 (by omega)
      split
      · rename_i h4
        have h4' : p2.state = 4 := by simpa [stateDescendTerminated] using h4
        obtain ⟨hkk, hi2⟩ := rc.term h4'
        have hleaf : LeafKind p2.containerKind := by
          rw [rc.ck]
          rcases hkk with hkk | hkk <;> rw [hkk]
          · exact leafKind_fenced
          · exact leafKind_html
        have hd2 : p2.depth ≠ 0 := by omega
        have cc := closeContainer_post x p2 (↑p2.lineStart + ↑p2.i) rc.ci.inv.tree
        have c3 := closeContainer_leaf_C x p2 (↑p2.lineStart + ↑p2.i) rc.ci hd2 (by omega) hleaf
        have hs3 := BSp.closeContainer_src x p2 (↑p2.lineStart + ↑p2.i)
        have hg := container_get p2 rc.ci.inv.tree
        rw [d2] at hg
        have hcw := WF_spineGet _ _ _ rc.ci.wf hg
        have cle := closeLeaf_ok x p2.source (↑p2.lineStart + ↑p2.i) (by omega) p2.container hleaf hcw
        -- the closed container is one closed block
        obtain ⟨b1, hb1, hb1c⟩ : ∃ b1, closeBlock x p2.source (↑p2.lineStart + ↑p2.i) p2.container = [b1] ∧ b1.isOpen = false := by
          by_cases ho : p2.container.label.stop < 0
          · exact ⟨_, cle.2.2.2 ho, (BSp.isOpen_false_iff _).mpr (by
              show (0 : Int) ≤ (p2.lineStart : Int) + (p2.i : Int); omega)⟩
          · exact ⟨p2.container, BSp.closeBlock_closed _ _ _ _ (by omega), (BSp.isOpen_false_iff _).mpr (by omega)⟩
        have hrootE : (p2.closeContainer x (↑p2.lineStart + ↑p2.i)).root =
            spineModify (replaceLastFn (closeBlock x p2.source (↑p2.lineStart + ↑p2.i))) p2.root parent := by
          rw [BSp.closeContainer_eq x p2 _ hd2]
          show spineReplaceLast _ p2.root (p2.depth - 1) = _
          rw [spineReplaceLast_eq, d2, Nat.add_sub_cancel]
        refine ⟨c3.setDepth parent (by rw [cc.depth, d2]; omega), fun _ => ⟨?_, ?_, ?_⟩⟩
        · show (p2.closeContainer x _).i = (p2.closeContainer x _).line.length
          rw [hs3.2.2.2, hs3.2.2.1]; exact hi2
        · show (p2.closeContainer x _).root.blocks ≠ []
          rw [hrootE]
          cases parent with
          | zero =>
            rw [spineModify_zero]
            generalize hr : p2.root = r at hg
            obtain ⟨l, bs, is⟩ := r
            rw [spineGet_succ] at hg
            cases hgl : bs.getLast? with
            | none => rw [hgl] at hg; cases hg
            | some c0 =>
              rw [hgl] at hg
              have hg' : spineGet c0 0 = some p2.container := hg
              rw [spineGet_zero] at hg'
              cases hg'
              simp only [replaceLastFn, hgl, PB.blocks, hb1]
              simp
          | succ n =>
            apply spineModify_blocks_ne
            apply spineGet_isSome_of_le (n + 1 + 1) p2.root (n + 1) (by omega)
            rw [hg]; rfl
        · show TopOK (p2.closeContainer x _).root
          rw [hrootE]
          cases parent with
          | zero =>
            rw [spineModify_zero]
            generalize hr : p2.root = r at hg
            obtain ⟨l, bs, is⟩ := r
            rw [spineGet_succ] at hg
            cases hgl : bs.getLast? with
            | none => rw [hgl] at hg; cases hg
            | some c0 =>
              rw [hgl] at hg
              have hg' : spineGet c0 0 = some p2.container := hg
              rw [spineGet_zero] at hg'
              cases hg'
              refine ⟨b1, ?_, fun ho => by rw [hb1c] at ho; cases ho⟩
              simp only [replaceLastFn, hgl, hb1]
              rw [spineGet_succ]
              simp [spineGet_zero]
          | succ n =>
            obtain ⟨l1, hl1, hm1⟩ := hinv1'
            have e1 : labelAt (spineModify (replaceLastFn (closeBlock x p2.source (↑p2.lineStart + ↑p2.i))) p2.root (n + 1)) 1 =
                labelAt p2.root 1 := labelAt_modify_le _ (replaceLastFn_label _) (n + 1) p2.root 1 (by omega)
            have e2 : labelAt p2.root 1 = labelAt p.root 1 := rc.lab 1 (by show 1 ≤ n + 1 + 1; omega)
            rw [e2, hl1] at e1
            obtain ⟨c', hc', hcl⟩ := BSp.labelAt_eq_some e1
            exact ⟨c', hc', fun _ => by
              have : c'.kind = l1.kind := by rw [← hcl]; rfl
              rw [this]; exact hm1⟩
      · rename_i h4
        have hn4 : p2.state ≠ 4 := by simpa [stateDescendTerminated] using h4
        have h3 : p2.state = 3 := by rcases rm.st with h' | h' <;> omega
        split
        · exact ⟨rc.ci.setDepth parent (by omega), fun h4' => absurd h4' hn4⟩
        · have hp2 : ({ p2 with depth := parent + 1 } : LP) = p2 := by rw [← d2]
          have hr2 : p2.root = p.root := rm.root h3
          have := ih p2 (parent + 1) (by rw [hp2]; exact rc.ci) (Or.inl hn4) (fun _ => by rw [hr2]; exact hinv1')
          exact this

/-- "The line will not be mistaken for already consumed": the state left by the previous line is not
    `stateDescendTerminated`, or the descent runs at least once (and resets the state). -/
def Fresh (x : PExt) (p : LP) : Prop := p.state ≠ 4 ∨ Runs x p 0

theorem descendOpenBlocks_C {Q : ParaPred} (x : PExt) (p : LP) (h : CI Q S L Z p) (hf : Fresh x p) :
    DC Q S L Z (descendOpenBlocks x p).2 := by
  unfold descendOpenBlocks
  have h0 := h.setDepth 0 (Nat.zero_le _)
  rcases hf with hf | hf
  · exact descendLoop_C x _ p 0 h0 (Or.inl hf) (fun h => by omega)
  · exact descendLoop_C x _ p 0 h0 (Or.inr ⟨by omega, hf⟩) (fun h => by omega)

/-! ### tryStarts, openingLoop -/

/-- What a block start guarantees (it starts in state 0, so the "line consumed" clause of `CI` holds outright). -/
structure StartRes (Q Q' : ParaPred) (S : Bytes) (L : Nat) (q q' : LP) : Prop where
  sp : SPost q q'
  ci' : CI Q' S L False q'
  ci : q'.state ≠ 2 → CI Q S L False q'

theorem StartRes.of {Q Q' : ParaPred} {q q' : LP} (hq : ∀ l is, Q l is = true → Q' l is = true) (sp : SPost q q')
    (h : CI Q S L False q') : StartRes Q Q' S L q q' := ⟨sp, h.mono hq, fun _ => h⟩

theorem blockStartFns_C {Q Q' : ParaPred} {S : Bytes} {L : Nat} (x : PExt) (hq : ∀ l is, Q l is = true → Q' l is = true)
    (hP : ParaClose Q Q x S L) (len : Nat) (hS : SetextClose Q Q' x S ((L : Int) + (len : Int))) :
    ∀ f ∈ blockStartFns x, ∀ q, CI Q S L False q → q.state = 0 → q.line.length = len → StartRes Q Q' S L q (f q) := by
  intro f hf q h hs hl
  have hP' : ParaClose Q Q x q.source q.lineStart := by rw [h.seq, h.leq]; exact hP
  simp only [blockStartFns, List.mem_cons, List.mem_nil_iff, or_false] at hf
  rcases hf with rfl | rfl | rfl | rfl | rfl | rfl | rfl | rfl
  · exact StartRes.of hq (startBlockQuote_post x q h.inv hs) (startBlockQuote_C x q h hP' hs)
  · exact StartRes.of hq (startATX_post x q h.inv hs) (startATX_C x q h hP' hs)
  · exact StartRes.of hq (startFenced_post x q h.inv hs) (startFenced_C x q h hP' hs)
  · exact StartRes.of hq (startHTML_post x q h.inv hs) (startHTML_C x q h hP' hs)
  · have sp := startSetext_post x q h.inv hs
    have c := startSetext_C x q h hq (by rw [h.seq, h.leq, hl]; exact hS) hs
    refine ⟨sp, c, fun hn2 => ?_⟩
    -- if the line was not consumed, the setext start did nothing
    unfold startSetext at hn2 ⊢
    simp only [] at hn2 ⊢
    split
    · exact h
    split
    · exact h
    split
    · exact h
    · exfalso
      rename_i h1 h2 h3
      rw [if_neg h1, if_neg h2, if_neg h3] at hn2
      apply hn2
      have hck' : q.containerKind = BK.paragraph := by simpa using h1
      have hd : 0 < q.depth := by
        rcases Nat.eq_zero_or_pos q.depth with h0 | h0
        · rw [containerKind_zero q h0, h.inv.tree.root] at hck'; cases hck'
        · exact h0
      generalize (PB.setLabel fun l => { l with kind := BK.setextHeading, n := ↑(parseSetextHeadingUnderline q.bytesAfterIndent) }) = fn
      have i1 : Inv (q.modifyContainer fn) := h.inv.of_treeOp rfl rfl (modifyContainer_ok_pos q fn h.inv.tree hd)
      have e1s : (q.modifyContainer fn).state = q.state := rfl
      generalize q.modifyContainer fn = p1 at i1 e1s
      have cl := consumeLine_post p1 i1.cur
      generalize p1.consumeLine = p5 at cl
      have s5 := cl.st (by omega)
      have eb := endBlock_inv x p5 (cl.inv i1) (by omega)
      rw [eb.state, s5]; rfl
  · exact StartRes.of hq (startThematicBreak_post x q h.inv hs) (startThematicBreak_C x q h hP' hs)
  · exact StartRes.of hq (startListItem_post x q h.inv hs) (startListItem_C x q h hP' hs)
  · exact StartRes.of hq (startIndentedCode_post x q h.inv hs) (startIndentedCode_C x q h hP' hs)

/-- The result of `tryStarts`. -/
structure LoopRes (Q Q' : ParaPred) (S : Bytes) (L : Nat) (len : Nat) (r : LP) : Prop where
  ci' : CI Q' S L False r
  ci : r.state ≠ 2 → CI Q S L False r
  len : r.line.length = len
  st : r.state ≤ 2

theorem tryStarts_C {Q Q' : ParaPred} (hq : ∀ l is, Q l is = true → Q' l is = true) (len : Nat) : ∀ (fs : List (LP → LP)),
    (∀ f ∈ fs, ∀ q, CI Q S L False q → q.state = 0 → q.line.length = len → StartRes Q Q' S L q (f q)) →
    ∀ (Z : Prop) (p : LP), CI Q S L Z p → (fs = [] → CI Q S L False p ∧ p.state ≤ 2) → p.line.length = len →
      LoopRes Q Q' S L len (tryStarts fs p) := by
  intro fs
  induction fs with
  | nil => intro _ Z p _ h hl; exact ⟨(h rfl).1.mono hq, fun _ => (h rfl).1, hl, (h rfl).2⟩
  | cons f rest ih =>
    intro hf Z p h _ hl
    unfold tryStarts
    simp only []
    have sr := hf f (List.mem_cons_self ..) { p with state := stateOpening } (h.fresh _ (by decide)) rfl hl
    generalize f { p with state := stateOpening } = p' at sr
    have hl' : p'.line.length = len := by rw [sr.sp.line]; exact hl
    split
    · exact ⟨sr.ci', sr.ci, hl', sr.sp.st⟩
    · rename_i hne
      have s0 : p'.state = 0 := by
        have := sr.sp.st
        simp only [stateOpenMatched, stateLineConsumed, Bool.or_eq_true, beq_iff_eq, not_or] at hne
        omega
      exact ih (fun g hg => hf g (List.mem_cons_of_mem _ hg)) False p' (sr.ci (by omega)) (fun _ => ⟨sr.ci (by omega), by omega⟩) hl'

/-- The result of `openingLoop`. -/
structure OLC (Q Q' : ParaPred) (S : Bytes) (L : Nat) (Z : Prop) (len : Nat) (r : Bool × LP) : Prop where
  ci' : CI Q' S L Z r.2
  ci : r.2.state ≠ 2 → CI Q S L Z r.2
  len : r.2.line.length = len
  done : r.1 = false → r.2.i = r.2.line.length
  st4 : r.2.state = 4 → False

theorem OLC.weaken {Q Q' : ParaPred} {S : Bytes} {L : Nat} {Z : Prop} {len : Nat} {r : Bool × LP} (h : OLC Q Q' S L False len r) :
    OLC Q Q' S L Z len r := ⟨h.ci'.weaken, fun hs => (h.ci hs).weaken, h.len, h.done, h.st4⟩

theorem openingLoop_C {Q Q' : ParaPred} {S : Bytes} {L : Nat} (x : PExt) (hq : ∀ l is, Q l is = true → Q' l is = true)
    (hP : ParaClose Q Q x S L) (len : Nat) (hS : SetextClose Q Q' x S ((L : Int) + (len : Int))) :
    ∀ (fuel : Nat) (Z : Prop) (p : LP), CI Q S L Z p → p.line.length = len → p.state ≠ 4 →
      OLC Q Q' S L Z len (openingLoop x fuel p) := by
  intro fuel
  induction fuel with
  | zero => intro Z p h hl h4; exact ⟨h.mono hq, fun _ => h, hl, fun hf => (by cases hf), h4⟩
  | succ fuel ih =>
    intro Z p h hl h4
    unfold openingLoop
    split
    · exact ⟨h.mono hq, fun _ => h, hl, fun hf => (by cases hf), h4⟩
    · have ts := tryStarts_C hq len _ (blockStartFns_C x hq hP len hS) Z p h (fun e => by simp [blockStartFns] at e) hl
      simp only []
      generalize tryStarts (blockStartFns x) p = p' at ts
      split
      · rename_i h1
        have : p'.state = 1 := by simpa [stateOpenMatched] using h1
        exact (ih False p' (ts.ci (by omega)) ts.len (by omega)).weaken
      · split
        · rename_i h2
          have h2' : p'.state = 2 := by simpa [stateLineConsumed] using h2
          exact ⟨ts.ci'.weaken, fun hn => absurd h2' hn, ts.len, fun _ => (ts.ci'.cons h2').elim id False.elim,
            fun h4' => (by have : p'.state = 4 := h4'; omega)⟩
        · exact ⟨ts.ci'.weaken, fun hs => (ts.ci hs).weaken, ts.len, fun hf => (by cases hf),
            fun h4' => (by have : p'.state = 4 := h4'; have := ts.st; omega)⟩

end CM.Proofs.Cov
