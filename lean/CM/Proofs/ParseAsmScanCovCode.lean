import CM.Proofs.ParseAsmScanCovCS
import CM.Proofs.ParseScanCode5
/-
C03, inline half, the field `TokCover.code` — part 2: the pieces `collectCodeSpan` collects before `stripCodeSpanSpace`.
-/
namespace CM.Proofs.PSc
open CM CM.Model CM.Model.Inl CM.Gen CM.Spec CM.Proofs CM.Proofs.InlH
open Std.Do

set_option mvcgen.warning false

theorem isUnparsed_of {t : Tree} (hb : t.label.isBlock = false) (hk : t.label.kind = IK.unparsed) : isUnparsed t = true := by
  unfold isUnparsed Node.isI
  rw [hb, hk]; rfl

/-- between two consecutive inline children there is no byte of a run -/
theorem CsFacts.gapA {c : ICtx} {cs : CodeSpan} {u K : Nat} (hf : CsFacts c cs u K) {i : Nat} (hi : i + 1 < c.unparsed.size) :
    ∀ j, (c.unparsed[i]!).label.stop ≤ j → j < (c.unparsed[i + 1]!).label.start → ¬ InRun c j := by
  rintro j h1 h2 ⟨k, hk, _, _, k1, k2⟩
  obtain ⟨_, vi, _⟩ := hf.valid _ (hf.mem (i := i) (by omega))
  obtain ⟨_, vi1, _⟩ := hf.valid _ (hf.mem hi)
  rcases Nat.lt_trichotomy k i with h | h | h
  · have := hf.ordered h (by omega); omega
  · subst h; omega
  · rcases Nat.lt_or_ge (i + 1) k with h' | h'
    · have := hf.ordered h' hk; omega
    · have : k = i + 1 := by omega
      subst this; omega

/-- an inline child that is not a run, and the gap before it, contain no byte of a run -/
theorem CsFacts.gapB {c : ICtx} {cs : CodeSpan} {u K : Nat} (hf : CsFacts c cs u K) {i : Nat} (hi : i + 1 < c.unparsed.size)
    (hn : isUnparsed (c.unparsed[i + 1]!) = false) :
    ∀ j, (c.unparsed[i]!).label.stop ≤ j → j < (c.unparsed[i + 1]!).label.stop → ¬ InRun c j := by
  rintro j h1 h2 ⟨k, hk, kb, kk, k1, k2⟩
  obtain ⟨_, vi, _⟩ := hf.valid _ (hf.mem (i := i) (by omega))
  obtain ⟨_, vi1, _⟩ := hf.valid _ (hf.mem hi)
  rcases Nat.lt_trichotomy k i with h | h | h
  · have := hf.ordered h (by omega); omega
  · subst h; omega
  · rcases Nat.lt_or_ge (i + 1) k with h' | h'
    · have := hf.ordered h' hk; omega
    · have : k = i + 1 := by omega
      subst this
      rw [isUnparsed_of kb kk] at hn; cases hn

/-- the CodeSpan node `collectCodeSpan` allocates -/
def csNode (cs : CodeSpan) (kids : Array CSN) : INode :=
  { kind := IK.codeSpan, start := cs.span.start, stop := cs.span.stop, sub := kids.toList.map CSN.toTree }

theorem collectCodeSpan_C (c : ICtx) (cs : CodeSpan) (K : Nat) (t0 : IState) (hf : CsFacts c cs t0.unparsedPos K)
    (hstrip : ∀ (slice : Array CSN) (s0 : IState),
      ⦃fun s => ⌜s = s0 ∧ CsCovA c cs.content.start cs.content.stop slice⌝⦄ stripCodeSpanSpace c slice
      ⦃⇓? r s => ⌜s = s0 ∧ CsCovA c cs.content.start cs.content.stop r⌝⦄) :
    ⦃fun s => ⌜s = t0⌝⦄ collectCodeSpan c cs
    ⦃⇓? _ t' => ⌜∃ kids, CsCovA c cs.content.start cs.content.stop kids ∧ t'.nodes = addRootA t0.nodes (csNode cs kids)⌝⦄ := by
  have hadd : ∀ (acc : Array CSN) (a b : Int) (s0 : IState),
      ⦃fun s => ⌜s = s0 ∧ CsCovA c cs.content.start a acc⌝⦄ csAddSpan c acc a b
      ⦃⇓? r s => ⌜s = s0 ∧ CsCovA c cs.content.start b r⌝⦄ := fun acc a b s0 => csAddSpan_C c acc a b _ s0
  mvcgen [collectCodeSpan, hadd, hstrip, alloc, addToRoot, nodeLen, getNode, setParent, modifyNode, setUnparsedPos,
    -collectCodeSpan_spec, -collectCodeSpan_specS, -collectCodeSpan_specP, -collectCodeSpan_np, -collectCodeSpan_specT,
    -csAddSpan_spec, -stripCodeSpanSpace_spec, -addToRoot_spec, -addToRoot_specS, -collectCodeSpan_specW,
    -collectCodeSpan_specO, -addToRoot_specT, -addToRoot_specW, -addToRoot_specW', -addToRoot_specO,
    -unparsedFrom_np, -unparsedAt_np]
  case inv1 =>
    exact PostCond.mayThrow (fun p s => ⌜s = { t0 with unparsedPos := t0.unparsedPos + p.1.prefix.length } ∧
      CsCovA c cs.content.start (c.unparsed[t0.unparsedPos + p.1.prefix.length]!).label.stop p.2⌝)
  all_goals (try (exact fun h => h))
  all_goals (try (exact ExceptConds.entails.refl _))
  all_goals (
    have hs0 : _ = t0 := ‹_ = t0›
    have hc0 := hf.c0
    have hcle := hf.cle)
  -- negative content end
  · omega
  -- the code span ends in the child where it starts
  · exact ⟨trivial, CsCovA.empty c (Int.le_refl _)⟩
  · exact ⟨trivial, (‹_ = _ ∧ CsCovA c cs.content.start cs.content.stop _›).2⟩
  · exfalso
    have h2 := ‹(spanLenI _ _ == 0) = true›
    rw [get!_push_eq] at h2
    simp only [] at h2
    have := spanLen_zero h2 hf.sp.1
    have := hf.sp.2
    omega
  · split_ands
    subst_vars
    refine ⟨_, ‹CsCovA c cs.content.start cs.content.stop _›, ?_⟩
    unfold addRootA csNode; rfl
  -- the code span ends in a later child
  · exact ⟨trivial, CsCovA.empty c (Int.le_refl _)⟩
  -- the loop: a run
  · obtain ⟨hst, hchb⟩ := ‹_ = ({ t0 with unparsedPos := _ } : IState) ∧ _›
    obtain ⟨-, hg⟩ := ‹_ = _ ∧ c.unparsed[_]? = some _›
    simp +zetaDelta only [hst] at hg
    obtain ⟨g1, g2⟩ := hf.get hg
    rw [g2]
    exact ⟨trivial, hchb.skip (fun j h1 h2 hr _ => hf.gapA g1 j h1 h2 hr)⟩
  · obtain ⟨hst, hchb⟩ := ‹_ = ({ t0 with unparsedPos := _ } : IState) ∧ _›
    obtain ⟨e1, hch1⟩ := ‹_ = _ ∧ CsCovA c cs.content.start (Tree.label _).stop _›
    obtain ⟨e2, hg⟩ := ‹_ = _ ∧ c.unparsed[_]? = some _›
    simp +zetaDelta only [hst] at hg e2
    obtain ⟨g1, g2⟩ := hf.get hg
    refine ⟨?_, ?_⟩
    · rw [e1, e2]
      simp only [List.length_append, List.length_singleton, Nat.add_assoc]
    · rw [g2] at hch1
      simp only [List.length_append, List.length_singleton, ← Nat.add_assoc]
      exact hch1
  -- the loop: an Indent node
  · obtain ⟨hst, hchb⟩ := ‹_ = ({ t0 with unparsedPos := _ } : IState) ∧ _›
    obtain ⟨e2, hg⟩ := ‹_ = _ ∧ c.unparsed[_]? = some _›
    simp +zetaDelta only [hst] at hg e2
    obtain ⟨g1, g2⟩ := hf.get hg
    have hnu0 := ‹¬ isUnparsed _ = true›
    rw [g2] at hnu0
    have hnu := Bool.eq_false_iff.2 hnu0
    refine ⟨?_, ?_⟩
    · rw [e2]
      simp only [List.length_append, List.length_singleton, Nat.add_assoc]
    · simp only [List.length_append, List.length_singleton, ← Nat.add_assoc]
      exact hchb.skip (fun j h1 h2 hr _ => hf.gapB g1 hnu j h1 h2 hr)
  -- the loop starts
  · obtain ⟨e1, hch1⟩ := ‹_ = _ ∧ CsCovA c cs.content.start (Tree.label _).stop _›
    obtain ⟨e2, hg⟩ := ‹_ = _ ∧ c.unparsed[_]? = some _›
    split_ands
    subst_vars
    obtain ⟨g1, g2⟩ := hf.get hg
    refine ⟨rfl, ?_⟩
    rw [g2] at hch1
    exact hch1
  -- after the loop: the child where the code span ends
  · obtain ⟨hst, hchb⟩ := ‹_ = ({ t0 with unparsedPos := _ } : IState) ∧ _›
    obtain ⟨-, hg⟩ := ‹_ = _ ∧ c.unparsed[_]? = some _›
    simp +zetaDelta only [hst] at hg
    obtain ⟨g1, g2⟩ := hf.get hg
    rw [g2]
    exact ⟨trivial, hchb.skip (fun j h1 h2 hr _ => hf.gapA g1 j h1 h2 hr)⟩
  · exact ⟨trivial, (‹_ = _ ∧ CsCovA c cs.content.start cs.content.stop _›).2⟩
  · exfalso
    have h2 := ‹(spanLenI _ _ == 0) = true›
    rw [get!_push_eq] at h2
    simp only [] at h2
    have := spanLen_zero h2 hf.sp.1
    have := hf.sp.2
    omega
  · obtain ⟨hst, hchb⟩ := ‹_ = ({ t0 with unparsedPos := _ } : IState) ∧ _›
    split_ands
    refine ⟨_, ‹CsCovA c cs.content.start cs.content.stop _›, ?_⟩
    simp +zetaDelta only [*]
    unfold addRootA csNode
    rfl

end CM.Proofs.PSc
