import CM.Proofs.InlSpanExport
/-
C03, inline half ("nothing lost") — definitions: the bytes that have to be covered (`NeedAt`), coverage of a position by a
leaf of a forest (`CovTs`) and by a leaf below the root of the arena (`CovA`: a node reachable from the root that is
childless, or a leaf of a finished sub-tree of such a node), `Keep` (no needed byte loses its leaf), and the step from
the arena to the exported forest.
-/
namespace CM.Proofs.InlH
open CM CM.Model CM.Model.Inl CM.Spec

/-- a byte that has to be covered by a leaf: a letter, a digit or a non-ASCII byte of the source -/
def NeedAt (c : ICtx) (j : Int) : Prop := 0 ≤ j ∧ needsCover (c.srcA[j.toNat]!) = true

/-- no byte of `[lo, hi)` has to be covered -/
def NoNeed (c : ICtx) (lo hi : Int) : Prop := ∀ j, lo ≤ j → j < hi → ¬ NeedAt c j

theorem NoNeed.sub {c : ICtx} {lo hi lo' hi' : Int} (h : NoNeed c lo hi) (h1 : lo ≤ lo') (h2 : hi' ≤ hi) :
    NoNeed c lo' hi' := fun j a b => h j (by omega) (by omega)

theorem NoNeed.empty (c : ICtx) {lo hi : Int} (h : hi ≤ lo) : NoNeed c lo hi := fun j a b => by omega

/-- position `j` lies in a leaf (`Spec.isLeaf`) of the forest -/
def CovTs (ts : List Tree) (j : Int) : Prop :=
  ∃ l ∈ T.nodesL ts, isLeaf l = true ∧ l.label.start ≤ j ∧ j < l.label.stop

theorem CovTs_nil (j : Int) : ¬ CovTs [] j := by
  rintro ⟨l, hl, -⟩
  simp [T.nodesL] at hl

theorem CovTs.append_left {xs ys : List Tree} {j : Int} (h : CovTs xs j) : CovTs (xs ++ ys) j := by
  obtain ⟨l, hl, h1⟩ := h
  exact ⟨l, nodesL_append_iff.2 (Or.inl hl), h1⟩

theorem CovTs.append_right {xs ys : List Tree} {j : Int} (h : CovTs ys j) : CovTs (xs ++ ys) j := by
  obtain ⟨l, hl, h1⟩ := h
  exact ⟨l, nodesL_append_iff.2 (Or.inr hl), h1⟩

theorem CovTs.of_mem {ts : List Tree} {t : Tree} {j : Int} (ht : t ∈ ts) (h : CovTs [t] j) : CovTs ts j := by
  obtain ⟨l, hl, h1⟩ := h
  refine ⟨l, nodesL_of_mem ht ?_, h1⟩
  simpa [T.nodesL] using hl

/-- position `j` lies in the arena node itself (a leaf), or in a leaf of its finished sub-trees -/
def CovN (n : INode) (j : Int) : Prop :=
  (n.kids = #[] ∧ n.sub = [] ∧ n.start ≤ j ∧ j < n.stop) ∨ CovTs n.sub j

theorem CovN_default (j : Int) : ¬ CovN (default : INode) j := by
  rintro (⟨-, -, h1, h2⟩ | h)
  · have e1 : (default : INode).start = 0 := rfl
    have e2 : (default : INode).stop = 0 := rfl
    omega
  · exact CovTs_nil j h

/-- a path along `kids` -/
inductive Path (a : Array INode) : Nat → Nat → Prop
  | refl (p : Nat) : Path a p p
  | step {p k i : Nat} : k ∈ kidsLS a p → Path a k i → Path a p i

theorem Path.trans {a : Array INode} {p q i : Nat} (h1 : Path a p q) (h2 : Path a q i) : Path a p i := by
  induction h1 with
  | refl => exact h2
  | step hk _ ih => exact Path.step hk (ih h2)

theorem Path.snoc {a : Array INode} {p q k : Nat} (h1 : Path a p q) (hk : k ∈ kidsLS a q) : Path a p k :=
  h1.trans (Path.step hk (Path.refl k))

/-- every edge of `a` is a path of `a'` -/
theorem Path.lift {a a' : Array INode} (f : ∀ q k, k ∈ kidsLS a q → Path a' q k) {p i : Nat} (h : Path a p i) :
    Path a' p i := by
  induction h with
  | refl => exact Path.refl _
  | step hk _ ih => exact (f _ _ hk).trans ih

/-- every edge of `a` that does not lead to the childless node `r` is a path of `a'` -/
theorem Path.lift_except {a a' : Array INode} (r : Nat) (hr : kidsLS a r = [])
    (f : ∀ q k, k ∈ kidsLS a q → k ≠ r → Path a' q k) {p i : Nat} (h : Path a p i) (hi : i ≠ r) : Path a' p i := by
  induction h with
  | refl => exact Path.refl _
  | @step p k i hk hp ih =>
    by_cases hkr : k = r
    · subst hkr
      cases hp with
      | refl => exact absurd rfl hi
      | step hk' _ => rw [hr] at hk'; cases hk'
    · exact (f _ _ hk hkr).trans (ih hi)

theorem kidsLS_ge {a : Array INode} {i : Nat} (h : a.size ≤ i) : kidsLS a i = [] := by
  unfold kidsLS
  rw [getElem!_neg a i (by omega)]
  rfl

/-- position `j` lies in a leaf below the root of the arena -/
def CovA (a : Array INode) (j : Int) : Prop := ∃ i, i ≠ 0 ∧ Path a 0 i ∧ CovN (a[i]!) j

/-- no needed byte loses its leaf -/
def Keep (c : ICtx) (a a' : Array INode) : Prop := ∀ j, NeedAt c j → CovA a j → CovA a' j

theorem Keep.refl (c : ICtx) (a : Array INode) : Keep c a a := fun _ _ h => h

theorem Keep.trans {c : ICtx} {a a' a'' : Array INode} (h1 : Keep c a a') (h2 : Keep c a' a'') : Keep c a a'' :=
  fun j hn h => h2 j hn (h1 j hn h)

theorem Keep.of_eq {c : ICtx} {a a' : Array INode} (h : a' = a) : Keep c a a' := by rw [h]; exact Keep.refl c a

/-- The general form: paths from the root survive, and so does the coverage of needed bytes node by node. -/
theorem Keep.of {c : ICtx} {a a' : Array INode} (hp : ∀ i j, i ≠ 0 → Path a 0 i → CovN (a[i]!) j → Path a' 0 i)
    (hn : ∀ i j, i ≠ 0 → Path a 0 i → NeedAt c j → CovN (a[i]!) j → CovN (a'[i]!) j) : Keep c a a' := by
  rintro j hj ⟨i, h0, hpi, hc⟩
  exact ⟨i, h0, hp i j h0 hpi hc, hn i j h0 hpi hj hc⟩

/-! ### from the arena to the exported forest -/

theorem isLeaf_inline_nil (l : Label) (h : l.isBlock = false) : isLeaf (.node l []) = true := by
  unfold isLeaf T.isBlock
  simp only [Bool.or_eq_true, Bool.and_eq_true, Bool.not_eq_true', List.isEmpty_iff]
  exact Or.inl ⟨h, rfl⟩

/-- the label `exportNode` gives an arena node -/
def expLabel (n : INode) : Label :=
  { isBlock := false, kind := n.kind, start := n.start, stop := n.stop, indent := n.indent, ref := n.ref }

/-- What covers `j` below the arena node `id` covers it in the exported tree of `id`. -/
theorem export_cov {a : Array INode} {h : Nat → Nat} (hd : Dec a h) :
    ∀ (fuel id : Nat), id < a.size → h id < fuel → ∀ (i : Nat) (j : Int), Path a id i → CovN (a[i]!) j →
      CovTs [exportNode a fuel id] j := by
  intro fuel
  induction fuel with
  | zero => intro id _ hf; omega
  | succ fuel ih =>
    intro id hid hf i j hp hc
    have hget : a[id]? = some a[id] := Array.getElem?_eq_getElem hid
    have hg! : a[id]! = a[id] := getElem!_pos a id hid
    rw [exportNode, hget]
    simp only []
    cases hp with
    | refl =>
      rw [hg!] at hc
      rcases hc with ⟨hk, hs, h1, h2⟩ | hc
      · rw [hk, hs]
        refine ⟨.node (expLabel a[id]) [], by simp [T.nodesL, T.nodes, expLabel], isLeaf_inline_nil _ rfl, h1, h2⟩
      · obtain ⟨l, hl, h1⟩ := hc
        refine ⟨l, ?_, h1⟩
        simp only [T.nodesL, T.nodes, List.append_nil, List.mem_cons]
        exact Or.inr (nodesL_append_iff.2 (Or.inr hl))
    | @step _ k _ hk hp' =>
      have hk' : k ∈ a[id].kids := by
        unfold kidsLS at hk; rw [hg!] at hk; exact Array.mem_toList_iff.1 hk
      obtain ⟨hka, hkh⟩ := hd id hid k hk'
      obtain ⟨l, hl, h1⟩ := ih k hka (by omega) i j hp' hc
      refine ⟨l, ?_, h1⟩
      simp only [T.nodesL, T.nodes, List.append_nil, List.mem_cons] at hl ⊢
      refine Or.inr (nodesL_append_iff.2 (Or.inl ?_))
      exact nodesL_of_mem (List.mem_map.2 ⟨k, Array.mem_toList_iff.2 hk', rfl⟩) hl

/-- What the arena covers, the exported children of the root cover. -/
theorem export_root_cov {a : Array INode} (hac : Acyc a) (h0 : 0 < a.size) (j : Int)
    (hc : CovA a j) : CovTs (exportNode a (a.size + 1) 0).children j := by
  obtain ⟨h, hd, hb⟩ := hac
  obtain ⟨i, hi0, hp, hcn⟩ := hc
  have hget : a[0]? = some a[0] := Array.getElem?_eq_getElem h0
  have hg! : a[0]! = a[0] := getElem!_pos a 0 h0
  rw [exportNode, hget]
  simp only []
  cases hp with
  | refl => exact absurd rfl hi0
  | @step _ k _ hk hp' =>
    have hk' : k ∈ a[0].kids := by
      unfold kidsLS at hk; rw [hg!] at hk; exact Array.mem_toList_iff.1 hk
    obtain ⟨hka, hkh⟩ := hd 0 h0 k hk'
    have := export_cov hd a.size k hka (by have := hb 0 h0; omega) i j hp' hcn
    exact CovTs.append_left (CovTs.of_mem (List.mem_map.2 ⟨k, Array.mem_toList_iff.2 hk', rfl⟩) this)

end CM.Proofs.InlH
