import CM.Proofs.ParseAsmScanCovLabel
/-
C03, inline half — `blockphase_collect_cov` in the vocabulary of the inline-phase coverage fields (`InlH.CovTs`, `needsCover`
of `src.toArray`, positions in `Int`): the form the second disjunct of `InlH.CovP` asks for.
-/
namespace CM.Proofs.PSc
open CM CM.Model CM.Gen CM.Spec CM.Model.Inl
open CM.Proofs CM.Proofs.PW CM.Proofs.RK CM.Proofs.InlH CM.Proofs.PS CM.Proofs.PSh CM.Proofs.RDS CM.Proofs.RDC CM.Proofs.Cov

/-- the block phase's Boolean coverage implies the inline phase's -/
theorem CovTs_of_covTs {ts : List Tree} {j : Nat} (h : covTs ts j = true) : CovTs ts (j : Int) := by
  unfold covTs at h
  rw [List.any_eq_true] at h
  obtain ⟨t, ht, hc⟩ := h
  unfold covT at hc
  rw [List.any_eq_true] at hc
  obtain ⟨l, hl, hcov⟩ := hc
  unfold Spec.leaves at hl
  rw [List.mem_filter] at hl
  unfold covers T.start T.stop at hcov
  simp only [Bool.and_eq_true, decide_eq_true_eq] at hcov
  exact ⟨l, nodesL_of_mem ht hl.1, hl.2, hcov.1, hcov.2⟩

/-- **`blockphase_collect_cov`, as the inline-phase fields use it.** -/
theorem blockphase_collect_CovTs (x : PExt) (fuel : Nat) (inp : Bytes) :
    ∀ r ∈ (drain (blocksLP x) fuel (memParser inp) []).1, ∀ p ∈ conts (pbToTree r.block), p.1.kind ≠ BK.atxHeading →
      ∀ (ext : CM.Model.Ext) (u a b k : Nat) (esc : Bool) (f : Nat), rdFuel r.source (p.2.drop u) ≤ f →
        (esc = true → StopOK r.source (p.2.drop u) b) → (a < b → InNode (p.2.drop u) a) →
        ∀ j : Int, (a : Int) ≤ j → j < (b : Int) →
          (∃ t ∈ p.2.drop u, t.label.start ≤ j ∧ j < t.label.stop) →
          needsCover (r.source.toArray[j.toNat]!) = true →
          CovTs (collectTextNodes ext r.source b k esc f (newReader (p.2.drop u) a) a []) j := by
  intro r hr p hp hk ext u a b k esc f hf hstop hin j h1 h2 ⟨t, ht, t1, t2⟩ hn
  have hF := blockphase_contF x fuel inp r hr p hp
  have hfin := blockphase_collect_cov x fuel inp r hr p hp hk ext u a b k esc f hf hstop hin
  have hj : ((j.toNat : Nat) : Int) = j := by omega
  have hlt : j.toNat < r.source.length := by
    have := (hF.kids t (List.mem_of_mem_drop ht)).2.2.2
    have := hF.span.2.2
    omega
  have hleaf : ∀ t ∈ p.2.drop u, t.children = [] ∧ t.label.isBlock = false := fun t ht =>
    ⟨(hF.leaf t (List.mem_of_mem_drop ht)).1, isBlock_of_kind (hF.leaf t (List.mem_of_mem_drop ht)).2⟩
  have hcov : covTs (p.2.drop u) j.toNat = true :=
    (covTs_leaves hleaf j.toNat).2 ⟨t, ht, by omega, by omega⟩
  have hneed : need (r.source.getD j.toNat 0) = true := by
    rw [srcA_get r.source _ hlt] at hn
    unfold need
    rw [hn]; rfl
  have := CovTs_of_covTs (hfin.2 j.toNat (by omega) (by omega) hcov hneed)
  rw [hj] at this
  exact this

end CM.Proofs.PSc

#print axioms CM.Proofs.PSc.blockphase_collect_CovTs
