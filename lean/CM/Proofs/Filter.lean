import CM.Model.Filter
/-
filterRaw only ever replaces a `<` by `&lt;`.
-/
namespace CM.Proofs
open CM CM.Model

/-- `OnlyLt raw out`: `out` is `raw` with some `<` replaced by `&lt;` and nothing else changed. -/
inductive OnlyLt : Bytes → Bytes → Prop
  | nil : OnlyLt [] []
  | same (c : UInt8) {a b : Bytes} : OnlyLt a b → OnlyLt (c :: a) (c :: b)
  | esc {a b : Bytes} : OnlyLt a b → OnlyLt (0x3C :: a) (0x26 :: 0x6C :: 0x74 :: 0x3B :: b)

theorem filterLoop_onlyLt (f : Bytes → Bool) (raw : Bytes) (st : FState) (k : Nat) :
    OnlyLt raw (filterLoop f raw st k) := by
  fun_induction filterLoop f raw st k
  case case7 c rest hc here h1 h2 tagLen nameLen escaped ih =>
    have hc' : c = 0x3C := by simpa using hc
    subst hc'
    split
    · exact OnlyLt.esc ih
    · exact OnlyLt.same _ ih
  all_goals first
    | exact OnlyLt.nil
    | (apply OnlyLt.same; assumption)

theorem filterLoop_id (f : Bytes → Bool) (hf : ∀ n, f n = false) (raw : Bytes) (st : FState) (k : Nat) :
    filterLoop f raw st k = raw := by
  fun_induction filterLoop f raw st k <;> try simp_all
  rename_i escaped _ _ _ _
  have : escaped = false := hf _
  simp_all

end CM.Proofs
