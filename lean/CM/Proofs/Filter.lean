import CM.Model.Filter
/-
filterRaw only ever replaces a `<` by `&lt;`.
-/
namespace CM.Proofs
open CM CM.Model

/-- `OnlyLt raw out`: `out` is `raw` with some `<` replaced by `&lt;` and nothing else changed. -/
inductive OnlyLt : Bytes → Bytes → Prop
  | nil : OnlyLt [] []
  | same (c : UInt8) {a b : Bytes} : OnlyLt a b → OnlyLt (c :: a) (c :: b)
  | esc {a b : Bytes} : OnlyLt a b → OnlyLt (0x3C :: a) (0x26 :: 0x6C :: 0x74 :: 0x3B :: b)

theorem filterLoop_onlyLt (f : Bytes → Bool) (raw : Bytes) : OnlyLt raw (filterLoop f raw) := by
  induction raw with
  | nil => exact OnlyLt.nil
  | cons c rest ih =>
    unfold filterLoop
    by_cases hc : c == 0x3C
    · have hc' : c = 0x3C := by simpa using hc
      subst hc'
      simp only [beq_self_eq_true, if_true]
      split
      · exact OnlyLt.esc ih
      · exact OnlyLt.same _ ih
    · simp only [hc]
      exact OnlyLt.same _ ih

theorem filterLoop_id (f : Bytes → Bool) (hf : ∀ n, f n = false) (raw : Bytes) : filterLoop f raw = raw := by
  induction raw with
  | nil => rfl
  | cons c rest ih =>
    unfold filterLoop
    by_cases hc : c == 0x3C
    · have hc' : c = 0x3C := by simpa using hc
      subst hc'
      simp [hf, ih]
    · simp [hc, ih]

/-- The filter is a homomorphism for concatenation *except* for a tag name that straddles the seam: when the
    left part does not end inside a name candidate it distributes. (Used to lift per-node facts to the output.) -/
theorem filterLoop_append_of_noLt (f : Bytes → Bool) (a b : Bytes) (ha : ∀ c ∈ a, c ≠ 0x3C) :
    filterLoop f (a ++ b) = a ++ filterLoop f b := by
  induction a with
  | nil => rfl
  | cons c rest ih =>
    have hc : (c == 0x3C) = false := by
      have := ha c (by simp)
      simpa using this
    have := ih (fun x hx => ha x (by simp [hx]))
    simp [filterLoop, hc, this]

end CM.Proofs
