import CM.Proofs.StreamLines
/-
C01: the contract between the stream machine (`nextBlock` / `makeRoot`) and its line parser.

The stream machine looks at a line parser only through `L.kids` (the document's children: is the first one closed,
where does it stop) and `L.panicked`. The contract says what these must look like after every `L.line` call of a
session, and that `L.new` applied to re-based left-over blocks continues the session.
-/
namespace CM.Model
open CM CM.Gen CM.Spec

/-- `Span().End` of a closed block, as `makeRoot` uses it. -/
def stopOf (k : PB) : Nat := k.label.stop.toNat

/-- A buffer as the block parser holds it: the NUL padding of some input. -/
def Padded (b : Bytes) : Prop := ∃ y, b = padNulls y 0

/-- The children of the document, as `makeRoot` will consume them one after the other, are acceptable for the source
    `src` (the buffer up to the parse position) when, with `lo` the end of the previous child:

    * every child but the last is closed, and a closed child stops strictly after `lo` and within `src`,
      at a position that splits neither a padded NUL nor a CRLF (`GoodCut`);
    * an open child is the last one;
    * if all children are closed, whatever follows the last one in `src` is blank (spaces, tabs, line endings). -/
def kidsOK (src : Bytes) : Nat → List PB → Bool
  | lo, [] => isBlankLine (src.drop lo)
  | lo, k :: rest =>
    if k.isOpen then rest.isEmpty
    else decide (lo < stopOf k) && decide (stopOf k ≤ src.length) && decide (GoodCut src (stopOf k))
      && kidsOK src (stopOf k) rest

/-- What the machine must see after `L.line σ src lineStart`: at least one child (the line was not blank, or a block
    was pending), the children acceptable, and — when the line is empty, which is how the end of input is
    signalled — no child left open. -/
def stepOK (src : Bytes) (lineStart : Nat) (kids : List PB) : Bool :=
  !kids.isEmpty && kidsOK src 0 kids && (lineStart != src.length || kids.all (fun k => !k.isOpen))

/-- `makeRoot` returns nil on these children and the machine reads another line. -/
def headOpen : List PB → Bool
  | k :: _ => k.isOpen
  | [] => false

/-- The per-step Boolean check of the contract on a line-parser state. -/
def checkLPContractStep (L : LineParserI) (σ : L.σ) (src : Bytes) (lineStart : Nat) : Bool :=
  (L.panicked σ).isNone && stepOK src lineStart (L.kids σ)

/-- **The contract.** `Ok σ src ls`: `σ` is the state after an `L.line` call with source `src` and line start `ls`
    in a session of the stream machine. `Pend bs src`: `bs` (non-empty) are left-over blocks, re-based to the
    buffer whose consumed part is `src`.
    The sessions are closed under what the machine does (`fresh`, `next`, `resume`, `cut`, `cut'`), and every
    state of a session passes the Boolean per-step check (`obs`, `obsP`). The lines fed are exactly what `readline`
    produces: complete lines of a padded buffer (or the empty line at the end of input), never starting in the
    middle of a CRLF. -/
structure LPContract (L : LineParserI) where
  Ok : L.σ → Bytes → Nat → Prop
  Pend : List PB → Bytes → Prop
  /-- a new session starts with a non-blank line -/
  fresh : ∀ ln, Padded ln → IsLine ln → isBlankLine ln = false → Ok (L.line (L.new []) ln 0) ln 0
  /-- the first child is still open: the next line (or the end of input) is fed -/
  next : ∀ σ src ls ln, Ok σ src ls → headOpen (L.kids σ) = true → Padded ln → (ln = [] ∨ IsLine ln) →
    ¬ CRLFSplit src ln → Ok (L.line σ (src ++ ln) src.length) (src ++ ln) src.length
  /-- a later `NextBlock` call finds an open left-over block: `L.new` of it continues like the old session -/
  resume : ∀ bs src ln, Pend bs src → headOpen bs = true → Padded ln → (ln = [] ∨ IsLine ln) →
    ¬ CRLFSplit src ln → Ok (L.line (L.new bs) (src ++ ln) src.length) (src ++ ln) src.length
  /-- `makeRoot` cuts the closed first child off and re-bases its siblings -/
  cut : ∀ σ src ls k k' rest, Ok σ src ls → L.kids σ = k :: k' :: rest → k.isOpen = false →
    Pend (offsetPBs (-(stopOf k : Int)) (k' :: rest)) (src.drop (stopOf k))
  /-- the same on left-over blocks -/
  cut' : ∀ src k k' rest, Pend (k :: k' :: rest) src → k.isOpen = false →
    Pend (offsetPBs (-(stopOf k : Int)) (k' :: rest)) (src.drop (stopOf k))
  /-- what the machine observes after a line -/
  obs : ∀ σ src ls, Ok σ src ls → checkLPContractStep L σ src ls = true
  /-- what the machine observes on left-over blocks -/
  obsP : ∀ bs src, Pend bs src → kidsOK src 0 bs = true

/-! ### The least sessions: the contract is as weak as possible

`Reach`/`RPend` are the states the machine can actually produce. A contract exists iff all of them pass the check. -/

mutual
inductive Reach (L : LineParserI) : L.σ → Bytes → Nat → Prop
  | fresh (ln) : Padded ln → IsLine ln → isBlankLine ln = false → Reach L (L.line (L.new []) ln 0) ln 0
  | next (σ src ls ln) : Reach L σ src ls → headOpen (L.kids σ) = true → Padded ln → (ln = [] ∨ IsLine ln) →
      ¬ CRLFSplit src ln → Reach L (L.line σ (src ++ ln) src.length) (src ++ ln) src.length
  | resume (bs src ln) : RPend L bs src → headOpen bs = true → Padded ln → (ln = [] ∨ IsLine ln) →
      ¬ CRLFSplit src ln → Reach L (L.line (L.new bs) (src ++ ln) src.length) (src ++ ln) src.length
inductive RPend (L : LineParserI) : List PB → Bytes → Prop
  | cut (σ src ls k k' rest) : Reach L σ src ls → L.kids σ = k :: k' :: rest → k.isOpen = false →
      RPend L (offsetPBs (-(stopOf k : Int)) (k' :: rest)) (src.drop (stopOf k))
  | cut' (src k k' rest) : RPend L (k :: k' :: rest) src → k.isOpen = false →
      RPend L (offsetPBs (-(stopOf k : Int)) (k' :: rest)) (src.drop (stopOf k))
end

/-- If every reachable state passes the per-step check, the contract holds … -/
def LPContract.ofReach (L : LineParserI)
    (h1 : ∀ σ src ls, Reach L σ src ls → checkLPContractStep L σ src ls = true)
    (h2 : ∀ bs src, RPend L bs src → kidsOK src 0 bs = true) : LPContract L where
  Ok := Reach L
  Pend := RPend L
  fresh := Reach.fresh
  next := Reach.next
  resume := Reach.resume
  cut := RPend.cut
  cut' := RPend.cut'
  obs := h1
  obsP := h2

/-- … and conversely every contract covers the reachable states. -/
theorem LPContract.reach {L : LineParserI} (C : LPContract L) :
    (∀ σ src ls, Reach L σ src ls → C.Ok σ src ls) ∧ (∀ bs src, RPend L bs src → C.Pend bs src) := by
  constructor
  · intro σ src ls h
    exact Reach.rec (motive_1 := fun σ src ls _ => C.Ok σ src ls) (motive_2 := fun bs src _ => C.Pend bs src)
      (fun ln a b c => C.fresh ln a b c)
      (fun σ src ls ln _ a b c d ih => C.next σ src ls ln ih a b c d)
      (fun bs src ln _ a b c d ih => C.resume bs src ln ih a b c d)
      (fun σ src ls k k' rest _ a b ih => C.cut σ src ls k k' rest ih a b)
      (fun src k k' rest _ a ih => C.cut' src k k' rest ih a) h
  · intro bs src h
    exact RPend.rec (motive_1 := fun σ src ls _ => C.Ok σ src ls) (motive_2 := fun bs src _ => C.Pend bs src)
      (fun ln a b c => C.fresh ln a b c)
      (fun σ src ls ln _ a b c d ih => C.next σ src ls ln ih a b c d)
      (fun bs src ln _ a b c d ih => C.resume bs src ln ih a b c d)
      (fun σ src ls k k' rest _ a b ih => C.cut σ src ls k k' rest ih a b)
      (fun src k k' rest _ a ih => C.cut' src k k' rest ih a) h

theorem LPContract.reach_check {L : LineParserI} (C : LPContract L) {σ src ls} (h : Reach L σ src ls) :
    checkLPContractStep L σ src ls = true := C.obs _ _ _ (C.reach.1 _ _ _ h)

/-! ### Reading the Boolean checks -/

theorem kidsOK_nil {src : Bytes} {lo : Nat} : kidsOK src lo [] = isBlankLine (src.drop lo) := rfl

theorem kidsOK_cons_open {src : Bytes} {lo : Nat} {k : PB} {rest : List PB} (hk : k.isOpen = true)
    (h : kidsOK src lo (k :: rest) = true) : rest = [] := by
  simpa [kidsOK, hk] using h

theorem kidsOK_cons_closed {src : Bytes} {lo : Nat} {k : PB} {rest : List PB} (hk : k.isOpen = false)
    (h : kidsOK src lo (k :: rest) = true) :
    lo < stopOf k ∧ stopOf k ≤ src.length ∧ GoodCut src (stopOf k) ∧ kidsOK src (stopOf k) rest = true := by
  simpa [kidsOK, hk, and_assoc] using h

theorem checkStep_elim {L : LineParserI} {σ : L.σ} {src : Bytes} {ls : Nat}
    (h : checkLPContractStep L σ src ls = true) :
    L.panicked σ = none ∧ L.kids σ ≠ [] ∧ kidsOK src 0 (L.kids σ) = true ∧
      (ls = src.length → ∀ k ∈ L.kids σ, k.isOpen = false) := by
  simp only [checkLPContractStep, stepOK, Bool.and_eq_true, Option.isNone_iff_eq_none, Bool.not_eq_true',
    List.isEmpty_eq_false_iff, Bool.or_eq_true, bne_iff_ne, List.all_eq_true] at h
  obtain ⟨h1, ⟨h2, h3⟩, h4⟩ := h
  refine ⟨h1, h2, h3, ?_⟩
  intro e k hk
  rcases h4 with h4 | h4
  · exact absurd e h4
  · exact h4 k hk

end CM.Model
