import CM.Proofs.EolMap
import CM.Proofs.EolRecognize
import CM.Proofs.BlocksCursor
/-
C14 (a), block level — the line parser state and its cursor.

`mapLP e X p`: the state of the line parser on the re-written input that corresponds to `p` (`X` is the whole buffer
of the current `NextBlock` call; the source of `p` is a prefix of it): re-written source and line, every position of the
tree mapped through `eolPosZ e X`, the cursor `i` mapped through the position map of the line, the column advanced by
the extra bytes of the line ending once the cursor is past it.

`LineOK X body nl p`: the static facts about the current line (`line = source.drop lineStart = body ++ nl`, `body` without
CR/LF, `nl` empty or `[LF]`) and `i ≤ |line|`.

This file: the cursor primitives of Lines.lean commute with `mapLP` —
`updateTabRemaining`, `markMatched`, `setPanic`, `indent`, `bytesAfterIndent`, `isRestBlank`, `advance`, `consumeLine`,
`consumeIndent`.
-/
namespace CM.Proofs
open CM CM.Model CM.Gen CM.Proofs.BT

/-- The line-parser state on the re-written input. -/
def mapLP (e X : Bytes) (p : LP) : LP :=
  { source := toEol e p.source
    root := mapPB (eolPosZ e X) p.root
    depth := p.depth
    lineStart := eolPos e X p.lineStart
    line := toEol e p.line
    i := eolPos e p.line p.i
    col := p.col + (eolPos e p.line p.i - p.i)
    tabRem := p.tabRem
    tabPartial := p.tabPartial
    state := p.state
    panic := p.panic }

/-- Static facts about the current line, and the cursor bound. -/
structure LineOK (X body nl : Bytes) (p : LP) : Prop where
  noCR : NoCR X
  pre : p.source <+: X
  ls : p.lineStart ≤ p.source.length
  line : p.line = p.source.drop p.lineStart
  shape : p.line = body ++ nl
  body : ∀ c ∈ body, isNL c = false
  nl : nl = [] ∨ nl = [LF]
  hi : p.i ≤ p.line.length

/-- The operations of the line parser never change the source, the line or its start. -/
theorem LineOK.frame {X body nl : Bytes} {p q : LP} (h : LineOK X body nl p) (hs : q.source = p.source)
    (hl : q.line = p.line) (hls : q.lineStart = p.lineStart) (hi : q.i ≤ q.line.length) : LineOK X body nl q :=
  ⟨h.noCR, by rw [hs]; exact h.pre, by rw [hs, hls]; exact h.ls, by rw [hs, hl, hls]; exact h.line,
    by rw [hl]; exact h.shape, h.body, h.nl, hi⟩

/-! ### The shape of the line -/

theorem noLF_of_noNL {b : Bytes} (h : ∀ c ∈ b, isNL c = false) : ∀ c ∈ b, c ≠ LF := by
  intro c hc e
  have := h c hc
  subst e
  exact absurd this (by decide)

theorem toEol_body_nl (e : Bytes) {body nl : Bytes} (hb : ∀ c ∈ body, isNL c = false) :
    toEol e (body ++ nl) = body ++ toEol e nl := by
  rw [toEol_append, toEol_of_noLF e (noLF_of_noNL hb)]

theorem eolBytes_toEol_nl {e : Bytes} (he : StdEol e) {nl : Bytes} (hnl : nl = [] ∨ nl = [LF]) : EolBytes (toEol e nl) := by
  rcases hnl with h | h <;> subst h
  · exact eolBytes_nil
  · have : toEol e [LF] = e := by simp [toEol]
    rw [this]
    rcases he with h | h | h <;> subst h
    · exact eolBytes_LF
    · exact eolBytes_CR
    · exact eolBytes_CRLF

theorem eolBytes_nl {nl : Bytes} (hnl : nl = [] ∨ nl = [LF]) : EolBytes nl := by
  rcases hnl with h | h <;> subst h
  · exact eolBytes_nil
  · exact eolBytes_LF

section
variable {e X body nl : Bytes} {p : LP}

/-- Positions up to the end of the body are not moved. -/
theorem LineOK.pos_body (h : LineOK X body nl p) {j : Nat} (hj : j ≤ body.length) : eolPos e p.line j = j := by
  apply eolPos_of_noLF
  intro c hc
  rw [h.shape, List.take_append_of_le_length hj] at hc
  exact noLF_of_noNL h.body c (List.mem_of_mem_take hc)

/-- Either the cursor has not passed the body (and is not moved), or it is at the end of the line. -/
theorem LineOK.cursor (h : LineOK X body nl p) :
    (p.i ≤ body.length ∧ eolPos e p.line p.i = p.i) ∨ (p.i = p.line.length ∧ nl = [LF]) := by
  by_cases hi : p.i ≤ body.length
  · exact Or.inl ⟨hi, h.pos_body hi⟩
  · right
    have := h.hi
    rw [h.shape, List.length_append] at this ⊢
    rcases h.nl with hn | hn <;> subst hn
    · simp at this; omega
    · simp only [List.length_cons, List.length_nil] at this ⊢
      exact ⟨by omega, trivial⟩

theorem LineOK.drop_i (h : LineOK X body nl p) (hi : p.i ≤ body.length) : p.line.drop p.i = body.drop p.i ++ nl := by
  rw [h.shape, List.drop_append_of_le_length hi]

theorem LineOK.line_length (h : LineOK X body nl p) (he : StdEol e) :
    (toEol e p.line).length = eolPos e p.line p.line.length := (eolPos_length e (stdEol_ne_nil he) p.line).symm

theorem LineOK.lt_iff (h : LineOK X body nl p) (he : StdEol e) (j : Nat) :
    eolPos e p.line j < (toEol e p.line).length ↔ j < p.line.length := by
  rw [h.line_length he]; exact eolPos_lt_iff e p.line

theorem LineOK.le_iff (h : LineOK X body nl p) (he : StdEol e) (j : Nat) :
    eolPos e p.line j ≤ (toEol e p.line).length ↔ j ≤ p.line.length := by
  rw [h.line_length he]; exact eolPos_le_iff e p.line

/-- The rest of the line after the cursor, on the re-written side. -/
theorem LineOK.drop_map (_h : LineOK X body nl p) (he : StdEol e) :
    (toEol e p.line).drop (eolPos e p.line p.i) = toEol e (p.line.drop p.i) :=
  drop_toEol e (stdEol_ne_nil he) p.line p.i

/-- The position of the cursor in the buffer. -/
theorem LineOK.abs_pos (h : LineOK X body nl p) {j : Nat} (hj : j ≤ p.line.length) :
    eolPos e X (p.lineStart + j) = eolPos e X p.lineStart + eolPos e p.line j := by
  rw [eolPos_add]
  congr 1
  obtain ⟨t, ht⟩ := h.pre
  have hl : p.line = (X.drop p.lineStart).take (p.source.length - p.lineStart) := by
    rw [h.line, ← ht, List.drop_append_of_le_length h.ls, List.take_append_of_le_length (by simp)]
    rw [List.take_of_length_le (by simp)]
  have hlen : p.line.length = p.source.length - p.lineStart := by rw [h.line]; simp
  rw [hl, eolPos_take]
  omega

/-- The first byte after the cursor is not a line-ending byte iff the cursor is inside the body. -/
theorem LineOK.getD_body (h : LineOK X body nl p) {j : Nat} (hj : j < body.length) :
    (toEol e p.line).getD j 0 = p.line.getD j 0 := by
  rw [h.shape, toEol_body_nl e h.body]
  simp only [List.getD_eq_getElem?_getD]
  rw [List.getElem?_append_left hj, List.getElem?_append_left hj]

end

/-! ### Column widths -/

theorem columnEnd_append_eol (col : Nat) (r : Bytes) {e : Bytes} (he : EolBytes e) :
    columnEnd col (r ++ e) = columnEnd col r + e.length := by
  induction r generalizing col with
  | nil =>
    simp only [List.nil_append]
    induction e generalizing col with
    | nil => simp [columnEnd]
    | cons c t ih =>
      have hc : c = 0x0A ∨ c = 0x0D := by simpa [isNL] using he c (by simp)
      have : columnEnd col (c :: t) = columnEnd (col + 1) t := by
        rcases hc with h | h <;> subst h <;> rw [columnEnd, if_neg (by decide), if_pos (by decide)]
      rw [this, ih (fun x hx => he x (by simp [hx]))]
      simp [columnEnd]; omega
  | cons b t ih =>
    simp only [List.cons_append, columnEnd]
    split
    · exact ih _
    · split
      · exact ih _
      · exact ih _

theorem columnWidth_append_eol (col : Nat) (r : Bytes) {e : Bytes} (he : EolBytes e) :
    columnWidth col (r ++ e) = columnWidth col r + e.length := by
  unfold columnWidth
  rw [columnEnd_append_eol col r he]
  have := columnEnd_ge r col
  omega

/-! ### Reading the state -/

section
variable {e X body nl : Bytes} {p : LP}

@[simp] theorem mapLP_state : (mapLP e X p).state = p.state := rfl
@[simp] theorem mapLP_panic : (mapLP e X p).panic = p.panic := rfl
@[simp] theorem mapLP_depth : (mapLP e X p).depth = p.depth := rfl
@[simp] theorem mapLP_tabRem : (mapLP e X p).tabRem = p.tabRem := rfl
@[simp] theorem mapLP_tabPartial : (mapLP e X p).tabPartial = p.tabPartial := rfl
@[simp] theorem mapLP_line : (mapLP e X p).line = toEol e p.line := rfl
@[simp] theorem mapLP_source : (mapLP e X p).source = toEol e p.source := rfl
@[simp] theorem mapLP_i : (mapLP e X p).i = eolPos e p.line p.i := rfl
@[simp] theorem mapLP_lineStart : (mapLP e X p).lineStart = eolPos e X p.lineStart := rfl
@[simp] theorem mapLP_root : (mapLP e X p).root = mapPB (eolPosZ e X) p.root := rfl

theorem mapLP_setState (s : Nat) : mapLP e X { p with state := s } = { mapLP e X p with state := s } := rfl
theorem mapLP_setDepth (d : Nat) : mapLP e X { p with depth := d } = { mapLP e X p with depth := d } := rfl

theorem mapLP_markMatched : (mapLP e X p).markMatched = mapLP e X p.markMatched := by
  unfold LP.markMatched
  by_cases hs : (p.state == stateOpening) = true
  · have hs' : ((mapLP e X p).state == stateOpening) = true := hs
    rw [if_pos hs', if_pos hs]; rfl
  · have hs' : ¬ ((mapLP e X p).state == stateOpening) = true := hs
    rw [if_neg hs', if_neg hs]

theorem mapLP_setPanic (msg : String) : (mapLP e X p).setPanic msg = mapLP e X (p.setPanic msg) := by
  unfold LP.setPanic
  by_cases hs : p.panic.isSome = true
  · have hs' : (mapLP e X p).panic.isSome = true := hs
    rw [if_pos hs', if_pos hs]
  · have hs' : ¬ (mapLP e X p).panic.isSome = true := hs
    rw [if_neg hs', if_neg hs]; rfl

/-- The rest of the line after the cursor, decomposed. -/
theorem LineOK.rest (h : LineOK X body nl p) (he : StdEol e) :
    ∃ r nl', (∀ c ∈ r, isNL c = false) ∧ (nl' = [] ∨ nl' = [LF]) ∧ p.line.drop p.i = r ++ nl' ∧
      (mapLP e X p).line.drop (mapLP e X p).i = r ++ toEol e nl' ∧
      (r ++ nl' ≠ [] → (mapLP e X p).i = p.i ∧ (mapLP e X p).col = p.col) := by
  rcases h.cursor (e := e) with ⟨hi, hpos⟩ | ⟨hi, hn⟩
  · refine ⟨body.drop p.i, nl, fun c hc => h.body c (List.mem_of_mem_drop hc), h.nl, h.drop_i hi, ?_, ?_⟩
    · rw [mapLP_line, mapLP_i, h.drop_map he, h.drop_i hi, toEol_body_nl e (fun c hc => h.body c (List.mem_of_mem_drop hc))]
    · intro _
      simp only [mapLP_i, mapLP, hpos]
      exact ⟨trivial, by omega⟩
  · refine ⟨[], [], by simp, Or.inl rfl, by rw [hi]; simp, ?_, fun hne => absurd rfl hne⟩
    rw [mapLP_line, mapLP_i, h.drop_map he, hi]; simp

theorem mapLP_isRestBlank (h : LineOK X body nl p) (he : StdEol e) : (mapLP e X p).isRestBlank = p.isRestBlank := by
  obtain ⟨r, nl', _, hnl', h1, h2, _⟩ := h.rest he
  unfold LP.isRestBlank
  rw [h1, h2, isBlankLine_append_eol r (eolBytes_toEol_nl he hnl'), isBlankLine_append_eol r (eolBytes_nl hnl')]

theorem dropWhile_append_eol (r : Bytes) {n : Bytes} (hn : EolBytes n) :
    (r ++ n).dropWhile (fun c => c == SP || c == TAB) = r.dropWhile (fun c => c == SP || c == TAB) ++ n := by
  induction r with
  | nil =>
    cases n with
    | nil => rfl
    | cons c t =>
      have := (isNL_facts c (hn c (by simp))).2.2.1
      simp [List.dropWhile_cons, this]
  | cons b t ih =>
    simp only [List.cons_append, List.dropWhile_cons]
    split
    · exact ih
    · rfl

/-- `BytesAfterIndent` on the two sides: the same body part followed by the respective line ending. -/
theorem LineOK.bai (h : LineOK X body nl p) (he : StdEol e) :
    ∃ r nl', (∀ c ∈ r, isNL c = false) ∧ (nl' = [] ∨ nl' = [LF]) ∧ p.bytesAfterIndent = r ++ nl' ∧
      (mapLP e X p).bytesAfterIndent = r ++ toEol e nl' := by
  obtain ⟨r, nl', hr, hnl', h1, h2, _⟩ := h.rest he
  refine ⟨r.dropWhile (fun c => c == SP || c == TAB), nl', fun c hc => hr c ((List.dropWhile_sublist _).subset hc), hnl', ?_, ?_⟩
  · unfold LP.bytesAfterIndent
    rw [h1, dropWhile_append_eol r (eolBytes_nl hnl')]
  · unfold LP.bytesAfterIndent
    rw [h2, dropWhile_append_eol r (eolBytes_toEol_nl he hnl')]

/-- A function of the line that does not look at the line ending. -/
def EolInvariant {α : Type} (f : Bytes → α) : Prop := ∀ (l n : Bytes), EolBytes n → f (l ++ n) = f l

/-- Every eol-invariant recognizer returns the same value on `BytesAfterIndent` of the two sides. -/
theorem mapLP_bai_inv {α : Type} {f : Bytes → α} (hf : EolInvariant f) (h : LineOK X body nl p) (he : StdEol e) :
    f (mapLP e X p).bytesAfterIndent = f p.bytesAfterIndent := by
  obtain ⟨r, nl', _, hnl', h1, h2⟩ := h.bai he
  rw [h1, h2, hf r _ (eolBytes_toEol_nl he hnl'), hf r _ (eolBytes_nl hnl')]

theorem mapLP_bai_toEol (h : LineOK X body nl p) (he : StdEol e) :
    (mapLP e X p).bytesAfterIndent = toEol e p.bytesAfterIndent := by
  obtain ⟨r, nl', hr, _, h1, h2⟩ := h.bai he
  rw [h1, h2, toEol_body_nl e hr]

theorem wsWidth_append_eol (col : Nat) (r : Bytes) {n : Bytes} (hn : EolBytes n) : wsWidth col (r ++ n) = wsWidth col r := by
  unfold wsWidth
  rw [indentLength_append_eol r hn, List.take_append_of_le_length (indentLength_le r)]

theorem indentAt_append_eol (col tr : Nat) (r : Bytes) {n : Bytes} (hn : EolBytes n) :
    indentAt col tr (r ++ n) = indentAt col tr r := by
  cases r with
  | nil =>
    cases n with
    | nil => rfl
    | cons c t =>
      have hc := (isNL_facts c (hn c (by simp))).2.2.1
      have h1 : c ≠ SP := by intro h; subst h; simp at hc
      have h2 : c ≠ TAB := by intro h; subst h; simp at hc
      simp [indentAt, h1, h2]
  | cons b t =>
    simp only [List.cons_append, indentAt, wsWidth_append_eol _ t hn]

theorem mapLP_indent (h : LineOK X body nl p) (he : StdEol e) : (mapLP e X p).indent = p.indent := by
  obtain ⟨r, nl', _, hnl', h1, h2, h3⟩ := h.rest he
  rw [indent_eq, indent_eq, h1, h2, mapLP_tabRem, indentAt_append_eol _ _ r (eolBytes_toEol_nl he hnl'),
    indentAt_append_eol _ _ r (eolBytes_nl hnl')]
  cases r with
  | nil => rfl
  | cons b t => rw [(h3 (by simp)).2]

end

end CM.Proofs
