import CM.Proofs.EscapedText
import CM.Props.C10
/-
C06, escaped text — the rendering corollary: the paragraph whose inline children are what the inline phase returns for
the source `esc s` renders as `<p>` ++ escapeHTML s ++ `</p>` (in every renderer configuration `cx` over that source;
`openTag` / `closeTag` are `<p>` / `</p>` unless a tag filter rejects `p`).
-/
namespace CM.Proofs.EscText
open CM CM.Gen CM.Model CM.Model.Inl CM.Spec

theorem escapeHTML_append (a b : Bytes) : escapeHTML (a ++ b) = escapeHTML a ++ escapeHTML b := by
  simp [escapeHTML, List.flatMap_append]

theorem escapeHTML_flatMap {α} (l : List α) (f : α → Bytes) :
    escapeHTML (l.flatMap f) = l.flatMap (fun a => escapeHTML (f a)) := by
  induction l with
  | nil => rfl
  | cons a l ih => rw [List.flatMap_cons, List.flatMap_cons, escapeHTML_append, ih]

/-- Text leaves render as their escaped source slices. -/
theorem renderForest_texts (cx : RCtx) (parent : Tree) (blk : Option Tree) :
    ∀ (kids : List Tree) (i : Nat), (∀ t ∈ kids, Node.isI t IK.text = true) →
      renderForest cx parent blk kids i = kids.flatMap (fun t => escapeHTML (Node.slice cx.src t)) := by
  intro kids
  induction kids with
  | nil => intro i _; simp [renderForest]
  | cons t ts ih =>
    intro i h
    have ht := h t (by simp)
    cases t with
    | node l cs =>
      simp only [Node.isI, Tree.label, Bool.and_eq_true, Bool.not_eq_true', beq_iff_eq] at ht
      rw [renderForest, ih (i + 1) (fun u hu => h u (List.mem_cons_of_mem _ hu)), List.flatMap_cons, renderNode]
      simp [openBytes, Tree.label, ht.1, ht.2, preInline]

/-- A top-level paragraph of Text leaves renders as `<p>`, the escaped concatenation of their slices, `</p>`. -/
theorem render_text_paragraph (cx : RCtx) (dst : Bytes) (N : Int) (kids : List Tree)
    (hall : ∀ t ∈ kids, Node.isI t IK.text = true) :
    appendBlock cx dst (.node { isBlock := true, kind := BK.paragraph, start := 0, stop := N } kids) =
      dst ++ openTag cx (str "p") ++ escapeHTML (kids.flatMap (Node.slice cx.src)) ++ closeTag cx (str "p") := by
  rw [CM.Props.C10.render_eq_spec, renderSpec, renderNode]
  have hf := renderForest_texts cx
    (.node { isBlock := true, kind := BK.paragraph, start := 0, stop := N } kids)
    (some (.node { isBlock := true, kind := BK.paragraph, start := 0, stop := N } kids))
    kids 0 hall
  rw [← escapeHTML_flatMap] at hf
  simp [openBytes, closeBytes, Tree.label, preBlock, postBlock, BK.paragraph, parentTight, Node.isTightList, blockFor]
  exact hf

/-- **The paragraph of an escaped text renders as the text**: `AppendBlock` on the paragraph `[0, |source|)` whose
    inline children are the result of the inline phase appends `<p>`, the HTML-escaped ORIGINAL text `s`, `</p>`. -/
theorem escaped_text_renders (x : IExt) (matchRef : Bytes → Bool) (s tail : Bytes) (hok : TextOK s tail)
    (cx : RCtx) (hsrc : cx.src = esc s ++ tail) (dst : Bytes) :
    ∃ kids : List Tree,
      parseInlines x (esc s ++ tail) (esc s ++ tail).toArray matchRef 0 ((esc s ++ tail).length : Int)
        [mkInline IK.unparsed 0 ((esc s ++ tail).length : Int)] = .ok kids ∧
      appendBlock cx dst
          (.node { isBlock := true, kind := BK.paragraph, start := 0, stop := ((esc s ++ tail).length : Int) } kids) =
        dst ++ openTag cx (str "p") ++ escapeHTML s ++ closeTag cx (str "p") := by
  obtain ⟨kids, hk, hall, _, hsl, _⟩ := escaped_text_literal x matchRef s tail 0 ((esc s ++ tail).length : Int) hok
  refine ⟨kids, hk, ?_⟩
  rw [render_text_paragraph cx dst _ kids (fun t ht => (hall t ht).1), hsrc, hsl]

end CM.Proofs.EscText
