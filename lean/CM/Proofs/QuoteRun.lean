import CM.Proofs.QuoteStep2
import CM.Proofs.BlankSuffixLoops
/-
C09 (block-quote half), step (4): the two runs of the stream machine, line by line.

The bare run is the run of the *checked* block parser `blocksLPc` (it monitors the span hypothesis `RefDefSpansOK`); the
statement `Goal` is conditional on that run ending normally (`io.EOF`), so fuel exhaustion and a failed check need no
treatment. The prefixed run stays inside one `parseLines` loop until the end of the input.
-/
namespace CM.Proofs.Quote
open CM CM.Model CM.Gen CM.Proofs.BT CM.Proofs.BSp

/-- What `drain` does with the result of `NextBlock`. -/
def contD (x : PExt) (g : Nat) (acc : List Root) : NBOut × BP → List Root × NBOut × BP
  | (.block r, p') => drain (blocksLPc x) g p' (r :: acc)
  | (o, p') => (acc.reverse, o, p')

theorem drain_succ (x : PExt) (g : Nat) (p : BP) (acc : List Root) :
    drain (blocksLPc x) (g + 1) p acc = contD x g acc (nextBlock (blocksLPc x) p) := by
  unfold drain
  rcases hn : nextBlock (blocksLPc x) p with ⟨o, p'⟩
  cases o <;> rfl

theorem contD_panic (x : PExt) (g : Nat) (acc : List Root) (m : String) (p : BP) :
    (contD x g acc (.panic m, p)).2.1 = .panic m := rfl

theorem contD_err (x : PExt) (g : Nat) (acc : List Root) (e : PErr) (p : BP) :
    contD x g acc (.err e, p) = (acc.reverse, .err e, p) := rfl

theorem contD_block (x : PExt) (g : Nat) (acc : List Root) (r : Root) (p : BP) :
    contD x g acc (.block r, p) = drain (blocksLPc x) g p (r :: acc) := rfl

/-- The prefixed run has delivered its only root. -/
structure FinalOK (DR : List Tree → List Tree → Prop) (D : Bytes) (rs : List Root) (rq : Root) (pQ' : BP) : Prop where
  src : rq.source = quote D
  so : rq.startOffset = 0
  eo : rq.endOffset = (quote D).length
  rel : QuoteRelated DR D rs rq.block
  st : DSt (quote D) (quote D).length 0 [] pQ'

/-- If the bare run ends normally, the prefixed run delivers one root, related to the roots of the bare run. -/
def Goal (DR : List Tree → List Tree → Prop) (D : Bytes) (resD : List Root × NBOut × BP) (resQ : NBOut × BP) : Prop :=
  resD.2.1 = .err .eof → ∃ rq pQ', resQ = (.block rq, pQ') ∧ FinalOK DR D resD.1 rq pQ'

theorem Goal.of_ne {DR : List Tree → List Tree → Prop} {D : Bytes} {resD : List Root × NBOut × BP} {resQ : NBOut × BP}
    (h : resD.2.1 ≠ .err .eof) : Goal DR D resD resQ := fun e => absurd e h

/-! ### one line of the prefixed run -/

/-- The prefixed run feeds a line to its parser and goes on: the block quote is open, nothing is cut off. -/
theorem q_step (x : PExt) (Q : Bytes) (lpQ : LP) (lsQ iQ f : Nat) (pQ : BP) (hd : DSt Q 0 iQ [] pQ)
    (hinv : LPInv' ((blocksLP x).line lpQ (Q.take iQ) lsQ))
    (hroot : ∃ (E : Env) (P : PB), RootR E P ((blocksLP x).line lpQ (Q.take iQ) lsQ).root) :
    parseLines (blocksLP x) (f + 1) lpQ lsQ pQ =
      parseLines (blocksLP x) f ((blocksLP x).line lpQ (Q.take iQ) lsQ) iQ { pQ with i := iQ + lineLen (Q.drop iQ) } ∧
    DSt Q 0 (iQ + lineLen (Q.drop iQ)) [] { pQ with i := iQ + lineLen (Q.drop iQ) } := by
  have hsrc : pQ.buf.take pQ.i = Q.take iQ := by rw [hd.source, List.drop_zero]
  obtain ⟨E, P, lq, isQ, Qb, e, _, _, ht⟩ := hroot
  have hpan : (blocksLP x).panicked ((blocksLP x).line lpQ (pQ.buf.take pQ.i) lsQ) = none := by
    rw [hsrc]; exact hinv.panic
  have hopen : Qb.isOpen = true := by simp only [PB.isOpen, decide_eq_true_eq]; exact ht.qlab.stop
  have hmr : makeRoot pQ ((blocksLP x).kids ((blocksLP x).line lpQ (pQ.buf.take pQ.i) lsQ)) = none := by
    rw [hsrc]
    show makeRoot pQ ((blocksLP x).line lpQ (Q.take iQ) lsQ).root.blocks = none
    rw [e]
    exact makeRoot_open' pQ Qb [] hopen
  obtain ⟨r1, r2⟩ := hd.readline_eq
  rw [Nat.zero_add] at r1 r2
  refine ⟨?_, r2⟩
  rw [parseLines_next (blocksLP x) hpan hmr, r1, hsrc, hd.ieq]

/-! ### the end of the prefixed run -/

/-- From the closed tree of the prefixed side to the final statement. -/
theorem final_of_finR (DR : List Tree → List Tree → Prop) (D : Bytes) (hn0 : ∀ b ∈ quote D, b ≠ 0) (c s : Nat) (done : List Tree)
    (Pb : List PB) (rs : List Root) (x : PExt) (lpQ : LP) (f : Nat) (pQ : BP)
    (hd : DSt (quote D) 0 (quote D).length [] pQ)
    (hinv : LPInv' ((blocksLP x).line lpQ ((quote D).take (quote D).length) (quote D).length))
    (hfin : FinR (envOf DR D c s (quote D).length done) ((quote D).length : Nat) Pb
      ((blocksLP x).line lpQ ((quote D).take (quote D).length) (quote D).length).root)
    (hrel : ∀ pre bs'', PreOK (envOf DR D c s (quote D).length done) pre →
      L2 (BR (envOf DR D c s (quote D).length done)) Pb bs'' →
      ∃ ks : List PB, (pre ++ bs'').map pbToTree = ks.map pbToTree ∧
        L2 (fun (r : Root) k => BR (envAt DR D r.startOffset) r.block k) rs ks) :
    ∃ rq pQ', parseLines (blocksLP x) (f + 1) lpQ (quote D).length pQ = (.block rq, pQ') ∧ FinalOK DR D rs rq pQ' := by
  obtain ⟨lq', isQ, ql', pre, bs'', e, k1, k2, k3, k4, k5, k6, k7, hpre, hr⟩ := hfin.shape
  have hsrc : pQ.buf.take pQ.i = (quote D).take (quote D).length := by rw [hd.source, List.drop_zero]
  have hpan : (blocksLP x).panicked ((blocksLP x).line lpQ (pQ.buf.take pQ.i) (quote D).length) = none := by
    rw [hsrc]; exact hinv.panic
  have hclosed : (PB.mk ql' (pre ++ bs'') []).isOpen = false := by
    simp only [PB.isOpen, PB.label, k3, decide_eq_false_iff_not]; omega
  have hstop : (PB.mk ql' (pre ++ bs'') []).label.stop.toNat = (quote D).length := by
    simp only [PB.label, k3]; omega
  obtain ⟨rq, pQ', hm, hb, hso, hsrcq, heo, hst⟩ := makeRoot_dst hd hn0 (PB.mk ql' (pre ++ bs'') []) [] hclosed
    (by rw [hstop]; exact Nat.le_refl _)
  have hmr : makeRoot pQ ((blocksLP x).kids ((blocksLP x).line lpQ (pQ.buf.take pQ.i) (quote D).length)) = some (rq, pQ') := by
    rw [hsrc]
    show makeRoot pQ ((blocksLP x).line lpQ ((quote D).take (quote D).length) (quote D).length).root.blocks = _
    rw [e]
    exact hm
  refine ⟨rq, pQ', parseLines_root (blocksLP x) hpan hmr, ?_⟩
  rw [hstop] at hsrcq heo hst
  refine ⟨by rw [hsrcq, List.drop_zero, List.take_length], hso, by rw [heo, Nat.zero_add], ?_, ?_⟩
  · rw [hb]
    obtain ⟨ks, e1, e2⟩ := hrel pre bs'' hpre hr
    exact ⟨k1, k2, k3, k4, k5, k6, k7, rfl, ks, e1, e2⟩
  · rw [Nat.zero_add, Nat.sub_self] at hst
    have : offsetPBs (-((quote D).length : Int)) [] = [] := by simp [offsetPBs]
    rw [this] at hst
    exact hst

/-! ### the bare run after the end of the input: the pending (closed) blocks are delivered one by one -/

theorem PBSpansL_closed {bs : List PB} : ∀ {lo hi : Int}, PBSpansL QT true lo hi bs → (∀ b ∈ bs, 0 ≤ b.label.stop) →
    PBSpansL QT false lo hi bs := by
  induction bs with
  | nil => intro _ _ _ _; exact PBSpansL_nil _ _ _ _
  | cons b rest ih =>
    intro lo hi h hc
    rw [PBSpansL_cons] at h ⊢
    refine ⟨h.1, fun ho => ?_, ih h.2.2 fun b' hb' => hc b' (List.mem_cons_of_mem _ hb')⟩
    have := hc b (List.mem_cons_self ..)
    rw [isOpen_iff] at ho
    omega

/-- At the end of the input with nothing pending, `NextBlock` reports `io.EOF`. -/
theorem nextBlock_done (x : PExt) (D : Bytes) (c i : Nat) (p : BP) (h : DSt D c i [] p) (hend : c + i = D.length) :
    ∃ p', nextBlock (blocksLPc x) p = (.err .eof, p') := by
  rw [nextBlock_eq_F]
  have hmr : makeRoot p p.blocks = none := by rw [h.blocks]; rfl
  rw [nextBlockF_fresh (blocksLPc x) hmr (by rw [h.blocks]; simp)]
  -- the buffer behind the parse position is empty
  have hbuf : (freshLine p).buf = [] := by
    show p.buf.drop p.i = []
    rw [h.buf, h.ieq, List.drop_drop]
    apply List.drop_eq_nil_of_le; omega
  have hfl : skipBlank (bpFuel p) (freshLine p) = (none, (freshLine p)) := by
    have hf : bpFuel p = (bpFuel p - 1) + 1 := by unfold bpFuel; omega
    rw [hf]
    exact skipBlank_nil _ (freshLine p) hbuf rfl (by show p.err.isSome = true; rw [h.err]; rfl)
  rw [hfl]
  simp only [afterSkip]
  have hp : (freshLine p).panic = none := h.panic
  have he : (freshLine p).err = some .eof := h.err
  rw [hp, he]
  exact ⟨_, rfl⟩

/-- **The tail of the bare run**: the pending blocks `ks` (all closed) are delivered in order, each related to its image. -/
theorem tail_delivery (x : PExt) (DR : List Tree → List Tree → Prop) (hDR : DRShift DR) (D : Bytes) (hn0 : ∀ b ∈ D, b ≠ 0) (s' : Nat) :
    ∀ (m : Nat) (ks ks' : List PB) (c i : Nat) (done : List Tree) (p : BP) (lo : Int) (g : Nat) (acc : List Root),
      ks.length = m → DSt D c i ks p → c + i = D.length → 0 ≤ lo → PBSpansL QT false lo i ks →
      L2 (BR (envOf DR D c i s' done)) ks ks' →
      (drain (blocksLPc x) g p acc).2.1 = .err .eof →
      ∃ rs, (drain (blocksLPc x) g p acc).1 = acc.reverse ++ rs ∧
        L2 (fun (r : Root) k' => BR (envAt DR D r.startOffset) r.block k') rs ks' := by
  intro m
  induction m with
  | zero =>
    intro ks ks' c i done p lo g acc hlen hd hend _ _ hr hout
    have hks : ks = [] := List.length_eq_zero_iff.mp hlen
    subst hks
    cases hr
    cases g with
    | zero => simp [drain] at hout
    | succ g =>
      obtain ⟨p', hnb⟩ := nextBlock_done x D c i p hd hend
      rw [drain_succ, hnb, contD_err] at hout ⊢
      exact ⟨[], by simp, .nil⟩
  | succ m ih =>
    intro ks ks' c i done p lo g acc hlen hd hend hlo hsp hr hout
    obtain ⟨k, rest, rfl⟩ : ∃ k rest, ks = k :: rest := by
      cases ks with
      | nil => simp at hlen
      | cons k rest => exact ⟨k, rest, rfl⟩
    cases hr with
    | cons rk rrest =>
      rename_i k' rest'
      cases g with
      | zero => simp [drain] at hout
      | succ g =>
        rw [PBSpansL_cons] at hsp
        obtain ⟨s1, s2, s3⟩ := hsp
        have hkc : k.isOpen = false := by
          cases ho : k.isOpen with
          | false => rfl
          | true => exact absurd (s2 ho).2 (by decide)
        have hk0 : 0 ≤ k.label.stop := (isOpen_false_iff k).mp hkc
        have hb := PBSpans_closed_bounds s1 hk0
        have hn : ((k.label.stop.toNat : Nat) : Int) = k.label.stop := Int.toNat_of_nonneg hk0
        obtain ⟨r, p', hm, hrb, hso, _, _, hst⟩ := makeRoot_dst hd hn0 k rest hkc (by omega)
        have hnb : nextBlock (blocksLPc x) p = (.block r, p') := by
          rw [nextBlock_eq_F]
          exact nextBlockF_root (blocksLPc x) (by rw [hd.blocks]; exact hm)
        rw [drain_succ, hnb, contD_block] at hout ⊢
        have hsh := envOf_shift DR hDR D c i s' k.label.stop.toNat done done
        have hrest : L2 (BR (envOf DR D (c + k.label.stop.toNat) (i - k.label.stop.toNat) s' done))
            (offsetPBs (-(k.label.stop.toNat : Int)) rest) rest' :=
          BRs.offset hsh rest rest' rrest s3 (by omega)
        have hsp' : PBSpansL QT false (k.label.stop + -(k.label.stop.toNat : Int)) ((i : Int) + -(k.label.stop.toNat : Int))
            (offsetPBs (-(k.label.stop.toNat : Int)) rest) :=
          offsetPBs_spans (-(k.label.stop.toNat : Int)) rest hk0 (by omega) s3
        have e1 : ((i : Int) + -(k.label.stop.toNat : Int)) = ((i - k.label.stop.toNat : Nat) : Int) := by omega
        rw [e1] at hsp'
        have hlen' : (offsetPBs (-(k.label.stop.toNat : Int)) rest).length = m := by
          rw [CM.Proofs.offsetPBs_map, List.length_map]
          simp only [List.length_cons] at hlen
          omega
        obtain ⟨rs, h1, h2⟩ := ih _ rest' (c + k.label.stop.toNat) (i - k.label.stop.toNat) done p' _ g (r :: acc) hlen' hst
          (by omega) (by omega) hsp' hrest hout
        refine ⟨r :: rs, by rw [h1]; simp, .cons ?_ h2⟩
        rw [hso, hrb]
        exact BR.mono (envOf_le_envAt DR D c i s' done) k k' rk

/-! ### the standing assumptions -/

/-- The assumptions of the stream-level theorem about one document `D`. -/
structure Setup (x : PExt) (DR : List Tree → List Tree → Prop) (D : Bytes) : Prop where
  clean : Clean D
  ne : D ≠ []
  shift : DRShift DR
  /-- the hypothesis on `onCloseParagraph`, for every pair of sources of the two runs -/
  HC : ∀ c s s' done, CloseParaSim x (envOf DR D c s s' done)

theorem clean_quote_noNul {D : Bytes} (h : Clean D) : ∀ b ∈ quote D, b ≠ 0 := by
  have key : ∀ (l : Bytes), (∀ c ∈ l, c ≠ 0) → ∀ b ∈ qgo l, b ≠ 0 := by
    intro l
    induction l with
    | nil => intro _ b hb; simp [qgo] at hb
    | cons a rest ih =>
      intro hl b hb
      have ha : a ≠ 0 := hl a (List.mem_cons_self ..)
      have hr := ih fun c hc => hl c (List.mem_cons_of_mem _ hc)
      simp only [qgo] at hb
      split at hb
      · rename_i haLF
        split at hb
        · simp only [List.mem_singleton] at hb; subst hb; decide
        · simp only [List.mem_cons] at hb
          rcases hb with rfl | rfl | rfl | hb
          · decide
          · decide
          · decide
          · exact hr b hb
      · simp only [List.mem_cons] at hb
        rcases hb with rfl | hb
        · exact ha
        · exact hr b hb
  intro b hb
  unfold quote at hb
  split at hb
  · simp at hb
  · simp only [List.mem_cons] at hb
    rcases hb with rfl | rfl | hb
    · decide
    · decide
    · exact key D h.noNul b hb

/-- The kids of an open document with valid spans: in order, between the start of the document and `s`. -/
theorem kids_spans {s : Int} {root : PB} (h : PBSpans QT 0 s root) :
    ∃ lo, 0 ≤ lo ∧ PBSpansL QT true lo s root.blocks := by
  obtain ⟨l, bs, is⟩ := root
  rw [PBSpans_mk] at h
  obtain ⟨a1, a2, a3, a4, a5, a6⟩ := h
  refine ⟨l.start, a1, ?_⟩
  have h5 : PBSpansL QT true l.start (endOf s l) bs := by
    cases hd : decide (l.stop < 0) with
    | true => rw [hd] at a5; exact a5
    | false => rw [hd] at a5; exact PBSpansL_po a5
  exact PBSpansL_mono' (Int.le_refl _) a3 h5

section run
variable {x : PExt} {DR : List Tree → List Tree → Prop} {D : Bytes} (S : Setup x DR D)
include S

/-- **The end of the input, on both runs.** -/
theorem run_eof {qa : Bytes} {c : Nat} (h : EofAt D qa c) (lpD lpQ : LP) (pD pQ : BP) (bsD : List PB) (done : List Tree)
    (acc : List Root) (dD : DSt D c (D.length - c) bsD pD) (dQ : DSt (quote D) 0 qa.length [] pQ)
    (sD : DSess D c (D.length - c) lpD) (first : ∀ k rest, lpD.root.blocks = k :: rest → k.isOpen = true)
    (iQ : LPInv' lpQ) (root : RootR (envOf DR D c (D.length - c) qa.length done) lpD.root lpQ.root)
    (hdone : Done DR D acc done) (fD gD fQ : Nat) :
    Goal DR D (contD x gD acc (parseLines (blocksLPc x) fD (lpD, true) (D.length - c) pD))
      (parseLines (blocksLP x) (fQ + 1) lpQ qa.length pQ) := by
  cases fD with
  | zero => exact Goal.of_ne (by simp [parseLines, contD])
  | succ fD =>
    have hq : quote D = qa := h.q
    have hsrc : pD.buf.take pD.i = (D.drop c).take (D.length - c) := dD.source
    have hsl : ((D.drop c).take (D.length - c)).length = D.length - c := by
      rw [List.length_take, List.length_drop]; omega
    -- the line of the checked parser
    have hline : (blocksLPc x).line (lpD, true) (pD.buf.take pD.i) (D.length - c) =
        ((blocksLP x).line lpD ((D.drop c).take (D.length - c)) (D.length - c),
          true && pbSpans (RefDefSpansOK x ((D.drop c).take (D.length - c)) ((D.length - c : Nat) : Int)
            ((D.drop c).take (D.length - c)).length) 0 ((D.length - c : Nat) : Int) lpD.root) := by
      rw [hsrc]; rfl
    by_cases hchk : pbSpans (RefDefSpansOK x ((D.drop c).take (D.length - c)) ((D.length - c : Nat) : Int)
        ((D.drop c).take (D.length - c)).length) 0 ((D.length - c : Nat) : Int) lpD.root = true
    · rw [hchk] at hline
      have hinvD' := blocksLP_line_LPInv' x lpD sD.inv ((D.drop c).take (D.length - c)) (D.length - c)
      have hpan : (blocksLPc x).panicked ((blocksLPc x).line (lpD, true) (pD.buf.take pD.i) (D.length - c)) = none := by
        rw [hline]; exact hinvD'.panic
      -- every child of the document is closed now
      obtain ⟨p1, p2, p3, p4, p5, p6⟩ := reset_fields lpD ((D.drop c).take (D.length - c)) (D.length - c)
      have hpl : (lpD.reset ((D.drop c).take (D.length - c)) (D.length - c)).line = [] := by
        rw [p4]; apply List.drop_eq_nil_of_le; rw [hsl]; exact Nat.le_refl _
      obtain ⟨hroot1, hne1, hterm1⟩ := sD.well
      rw [hsl] at hroot1
      obtain ⟨e1, e2, e3, e4⟩ := processLine_eof (N := D.length - c) x (lpD.reset ((D.drop c).take (D.length - c)) (D.length - c))
        hpl p3 (by rw [p1]; exact hroot1) (by rw [p6, p1]; exact hterm1)
      have hne' := e3 (by rw [p1]; exact hne1)
      have hsp : PBSpans QT 0 ((D.drop c).take (D.length - c)).length
          ((blocksLP x).line lpD ((D.drop c).take (D.length - c)) (D.length - c)).root :=
        (processLine_spans x lpD ((D.drop c).take (D.length - c)) (D.length - c) sD.inv (by rw [hsl]; exact Nat.le_refl _) sD.openr hchk).1
      rw [hsl] at hsp
      generalize hlp' : (blocksLP x).line lpD ((D.drop c).take (D.length - c)) (D.length - c) = lpD' at hline hinvD' hsp
      obtain ⟨lo, hlo, hks⟩ := kids_spans hsp
      have e4' : ∀ k ∈ lpD'.root.blocks, 0 ≤ k.label.stop := by rw [← hlp']; exact e4
      have e1' : Kids (D.length - c) (D.length - c) lpD'.root.blocks := by rw [← hlp']; exact e1
      have hne'' : lpD'.root.blocks ≠ [] := by rw [← hlp']; exact hne'
      cases hkids : lpD'.root.blocks with
      | nil => exact absurd hkids hne''
      | cons k rest =>
        rw [hkids] at e4' e1' hks
        have hk0 : 0 ≤ k.label.stop := e4' k (List.mem_cons_self ..)
        have hkc : k.isOpen = false := (isOpen_false_iff k).mpr hk0
        have hkN := (e1'.kid k (List.mem_cons_self ..)).closed hk0
        have hn : ((k.label.stop.toNat : Nat) : Int) = k.label.stop := Int.toNat_of_nonneg hk0
        have hnle : k.label.stop.toNat ≤ D.length - c := by omega
        have hcle := h.cle
        obtain ⟨r, p', hm, hrb, hso, _, _, hst⟩ := makeRoot_dst dD S.clean.noNul k rest hkc hnle
        have hmr : makeRoot pD ((blocksLPc x).kids ((blocksLPc x).line (lpD, true) (pD.buf.take pD.i) (D.length - c))) =
            some (r, p') := by
          rw [hline]; show makeRoot pD lpD'.root.blocks = _; rw [hkids]; exact hm
        rw [parseLines_root (blocksLPc x) hpan hmr, contD_block]
        -- the prefixed side
        have hfin := step_eof (x := x) DR h done lpD lpQ (S.HC _ _ _ _) (hT_of sD first) root
        rw [hlp', hkids] at hfin
        intro hout
        have hcl := PBSpansL_closed hks e4'
        rw [PBSpansL_cons] at hcl
        obtain ⟨s1, s2, s3⟩ := hcl
        have hb := PBSpans_closed_bounds s1 hk0
        have hsp' : PBSpansL QT false (k.label.stop + -(k.label.stop.toNat : Int))
            (((D.length - c : Nat) : Int) + -(k.label.stop.toNat : Int)) (offsetPBs (-(k.label.stop.toNat : Int)) rest) :=
          offsetPBs_spans (-(k.label.stop.toNat : Int)) rest hk0 (by omega) s3
        have e5 : (((D.length - c : Nat) : Int) + -(k.label.stop.toNat : Int)) = ((D.length - c - k.label.stop.toNat : Nat) : Int) := by
          omega
        rw [e5] at hsp'
        have hinvQ' := blocksLP_line_LPInv' x lpQ iQ ((quote D).take qa.length) qa.length
        rw [← hq] at dQ hfin hinvQ' ⊢
        apply final_of_finR DR D (clean_quote_noNul S.clean) c (D.length - c) done (k :: rest) _ x lpQ fQ pQ dQ hinvQ' hfin
        intro pre bs'' hpre hr
        cases hr with
        | cons rk rrest =>
          rename_i k' rest'
          have hsh := envOf_shift DR S.shift D c (D.length - c) (quote D).length k.label.stop.toNat done done
          have hrest : L2 (BR (envOf DR D (c + k.label.stop.toNat) (D.length - c - k.label.stop.toNat) (quote D).length done))
              (offsetPBs (-(k.label.stop.toNat : Int)) rest) rest' :=
            BRs.offset hsh rest rest' rrest s3 (by omega)
          obtain ⟨rs, h1, h2⟩ := tail_delivery x DR S.shift D S.clean.noNul (quote D).length _
            (offsetPBs (-(k.label.stop.toNat : Int)) rest) rest' (c + k.label.stop.toNat)
            (D.length - c - k.label.stop.toNat) done p' (k.label.stop + -(k.label.stop.toNat : Int)) gD (r :: acc) rfl hst
            (by omega) (by omega) hsp' hrest hout
          obtain ⟨ks, hk1, hk2⟩ := hdone
          refine ⟨ks ++ k' :: rest', ?_, ?_⟩
          · rw [List.map_append, List.map_append, hk1, hpre.2]; rfl
          · rw [h1, List.reverse_cons, List.append_assoc]
            refine hk2.append (.cons ?_ h2)
            rw [hso, hrb]
            exact BR.mono (envOf_le_envAt DR D c _ _ done) k k' rk
    · -- the span check fails: the run of the checked parser ends with that failure
      have hfalse : pbSpans (RefDefSpansOK x ((D.drop c).take (D.length - c)) ((D.length - c : Nat) : Int)
          ((D.drop c).take (D.length - c)).length) 0 ((D.length - c : Nat) : Int) lpD.root = false := by
        simpa using hchk
      rw [hfalse] at hline
      have hpan : (blocksLPc x).panicked ((blocksLPc x).line (lpD, true) (pD.buf.take pD.i) (D.length - c)) = some refDefFail := by
        rw [hline]; rfl
      rw [parseLines_panicked (blocksLPc x) hpan]
      exact Goal.of_ne (by rw [contD_panic]; exact fun e => by cases e)

end run

end CM.Proofs.Quote
