import CM.Proofs.InlNoMarker
/-
C13, inline half — a THIRD chain of specifications over the inline phase (after `InlInv*` for `NodeInv` and
`InlForest*` for the structural invariant): the generic arena invariant `G φ` again, but for per-node properties `φ`
that need to know MORE at the allocation sites than `NodeInv` records (`SiteInv`):

* a hard line break: which of the two tokenizer sites made it, and what was read there;
* a code span: it is the result of `parseCodeSpan` at a backtick;
* an autolink: it is the result of `parseAutolink` on the rest of the current span, at a `<`;
* a raw HTML tag: it is the result of `parseHTMLTag` at a `<`.

Part 1: `SiteInv`, the primitives and the tree surgery.  (Registered with priority 20000: above the two existing
chains, which this file imports — see the usage guide in `InlHoare.lean`, point 5.)
-/
namespace CM.Proofs.InlH
open CM CM.Model CM.Model.Inl
open Std.Do

set_option mvcgen.warning false

/-- Where the hard line break of `parseBackslash` ends: after the backslash, an optional CR, an optional LF (each only
    inside the current span, which ends at `se`). -/
def bsStop (c : ICtx) (se start : Int) : Int :=
  let s1 := if start + 1 < se ∧ c.srcA[(start + 1).toNat]! = CR then start + 1 + 1 else start + 1
  if s1 < se ∧ c.srcA[s1.toNat]! = LF then s1 + 1 else s1

/-- `cs` is what `parseCodeSpan c start` returns (in some state: only `unparsedPos` matters). -/
def CodeSpanOf (c : ICtx) (start : Int) (cs : CodeSpan) : Prop :=
  ∃ s0 : IState, (parseCodeSpan c start).run s0 = .ok (cs, s0)

/-- …at a backtick at `start`. -/
def CodeSpanAt (c : ICtx) (cs : CodeSpan) : Prop :=
  ∃ start : Int, CodeSpanOf c start cs ∧ 0 ≤ start ∧ start < c.srcA.size ∧ c.srcA[start.toNat]! = 0x60

/-- The span `parseHTMLTag` returns at `pos` when `unparsedPos = k`. -/
def htmlSpan (c : ICtx) (k : Nat) (pos : Int) : SpanI :=
  (parseHTMLTag c.src c.fl (newReader (c.unparsedL.drop k) pos.toNat)).fst

/-- `NodeInv` with stronger contracts at the sites of hard breaks, code spans, autolinks and HTML tags. -/
structure SiteInv (c : ICtx) (φ : INode → Prop) : Prop where
  text : ∀ a b, φ { kind := IK.text, start := a, stop := b }
  /-- `parseBackslash`, not in the last span: the backslash is at `start` (inside the current span, which ends at
      `se = spanEndOf c s`), the span ends right after it or a CR / LF follows; the break ends at `bsStop` -/
  hardBreakBS : ∀ (s : IState) (start : Int), s.unparsedPos + 1 < c.unparsed.size →
    0 ≤ start → start < c.srcA.size → start < spanEndOf c s → c.srcA[start.toNat]! = 0x5C →
    (start + 1 ≥ spanEndOf c s ∨
      (start + 1 < c.srcA.size ∧ (c.srcA[(start + 1).toNat]! = LF ∨ c.srcA[(start + 1).toNat]! = CR))) →
    φ { kind := IK.hardBreak, start := start, stop := bsStop c (spanEndOf c s) start }
  /-- the space case of `parseRun`, not in the last span: `parseHardLineBreakSpace` accepted the rest of the span -/
  hardBreakSP : ∀ (s : IState) (pos : Int), s.unparsedPos + 1 < c.unparsed.size →
    0 ≤ pos → pos ≤ spanEndOf c s → spanEndOf c s ≤ c.srcA.size →
    (parseHardLineBreakSpace (c.srcA.extract pos.toNat (spanEndOf c s).toNat).toList).snd = true →
    φ { kind := IK.hardBreak, start := pos,
        stop := pos + (parseHardLineBreakSpace (c.srcA.extract pos.toNat (spanEndOf c s).toNat).toList).fst }
  charRef : ∀ (pos se e : Int), 0 ≤ pos → pos ≤ se → se ≤ c.srcA.size → 0 ≤ e →
    parseCharacterEscape c.x.ext (c.srcA.extract pos.toNat se.toNat).toList = e →
    φ { kind := IK.charRef, start := pos, stop := pos + e }
  softBreak1 : ∀ (pos : Int), 0 ≤ pos → pos < c.srcA.size → (c.srcA[pos.toNat]! = LF ∨ c.srcA[pos.toNat]! = CR) →
    φ { kind := IK.softBreak, start := pos, stop := pos + 1 }
  softBreak2 : ∀ (pos : Int), 0 ≤ pos → pos + 1 < c.srcA.size → c.srcA[pos.toNat]! = CR →
    c.srcA[(pos + 1).toNat]! = LF → φ { kind := IK.softBreak, start := pos, stop := pos + 2 }
  wrapped : ∀ k a b, (k = IK.emphasis ∨ k = IK.strong ∨ k = IK.link ∨ k = IK.image) →
    φ { kind := k, start := a, stop := b }
  imported : ∀ t ∈ c.unparsed, t.label.isBlock = false → t.label.kind ≠ 0 → t.label.kind ≠ IK.unparsed → φ (ofTree t)
  /-- `collectCodeSpan`: `cs` is the (valid) result of `parseCodeSpan` at a backtick -/
  codeSpan : ∀ (cs : CodeSpan) (ks : Array CSN), CSNOK ks → CodeSpanAt c cs → cs.span.isValid = true →
    φ { kind := IK.codeSpan, start := cs.span.start, stop := cs.span.stop, sub := ks.toList.map CSN.toTree }
  /-- `<` at `pos`, `parseAutolink` accepted the rest of the span (which ends at `se`) -/
  autolink : ∀ (pos se e : Int), 0 ≤ pos → pos ≤ se → se ≤ c.srcA.size → 0 ≤ e →
    parseAutolink (c.srcA.extract pos.toNat se.toNat).toList = e →
    φ { kind := IK.autolink, start := pos, stop := e + pos, sub := [mkInline IK.text (pos + 1) (e + pos - 1)] }
  /-- `<` at `pos`, `parseHTMLTag` accepted (`k` is `unparsedPos`) -/
  htmlTag : ∀ (k : Nat) (pos : Int), 0 ≤ pos → pos < c.srcA.size → c.srcA[pos.toNat]! = 0x3C →
    (htmlSpan c k pos).isValid = true →
    φ { kind := IK.htmlTag, start := (htmlSpan c k pos).start, stop := (htmlSpan c k pos).stop,
        sub := collectTextNodes c.x.ext c.src (htmlSpan c k pos).stop.toNat IK.rawHTML false c.fl
          (newReader (c.unparsedL.drop k) (htmlSpan c k pos).start.toNat) (htmlSpan c k pos).start.toNat [] }
  linkDest : ∀ a b stop fuel k p ps,
    φ { kind := IK.linkDest, start := a, stop := b,
        sub := collectTextNodes c.x.ext c.src stop IK.text true fuel (newReader (c.unparsedL.drop k) p) ps [] }
  linkDestEmpty : ∀ a b, φ { kind := IK.linkDest, start := a, stop := b, sub := [] }
  linkTitle : ∀ a b stop fuel k p ps,
    φ { kind := IK.linkTitle, start := a, stop := b,
        sub := collectTextNodes c.x.ext c.src stop IK.text true fuel (newReader (c.unparsedL.drop k) p) ps [] }
  linkTitleEmpty : ∀ a b, φ { kind := IK.linkTitle, start := a, stop := b, sub := [] }
  linkLabel : ∀ a b stop fuel k p ps ref, c.matchRef ref = true →
    φ { kind := IK.linkLabel, start := a, stop := b, ref := ref,
        sub := collectTextNodes c.x.ext c.src stop IK.text false fuel (newReader (c.unparsedL.drop k) p) ps [] }
  modKids : ∀ n ks, φ n → φ { n with kids := ks }
  modSpan : ∀ n a b, φ n → n.kind ≤ 1 → φ { n with start := a, stop := b }
  modLink : ∀ n a b r, φ n → (n.kind = IK.link ∨ n.kind = IK.image) → (r = n.ref ∨ c.matchRef r = true) →
    φ { n with start := a, stop := b, ref := r }

section
variable {c : ICtx} {φ : INode → Prop}

/-- closes `G φ s'` where `s'` is `s` after `modifyNode id f` with `f` only changing `kids` -/
macro "inl_modkidsT " h:term " with " hN:term : tactic =>
  `(tactic| (inl_state
             refine GA.modify $h ?_ ?_
             · exact (fun _ => rfl)
             · exact (fun n hn => SiteInv.modKids $hN _ _ hn)))

@[spec 20000]
theorem addToRoot_specT (hN : SiteInv c φ) (id : Nat) (s0 : IState) :
    ⦃fun s => ⌜s = s0 ∧ G φ s⌝⦄ addToRoot id ⦃⇓? _ s => ⌜G φ s ∧ KExt s0.nodes s.nodes⌝⦄ := by
  mvcgen [addToRoot, nodeLen, getNode, setParent, modifyNode, -addToRoot_spec, -addToRoot_specS]
  · obtain ⟨rfl, h⟩ := ‹_ = s0 ∧ G φ _›
    exact ⟨h, KExt.refl _⟩
  · obtain ⟨rfl, h⟩ := ‹_ = s0 ∧ G φ _›
    refine ⟨?_, ?_⟩
    · inl_modkidsT h with hN
    · simp -failIfUnchanged +zetaDelta only []
      exact KExt.modify _ _ (by intro _; rfl)

/-- with the frame: `unparsedPos` is unchanged -/
@[spec 20000]
theorem addLeaf_specT (hN : SiteInv c φ) (kind : Nat) (a b : Int)
    (hφ : spanLenI a b ≠ 0 → φ { kind := kind, start := a, stop := b }) (s0 : IState) :
    ⦃fun s => ⌜s = s0 ∧ G φ s⌝⦄ addLeaf kind a b ⦃⇓? _ s => ⌜G φ s ∧ s.unparsedPos = s0.unparsedPos⌝⦄ := by
  mvcgen [addLeaf, alloc, addToRoot, nodeLen, getNode, setParent, modifyNode, -addLeaf_spec, -addLeaf_specS,
    -addToRoot_specT, -addToRoot_spec, -addToRoot_specS]
  all_goals
    obtain ⟨rfl, h⟩ := ‹_ = s0 ∧ G φ _›
    first
      | exact ⟨h, rfl⟩
      | (have hne : spanLenI a b ≠ 0 := by simpa using ‹¬(spanLenI a b == 0) = true›
         refine ⟨?_, rfl⟩
         inl_state
         exact GA.push h (hφ hne))
      | (have hne : spanLenI a b ≠ 0 := by simpa using ‹¬(spanLenI a b == 0) = true›
         refine ⟨?_, rfl⟩
         inl_modkidsT (GA.push h (hφ hne)) with hN)

@[spec 20000]
theorem importNode_specT (hN : SiteInv c φ) (t : Tree) (hφ : φ (ofTree t)) :
    ⦃fun s => ⌜G φ s⌝⦄ importNode t ⦃⇓? _ s => ⌜G φ s⌝⦄ := by
  mvcgen [importNode, alloc, modifyNode, -importNode_spec, -importNode_specS]
  rename_i s h _
  inl_modkidsT (GA.push h hφ) with hN

@[spec 20000]
theorem removeNode_specT (hN : SiteInv c φ) (id : Nat) :
    ⦃fun s => ⌜G φ s⌝⦄ removeNode id ⦃⇓? _ s => ⌜G φ s⌝⦄ := by
  mvcgen [removeNode, setParent, modifyNode, -removeNode_spec, -removeNode_specS]
  · rename_i h _ _ _ _
    inl_modkidsT h with hN
  · intro h; exact h.elim

@[spec 20000]
theorem delStack_specT (i j : Nat) :
    ⦃fun s => ⌜G φ s⌝⦄ delStack i j ⦃⇓? _ s => ⌜G φ s⌝⦄ := delStack_spec i j

@[spec 20000]
theorem wrap_specT (hN : SiteInv c φ) (kind sn : Nat) (en : Option Nat)
    (hk : kind = IK.emphasis ∨ kind = IK.strong ∨ kind = IK.link ∨ kind = IK.image) (s0 : IState) :
    ⦃fun s => ⌜s = s0 ∧ G φ s⌝⦄ wrap kind sn en ⦃⇓? r s => ⌜G φ s ∧ KindP (· = kind) s.nodes r⌝⦄ := by
  mvcgen [wrap, alloc, setParent, modifyNode, -wrap_spec, -wrap_specS]
  inl_inv (fun s => G φ s ∧ KindP (· = kind) s.nodes s0.nodes.size)
  inl_norm
  all_goals (try assumption)
  · obtain ⟨rfl, h⟩ := ‹_ = s0 ∧ G φ _›
    simp -failIfUnchanged +zetaDelta only []
    exact ⟨GA.push h (hN.wrapped kind _ _ hk), KindP.push_new rfl⟩
  · obtain ⟨h, hkp⟩ := ‹G φ _ ∧ KindP _ _ _›
    simp -failIfUnchanged +zetaDelta only []
    refine ⟨?_, (hkp.modify (by intro _; rfl)).modify (by intro _; rfl)⟩
    inl_modkidsT (GA.modify h (by intro _; rfl) (fun n hn => hN.modKids _ _ hn)) with hN
  · obtain ⟨rfl, _⟩ := ‹_ = s0 ∧ G φ _›
    assumption
  · intro h; exact h.elim

@[spec 20000]
theorem processEmphasis_specT (hN : SiteInv c φ) (sb : Nat) :
    ⦃fun s => ⌜G φ s⌝⦄ Inl.processEmphasis sb ⦃⇓? _ s => ⌜G φ s⌝⦄ := by
  mvcgen [Inl.processEmphasis, nodeLen, getNode, modifyNode, -processEmphasis_spec, -processEmphasis_specS]
  all_goals (try (exact (PostCond.mayThrow (fun _ s => ⌜G φ s ∧ StackOK s.nodes ‹Array DelimE›⌝))))
  inl_inv (G φ)
  inl_norm
  inl_triv
  · exact ⟨‹G φ _›, (‹G φ _›).stack⟩
  · split <;> simp
  · obtain ⟨h, hst⟩ := ‹G φ _ ∧ StackOK _ _›
    refine ⟨trivial, ?_⟩
    inl_state
    have k1 := StackOK.get hst h.root
    refine GA.modifyK (GA.modifyK h (k1 _) (by intro _; rfl) (fun n hn hk => hN.modSpan n _ _ hn hk))
      ((k1 _).modify (by intro _; rfl)) (by intro _; rfl) (fun n hn hk => hN.modSpan n _ _ hn hk)

end

end CM.Proofs.InlH
