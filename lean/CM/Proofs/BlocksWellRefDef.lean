import CM.Proofs.BlocksWellLink
/-
`onCloseParagraph` / `refDefLoop`: the blocks a closed paragraph is replaced by are closed and end inside the source
(except the orphan paragraph a setext heading may leave behind, which is last).
-/
namespace CM.Proofs
open CM CM.Model CM.Gen

/-- The block is closed (`span.End ≥ 0`). -/
def PBClosed (b : PB) : Prop := 0 ≤ b.label.stop

/-- Link reference definitions split off a paragraph: they end between `lo` and `P`, in increasing order. -/
def PreOK (lo P : Nat) (pre : List PB) : Prop :=
  (∀ b ∈ pre, (lo : Int) ≤ b.label.stop ∧ b.label.stop ≤ (P : Int)) ∧
  pre.Pairwise (fun a b => a.label.stop ≤ b.label.stop)

/-- The shape of the result of closing a paragraph at `e`: definitions, then nothing more, or the rest of the
    paragraph (closed at `e`), or the orphan. -/
def OutOK (lo P : Nat) (orphan : Option PB) (e : Int) (out : List PB) : Prop :=
  ∃ pre, PreOK lo P pre ∧
    ((out = pre ∧ pre ≠ []) ∨ (∃ last, out = pre ++ [last] ∧ last.label.stop = e) ∨
     (∃ o, out = pre ++ [o] ∧ pre ≠ [] ∧ orphan = some o))

theorem isSTLE_false : ∀ c : UInt8, c ≠ SP → c ≠ TAB → c ≠ CR → c ≠ LF → isSpaceTabOrLineEnding c = false := by
  apply forall_uint8; decide +kernel

theorem skipSpacesAndTabs_true {src : Bytes} : ∀ (f : Nat) (r r' : Rd), skipSpacesAndTabs src f r = (true, r') →
    ∃ c, r'.current src = (c, r') ∧ c ≠ 0 ∧ c ≠ SP ∧ c ≠ TAB := by
  intro f
  induction f with
  | zero => intro r r' e; simp [skipSpacesAndTabs] at e
  | succ f ih =>
    intro r r' e
    rcases hc : r.current src with ⟨c, r1⟩
    rcases hn : r1.next src with ⟨ok, r2⟩
    simp only [skipSpacesAndTabs, hc, hn] at e
    split at e
    · split at e
      · cases e
      · exact ih _ _ e
    · rename_i hsp
      simp only [Prod.mk.injEq, bne_iff_ne, ne_eq, decide_eq_true_eq] at e
      obtain ⟨e1, e2⟩ := e
      subst e2
      have hi := current_idem src r
      rw [hc] at hi
      simp only at hi
      refine ⟨c, hi, by simpa using e1, ?_, ?_⟩
      · intro hh; apply hsp; simp [hh]
      · intro hh; apply hsp; simp [hh]

/-- `readEOL` returns a negative position only in front of a byte that is neither white space nor the end. -/
theorem readEOL_neg {m N : Nat} {pv : Bool} {src : Bytes} (f : Nat) (r : Rd) (h : RdOK m N pv r) {e : Int} {r' : Rd}
    (he : readEOL src f r = (e, r')) (hneg : e < 0) :
    ∃ c, r'.current src = (c, r') ∧ c ≠ 0 ∧ isSpaceTabOrLineEnding c = false := by
  have h0 := skipSpacesAndTabs_ok (src := src) f r h
  rcases hs : skipSpacesAndTabs src f r with ⟨ok, r0⟩
  rw [hs] at h0
  simp only at h0
  rcases hc : r0.current src with ⟨c, r1⟩
  have h1 := h0.current' hc
  rcases hn : r1.next src with ⟨ok1, r2⟩
  have h2 := h1.next' hn
  rcases hc2 : r2.current src with ⟨c2, r3⟩
  have h3 := h2.current' hc2
  rcases hn3 : r3.next src with ⟨ok3, r4⟩
  have h4 := h3.next' hn3
  have q2 := h2.prevlb; have q3 := h3.prevlb; have q4 := h4.prevlb
  simp only [readEOL, hs, hc, hn, hc2, hn3] at he
  split at he
  · simp only [Prod.mk.injEq] at he; omega
  · rename_i hok
    have hok' : ok = true := by simpa using hok
    subst hok'
    obtain ⟨c', hc', n0, n1, n2⟩ := skipSpacesAndTabs_true f r r0 hs
    rw [hc] at hc'
    simp only [Prod.mk.injEq] at hc'
    obtain ⟨rfl, rfl⟩ := hc'
    split at he
    · split at he
      · simp only [Prod.mk.injEq] at he; omega
      · split at he
        · simp only [Prod.mk.injEq] at he; omega
        · simp only [Prod.mk.injEq] at he; omega
    · rename_i hcr
      split at he
      · simp only [Prod.mk.injEq] at he; omega
      · rename_i hlf
        simp only [Prod.mk.injEq] at he
        obtain ⟨_, rfl⟩ := he
        refine ⟨c, hc, n0, isSTLE_false c n1 n2 ?_ ?_⟩
        · intro hh; apply hcr; simp [hh]
        · intro hh; apply hlf; simp [hh]

theorem skipLinkSpace_true {src : Bytes} (f : Nat) {r : Rd} {c : UInt8} (hc : r.current src = (c, r))
    (h0 : c ≠ 0) (hs : isSpaceTabOrLineEnding c = false) : skipLinkSpace src (f + 1) r = (true, r) := by
  simp only [skipLinkSpace, hc]
  rw [if_neg (by simpa using h0)]
  simp [hs]

theorem rdFuel_pos (src : Bytes) (is : List Tree) : ∃ k, rdFuel src is = k + 1 :=
  ⟨rdFuel src is - 1, by unfold rdFuel; omega⟩

theorem PreOK.snoc {lo P : Nat} {result : List PB} {b : PB} (h : PreOK lo P result) {m : Nat}
    (hm : ∀ a ∈ result, a.label.stop ≤ (m : Int)) (h0 : (lo : Int) ≤ b.label.stop) (h1 : b.label.stop ≤ (P : Int))
    (h2 : (m : Int) ≤ b.label.stop) : PreOK lo P (result ++ [b]) := by
  refine ⟨?_, ?_⟩
  · intro b' hb'
    rcases List.mem_append.mp hb' with h' | h'
    · exact h.1 b' h'
    · simp only [List.mem_singleton] at h'; subst h'; exact ⟨h0, h1⟩
  · rw [List.pairwise_append]
    refine ⟨h.2, List.pairwise_singleton _ _, ?_⟩
    intro a ha b' hb'
    simp only [List.mem_singleton] at hb'; subst hb'
    have := hm a ha
    omega

theorem OutOK.giveUp {lo P : Nat} {orphan : Option PB} {result : List PB} {b : PB} (hr : PreOK lo P result) :
    OutOK lo P orphan b.label.stop (result ++ [b]) :=
  ⟨result, hr, Or.inr (Or.inl ⟨b, rfl, rfl⟩)⟩

theorem OutOK.allDefs {lo P : Nat} {orphan : Option PB} {e : Int} {result : List PB} {b : PB}
    (hr : PreOK lo P (result ++ [b])) : OutOK lo P orphan e (result ++ [b]) :=
  ⟨result ++ [b], hr, Or.inl ⟨rfl, by simp⟩⟩

theorem OutOK.withSome {lo P : Nat} {o : PB} {e : Int} {result : List PB} {b : PB}
    (hr : PreOK lo P (result ++ [b])) : OutOK lo P (some o) e ((result ++ [b]) ++ [o]) :=
  ⟨result ++ [b], hr, Or.inr (Or.inr ⟨o, rfl, by simp, rfl⟩)⟩

theorem outOK_ite {lo P : Nat} {o : Option PB} {e : Int} {c : Prop} [Decidable c] {a b : List PB}
    (h1 : c → OutOK lo P o e a) (h2 : ¬ c → OutOK lo P o e b) : OutOK lo P o e (if c then a else b) := by
  split
  · exact h1 ‹_›
  · exact h2 ‹_›

theorem RdOK.rebase {m N : Nat} {pv : Bool} {r : Rd} (h : RdOK m N pv r) : RdOK r.pos N false r :=
  ⟨h.spans, h.sorted, h.pos, Nat.le_refl _, h.prev, h.prevlb, fun h' => (by cases h'), h.iv⟩

theorem refDefLoop_ok {lo P : Nat} (x : PExt) (src : Bytes) (orphan : Option PB) :
    ∀ (fuel : Nat) (r : Rd) (l : PLabel) (is : List Tree) (result : List PB) (m : Nat) (pv : Bool),
      RdOK m P pv r → lo ≤ m → PreOK lo P result → (∀ b ∈ result, b.label.stop ≤ (m : Int)) →
      OutOK lo P orphan l.stop (refDefLoop x src orphan fuel r l is result) := by
  intro fuel
  induction fuel with
  | zero =>
    intro r l is result m pv _ _ hr _
    exact OutOK.giveUp (b := PB.mk l [] is) hr
  | succ fuel ih =>
    intro r l is result m pv hrd hlo hr hm
    have hgive : OutOK lo P orphan l.stop (result ++ [PB.mk l [] is]) := OutOK.giveUp (b := PB.mk l [] is) hr
    rcases e1 : parseLinkLabel src (rdFuel src is) r with ⟨label, r1⟩
    have k1 : RdOK m P pv r1 := by have := parseLinkLabel_ok (src := src) (rdFuel src is) r hrd; rw [e1] at this; exact this
    have k1v : label.span.isValid = true → RdOK m P true r1 := by
      intro hv
      have := parseLinkLabel_valid (src := src) (rdFuel src is) r hrd (by rw [e1]; exact hv)
      rw [e1] at this; exact this
    rcases e2 : r1.current src with ⟨c2, r2⟩
    rcases e3 : r2.next src with ⟨ok3, r3⟩
    rcases e4 : skipLinkSpace src (rdFuel src is) r3 with ⟨ok4, r4⟩
    rcases e5 : parseLinkDestination src (rdFuel src is) r4 with ⟨dest, r5⟩
    rcases e6 : readEOL src (rdFuel src is) r5 with ⟨destEOL, r6⟩
    rcases e7 : r6.current src with ⟨c7, r7⟩
    rcases e8 : skipLinkSpace src (rdFuel src is) r7 with ⟨ok8, r8⟩
    rcases e9 : parseLinkTitle src (rdFuel src is) r8 with ⟨title, r9⟩
    rcases e10 : readEOL src (rdFuel src is) r9 with ⟨titleEOL, r10⟩
    -- the readers, for either value of the flag
    have chain : ∀ pv', RdOK m P pv' r1 → RdOK m P pv' r5 ∧ RdOK m P pv' r6 ∧ RdOK m P pv' r9 ∧ RdOK m P pv' r10 := by
      intro pv' k1
      have k2 := k1.current' e2
      have k3 := k2.next' e3
      have k4 : RdOK m P pv' r4 := by have := skipLinkSpace_ok (src := src) (rdFuel src is) r3 k3; rw [e4] at this; exact this
      have k5 : RdOK m P pv' r5 := by
        have := parseLinkDestination_ok (src := src) (rdFuel src is) r4 k4; rw [e5] at this; exact this
      have k6 : RdOK m P pv' r6 := by
        have := (readEOL_ok (src := src) (rdFuel src is) r5 k5).1; rw [e6] at this; exact this
      have k7 := k6.current' e7
      have k8 : RdOK m P pv' r8 := by have := skipLinkSpace_ok (src := src) (rdFuel src is) r7 k7; rw [e8] at this; exact this
      have k9 : RdOK m P pv' r9 := by have := parseLinkTitle_ok (src := src) (rdFuel src is) r8 k8; rw [e9] at this; exact this
      have k10 : RdOK m P pv' r10 := by
        have := (readEOL_ok (src := src) (rdFuel src is) r9 k9).1; rw [e10] at this; exact this
      exact ⟨k5, k6, k9, k10⟩
    obtain ⟨k5, k6, k9, k10⟩ := chain pv k1
    obtain ⟨d1, d2⟩ : destEOL ≤ (P : Int) ∧ -1 ≤ destEOL := by
      have := (readEOL_ok (src := src) (rdFuel src is) r5 k5).2; rw [e6] at this; exact this
    obtain ⟨t1, t2⟩ : titleEOL ≤ (P : Int) ∧ -1 ≤ titleEOL := by
      have := (readEOL_ok (src := src) (rdFuel src is) r9 k9).2; rw [e10] at this; exact this
    have d3 : destEOL ≤ (r6.pos : Int) := by
      have := (readEOL_pos (src := src) (rdFuel src is) r5 k5).1; rw [e6] at this; exact this
    have t3 : titleEOL ≤ (r10.pos : Int) := by
      have := (readEOL_pos (src := src) (rdFuel src is) r9 k9).1; rw [e10] at this; exact this
    have d4 : label.span.isValid = true → 0 ≤ destEOL → (m : Int) ≤ destEOL := by
      intro hv h0
      have k5' := (chain true (k1v hv)).1
      have := (readEOL_pos (src := src) (rdFuel src is) r5 k5').2 rfl
      rw [e6] at this
      rcases this with h | h
      · simp only at h; omega
      · exact h
    have t4 : label.span.isValid = true → 0 ≤ titleEOL → (m : Int) ≤ titleEOL := by
      intro hv h0
      have k9' := (chain true (k1v hv)).2.2.1
      have := (readEOL_pos (src := src) (rdFuel src is) r9 k9').2 rfl
      rw [e10] at this
      rcases this with h | h
      · simp only at h; omega
      · exact h
    -- a negative `destEOL` makes the second `skipLinkSpace` succeed
    have hneg : destEOL < 0 → ok8 = true := by
      intro hn
      obtain ⟨c, hc, c0, cs⟩ := readEOL_neg (rdFuel src is) r5 k5 e6 hn
      rw [hc] at e7
      simp only [Prod.mk.injEq] at e7
      obtain ⟨rfl, rfl⟩ := e7
      obtain ⟨k, hk⟩ := rdFuel_pos src is
      rw [hk, skipLinkSpace_true k hc c0 cs] at e8
      simp only [Prod.mk.injEq] at e8
      exact e8.1.symm
    rw [refDefLoop]
    simp only [e1]
    simp only [e2]
    simp only [e3]
    simp only [e4]
    simp only [e5]
    simp only [e6]
    simp only [e7]
    simp only [e8]
    simp only [e9]
    simp only [e10]
    refine outOK_ite (fun _ => hgive) (fun hv => ?_)
    have hv' : label.span.isValid = true := by simpa using hv
    have nb1 := fun (h0 : 0 ≤ destEOL) => PreOK.snoc hr hm (b := mkPB BK.linkRefDef label.span.start destEOL
        [mkInlineRef IK.linkLabel label.inner.start label.inner.stop
          (transformLinkReferenceSpan x.fold src is label.inner.start.toNat label.inner.stop.toNat)
          (collectTextNodes x.ext src label.inner.stop.toNat IK.text false (rdFuel src is)
            (newReader is label.inner.start.toNat) label.inner.start.toNat []),
         mkInline IK.linkDest dest.span.start dest.span.stop
          (collectTextNodes x.ext src dest.text.stop.toNat IK.text true (rdFuel src is)
            (newReader is dest.text.start.toNat) dest.text.start.toNat [])])
        (show (lo : Int) ≤ destEOL by have := d4 hv' h0; omega) d1 (d4 hv' h0)
    have hm6 : ∀ (h0 : 0 ≤ destEOL) (b' : PB), b' ∈ result ++ [mkPB BK.linkRefDef label.span.start destEOL
        [mkInlineRef IK.linkLabel label.inner.start label.inner.stop
          (transformLinkReferenceSpan x.fold src is label.inner.start.toNat label.inner.stop.toNat)
          (collectTextNodes x.ext src label.inner.stop.toNat IK.text false (rdFuel src is)
            (newReader is label.inner.start.toNat) label.inner.start.toNat []),
         mkInline IK.linkDest dest.span.start dest.span.stop
          (collectTextNodes x.ext src dest.text.stop.toNat IK.text true (rdFuel src is)
            (newReader is dest.text.start.toNat) dest.text.start.toNat [])]] → b'.label.stop ≤ (r6.pos : Int) := by
      intro h0 b' hb'
      have hl6 := k6.lo
      rcases List.mem_append.mp hb' with h' | h'
      · have := hm b' h'; omega
      · simp only [List.mem_singleton] at h'; subst h'; exact d3
    refine outOK_ite (fun _ => hgive) (fun _ => ?_)
    refine outOK_ite (fun _ => hgive) (fun _ => ?_)
    refine outOK_ite (fun _ => hgive) (fun _ => ?_)
    refine outOK_ite (fun _ => hgive) (fun _ => ?_)
    refine outOK_ite (fun hok => ?_) (fun _ => ?_)
    · have hd0 : 0 ≤ destEOL := by
        by_cases hn : destEOL < 0
        · have := hneg hn; simp [this] at hok
        · omega
      cases orphan with
      | none => exact OutOK.allDefs (nb1 hd0)
      | some o => exact OutOK.withSome (nb1 hd0)
    · refine outOK_ite (fun _ => ?_) (fun _ => ?_)
      · refine outOK_ite (fun _ => hgive) (fun hd => ?_)
        have hd0 : 0 ≤ destEOL := by omega
        generalize nodeIndexForPosition is r6.pos 0 = ni
        cases ni with
        | none =>
          cases orphan with
          | none => exact OutOK.allDefs (nb1 hd0)
          | some o => exact OutOK.withSome (nb1 hd0)
        | some fc =>
          exact ih _ _ _ _ r6.pos false k6.rebase (by have := k6.lo; omega) (nb1 hd0) (hm6 hd0)
      · refine outOK_ite (fun _ => ?_) (fun ht => ?_)
        · refine outOK_ite (fun _ => hgive) (fun hd => ?_)
          have hd0 : 0 ≤ destEOL := by omega
          generalize nodeIndexForPosition is r6.pos 0 = ni
          cases ni with
          | none =>
            cases orphan with
            | none => exact OutOK.allDefs (nb1 hd0)
            | some o => exact OutOK.withSome (nb1 hd0)
          | some fc => exact OutOK.giveUp (b := PB.mk { l with start := r6.pos } [] (is.drop fc)) (nb1 hd0)
        · have ht0 : 0 ≤ titleEOL := by omega
          have nb2 := PreOK.snoc hr hm (b := mkPB BK.linkRefDef label.span.start titleEOL
            [mkInlineRef IK.linkLabel label.inner.start label.inner.stop
              (transformLinkReferenceSpan x.fold src is label.inner.start.toNat label.inner.stop.toNat)
              (collectTextNodes x.ext src label.inner.stop.toNat IK.text false (rdFuel src is)
                (newReader is label.inner.start.toNat) label.inner.start.toNat []),
             mkInline IK.linkDest dest.span.start dest.span.stop
              (collectTextNodes x.ext src dest.text.stop.toNat IK.text true (rdFuel src is)
                (newReader is dest.text.start.toNat) dest.text.start.toNat []),
             mkInline IK.linkTitle title.span.start title.span.stop
              (collectTextNodes x.ext src title.text.stop.toNat IK.text true (rdFuel src is)
                (newReader is title.text.start.toNat) title.text.start.toNat [])])
            (show (lo : Int) ≤ titleEOL by have := t4 hv' ht0; omega) t1 (t4 hv' ht0)
          generalize nodeIndexForPosition is r10.pos 0 = ni
          cases ni with
          | none =>
            cases orphan with
            | none => exact OutOK.allDefs nb2
            | some o => exact OutOK.withSome nb2
          | some fc =>
            refine ih _ _ _ _ r10.pos false k10.rebase (by have := k10.lo; omega) nb2 ?_
            intro b' hb'
            have hl10 := k10.lo
            rcases List.mem_append.mp hb' with h' | h'
            · have := hm b' h'; omega
            · simp only [List.mem_singleton] at h'; subst h'; exact t3

end CM.Proofs
