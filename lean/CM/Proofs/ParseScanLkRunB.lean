import CM.Proofs.InlSpanRunB
import CM.Proofs.ParseScanLkRunA

/-
C02, inline half, with `LinkScan2` / `TokScan2` — code spans and HTML tags in the tokenizer.
(Generated from `InlSpanRunB.lean`: the same proofs with `LinkScan2` in the place of `LinkScan`.)
-/

namespace CM.Proofs.InlH2
open CM CM.Model CM.Model.Inl CM.Gen CM.Spec CM.Proofs CM.Proofs.InlH
open Std.Do

set_option mvcgen.warning false

@[spec 21000]
theorem tokCode_specP (L : Lims) (c : ICtx) (hU : UnpOK c L) (hT : TokScan2 c L.hi) (s : IState) (pos plainStart : Int)
    (done : Bool) (hb : 0 ≤ pos ∧ pos < c.srcA.size ∧ c.srcA[pos.toNat]! = 0x60) :
    ⦃fun st => ⌜st = s ∧ RunInv L c (pos, plainStart, done) s ∧ s.unparsedPos < c.unparsed.size ∧
        pos < spanEndOf c s⌝⦄
    tokCode c pos plainStart done
    ⦃⇓? r st => ⌜RunInv L c r.value st⌝⦄ := by
  mvcgen [tokCode, addText, parseCodeSpan_specP, collectCodeSpan_specP, -collectCodeSpan_spec, 
    -collectCodeSpan_specS, -parseCodeSpan_spec, -CM.Proofs.InlH.refPart_specP, 
    -CM.Proofs.InlH.parseEndBracket_specP, -CM.Proofs.InlH.tokC_specP, -CM.Proofs.InlH.tokA_specP, 
    -CM.Proofs.InlH.tokCode_specP, -CM.Proofs.InlH.tokLt_specP]
  all_goals (try (exact fun h => h))
  all_goals (try (exact ExceptConds.entails.refl _))
  all_goals tok_setup
  all_goals (
    have hrun := ‹StateT.run (parseCodeSpan _ _) _ = _›
    have hcode := hT.code _ _ _ _ hb.1 hb.2.1 hb.2.2 hrun hu hlt)
  -- `addText` before the code span
  · obtain ⟨c1, c2, c3, -⟩ := hcode.1 ‹_›
    exact ⟨trivial, hsp, by omega⟩
  -- the code span
  · obtain ⟨c1, c2, c3, c4⟩ := hcode.1 ‹_›
    obtain ⟨hq, hq2, -⟩ := ‹SPT _ _ (max _ _) _ ∧ _›
    obtain ⟨n, n1, n2, n3, n4, n5, n6, n7, n8, n9⟩ := c4 _ _ hq2 hq.2 ‹StateT.run (collectCodeSpan _ _) _ = _›
    have hfin := SP.addRoot (SP.mono (F' := n.start) hq (by omega) (by omega)) n n1 (Int.le_refl _) (by omega) (by omega)
      n4 n5 n6 n7 n8
    rw [n3] at hfin
    exact ⟨hfin, Int.le_refl _, n9⟩
  -- no code span
  · have := hcode.2 ‹_›
    exact ⟨hsp, by show plainStart ≤ (CodeSpan.content _).start; omega, hpo⟩

@[spec 21000]
theorem tokLt_specP (L : Lims) (c : ICtx) (hU : UnpOK c L) (hT : TokScan2 c L.hi) (s : IState) (pos plainStart : Int)
    (done : Bool) (hb : 0 ≤ pos ∧ pos < c.srcA.size ∧ c.srcA[pos.toNat]! = 0x3C) :
    ⦃fun st => ⌜st = s ∧ RunInv L c (pos, plainStart, done) s ∧ s.unparsedPos < c.unparsed.size ∧
        pos < spanEndOf c s⌝⦄
    tokLt c s pos plainStart done
    ⦃⇓? r st => ⌜RunInv L c r.value st⌝⦄ := by
  mvcgen [tokLt, addText, alloc, addToRoot, nodeLen, getNode, setParent, modifyNode, setUnparsedPos, 
    -addToRoot_spec, -addToRoot_specS, -CM.Proofs.InlH.refPart_specP, -CM.Proofs.InlH.parseEndBracket_specP, 
    -CM.Proofs.InlH.tokC_specP, -CM.Proofs.InlH.tokA_specP, -CM.Proofs.InlH.tokCode_specP, 
    -CM.Proofs.InlH.tokLt_specP]
  all_goals (try (exact fun h => h))
  all_goals (try (exact ExceptConds.entails.refl _))
  all_goals tok_setup
  all_goals (obtain ⟨a0, a1, a2, a3⟩ := ‹0 ≤ pos ∧ _ ∧ _ ∧ _›)
  -- facts about the scanners
  all_goals (try (have hal := autolink_le hT a0 a1 a2 a3 ‹0 ≤ parseAutolink _›))
  all_goals (try (
    have hhv := ‹SpanI.isValid _ = true›
    obtain ⟨w1, w2, w3, w4⟩ := hT.html _ pos _ _ hb.1 hb.2.1 hb.2.2 (Prod.eta _).symm hhv))
  -- the dead branch of `addToRoot` (the new node is not empty)
  all_goals (try (
    exfalso
    have h2 := ‹(spanLenI _ _ == 0) = true›
    rw [get!_push_eq] at h2
    dsimp only at h2
    have := spanLen_zero h2 (by omega)
    omega))
  all_goals (try simp only [RunInv, ForInStep.value])
  all_goals (first
    | exact ⟨trivial, hsp, by omega⟩
    | exact ⟨hsp, by omega, hpo⟩
    | (obtain ⟨hq, hq2, -⟩ := ‹SPT _ _ (max _ _) _ ∧ _›
       refine ⟨?_, Int.le_refl _, ?_⟩
       · refine SP.allocRoot (SP.mono (F' := pos) hq (by omega) (by omega)) _ ?_ ?_ ?_ ?_ ?_ _ _ _ ?_
         all_goals first
           | rfl
           | (dsimp only; omega)
           | (dsimp only; refine WFL_autolink _ _ ?_; omega)
           | exact w4
       · first
           | exact posOK_of hq2 (by omega)
           | exact fun _ => posOK_of_index' c hU.arr _ _ (by omega) _ ‹_›
           | exact fun h => absurd h (Nat.lt_irrefl _)))

end CM.Proofs.InlH2
