import CM.Proofs.QuoteGRun2
import CM.Proofs.QuoteMain
/-
C09 (block-quote half), the block-phase theorem **with link reference definitions**: no hypothesis on
`onCloseParagraph`; instead no line of `D` is a setext heading underline.
-/
namespace CM.Proofs.Quote
open CM CM.Model CM.Gen CM.Proofs.BT CM.Proofs.BSp CM.Proofs.Nest

section
variable {x : PExt} {D : Bytes} (S : SetupG D)
include S

/-- The three statements, for every bound on the length of the rest of the document. -/
theorem all_stmtsG : ∀ n, LinesStmtG x D n ∧ SkipStmtG x D n ∧ IdleStmtG x D n := by
  intro n
  induction n with
  | zero =>
    have hL : LinesStmtG x D 0 := by
      intro a b qa c lpD lpQ pD pQ bsD done acc fD gD fQ hbn hL
      have : b = [] := List.length_eq_zero_iff.mp (by omega)
      exact absurd this hL.bne
    have hS : SkipStmtG x D 0 := by
      intro a b qa lpQ p pQ done acc fs fp gD fQ hbn hpos dD dQ hq hdone hfQ
      have hb : b = [] := List.length_eq_zero_iff.mp (by omega)
      subst hb
      exact skip_endG S a qa lpQ p pQ done acc fs fp gD fQ hpos dD dQ hq hdone (by omega)
    exact ⟨hL, hS, idle_ofG S 0 hL hS⟩
  | succ n ih =>
    obtain ⟨hL, hS, hI⟩ := ih
    have hL' := lines_succG S n hL hI
    have hS' := skip_succG S n hS hL hI
    exact ⟨hL', hS', idle_ofG S (n + 1) hL' hS'⟩

/-- **C09, block-quote half, block phase.** -/
theorem blocks_quote_simG
    (hout' : isEof (drain (blocksLPc x) (D.length + 8) (memParser D) []).2.1 = true) :
    ∃ (rq : Root) (pQ : BP),
      drain (blocksLP x) ((quote D).length + 8) (memParser (quote D)) [] = ([rq], .err .eof, pQ) ∧
      rq.source = quote D ∧ rq.startOffset = 0 ∧ rq.endOffset = (quote D).length ∧
      QuoteRelated (DRq D) D (drain (blocksLP x) (D.length + 8) (memParser D) []).1 rq.block := by
  have hout : (drain (blocksLPc x) (D.length + 8) (memParser D) []).2.1 = .err .eof := isEof_iff.mp hout'
  obtain ⟨_, hS, _⟩ := all_stmtsG S D.length
  -- the bare run: its first `NextBlock` call
  have hdD := memParser_dst D S.clean.noNul
  have hD1 : drain (blocksLPc x) (D.length + 8) (memParser D) [] =
      contD x (D.length + 7) [] (afterSkip (blocksLPc x) (bpFuel (memParser D))
        (skipBlank (bpFuel (memParser D)) (freshLine (memParser D)))) := by
    rw [drain_succ, nextBlock_eq_F, nextBlockF_fresh (blocksLPc x) rfl (by simp [memParser])]
  -- the prefixed run: its first `NextBlock` call reaches the per-line loop
  have hqne : quote D ≠ [] := quote_ne_nil S.ne
  have hdQ := memParser_dst (quote D) (clean_quote_noNul S.clean)
  have hfQ := freshLine_dst hdQ
  obtain ⟨r1, r2⟩ := hfQ.readline_eq
  simp only [Nat.zero_add, List.drop_zero] at r1 r2
  have hcrD : NoCR D := S.clean.noCR
  have hllq := lineLen_quote D hcrD S.ne
  have hposq := lineLen_pos hqne
  have hfirstq : ({ freshLine (memParser (quote D)) with i := lineLen (quote D) } : BP).buf.take
      ({ freshLine (memParser (quote D)) with i := lineLen (quote D) } : BP).i = GT :: SP :: D.take (lineLen D) := by
    rw [r2.source, List.drop_zero]
    exact take_line_quote D hcrD S.ne
  have hskQ : skipBlank (bpFuel (memParser (quote D))) (freshLine (memParser (quote D))) =
      (some ({ freshLine (memParser (quote D)) with i := lineLen (quote D) } : BP),
        ({ freshLine (memParser (quote D)) with i := lineLen (quote D) } : BP)) := by
    have hf : bpFuel (memParser (quote D)) = (bpFuel (memParser (quote D)) - 1) + 1 := by unfold bpFuel; omega
    rw [hf]
    conv => lhs; unfold skipBlank
    rw [r1]
    simp only [hposq, decide_true, Bool.not_true, Bool.false_eq_true, if_false]
    rw [hfirstq]
    rfl
  have hQ1 : nextBlock (blocksLP x) (memParser (quote D)) =
      parseLines (blocksLP x) (bpFuel (memParser (quote D))) (newOf []) 0
        ({ freshLine (memParser (quote D)) with i := lineLen (quote D) } : BP) := by
    rw [nextBlock_eq_F, nextBlockF_fresh (blocksLP x) rfl (by simp [memParser]), hskQ]
    rfl
  -- the induction
  have hpos : PosAt D [] D [] ([] : Bytes).length :=
    ⟨rfl, rfl, S.clean, S.ne, Nat.le_refl _, fun _ => ⟨Or.inl rfl, rfl⟩, fun h => absurd h S.ne⟩
  have hfuel : D.length + 2 ≤ bpFuel (memParser (quote D)) := by
    unfold bpFuel
    have : (memParser (quote D)).buf = quote D := by rw [hdQ.buf]; rfl
    rw [this]
    have := length_quote_ge D S.ne
    omega
  have hdQ2 : DSt (quote D) 0 (([] : Bytes).length + lineLen (quote D)) []
      ({ freshLine (memParser (quote D)) with i := lineLen (quote D) } : BP) := by
    show DSt (quote D) 0 (0 + lineLen (quote D)) [] _
    rw [Nat.zero_add]; exact r2
  have hgoal := hS [] D [] (newOf []) (freshLine (memParser D)) _ [] [] (bpFuel (memParser D)) (bpFuel (memParser D))
    (D.length + 7) (bpFuel (memParser (quote D))) (Nat.le_refl _) hpos (freshLine_dst hdD) hdQ2
    (Or.inl ⟨rfl, rfl, rfl, rfl⟩) (Done.nil (DRq D) D) hfuel
  rw [← hD1] at hgoal
  obtain ⟨rq, pQ', hq1, hfin⟩ := hgoal hout
  -- the prefixed run ends at its second `NextBlock` call
  obtain ⟨p'', hq2⟩ := nextBlock_done' (blocksLP x) (quote D) (quote D).length 0 pQ' hfin.st (by omega)
  have hQrun : drain (blocksLP x) ((quote D).length + 8) (memParser (quote D)) [] = ([rq], .err .eof, p'') := by
    have e8 : (quote D).length + 8 = ((quote D).length + 6) + 1 + 1 := by omega
    rw [e8]
    conv => lhs; unfold drain
    rw [hQ1]
    have : parseLines (blocksLP x) (bpFuel (memParser (quote D))) (newOf []) 0
        ({ freshLine (memParser (quote D)) with i := lineLen (quote D) } : BP) = (.block rq, pQ') := hq1
    rw [this]
    simp only []
    conv => lhs; unfold drain
    rw [hq2]
    rfl
  refine ⟨rq, p'', hQrun, hfin.src, hfin.so, hfin.eo, ?_⟩
  have hne : isRefDefFail (drain (blocksLPc x) (D.length + 8) (memParser D) []).2.1 = false := by rw [hout]; rfl
  rw [drain_checked_eq x _ _ _ hne]
  exact hfin.rel

end


end CM.Proofs.Quote
