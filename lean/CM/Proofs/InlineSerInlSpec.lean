import CM.Proofs.InlineSerInlItems
/-
Inline serialisation — part 13: `toSL_spec` — for a well-formed item list (`FlatOK`) the lines `toSL ks` are
well-formed lines whose source is the canonical serialisation `serInls` of the items (default choices) + LF.
-/
namespace CM.Proofs.InlSer
open CM CM.Gen CM.Model CM.Model.Inl CM.Proofs.EscText CM.Spec

/-- Every line but the last ends in a soft or hard break, the last in the final LF. -/
def EndsOK : List SLine → Prop
  | [] => False
  | [l] => l.ending = .lastLF
  | l :: rest => (l.ending = .soft ∨ l.ending = .hardSp) ∧ EndsOK rest

theorem serItem (k : Inl) (ext : Ext) (hk : ItemOK ext k) : serInl [] [LF] [] k = (pbytes (itemP k), []) := by
  cases k with
  | word b => rw [serInl]; exact serWord_nil b
  | code b => exact serCode [] [LF] [] b
  | entity n d => simp [serInl, itemP, pbytes, SPiece.bytes]
  | autolink u =>
    have h1 : s "<" = [0x3C] := by decide +kernel
    have h2 : s ">" = [0x3E] := by decide +kernel
    simp [serInl, itemP, pbytes, SPiece.bytes, h1, h2]
  | emph _ => exact hk.elim
  | strong _ => exact hk.elim
  | link _ _ _ => exact hk.elim
  | image _ _ _ => exact hk.elim
  | reflink _ _ => exact hk.elim
  | rawtag _ => exact hk.elim
  | intra _ _ _ _ => exact hk.elim
  | hardbreak => exact hk.elim
  | softbreak => exact hk.elim

theorem nextOK_ending (e : Ending) (h : e = .lastLF ∨ e = .soft ∨ e = .hardSp) : NextOK e.bytes := by
  rcases h with rfl | rfl | rfl
  · exact ⟨LF, rfl, by decide, by decide⟩
  · exact ⟨LF, rfl, by decide, by decide⟩
  · exact ⟨SP, rfl, by decide, by decide⟩

theorem lineOK_item (ext : Ext) (k : Inl) (hk : ItemOK ext k) (e : Ending) (he : e = .lastLF ∨ e = .soft ∨ e = .hardSp) :
    SLineOK ext ⟨itemP k, e⟩ := by
  obtain ⟨b0, tl, hb, h1, h2⟩ := itemStart ext k hk
  exact ⟨itemPOK ext k _ hk (nextOK_ending e he), ⟨b0, by simp [SLine.bytes, hb], h1, h2⟩⟩

theorem toSL_spec (ext : Ext) (ks : List Inl) (h : FlatOK ext ks) :
    ∃ l L, toSL ks = l :: L ∧ (∀ l' ∈ l :: L, SLineOK ext l') ∧
      (∃ b0 tl, pbytes l.P = b0 :: tl ∧ b0 ≠ SP ∧ b0 ≠ TAB) ∧
      (serInls [] [LF] [] ks).2 = [] ∧ (serInls [] [LF] [] ks).1 ++ [LF] = srcOf (l :: L) ∧ EndsOK (l :: L) := by
  fun_induction toSL ks
  · exact h.elim
  · rename_i k
    have hk : ItemOK ext k := h
    refine ⟨_, _, rfl, ?_, itemStart ext k hk, ?_, ?_, rfl⟩
    · intro l' hl'
      simp only [List.mem_singleton] at hl'
      subst hl'
      exact lineOK_item ext k hk _ (Or.inl rfl)
    · rw [serInls, serItem k ext hk]
    · rw [serInls, serItem k ext hk]
      simp [srcOf, SLine.bytes, Ending.bytes]
  · -- hard break
    rename_i k rest ih
    have hk : ItemOK ext k := h.1
    obtain ⟨l, L, hl, hok, _, hs2, hs1, hends⟩ := ih h.2
    have hsp : s "  " = [SP, SP] := by decide +kernel
    refine ⟨_, _, rfl, ?_, itemStart ext k hk, ?_, ?_, ?_⟩
    · intro l' hl'
      rcases List.mem_cons.1 hl' with rfl | hl'
      · exact lineOK_item ext k hk _ (Or.inr (Or.inr rfl))
      · rw [hl] at hl'; exact hok l' hl'
    · rw [serInls, serItem k ext hk]
      simp only [pick]
      exact hs2
    · rw [serInls, serItem k ext hk]
      simp only [pick, beq_self_eq_true, if_true, hsp]
      rw [hl, srcOf, List.flatMap_cons, ← srcOf, ← hs1]
      simp [SLine.bytes, Ending.bytes]
    · rw [hl]; exact ⟨Or.inr rfl, hends⟩
  · -- soft break
    rename_i k rest ih
    have hk : ItemOK ext k := h.1
    obtain ⟨l, L, hl, hok, _, hs2, hs1, hends⟩ := ih h.2
    refine ⟨_, _, rfl, ?_, itemStart ext k hk, ?_, ?_, ?_⟩
    · intro l' hl'
      rcases List.mem_cons.1 hl' with rfl | hl'
      · exact lineOK_item ext k hk _ (Or.inr (Or.inl rfl))
      · rw [hl] at hl'; exact hok l' hl'
    · rw [serInls, serItem k ext hk]
      exact hs2
    · rw [serInls, serItem k ext hk]
      rw [hl, srcOf, List.flatMap_cons, ← srcOf, ← hs1]
      simp [SLine.bytes, Ending.bytes]
    · rw [hl]; exact ⟨Or.inl rfl, hends⟩
  · -- a separator space
    rename_i k rest hn1 hn2 hn3 l0 L0 hl0 ih
    rw [FlatOK.eq_5 ext k rest hn1 hn2 hn3] at h
    have hk : ItemOK ext k := h.1
    obtain ⟨l, L, hl, hok, ⟨b0, tl, hb0, hb1, hb2⟩, hs2, hs1, hends⟩ := ih h.2
    rw [hl0] at hl
    obtain ⟨rfl, rfl⟩ := List.cons.inj hl
    obtain ⟨c0, tl0, hc0, hc1, hc2⟩ := itemStart ext k hk
    have hser : serInls [] [LF] [] (k :: rest) =
        (pbytes (itemP k) ++ [32] ++ (serInls [] [LF] [] rest).1, (serInls [] [LF] [] rest).2) := by
      rw [serInls.eq_5 [] [LF] [] k rest hn1 hn2 hn3, serItem k ext hk]
    refine ⟨_, _, rfl, ?_, ⟨c0, tl0 ++ pbytes (.sp :: l0.P), by rw [pbytes_append, hc0]; rfl, hc1, hc2⟩, ?_, ?_, ?_⟩
    · intro l' hl'
      rcases List.mem_cons.1 hl' with rfl | hl'
      · have hl0ok := hok l0 (by simp)
        refine ⟨POK_append ext _ _ _ (itemPOK ext k _ hk ⟨SP, by simp [pbytes, SPiece.bytes], by decide, by decide⟩) ?_, ?_⟩
        · exact ⟨⟨b0, by rw [hb0]; rfl, hb1⟩, hl0ok.pieces⟩
        · exact ⟨c0, by simp [SLine.bytes, pbytes_append, hc0], hc1, hc2⟩
      · exact hok l' (by simp [hl'])
    · rw [hser]; exact hs2
    · rw [hser]
      simp only [List.append_assoc]
      rw [hs1]
      simp [srcOf, SLine.bytes, pbytes_append, pbytes, SPiece.bytes, SP]
    · cases L0 with
      | nil => exact hends
      | cons l1 L1 => exact hends
  · rename_i k rest _ _ _ hnil ih
    rw [FlatOK.eq_5 ext k rest ‹_› ‹_› ‹_›] at h
    obtain ⟨l, L, hl, _⟩ := ih h.2
    rw [hnil] at hl
    cases hl

end CM.Proofs.InlSer
