import CM.Proofs.InlCoverPos
/-
C03, inline half — `unparsedPos` never decreases during `parseRun`: the tokenizer.
-/
namespace CM.Proofs.InlH
open CM CM.Model CM.Model.Inl CM.Gen
open Std.Do

set_option mvcgen.warning false

theorem tokC_uge (r : FRp) (c : ICtx) (s : IState) (b : UInt8) (pos plainStart : Int) (done : Bool) :
    ⦃fun st => ⌜UGe r st⌝⦄ tokC c s b pos plainStart done ⦃⇓? _ st => ⌜UGe r st⌝⦄ := by
  mvcgen [tokC, isLastSpan, addText, addLeaf_uge, parseBackslash_uge, -addLeaf_spec, -addLeaf_specS, -addLeaf_specP,
    -parseBackslash_spec, -parseBackslash_specS, -parseBackslash_specP, -tokC_specP]
  uge_close

theorem tokSp_uge (r : FRp) (c : ICtx) (s : IState) (pos plainStart : Int) (done : Bool) :
    ⦃fun st => ⌜UGe r st⌝⦄ tokSp c s pos plainStart done ⦃⇓? _ st => ⌜UGe r st⌝⦄ := by
  mvcgen [tokSp, isLastSpan, addText, setIgnoreNextIndent, addLeaf_uge, -addLeaf_spec, -addLeaf_specS, -addLeaf_specP,
    -tokSp_specP]
  uge_close

theorem tokCode_uge (r : FRp) (c : ICtx) (pos plainStart : Int) (done : Bool) :
    ⦃fun st => ⌜UGe r st⌝⦄ tokCode c pos plainStart done ⦃⇓? _ st => ⌜UGe r st⌝⦄ := by
  mvcgen [tokCode, addText, addLeaf_uge, parseCodeSpan_uge, collectCodeSpan_uge, -addLeaf_spec, -addLeaf_specS,
    -addLeaf_specP, -parseCodeSpan_spec, -collectCodeSpan_spec, -collectCodeSpan_specS, -tokCode_specP]
  uge_close

theorem tokLt_uge (r : FRp) (c : ICtx) (s : IState) (pos plainStart : Int) (done : Bool) :
    ⦃fun st => ⌜st = s ∧ UGe r st⌝⦄ tokLt c s pos plainStart done ⦃⇓? _ st => ⌜UGe r st⌝⦄ := by
  mvcgen [tokLt, addText, alloc, addToRoot, nodeLen, getNode, setParent, modifyNode, setUnparsedPos, unparsedFrom,
    addLeaf_uge, -addToRoot_spec, -addToRoot_specS, -addLeaf_spec, -addLeaf_specS, -addLeaf_specP, -unparsedFrom_spec,
    -tokLt_specP]
  uge_close

theorem tokB_uge (r : FRp) (c : ICtx) (s : IState) (b : UInt8) (pos plainStart : Int) (done : Bool) :
    ⦃fun st => ⌜st = s ∧ UGe r st⌝⦄ tokB c s b pos plainStart done ⦃⇓? _ st => ⌜UGe r st⌝⦄ := by
  unfold tokB
  split
  · exact fun st h => tokSp_uge r c s pos plainStart done st h.2
  · split
    · exact fun st h => tokCode_uge r c pos plainStart done st h.2
    · split
      · exact tokLt_uge r c s pos plainStart done
      · exact fun st h => tokC_uge r c s b pos plainStart done st h.2

theorem tokA_uge (r : FRp) (c : ICtx) (s : IState) (b : UInt8) (pos plainStart : Int) (done : Bool) :
    ⦃fun st => ⌜st = s ∧ UGe r st⌝⦄ tokA c s b pos plainStart done ⦃⇓? _ st => ⌜UGe r st⌝⦄ := by
  mvcgen [tokA, addText, alloc, addToRoot, nodeLen, getNode, setParent, modifyNode, pushStack, addLeaf_uge,
    parseDelimiterRun_uge, parseEndBracket_uge, tokB_uge, -addToRoot_spec, -addToRoot_specS, -addLeaf_spec,
    -addLeaf_specS, -addLeaf_specP, -parseDelimiterRun_spec, -parseDelimiterRun_specS, -parseDelimiterRun_specP,
    -parseEndBracket_spec, -parseEndBracket_specS, -parseEndBracket_specP, -tokA_specP]
  uge_close

theorem runBody_uge (r : FRp) (c : ICtx) (x : Nat) (st : TokSt) :
    ⦃fun s => ⌜UGe r s⌝⦄ runBody c x st ⦃⇓? _ s => ⌜UGe r s⌝⦄ := by
  mvcgen [runBody, tokA_uge, -runBody_specP, -tokA_specP]
  uge_close

theorem runMain_uge (r : FRp) (c : ICtx) (pos : Int) :
    ⦃fun s => ⌜UGe r s⌝⦄ runMain c pos ⦃⇓? _ s => ⌜UGe r s⌝⦄ := by
  mvcgen [runMain, setIgnoreNextIndent, spanEnd, addText, addLeaf_uge, runBody_uge, -addLeaf_spec, -addLeaf_specS,
    -addLeaf_specP, -runBody_specP]
  inl_inv (UGe r)
  inl_norm
  all_goals (try (
    intro s h
    cases ‹ForInStep TokSt› <;> exact h))
  uge_close

theorem parseRun'_uge (r : FRp) (c : ICtx) :
    ⦃fun s => ⌜UGe r s⌝⦄ parseRun' c ⦃⇓? _ s => ⌜UGe r s⌝⦄ := by
  mvcgen [parseRun', spanEnd, runMain_uge]
  inl_inv (UGe r)
  uge_close

/-- **`unparsedPos` does not decrease during `parseRun`.** -/
theorem parseRun_uge (c : ICtx) (s0 : IState) :
    ⦃fun s => ⌜s = s0⌝⦄ parseRun c ⦃⇓? _ s => ⌜s0.unparsedPos ≤ s.unparsedPos⌝⦄ := by
  rw [parseRun_eq]
  intro s hs
  exact parseRun'_uge ⟨s0.unparsedPos, false⟩ c s (by rw [show s = s0 from hs]; exact Nat.le_refl _)

end CM.Proofs.InlH
