import CM.Proofs.ParseWholeGrammarBracket2
/-
C05, inline half — the third chain, part 4: the tokenizer pieces.
-/
namespace CM.Proofs.InlH
open CM CM.Model CM.Model.Inl
open Std.Do

set_option mvcgen.warning false

section
variable {c : ICtx}

theorem spanLenI_pos {a b : Int} (ha : 0 ≤ a) (hab : a < b) : spanLenI a b ≠ 0 := by
  unfold spanLenI
  rw [if_pos (by simp; omega)]
  omega

@[spec high + 1]
theorem parseDelimiterRun_specO (start : Int) :
    ⦃fun s => ⌜Om s 0 0⌝⦄ parseDelimiterRun c start ⦃⇓? _ s => ⌜Om s 0 0⌝⦄ := by
  mvcgen [parseDelimiterRun, spanEnd, alloc, pushStack, -parseDelimiterRun_spec, -parseDelimiterRun_specS]
  case inv1 => exact PostCond.mayThrow (fun p s => ⌜Om s 0 0 ∧ start + 1 ≤ p.2⌝)
  all_goals inl_norm
  all_goals inl_subst
  case vc6 =>
    subst_vars
    have h1 := (‹Om _ 0 0 ∧ _›).1
    have h2 := (‹Om _ 0 0 ∧ _›).2
    have h3 := (‹0 ≤ start ∧ _›).1
    exact Om.pushDelim h1 _ _ rfl rfl (spanLenI_pos h3 (by dsimp only; omega)) rfl
  all_goals first
    | assumption
    | exact fun h => h.elim
    | exact fun h => h
    | exact ⟨‹Om _ 0 0›, Int.le_refl _⟩
    | (refine ⟨(‹Om _ 0 0 ∧ _›).1, ?_⟩
       have := (‹Om _ 0 0 ∧ _›).2
       simp -failIfUnchanged +zetaDelta only [] at *
       omega)
    | (subst_vars
       exact Om.pushDelim (‹Om _ 0 0 ∧ _›).1 _ _ rfl rfl
         (spanLenI_pos (‹0 ≤ start ∧ _›).1 (by have := (‹Om _ 0 0 ∧ _›).2; omega)) rfl)

@[spec high + 1]
theorem parseBackslash_specO (start : Int) :
    ⦃fun s => ⌜Om s 0 0⌝⦄ parseBackslash c start ⦃⇓? _ s => ⌜Om s 0 0⌝⦄ := by
  mvcgen [parseBackslash, spanEnd, isLastSpan, setIgnoreNextIndent, -parseBackslash_spec, -parseBackslash_specS]
  all_goals inl_norm
  all_goals inl_subst
  all_goals first
    | assumption
    | exact fun h => h.elim
    | exact fun h => h
    | rfl
    | exact Om.congr ‹Om _ 0 0› rfl rfl rfl

@[spec high + 1]
theorem collectCodeSpan_specO (cs : CodeSpan) :
    ⦃fun s => ⌜Om s 0 0⌝⦄ collectCodeSpan c cs ⦃⇓? _ s => ⌜Om s 0 0⌝⦄ := by
  mvcgen [collectCodeSpan, setUnparsedPos, alloc, -collectCodeSpan_spec, -collectCodeSpan_specS]
  inl_inv (fun s => Om s 0 0)
  all_goals inl_norm
  all_goals inl_subst
  all_goals first
    | assumption
    | exact fun h => h.elim
    | exact fun h => h
    | exact Om.congr ‹Om _ 0 0› rfl rfl rfl
    | (intro h; subst h; exact Om.addRoot ‹Om _ 0 0› _ rfl rfl)
    | (subst_vars; exact Om.addRoot ‹Om _ 0 0› _ rfl rfl)

@[spec high + 1]
theorem importNode_specO (t : Tree) (hk : phr t.label.kind = true) :
    ⦃fun s => ⌜Om s 0 0⌝⦄ importNode t ⦃⇓? _ s => ⌜Om s 0 0⌝⦄ := by
  mvcgen [importNode, alloc, modifyNode, -importNode_spec, -importNode_specS]
  all_goals inl_norm
  all_goals first
    | exact Om.importNode ‹Om _ 0 0› _ rfl hk

end
end CM.Proofs.InlH
