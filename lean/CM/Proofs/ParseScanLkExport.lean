import CM.Proofs.InlSpanExport
import CM.Proofs.ParseScanLkBody

/-
C02, inline half, with `LinkScan2` / `TokScan2` — `parseInlines` keeps the span discipline.
(Generated from `InlSpanExport.lean`: the same proofs with `LinkScan2` in the place of `LinkScan`.)
-/

namespace CM.Proofs.InlH2
open CM CM.Model CM.Model.Inl CM.Gen CM.Spec CM.Proofs CM.Proofs.InlH
open Std.Do

set_option mvcgen.warning false

/-- (A1)/(A2) hold of the arena after `parseBody`. -/
theorem parseBody_arena (L : Lims) (c : ICtx) (hU : UnpOK c L) (hT : TokScan2 c L.hi) (hS : LinkScan2 c L.hi)
    (s s' : IState) (hs : BodyInv L c s) (hr : (parseBody c).run s = .ok ((), s')) :
    ∃ F, F ≤ L.hi ∧ ChainA s'.nodes L.lo F (kidsLS s'.nodes 0) ∧
      ∀ i, 0 < i → i < s'.nodes.size →
        L.lo ≤ (s'.nodes[i]!).start ∧ (s'.nodes[i]!).start ≤ (s'.nodes[i]!).stop ∧ (s'.nodes[i]!).stop ≤ L.hi ∧
        ChainA s'.nodes (s'.nodes[i]!).start (s'.nodes[i]!).stop (kidsLS s'.nodes i) := by
  obtain ⟨F, hsp⟩ := triple_run (parseBody_specP L c hU hT hS) hs hr
  refine ⟨F, hsp.chains.2.1, hsp.chains.1, fun i h0 hi' => ?_⟩
  obtain ⟨a, b, c'⟩ := hsp.node_spans i h0 hi'
  exact ⟨a, b, c', hsp.chains.2.2 i h0 hi'⟩

/-- **The inline phase keeps the span discipline** (C02, inline half). If the inline children `unparsed` of a container
    with span `[cstart, cstop]` are in order inside it (with well-formed finished sub-trees), then so are the new
    inline children `parseInlines` returns, and — recursively — the children of each of them inside their parents
    (`WFL`: spans valid, children inside the parent, siblings in order and disjoint).
    `TokScan2` / `LinkScan2`: the facts about the byte scanners this proof does not establish. -/
theorem parseInlines_spans (x : IExt) (src : Bytes) (srcA : Array UInt8) (matchRef : Bytes → Bool)
    (cstart cstop : Int) (unparsed : List Tree) (h0 : 0 ≤ cstart) (hU : WFL cstart cstop unparsed)
    (hT : TokScan2 (inlCtx x src srcA matchRef unparsed) cstop) (hS : LinkScan2 (inlCtx x src srcA matchRef unparsed) cstop)
    (kids : List Tree) (h : parseInlines x src srcA matchRef cstart cstop unparsed = .ok kids) :
    WFL cstart cstop kids := by
  unfold parseInlines at h
  simp only [] at h
  split at h
  · cases h
  · rename_i u s hrun
    have hk : kids = (exportNode s.nodes (s.nodes.size + 1) 0).children := by
      cases h; rfl
    let L : Lims := ⟨cstart, cstop, h0⟩
    have hUL := UnpOK_of_WFL x src srcA matchRef unparsed L hU
    have hB0 := init_BodyInv L _ hUL hU.le
    have hS0 : S { nodes := #[{ kind := 0, start := cstart, stop := cstop }], parentMap := #[none] } :=
      ⟨Acyc.singleton _ rfl, by simp, PMOK.empty _⟩
    obtain ⟨F, hsp⟩ := triple_run (parseBody_specP L (inlCtx x src srcA matchRef unparsed) hUL hT hS) hB0 hrun
    have hSs : S s := triple_run (parseBody_specS (c := inlCtx x src srcA matchRef unparsed)) hS0 hrun
    rw [hk]
    exact export_root_WFL hsp.1 hSs.acyc

end CM.Proofs.InlH2
