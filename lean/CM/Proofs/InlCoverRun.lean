import CM.Proofs.InlCoverBracketM
import CM.Proofs.InlSpanRunM
/-
C03, inline half — the hypotheses about the scanners of the tokenizer (`TokCover`), the coverage invariant of the
tokenizer loop, and the last group of cases (`tokC`).
-/
namespace CM.Proofs.InlH
open CM CM.Model CM.Model.Inl CM.Gen CM.Spec
open Std.Do

set_option mvcgen.warning false

/-- **Hypotheses about the scanners of the tokenizer for coverage** (facts about pure code): an autolink ends with `>`;
    every needed byte of the runs inside an HTML tag lies in one of the raw pieces; every needed byte of the runs
    inside a code span lies in a leaf below the CodeSpan node (backticks, stripped spaces and line endings are not
    needed). Asked for where the tokenizer calls the scanners, as in `TokScan`. -/
structure TokCover (c : ICtx) : Prop where
  autolink : ∀ l : Bytes, 0 ≤ parseAutolink l → l[(parseAutolink l - 1).toNat]? = some 0x3E
  html : ∀ (u : Nat) (pos : Int) (span : SpanI) (r' : Rd),
    0 ≤ pos → pos < c.srcA.size → c.srcA[pos.toNat]! = 0x3C →
    parseHTMLTag c.src c.fl (newReader (c.unparsedL.drop u) pos.toNat) = (span, r') → span.isValid = true →
    ∀ j, pos ≤ j → j < span.stop → InRun c j → NeedAt c j →
      CovP span.start span.stop
        (collectTextNodes c.x.ext c.src span.stop.toNat IK.rawHTML false c.fl
          (newReader (c.unparsedL.drop u) span.start.toNat) span.start.toNat []) j
  code : ∀ (s s' : IState) (pos : Int) (cs : CodeSpan),
    0 ≤ pos → pos < c.srcA.size → c.srcA[pos.toNat]! = 0x60 →
    (parseCodeSpan c pos).run s = .ok (cs, s') → s.unparsedPos < c.unparsed.size → pos < spanEndOf c s →
    cs.span.isValid = true →
    ∀ t t' : IState, t.unparsedPos = s.unparsedPos → (collectCodeSpan c cs).run t = .ok ((), t') →
      ∀ j, pos ≤ j → j < cs.span.stop → InRun c j → NeedAt c j → CovN (t'.nodes[t.nodes.size]!) j

/-- The coverage invariant of the tokenizer loop on `(pos, plainStart, done)`: the needed bytes of the runs below
    `plainStart` are covered (those of `[plainStart, pos)` will be by the next `addText`). -/
def RunCov (c : ICtx) (v : TokSt) (s : IState) : Prop := StkNN c s ∧ CovBelow c s.nodes v.2.1

theorem CovBelow.addText {c : ICtx} {a a' : Array INode} {G a0 e : Int} (h : CovBelow c a G) (hk : Keep c a a')
    (hc : CovAll a' a0 e) (ha : a0 ≤ G) : CovBelow c a' (max G e) := by
  intro j hj hr hn
  rcases Int.lt_or_le j G with hlt | hge
  · exact hk j hn (h j hlt hr hn)
  · exact hc j (by omega) (by omega)

theorem CovBelow.of_eq {c : ICtx} {a : Array INode} {G G' : Int} (h : CovBelow c a G) (e : G = G') :
    CovBelow c a G' := e ▸ h

theorem noNeed_beq {c : ICtx} {p : Int} {b k : UInt8} (hb : b = c.srcA[p.toNat]!) (hk : (b == k) = true)
    (hn : needsCover k = false) : NoNeed c p (p + 1) :=
  noNeed_of_eq (b := k) (by rw [← hb]; simpa using hk) hn

theorem needs_beq {c : ICtx} {p : Int} {b k : UInt8} (hb : b = c.srcA[p.toNat]!) (hk : (b == k) = true)
    (hn : needsCover k = false) : needsCover (c.srcA[p.toNat]!) = false := by
  rw [← hb, show b = k by simpa using hk]; exact hn

set_option hygiene false in
/-- the common start of the verification conditions of the `tok` functions -/
macro "tok_setupC" : tactic =>
  `(tactic| (
    obtain ⟨hs0, ⟨hsp, hpp, hpo⟩, hu, hlt, hnn0, hcb⟩ := ‹_ = _ ∧ RunInv _ _ _ _ ∧ _›
    subst hs0
    have hhi := hU.se_le hu
    have hnn := L.nn
    have hlo := hsp.lo_le
    inl_subst
    simp -failIfUnchanged only [Bool.not_eq_true, Bool.not_eq_false', Bool.not_eq_true', Bool.not_eq_false] at *
    subst_vars
    simp -failIfUnchanged +zetaDelta only [forall_const, true_implies, decide_eq_true_eq, ge_iff_le, Int.not_le,
      Int.not_lt, Bool.not_eq_true] at *))

theorem tokC_cov (L : Lims) (c : ICtx) (hU : UnpOK c L) (hT : TokScan c L.hi) (s : IState) (b : UInt8)
    (pos plainStart : Int) (done : Bool) (hb : 0 ≤ pos ∧ pos < c.srcA.size ∧ b = c.srcA[pos.toNat]!) :
    ⦃fun st => ⌜st = s ∧ RunInv L c (pos, plainStart, done) s ∧ s.unparsedPos < c.unparsed.size ∧
        pos < spanEndOf c s ∧ StkNN c s ∧ CovBelow c s.nodes plainStart⌝⦄
    tokC c s b pos plainStart done
    ⦃⇓? r st => ⌜RunCov c r.value st⌝⦄ := by
  mvcgen [tokC, isLastSpan, addText, -tokC_specP, -addLeaf_specP, -parseBackslash_specP]
  all_goals (try (exact fun h => h))
  all_goals (try (exact ExceptConds.entails.refl _))
  all_goals tok_setupC
  all_goals unp_norm
  all_goals (try (have hce := charEsc_le hT ‹0 ≤ pos› ‹pos ≤ _› ‹_ ≤ (c.srcA.size : Int)› ‹_ = Array.toList _›))
  -- the preconditions
  all_goals (try (first
    | (refine ⟨trivial, ?_, ?_, ?_⟩
       · first | assumption | (apply SP.mono; assumption; omega; omega)
       · omega
       · assumption)
    | (refine ⟨trivial, ?_, ?_, ?_, ?_, ?_⟩
       · first | assumption | (apply SP.mono; assumption; omega; omega)
       · omega
       · omega
       · assumption
       · exact needs_beq ‹b = _› ‹(b == 92) = true› (by decide +kernel))))
  -- nothing happened
  all_goals (try (exact ⟨hnn0, hcb⟩))
  -- the postconditions
  all_goals (
    refine ⟨?_, ?_⟩
    · assumption
    have P1 := hcb.step (by assumption) (CovAll.seg ‹CovAll _ plainStart pos›)
    first
    | exact P1.step (by assumption) (by assumption)
    | exact P1.step (by assumption) (CovAll.seg (by assumption))
    | exact P1.step (Keep.refl _ _) (CovSeg.of_noNeed (noNeed_beq ‹b = _› ‹(b == LF) = true› (by decide +kernel)))
    | exact P1.step (Keep.refl _ _) (CovSeg.of_noNeed (noNeed_beq ‹b = _› ‹(b == CR) = true› (by decide +kernel)))
    | exact (P1.step (Keep.refl _ _) (CovSeg.of_noNeed ((noNeed_beq ‹b = _› ‹(b == CR) = true› (by decide +kernel)).append
        (noNeed_of_eq ‹c.srcA[Int.toNat (pos + 1)]! = LF› (by decide +kernel))))).of_eq (by dsimp only; omega))

end CM.Proofs.InlH
