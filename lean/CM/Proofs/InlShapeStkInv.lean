import CM.Proofs.InlShapeStk
/-
C13, inline half — emphasis, strong emphasis, links, images: the state invariant `Wv`, part 2: the primitives and
`wrap` (a FOURTH chain of specifications, priority 30000; it imports the others).
-/
namespace CM.Proofs.InlH
open CM CM.Model CM.Model.Inl
open Std.Do

set_option mvcgen.warning false

/-- The invariant on the two components of the state it speaks about. -/
structure Wg (c : ICtx) (Q : Nat → Int → Int → Prop) (E X : Nat → Prop) (a : Array INode) (st : Array DelimE) : Prop where
  stk : StkE c E a st
  em : EmNodes c Q X a
  root : KindP (· = 0) a 0

def NoN : Nat → Prop := fun _ => False

/-- The state invariant for emphasis / links. -/
abbrev Wv (c : ICtx) (Q : Nat → Int → Int → Prop) (s : IState) : Prop := Wg c Q NoN NoN s.nodes s.stack

section
variable {c : ICtx} {Q : Nat → Int → Int → Prop} {E X : Nat → Prop} {a : Array INode} {st : Array DelimE}

theorem Wg.push {n : INode} (h : Wg c Q E X a st) (hn : X a.size ∨ EmP c Q n) : Wg c Q E X (a.push n) st :=
  ⟨h.stk.pushN, h.em.push hn, h.root.push⟩

theorem Wg.modify_pres {id : Nat} {f : INode → INode} (h : Wg c Q E X a st) (hf : FPres f) :
    Wg c Q E X (a.modify id f) st :=
  ⟨h.stk.modify_pres hf, h.em.modify_pres hf, h.root.modify (fun n => (hf n).1)⟩

theorem Wg.del (h : Wg c Q E X a st) (i j : Nat) (hij : i ≤ j) :
    Wg c Q E X a (st.extract 0 i ++ st.extract j st.size) := ⟨h.stk.del i j hij, h.em, h.root⟩

theorem Wg.setStack {st' : Array DelimE} (h : Wg c Q E X a st) (hs : StkE c E a st') : Wg c Q E X a st' :=
  ⟨hs, h.em, h.root⟩

/-- normalise a goal `Wv c Q s'` about a symbolically executed state -/
macro "inl_stateW" : tactic =>
  `(tactic| (simp -failIfUnchanged +zetaDelta only []; try refine ⟨trivial, ?_⟩
             show Wg _ _ _ _ _ _; try dsimp only))

theorem fpres_kids (ks : INode → Array Nat) : FPres (fun n => { n with kids := ks n }) := fun _ => ⟨rfl, rfl, rfl⟩

@[spec 30000]
theorem addToRoot_specW (id : Nat) (s0 : IState) :
    ⦃fun s => ⌜s = s0 ∧ Wg c Q E X s.nodes s.stack⌝⦄ addToRoot id
    ⦃⇓? _ s => ⌜Wg c Q E X s.nodes s.stack ∧ s.stack = s0.stack ∧ s.unparsedPos = s0.unparsedPos⌝⦄ := by
  mvcgen [addToRoot, nodeLen, getNode, setParent, modifyNode, -addToRoot_spec, -addToRoot_specS, -addToRoot_specT]
  · obtain ⟨rfl, h⟩ := ‹_ = s0 ∧ Wg _ _ _ _ _ _›
    exact ⟨h, rfl, rfl⟩
  · obtain ⟨rfl, h⟩ := ‹_ = s0 ∧ Wg _ _ _ _ _ _›
    refine ⟨?_, rfl, rfl⟩
    simp -failIfUnchanged +zetaDelta only []
    exact h.modify_pres (fpres_kids _)

def NotEm (k : Nat) : Prop := k ≠ IK.emphasis ∧ k ≠ IK.strong ∧ k ≠ IK.link ∧ k ≠ IK.image

theorem EmP.notEm {n : INode} (h : NotEm n.kind) : EmP c Q n := EmP.other h.1 h.2.1 h.2.2.1 h.2.2.2

@[spec 30000]
theorem addLeaf_specW (kind : Nat) (a b : Int) (hk : NotEm kind) (s0 : IState) :
    ⦃fun s => ⌜s = s0 ∧ Wv c Q s⌝⦄ addLeaf kind a b
    ⦃⇓? _ s => ⌜Wv c Q s ∧ s.stack = s0.stack ∧ s.unparsedPos = s0.unparsedPos⌝⦄ := by
  mvcgen [addLeaf, alloc, addToRoot, nodeLen, getNode, setParent, modifyNode, -addLeaf_spec, -addLeaf_specS,
    -addLeaf_specT, -addToRoot_specT, -addToRoot_spec, -addToRoot_specS, -addToRoot_specW]
  all_goals
    obtain ⟨rfl, h⟩ := ‹_ = s0 ∧ Wv c Q _›
    first
      | exact ⟨h, rfl, rfl⟩
      | (refine ⟨?_, rfl, rfl⟩
         inl_stateW
         exact h.push (Or.inr (EmP.notEm hk)))
      | (refine ⟨?_, rfl, rfl⟩
         inl_stateW
         exact (h.push (Or.inr (EmP.notEm hk))).modify_pres (fpres_kids _))

@[spec 30000]
theorem importNode_specW (t : Tree) (hφ : EmP c Q (ofTree t)) :
    ⦃fun s => ⌜Wv c Q s⌝⦄ importNode t ⦃⇓? _ s => ⌜Wv c Q s⌝⦄ := by
  mvcgen [importNode, alloc, modifyNode, -importNode_spec, -importNode_specS, -importNode_specT]
  rename_i s h _
  inl_stateW
  exact (Wg.push h (Or.inr hφ)).modify_pres (fpres_kids _)

@[spec 30000]
theorem removeNode_specW (id : Nat) :
    ⦃fun s => ⌜Wv c Q s⌝⦄ removeNode id ⦃⇓? _ s => ⌜Wv c Q s⌝⦄ := by
  mvcgen [removeNode, setParent, modifyNode, -removeNode_spec, -removeNode_specS, -removeNode_specT]
  · rename_i h _ _ _ _
    inl_stateW
    exact Wg.modify_pres h (fpres_kids _)
  · intro h; exact h.elim

@[spec 30000]
theorem delStack_specW (i j : Nat) :
    ⦃fun s => ⌜Wv c Q s⌝⦄ delStack i j ⦃⇓? _ s => ⌜Wv c Q s⌝⦄ := by
  mvcgen [delStack, -delStack_spec, -delStack_specS, -delStack_specT]
  have h := ‹Wv c Q _›
  have hc := ‹¬(_ || _ || _) = true›
  inl_stateW
  exact Wg.del h i j (by simp at hc; omega)

/-! ### `wrap`: its effect on kinds / spans and on the stack, independently of any invariant -/

/-- kind and span of a node -/
def Fl (n : INode) : Nat × Int × Int := (n.kind, n.start, n.stop)

/-- What `wrap kind sn en` does to the state `s0`, as far as kinds, spans and the stack are concerned: one new node,
    `s0.nodes.size`, of kind `kind` that starts at the end of `sn` (and ends at the start of `en`). -/
def WrapFr (s0 : IState) (kind sn : Nat) (en : Option Nat) (s : IState) : Prop :=
  s.stack = s0.stack ∧ s.unparsedPos = s0.unparsedPos ∧ s.nodes.size = s0.nodes.size + 1 ∧
  (∀ i, i < s0.nodes.size → Fl (s.nodes[i]!) = Fl (s0.nodes[i]!)) ∧
  (s.nodes[s0.nodes.size]!).kind = kind ∧ (s.nodes[s0.nodes.size]!).start = (s0.nodes[sn]!).stop ∧
  (∀ e, en = some e → (s.nodes[s0.nodes.size]!).stop = (s0.nodes[e]!).start)

theorem WrapFr.modify_pres {s0 : IState} {kind sn : Nat} {en : Option Nat} {s s' : IState} {id : Nat} {f : INode → INode}
    (hf : FPres f) (h : WrapFr s0 kind sn en s) (hn : s'.nodes = s.nodes.modify id f) (hs : s'.stack = s.stack)
    (hu : s'.unparsedPos = s.unparsedPos) : WrapFr s0 kind sn en s' := by
  obtain ⟨h1, h2, h3, h4, h5, h6, h7⟩ := h
  have key' : ∀ j : Nat, ((s.nodes.modify id f)[j]!).kind = (s.nodes[j]!).kind ∧
      ((s.nodes.modify id f)[j]!).start = (s.nodes[j]!).start ∧ ((s.nodes.modify id f)[j]!).stop = (s.nodes[j]!).stop := by
    intro j
    by_cases hij : id = j
    · subst hij
      by_cases hj : id < s.nodes.size
      · rw [get!_modify_eq hj]; exact hf _
      · rw [getElem!_neg (s.nodes.modify id f) id (by simpa using hj), getElem!_neg s.nodes id hj]
        exact ⟨rfl, rfl, rfl⟩
    · rw [get!_modify_ne hij]; exact ⟨rfl, rfl, rfl⟩
  have key : ∀ j : Nat, Fl ((s.nodes.modify id f)[j]!) = Fl (s.nodes[j]!) := by
    intro j
    unfold Fl
    rw [(key' j).1, (key' j).2.1, (key' j).2.2]
  unfold WrapFr
  rw [hn, hs, hu]
  refine ⟨h1, h2, by simpa using h3, fun i hi => by rw [key]; exact h4 i hi, ?_, ?_, ?_⟩
  · rw [(key' _).1]; exact h5
  · rw [(key' _).2.1]; exact h6
  · intro e he
    rw [(key' _).2.2]; exact h7 e he

theorem WrapFr.init (s0 : IState) (kind sn : Nat) (en : Option Nat) (stop : Int) (pm : Array (Option Nat)) (ig : Bool)
    (hstop : ∀ e, en = some e → stop = (s0.nodes[e]!).start) :
    WrapFr s0 kind sn en ⟨s0.nodes.push { kind := kind, start := (s0.nodes[sn]!).stop, stop := stop }, pm,
      s0.unparsedPos, s0.stack, ig⟩ := by
  refine ⟨rfl, rfl, by simp, fun i hi => ?_, ?_, ?_, fun e he => ?_⟩
  · show Fl ((s0.nodes.push _)[i]!) = _
    rw [getElem!_push_lt hi]
  · show ((s0.nodes.push _)[s0.nodes.size]!).kind = kind
    rw [getElem!_push_size]
  · show ((s0.nodes.push _)[s0.nodes.size]!).start = _
    rw [getElem!_push_size]
  · show ((s0.nodes.push _)[s0.nodes.size]!).stop = _
    rw [getElem!_push_size]; exact hstop e he

theorem WrapFr.modify_pres' {s0 : IState} {kind sn : Nat} {en : Option Nat} {s : IState} {f : INode → INode}
    (h : WrapFr s0 kind sn en s) (hf : FPres f) (id : Nat) (pm : Array (Option Nat)) (ig : Bool) :
    WrapFr s0 kind sn en ⟨s.nodes.modify id f, pm, s.unparsedPos, s.stack, ig⟩ :=
  WrapFr.modify_pres hf h rfl rfl rfl

theorem fl_modify {a : Array INode} {id : Nat} {f : INode → INode} (hf : FPres f) (j : Nat) :
    Fl ((a.modify id f)[j]!) = Fl (a[j]!) := by
  by_cases hij : id = j
  · subst hij
    by_cases hj : id < a.size
    · rw [get!_modify_eq hj]; unfold Fl; rw [(hf _).1, (hf _).2.1, (hf _).2.2]
    · rw [getElem!_neg (a.modify id f) id (by simpa using hj), getElem!_neg a id hj]
  · rw [get!_modify_ne hij]

theorem fl_modify_kids (a : Array INode) (id : Nat) (ks : Array Nat) (j : Nat) :
    Fl ((a.modify id (fun n => { n with kids := ks }))[j]!) = Fl (a[j]!) :=
  fl_modify (f := fun n => { n with kids := ks }) (fun _ => ⟨rfl, rfl, rfl⟩) j

theorem WrapFr.of_fl {s0 : IState} {kind sn : Nat} {en : Option Nat} {s s' : IState} (h : WrapFr s0 kind sn en s)
    (hs : s'.stack = s.stack) (hu : s'.unparsedPos = s.unparsedPos) (hsz : s'.nodes.size = s.nodes.size)
    (hf : ∀ j : Nat, Fl (s'.nodes[j]!) = Fl (s.nodes[j]!)) : WrapFr s0 kind sn en s' := by
  obtain ⟨h1, h2, h3, h4, h5, h6, h7⟩ := h
  have key : ∀ j : Nat, (s'.nodes[j]!).kind = (s.nodes[j]!).kind ∧ (s'.nodes[j]!).start = (s.nodes[j]!).start ∧
      (s'.nodes[j]!).stop = (s.nodes[j]!).stop := by
    intro j
    have := hf j
    unfold Fl at this
    simpa using this
  refine ⟨by rw [hs]; exact h1, by rw [hu]; exact h2, by rw [hsz]; exact h3, fun i hi => by rw [hf]; exact h4 i hi, ?_, ?_, ?_⟩
  · rw [(key _).1]; exact h5
  · rw [(key _).2.1]; exact h6
  · intro e he; rw [(key _).2.2]; exact h7 e he

theorem WrapFr.same {s0 : IState} {kind sn : Nat} {en : Option Nat} {s s' : IState}
    (h : WrapFr s0 kind sn en s) (hn : s'.nodes = s.nodes) (hs : s'.stack = s.stack)
    (hu : s'.unparsedPos = s.unparsedPos) : WrapFr s0 kind sn en s' := by
  unfold WrapFr at *
  rw [hn, hs, hu]; exact h

@[spec 30000]
theorem wrap_specW (kind sn : Nat) (en : Option Nat) (s0 : IState) :
    ⦃fun s => ⌜s = s0⌝⦄ wrap kind sn en ⦃⇓? r s => ⌜r = s0.nodes.size ∧ WrapFr s0 kind sn en s⌝⦄ := by
  mvcgen [wrap, alloc, setParent, modifyNode, -wrap_spec, -wrap_specS, -wrap_specT]
  inl_inv (fun s => WrapFr s0 kind sn en s)
  inl_norm
  all_goals (try assumption)
  · subst_vars
    simp -failIfUnchanged +zetaDelta only []
    refine WrapFr.init _ kind sn en _ _ _ ?_
    intro e he
    subst he
    rfl
  · have h := ‹WrapFr s0 kind sn en _›
    simp -failIfUnchanged +zetaDelta only []
    refine WrapFr.of_fl h rfl rfl (by simp) (fun j => ?_)
    dsimp only
    rw [fl_modify_kids, fl_modify_kids]
  · subst_vars
    exact ⟨rfl, ‹WrapFr _ kind sn en _›⟩
  · intro h; exact h.elim

end

end CM.Proofs.InlH
