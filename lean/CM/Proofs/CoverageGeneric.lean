import CM.Spec.TreeWF
/-
C03, part A — "no byte is covered by more than one leaf" follows from the span discipline of C02, for EVERY tree.

`leaves root` = childless inline nodes and list-marker blocks (`Spec.isLeaf`). Two leaves can only overlap if one is an
ancestor of the other or if two siblings overlap. The span discipline (`spanValid`, `childrenInside`, `siblingsOrdered`
at every node) rules out the second; the first can only happen below a list marker (a childless inline node has no
descendants). So the statement as first written (`no_duplication_target`) is FALSE: a list-marker block with a text child
is a counterexample (`no_duplication_target_false`). With the extra clause "list markers have no children"
(`markerChildless`; part of the node grammar `Spec.grammarAt`), it is a theorem: `no_duplication`.
-/
namespace CM.Proofs.Cov
open CM CM.Spec CM.Spec.T

/-- The per-node clause of `Spec.spansOK`. -/
def nodeOK (n : Nat) (t : Tree) : Bool := spanValid n t && childrenInside t && siblingsOrdered t.children

/-- A list marker has no children (a clause of `Spec.grammarAt`). -/
def markerChildless (t : Tree) : Bool := !isB t BK.listMarker || t.children.isEmpty

/-- `j` lies in the span of `t`. -/
def covers (j : Nat) (t : Tree) : Bool := start t ≤ j && (j : Int) < stop t

theorem coverCount_def (ls : List Tree) (j : Nat) : coverCount ls j = ls.countP (covers j) := rfl

theorem coverCount_append (a b : List Tree) (j : Nat) : coverCount (a ++ b) j = coverCount a j + coverCount b j := by
  simp only [coverCount, List.countP_append]

theorem coverCount_nil (j : Nat) : coverCount [] j = 0 := rfl

theorem coverCount_cons (t : Tree) (ls : List Tree) (j : Nat) :
    coverCount (t :: ls) j = coverCount ls j + (if covers j t then 1 else 0) := by
  rw [coverCount_def, coverCount_def, List.countP_cons]

theorem covers_iff (j : Nat) (t : Tree) : covers j t = true ↔ start t ≤ j ∧ (j : Int) < stop t := by
  simp only [covers, Bool.and_eq_true, decide_eq_true_eq]

theorem nodes_node (l : Label) (cs : List Tree) : nodes (.node l cs) = .node l cs :: nodesL cs := by
  simp only [nodes]

theorem nodesL_nil : nodesL [] = [] := by simp only [nodesL]

theorem nodesL_cons (c : Tree) (cs : List Tree) : nodesL (c :: cs) = nodes c ++ nodesL cs := by
  simp only [nodesL]

/-- The leaves below a node (in document order). -/
def leavesL (cs : List Tree) : List Tree := (nodesL cs).filter isLeaf

theorem leavesL_nil : leavesL [] = [] := by simp only [leavesL, nodesL_nil, List.filter_nil]

theorem leavesL_cons (c : Tree) (cs : List Tree) : leavesL (c :: cs) = leaves c ++ leavesL cs := by
  simp only [leavesL, leaves, nodesL_cons, List.filter_append]

theorem leaves_node (l : Label) (cs : List Tree) :
    leaves (.node l cs) = if isLeaf (.node l cs) then .node l cs :: leavesL cs else leavesL cs := by
  simp only [leaves, leavesL, nodes_node, List.filter_cons]

/-- Under `markerChildless`, a leaf has no children. -/
theorem leaf_children {t : Tree} (hl : isLeaf t = true) (hm : markerChildless t = true) : t.children = [] := by
  simp only [isLeaf, markerChildless, Bool.or_eq_true, Bool.and_eq_true, Bool.not_eq_true', List.isEmpty_iff] at hl hm
  rcases hl with hl | hl
  · exact hl.2
  · rcases hm with hm | hm
    · rw [hl] at hm; cases hm
    · exact hm

mutual
/-- One tree: at most one leaf covers `j`, and if one does then `j` is in the span of the tree. -/
theorem cover_tree (n j : Nat) : ∀ t : Tree, (nodes t).all (fun t => nodeOK n t && markerChildless t) = true →
    coverCount (leaves t) j ≤ 1 ∧ (1 ≤ coverCount (leaves t) j → start t ≤ j ∧ (j : Int) < stop t)
  | .node l cs, h => by
    rw [nodes_node, List.all_cons, Bool.and_eq_true, Bool.and_eq_true] at h
    obtain ⟨⟨hok, hm⟩, hcs⟩ := h
    simp only [nodeOK, Bool.and_eq_true] at hok
    obtain ⟨⟨hv, hin⟩, hord⟩ := hok
    rw [leaves_node]
    by_cases hl : isLeaf (.node l cs) = true
    · have hnil : cs = [] := leaf_children hl hm
      subst hnil
      simp only [hl, if_true, leavesL_nil, coverCount_cons, coverCount_nil, Nat.zero_add]
      by_cases hc : covers j (.node l []) = true
      · simp only [hc, if_true]
        exact ⟨Nat.le_refl _, fun _ => (covers_iff _ _).mp hc⟩
      · simp only [hc]
        exact ⟨by decide, fun h => absurd h (by decide)⟩
    · simp only [hl]
      have ih := cover_list n j cs hcs hord
      refine ⟨ih.1, fun h1 => ?_⟩
      obtain ⟨⟨c, hc, hc1, hc2⟩, _⟩ := ih.2 h1
      simp only [childrenInside, Tree.children, List.all_eq_true, Bool.and_eq_true, decide_eq_true_eq] at hin
      have := hin c hc
      exact ⟨by omega, by omega⟩
/-- Ordered siblings: at most one leaf below them covers `j`; if one does then `j` lies in the span of one of the
    siblings, and not before the first one. -/
theorem cover_list (n j : Nat) : ∀ cs : List Tree, (nodesL cs).all (fun t => nodeOK n t && markerChildless t) = true →
    siblingsOrdered cs = true →
    coverCount (leavesL cs) j ≤ 1 ∧
    (1 ≤ coverCount (leavesL cs) j →
      (∃ c ∈ cs, start c ≤ j ∧ (j : Int) < stop c) ∧ (∀ c rest, cs = c :: rest → start c ≤ j))
  | [], _, _ => by
    rw [leavesL_nil, coverCount_nil]
    exact ⟨by decide, fun h => absurd h (by decide)⟩
  | c :: rest, h, hord => by
    rw [nodesL_cons, List.all_append, Bool.and_eq_true] at h
    obtain ⟨hc, hrest⟩ := h
    have hordr : siblingsOrdered rest = true := by
      cases rest with
      | nil => rfl
      | cons b r => simp only [siblingsOrdered, Bool.and_eq_true] at hord; exact hord.2
    have ihc := cover_tree n j c hc
    have ihr := cover_list n j rest hrest hordr
    -- `c` itself has a valid span
    have hcv : start c ≤ stop c := by
      cases c with
      | node lc ccs =>
        rw [nodes_node, List.all_cons, Bool.and_eq_true] at hc
        have := hc.1
        simp only [nodeOK, spanValid, Bool.and_eq_true, decide_eq_true_eq] at this
        exact this.1.1.1.1.2
    rw [leavesL_cons, coverCount_append]
    -- if a leaf below `c` covers `j`, none below `rest` does
    have hexcl : 1 ≤ coverCount (leaves c) j → coverCount (leavesL rest) j = 0 := by
      intro h1
      have hj := (ihc.2 h1).2
      cases rest with
      | nil => rw [leavesL_nil, coverCount_nil]
      | cons b r =>
        simp only [siblingsOrdered, Bool.and_eq_true, decide_eq_true_eq] at hord
        by_cases h2 : 1 ≤ coverCount (leavesL (b :: r)) j
        · have := (ihr.2 h2).2 b r rfl
          omega
        · omega
    refine ⟨?_, fun h1 => ?_⟩
    · by_cases h1 : 1 ≤ coverCount (leaves c) j
      · have := hexcl h1; have := ihc.1; omega
      · have := ihr.1; omega
    · by_cases h2 : 1 ≤ coverCount (leaves c) j
      · have hj := ihc.2 h2
        refine ⟨⟨c, List.mem_cons_self, hj⟩, fun c' rest' e => ?_⟩
        cases e
        exact hj.1
      · have h3 : 1 ≤ coverCount (leavesL rest) j := by omega
        obtain ⟨⟨d, hd, hd1, hd2⟩, hfirst⟩ := ihr.2 h3
        refine ⟨⟨d, List.mem_cons_of_mem _ hd, hd1, hd2⟩, fun c' rest' e => ?_⟩
        cases e
        cases rest with
        | nil => cases hd
        | cons b r =>
          simp only [siblingsOrdered, Bool.and_eq_true, decide_eq_true_eq] at hord
          have := hfirst b r rfl
          omega
end

/-- **C03, "not duplicated".** In a tree whose nodes all satisfy the span discipline of C02 (valid span, children inside,
    siblings ordered) and whose list markers have no children, no position is covered by more than one leaf. -/
theorem no_duplication (n : Nat) (root : Tree)
    (h : (nodes root).all (fun t => spanValid n t && childrenInside t && siblingsOrdered t.children) = true)
    (hm : (nodes root).all markerChildless = true) :
    ∀ j : Nat, coverCount (leaves root) j ≤ 1 := by
  intro j
  refine (cover_tree n j root ?_).1
  rw [List.all_eq_true] at h hm ⊢
  intro t ht
  rw [Bool.and_eq_true]
  exact ⟨h t ht, hm t ht⟩

/-- The statement without the list-marker clause. -/
def no_duplication_target : Prop :=
  ∀ (n : Nat) (root : Tree),
    (nodes root).all (fun t => spanValid n t && childrenInside t && siblingsOrdered t.children) = true →
    ∀ j : Nat, coverCount (leaves root) j ≤ 1

/-- A list marker `[0,2)` with a text child `[0,2)`: both are leaves. -/
def dupWitness : Tree :=
  .node { isBlock := true, kind := BK.listMarker, start := 0, stop := 2 }
    [.node { isBlock := false, kind := IK.text, start := 0, stop := 2 } []]

/-- The statement without the list-marker clause is false. -/
theorem no_duplication_target_false : ¬ no_duplication_target := by
  intro h
  have := h 2 dupWitness (by decide) 0
  revert this
  decide

/-- A weaker sufficient form of the extra clause: the node grammar of C05 at every node. -/
theorem markerChildless_of_grammarAt {t : Tree} (h : grammarAt t = true) : markerChildless t = true := by
  simp only [markerChildless, isB, Bool.or_eq_true, Bool.not_eq_true', Bool.and_eq_false_iff, List.isEmpty_iff]
  by_cases hb : t.label.isBlock = true
  · by_cases hk : (t.label.kind == BK.listMarker) = true
    · right
      have hk' : t.label.kind = 12 := by simpa [BK.listMarker] using hk
      simp only [grammarAt, hb, if_true, hk'] at h
      simpa [BK.paragraph, BK.thematicBreak, BK.atxHeading, BK.setextHeading, BK.indentedCode, BK.fencedCode,
        BK.htmlBlock, BK.linkRefDef, BK.blockQuote, BK.listItem, BK.list, BK.listMarker] using h
    · left; right; simpa using hk
  · left; left; simpa using hb

/-- **Corollary for `Spec.spansOK`.** -/
theorem no_duplication_of_spansOK (src : Bytes) (root : Tree) (h : spansOK src root = true)
    (hm : (nodes root).all markerChildless = true) : ∀ j : Nat, coverCount (leaves root) j ≤ 1 := by
  simp only [spansOK, Bool.and_eq_true] at h
  exact no_duplication src.length root h.1.1.1 hm

/-- **Corollary for `Spec.spansOK` + `Spec.grammar`** (the two run-time checks C02 and C05). -/
theorem no_duplication_of_spansOK_grammar (src : Bytes) (root : Tree) (h : spansOK src root = true)
    (hg : grammar src root = true) : ∀ j : Nat, coverCount (leaves root) j ≤ 1 := by
  refine no_duplication_of_spansOK src root h ?_
  simp only [grammar, Bool.and_eq_true, List.all_eq_true] at hg
  rw [List.all_eq_true]
  intro t ht
  exact markerChildless_of_grammarAt (hg.1.2 t ht).1

/-- The first clause of `Spec.coverage` (read as a statement about every position). -/
theorem coverage_first_clause (src : Bytes) (root : Tree) (h : spansOK src root = true)
    (hm : (nodes root).all markerChildless = true) :
    (List.range src.length).all (fun j => decide (coverCount (leaves root) j ≤ 1)) = true := by
  rw [List.all_eq_true]
  intro j _
  exact decide_eq_true (no_duplication_of_spansOK src root h hm j)

/-! ### Non-vacuity -/

/-- `- ab` as a final tree: list [0,4) > item [0,4) > marker [0,1), paragraph [2,4) > text [2,4). -/
def exTree : Tree :=
  .node { kind := BK.list, start := 0, stop := 4 }
    [.node { kind := BK.listItem, start := 0, stop := 4 }
      [.node { kind := BK.listMarker, start := 0, stop := 1 } [],
       .node { kind := BK.paragraph, start := 2, stop := 4 }
         [.node { isBlock := false, kind := IK.text, start := 2, stop := 4 } []]]]

example : ∀ j, coverCount (leaves exTree) j ≤ 1 :=
  no_duplication 4 exTree (by decide) (by decide)
example : (leaves exTree).length = 2 := by decide
example : coverCount (leaves exTree) 0 = 1 ∧ coverCount (leaves exTree) 1 = 0 ∧ coverCount (leaves exTree) 3 = 1 := by decide
example : ∀ j, coverCount (leaves exTree) j ≤ 1 :=
  no_duplication_of_spansOK_grammar (Bytes.ofString "- ab") exTree (by decide +kernel) (by decide +kernel)

end CM.Proofs.Cov
