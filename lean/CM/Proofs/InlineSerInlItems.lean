import CM.Proofs.InlineSerInl
/-
Inline serialisation — part 12: inline items to pieces (`itemP`), item lists to lines (`toSL`), and their side
conditions (`ItemOK`, `FlatOK`).
-/
namespace CM.Proofs.InlSer
open CM CM.Gen CM.Model CM.Model.Inl CM.Proofs.EscText CM.Spec

def itemP : Inl → List SPiece
  | .word b => wordP b
  | .code b => [.code (codeN b) (codeMid b)]
  | .entity n _ => [.ref (s "&" ++ n ++ s ";")]
  | .autolink u => [.auto u]
  | _ => []

/-- The lines of a list of inline items (mirrors `serInls`). -/
def toSL : List Inl → List SLine
  | [] => [⟨[], .lastLF⟩]
  | [k] => [⟨itemP k, .lastLF⟩]
  | k :: .hardbreak :: rest => ⟨itemP k, .hardSp⟩ :: toSL rest
  | k :: .softbreak :: rest => ⟨itemP k, .soft⟩ :: toSL rest
  | k :: rest =>
    match toSL rest with
    | l :: L => ⟨itemP k ++ .sp :: l.P, l.ending⟩ :: L
    | [] => [⟨itemP k, .lastLF⟩]

/-- The conditions on an item (the acceptance of a reference / autolink by the pure recognisers is a hypothesis). -/
def ItemOK (ext : Ext) : Inl → Prop
  | .word b => b ≠ [] ∧ ∀ ch ∈ b, isWordSafe ch = true ∨ Gen.isASCIIPunctuation ch = true
  | .code b => CodeOK b
  | .entity n _ => ∀ nx, parseCharacterEscape ext (s "&" ++ n ++ s ";" ++ nx) = (((s "&" ++ n ++ s ";").length : Nat) : Int)
  | .autolink u => ∀ nx, parseAutolink (0x3C :: (u ++ [0x3E]) ++ nx) = ((u.length + 2 : Nat) : Int)
  | _ => False

/-- The conditions on an item list: items separated by spaces or breaks, a break is followed by an item. -/
def FlatOK (ext : Ext) : List Inl → Prop
  | [] => False
  | [k] => ItemOK ext k
  | k :: .hardbreak :: rest => ItemOK ext k ∧ FlatOK ext rest
  | k :: .softbreak :: rest => ItemOK ext k ∧ FlatOK ext rest
  | k :: rest => ItemOK ext k ∧ FlatOK ext rest

theorem s_amp : s "&" = [0x26] := by decide +kernel
theorem s_semi : s ";" = [0x3B] := by decide +kernel

theorem inert_of_wordSafe (ch : UInt8) (h : isWordSafe ch = true) : inert ch := by
  unfold inert
  refine ⟨?_, ?_, ?_, ?_, ?_, ?_, ?_, ?_, ?_, ?_, ?_, ?_⟩ <;> (rintro rfl; revert h; decide +kernel)

theorem pbytes_append (P Q : List SPiece) : pbytes (P ++ Q) = pbytes P ++ pbytes Q := by simp [pbytes]

theorem POK_append (ext : Ext) : ∀ (P Q : List SPiece) (eb : Bytes), POK ext P (pbytes Q ++ eb) → POK ext Q eb → POK ext (P ++ Q) eb := by
  intro P
  induction P with
  | nil => intro Q eb _ h; exact h
  | cons x r ih =>
    intro Q eb h1 h2
    have e : pbytes (List.append r Q) ++ eb = pbytes r ++ (pbytes Q ++ eb) := by
      show pbytes (r ++ Q) ++ eb = _
      rw [pbytes_append, List.append_assoc]
    cases x with
    | byte b => exact ⟨h1.1, ih Q eb h1.2 h2⟩
    | esc b => exact ⟨h1.1, ih Q eb h1.2 h2⟩
    | sp => exact ⟨by rw [e]; exact h1.1, ih Q eb h1.2 h2⟩
    | ref t => exact ⟨h1.1, h1.2.1, by rw [e]; exact h1.2.2.1, ih Q eb h1.2.2.2 h2⟩
    | auto u => exact ⟨by rw [e]; exact h1.1, ih Q eb h1.2 h2⟩
    | code n mid =>
      obtain ⟨a1, a2, a3, a4, a5, a6, a7, a8⟩ := h1
      exact ⟨a1, a2, a3, a4, a5, a6, by rw [e]; exact a7, ih Q eb a8 h2⟩

/-- What may follow an item: a byte that is neither a backtick nor NUL. -/
def NextOK (nx : Bytes) : Prop := ∃ x, nx.head? = some x ∧ x ≠ 0x60 ∧ x ≠ 0

theorem POK_wordP (ext : Ext) (b : Bytes) (nx : Bytes) (h : ∀ ch ∈ b, isWordSafe ch = true ∨ Gen.isASCIIPunctuation ch = true) :
    POK ext (wordP b) nx := by
  induction b with
  | nil => trivial
  | cons ch r ih =>
    have ihr := ih (fun c hc => h c (by simp [hc]))
    simp only [wordP, List.map_cons]
    by_cases hs : isWordSafe ch = true
    · rw [if_pos hs]; exact ⟨inert_of_wordSafe ch hs, ihr⟩
    · rw [if_neg hs]
      rcases h ch (by simp) with h1 | h1
      · exact absurd h1 hs
      · exact ⟨h1, ihr⟩

theorem itemPOK (ext : Ext) (k : Inl) (nx : Bytes) (hk : ItemOK ext k) (hnx : NextOK nx) : POK ext (itemP k) nx := by
  cases k with
  | word b => exact POK_wordP ext b nx hk.2
  | code b =>
    obtain ⟨f1, f2, f3, f4, f5, _⟩ := codeMid_facts b hk
    exact ⟨by rw [codeN]; omega, f1, f2, f3, f4, f5, by simpa [pbytes, NextOK] using hnx, trivial⟩
  | entity n d =>
    refine ⟨by simp [s_amp], by simp [s_amp], ?_, trivial⟩
    simpa [pbytes] using hk nx
  | autolink u =>
    refine ⟨?_, trivial⟩
    simpa [pbytes] using hk nx
  | emph _ => exact hk.elim
  | strong _ => exact hk.elim
  | link _ _ _ => exact hk.elim
  | image _ _ _ => exact hk.elim
  | reflink _ _ => exact hk.elim
  | rawtag _ => exact hk.elim
  | intra _ _ _ _ => exact hk.elim
  | hardbreak => exact hk.elim
  | softbreak => exact hk.elim

/-- An item begins with a byte that is no space, tab, NUL. -/
theorem itemStart (ext : Ext) (k : Inl) (hk : ItemOK ext k) :
    ∃ b0 tl, pbytes (itemP k) = b0 :: tl ∧ b0 ≠ SP ∧ b0 ≠ TAB := by
  cases k with
  | word b =>
    obtain ⟨hne, hb⟩ := hk
    cases b with
    | nil => exact absurd rfl hne
    | cons ch r =>
      by_cases hs : isWordSafe ch = true
      · refine ⟨ch, pbytes (wordP r), by simp [itemP, wordP, pbytes, hs, SPiece.bytes], ?_, ?_⟩ <;>
          (rintro rfl; revert hs; decide +kernel)
      · exact ⟨0x5C, ch :: pbytes (wordP r), by simp [itemP, wordP, pbytes, hs, SPiece.bytes], by decide, by decide⟩
  | code b =>
    refine ⟨0x60, List.replicate (maxRun b) 0x60 ++ (codeMid b ++ List.replicate (codeN b) 0x60), ?_, by decide, by decide⟩
    simp only [itemP, pbytes, List.flatMap_cons, List.flatMap_nil, List.append_nil, SPiece.bytes, codeN]
    rw [Nat.add_comm, List.replicate_succ]; rfl
  | entity n d => exact ⟨0x26, n ++ s ";", by simp [itemP, pbytes, SPiece.bytes, s_amp], by decide, by decide⟩
  | autolink u => exact ⟨0x3C, u ++ [0x3E], by simp [itemP, pbytes, SPiece.bytes], by decide, by decide⟩
  | emph _ => exact hk.elim
  | strong _ => exact hk.elim
  | link _ _ _ => exact hk.elim
  | image _ _ _ => exact hk.elim
  | reflink _ _ => exact hk.elim
  | rawtag _ => exact hk.elim
  | intra _ _ _ _ => exact hk.elim
  | hardbreak => exact hk.elim
  | softbreak => exact hk.elim

end CM.Proofs.InlSer
