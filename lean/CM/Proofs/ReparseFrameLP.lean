import CM.Proofs.ReparseFrame
/-
C16, Layer B, part 2: the frame property `RF` lifted to every operation of the line parser, to the block starts, the
opening loop, `addLineText`, `descendOpenBlocks` and `processLine` — for ARBITRARY parser states whose root is a document
block (no invariant needed).
-/
namespace CM.Proofs.Rp
open CM CM.Model CM.Gen CM.Proofs

/-- If the root of `p` is a document block, the root of `p'` is one too, and `RF` relates them. -/
def LF (p p' : LP) : Prop := p.root.label.kind = BK.document → RF p.root p'.root

theorem LF.refl (p : LP) : LF p p := fun _ => RF.refl _

theorem LF.trans {p q r : LP} (h1 : LF p q) (h2 : LF q r) : LF p r := by
  intro hk
  have a := h1 hk
  exact a.trans (h2 (by rw [a.kind]; exact hk))

theorem LF.of_root {p p' : LP} (h : p'.root = p.root) : LF p p' := fun _ => by rw [h]; exact RF.refl _

theorem LF.of_cur {p p' : LP} (h : CurFrame p p') : LF p p' := LF.of_root h.root

/-! ### Cursor operations (step form: `LF p q → LF p (op q)`) -/

theorem lf_advance {p q : LP} (n : Nat) (h : LF p q) : LF p (q.advance n) := h.trans (LF.of_cur (advance_frame q n).1)
theorem lf_consumeIndentN {p q : LP} (n : Nat) (h : LF p q) : LF p (q.consumeIndentN n) :=
  h.trans (LF.of_cur (consumeIndentN_frame q n).1)
theorem lf_consumeLine {p q : LP} (h : LF p q) : LF p q.consumeLine := h.trans (LF.of_cur (consumeLine_frame q).1)
theorem lf_markMatched {p q : LP} (h : LF p q) : LF p q.markMatched := h.trans (LF.of_cur (markMatched_frame q).1)
theorem lf_setPanic {p q : LP} (m : String) (h : LF p q) : LF p (q.setPanic m) := h.trans (LF.of_cur (setPanic_frame q m).1)
theorem lf_setState {p q : LP} (s : Nat) (h : LF p q) : LF p { q with state := s } := h.trans (LF.of_root rfl)
theorem lf_setDepth {p q : LP} (d : Nat) (h : LF p q) : LF p { q with depth := d } := h.trans (LF.of_root rfl)

/-! ### Tree operations -/

theorem rf_replLast_spine (x : PExt) (src : Bytes) (e : Int) (r : PB) (d : Nat) :
    RF r (spineModify (replLast (closeBlock x src e)) r d) :=
  rf_spineModify _ r d (fun _ => rf_replLast_close x src e r) (fun _ c _ => KF.of_label (replLast_same _ c).1)

theorem lf_closeLastChild (x : PExt) {p q : LP} (e : Int) (h : LF p q) : LF p (q.closeLastChild x e) := by
  apply h.trans
  intro _
  show RF q.root (spineReplaceLast (closeBlock x q.source e) q.root q.depth)
  rw [spineReplaceLast_eq]
  exact rf_replLast_spine x q.source e q.root q.depth

/-- Closing the document block itself (end of input). -/
theorem rf_closeDoc (x : PExt) (src : Bytes) (e : Int) (r : PB) (hk : r.label.kind = BK.document) :
    RF r ((closeBlock x src e r).headD r) := by
  cases r with
  | mk l bs is =>
    simp only [PB.label] at hk
    rw [closeBlock]
    by_cases hcl : l.stop ≥ 0
    · simp only [hcl, if_true, List.headD_cons]; exact RF.refl _
    · simp only [hcl, if_false, hk]
      simp only [BK.document, BK.list, BK.paragraph, BK.setextHeading, BK.indentedCode, Nat.reduceBEq, Bool.or_self,
        Bool.false_eq_true, if_false, List.headD_cons]
      have h1 := rf_replLast_close x src e (.mk l bs is)
      refine h1.trans (RF.of_blocks ?_ ?_)
      · simp only [replLast]; cases bs.getLast? <;> (simp only [PB.label]; rw [hk]; rfl)
      · simp only [replLast, closeLast_eq]
        cases hb : bs.getLast? with
        | none => simp only [PB.blocks]; exact (List.getLast?_eq_none_iff.mp hb).symm
        | some c => simp only [PB.blocks]

theorem lf_closeContainer (x : PExt) {p q : LP} (e : Int) (h : LF p q) : LF p (q.closeContainer x e) := by
  apply h.trans
  intro hk
  by_cases hd : q.depth = 0
  · unfold LP.closeContainer
    simp only [hd, beq_self_eq_true, if_true]
    exact rf_closeDoc x q.source e q.root hk
  · rw [closeContainer_eq x q e hd]
    exact rf_replLast_spine x q.source e q.root (q.depth - 1)

theorem lf_openBlockLoop (x : PExt) (kind : Nat) : ∀ (fuel : Nat) {p q : LP}, LF p q → LF p (LP.openBlockLoop x kind fuel q) := by
  intro fuel
  induction fuel with
  | zero => intro p q h; exact h
  | succ fuel ih =>
    intro p q h
    unfold LP.openBlockLoop
    split
    · exact h
    · split
      · exact lf_setPanic _ h
      · exact ih (lf_closeContainer x _ h)

theorem lf_openBlock (x : PExt) {p q : LP} (kind : Nat) (attrs : PLabel → PLabel) (h : LF p q) :
    LF p (q.openBlock x kind attrs) := by
  by_cases hs : q.state = stateDescending ∨ q.state = stateDescendTerminated
  · unfold LP.openBlock
    have : (q.state == stateDescending || q.state == stateDescendTerminated) = true := by
      rcases hs with h' | h' <;> simp [h']
    rw [this]
    simp only [if_true]
    exact lf_setPanic _ h
  · rw [openBlock_eq x q kind attrs hs]
    simp only
    have h2 := lf_openBlockLoop x kind (q.markMatched.depth + 1) (lf_markMatched h)
    apply h2.trans
    intro _
    generalize LP.openBlockLoop x kind (q.markMatched.depth + 1) q.markMatched = p2
    show RF p2.root (spineModify (closeAppend x p2.source p2.lineStart _) p2.root p2.depth)
    refine rf_spineModify _ _ _ (fun _ => ?_) (fun _ c _ => KF.of_label (closeAppend_blocks x _ _ _ c).2.1)
    unfold closeAppend
    exact (rf_replLast_close x _ _ _).trans (rf_appendChild _ _)

theorem lf_appendInline {p q : LP} (t : Tree) (h : LF p q) : LF p (q.appendInline t) := by
  apply h.trans
  intro _
  rw [appendInline_eq]
  show RF q.root (spineModify (appendInl t) q.root q.depth)
  refine rf_spineModify _ _ _ (fun _ => rf_appendInl t _) (fun _ c _ => ?_)
  cases c; exact KF.refl _

/-- `modifyContainer (setLabel g)` for a `g` that keeps the kind. -/
theorem lf_modifyLabel {p q : LP} (g : PLabel → PLabel) (hg : ∀ l, (g l).kind = l.kind) (h : LF p q) :
    LF p (q.modifyContainer (PB.setLabel g)) := by
  apply h.trans
  intro _
  show RF q.root (spineModify (PB.setLabel g) q.root q.depth)
  exact rf_spineModify _ _ _ (fun _ => rf_setLabel g hg _) (fun _ c _ => Or.inl (setLabel_kind_of g hg c))

theorem lf_setContainerIndent {p q : LP} (n : Int) (h : LF p q) : LF p (q.setContainerIndent n) := by
  unfold LP.setContainerIndent
  split
  · exact lf_setPanic _ h
  · split
    · exact lf_setPanic _ h
    · exact lf_modifyLabel _ (fun _ => rfl) h

theorem lf_collectInline (x : PExt) {p q : LP} (kind n : Nat) (h : LF p q) : LF p (q.collectInline x kind n) := by
  by_cases hs : (q.state == stateDescendTerminated) = true
  · unfold LP.collectInline
    rw [if_pos hs]
    exact lf_setPanic _ h
  · obtain ⟨q1, t, e, hq⟩ := collectInline_shape x q kind n hs
    rw [e]
    apply lf_appendInline
    apply lf_advance
    rcases hq with rfl | ⟨k, t0, rfl⟩
    · exact lf_markMatched h
    · exact lf_appendInline _ (lf_advance _ (lf_markMatched h))

theorem lf_endBlock (x : PExt) {p q : LP} (h : LF p q) : LF p (q.endBlock x) := by
  by_cases hs : q.state = stateDescending ∨ q.state = stateDescendTerminated
  · unfold LP.endBlock
    have : (q.state == stateDescending || q.state == stateDescendTerminated) = true := by
      rcases hs with h' | h' <;> simp [h']
    rw [this]
    simp only [if_true]
    exact lf_setPanic _ h
  · rw [endBlock_eq x q hs]
    exact lf_closeContainer x _ (lf_markMatched h)

/-- The relabelling of `startSetext`: the container is a paragraph. -/
theorem lf_setext {p q : LP} (level : Nat) (hk : q.containerKind = BK.paragraph) (h : LF p q) :
    LF p (q.modifyContainer (PB.setLabel fun l => { l with kind := BK.setextHeading, n := level })) := by
  apply h.trans
  intro hdoc
  show RF q.root (spineModify (PB.setLabel _) q.root q.depth)
  have hcont : ∀ c, spineGet q.root q.depth = some c → c.kind = BK.paragraph := by
    intro c hc
    have : q.container = c := container_eq hc
    rw [← this]; exact hk
  refine rf_spineModify _ _ _ (fun hd => ?_) (fun hd c hc => ?_)
  · -- the container would be the document block itself
    exfalso
    have := hcont q.root (by rw [hd]; exact spineGet_zero _)
    unfold PB.kind at this
    rw [hdoc] at this
    exact absurd this (by decide)
  · right
    left
    apply hcont
    rw [hd, spineGet_one]; exact hc

end CM.Proofs.Rp
