import CM.Proofs.InlineSerSeq
/-
Inline serialisation — part 4: the pieces of a line.  A line of a canonical paragraph is a sequence of PIECES — inert
bytes, backslash escapes, single separator spaces, and self-contained constructs that produce one finished node
(`Piece.node`: character references, autolinks, code spans; the side condition of such a piece is its own segment
theorem) — followed by an ENDING (end of the last run, soft break, the two hard breaks).  `pieces_seg`: the pieces of a
line compose to one segment whose transformer pushes exactly the nodes `outP` (by `Seg.trans`).
-/
namespace CM.Proofs.InlSer
open CM CM.Gen CM.Model CM.Model.Inl CM.Proofs.EscText

/-- Push finished nodes, in order. -/
def pushAll (L : List INode) (s : IState) : IState := L.foldl (fun s n => pushP n s) s

theorem pushAll_nil (s : IState) : pushAll [] s = s := rfl
theorem pushAll_append (L1 L2 : List INode) (s : IState) : pushAll (L1 ++ L2) s = pushAll L2 (pushAll L1 s) := by
  simp [pushAll, List.foldl_append]
theorem pushAll_up (L : List INode) (s : IState) : (pushAll L s).unparsedPos = s.unparsedPos := by
  induction L generalizing s with
  | nil => rfl
  | cons n L ih => simp only [pushAll, List.foldl_cons] at ih ⊢; rw [ih]; rfl
theorem pushAll_mkF (cs ce : Int) (up : Nat) (ign : Bool) (L : List INode) (K : Array DelimE) (L' : List INode) :
    pushAll L' (mkF cs ce up ign L K) = mkF cs ce up ign (L ++ L') K := by
  induction L' generalizing L with
  | nil => simp [pushAll]
  | cons n L' ih =>
    simp only [pushAll, List.foldl_cons] at ih ⊢
    rw [pushP_mkF, ih]; simp

def leafN (k : Nat) (a b : Nat) : INode := { kind := k, start := (a : Int), stop := (b : Int) }

/-- The pending plain text `[ps, p)` as a node list. -/
def flushN (ps p : Nat) : List INode := if ps < p then [leafN IK.text ps p] else []

theorem addLeafP_cast (k : Nat) (a b : Nat) : addLeafP k (a : Int) (b : Int) = pushAll (if a < b then [leafN k a b] else []) := by
  funext s
  rw [addLeafP_eq, spanLenI_cast]
  by_cases h : a < b
  · rw [if_neg (by omega), if_pos h]; rfl
  · rw [if_pos (by omega), if_neg h]; rfl

theorem addText_flush (ps p : Nat) : addLeafP IK.text (ps : Int) (p : Int) = pushAll (flushN ps p) := addLeafP_cast _ _ _

inductive Piece where
  /-- a byte the tokenizer does not look at -/
  | byte (b : UInt8)
  /-- backslash + ASCII punctuation -/
  | esc (b : UInt8)
  /-- one space, not followed by a space -/
  | sp
  /-- a construct of `len` bytes that yields one finished node -/
  | node (len : Nat) (n : Nat → INode)

def Piece.len : Piece → Nat
  | .byte _ => 1
  | .esc _ => 2
  | .sp => 1
  | .node len _ => len

def plen (P : List Piece) : Nat := (P.map Piece.len).sum

/-- The nodes the pieces produce from position `p` with pending text from `ps`, and the new pending start. -/
def outP : Nat → Nat → List Piece → List INode × Nat
  | ps, _, [] => ([], ps)
  | ps, p, .byte _ :: r => outP ps (p + 1) r
  | ps, p, .sp :: r => outP ps (p + 1) r
  | ps, p, .esc _ :: r => (flushN ps p ++ leafN IK.text (p + 1) (p + 2) :: (outP (p + 2) (p + 2) r).1, (outP (p + 2) (p + 2) r).2)
  | ps, p, .node len n :: r => (flushN ps p ++ n p :: (outP (p + len) (p + len) r).1, (outP (p + len) (p + len) r).2)

section
variable (c : ICtx) (src : Bytes) (f : Nat → LS → IM (ForInStep LS)) (a E : Nat) (last : Bool)

/-- The pieces are in the source at `p`, inside the run, with their side conditions. -/
def PiecesAt : Nat → List Piece → Prop
  | _, [] => True
  | p, .byte b :: r => src[p]? = some b ∧ inert b ∧ p < E ∧ PiecesAt (p + 1) r
  | p, .esc b :: r => src[p]? = some 0x5C ∧ src[p + 1]? = some b ∧ isASCIIPunctuation b = true ∧ p + 1 < E ∧ PiecesAt (p + 2) r
  | p, .sp :: r => src[p]? = some SP ∧ p + 1 < E ∧ (∃ b', src[p + 1]? = some b' ∧ b' ≠ SP) ∧ PiecesAt (p + 1) r
  | p, .node len n :: r => 0 < len ∧ (n p).kids = #[] ∧
      (∀ ps, Seg c f a E last p ps (p + len) (p + len) (pushP (n p) ∘ pushAll (flushN ps p))) ∧ PiecesAt (p + len) r

end

theorem hlbs_single (x : UInt8) (rest : Bytes) (hx : x ≠ SP) : parseHardLineBreakSpace (SP :: x :: rest) = (1, false) := by
  have hx' : (x == SP) = false := by simpa using hx
  simp [parseHardLineBreakSpace, numSpaces, List.takeWhile, hx']

theorem upTo_cons {src : Bytes} {p E : Nat} {b : UInt8} (hb : src[p]? = some b) (hlt : p < E) :
    upTo src p E = b :: upTo src (p + 1) E := by
  unfold upTo
  have hp := lt_of_get hb
  rw [List.drop_eq_getElem_cons hp]
  rw [List.getElem?_eq_getElem hp] at hb
  obtain ⟨k, hk⟩ : ∃ k, E - p = k + 1 := ⟨E - p - 1, by omega⟩
  rw [hk, List.take_succ_cons]
  have : E - (p + 1) = k := by omega
  rw [this]
  simp at hb
  rw [hb]

/-- **The pieces of a line are one segment.** -/
theorem pieces_seg {c : ICtx} {src : Bytes} {f : Nat → LS → IM (ForInStep LS)} (hf : Steps c src f) {a E : Nat} {last : Bool}
    (hE : E ≤ src.length) : ∀ (P : List Piece) (p ps : Nat), PiecesAt c src f a E last p P →
      Seg c f a E last p ps (p + plen P) (outP ps p P).2 (pushAll (outP ps p P).1) := by
  intro P
  induction P with
  | nil =>
    intro p ps _
    exact Seg.refl c f a E last p ps
  | cons x r ih =>
    intro p ps h
    cases x with
    | byte b =>
      obtain ⟨hb, hin, hlt, hr⟩ := h
      have h1 : Seg c f a E last p ps (p + 1) ps id :=
        Seg.ofStep (Nat.lt_succ_self p) (fun _ => rfl) (fun s hs i => by
          have := hf.plain i p a E last (ps : Int) s b hs hlt hb hin
          simpa using this)
      have := h1.trans (ih (p + 1) ps hr)
      simp only [plen, List.map_cons, List.sum_cons, Piece.len, outP] at this ⊢
      rw [← Nat.add_assoc]
      exact this
    | sp =>
      obtain ⟨hb, hlt, ⟨b', hb', hne⟩, hr⟩ := h
      have h1 : Seg c f a E last p ps (p + 1) ps id :=
        Seg.ofStep (Nat.lt_succ_self p) (fun _ => rfl) (fun s hs i => by
          have := hf.space i p a E last (ps : Int) s hs (by omega) hE hb
          rw [upTo_cons hb (by omega), upTo_cons hb' hlt, hlbs_single _ _ hne] at this
          simpa using this)
      have := h1.trans (ih (p + 1) ps hr)
      simp only [plen, List.map_cons, List.sum_cons, Piece.len, outP] at this ⊢
      rw [← Nat.add_assoc]
      exact this
    | esc b =>
      obtain ⟨hb0, hb, hp, hlt, hr⟩ := h
      have h1 : Seg c f a E last p ps (p + 2) (p + 2) (pushAll (flushN ps p ++ [leafN IK.text (p + 1) (p + 2)])) :=
        Seg.ofStep (by omega) (fun s => pushAll_up _ s) (fun s hs i => by
          have := hf.escape i p a E last (ps : Int) s b hs hlt hb0 hb hp
          have e1 : ((p : Nat) : Int) + 1 = ((p + 1 : Nat) : Int) := by simp
          have e2 : ((p : Nat) : Int) + 2 = ((p + 2 : Nat) : Int) := by simp
          have a2 : addLeafP IK.text ((p + 1 : Nat) : Int) ((p + 2 : Nat) : Int) = pushAll [leafN IK.text (p + 1) (p + 2)] := by
            rw [addLeafP_cast, if_pos (by omega)]
          rw [e1, e2, a2, addText_flush] at this
          rw [this, pushAll_append])
      have := h1.trans (ih (p + 2) (p + 2) hr)
      simp only [plen, List.map_cons, List.sum_cons, Piece.len, outP] at this ⊢
      rw [← Nat.add_assoc]
      have hT : pushAll (outP (p + 2) (p + 2) r).1 ∘ pushAll (flushN ps p ++ [leafN IK.text (p + 1) (p + 2)]) =
          pushAll (flushN ps p ++ leafN IK.text (p + 1) (p + 2) :: (outP (p + 2) (p + 2) r).1) := by
        funext s
        simp only [Function.comp, ← pushAll_append, List.append_assoc, List.singleton_append]
      rw [← hT]
      exact this
    | node len n =>
      obtain ⟨hlen, _, hseg, hr⟩ := h
      have := (hseg ps).trans (ih (p + len) (p + len) hr)
      simp only [plen, List.map_cons, List.sum_cons, Piece.len, outP] at this ⊢
      rw [← Nat.add_assoc]
      have hT : pushAll (outP (p + len) (p + len) r).1 ∘ (pushP (n p) ∘ pushAll (flushN ps p)) =
          pushAll (flushN ps p ++ n p :: (outP (p + len) (p + len) r).1) := by
        funext s
        simp only [Function.comp, pushAll_append]
        rfl
      rw [← hT]
      exact this

theorem outP_kids {c : ICtx} {src : Bytes} {f : Nat → LS → IM (ForInStep LS)} {a E : Nat} {last : Bool} :
    ∀ (P : List Piece) (p ps : Nat), PiecesAt c src f a E last p P → ∀ n ∈ (outP ps p P).1, n.kids = #[] := by
  intro P
  induction P with
  | nil => intro p ps _ n hn; simp [outP] at hn
  | cons x r ih =>
    intro p ps h n hn
    cases x with
    | byte b => exact ih (p + 1) ps h.2.2.2 n hn
    | sp => exact ih (p + 1) ps h.2.2.2 n hn
    | esc b =>
      simp only [outP, List.mem_append, List.mem_cons] at hn
      rcases hn with hn | rfl | hn
      · unfold flushN at hn; split at hn
        · simp only [List.mem_singleton] at hn; subst hn; rfl
        · cases hn
      · rfl
      · exact ih _ _ h.2.2.2.2 n hn
    | node len m =>
      simp only [outP, List.mem_append, List.mem_cons] at hn
      rcases hn with hn | rfl | hn
      · unfold flushN at hn; split at hn
        · simp only [List.mem_singleton] at hn; subst hn; rfl
        · cases hn
      · exact h.2.1
      · exact ih _ _ h.2.2.2 n hn

end CM.Proofs.InlSer
