import CM.Proofs.CodeVerbatimLine
/-
C06 (block piece), helper: the opening fence line of a top-level fenced code block.
-/
namespace CM.Proofs
open CM CM.Model CM.Gen
open CM.Proofs.BT

/-- `startFenced` up to `setContainerIndent` on an empty document, cursor at the start of an unindented fence. -/
theorem startFenced_eq (x : PExt) (p : LP) (c : UInt8) (n : Nat) (is ie : Int)
    (hroot : p.root = docRoot []) (hd : p.depth = 0) (hi : p.i = 0) (hls : p.lineStart = 0)
    (hst : p.state = stateOpening)
    (hind : p.indent = 0) (hf : parseCodeFence p.bytesAfterIndent = ⟨c, n, is, ie⟩) (hn : n ≠ 0) :
    startFenced x p =
      (let p2 : LP := { p with state := stateOpenMatched, root := docRoot [fcOpen c n []], depth := 1 }
       let p3 := if is ≥ 0 && ie ≥ 0 && is ≤ ie then
          (p2.advance is.toNat).collectInline x IK.infoString (ie - is).toNat else p2
       p3.consumeLine) := by
  obtain ⟨source, root, depth, lineStart, line, i, col, tabRem, tabPartial, state, panic⟩ := p
  simp only at hroot hd hi hls hst
  subst hroot hd hi hls hst
  unfold startFenced
  simp only [hind, hf, codeBlockIndentLimit, consumeIndentN_zero]
  simp [hn, LP.openBlock, stateOpening, stateDescending, stateDescendTerminated, LP.markMatched, stateOpenMatched,
    LP.openBlockLoop, LP.containerKind, LP.container, spineGet, docRoot, PB.kind, PB.label, canContain, BK.document, BK.fencedCode,
    LP.closeLastChild, spineReplaceLast, spineModify, LP.setContainerIndent, BK.listItem, LP.modifyContainer, PB.setLabel, fcOpen, fcLabel]

theorem collectInline_info (x : PExt) (p : LP) (n : Nat) (hind : p.indent = 0) (hst : p.state = stateOpenMatched) :
    p.collectInline x IK.infoString n =
      (p.advance n).appendInline (mkInline IK.infoString ((p.lineStart + p.i : Nat) : Int) (((p.advance n).lineStart + (p.advance n).i : Nat) : Int)
        (LP.infoStringLoop x.ext (p.advance n).source ((p.advance n).lineStart + (p.advance n).i)
          ((p.advance n).lineStart + (p.advance n).i - (p.lineStart + p.i) + 1) (p.lineStart + p.i) (p.lineStart + p.i) [])) := by
  have hm : p.markMatched = p := by simp [LP.markMatched, hst, stateOpening, stateOpenMatched]
  unfold LP.collectInline
  simp only [hst, stateOpenMatched, stateDescendTerminated, Nat.reduceBEq, Bool.false_eq_true, if_false]
  have hm' : LP.markMatched p = p := hm
  simp only [hm', hind, Nat.lt_irrefl, if_false, gt_iff_lt, beq_self_eq_true, if_true]

/-- The InfoString node of the opening fence line `fence ++ info ++ "\n"` at offset 0. -/
def infoNode (x : PExt) (src : Bytes) (n len : Nat) : Tree :=
  mkInline IK.infoString (n : Nat) ((n + len : Nat) : Int) (LP.infoStringLoop x.ext src (n + len) (len + 1) n n [])

theorem startFenced_noinfo (x : PExt) (p : LP) (c : UInt8) (n : Nat)
    (hroot : p.root = docRoot []) (hd : p.depth = 0) (hi : p.i = 0) (hls : p.lineStart = 0)
    (hst : p.state = stateOpening) (hc : CurOK p)
    (hind : p.indent = 0) (hf : parseCodeFence p.bytesAfterIndent = ⟨c, n, -1, -1⟩) (hn : n ≠ 0) :
    (startFenced x p).root = docRoot [fcOpen c n []] ∧ (startFenced x p).panic = p.panic ∧
      (startFenced x p).state = stateLineConsumed := by
  rw [startFenced_eq x p c n (-1) (-1) hroot hd hi hls hst hind hf hn]
  simp only [show ((-1 : Int) ≥ 0) = False by decide, decide_false, Bool.false_and, Bool.false_eq_true, if_false]
  have cl := consumeLine_post { p with state := stateOpenMatched, root := docRoot [fcOpen c n []], depth := 1 } ⟨hc.hi, hc.htab⟩
  refine ⟨?_, cl.panic, ?_⟩
  · have := cl.tree; simp only [tree, Prod.mk.injEq] at this; exact this.2.1
  · rw [cl.state]; split <;> rfl

theorem startFenced_info (x : PExt) (p : LP) (c : UInt8) (n len : Nat)
    (hroot : p.root = docRoot []) (hd : p.depth = 0) (hi : p.i = 0) (hls : p.lineStart = 0)
    (hst : p.state = stateOpening) (hc : CurOK p)
    (hind : p.indent = 0) (hf : parseCodeFence p.bytesAfterIndent = ⟨c, n, (n : Nat), ((n + len : Nat) : Int)⟩) (hn : n ≠ 0)
    (hlen : n + len ≤ p.line.length) (h1 : p.line.getD n 0 ≠ SP) (h2 : p.line.getD n 0 ≠ TAB) :
    (startFenced x p).root = docRoot [fcOpen c n [infoNode x p.source n len]] ∧ (startFenced x p).panic = p.panic ∧
      (startFenced x p).state = stateLineConsumed := by
  rw [startFenced_eq x p c n _ _ hroot hd hi hls hst hind hf hn]
  have e1 : ((n : Nat) : Int) ≥ 0 := Int.natCast_nonneg _
  have e2 : ((n + len : Nat) : Int) ≥ 0 := Int.natCast_nonneg _
  have e3 : ((n : Nat) : Int) ≤ ((n + len : Nat) : Int) := by omega
  simp only [e1, e2, e3, decide_true, Bool.and_self, if_true, Int.toNat_natCast]
  have e4 : (((n + len : Nat) : Int) - (n : Int)).toNat = len := by omega
  rw [e4]
  obtain ⟨source, root, depth, lineStart, line, i, col, tabRem, tabPartial, state, panic⟩ := p
  simp only at hroot hd hi hls hst hlen h1 h2
  subst hroot hd hi hls hst
  -- advance over the fence
  have a1 := advance_post { source := source, root := docRoot [fcOpen c n []], depth := 1, lineStart := 0, line := line, i := 0,
                            col := col, tabRem := tabRem, tabPartial := tabPartial, state := stateOpenMatched, panic := panic } n
    ⟨hc.hi, hc.htab⟩ (by show 0 + n ≤ line.length; omega)
  generalize LP.advance _ n = q1 at a1 ⊢
  have t1 := a1.tree; have l1 := a1.line; have i1 := a1.i; have p1 := a1.panic; have s1 := a1.state; have c1 := a1.cur
  simp only [tree, Prod.mk.injEq, hn, if_false, Nat.zero_add] at t1 l1 i1 p1 s1
  obtain ⟨ts, tr, td, tl⟩ := t1
  have s1' : q1.state = stateOpenMatched := by rw [s1]; rfl
  have hq1ind : q1.indent = 0 := indent_other q1 (by rw [l1, i1]; exact h1) (by rw [l1, i1]; exact h2)
  rw [collectInline_info x q1 len hq1ind s1']
  have a2 := advance_post q1 len c1 (by rw [i1, l1]; exact hlen)
  generalize LP.advance q1 len = q2 at a2 ⊢
  have t2 := a2.tree; have l2 := a2.line; have i2 := a2.i; have p2 := a2.panic; have c2 := a2.cur
  simp only [tree, Prod.mk.injEq] at t2
  obtain ⟨ts2, tr2, td2, tl2⟩ := t2
  have cl := consumeLine_post (q2.appendInline (mkInline IK.infoString ((q1.lineStart + q1.i : Nat) : Int) ((q2.lineStart + q2.i : Nat) : Int)
        (LP.infoStringLoop x.ext q2.source (q2.lineStart + q2.i) (q2.lineStart + q2.i - (q1.lineStart + q1.i) + 1)
          (q1.lineStart + q1.i) (q1.lineStart + q1.i) []))) ⟨c2.hi, c2.htab⟩
  refine ⟨?_, ?_, ?_⟩
  · have := cl.tree; simp only [tree, Prod.mk.injEq] at this
    rw [this.2.1]
    simp only [LP.appendInline, LP.modifyContainer, tr2, td2, tr, td, tl, tl2, ts, ts2, i1, i2]
    simp [docRoot, fcOpen, spineModify, infoNode]
  · rw [cl.panic]; show q2.panic = panic; rw [p2, p1]
  · have hs2 : q2.state = stateOpenMatched := by rw [a2.state, s1']; split <;> rfl
    rw [cl.state, appendInline_state, hs2]; split <;> rfl

theorem spineLength_doc0 (l : PLabel) (is : List Tree) : spineLength (.mk l [] is) = 0 := by
  simp [spineLength]

theorem startBlockQuote_none (x : PExt) (p : LP) (hind : p.indent < codeBlockIndentLimit)
    (hbq : hasBytePrefix p.bytesAfterIndent blockQuotePrefix = false) : startBlockQuote x p = p := by
  unfold startBlockQuote
  simp only [hbq, Nat.not_le.mpr hind, if_false, Bool.not_false, if_true]

theorem startATX_none (x : PExt) (p : LP) (hind : p.indent < codeBlockIndentLimit)
    (hatx : (parseATXHeading p.bytesAfterIndent).level = 0) : startATX x p = p := by
  unfold startATX
  simp only [hatx, Nat.not_le.mpr hind, if_false, Nat.lt_one_iff, if_true]

theorem tryStarts_fenced (x : PExt) (p : LP) (hst : p.state = stateOpening)
    (hind : p.indent < codeBlockIndentLimit)
    (hbq : hasBytePrefix p.bytesAfterIndent blockQuotePrefix = false)
    (hatx : (parseATXHeading p.bytesAfterIndent).level = 0)
    (hf : (startFenced x p).state = stateLineConsumed) :
    tryStarts (blockStartFns x) p = startFenced x p := by
  have hp : { p with state := stateOpening } = p := by
    obtain ⟨source, root, depth, lineStart, line, i, col, tabRem, tabPartial, state, panic⟩ := p
    simp only at hst; subst hst; rfl
  simp only [blockStartFns, tryStarts, hp, startBlockQuote_none x p hind hbq, startATX_none x p hind hatx, hst, hf]
  simp [stateOpening, stateOpenMatched, stateLineConsumed]

/-- On an empty document, a line that is neither a block quote nor an ATX heading and on which `startFenced` consumes
    the line: `processLine` is `startFenced`. -/
theorem processLine_open (x : PExt) (p : LP)
    (hroot : p.root = docRoot []) (hd : p.depth = 0) (hst : p.state = stateOpening) (hne : p.line ≠ [])
    (hind : p.indent < codeBlockIndentLimit)
    (hbq : hasBytePrefix p.bytesAfterIndent blockQuotePrefix = false)
    (hatx : (parseATXHeading p.bytesAfterIndent).level = 0)
    (hf : (startFenced x p).state = stateLineConsumed) :
    processLine x p = startFenced x p := by
  have hts := tryStarts_fenced x p hst hind hbq hatx hf
  have hp : { p with depth := 0 } = p := by
    obtain ⟨source, root, depth, lineStart, line, i, col, tabRem, tabPartial, state, panic⟩ := p
    simp only at hd; subst hd; rfl
  have hemp : p.line.isEmpty = false := by cases h : p.line <;> simp_all
  have hk : p.containerKind = BK.document := by
    simp [LP.containerKind, LP.container, hd, hroot, spineGet_zero, docRoot, PB.kind, PB.label]
  unfold processLine descendOpenBlocks
  simp only [hroot, docRoot, spineLength_doc0]
  rw [descendLoop]
  have hsg : spineGet p.root (0 + 1) = none := by rw [hroot]; rfl
  simp only [hsg, hp]
  simp only [hst, show (stateOpening == stateDescendTerminated) = false from rfl, Bool.false_eq_true, if_false]
  unfold openNewBlocks
  simp only [hemp, Bool.false_eq_true, if_false]
  rw [show p.line.length + 8 = (p.line.length + 7) + 1 from rfl, openingLoop]
  simp only [hk, BK.document, BK.paragraph, acceptsLines, Nat.reduceBEq, Bool.false_eq_true, if_false, Bool.not_false,
    Bool.or_true, Bool.not_true]
  simp only [hts, hf]
  simp [stateOpenMatched, stateLineConsumed]
