import CM.Proofs.RefDefCoverRd1
/-
C03, block half — `RefDefCoverOK` for paragraphs made of lines, part 2: what the scanners skip need not be covered.
`skipLinkSpace`, `skipSpacesAndTabs`, `readEOL` only pass bytes that need not be covered (`NN`); `parseLinkLabel`
passes such bytes before the inner span of the label and after it.
-/
namespace CM.Proofs.RDC
open CM CM.Model CM.Gen CM.Proofs CM.Proofs.BSp CM.Proofs.RDS CM.Proofs.Cov

variable {src : Bytes} {is : List Tree} {r : Rd}

/-- The combined invariant of `RDS` plus "a dead reader is past all inline children". -/
def Good2 (src : Bytes) (is : List Tree) (N p : Nat) (r : Rd) : Prop :=
  Good src is N p r ∧ (r.spans = [] → ∀ u ∈ is, u.label.stop ≤ (r.pos : Int))

theorem Good2.good {N p : Nat} (h : Good2 src is N p r) : Good src is N p r := h.1
theorem Good2.ri {N p : Nat} (h : Good2 src is N p r) : RI src is r := h.1.ri
theorem Good2.ri2 {N p : Nat} (h : Good2 src is N p r) : RI2 src is r := ⟨h.1.ri, h.2⟩
theorem Good2.here {N p : Nat} (h : Good2 src is N p r) : Good2 src is N r.pos r := ⟨h.1.here, h.2⟩

theorem good2_closed (hc : Ctx2 src is) (N p : Nat) : Closed src (Good2 src is N p) := by
  constructor
  · intro r h
    rw [current_snd hc.base h.ri]; exact h
  · intro r h
    exact ⟨(good_closed hc.base N p).nxt r h.1, (h.ri2.next hc).past⟩

theorem ri_next (hc : Ctx2 src is) (h : RI src is r) {b : Bool} {r' : Rd} (e : r.next src = (b, r')) : RI src is r' := by
  have := (next_spec hc.base h).1; rw [e] at this; exact this

/-! ### bytes that need not be covered -/

theorem need_SP : need SP = false := by decide +kernel
theorem need_lbr : need 0x5B = false := by decide +kernel
theorem need_rbr : need 0x5D = false := by decide +kernel
theorem need_colon : need 0x3A = false := by decide +kernel
theorem need_lt : need 0x3C = false := by decide +kernel
theorem need_gt : need 0x3E = false := by decide +kernel
theorem need_bs : need 0x5C = false := by decide +kernel
theorem need_CR : need CR = false := by decide +kernel
theorem need_LF : need LF = false := by decide +kernel

/-! ### white space -/

theorem skipLinkSpace_NN (hc : Ctx2 src is) : ∀ (f : Nat) (r : Rd), RI src is r →
    NN src is r.pos (skipLinkSpace src f r).2.pos := by
  intro f
  induction f with
  | zero => intro r _; exact NN.refl _ _ _
  | succ f ih =>
    intro r h
    have hcur := current_eq (src := src) hc.base h
    generalize hcv : (r.current src).1 = c at hcur
    rcases hn : r.next src with ⟨ok, r2⟩
    simp only [skipLinkSpace, hcur, hn]
    split
    · exact NN.refl _ _ _
    · split
      · rename_i hws
        have s := step_NN hc h (by rw [hcv]; exact ws_not_need c hws) hn
        split
        · exact s
        · exact s.trans (ih r2 (ri_next hc h hn))
      · exact NN.refl _ _ _

theorem skipSpacesAndTabs_NN (hc : Ctx2 src is) : ∀ (f : Nat) (r : Rd), RI src is r →
    NN src is r.pos (skipSpacesAndTabs src f r).2.pos := by
  intro f
  induction f with
  | zero => intro r _; exact NN.refl _ _ _
  | succ f ih =>
    intro r h
    have hcur := current_eq (src := src) hc.base h
    generalize hcv : (r.current src).1 = c at hcur
    rcases hn : r.next src with ⟨ok, r2⟩
    simp only [skipSpacesAndTabs, hcur, hn]
    split
    · rename_i hws
      have hws' : isSpaceTabOrLineEnding c = true := by
        simp only [Bool.or_eq_true, beq_iff_eq] at hws
        rcases hws with rfl | rfl <;> decide
      have s := step_NN hc h (by rw [hcv]; exact ws_not_need c hws') hn
      split
      · exact s
      · exact s.trans (ih r2 (ri_next hc h hn))
    · exact NN.refl _ _ _

theorem readEOL_NN (hc : Ctx2 src is) (f : Nat) (r : Rd) (h : RI src is r) :
    NN src is r.pos (readEOL src f r).2.pos := by
  have cl : Closed src (RI src is) :=
    ⟨fun r h => by rw [current_snd hc.base h]; exact h, fun r h => (next_spec hc.base h).1⟩
  have n0 := skipSpacesAndTabs_NN hc f r h
  have g0 := skipSpacesAndTabs_cl cl f r h
  rcases hs : skipSpacesAndTabs src f r with ⟨ok, r0⟩
  rw [hs] at n0 g0
  simp only at n0 g0
  have hcur := current_eq (src := src) hc.base g0
  generalize hcv : (r0.current src).1 = c at hcur
  rcases hn : r0.next src with ⟨ok1, r2⟩
  have g2 := ri_next hc g0 hn
  have hcur2 := current_eq (src := src) hc.base g2
  generalize hcv2 : (r2.current src).1 = c2 at hcur2
  rcases hn3 : r2.next src with ⟨ok3, r4⟩
  simp only [readEOL, hs, hcur, hn, hcur2, hn3]
  split
  · exact n0
  · split
    · rename_i hcr
      have hcr' : c = CR := by simpa using hcr
      have s := step_NN hc g0 (by rw [hcv, hcr']; exact need_CR) hn
      split
      · exact n0.trans s
      · split
        · rename_i hlf
          have hlf' : c2 = LF := by simpa using hlf
          have s2 := step_NN hc g2 (by rw [hcv2, hlf']; exact need_LF) hn3
          exact (n0.trans s).trans s2
        · exact n0.trans s
    · split
      · rename_i hlf
        have hlf' : c = LF := by simpa using hlf
        have s := step_NN hc g0 (by rw [hcv, hlf']; exact need_LF) hn
        exact n0.trans s
      · exact n0

/-- With enough fuel `skipLinkSpace` fails only on a dead reader. -/
theorem skipLinkSpace_false (hc : Ctx2 src is) : ∀ (f : Nat) (r r' : Rd), RI src is r → mu src r < f →
    skipLinkSpace src f r = (false, r') → r'.spans = [] := by
  intro f
  induction f with
  | zero => intro r r' _ hm; omega
  | succ f ih =>
    intro r r' h hm e
    have hcur := current_eq (src := src) hc.base h
    rcases hn : r.next src with ⟨ok, r2⟩
    rw [skipLinkSpace, hcur] at e
    simp only [hn] at e
    split at e
    · rename_i hz
      simp only [Prod.mk.injEq, true_and] at e
      subst e
      exact current_zero_dead hc.base h (by simpa using hz)
    · split at e
      · cases ok with
        | false =>
          simp only [Bool.not_false, if_true, Prod.mk.injEq, true_and] at e
          subst e
          exact next_false hc.base h hn
        | true =>
          simp only [Bool.not_true, Bool.false_eq_true, if_false] at e
          have := next_mu hc.base h hn
          exact ih r2 r' (ri_next hc h hn) (by omega) e
      · cases e

/-! ### the label -/

/-- A position inside a non-Indent inline child, with the suffix of the list that begins there. -/
def InNode (is : List Tree) (a : Nat) : Prop :=
  ∃ k t rest, is.drop k = t :: rest ∧ isIndent t = false ∧ t.label.start ≤ (a : Int) ∧ (a : Int) < t.label.stop

theorem inNode_of_live (h : RI src is r) {t : Tree} {rest : List Tree} (hs : r.spans = t :: rest) (hi : isIndent t = false) :
    InNode is r.pos := by
  obtain ⟨k, hk⟩ := h.suf
  have := h.norm t rest hs
  exact ⟨k, t, rest, by rw [← hk, hs], hi, this.1, this.2⟩

/-- A reader that sees a byte other than a space and other than the end marker is inside a non-Indent node. -/
theorem inNode_of_cur (hc : Ctx2 src is) (h : RI src is r) (hlive : r.spans ≠ []) (hsp : (r.current src).1 ≠ SP) :
    InNode is r.pos := by
  cases hs : r.spans with
  | nil => exact absurd hs hlive
  | cons t rest => exact inNode_of_live h hs (current_live_nonsp hc.base h hs hsp)

theorem labelSkip_NN (hc : Ctx2 src is) : ∀ (f : Nat) (r : Rd) (chars : Nat) (r' : Rd) (n : Nat), RI src is r →
    need (r.current src).1 = false → labelSkip src f r chars = some (r', n) →
    NN src is r.pos r'.pos ∧ RI src is r' ∧ r'.spans ≠ [] := by
  intro f
  induction f with
  | zero => intro r chars r' n _ _ e; simp [labelSkip] at e
  | succ f ih =>
    intro r chars r' n h hnd e
    rcases hn : r.next src with ⟨ok, r1⟩
    have g1 := ri_next hc h hn
    have hcur := current_eq (src := src) hc.base g1
    generalize hcv : (r1.current src).1 = c at hcur
    have s := step_NN hc h hnd hn
    simp only [labelSkip, hn, hcur] at e
    split at e
    · cases e
    · rename_i hok
      have hok' : ok = true := by simpa using hok
      subst hok'
      split at e
      · cases e
      · split at e
        · simp only [Option.some.injEq, Prod.mk.injEq] at e
          obtain ⟨rfl, rfl⟩ := e
          refine ⟨s, g1, ?_⟩
          intro hd
          have := (next_spec hc.base h).2.1
          obtain ⟨t, rest, hs⟩ := next_true_live hc.base h hn
          rcases next_cases hc h hs with ⟨_, _, e'⟩ | ⟨_, _, e'⟩ | ⟨_, _, e'⟩ | ⟨_, t', rest', h2, e'⟩
          · rw [e'] at hn; simp only [Prod.mk.injEq, true_and] at hn; rw [← hn] at hd
            have hd' : r.spans = [] := hd
            rw [hs] at hd'; cases hd'
          · rw [e'] at hn; simp only [Prod.mk.injEq, true_and] at hn; rw [← hn] at hd
            have hd' : r.spans = [] := hd
            rw [hs] at hd'; cases hd'
          · rw [e'] at hn; simp only [Prod.mk.injEq] at hn; cases hn.1
          · rw [e'] at hn; simp only [Prod.mk.injEq, true_and] at hn; rw [← hn] at hd
            have hd' : rest = [] := hd
            rw [h2] at hd'; cases hd'
        · rename_i hws
          have hws' : isSpaceTabOrLineEnding c = true := by simpa using hws
          obtain ⟨a1, a2, a3⟩ := ih r1 _ r' n g1 (by rw [hcv]; exact ws_not_need c hws') e
          exact ⟨s.trans a1, a2, a3⟩

/-- `labelBody`: everything between the end of the inner span and the reader need not be covered. -/
theorem labelBody_NN (hc : Ctx2 src is) : ∀ (f : Nat) (r : Rd) (chars : Nat) (ie : Int) (r' : Rd) (ie' : Int),
    RI src is r → (0 ≤ ie → NN src is ie.toNat r.pos) → labelBody src f r chars ie = some (r', ie') →
    (0 ≤ ie' → NN src is ie'.toNat r'.pos) ∧ RI src is r' := by
  intro f
  induction f with
  | zero => intro r chars ie r' ie' _ _ e; simp [labelBody] at e
  | succ f ih =>
    intro r chars ie r' ie' h hie e
    have hcur := current_eq (src := src) hc.base h
    generalize hcv : (r.current src).1 = c at hcur
    rcases hn : r.next src with ⟨ok, r2⟩
    have g2 := ri_next hc h hn
    have hcur2 := current_eq (src := src) hc.base g2
    generalize hcv2 : (r2.current src).1 = c2 at hcur2
    rcases hn3 : r2.next src with ⟨ok3, r4⟩
    have g4 := ri_next hc g2 hn3
    have gap2 := next_gap hc h hn
    have gap4 := next_gap hc g2 hn3
    simp only [labelBody, hcur, hn, hcur2, hn3] at e
    split at e
    · simp only [Option.some.injEq, Prod.mk.injEq] at e
      obtain ⟨rfl, rfl⟩ := e
      exact ⟨hie, h⟩
    · split at e
      · split at e
        · cases e
        · split at e
          · cases e
          · split at e
            · cases e
            · refine ih _ _ _ _ _ g4 ?_ e
              intro _
              split
              · have : ((r2.pos : Int) + 1).toNat = r2.pos + 1 := by omega
                rw [this]; exact gap4.nn
              · rename_i hws
                have hws' : isSpaceTabOrLineEnding c2 = true := by simpa using hws
                have : ((r.pos : Int) + 1).toNat = r.pos + 1 := by omega
                rw [this]
                have s := step_NN hc g2 (by rw [hcv2]; exact ws_not_need c2 hws') hn3
                exact (gap2.nn (src := src)).trans s
      · split at e
        · cases e
        · refine ih _ _ _ _ _ g2 ?_ e
          split
          · intro _
            have : ((r.pos : Int) + 1).toNat = r.pos + 1 := by omega
            rw [this]; exact gap2.nn
          · rename_i hws
            have hws' : isSpaceTabOrLineEnding c = true := by simpa using hws
            intro h0
            have s := step_NN hc h (by rw [hcv]; exact ws_not_need c hws') hn
            exact (hie h0).trans s

/-- **`parseLinkLabel`**: the bytes before the inner span (the bracket, white space) and after it (white space, the
    bracket) need not be covered; the inner span begins inside a non-Indent inline child. -/
theorem parseLinkLabel_NN (hc : Ctx2 src is) (f : Nat) {N p : Nat} (hg : Good src is N p r) {label : LinkLabel} {r1 : Rd}
    (e : parseLinkLabel src f r = (label, r1)) (hv : label.span.isValid = true) :
    NN src is r.pos label.inner.start.toNat ∧ NN src is label.inner.stop.toNat r1.pos ∧
    InNode is label.inner.start.toNat := by
  have h := hg.ri
  have hcur := current_eq (src := src) hc.base h
  generalize hcv : (r.current src).1 = c at hcur
  simp only [parseLinkLabel, hcur] at e
  split at e
  · simp only [Prod.mk.injEq] at e; rw [← e.1] at hv; cases hv
  · rename_i hbr
    have hbr' : c = 0x5B := by simpa using hbr
    cases hs : labelSkip src f r 0 with
    | none => simp only [hs, Prod.mk.injEq] at e; rw [← e.1] at hv; cases hv
    | some q =>
      obtain ⟨r2, chars⟩ := q
      obtain ⟨n2, g2, live2⟩ := labelSkip_NN hc f r 0 r2 chars h (by rw [hcv, hbr']; exact need_lbr) hs
      obtain ⟨b0, b1, b2, b3⟩ := labelSkip_byte f r 0 r2 chars hs
      have gg2 : Good src is N p r2 := labelSkip_cl (good_closed hc.base N p) f r 0 r2 chars hg hs
      simp only [hs] at e
      cases hb : labelBody src f r2 chars (-1) with
      | none => simp only [hb, Prod.mk.injEq] at e; rw [← e.1] at hv; cases hv
      | some q =>
        obtain ⟨r3, ie⟩ := q
        obtain ⟨n3, g3⟩ := labelBody_NN hc f r2 chars (-1) r3 ie g2 (fun h0 => by omega) hb
        have hcur3 := current_eq (src := src) hc.base g3
        generalize hcv3 : (r3.current src).1 = c3 at hcur3
        rcases hn : r3.next src with ⟨ok, r5⟩
        simp only [hb, hcur3, hn] at e
        split at e
        · simp only [Prod.mk.injEq] at e; rw [← e.1] at hv; cases hv
        · rename_i hrb
          have hrb' : c3 = 0x5D := by simpa using hrb
          simp only [Prod.mk.injEq] at e
          obtain ⟨rfl, rfl⟩ := e
          have s := step_NN hc g3 (by rw [hcv3, hrb']; exact need_rbr) hn
          simp only [SpanI.isValid, Bool.and_eq_true, decide_eq_true_eq] at hv
          refine ⟨?_, ?_, ?_⟩
          · show NN src is r.pos ((r2.pos : Int)).toNat
            have : ((r2.pos : Int)).toNat = r2.pos := by omega
            rw [this]; exact n2
          · by_cases h0 : 0 ≤ ie
            · exact (n3 h0).trans s
            · exfalso
              -- a negative end of the inner span does not occur: the first iteration sets it
              have := labelBody_first hc.base f r2 chars r3 ie gg2 b0 b1 b2 b3 hb
              omega
          · show InNode is ((r2.pos : Int)).toNat
            have : ((r2.pos : Int)).toNat = r2.pos := by omega
            rw [this]
            exact inNode_of_cur hc g2 live2 (stle_ne_sp b3)

end CM.Proofs.RDC
