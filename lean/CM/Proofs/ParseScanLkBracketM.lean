import CM.Proofs.InlSpanBracketM
import CM.Proofs.ParseScanLkBracketR

/-
C02, inline half, with `LinkScan2` / `TokScan2` — `parseEndBracket` keeps the span invariant.
(Generated from `InlSpanBracketM.lean`: the same proofs with `LinkScan2` in the place of `LinkScan`.)
-/

namespace CM.Proofs.InlH2
open CM CM.Model CM.Model.Inl CM.Gen CM.Spec CM.Proofs CM.Proofs.InlH
open Std.Do

set_option mvcgen.warning false

theorem parseEndBracket'_specP (L : Lims) (c : ICtx) (hc : c.unparsed = c.unparsedL.toArray) (hS : LinkScan2 c L.hi)
    (start : Int) (s0 : IState) :
    ⦃fun s => ⌜s = s0 ∧ SPT L.lo L.hi start s ∧ s0.unparsedPos < c.unparsed.size ∧ start < spanEndOf c s0 ∧
        spanEndOf c s0 ≤ L.hi⌝⦄
    parseEndBracket' c start
    ⦃⇓? r s => ⌜SPT L.lo L.hi r s ∧ start < r ∧ PosOK c s r⌝⦄ := by
  mvcgen [parseEndBracket', spanEnd, getNode, modifyNode, appendFinished, alloc, setUnparsedPos, 
    -appendFinished_spec, -appendFinished_specS, -finishLink_spec, -finishLink_specS, 
    -CM.Proofs.InlH.refPart_specP, -CM.Proofs.InlH.parseEndBracket_specP]
  all_goals (try (exact fun h => h))
  all_goals (try (exact ExceptConds.entails.refl _))
  -- side hypotheses of the specifications used
  all_goals (try (intros; assumption))
  all_goals (try (exact False.elim))
  -- no opener
  all_goals (try (
    have hneg := ‹(_ : Int) < 0›
    obtain ⟨hs0, hsp, hu, hlt, hhi⟩ := ‹_ = _ ∧ SPT _ _ _ _ ∧ _›
    subst hs0
    rcases ‹(_ ∧ _ ∧ _ = _) ∨ _› with ⟨h0, -, -⟩ | ⟨hm1, hs1 | ⟨i, hi, hs1⟩⟩
    · exfalso; omega
    all_goals (
      subst hs1
      simp -failIfUnchanged only [spanEndOf_delSt] at *
      first
      | exact ⟨trivial, hsp, by omega⟩
      | exact ⟨trivial, hsp.delStack _ _ (Nat.zero_le _) (by omega), by omega⟩
      | (obtain ⟨hq, hq2, -⟩ := ‹SPT _ _ (max _ _) _ ∧ _›
         exact ⟨hq.mono (by omega) (by omega), by omega, posOK_of hq2 (by omega)⟩))))
  all_goals eb_found
  -- the preconditions of `refPart`
  all_goals (try (
    try eb_inl_inv
    exact ⟨trivial, hsp, hodi, hx, hu, hlt, hhi⟩))
  all_goals eb_inline
  -- the preconditions of `wrap`
  all_goals (try (first
    | exact (link_wrap_pre' hsp hsame hodi hx).1
    | exact (link_wrap_pre' hsp hsame hodi hx).2.1
    | exact (link_wrap_pre' hsp hsame hodi hx).2.2.1
    | exact (link_wrap_pre' hsp hsame hodi hx).2.2.2))
  -- the precondition of `refPart` after an unsuccessful `parseInlineLink`
  all_goals (try (
    have hs := hinv ‹_›
    subst hs
    exact ⟨trivial, hsp, hodi, hx, hu, hlt, hhi⟩))
  -- the four forms of an inline link
  all_goals (
    have hvalid := ‹(InlineLinkInfo.span _).isValid = true›
    obtain ⟨gse, g0, g1, g2⟩ := ‹_ < spanEndOf c _ ∧ (0 : Int) ≤ _ ∧ _ < (c.srcA.size : Int) ∧ _ = (40 : UInt8)›
    obtain ⟨i1, i2, idest, ititle⟩ := hS.inline _ _ _ _ g0 g1 g2 hu gse hrun hvalid
    obtain ⟨hL0, hu1⟩ := LinkInv.wrap' hsp hsame hodi hx ‹_ = _ ∧ _ = wrapNodes _ _ _ _ _ _ _ _ ∧ _›
    have hfin := ‹∀ (lo hi : Int) (o N : Nat) (K E : Int), LinkInv lo hi o N _ K E true _ → _›
    first
    | (have hdv := ‹(InlineLinkInfo.destination _).span.isValid = true›
       have htv := ‹(InlineLinkInfo.title _).span.isValid = true›
       obtain ⟨d1, d2, d3, d4⟩ := idest hdv
       obtain ⟨t1S, t2, t3, t4, t5⟩ := ititle htv
       have t2' := t2 hdv
       refine fin_goal (hfin _ _ _ _ _ _ (((hL0.respan _ ?_ ?_ (fun r => r)).appendKid _ rfl ?_ ?_ ?_ ?_).appendKid _ rfl
         ?_ ?_ ?_ ?_)) ?_ ?_
       all_goals first
         | omega | (dsimp only; omega) | exact d4 | exact t5 | exact posOK_raw' hu1 (hpos hvalid))
    | (have hdv := ‹(InlineLinkInfo.destination _).span.isValid = true›
       obtain ⟨d1, d2, d3, d4⟩ := idest hdv
       refine fin_goal (hfin _ _ _ _ _ _ ((hL0.respan _ ?_ ?_ (fun r => r)).appendKid _ rfl ?_ ?_ ?_ ?_)) ?_ ?_
       all_goals first
         | omega | (dsimp only; omega) | exact d4 | exact posOK_raw' hu1 (hpos hvalid))
    | (have htv := ‹(InlineLinkInfo.title _).span.isValid = true›
       obtain ⟨t1S, t2, t3, t4, t5⟩ := ititle htv
       refine fin_goal (hfin _ _ _ _ _ _ ((hL0.respan _ ?_ ?_ (fun r => r)).appendKid _ rfl ?_ ?_ ?_ ?_)) ?_ ?_
       all_goals first
         | omega | (dsimp only; omega) | exact t5 | exact posOK_raw' hu1 (hpos hvalid))
    | (refine fin_goal (hfin _ _ _ _ _ _ (hL0.respan _ ?_ ?_ (fun r => r))) ?_ ?_
       all_goals first
         | omega | exact posOK_raw' hu1 (hpos hvalid)))

/-- **`parseEndBracket` keeps the span invariant**: from the frontier `start` (the position of `]`) to the frontier
    `r` (the returned position), which is not beyond the end of the run the tokenizer is in afterwards. -/
@[spec 21000]
theorem parseEndBracket_specP (L : Lims) (c : ICtx) (hc : c.unparsed = c.unparsedL.toArray) (hS : LinkScan2 c L.hi)
    (start : Int) (s0 : IState) :
    ⦃fun s => ⌜s = s0 ∧ SPT L.lo L.hi start s ∧ s0.unparsedPos < c.unparsed.size ∧ start < spanEndOf c s0 ∧
        spanEndOf c s0 ≤ L.hi⌝⦄
    parseEndBracket c start
    ⦃⇓? r s => ⌜SPT L.lo L.hi r s ∧ start < r ∧ PosOK c s r⌝⦄ := by
  rw [parseEndBracket_eq]
  exact parseEndBracket'_specP L c hc hS start s0

end CM.Proofs.InlH2
