import CM.Proofs.ParseAsmScanCovStrip
import CM.Proofs.ParseAsmScanCovCode2
/-
C03, inline half, the field `TokCover.code` — `StripCov`: `stripCodeSpanSpace` with the test of the last byte named
(`lastOKM`; the same program, `strip_eq` by `rfl`) and the specification of that test — preparation for `StripCov`.
-/
namespace CM.Proofs.PSc
open CM CM.Model CM.Model.Inl CM.Gen CM.Spec CM.Proofs CM.Proofs.InlH
open Std.Do

set_option mvcgen.warning false

/-- the test `lastOK` of `stripCodeSpanSpace` -/
def lastOKM (c : ICtx) (firstOK : Bool) (last : CSN) : IM Bool :=
  if !firstOK then pure false else if last.kind == IK.indent then pure true else srcIs c (last.stop - 1) SP

theorem lastOKM_spec (c : ICtx) (firstOK : Bool) (last : CSN) (s0 : IState) :
    ⦃fun s => ⌜s = s0⌝⦄ lastOKM c firstOK last
    ⦃⇓? r s => ⌜s = s0 ∧ (r = true → last.kind ≠ IK.indent → c.srcA[(last.stop - 1).toNat]! = SP)⌝⦄ := by
  apply Post.triple
  intro s hs
  subst hs
  unfold lastOKM
  by_cases h1 : (!firstOK) = true
  · rw [if_pos h1]
    exact ⟨rfl, fun h => by cases h⟩
  · rw [if_neg h1]
    by_cases hk : (last.kind == IK.indent) = true
    · rw [if_pos hk]
      exact ⟨rfl, fun _ hne => absurd (by simpa using hk) hne⟩
    · rw [if_neg hk]
      have hp := srcIs_post c (last.stop - 1) SP s s rfl
      cases hr : (srcIs c (last.stop - 1) SP).run s with
      | error e => trivial
      | ok p =>
        rw [hr] at hp
        obtain ⟨a1, _, _, a4⟩ := hp
        refine ⟨a1, fun hr' _ => ?_⟩
        rw [hr'] at a4
        simpa using a4.symm

/-- `stripCodeSpanSpace`, with `lastOKM` -/
def strip' (c : ICtx) (slice : Array CSN) : IM (Array CSN) := do
  let mut foundNonSpace := false
  for n in slice do
    if n.kind != IK.indent then
      if !isOnlySpaces (← srcSlice c n.start n.stop) then
        foundNonSpace := true
        break
  if !foundNonSpace then return slice
  let first := slice[0]!
  let last := slice[slice.size - 1]!
  let firstOK ← (if first.kind == IK.indent then pure true else srcIs c first.start SP)
  let lastOK ← lastOKM c firstOK last
  if !firstOK || !lastOK then return slice
  let single := slice.size == 1
  let mut sl := slice
  let first' : CSN := if first.kind == IK.indent then { first with indent := first.indent - 1 } else { first with start := first.start + 1 }
  sl := sl.set! 0 first'
  let firstGone := if first.kind == IK.indent then first'.indent == 0 else first'.len == 0
  if firstGone then sl := sl.extract 1 sl.size
  if single && firstGone then goPanic "stripCodeSpanSpace: slice bounds out of range [-1:]"
  let li := sl.size - 1
  let lastNow := sl[li]!
  let last' : CSN := if lastNow.kind == IK.indent then { lastNow with indent := lastNow.indent - 1 } else { lastNow with stop := lastNow.stop - 1 }
  sl := sl.set! li last'
  let lastGone := if lastNow.kind == IK.indent then last'.indent == 0 else last'.len == 0
  if lastGone then sl := sl.extract 0 li
  pure sl

theorem strip_eq (c : ICtx) (slice : Array CSN) : stripCodeSpanSpace c slice = strip' c slice := rfl

/-
(superseded: proved as `stripCov` in ParseAsmScanCovStrip3.lean) formerly NOT proved: `⦃CsCovA c lo hi slice⦄ strip' c slice ⦃⇓? r _ => CsCovA c lo hi r⦄` (which with `strip_eq` is `StripCov`).
`mvcgen +jp [strip', lastOKM_spec, …]` yields four trivial loop conditions and two result conditions whose hypotheses are
exactly `h3`, `h` of `strip_result_cov` and the fact of the first `srcIs` — but the postcondition of the LAST monadic call before
the pure remainder (`lastOKM`, also when it is inlined, also with a state-free specification) does not reach the conditions:
its result is a bare `r : Bool`.  So `hlast` of `strip_result_cov` is not available there.  The remainder after `lastOKM` has
to be verified by hand (`Post.bind` on the elaborated term), or given as a separate named function.
-/

end CM.Proofs.PSc

#print axioms CM.Proofs.PSc.lastOKM_spec
#print axioms CM.Proofs.PSc.strip_eq
