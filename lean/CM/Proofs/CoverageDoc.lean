import CM.Proofs.CoverageCheck
import CM.Proofs.StreamLines
import CM.Proofs.BlocksTotal
/-
C03, part B — several lines: the invariant of `processLine_cover` is inductive. `feedDoc` feeds the lines of a buffer
(cut by `lineLen`, exactly as `readline` cuts them) to the line parser, each with the source grown by that line — the
per-line loop of `NextBlock` without cutting root blocks off. If the decidable per-line check (`docOKb`: `RefDefCoverOK`
on the open paragraphs, `freshB`) holds along the run, the final tree covers every needed byte of the buffer
(`feedDoc_cover`). Concrete runs at the end.
-/
namespace CM.Proofs.Cov
open CM CM.Model CM.Gen CM.Spec CM.Spec.T CM.Proofs.BT
open CM.Proofs.BSp (ParaPred QT isContainerKind)

theorem eolOK_of_all {l : Bytes} (h : ∀ c ∈ l, need c = false) : EolOK l :=
  fun _ _ _ m _ h2 => h _ (getD_mem h2)

theorem eolOK_cons {c : UInt8} {t : Bytes} (h1 : c ≠ LF) (h2 : c ≠ CR) (h : EolOK t) : EolOK (c :: t) := by
  intro k hk hc m hm1 hm2
  cases k with
  | zero =>
    simp only [List.getD_cons_zero] at hc
    rcases hc with hc | hc
    · exact absurd hc h1
    · exact absurd hc h2
  | succ k =>
    cases m with
    | zero => omega
    | succ m =>
      simp only [List.getD_cons_succ, List.length_cons] at hc hk hm2 ⊢
      exact h k (by omega) hc m (by omega) (by omega)

/-- A line as `readline` cuts it has nothing after its first line ending. -/
theorem eolOK_line : ∀ l : Bytes, EolOK (l.take (lineLen l)) := by
  intro l
  induction l with
  | nil => exact eolOK_of_all (fun _ h => by simp at h)
  | cons c rest ih =>
    by_cases h1 : c = LF
    · subst h1
      rw [lineLen_LF]
      apply eolOK_of_all
      intro b hb
      simp only [List.take_succ_cons, List.take_zero, List.mem_singleton] at hb
      subst hb; decide +kernel
    · by_cases h2 : c = CR
      · subst h2
        apply eolOK_of_all
        intro b hb
        have hmem := List.mem_of_mem_take hb
        -- the line is [CR] or [CR, LF]
        unfold lineLen at hb
        simp only [show (CR : UInt8) ≠ LF from by decide, if_false, if_true] at hb
        split at hb
        · rename_i hh
          cases rest with
          | nil => simp at hh
          | cons d r =>
            simp only [List.head?_cons, Option.some.injEq] at hh
            subst hh
            simp only [List.take_succ_cons, List.take_zero, List.mem_cons, List.mem_nil_iff, or_false] at hb
            rcases hb with rfl | rfl <;> decide +kernel
        · simp only [List.take_succ_cons, List.take_zero, List.mem_singleton] at hb
          subst hb; decide +kernel
      · rw [lineLen_other h1 h2, List.take_succ_cons]
        exact eolOK_cons h1 h2 ih

/-- The per-line loop without cutting roots: feed the lines of `doc` from `ls` on. -/
def feedDoc (x : PExt) : Nat → LP → Bytes → Nat → LP
  | 0, lp, _, _ => lp
  | fuel + 1, lp, doc, ls =>
    if ls ≥ doc.length then lp else
    feedDoc x fuel (processLine x (lp.reset (doc.take (ls + lineLen (doc.drop ls))) ls)) doc (ls + lineLen (doc.drop ls))

/-- The decidable hypotheses of `processLine_cover`, along the run. -/
def docOKb (x : PExt) : Nat → LP → Bytes → Nat → Bool
  | 0, _, _, _ => true
  | fuel + 1, lp, doc, ls =>
    if ls ≥ doc.length then true else
    opB (RefDefCoverOK x (doc.take (ls + lineLen (doc.drop ls))) ls (doc.take (ls + lineLen (doc.drop ls))).length) lp.root &&
    freshB x (lp.reset (doc.take (ls + lineLen (doc.drop ls))) ls) &&
    docOKb x fuel (processLine x (lp.reset (doc.take (ls + lineLen (doc.drop ls))) ls)) doc (ls + lineLen (doc.drop ls))

theorem feedDoc_cover (x : PExt) : ∀ (fuel : Nat) (lp : LP) (doc : Bytes) (ls : Nat), LPInv' lp → ls ≤ doc.length →
    doc.length - ls ≤ fuel → WF QT lp.root →
    (∀ j, j < ls → need (doc.getD j 0) = true → covPB lp.root j = true) → docOKb x fuel lp doc ls = true →
    WF QT (feedDoc x fuel lp doc ls).root ∧
    ∀ j, j < doc.length → need (doc.getD j 0) = true → covPB (feedDoc x fuel lp doc ls).root j = true := by
  intro fuel
  induction fuel with
  | zero =>
    intro lp doc ls _ hls hf hwf hcov _
    exact ⟨hwf, fun j hj hn => hcov j (by omega) hn⟩
  | succ fuel ih =>
    intro lp doc ls hinv hls hf hwf hcov hok
    unfold feedDoc
    unfold docOKb at hok
    split
    · rename_i hge
      exact ⟨hwf, fun j hj hn => hcov j (by omega) hn⟩
    · rename_i hge
      rw [if_neg hge] at hok
      simp only [Bool.and_eq_true] at hok
      obtain ⟨⟨hchk, hfr⟩, hrest⟩ := hok
      have hne : doc.drop ls ≠ [] := by
        intro e
        have := congrArg List.length e
        simp only [List.length_drop, List.length_nil] at this
        omega
      have hpos := lineLen_pos hne
      have hle := lineLen_le (doc.drop ls)
      simp only [List.length_drop] at hle
      generalize hi : ls + lineLen (doc.drop ls) = i at *
      have hil : i ≤ doc.length := by omega
      have hsl : (doc.take i).length = i := by simp [hil]
      have hgd : ∀ j, j < i → (doc.take i).getD j 0 = doc.getD j 0 := by
        intro j hj
        simp only [List.getD_eq_getElem?_getD, List.getElem?_take, hj, if_true]
      have heol : EolOK ((doc.take i).drop ls) := by
        have e : (doc.take i).drop ls = (doc.drop ls).take (lineLen (doc.drop ls)) := by
          rw [List.drop_take]; congr 1; omega
        rw [e]; exact eolOK_line _
      have d := processLine_cover x lp (doc.take i) ls hinv (by omega) heol hwf
        (fun j hj hn => hcov j hj (by rw [← hgd j (by omega)]; exact hn)) hchk (fresh_of_freshB hfr)
      apply ih _ doc i ⟨d.ci.inv.panic, d.ci.inv.tree.root⟩ hil (by omega) d.ci.wf _ hrest
      intro j hj hn
      exact d.all j (by omega) (by rw [hgd j hj]; exact hn)

/-- **A whole buffer through the line parser** (one session, starting from the empty document): if the per-line checks
    hold, every letter, digit and byte ≥ 0x80 of the buffer is covered by a leaf of the block-phase tree. -/
theorem feedDoc_cover_new (x : PExt) (doc : Bytes) (h : docOKb x doc.length ((blocksLP x).new []) doc 0 = true) :
    ∀ j, j < doc.length → needsCover (doc.getD j 0) = true →
      1 ≤ coverCount (leaves (pbToTree (feedDoc x doc.length ((blocksLP x).new []) doc 0).root)) j := by
  intro j hj hn
  have r := feedDoc_cover x doc.length ((blocksLP x).new []) doc 0 (new_LPInv' x []) (Nat.zero_le _) (by omega)
    (by show WF QT (docRoot []); decide) (fun j hj => by omega) h
  rw [← covT_iff_count]
  apply r.2 j hj
  simp only [need, hn, Bool.true_or]

/-! ### Non-vacuity and concrete evaluations

(No link reference definition in these buffers: the kernel cannot evaluate `collectTextNodes` — a `where`-mutual
definition compiled by well-founded recursion —, so `decide +kernel` cannot inspect the children of a definition's
label / destination / title. The theorems above do cover them, through `RefDefCoverOK`.) -/

section Examples

/-- Paragraph text and a setext underline; a block quote with a list (an ordered item), a fenced code block whose info
    string contains an entity-like reference and an escape; an ATX heading with a closing sequence. -/
def covDoc : Bytes :=
  Bytes.ofString "rest\n===\n> - a\n> 12. c\n>\n> ``` go&amp;x \\* a\n> co de\n> ```\n# T #\n"

-- the per-line checks hold on this buffer …
example : docOKb btX covDoc.length ((blocksLP btX).new []) covDoc 0 = true := by decide +kernel
-- … so every needed byte is covered:
example : ∀ j, j < covDoc.length → needsCover (covDoc.getD j 0) = true →
    1 ≤ coverCount (leaves (pbToTree (feedDoc btX covDoc.length ((blocksLP btX).new []) covDoc 0).root)) j :=
  feedDoc_cover_new btX covDoc (by decide +kernel)
-- the document's children: the setext heading, the block quote, the ATX heading
example : (feedDoc btX covDoc.length ((blocksLP btX).new []) covDoc 0).root.blocks.map (·.kind) =
    [BK.setextHeading, BK.blockQuote, BK.atxHeading] := by decide +kernel
/-- `Fresh` is a real hypothesis of `processLine_cover`: a line parser that is re-used after a line that ended a fenced
    code block at the top level (state `stateDescendTerminated`, the document's last child closed) drops the next line:
    `lineParser.reset` does not reset the state and `descendOpenBlocks` only sets it inside its loop. `NextBlock` never
    does that — it returns the closed first child before reading another line — so this cannot be observed through
    `Parse` / `NextBlock`. -/
def staleDoc : Bytes := Bytes.ofString "```\n```\nab\n"
example : docOKb btX staleDoc.length ((blocksLP btX).new []) staleDoc 0 = false := by decide +kernel
example : (feedDoc btX staleDoc.length ((blocksLP btX).new []) staleDoc 0).root.blocks.map (·.kind) = [BK.fencedCode] := by
  decide +kernel

end Examples

end CM.Proofs.Cov
