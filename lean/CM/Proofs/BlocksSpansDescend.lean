import CM.Proofs.BlocksSpansLoop
/-
C02, block half — `ruleMatch` and `descendLoop`: while descending the tree is untouched; a terminated descent
(closing fence, end of an HTML block) closes a leaf container at the cursor.
-/
namespace CM.Proofs.BSp
open CM CM.Model CM.Gen CM.Proofs.BT

/-- What `ruleMatch` guarantees about the spans. -/
structure RMF (Q : ParaPred) (kind : Nat) (p p' : LP) : Prop where
  frame : LFrame p p'
  mi : MI Q p'
  ckind : p'.containerKind = p.containerKind
  st4 : p'.state = 4 → isContainerKind kind = false ∧ kind ≠ BK.paragraph

theorem RMF.refl {Q : ParaPred} {kind : Nat} {p : LP} (hmi : MI Q p) (hs : p.state = 3) : RMF Q kind p p :=
  ⟨LFrame.refl p, hmi, rfl, fun h => by omega⟩

theorem RMF.ofCI {Q : ParaPred} {kind : Nat} {p p' : LP} {n : Nat} (hmi : MI Q p) (hs : p.state = 3) (c : CIPost p p' n) :
    RMF Q kind p p' :=
  ⟨LFrame.of_ci c, hmi.of_ci c, c.ckind, fun h => by have := c.st3 hs; omega⟩

theorem ruleMatch_frame {Q : ParaPred} (x : PExt) (kind : Nat) (p : LP) (h : Inv p) (hs : p.state = 3) (hmi : MI Q p)
    (hk : p.containerKind = kind) (ok : Bool) (p' : LP) (hrm : ruleMatch x kind p = some (ok, p')) : RMF Q kind p p' := by
  unfold ruleMatch at hrm
  split at hrm
  · simp only [Option.some.injEq, Prod.mk.injEq] at hrm; obtain ⟨_, rfl⟩ := hrm
    exact RMF.refl hmi hs
  split at hrm
  · -- list item
    split at hrm
    · split at hrm
      · simp only [Option.some.injEq, Prod.mk.injEq] at hrm; obtain ⟨_, rfl⟩ := hrm
        exact RMF.refl hmi hs
      · simp only [Option.some.injEq, Prod.mk.injEq] at hrm; obtain ⟨_, rfl⟩ := hrm
        exact RMF.ofCI hmi hs (consumeIndentN_post p p.indent h.cur (Nat.le_refl _))
    · split at hrm
      · rename_i ci hci
        split at hrm
        · rename_i hge
          simp only [Option.some.injEq, Prod.mk.injEq] at hrm; obtain ⟨_, rfl⟩ := hrm
          exact RMF.ofCI hmi hs (consumeIndentN_post p ci.toNat h.cur (by omega))
        · simp only [Option.some.injEq, Prod.mk.injEq] at hrm; obtain ⟨_, rfl⟩ := hrm
          exact RMF.refl hmi hs
      · simp only [Option.some.injEq, Prod.mk.injEq] at hrm; obtain ⟨_, rfl⟩ := hrm
        exact RMF.refl hmi hs
  split at hrm
  · -- block quote
    simp only [] at hrm
    split at hrm
    · simp only [Option.some.injEq, Prod.mk.injEq] at hrm; obtain ⟨_, rfl⟩ := hrm
      exact RMF.refl hmi hs
    split at hrm
    · simp only [Option.some.injEq, Prod.mk.injEq] at hrm; obtain ⟨_, rfl⟩ := hrm
      exact RMF.refl hmi hs
    rename_i _ hpre
    have hpre' : hasBytePrefix p.bytesAfterIndent blockQuotePrefix = true := by
      cases hh : hasBytePrefix p.bytesAfterIndent blockQuotePrefix
      · rw [hh] at hpre; exact absurd rfl hpre
      · rfl
    have hlen := hasBytePrefix_length _ _ hpre'
    have hbq : blockQuotePrefix.length = 1 := rfl
    simp only [Option.some.injEq, Prod.mk.injEq] at hrm; obtain ⟨_, rfl⟩ := hrm
    obtain ⟨ci, hdrop, hil⟩ := consumeAll p h
    have m1 := hmi.of_ci ci
    have f1 := LFrame.of_ci ci
    generalize p.consumeIndentN p.indent = p1 at ci hdrop hil m1 f1 ⊢
    have i1 := ci.inv h
    have ad := advance_post p1 blockQuotePrefix.length i1.cur (by rw [ci.line]; omega)
    have m3 := m1.of_adv ad
    have f3 := f1.trans (LFrame.of_adv ad)
    generalize p1.advance blockQuotePrefix.length = p3 at ad m3 f3
    have i3 := ad.inv i1
    have s3 := ad.st3 (ci.st3 hs)
    have k3 : p3.containerKind = p.containerKind := by rw [ad.ckind, ci.ckind]
    split
    · have c4 := consumeIndentN_post p3 1 i3.cur (by omega)
      exact ⟨f3.trans (LFrame.of_ci c4), m3.of_ci c4, by rw [c4.ckind, k3], fun h4 => by have := c4.st3 s3; omega⟩
    · exact ⟨f3, m3, k3, fun h4 => by omega⟩
  split at hrm
  · -- fenced code
    rename_i hk4
    have hk4' : kind = BK.fencedCode := by simpa using hk4
    simp only [] at hrm
    split at hrm
    · simp only [Option.some.injEq, Prod.mk.injEq] at hrm; obtain ⟨_, rfl⟩ := hrm
      have cl := consumeLine_post p h.cur
      exact ⟨LFrame.of_cl cl h.cur, hmi.of_cl cl h.cur, cl.ckind, fun _ => by rw [hk4']; exact ⟨by decide, by decide⟩⟩
    · simp only [Option.some.injEq, Prod.mk.injEq] at hrm; obtain ⟨_, rfl⟩ := hrm
      split
      · exact RMF.ofCI hmi hs (consumeIndentN_post p p.indent h.cur (Nat.le_refl _))
      · exact RMF.ofCI hmi hs (consumeIndentN_post p _ h.cur (by omega))
  split at hrm
  · -- indented code
    simp only [] at hrm
    split at hrm
    · split at hrm
      · simp only [Option.some.injEq, Prod.mk.injEq] at hrm; obtain ⟨_, rfl⟩ := hrm
        exact RMF.refl hmi hs
      · simp only [Option.some.injEq, Prod.mk.injEq] at hrm; obtain ⟨_, rfl⟩ := hrm
        exact RMF.ofCI hmi hs (consumeIndentN_post p p.indent h.cur (Nat.le_refl _))
    · simp only [Option.some.injEq, Prod.mk.injEq] at hrm; obtain ⟨_, rfl⟩ := hrm
      exact RMF.ofCI hmi hs (consumeIndentN_post p _ h.cur (by omega))
  split at hrm
  · -- HTML block
    rename_i hk7
    have hk7' : kind = BK.htmlBlock := by simpa using hk7
    split at hrm
    · split at hrm
      · simp only [Option.some.injEq, Prod.mk.injEq] at hrm; obtain ⟨_, rfl⟩ := hrm
        exact RMF.refl hmi hs
      · simp only [Option.some.injEq, Prod.mk.injEq] at hrm; obtain ⟨_, rfl⟩ := hrm
        have hb4 : p.i + ciSkip p + p.bytesAfterIndent.length ≤ p.line.length := by
          rw [ciSkip_bai p h.cur]; exact Nat.le_refl _
        have co := collectInline_post x p IK.rawHTML p.bytesAfterIndent.length h (by omega) hb4
        obtain ⟨m4, f4⟩ := collectInline_MI x p IK.rawHTML p.bytesAfterIndent.length h (by omega) hb4 hmi
          (by rw [hk, hk7']; decide)
        generalize p.collectInline x IK.rawHTML p.bytesAfterIndent.length = p4 at co m4 f4
        have cl := consumeLine_post p4 co.inv.cur
        exact ⟨f4.trans (LFrame.of_cl cl co.inv.cur), m4.of_cl cl co.inv.cur, by rw [cl.ckind, co.ckind],
          fun _ => by rw [hk7']; exact ⟨by decide, by decide⟩⟩
    · simp only [Option.some.injEq, Prod.mk.injEq] at hrm; obtain ⟨_, rfl⟩ := hrm
      exact RMF.refl hmi hs
  split at hrm
  · simp only [Option.some.injEq, Prod.mk.injEq] at hrm; obtain ⟨_, rfl⟩ := hrm
    exact RMF.refl hmi hs
  · cases hrm

/-! ### `descendLoop` -/

theorem SpineOpen.succ {root : PB} {d : Nat} {c : PB} (h : SpineOpen root d) (hc : spineGet root (d + 1) = some c)
    (ho : c.isOpen = true) : SpineOpen root (d + 1) := by
  intro j hj
  rcases Nat.lt_or_ge j (d + 1) with hlt | hge
  · exact h j (by omega)
  · have : j = d + 1 := by omega
    subst this
    exact ⟨c.label, labelAt_of_spineGet hc, (isOpen_iff c).mp ho⟩

/-- The loop invariant of the descent: nothing but the cursor has changed. -/
structure DI (p0 p : LP) (parent : Nat) : Prop where
  root : p.root = p0.root
  src : p.source = p0.source
  ls : p.lineStart = p0.lineStart
  line : p.line = p0.line
  sopen : SpineOpen p.root parent

/-- What the descent guarantees. -/
structure DPost (p0 : LP) (r : Bool × LP) : Prop where
  term : r.2.state = 4 → PBSpans QT 0 (lineEnd p0) r.2.root ∧ r.2.root.label.stop < 0
  cont : r.2.state ≠ 4 → r.2.root = p0.root ∧ r.2.source = p0.source ∧ r.2.lineStart = p0.lineStart ∧ r.2.line = p0.line ∧
    SpineOpen r.2.root r.2.depth ∧ (r.1 = false → ∃ c, spineGet r.2.root (r.2.depth + 1) = some c ∧ c.isOpen = true)

theorem lineStart_le_lineEnd (p : LP) : (p.lineStart : Int) ≤ lineEnd p := by
  simp only [lineEnd]; omega

theorem DI.exit {Q : ParaPred} {p0 p : LP} {parent : Nat} (hroot : PBSpans Q 0 p0.lineStart p0.root) (d : DI p0 p parent)
    (b : Bool) (hb : b = false → ∃ c, spineGet p.root (parent + 1) = some c ∧ c.isOpen = true) :
    DPost p0 (b, { p with depth := parent }) := by
  refine ⟨fun _ => ⟨?_, d.sopen.root_open⟩, fun _ => ⟨d.root, d.src, d.ls, d.line, d.sopen, hb⟩⟩
  show PBSpans QT 0 (lineEnd p0) p.root
  rw [d.root]
  exact PBSpans_mono' (Int.le_refl _) (lineStart_le_lineEnd p0) (PBSpans_toQT hroot)

theorem descendLoop_sp {Q : ParaPred} (x : PExt) (p0 : LP) (hroot : PBSpans Q 0 p0.lineStart p0.root) :
    ∀ (fuel : Nat) (p : LP) (parent : Nat), BT.Inv { p with depth := parent } → DI p0 p parent →
    DPost p0 (descendLoop x fuel p parent) := by
  intro fuel
  induction fuel with
  | zero => intro p parent _ d; exact d.exit hroot true (fun h => by cases h)
  | succ fuel ih =>
    intro p parent h d
    unfold descendLoop
    split
    · exact d.exit hroot true (fun h => by cases h)
    rename_i c hc
    split
    · exact d.exit hroot true (fun h => by cases h)
    rename_i hco
    have hco' : c.isOpen = true := by simpa using hco
    simp only []
    have h1 : BT.Inv { p with depth := parent + 1 } :=
      ⟨h.panic, ⟨h.cur.hi, h.cur.htab⟩, ⟨h.tree.root, by show (spineGet p.root (parent + 1)).isSome; rw [hc]; rfl⟩⟩
    have hso1 : SpineOpen p.root (parent + 1) := d.sopen.succ hc hco'
    have hmi1 : MI Q ({ p with depth := parent + 1, state := stateDescending } : LP) := by
      refine ⟨?_, hso1, h.cur.hi⟩
      show PBSpans Q 0 (curPos p) p.root
      rw [d.root]
      refine PBSpans_mono' (Int.le_refl _) ?_ hroot
      rw [← d.ls]; exact lineStart_le_curPos p
    have hk1 : ({ p with depth := parent + 1, state := stateDescending } : LP).containerKind = c.kind :=
      kind_of_container (p := { p with depth := parent + 1, state := stateDescending }) hc
    split
    · exact d.exit hroot false (fun _ => ⟨c, hc, hco'⟩)
    · rename_i ok p2 hrm
      have rm := ruleMatch_post x c.kind _ (h1.setState stateDescending) rfl ok p2 hrm
      have rf := ruleMatch_frame (Q := Q) x c.kind _ (h1.setState stateDescending) rfl hmi1 hk1 ok p2 hrm
      have d2 : p2.depth = parent + 1 := rm.depth
      have e2src : p2.source = p0.source := by rw [rf.frame.src]; exact d.src
      have e2ls : p2.lineStart = p0.lineStart := by rw [rf.frame.ls]; exact d.ls
      have e2line : p2.line = p0.line := by rw [rf.frame.line]; exact d.line
      split
      · -- terminated: the container is closed at the cursor
        rename_i h4
        have h4' : p2.state = 4 := by simpa [stateDescendTerminated] using h4
        obtain ⟨hleaf, hnp⟩ := rf.st4 h4'
        have hk2 : p2.containerKind = c.kind := by rw [rf.ckind]; exact hk1
        have cc := closeContainer_leaf (x := x) rf.mi (by rw [d2]; omega) (by rw [hk2]; exact hleaf) (by rw [hk2]; exact hnp)
        have ccp := closeContainer_post x p2 (↑p2.lineStart + ↑p2.i) rm.inv.tree
        obtain ⟨_, cs2, cs3, cs4⟩ := closeContainer_src x p2 (curPos p2)
        refine ⟨fun _ => ⟨?_, cc.1.sopen.root_open⟩, fun hne => ?_⟩
        · show PBSpans QT 0 (lineEnd p0) (p2.closeContainer x (↑p2.lineStart + ↑p2.i)).root
          have hb := cc.1.base
          refine PBSpans_mono' (Int.le_refl _) ?_ (PBSpans_toQT hb)
          have := curPos_le_lineEnd cc.1.ile
          have e : lineEnd (p2.closeContainer x (curPos p2)) = lineEnd p0 := by
            simp only [lineEnd, cs2, cs3, e2ls, e2line]
          rw [e] at this
          exact this
        · exfalso
          apply hne
          show (p2.closeContainer x (↑p2.lineStart + ↑p2.i)).state = 4
          rw [ccp.state]; exact h4'
      · rename_i hn4
        have s3 : p2.state = 3 := by
          rcases rm.st with h' | h'
          · exact h'
          · exfalso; apply hn4; simp [stateDescendTerminated, h']
        have hr2 : p2.root = p.root := rm.root s3
        have d2' : DI p0 p2 (parent + 1) := ⟨by rw [hr2]; exact d.root, e2src, e2ls, e2line, by rw [hr2]; exact hso1⟩
        split
        · have := (DI.exit (Q := Q) (p := p2) (parent := parent) hroot
            ⟨d2'.root, e2src, e2ls, e2line, by rw [hr2]; exact d.sopen⟩ false (fun _ => ⟨c, by rw [hr2]; exact hc, hco'⟩))
          exact this
        · apply ih p2 (parent + 1) _ d2'
          have := rm.inv.setDepth (parent + 1) (by omega)
          exact this

theorem descendOpenBlocks_sp {Q : ParaPred} (x : PExt) (p : LP) (h : BT.Inv p) (hroot : PBSpans Q 0 p.lineStart p.root)
    (hopen : p.root.label.stop < 0) : DPost p (descendOpenBlocks x p) := by
  apply descendLoop_sp x p hroot _ p 0 (h.setDepth 0 (Nat.zero_le _))
  refine ⟨rfl, rfl, rfl, rfl, ?_⟩
  intro j hj
  have : j = 0 := by omega
  subst this
  exact ⟨p.root.label, labelAt_zero _, hopen⟩

end CM.Proofs.BSp
