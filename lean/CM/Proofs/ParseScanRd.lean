import CM.Proofs.BlocksWellRd
import CM.Proofs.ParseSeamsDef
import CM.Proofs.InlShapeCodeInv
import CM.Proofs.RefDefSpansRd2
import CM.Proofs.InlShapeHtml
/-
C02 / C04, inline halves, for the whole of `Parse` — the byte reader over the inline children of a container.

`RC src L N`: what the scanner proofs need to know about the inline children `L` of a container (in order, inside `[0, N]`,
Indent or Unparsed leaves, every child but the first not empty, Indent nodes one byte long).
A reader over a suffix of `L` is `Live` (its first node contains the position) or dead (no nodes left).  A dead reader goes on
reading the source at its position (`Rd.current`), which is the end of the last child: `TailSafe src L` says that a last
child that does not end with a line ending is followed by a byte no scanner accepts (white space, `#`, or the end of the
source): `DeadS`.  `SI`: the invariant of the scanner loops — the bounds `RdOK` of `BlocksWellRd`, and `Live ∨ DeadS`.

`next_ok` / `next_fail`: one `next` from a state satisfying `SI` — a successful one gives a live reader, a failing one a
`DeadS` one PROVIDED the byte left behind was not a line ending or a space (a `next` that fails at the line ending of the
last line leaves a reader that reads whatever follows the container).
-/
namespace CM.Proofs.PSc
open CM CM.Model CM.Gen CM.Proofs CM.Proofs.PS CM.Proofs.InlH

/-- The inline children of a container, as the reader needs them. -/
structure RC (src : Bytes) (L : List Tree) (N : Nat) : Prop where
  sorted : SortedSpans L
  nn : ∀ t ∈ L, 0 ≤ t.label.start
  le : ∀ t ∈ L, t.label.start ≤ t.label.stop
  bound : ∀ t ∈ L, t.label.stop ≤ (N : Int)
  kind : ∀ t ∈ L, isIndent t = true ∨ isUnparsed t = true
  tailNE : ∀ t ∈ L.tail, t.label.start < t.label.stop
  ind1 : ∀ t ∈ L, isIndent t = true → t.label.stop = t.label.start + 1
  indWS : IndentWS src L
  len : N ≤ src.length

/-- a byte no scanner accepts as a closer -/
def isSafeB (c : UInt8) : Bool := c == 0 || c == SP || c == TAB || c == LF || c == CR || c == 0x23

/-- The byte a reader without nodes sees at `p` is white space, `#`, or the end marker. -/
def SafeAt (src : Bytes) (p : Nat) : Prop :=
  src.length ≤ p ∨ (src.getD p 0 = SP ∨ src.getD p 0 = TAB ∨ src.getD p 0 = LF ∨ src.getD p 0 = CR ∨ src.getD p 0 = 0x23)

/-- A last child that is not an Indent node ends with a line ending or is followed by a safe byte. -/
def TailSafe (src : Bytes) (L : List Tree) : Prop :=
  ∀ t, L.getLast? = some t → isIndent t = false → EolEnd src t.label.stop ∨ SafeAt src t.label.stop.toNat

/-- The last child is not followed by `)`. -/
def TailNP (src : Bytes) (L : List Tree) : Prop :=
  ∀ t, L.getLast? = some t → src.length ≤ t.label.stop.toNat ∨ src.getD t.label.stop.toNat 0 ≠ 0x29

variable {src : Bytes} {L : List Tree} {N : Nat}

/-- The reader's first node contains its position. -/
def Live (L : List Tree) (r : Rd) : Prop :=
  (∃ k, r.spans = L.drop k) ∧ ∃ t rest, r.spans = t :: rest ∧ t.label.start ≤ (r.pos : Int) ∧ (r.pos : Int) < t.label.stop

/-- A reader without nodes at a safe byte. -/
def DeadS (src : Bytes) (r : Rd) : Prop := r.spans = [] ∧ SafeAt src r.pos

/-- A reader without nodes at a byte other than `)`. -/
def DeadN (src : Bytes) (r : Rd) : Prop := r.spans = [] ∧ (src.length ≤ r.pos ∨ src.getD r.pos 0 ≠ 0x29)

theorem DeadS.toN {r : Rd} (h : DeadS src r) : DeadN src r := by
  refine ⟨h.1, ?_⟩
  rcases h.2 with h | h
  · exact Or.inl h
  · right
    rcases h with h | h | h | h | h <;> (rw [h]; decide)

theorem rd_eta' (r : Rd) : ({ r with spans := r.spans } : Rd) = r := by cases r; rfl

/-! ### a live reader -/

theorem RC.mem_drop (_hc : RC src L N) {k : Nat} {t : Tree} {rest : List Tree} (h : L.drop k = t :: rest) : t ∈ L :=
  List.mem_of_mem_drop (by rw [h]; exact List.mem_cons_self)

theorem Live.currentNode (hc : RC src L N) {r : Rd} (h : Live L r) :
    ∃ t rest, r.spans = t :: rest ∧ t ∈ L ∧ t.label.start ≤ (r.pos : Int) ∧ (r.pos : Int) < t.label.stop ∧
      r.currentNode = (some t, r) := by
  obtain ⟨⟨k, hk⟩, t, rest, hs, h1, h2⟩ := h
  have htm : t ∈ L := hc.mem_drop (hk ▸ hs)
  have h0 := hc.nn t htm
  refine ⟨t, rest, hs, htm, h1, h2, ?_⟩
  have hi : nodeIndexForPosition (t :: rest) r.pos 0 = some 0 := by
    simp only [nodeIndexForPosition]
    rw [if_neg (by omega)]
    have : spanContains t r.pos = true := by
      simp only [spanContains, Node.spanValid, Bool.and_eq_true, decide_eq_true_eq]
      omega
    rw [if_pos this]
  unfold Rd.currentNode
  rw [hs, hi]
  simp only [List.drop_zero, List.head?_cons]
  have : ({ r with spans := t :: rest } : Rd) = r := by rw [← hs]
  rw [this]

theorem Live.pos_lt (hc : RC src L N) {r : Rd} (h : Live L r) : r.pos < N := by
  obtain ⟨t, rest, _, htm, _, h2, _⟩ := h.currentNode hc
  have := hc.bound t htm
  omega

/-- the byte a live reader sees -/
def liveByte (src : Bytes) (t : Tree) (r : Rd) : UInt8 :=
  if isIndent t then SP else if src.getD r.pos 0 == 0 then nullReplacementString.getD r.vpos 0 else src.getD r.pos 0

theorem Live.current (hc : RC src L N) {r : Rd} (h : Live L r) :
    ∃ t rest, r.spans = t :: rest ∧ t ∈ L ∧ (r.pos : Int) < t.label.stop ∧ r.current src = (liveByte src t r, r) := by
  obtain ⟨t, rest, hs, htm, h1, h2, hcn⟩ := h.currentNode hc
  refine ⟨t, rest, hs, htm, h2, ?_⟩
  have hp := h.pos_lt hc
  have := hc.len
  unfold Rd.current liveByte
  rw [if_neg (by omega), hcn]
  simp only
  split
  · rfl
  · split <;> rfl

theorem Live.current_snd (hc : RC src L N) {r : Rd} (h : Live L r) : (r.current src).2 = r := by
  obtain ⟨_, _, _, _, _, e⟩ := h.current (src := src) hc
  rw [e]

/-! ### a dead reader -/

theorem dead_currentNode {r : Rd} (h : r.spans = []) : r.currentNode = (none, r) := by
  unfold Rd.currentNode
  rw [h]
  simp only [nodeIndexForPosition]
  have : ({ r with spans := [] } : Rd) = r := by rw [← h]
  rw [this]

theorem dead_next {r : Rd} (h : r.spans = []) : r.next src = (false, r) := by
  unfold Rd.next
  rw [dead_currentNode h]

theorem dead_current_snd {r : Rd} (h : r.spans = []) : (r.current src).2 = r := by
  unfold Rd.current
  split
  · rfl
  · rw [dead_currentNode h]
    simp only
    split <;> rfl

theorem dead_remaining {r : Rd} (h : r.spans = []) : r.remainingNodeBytes src = ([], r) := by
  unfold Rd.remainingNodeBytes
  rw [dead_currentNode h]

/-- the byte a dead reader sees -/
theorem dead_current_fst {r : Rd} (h : r.spans = []) :
    (r.current src).1 = if r.pos ≥ src.length then 0 else
      if src.getD r.pos 0 == 0 then nullReplacementString.getD r.vpos 0 else src.getD r.pos 0 := by
  unfold Rd.current
  split
  · rfl
  · rw [dead_currentNode h]
    simp only
    split <;> rfl

theorem DeadS.byte {r : Rd} (h : DeadS src r) : isSafeB (r.current src).1 = true := by
  rw [dead_current_fst h.1]
  rcases h.2 with h2 | h2
  · rw [if_pos h2]; rfl
  · have hne : src.getD r.pos 0 ≠ 0 := by
      rcases h2 with e | e | e | e | e <;> (rw [e]; decide)
    by_cases hp : r.pos ≥ src.length
    · rw [if_pos hp]; rfl
    · rw [if_neg hp, if_neg (by simpa using hne)]
      rcases h2 with e | e | e | e | e <;> (rw [e]; decide)

theorem DeadN.byte {r : Rd} (h : DeadN src r) : (r.current src).1 ≠ 0x29 := by
  rw [dead_current_fst h.1]
  by_cases hp : r.pos ≥ src.length
  · rw [if_pos hp]; decide
  · rw [if_neg hp]
    rcases h.2 with h2 | h2
    · exact absurd h2 hp
    · split
      · intro e
        have : ∀ v : Nat, nullReplacementString.getD v 0 ≠ 0x29 := by
          intro v
          unfold nullReplacementString
          match v with
          | 0 => decide
          | 1 => decide
          | 2 => decide
          | (n + 3) => simp
        exact this _ e
      · exact h2

/-! ### one `next` from a live reader -/

theorem nextTextNode_cons {t' : Tree} {rest' : List Tree} (hk : isIndent t' = true ∨ isUnparsed t' = true) :
    nextTextNode (t' :: rest') = some (t', t' :: rest') := by
  unfold nextTextNode
  have : (Node.isI t' IK.unparsed || Node.isI t' IK.text || Node.isI t' IK.indent) = true := by
    rcases hk with h | h
    · unfold isIndent at h; rw [h]; simp
    · unfold isUnparsed at h; rw [h]; simp
  rw [if_pos this]

theorem getLast_of_drop {α} {L : List α} {k : Nat} {t : α} (h : L.drop k = [t]) : L.getLast? = some t := by
  have e : L = L.take k ++ [t] := by rw [← h, List.take_append_drop]
  rw [e, List.getLast?_append]
  simp

theorem mem_tail_of_drop {α} {L : List α} {k : Nat} {t u : α} {rest : List α} (h : L.drop k = t :: u :: rest) :
    u ∈ L.tail := by
  have e : L.drop (k + 1) = u :: rest := by
    rw [← List.drop_drop, h]; rfl
  have hm : u ∈ L.drop (k + 1) := by rw [e]; exact List.mem_cons_self
  cases L with
  | nil => simp at hm
  | cons a l =>
    simp only [List.drop_succ_cons] at hm
    simp only [List.tail_cons]
    exact List.mem_of_mem_drop hm

/-- Everything about one `next` on a live reader. -/
theorem Live.next (hc : RC src L N) {r : Rd} (h : Live L r) :
    (r.next src).2.prev = r.pos ∧
    ((r.next src).1 = true → Live L (r.next src).2) ∧
    ((r.next src).1 = false → (r.next src).2.spans = [] ∧ (r.next src).2.pos = r.pos + 1 ∧
      ∃ t, L.getLast? = some t ∧ t.label.stop = (r.pos : Int) + 1 ∧ r.current src = (liveByte src t r, r)) := by
  obtain ⟨t, rest, hs, htm, h1, h2, hcn⟩ := h.currentNode hc
  obtain ⟨k, hk⟩ := h.1
  have hcur : r.current src = (liveByte src t r, r) := by
    obtain ⟨t', rest', hs', _, _, e⟩ := h.current (src := src) hc
    rw [hs] at hs'; cases hs'; exact e
  unfold Rd.next
  rw [hcn]
  simp only
  by_cases c1 : (isIndent t && decide ((r.vpos : Int) < t.label.indent)) = true
  · rw [if_pos c1]
    exact ⟨rfl, fun _ => ⟨⟨k, hk⟩, t, rest, hs, h1, h2⟩, fun hh => by cases hh⟩
  · rw [if_neg c1]
    by_cases c2 : (!isIndent t && decide (((r.pos + 1 : Nat) : Int) < t.label.stop)) = true
    · rw [if_pos c2]
      simp only [Bool.and_eq_true, decide_eq_true_eq] at c2
      refine ⟨rfl, fun _ => ⟨⟨k, hk⟩, t, rest, hs, ?_, ?_⟩, fun hh => by cases hh⟩
      · show t.label.start ≤ ((r.pos + 1 : Nat) : Int); omega
      · exact c2.2
    · rw [if_neg c2]
      have hstop : t.label.stop = (r.pos : Int) + 1 := by
        cases hi : isIndent t with
        | true => have := hc.ind1 t htm hi; omega
        | false =>
          rw [hi] at c2
          simp only [Bool.not_false, Bool.true_and, decide_eq_true_eq] at c2
          omega
      rw [hs]
      simp only [List.drop_succ_cons, List.drop_zero]
      cases rest with
      | nil =>
        rw [show nextTextNode ([] : List Tree) = none from rfl]
        dsimp only
        refine ⟨rfl, (fun hh => by cases hh), fun _ => ⟨rfl, rfl, t, ?_, hstop, hcur⟩⟩
        exact getLast_of_drop (hk ▸ hs)
      | cons t' rest' =>
        have hd : L.drop k = t :: t' :: rest' := hk ▸ hs
        have ht'm : t' ∈ L := List.mem_of_mem_drop (by rw [hd]; simp)
        rw [nextTextNode_cons (hc.kind t' ht'm)]
        refine ⟨rfl, fun _ => ⟨⟨k + 1, ?_⟩, t', rest', rfl, ?_, ?_⟩, fun hh => by cases hh⟩
        · show t' :: rest' = L.drop (k + 1)
          rw [← List.drop_drop, hd]; rfl
        · show t'.label.start ≤ ((t'.label.start.toNat : Nat) : Int)
          have := hc.nn t' ht'm; omega
        · show ((t'.label.start.toNat : Nat) : Int) < t'.label.stop
          have := hc.nn t' ht'm
          have := hc.tailNE t' (mem_tail_of_drop hd)
          omega

/-- The four cases of a `next` on a live reader: a column of an Indent node, a byte inside the node, the end of the last
    node, the jump to the next node. -/
theorem Live.next_cases (hc : RC src L N) {r : Rd} (h : Live L r) :
    ∃ t rest, r.spans = t :: rest ∧ t ∈ L ∧ t.label.start ≤ (r.pos : Int) ∧ (r.pos : Int) < t.label.stop ∧
      ((isIndent t = true ∧ (r.vpos : Int) < t.label.indent ∧
          r.next src = (true, { r with prev := r.pos, vpos := r.vpos + 1 })) ∨
       (isIndent t = false ∧ (r.pos : Int) + 1 < t.label.stop ∧
          ∃ v, r.next src = (true, { r with prev := r.pos, pos := r.pos + 1, vpos := v })) ∨
       (t.label.stop = (r.pos : Int) + 1 ∧ rest = [] ∧
          r.next src = (false, { spans := [], prev := r.pos, pos := r.pos + 1, vpos := r.vpos })) ∨
       (t.label.stop = (r.pos : Int) + 1 ∧ ∃ t' rest', rest = t' :: rest' ∧ t' ∈ L ∧ t.label.stop ≤ t'.label.start ∧
          0 ≤ t'.label.start ∧ t'.label.start < t'.label.stop ∧
          ∃ v, r.next src = (true, { spans := t' :: rest', prev := r.pos, pos := t'.label.start.toNat, vpos := v }))) := by
  obtain ⟨t, rest, hs, htm, h1, h2, hcn⟩ := h.currentNode hc
  obtain ⟨k, hk⟩ := h.1
  refine ⟨t, rest, hs, htm, h1, h2, ?_⟩
  unfold Rd.next
  rw [hcn]
  simp only
  by_cases c1 : (isIndent t && decide ((r.vpos : Int) < t.label.indent)) = true
  · rw [if_pos c1]
    simp only [Bool.and_eq_true, decide_eq_true_eq] at c1
    exact Or.inl ⟨c1.1, c1.2, rfl⟩
  · rw [if_neg c1]
    by_cases c2 : (!isIndent t && decide (((r.pos + 1 : Nat) : Int) < t.label.stop)) = true
    · rw [if_pos c2]
      simp only [Bool.and_eq_true, decide_eq_true_eq, Bool.not_eq_true'] at c2
      exact Or.inr (Or.inl ⟨c2.1, by have := c2.2; omega, _, rfl⟩)
    · rw [if_neg c2]
      have hstop : t.label.stop = (r.pos : Int) + 1 := by
        cases hi : isIndent t with
        | true => have := hc.ind1 t htm hi; omega
        | false =>
          rw [hi] at c2
          simp only [Bool.not_false, Bool.true_and, decide_eq_true_eq] at c2
          omega
      rw [hs]
      simp only [List.drop_succ_cons, List.drop_zero]
      cases rest with
      | nil =>
        rw [show nextTextNode ([] : List Tree) = none from rfl]
        exact Or.inr (Or.inr (Or.inl ⟨hstop, rfl, rfl⟩))
      | cons t' rest' =>
        have hd : L.drop k = t :: t' :: rest' := hk ▸ hs
        have ht'm : t' ∈ L := List.mem_of_mem_drop (by rw [hd]; simp)
        rw [nextTextNode_cons (hc.kind t' ht'm)]
        refine Or.inr (Or.inr (Or.inr ⟨hstop, t', rest', rfl, ht'm, ?_, hc.nn t' ht'm,
          hc.tailNE t' (mem_tail_of_drop hd), _, rfl⟩))
        have hso : SortedSpans (t :: t' :: rest') := by
          have := hc.sorted.drop k
          rw [hd] at this; exact this
        exact List.rel_of_pairwise_cons hso List.mem_cons_self

/-- A successful `next` does not move backwards, moves forward outside Indent nodes, and uses up the measure `RDS.mu`. -/
theorem Live.next_ok_pos (hc : RC src L N) {r : Rd} (h : Live L r) (ht : (r.next src).1 = true) :
    r.pos ≤ (r.next src).2.pos ∧ RDS.mu src (r.next src).2 < RDS.mu src r ∧
    (∀ t rest, r.spans = t :: rest → isIndent t = false → r.pos + 1 ≤ (r.next src).2.pos) := by
  obtain ⟨t, rest, hs, htm, h1, h2, hcase⟩ := h.next_cases (src := src) hc
  have hlen : r.pos < src.length := by have := hc.bound t htm; have := hc.len; omega
  rcases hcase with ⟨hi, hv, e⟩ | ⟨hi, hlt, v, e⟩ | ⟨_, _, e⟩ | ⟨hst, t', rest', hr, ht'm, hadj, h0, hne, v, e⟩
  · rw [e]
    refine ⟨Nat.le_refl _, ?_, fun t1 rest1 hs1 hi1 => ?_⟩
    · simp only [RDS.mu, hs, hi, if_true]
      omega
    · rw [hs] at hs1; cases hs1; exact absurd (hi.symm.trans hi1) (by decide)
  · rw [e]
    refine ⟨Nat.le_succ _, ?_, fun _ _ _ _ => Nat.le_refl _⟩
    simp only [RDS.mu, hs, hi, Bool.false_eq_true, if_false]
    omega
  · rw [e] at ht; cases ht
  · rw [e]
    have hp : r.pos + 1 ≤ t'.label.start.toNat := by omega
    have hb := hc.bound t' ht'm
    have := hc.len
    refine ⟨by show r.pos ≤ t'.label.start.toNat; omega, ?_, fun _ _ _ _ => hp⟩
    simp only [RDS.mu, hs, hr, RDS.indSum]
    split <;> split <;> omega

theorem mu_dead {r : Rd} (h : r.spans = []) : RDS.mu src r = 0 := by simp only [RDS.mu, h]

theorem Live.mu_pos (hc : RC src L N) {r : Rd} (h : Live L r) : 1 ≤ RDS.mu src r := by
  obtain ⟨t, rest, hs, htm, _, h2, _⟩ := h.currentNode hc
  have := hc.bound t htm
  have := hc.len
  simp only [RDS.mu, hs]
  omega

theorem Live.mu_lt_fuel {r : Rd} (h : Live L r) : RDS.mu src r < rdFuel src L := by
  obtain ⟨⟨k, hk⟩, t, rest, hs, _, _⟩ := h
  unfold rdFuel
  have h1 := RDS.indSum_le L
  have h2 := RDS.indSum_drop L k
  rw [← hk, hs] at h2
  simp only [RDS.indSum] at h2
  simp only [RDS.mu, hs]
  split
  · rename_i hi; simp only [hi, if_true] at h2; omega
  · omega

/-- a byte that is not the end of a line and not a column of an Indent node -/
def NotWs (c : UInt8) : Prop := c ≠ LF ∧ c ≠ CR ∧ c ≠ SP

/-- A failing `next` from a live reader at a byte other than a line ending or a space leaves a reader at a safe byte. -/
theorem Live.next_fail (hc : RC src L N) (hT : TailSafe src L) {r : Rd} (h : Live L r) (hf : (r.next src).1 = false)
    (hw : NotWs (r.current src).1) : DeadS src (r.next src).2 := by
  obtain ⟨_, _, h3⟩ := h.next (src := src) hc
  obtain ⟨e1, e2, t, hl, hstop, hcur⟩ := h3 hf
  refine ⟨e1, ?_⟩
  rw [e2]
  rw [hcur] at hw
  simp only at hw
  have hni : isIndent t = false := by
    cases hi : isIndent t with
    | false => rfl
    | true => unfold liveByte at hw; rw [hi] at hw; exact absurd rfl hw.2.2
  rcases hT t hl hni with he | hs
  · exfalso
    obtain ⟨_, he2⟩ := he
    rcases he2 with he2 | he2
    · omega
    · have e : t.label.stop.toNat - 1 = r.pos := by omega
      rw [e] at he2
      unfold liveByte at hw
      rw [hni] at hw
      simp only [Bool.false_eq_true, if_false] at hw
      unfold RDC.isEolB at he2
      simp only [Bool.or_eq_true, beq_iff_eq] at he2
      have hnz : (src.getD r.pos 0 == 0) = false := by
        rcases he2 with e' | e' <;> (rw [e']; decide)
      rw [hnz] at hw
      simp only [Bool.false_eq_true, if_false] at hw
      rcases he2 with e' | e'
      · exact hw.1 e'
      · exact hw.2.1 e'
  · have e : t.label.stop.toNat = r.pos + 1 := by omega
    rw [e] at hs
    exact hs

/-- … and, whatever the byte, at a byte other than `)` when the container is not followed by one. -/
theorem Live.next_failN (hc : RC src L N) (hT : TailNP src L) {r : Rd} (h : Live L r) (hf : (r.next src).1 = false) :
    DeadN src (r.next src).2 := by
  obtain ⟨_, _, h3⟩ := h.next (src := src) hc
  obtain ⟨e1, e2, t, hl, hstop, _⟩ := h3 hf
  refine ⟨e1, ?_⟩
  rw [e2]
  have e : t.label.stop.toNat = r.pos + 1 := by omega
  have := hT t hl
  rw [e] at this
  exact this

/-! ### a fresh reader -/

/-- The first `currentNode` of a fresh reader over a suffix of `L`: live, or dead (the position is in none of the nodes). -/
theorem newReader_cn (u p : Nat) :
    ((newReader (L.drop u) p).currentNode.2).pos = p ∧ ((newReader (L.drop u) p).currentNode.2).prev = -1 ∧
    ((newReader (L.drop u) p).currentNode.2).vpos = 0 ∧
    (Live L (newReader (L.drop u) p).currentNode.2 ∨
      ((newReader (L.drop u) p).currentNode.2.spans = [] ∧ nodeIndexForPosition (L.drop u) p 0 = none)) := by
  have hp := currentNode_pos (newReader (L.drop u) p)
  refine ⟨hp.1, hp.2.1, hp.2.2, ?_⟩
  cases hi : nodeIndexForPosition (L.drop u) p 0 with
  | none =>
    right
    rw [currentNode_none_eq (r := newReader (L.drop u) p) hi]
    exact ⟨rfl, rfl⟩
  | some i =>
    left
    rw [currentNode_some_eq (r := newReader (L.drop u) p) hi]
    obtain ⟨_, t, h2, h3, h4⟩ := nodeIndex_spec hi
    simp only [Nat.sub_zero] at h2
    have hlt : i < (L.drop u).length := (List.getElem?_eq_some_iff.mp h2).1
    have ht : (L.drop u)[i] = t := (List.getElem?_eq_some_iff.mp h2).2
    refine ⟨⟨u + i, by simp only [newReader, List.drop_drop]⟩, t, (L.drop u).drop (i + 1), ?_, ?_, ?_⟩
    · simp only [newReader]
      rw [List.drop_eq_getElem_cons hlt, ht]
    · simp only [newReader]; omega
    · simp only [newReader]
      simp only [spanContains, Bool.and_eq_true, decide_eq_true_eq] at h3
      exact h3.2

/-- `current` of a fresh reader inside the source normalises it. -/
theorem newReader_current (u p : Nat) (hp : p < src.length) :
    (newReader (L.drop u) p).current src =
      (((newReader (L.drop u) p).currentNode.2.current src).1, (newReader (L.drop u) p).currentNode.2) := by
  have e2 := current_snd_of_lt src (newReader (L.drop u) p) (by simp only [newReader]; omega)
  have e1 : ((newReader (L.drop u) p).currentNode.2.current src).1 = ((newReader (L.drop u) p).current src).1 := by
    rw [← e2, current_snd_fst]
  rw [e1]
  exact Prod.ext rfl e2

/-- `p` is not strictly inside a child. -/
def Outside (L : List Tree) (p : Nat) : Prop := ∀ t ∈ L, ¬ (t.label.start < (p : Int) ∧ (p : Int) < t.label.stop)

theorem sorted_rel' {l : List Tree} (hs : SortedSpans l) {a b : Tree} (ha : a ∈ l) (hb : b ∈ l) :
    a = b ∨ a.label.stop ≤ b.label.start ∨ b.label.stop ≤ a.label.start := RDS.sorted_rel hs ha hb

/-- the end of the last child is outside every child -/
theorem outside_last (hc : RC src L N) {t : Tree} (hl : L.getLast? = some t) : Outside L t.label.stop.toNat := by
  intro v hv ⟨h1, h2⟩
  have htm : t ∈ L := List.mem_of_getLast? hl
  have := hc.nn t htm; have := hc.le t htm; have := hc.le v hv
  rcases sorted_rel' hc.sorted hv htm with rfl | h | h
  · omega
  · omega
  · -- `t` before `v`: impossible, `t` is the last
    obtain ⟨i, hi, rfl⟩ := List.mem_iff_getElem.1 hv
    have hlast : t = L[L.length - 1]'(by omega) := by
      rw [List.getLast?_eq_getElem?] at hl
      rw [List.getElem?_eq_getElem (by omega)] at hl
      exact (Option.some.inj hl).symm
    by_cases hil : i = L.length - 1
    · subst hil; rw [← hlast] at h1 h2; omega
    · have hp := List.pairwise_iff_getElem.1 hc.sorted i (L.length - 1) hi (by omega) (by omega)
      rw [← hlast] at hp
      omega

/-- a position where `nodeIndexForPosition` finds nothing is inside no child -/
theorem outside_of_none : ∀ (l : List Tree) (p k : Nat), SortedSpans l → (∀ t ∈ l, 0 ≤ t.label.start) →
    (∀ t ∈ l, t.label.start ≤ t.label.stop) →
    nodeIndexForPosition l p k = none → ∀ t ∈ l, ¬ (t.label.start ≤ (p : Int) ∧ (p : Int) < t.label.stop)
  | [], _, _, _, _, _, _, t, ht, _ => by cases ht
  | s :: rest, p, k, hs, hnn, hle, h, t, ht, ⟨h1, h2⟩ => by
    simp only [nodeIndexForPosition] at h
    have h0 := hnn s (List.mem_cons_self ..)
    have hsv := hle s (List.mem_cons_self ..)
    split at h
    · rename_i hgt
      rcases List.mem_cons.1 ht with rfl | ht'
      · omega
      · have : s.label.stop ≤ t.label.start := List.rel_of_pairwise_cons hs ht'
        omega
    · split at h
      · cases h
      · rename_i hns hnc
        rcases List.mem_cons.1 ht with rfl | ht'
        · apply hnc
          simp only [spanContains, Node.spanValid, Bool.and_eq_true, decide_eq_true_eq]
          omega
        · exact outside_of_none rest p (k + 1) (List.Pairwise.of_cons hs) (fun v hv => hnn v (List.mem_cons_of_mem _ hv))
            (fun v hv => hle v (List.mem_cons_of_mem _ hv)) h t ht' ⟨h1, h2⟩

/-! ### the invariant of the scanner loops -/

/-- Bounds, and: live or dead at a safe byte. -/
structure SI (src : Bytes) (L : List Tree) (m N : Nat) (r : Rd) : Prop where
  ok : RdOK' m N r
  st : Live L r ∨ DeadS src r

/-- The same with "dead at a byte other than `)`". -/
structure SN (src : Bytes) (L : List Tree) (m N : Nat) (r : Rd) : Prop where
  ok : RdOK' m N r
  st : Live L r ∨ DeadN src r
  out : r.spans = [] → Outside L r.pos

variable {m : Nat} {r : Rd}

theorem SI.current_snd (hc : RC src L N) (h : SI src L m N r) : (r.current src).2 = r := by
  rcases h.st with h' | h'
  · exact h'.current_snd hc
  · exact dead_current_snd h'.1

theorem SN.current_snd (hc : RC src L N) (h : SN src L m N r) : (r.current src).2 = r := by
  rcases h.st with h' | h'
  · exact h'.current_snd hc
  · exact dead_current_snd h'.1

theorem SI.current_eq (hc : RC src L N) (h : SI src L m N r) : r.current src = ((r.current src).1, r) :=
  Prod.ext rfl (h.current_snd hc)

theorem SN.current_eq (hc : RC src L N) (h : SN src L m N r) : r.current src = ((r.current src).1, r) :=
  Prod.ext rfl (h.current_snd hc)

theorem SI.next_ok (hc : RC src L N) (h : SI src L m N r) (ht : (r.next src).1 = true) : SI src L m N (r.next src).2 := by
  refine ⟨h.ok.next src, ?_⟩
  rcases h.st with h' | h'
  · exact Or.inl ((h'.next hc).2.1 ht)
  · rw [dead_next h'.1] at ht; cases ht

theorem SN.next_ok (hc : RC src L N) (h : SN src L m N r) (ht : (r.next src).1 = true) : SN src L m N (r.next src).2 := by
  rcases h.st with h' | h'
  · have hl := (h'.next (src := src) hc).2.1 ht
    refine ⟨h.ok.next src, Or.inl hl, fun e => ?_⟩
    obtain ⟨_, t, rest, hs, _⟩ := hl
    rw [hs] at e; cases e
  · rw [dead_next h'.1] at ht; cases ht

theorem SI.next_fail (hc : RC src L N) (hT : TailSafe src L) (h : SI src L m N r) (hf : (r.next src).1 = false)
    (hw : NotWs (r.current src).1) : SI src L m N (r.next src).2 := by
  refine ⟨h.ok.next src, ?_⟩
  rcases h.st with h' | h'
  · exact Or.inr (h'.next_fail hc hT hf hw)
  · rw [dead_next h'.1]; exact Or.inr h'

theorem SN.next_any (hc : RC src L N) (hT : TailNP src L) (h : SN src L m N r) : SN src L m N (r.next src).2 := by
  cases hb : (r.next src).1 with
  | true => exact h.next_ok hc hb
  | false =>
    rcases h.st with h' | h'
    · refine ⟨h.ok.next src, Or.inr (h'.next_failN hc hT hb), fun _ => ?_⟩
      obtain ⟨_, e2, t, hl, hstop, _⟩ := (h'.next (src := src) hc).2.2 hb
      rw [e2]
      have := outside_last hc hl
      have e : t.label.stop.toNat = r.pos + 1 := by omega
      rwa [e] at this
    · rw [dead_next h'.1]; exact h

/-- whatever the outcome, `next` from a byte that is not white space keeps `SI` -/
theorem SI.next_any (hc : RC src L N) (hT : TailSafe src L) (h : SI src L m N r) (hw : NotWs (r.current src).1) :
    SI src L m N (r.next src).2 := by
  cases hb : (r.next src).1 with
  | true => exact h.next_ok hc hb
  | false => exact h.next_fail hc hT hb hw

/-- **A byte that is not safe was read by a live reader**: the position is inside the container. -/
theorem SI.live_of_byte (hc : RC src L N) (h : SI src L m N r) (hb : isSafeB (r.current src).1 = false) :
    Live L r ∧ r.pos < N := by
  rcases h.st with h' | h'
  · exact ⟨h', h'.pos_lt hc⟩
  · rw [h'.byte] at hb; cases hb

theorem SN.live_of_paren (hc : RC src L N) (h : SN src L m N r) (hb : (r.current src).1 = 0x29) :
    Live L r ∧ r.pos < N := by
  rcases h.st with h' | h'
  · exact ⟨h', h'.pos_lt hc⟩
  · exact absurd hb h'.byte

theorem SI.lo (h : SI src L m N r) : m ≤ r.pos := by
  obtain ⟨_, h'⟩ := h.ok; exact h'.lo

theorem SI.pos_le (h : SI src L m N r) : r.pos ≤ N := by
  obtain ⟨_, h'⟩ := h.ok; exact h'.pos

theorem SI.prev_le (h : SI src L m N r) : r.prev + 1 ≤ (N : Int) := by
  obtain ⟨_, h'⟩ := h.ok; exact h'.prev

theorem SN.lo (h : SN src L m N r) : m ≤ r.pos := by
  obtain ⟨_, h'⟩ := h.ok; exact h'.lo

theorem SN.pos_le (h : SN src L m N r) : r.pos ≤ N := by
  obtain ⟨_, h'⟩ := h.ok; exact h'.pos

theorem SN.prev_le (h : SN src L m N r) : r.prev + 1 ≤ (N : Int) := by
  obtain ⟨_, h'⟩ := h.ok; exact h'.prev

end CM.Proofs.PSc
