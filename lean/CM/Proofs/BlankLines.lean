import CM.Proofs.BlankShift
import CM.Proofs.TilingRun
/-
C14 (b), part 2: whole blank lines. `terminated x`: `x` is empty or ends in a line-ending byte; `blankLines p`: `p` is
a concatenation of whole blank lines. The first line of `p ++ b` is the first line of `p` when `p` is non-empty,
terminated, and the junction does not merge a CR with an LF; the blank-line loop of `NextBlock` consumes a blank
prefix line by line.
-/
namespace CM.Proofs
open CM CM.Model CM.Gen

/-- `x` is empty or ends in LF or CR: every line of `x` is a whole line. -/
def terminated (x : Bytes) : Bool :=
  match x.getLast? with
  | none => true
  | some c => c == LF || c == CR

/-- `p` is a concatenation of whole blank lines: only spaces, tabs and line endings, and empty or ending in a line
    ending. -/
def blankLines (p : Bytes) : Bool := isBlankLine p && terminated p

theorem terminated_nil : terminated [] = true := rfl

theorem terminated_cons_cons (c d : UInt8) (r : Bytes) : terminated (c :: d :: r) = terminated (d :: r) := by
  simp [terminated, List.getLast?_cons_cons]

theorem terminated_singleton (c : UInt8) : terminated [c] = (c == LF || c == CR) := by
  simp [terminated]

theorem getLast?_drop_of_lt {α} (l : List α) {n : Nat} (h : n < l.length) : (l.drop n).getLast? = l.getLast? := by
  induction l generalizing n with
  | nil => simp at h
  | cons a t ih =>
    cases n with
    | zero => rfl
    | succ n =>
      have h' : n < t.length := by simpa using h
      rw [List.drop_succ_cons, ih h']
      cases t with
      | nil => simp at h'
      | cons b r => rw [List.getLast?_cons_cons]

theorem terminated_drop {p : Bytes} (h : terminated p = true) (n : Nat) : terminated (p.drop n) = true := by
  by_cases hn : n < p.length
  · unfold terminated; rw [getLast?_drop_of_lt p hn]; exact h
  · rw [List.drop_eq_nil_of_le (by omega)]; rfl

theorem not_crlfSplit_drop {p b : Bytes} (h : ¬ CRLFSplit p b) (n : Nat) : ¬ CRLFSplit (p.drop n) b := by
  by_cases hn : n < p.length
  · intro ⟨h1, h2⟩
    exact h ⟨by rw [← getLast?_drop_of_lt p hn]; exact h1, h2⟩
  · rw [List.drop_eq_nil_of_le (by omega)]; simp [CRLFSplit]

theorem isBlankLine_cons (c : UInt8) (r : Bytes) : isBlankLine (c :: r) = (isSpaceTabOrLineEnding c && isBlankLine r) := by
  simp [isBlankLine]

theorem isBlankLine_take {p : Bytes} (h : isBlankLine p = true) (n : Nat) : isBlankLine (p.take n) = true := by
  simp only [isBlankLine, List.all_eq_true] at h ⊢
  intro c hc; exact h c (List.mem_of_mem_take hc)

theorem isBlankLine_drop {p : Bytes} (h : isBlankLine p = true) (n : Nat) : isBlankLine (p.drop n) = true := by
  simp only [isBlankLine, List.all_eq_true] at h ⊢
  intro c hc; exact h c (List.mem_of_mem_drop hc)

theorem blankLines_drop {p : Bytes} (h : blankLines p = true) (n : Nat) : blankLines (p.drop n) = true := by
  simp only [blankLines, Bool.and_eq_true] at h ⊢
  exact ⟨isBlankLine_drop h.1 n, terminated_drop h.2 n⟩

theorem unpaddedNullLength_blank {y : Bytes} (h : isBlankLine y = true) : unpaddedNullLength y = y.length := by
  have := unpaddedNullLength_padNulls y
  rw [padNulls_eq_self_of_blank h] at this
  exact this

/-- The first line of `p ++ b` is the first line of `p`: `p` is non-empty and ends in a line ending, and the
    junction does not merge a CR with an LF. -/
theorem lineLen_append_terminated (b : Bytes) : ∀ (p : Bytes), p ≠ [] → terminated p = true → ¬ CRLFSplit p b →
    lineLen (p ++ b) = lineLen p := by
  intro p
  induction p using lineLen_cases with
  | hnil => intro h; exact absurd rfl h
  | hLF rest => intro _ _ _; simp [lineLen_LF]
  | hCRLF r => intro _ _ _; simp [lineLen_CRLF]
  | hCR rest h =>
    intro _ _ hs
    rw [lineLen_CR h, List.cons_append, lineLen_CR]
    cases rest with
    | nil =>
      simp only [List.nil_append]
      intro hb
      exact hs ⟨rfl, hb⟩
    | cons d r => simpa using h
  | hother c rest h1 h2 ih =>
    intro _ ht hs
    cases rest with
    | nil =>
      rw [terminated_singleton] at ht
      simp [h1, h2] at ht
    | cons d r =>
      rw [terminated_cons_cons] at ht
      have hs' : ¬ CRLFSplit (d :: r) b := by
        intro ⟨a1, a2⟩
        exact hs ⟨by rw [List.getLast?_cons_cons]; exact a1, a2⟩
      rw [List.cons_append, lineLen_other h1 h2, lineLen_other h1 h2, ih (by simp) ht hs']

/-- The first line of a terminated buffer counts as one line. -/
theorem lineCount_first_line : ∀ (p : Bytes), p ≠ [] → terminated p = true →
    lineCount (p.take (lineLen p)) = 1 := by
  intro p
  induction p using lineLen_cases with
  | hnil => intro h; exact absurd rfl h
  | hLF rest => intro _ _; simp [lineLen_LF, lineCount]
  | hCRLF r => intro _ _; simp [lineLen_CRLF, lineCount, CR_ne_LF]
  | hCR rest h => intro _ _; simp [lineLen_CR h, lineCount, CR_ne_LF]
  | hother c rest h1 h2 ih =>
    intro _ ht
    cases rest with
    | nil =>
      rw [terminated_singleton] at ht
      simp [h1, h2] at ht
    | cons d r =>
      rw [terminated_cons_cons] at ht
      rw [lineLen_other h1 h2, List.take_succ_cons, lineCount_cons_other h1 h2, ih (by simp) ht]

theorem lineCount_terminated {p : Bytes} (hne : p ≠ []) (ht : terminated p = true) :
    lineCount p = 1 + lineCount (p.drop (lineLen p)) := by
  conv => lhs; rw [← List.take_append_drop (lineLen p) p]
  rw [lineCount_append (not_crlfSplit_line p), lineCount_first_line p hne ht]

theorem lineCount_le_length (p : Bytes) : lineCount p ≤ p.length := by
  induction p with
  | nil => simp [lineCount]
  | cons c r ih =>
    by_cases h1 : c = LF
    · subst h1; rw [lineCount_cons_LF]; simp; omega
    · by_cases h2 : c = CR
      · subst h2; rw [lineCount_cons_CR]; simp; split <;> omega
      · rw [lineCount_cons_other h1 h2]; simp; omega

/-- `CRLFSplit` against a padded buffer is `CRLFSplit` against the input. -/
theorem crlfSplit_padNulls (p x : Bytes) : CRLFSplit p (padNulls x 0) ↔ CRLFSplit p x := by
  unfold CRLFSplit
  rw [head?_padNulls_eq_LF]

/-! ### The blank-line loop consumes a blank prefix -/

/-- With `p` (whole blank lines) in front of the buffer, the blank-line loop spends one iteration per line of `p`
    and then continues as on the buffer itself, with `offset` increased by `p.length` and `lineno` by the number of
    lines of `p`. -/
theorem skipBlank_prefix : ∀ (n : Nat) (p : Bytes) (q : BP) (F : Nat), p.length ≤ n → blankLines p = true →
    ¬ CRLFSplit p q.buf → q.i = 0 → q.err.isSome = true →
    skipBlank (F + lineCount p) { q with buf := p ++ q.buf } = skipBlank F (shiftBP p.length (lineCount p) q) := by
  intro n
  induction n with
  | zero =>
    intro p q F hn _ _ _ _
    have : p = [] := List.eq_nil_of_length_eq_zero (by omega)
    subst this
    rfl
  | succ n ih =>
    intro p q F hn hp hs hi herr
    by_cases hne : p = []
    · subst hne; rfl
    · obtain ⟨buf, offset, lineno, i, err, rd, blocks, panic⟩ := q
      simp only at hi hs herr
      subst hi
      simp only [blankLines, Bool.and_eq_true] at hp
      obtain ⟨hbl, hterm⟩ := hp
      have hlc := lineCount_terminated hne hterm
      have hl1 := lineLen_append_terminated buf p hne hterm hs
      have hpos := lineLen_pos hne
      have hle := lineLen_le p
      have hF : F + lineCount p = (F + lineCount (p.drop (lineLen p))) + 1 := by omega
      have hrl := Model.readline_mem (rd.data.length + rd.sched.length + 1)
        { buf := p ++ buf, offset := offset, lineno := lineno, i := 0, err := err, rd := rd, blocks := blocks,
          panic := panic } herr (Nat.zero_le _)
      have htake : List.take (lineLen p) (p ++ buf) = p.take (lineLen p) := List.take_append_of_le_length hle
      have hdrop : List.drop (lineLen p) (p ++ buf) = p.drop (lineLen p) ++ buf := List.drop_append_of_le_length hle
      have hb1 : isBlankLine (p.take (lineLen p)) = true := isBlankLine_take hbl _
      have hu : unpaddedNullLength (p.take (lineLen p)) = lineLen p := by
        rw [unpaddedNullLength_blank hb1, List.length_take]; omega
      rw [hF]
      simp only [skipBlank]
      rw [hrl]
      simp only [List.drop_zero, Nat.zero_add, hl1, hpos, decide_true, Bool.not_true, Bool.false_eq_true, if_false,
        htake, hb1, hdrop, hu]
      have := ih (p.drop (lineLen p))
        { buf := buf, offset := offset + lineLen p, lineno := lineno + 1, i := 0, err := err, rd := rd,
          blocks := blocks, panic := panic } F (by simp; omega)
        (by simp only [blankLines, Bool.and_eq_true]; exact ⟨isBlankLine_drop hbl _, terminated_drop hterm _⟩)
        (not_crlfSplit_drop hs _) rfl herr
      rw [this]
      congr 1
      simp only [shiftBP, List.length_drop]
      congr 1 <;> omega

end CM.Proofs
