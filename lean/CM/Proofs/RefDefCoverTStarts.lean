import CM.Proofs.RefDefCoverDef
import CM.Proofs.RefDefSpansStarts
import CM.Proofs.RefDefCoverTOps
/-
C03, block half — `GoodT2` (the strong invariant of RefDefCoverDef): adaptation of RefDefSpansStarts.lean.
Everything that does not mention `GoodT`/`NodeOK` is reused from `CM.Proofs.RDS`.
-/
namespace CM.Proofs.RDC
open CM CM.Model CM.Gen CM.Proofs.BSp CM.Proofs.BT CM.Proofs.BG CM.Proofs.RDS

-- reused from RDS: kind_bq_ne

-- reused from RDS: kind_atx_ne

-- reused from RDS: kind_tb_ne

-- reused from RDS: kind_fc_ne

-- reused from RDS: kind_html_ne

-- reused from RDS: kind_ic_ne

theorem startBlockQuote_st2 {src : Bytes} {bd : Int} {ls : Nat} (x : PExt) (q : LP) (h : BT.Inv q) (hs : q.state = 0)
    (hg : GI2 src bd ls q) : StPost2 src bd ls q (startBlockQuote x q) := by
  unfold startBlockQuote
  simp only []
  split
  · exact StPost2.refl hg hs
  split
  · exact StPost2.refl hg hs
  rename_i _ hpre
  have hpre' : hasBytePrefix q.bytesAfterIndent blockQuotePrefix = true := by
    cases hh : hasBytePrefix q.bytesAfterIndent blockQuotePrefix
    · rw [hh] at hpre; exact absurd rfl hpre
    · rfl
  have hlen := hasBytePrefix_length _ _ hpre'
  obtain ⟨ci, hdrop, hil⟩ := consumeAll q h
  have g1 := hg.of_fr (fr_consumeIndentN q q.indent)
  generalize q.consumeIndentN q.indent = p1 at ci hdrop hil g1 ⊢
  have i1 := ci.inv h
  have s1 := ci.st (by omega)
  have ob := openBlock_inv x p1 BK.blockQuote id id_kind i1 s1.2 (Or.inl (by decide))
  have g2 := openBlock_GI2 x p1 BK.blockQuote id id_kind kind_bq_ne g1
  generalize p1.openBlock x BK.blockQuote = p2 at ob g2
  have i2 := ob.inv i1
  have s2 := ob.st s1.2
  have e2i : p2.i = p1.i := cur_i ob.cur
  have e2l : p2.line = p1.line := cur_line ob.cur
  have hbq : blockQuotePrefix.length = 1 := rfl
  have ad := advance_post p2 blockQuotePrefix.length i2.cur (by rw [e2i, e2l, ci.line]; omega)
  have g3 := g2.of_fr (fr_advance p2 blockQuotePrefix.length)
  generalize p2.advance blockQuotePrefix.length = p3 at ad g3
  have i3 := ad.inv i2
  have s3 := ad.st s2.2.1
  have k3 : p3.containerKind = BK.blockQuote := by rw [ad.ckind, ob.ckind]
  split
  · have c4 := consumeIndentN_post p3 1 i3.cur (by omega)
    have g4 := g3.of_fr (fr_consumeIndentN p3 1)
    generalize p3.consumeIndentN 1 = p4 at c4 g4
    have s4 := c4.st s3.2
    refine ⟨g4, fun h0 => by omega, fun _ => ?_⟩
    rw [c4.ckind, k3]; decide
  · refine ⟨g3, fun h0 => by omega, fun _ => ?_⟩
    rw [k3]; decide

theorem startATX_st2 {src : Bytes} {bd : Int} {ls : Nat} (x : PExt) (q : LP) (h : BT.Inv q) (hs : q.state = 0)
    (hg : GI2 src bd ls q) : StPost2 src bd ls q (startATX x q) := by
  unfold startATX
  simp only []
  split
  · exact StPost2.refl hg hs
  split
  · exact StPost2.refl hg hs
  rename_i _ hlev
  have hb := parseATXHeading_bound q.bytesAfterIndent
  generalize parseATXHeading q.bytesAfterIndent = hd at hb hlev ⊢
  obtain ⟨hb1, hb2, hb3⟩ := hb
  have hb3 := hb3 (by omega)
  obtain ⟨ci, hdrop, hil⟩ := consumeAll q h
  have g1 := hg.of_fr (fr_consumeIndentN q q.indent)
  generalize q.consumeIndentN q.indent = p1 at ci hdrop hil g1 ⊢
  have i1 := ci.inv h
  have s1 := ci.st (by omega)
  have ob := openBlock_inv x p1 BK.atxHeading (fun l => { l with n := hd.level }) (fun _ => rfl) i1 s1.2 (Or.inl (by decide))
  have g2 := openBlock_GI2 x p1 BK.atxHeading (fun l => { l with n := hd.level }) (fun _ => rfl) kind_atx_ne g1
  generalize p1.openBlock x BK.atxHeading (fun l => { l with n := hd.level }) = p2 at ob g2
  have i2 := ob.inv i1
  have s2 := ob.st s1.2
  have e2i : p2.i = p1.i := cur_i ob.cur
  have e2l : p2.line = p1.line := cur_line ob.cur
  have ad := advance_post p2 hd.start i2.cur (by rw [e2i, e2l, ci.line]; omega)
  have g3 := g2.of_fr (fr_advance p2 hd.start)
  generalize p2.advance hd.start = p3 at ad g3
  have i3 := ad.inv i2
  have s3 := ad.st s2.2.1
  have k3 : p3.containerKind ≠ BK.paragraph := by rw [ad.ckind, ob.ckind]; decide
  have hdrop3 : p3.line.getD p3.i 0 = q.bytesAfterIndent.getD hd.start 0 := by
    rw [ad.i, ad.line, e2i, e2l]; exact getD_of_drop p1 _ _ hdrop
  have hind3 : p3.indent = 0 := indent_zero_of_getD p3 (by rw [hdrop3]; exact hb3.1) (by rw [hdrop3]; exact hb3.2)
  have co := collectInline_post x p3 IK.unparsed (hd.stop - hd.start) i3 (by omega) (by
    rw [ciSkip_zero p3 hind3, ad.i, ad.line, e2i, e2l, ci.line]; omega)
  have g4 := collectInline_GI2 x p3 IK.unparsed (hd.stop - hd.start) (NotPara.of_kind k3) g3
  generalize p3.collectInline x IK.unparsed (hd.stop - hd.start) = p4 at co g4
  have s4 := co.st s3.2
  have cl := consumeLine_post p4 co.inv.cur
  have g5 := g4.of_fr (fr_consumeLine p4)
  generalize p4.consumeLine = p5 at cl g5
  have i5 := cl.inv co.inv
  have s5 := cl.st s4.2.1
  have eb := endBlock_inv x p5 i5 (by omega)
  have g6 := endBlock_GI2 x p5 g5
  generalize p5.endBlock x = p6 at eb g6
  have s6 : p6.state = 2 := by rw [eb.state, s5]; rfl
  exact ⟨g6, fun h0 => by omega, fun h1 => by omega⟩

theorem startThematicBreak_st2 {src : Bytes} {bd : Int} {ls : Nat} (x : PExt) (q : LP) (h : BT.Inv q) (hs : q.state = 0)
    (hg : GI2 src bd ls q) : StPost2 src bd ls q (startThematicBreak x q) := by
  unfold startThematicBreak
  simp only []
  split
  · exact StPost2.refl hg hs
  split
  · exact StPost2.refl hg hs
  rename_i _ hneg
  have hb := parseThematicBreak_le q.bytesAfterIndent (by omega)
  generalize parseThematicBreak q.bytesAfterIndent = e at hb hneg ⊢
  obtain ⟨ci, hdrop, hil⟩ := consumeAll q h
  have g1 := hg.of_fr (fr_consumeIndentN q q.indent)
  generalize q.consumeIndentN q.indent = p1 at ci hdrop hil g1 ⊢
  have i1 := ci.inv h
  have s1 := ci.st (by omega)
  have ob := openBlock_inv x p1 BK.thematicBreak id id_kind i1 s1.2 (Or.inl (by decide))
  have g2 := openBlock_GI2 x p1 BK.thematicBreak id id_kind kind_tb_ne g1
  generalize p1.openBlock x BK.thematicBreak = p2 at ob g2
  have i2 := ob.inv i1
  have s2 := ob.st s1.2
  have e2i : p2.i = p1.i := cur_i ob.cur
  have e2l : p2.line = p1.line := cur_line ob.cur
  have ad := advance_post p2 e.toNat i2.cur (by rw [e2i, e2l, ci.line]; omega)
  have g3 := g2.of_fr (fr_advance p2 e.toNat)
  generalize p2.advance e.toNat = p3 at ad g3
  have i3 := ad.inv i2
  have s3 := ad.st s2.2.1
  have cl := consumeLine_post p3 i3.cur
  have g5 := g3.of_fr (fr_consumeLine p3)
  generalize p3.consumeLine = p5 at cl g5
  have i5 := cl.inv i3
  have s5 := cl.st s3.2
  have eb := endBlock_inv x p5 i5 (by omega)
  have g6 := endBlock_GI2 x p5 g5
  generalize p5.endBlock x = p6 at eb g6
  have s6 : p6.state = 2 := by rw [eb.state, s5]; rfl
  exact ⟨g6, fun h0 => by omega, fun h1 => by omega⟩

theorem startFenced_st2 {src : Bytes} {bd : Int} {ls : Nat} (x : PExt) (q : LP) (h : BT.Inv q) (hs : q.state = 0)
    (hg : GI2 src bd ls q) : StPost2 src bd ls q (startFenced x q) := by
  unfold startFenced
  simp only []
  split
  · exact StPost2.refl hg hs
  split
  · exact StPost2.refl hg hs
  have hb := parseCodeFence_bound q.bytesAfterIndent
  generalize parseCodeFence q.bytesAfterIndent = fc at hb ⊢
  obtain ⟨ci, hdrop, hil⟩ := consumeAll q h
  have g1 := hg.of_fr (fr_consumeIndentN q q.indent)
  generalize q.consumeIndentN q.indent = p1 at ci hdrop hil g1 ⊢
  have i1 := ci.inv h
  have s1 := ci.st (by omega)
  have ob := openBlock_inv x p1 BK.fencedCode (fun l => { l with char := fc.char, n := fc.n }) (fun _ => rfl) i1 s1.2
    (Or.inl (by decide))
  have g2 := openBlock_GI2 x p1 BK.fencedCode (fun l => { l with char := fc.char, n := fc.n }) (fun _ => rfl) kind_fc_ne g1
  generalize p1.openBlock x BK.fencedCode (fun l => { l with char := fc.char, n := fc.n }) = p2 at ob g2
  have i2 := ob.inv i1
  have s2 := ob.st s1.2
  have sc := setContainerIndent_post p2 (↑q.indent) i2.tree s2.2.2 s2.2.1 (Or.inr ob.ckind)
  have g3 := setContainerIndent_GI2 p2 (↑q.indent) g2
  generalize p2.setContainerIndent (↑q.indent) = p3 at sc g3
  have i3 := sc.inv i2
  have e3i : p3.i = p1.i := by rw [cur_i sc.cur, cur_i ob.cur]
  have e3l : p3.line = p1.line := by rw [cur_line sc.cur, cur_line ob.cur]
  have s3 : 1 ≤ p3.state ∧ p3.state ≤ 2 := by rw [sc.state]; omega
  have k3 : p3.containerKind = BK.fencedCode := by rw [sc.kind, ob.ckind]
  -- the info string
  have key : ∀ p4 : LP, BT.Inv p4 → p4.state ≤ 2 → GI2 src bd ls p4 → StPost2 src bd ls q p4.consumeLine := by
    intro p4 i4 s4 g4
    have cl := consumeLine_post p4 i4.cur
    have g5 := g4.of_fr (fr_consumeLine p4)
    generalize p4.consumeLine = p5 at cl g5
    have s5 := cl.st s4
    exact ⟨g5, fun h0 => by omega, fun h1 => by omega⟩
  split
  · rename_i hcond
    simp only [Bool.and_eq_true, decide_eq_true_eq] at hcond
    obtain ⟨⟨hc1, hc2⟩, hc3⟩ := hcond
    obtain ⟨hb1, hb2, hb3⟩ := hb hc1 hc2
    have ad := advance_post p3 fc.infoStart.toNat i3.cur (by rw [e3i, e3l, ci.line]; omega)
    have g4 := g3.of_fr (fr_advance p3 fc.infoStart.toNat)
    generalize p3.advance fc.infoStart.toNat = p4 at ad g4
    have i4 := ad.inv i3
    have s4 := ad.st s3.2
    have k4 : p4.containerKind ≠ BK.paragraph := by rw [ad.ckind, k3]; decide
    have hdrop4 : p4.line.getD p4.i 0 = q.bytesAfterIndent.getD fc.infoStart.toNat 0 := by
      rw [ad.i, ad.line, e3i, e3l]; exact getD_of_drop p1 _ _ hdrop
    have hind4 : p4.indent = 0 := indent_zero_of_getD p4 (by rw [hdrop4]; exact hb2) (by rw [hdrop4]; exact hb3)
    have co := collectInline_post x p4 IK.infoString (fc.infoEnd - fc.infoStart).toNat i4 (by omega) (by
      rw [ciSkip_zero p4 hind4, ad.i, ad.line, e3i, e3l, ci.line]; omega)
    have g5 := collectInline_GI2 x p4 IK.infoString (fc.infoEnd - fc.infoStart).toNat (NotPara.of_kind k4) g4
    generalize p4.collectInline x IK.infoString (fc.infoEnd - fc.infoStart).toNat = p5 at co g5
    have s5 := co.st s4.2
    exact key p5 co.inv s5.2.1 g5
  · exact key p3 i3 s3.2 g3

theorem htmlStartLoop_st2 {src : Bytes} {bd : Int} {ls : Nat} (x : PExt) (line : Bytes) : ∀ (fuel i : Nat) (q : LP),
    BT.Inv q → q.state = 0 → GI2 src bd ls q → StPost2 src bd ls q (htmlStartLoop x line fuel i q) := by
  intro fuel
  induction fuel with
  | zero => intro i q h hs hg; exact StPost2.refl hg hs
  | succ fuel ih =>
    intro i q h hs hg
    unfold htmlStartLoop
    split
    · exact StPost2.refl hg hs
    split
    · split
      · exact StPost2.refl hg hs
      have ob := openBlock_inv x q BK.htmlBlock (fun l => { l with n := i }) (fun _ => rfl) h (by omega) (Or.inl (by decide))
      have g2 := openBlock_GI2 x q BK.htmlBlock (fun l => { l with n := i }) (fun _ => rfl) kind_html_ne hg
      simp only []
      generalize q.openBlock x BK.htmlBlock (fun l => { l with n := i }) = p2 at ob g2
      have i2 := ob.inv h
      have s2 : p2.state = 1 := by rw [ob.state, hs]; rfl
      have k2 : p2.containerKind ≠ BK.paragraph := by rw [ob.ckind]; decide
      split
      · have co := collectInline_post x p2 IK.rawHTML p2.bytesAfterIndent.length i2 (by omega) (by
          rw [ciSkip_bai p2 i2.cur]; exact Nat.le_refl _)
        have g4 := collectInline_GI2 x p2 IK.rawHTML p2.bytesAfterIndent.length (NotPara.of_kind k2) g2
        generalize p2.collectInline x IK.rawHTML p2.bytesAfterIndent.length = p4 at co g4
        have s4 := co.st (by omega)
        have cl := consumeLine_post p4 co.inv.cur
        have g5 := g4.of_fr (fr_consumeLine p4)
        generalize p4.consumeLine = p5 at cl g5
        have i5 := cl.inv co.inv
        have s5 := cl.st s4.2.1
        have eb := endBlock_inv x p5 i5 (by omega)
        have g6 := endBlock_GI2 x p5 g5
        generalize p5.endBlock x = p6 at eb g6
        have s6 : p6.state = 2 := by rw [eb.state, s5]; rfl
        exact ⟨g6, fun h0 => by omega, fun h1 => by omega⟩
      · exact ⟨g2, fun h0 => by omega, fun _ => k2⟩
    · exact ih (i + 1) q h hs hg

theorem startHTML_st2 {src : Bytes} {bd : Int} {ls : Nat} (x : PExt) (q : LP) (h : BT.Inv q) (hs : q.state = 0)
    (hg : GI2 src bd ls q) : StPost2 src bd ls q (startHTML x q) := by
  unfold startHTML
  simp only []
  split
  · exact StPost2.refl hg hs
  split
  · exact StPost2.refl hg hs
  exact htmlStartLoop_st2 x _ 8 0 q h hs hg

theorem startIndentedCode_st2 {src : Bytes} {bd : Int} {ls : Nat} (x : PExt) (q : LP) (h : BT.Inv q) (hs : q.state = 0)
    (hg : GI2 src bd ls q) : StPost2 src bd ls q (startIndentedCode x q) := by
  unfold startIndentedCode
  split
  · exact StPost2.refl hg hs
  rename_i hc
  simp only [Bool.or_eq_true, decide_eq_true_eq, not_or, Nat.not_lt] at hc
  have hind : codeBlockIndentLimit ≤ q.indent := hc.1.1
  simp only []
  have ci := consumeIndentN_post q codeBlockIndentLimit h.cur hind
  have g1 := hg.of_fr (fr_consumeIndentN q codeBlockIndentLimit)
  generalize q.consumeIndentN codeBlockIndentLimit = p1 at ci g1
  have i1 := ci.inv h
  have s1 : p1.state = 1 := by rw [ci.state, hs]; rfl
  have ob := openBlock_inv x p1 BK.indentedCode id id_kind i1 (by omega) (Or.inl (by decide))
  have g2 := openBlock_GI2 x p1 BK.indentedCode id id_kind kind_ic_ne g1
  generalize p1.openBlock x BK.indentedCode = p2 at ob g2
  have s2 : p2.state = 1 := by rw [ob.state, s1]; rfl
  refine ⟨g2, fun h0 => by omega, fun _ => ?_⟩
  rw [ob.ckind]; decide

end CM.Proofs.RDC
