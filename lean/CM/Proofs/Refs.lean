import CM.Model.Refs
/-
Extract: the map is "first definition in document pre-order wins".
-/
namespace CM.Proofs
open CM CM.Model CM.Gen Node

mutual
/-- The (label, definition) pairs of all definition nodes, in document pre-order. -/
def defsNode (ext : Ext) (src : Bytes) : Tree → List (Bytes × LinkDef)
  | .node l cs =>
    if !l.isBlock then []
    else if l.kind == BK.linkRefDef then
      match cs with
      | lab :: dest :: rest =>
        [(linkReference lab,
          { dest := text ext src dest, titlePresent := !rest.isEmpty,
            title := match rest with
              | t :: _ => text ext src t
              | [] => [] })]
      | _ => []
    else defsForest ext src cs
def defsForest (ext : Ext) (src : Bytes) : List Tree → List (Bytes × LinkDef)
  | [] => []
  | c :: cs => defsNode ext src c ++ defsForest ext src cs
end

def insAll (m : RefMap) (defs : List (Bytes × LinkDef)) : RefMap := defs.foldl (fun m p => refInsert m p.1 p.2) m

theorem insAll_append (m : RefMap) (a b : List (Bytes × LinkDef)) : insAll m (a ++ b) = insAll (insAll m a) b := by
  simp [insAll, List.foldl_append]

mutual
theorem extractNode_eq (ext : Ext) (src : Bytes) (t : Tree) (m : RefMap) :
    extractNode ext src t m = insAll m (defsNode ext src t) := by
  match t with
  | .node l cs =>
    simp only [extractNode, defsNode]
    split
    · rfl
    · split
      · split <;> first | rfl | simp [insAll]
      · exact extractForest_eq ext src cs m
theorem extractForest_eq (ext : Ext) (src : Bytes) (cs : List Tree) (m : RefMap) :
    extractForest ext src cs m = insAll m (defsForest ext src cs) := by
  match cs with
  | [] => simp [extractForest, defsForest, insAll]
  | c :: cs =>
    simp only [extractForest, defsForest, insAll_append]
    rw [extractNode_eq, extractForest_eq]
end

/-- Inserting never changes the value of a key that is already present. -/
theorem lookup_refInsert_of_some (m : RefMap) (k k' : Bytes) (d : LinkDef) (h : (m.lookup k).isSome) :
    (refInsert m k' d).lookup k = m.lookup k := by
  unfold refInsert
  split
  · rfl
  · rw [List.lookup_append]
    cases hm : m.lookup k with
    | none => simp [hm] at h
    | some v => simp

theorem lookup_insAll_of_some (m : RefMap) (defs : List (Bytes × LinkDef)) (k : Bytes) (h : (m.lookup k).isSome) :
    (insAll m defs).lookup k = m.lookup k := by
  induction defs generalizing m with
  | nil => rfl
  | cons p ps ih =>
    simp only [insAll, List.foldl_cons]
    have h' : ((refInsert m p.1 p.2).lookup k).isSome := by rw [lookup_refInsert_of_some m k p.1 p.2 h]; exact h
    have := ih (refInsert m p.1 p.2) h'
    simp only [insAll] at this
    rw [this, lookup_refInsert_of_some m k p.1 p.2 h]

/-- First definition wins: for a key not yet in the map, the value after extraction is that of the first
    definition with this (non-empty) label in document order. -/
theorem lookup_insAll_first (m : RefMap) (defs : List (Bytes × LinkDef)) (k : Bytes) (hk : k.isEmpty = false)
    (hm : m.lookup k = none) :
    (insAll m defs).lookup k = (defs.find? (fun p => p.1 == k)).map (·.2) := by
  induction defs generalizing m with
  | nil => simp [insAll, hm]
  | cons p ps ih =>
    simp only [insAll, List.foldl_cons, List.find?_cons]
    by_cases hp : p.1 == k
    · have hpk : p.1 = k := by simpa using hp
      simp only [hp]
      have hins : (refInsert m p.1 p.2).lookup k = some p.2 := by
        unfold refInsert
        rw [hpk]
        simp [hk, hm, List.lookup_append]
      have := lookup_insAll_of_some (refInsert m p.1 p.2) ps k (by rw [hins]; rfl)
      simp only [insAll] at this
      rw [this, hins]; rfl
    · have hpk : ¬ p.1 = k := by simpa using hp
      simp only [hp]
      have hins : (refInsert m p.1 p.2).lookup k = none := by
        unfold refInsert
        split
        · exact hm
        · rw [List.lookup_append, hm]
          have hne : (k == p.1) = false := by
            cases hkp : (k == p.1) with
            | false => rfl
            | true => exact absurd (by simpa using hkp : k = p.1).symm hpk
          simp [List.lookup, hne]
      have := ih (refInsert m p.1 p.2) hins
      simp only [insAll] at this
      exact this

end CM.Proofs
