import CM.Proofs.LeafBlocksBase
import CM.Proofs.BlocksLine
/-
C06 (block piece, leaf blocks), helper for the multi-line leaf blocks (paragraph, setext heading, HTML block):
`descendOpenBlocks` and `addLineText` on a document whose only child is an open leaf block, the reference-definition
scan of `onCloseParagraph` on a paragraph that does not begin with `[`, and the run of the stream machine over
first line / continuation lines / closing step (`leaf_run`).
-/
namespace CM.Proofs.Leaf
open CM CM.Model CM.Gen
open CM.Proofs CM.Proofs.BT

/-! ### `descendOpenBlocks` on a document with one open leaf child -/

theorem spineLength_doc1' (c : PB) (hc : c.blocks = []) : spineLength (doc1 c) = 1 := by
  obtain ⟨l, bs, is⟩ := c
  simp only [PB.blocks] at hc; subst hc
  exact spineLength_doc1 _ _ _ _

/-- When the match rule of the open child leaves the line parser alone: the result of the descent. -/
theorem descend_doc1 (x : PExt) (p : LP) (kind : Nat) (n : Int) (inl : List Tree) (ok : Bool)
    (hroot : p.root = doc1 (leafOpen kind n inl))
    (hrm : ruleMatch x kind { p with depth := 1, state := stateDescending } =
      some (ok, { p with depth := 1, state := stateDescending })) :
    descendOpenBlocks x p = (ok, { p with depth := (if ok then 1 else 0), state := stateDescending }) := by
  obtain ⟨source, root, depth, lineStart, line, i, col, tabRem, tabPartial, state, panic⟩ := p
  simp only at hroot
  subst hroot
  unfold descendOpenBlocks
  rw [spineLength_doc1' _ rfl, descendLoop]
  simp only [doc1, docRoot, leafOpen, spineGet, List.getLast?_singleton]
  have ho : (PB.mk { kind := kind, start := 0, stop := -1, n := n } [] inl).isOpen = true := by simp [PB.isOpen, PB.label]
  have hk : (PB.mk { kind := kind, start := 0, stop := -1, n := n } [] inl).kind = kind := rfl
  simp only [ho, Bool.not_true, Bool.false_eq_true, if_false, hk]
  simp only [doc1, docRoot, leafOpen] at hrm
  simp only [hrm]
  simp only [show (stateDescending == stateDescendTerminated) = false from rfl, Bool.false_eq_true, if_false]
  cases ok with
  | false => simp
  | true =>
    simp only [Bool.not_true, Bool.false_eq_true, if_false, if_true]
    rw [descendLoop]
    simp [spineGet]

/-! ### `addLineText` -/

theorem altFlags_false_doc0 (p : LP) (hroot : p.root = docRoot []) (hd : p.depth = 0) : altFlags false p = p := by
  obtain ⟨source, root, depth, lineStart, line, i, col, tabRem, tabPartial, state, panic⟩ := p
  simp only at hroot hd
  subst hroot hd
  simp [altFlags, setBlankFlags, docRoot]

theorem altFlags_false_doc1 (p : LP) (kind : Nat) (n : Int) (inl : List Tree)
    (hroot : p.root = doc1 (leafOpen kind n inl)) (hd : p.depth = 1) : altFlags false p = p := by
  obtain ⟨source, root, depth, lineStart, line, i, col, tabRem, tabPartial, state, panic⟩ := p
  simp only at hroot hd
  subst hroot hd
  simp [altFlags, setBlankFlags, docRoot, doc1, leafOpen]

theorem altBlank_nonblank (p : LP) (h : p.isRestBlank = false) : altBlank p = p := by
  simp [altBlank, h]

/-- The text of the first line of a paragraph on the empty document. -/
theorem addLineText_doc0 (x : PExt) (p : LP) (hroot : p.root = docRoot []) (hd : p.depth = 0) (hi : p.i = 0)
    (hls : p.lineStart = 0) (hst : p.state = stateOpening) (hind : p.indent = 0) (hnb : p.isRestBlank = false) :
    addLineText x p =
      { p with state := stateOpenMatched, depth := 1,
               root := doc1 (leafOpen BK.paragraph 0 [mkInline IK.unparsed (0 : Nat) (p.line.length : Nat)]) } := by
  rw [addLineText_eq, hnb, altBlank_nonblank p hnb, altFlags_false_doc0 p hroot hd]
  have hk := containerKind_doc0 p hroot hd
  have hob := openBlock_doc0_id x p BK.paragraph hroot hd (by rw [hst]; decide) hls hi (by decide)
  have hindq : (p.openBlock x BK.paragraph).indent = 0 := by
    rw [hob]; rw [← hind]; exact indent_of_cur rfl
  simp only [altCont, hk, kind_doc_noLines, Bool.false_eq_true, if_false, Bool.not_false, if_true, hindq, consumeIndentN_zero]
  rw [hob]
  obtain ⟨source, root, depth, lineStart, line, i, col, tabRem, tabPartial, state, panic⟩ := p
  simp only at hroot hd hi hls hst
  subst hroot hd hi hls hst
  simp [altTail, LP.containerKind, LP.container, doc1, docRoot, leafOpen, spineGet, PB.kind, PB.label, BK.paragraph, BK.indentedCode,
    BK.fencedCode, BK.htmlBlock, LP.appendInline, LP.modifyContainer, spineModify, mm, stateOpening, stateOpenMatched]

/-- The text of a continuation line of a paragraph or an HTML block (`ik` = Unparsed / RawHTML). -/
theorem addLineText_doc1 (x : PExt) (p : LP) (kind : Nat) (n : Int) (inl : List Tree) (ik : Nat)
    (hroot : p.root = doc1 (leafOpen kind n inl)) (hd : p.depth = 1) (htp : p.tabPartial = false)
    (hnb : p.isRestBlank = false)
    (hkind : (kind = BK.paragraph ∧ ik = IK.unparsed) ∨ (kind = BK.htmlBlock ∧ ik = IK.rawHTML)) :
    addLineText x p =
      { p with root := doc1 (leafOpen kind n (inl ++
          [mkInline ik ((p.lineStart + p.i : Nat) : Int) ((p.lineStart + p.line.length : Nat) : Int)])) } := by
  rw [addLineText_eq, hnb, altBlank_nonblank p hnb, altFlags_false_doc1 p kind n inl hroot hd]
  have hk := containerKind_doc1 p kind n inl hroot hd
  have hacc : acceptsLines kind = true := by rcases hkind with ⟨h, _⟩ | ⟨h, _⟩ <;> subst h <;> decide
  simp only [altCont, hk, hacc, if_true, htp, Bool.and_false, Bool.false_eq_true, if_false]
  obtain ⟨source, root, depth, lineStart, line, i, col, tabRem, tabPartial, state, panic⟩ := p
  simp only at hroot hd htp
  subst hroot hd htp
  rcases hkind with ⟨h1, h2⟩ | ⟨h1, h2⟩ <;> subst h1 h2 <;>
  simp [altTail, LP.containerKind, LP.container, doc1, docRoot, leafOpen, spineGet, PB.kind, PB.label, BK.paragraph, BK.indentedCode,
    BK.fencedCode, BK.htmlBlock, LP.appendInline, LP.modifyContainer, spineModify, IK.rawHTML, IK.unparsed]

/-! ### the reference-definition scan gives up at once -/

theorem nullRepl_ne (v : Nat) : nullReplacementString.getD v 0 ≠ 0x5B := by
  match v with
  | 0 => decide
  | 1 => decide
  | 2 => decide
  | v + 3 => simp [nullReplacementString]

theorem current_ne_bracket (src : Bytes) (r : Rd) (h : src.getD r.pos 0 ≠ 0x5B) : (r.current src).1 ≠ 0x5B := by
  unfold Rd.current
  split
  · show (0 : UInt8) ≠ 0x5B; decide
  · have hpos : r.currentNode.2.pos = r.pos := by
      unfold Rd.currentNode; split <;> rfl
    have hv : ∀ q : Rd, nullReplacementString.getD q.vpos 0 ≠ 0x5B := fun q => nullRepl_ne _
    generalize r.currentNode = cn at hpos
    obtain ⟨nd, r'⟩ := cn
    simp only at hpos ⊢
    cases nd with
    | none =>
      simp only
      split
      · exact hv r'
      · rw [hpos]; exact h
    | some t =>
      simp only
      split
      · show SP ≠ 0x5B; decide
      · split
        · exact hv r'
        · rw [hpos]; exact h

theorem parseLinkLabel_invalid (src : Bytes) (fl : Nat) (r : Rd) (h : (r.current src).1 ≠ 0x5B) :
    (parseLinkLabel src fl r).1.span.isValid = false := by
  unfold parseLinkLabel
  have : ((r.current src).1 != 0x5B) = true := by simpa using h
  simp only [this, if_true]
  rfl

theorem refDefLoop_giveUp (x : PExt) (src : Bytes) (orphan : Option PB) (f : Nat) (r : Rd) (l : PLabel) (is : List Tree)
    (h : (r.current src).1 ≠ 0x5B) : refDefLoop x src orphan (f + 1) r l is [] = [.mk l [] is] := by
  rw [refDefLoop]
  simp only [parseLinkLabel_invalid src _ r h, Bool.not_false, if_true, List.nil_append]

/-- Closing a paragraph (or a setext heading) whose text does not begin with `[`: no link reference definition is split
    off, the block stays as it is. -/
theorem onCloseParagraph_keep (x : PExt) (src : Bytes) (l : PLabel) (first : Tree) (rest : List Tree)
    (h : src.getD first.label.start.toNat 0 ≠ 0x5B) :
    onCloseParagraph x src (.mk l [] (first :: rest)) = [.mk l [] (first :: rest)] := by
  unfold onCloseParagraph
  simp only
  exact refDefLoop_giveUp x src _ _ _ l _ (current_ne_bracket src _ h)

/-- `close` on the document with an open paragraph / setext heading child. -/
theorem closeBlock_doc1_para (x : PExt) (src : Bytes) (e : Int) (kind : Nat) (n : Int) (first : Tree) (rest : List Tree)
    (hk : kind = BK.paragraph ∨ kind = BK.setextHeading)
    (h : src.getD first.label.start.toNat 0 ≠ 0x5B) :
    closeBlock x src e (leafOpen kind n (first :: rest)) = [leafClosed kind n e (first :: rest)] := by
  rw [leafOpen, closeBlock]
  have h1 : ¬ ((-1 : Int) ≥ 0) := by decide
  simp only [h1, if_false]
  have h2 : (kind == BK.list) = false := by rcases hk with h | h <;> subst h <;> decide
  have h3 : (kind == BK.paragraph || kind == BK.setextHeading) = true := by rcases hk with h | h <;> subst h <;> decide
  simp only [h2, h3, Bool.false_eq_true, if_false, if_true]
  rw [onCloseParagraph_keep x src _ first rest h]
  rfl

theorem closeBlock_doc (x : PExt) (src : Bytes) (e : Int) (c : PB) :
    closeBlock x src e (doc1 c) = [.mk { kind := BK.document, start := 0, stop := e } (closeBlock x src e c) []] := by
  rw [doc1, docRoot, closeBlock]
  simp [BK.document, BK.list, BK.paragraph, BK.setextHeading, BK.indentedCode, closeLast]

/-! ### the end of input -/

/-- The end of input (an empty line) on a document with one open leaf child the match rule of which leaves the line parser
    alone: the document is closed at the line start. -/
theorem processLine_eof (x : PExt) (p : LP) (kind : Nat) (n : Int) (inl : List Tree) (ok : Bool)
    (hroot : p.root = doc1 (leafOpen kind n inl)) (hline : p.line = [])
    (hrm : ruleMatch x kind { p with depth := 1, state := stateDescending } =
      some (ok, { p with depth := 1, state := stateDescending })) :
    (processLine x p).root = .mk { kind := BK.document, start := 0, stop := (p.lineStart : Nat) }
        (closeBlock x p.source (p.lineStart : Nat) (leafOpen kind n inl)) [] ∧
    (processLine x p).panic = p.panic := by
  unfold processLine
  rw [descend_doc1 x p kind n inl ok hroot hrm]
  simp only [show (stateDescending == stateDescendTerminated) = false from rfl, Bool.false_eq_true, if_false]
  unfold openNewBlocks
  simp only [hline, List.isEmpty_nil, if_true, Bool.false_eq_true, if_false]
  simp only [LP.closeContainer, beq_self_eq_true, if_true, hroot, closeBlock_doc, List.headD_cons]
  refine ⟨?_, ?_⟩ <;> first | rfl | trivial

/-! ### the stream machine over first line / continuation lines / closing step -/

/-- One inline node of kind `ik` per line, spanning the line and its terminator. -/
def runNodes (ik : Nat) (s : Nat) : List Bytes → List Tree
  | [] => []
  | l :: ls => mkInline ik (s : Nat) ((s + (l.length + 1) : Nat) : Int) :: runNodes ik (s + (l.length + 1)) ls

theorem runNodes_append (ik : Nat) : ∀ (a b : List Bytes) (s : Nat),
    runNodes ik s (a ++ b) = runNodes ik s a ++ runNodes ik (s + (body a).length) b
  | [], b, s => by simp [runNodes, body]
  | l :: a, b, s => by
    simp only [List.cons_append, runNodes, runNodes_append ik a b, body_length_cons, Nat.add_assoc]

theorem runNodes_length (ik : Nat) : ∀ (ls : List Bytes) (s : Nat), (runNodes ik s ls).length = ls.length
  | [], _ => rfl
  | l :: ls, s => by simp [runNodes, runNodes_length ik ls]

theorem slices_runNodes (ik : Nat) : ∀ (ls : List Bytes) (pre post : Bytes) (s : Nat), s = pre.length →
    (runNodes ik s ls).map (Node.slice (pre ++ (body ls ++ post))) = ls.map (· ++ [LF])
  | [], _, _, _, _ => rfl
  | l :: ls, pre, post, s, hs => by
    subst hs
    have ih := slices_runNodes ik ls (pre ++ (l ++ [LF])) post (pre.length + (l.length + 1)) (by simp)
    have e : pre ++ (body (l :: ls) ++ post) = (pre ++ (l ++ [LF])) ++ (body ls ++ post) := by rw [body_cons]; simp
    simp only [runNodes, List.map_cons]
    rw [e, ih, slice_span]
    congr 1
    rw [List.append_assoc pre, List.drop_left' rfl, List.take_left' (by simp)]

theorem runNodes_kind (ik : Nat) : ∀ (ls : List Bytes) (s : Nat), ∀ t ∈ runNodes ik s ls, Node.isI t ik = true ∧ t.children = []
  | [], _, t, h => by simp [runNodes] at h
  | l :: ls, s, t, h => by
    simp only [runNodes, List.mem_cons] at h
    rcases h with h | h
    · subst h; exact ⟨by simp [Node.isI, mkInline, Tree.label], rfl⟩
    · exact runNodes_kind ik ls _ t h

/-- What a continuation line does: the block stays open and gets one more node. -/
def StepOK (x : PExt) (kind : Nat) (n : Int) (ik : Nat) (ok : Bytes → Prop) : Prop :=
  ∀ (lp : LP) (inl : List Tree) (src : Bytes) (s : Nat) (l : Bytes),
    lp.root = doc1 (leafOpen kind n inl) → src.drop s = l ++ [LF] → plainLine l = true → ok l →
    ((blocksLP x).line lp src s).root = doc1 (leafOpen kind n (inl ++ [mkInline ik (s : Nat) ((s + (l.length + 1) : Nat) : Int)])) ∧
    ((blocksLP x).line lp src s).panic = lp.panic

theorem parseLines_cont (x : PExt) (kind : Nat) (n : Int) (ik : Nat) (ok : Bytes → Prop) (hstep : StepOK x kind n ik ok)
    (buf tail : Bytes) :
    ∀ (ls : List Bytes) (fuel : Nat) (lp : LP) (inl : List Tree) (s : Nat),
    lp.root = doc1 (leafOpen kind n inl) → lp.panic = none → buf.drop s = body ls ++ tail →
    (∀ l ∈ ls, plainLine l = true ∧ ok l) →
    ∃ lp' : LP, lp'.root = doc1 (leafOpen kind n (inl ++ runNodes ik s ls)) ∧ lp'.panic = none ∧
      parseLines (blocksLP x) (fuel + ls.length) lp s (memBP buf (s + lineLen (body ls ++ tail))) =
        parseLines (blocksLP x) fuel lp' (s + (body ls).length) (memBP buf (s + (body ls).length + lineLen tail)) := by
  intro ls
  induction ls with
  | nil =>
    intro fuel lp inl s hroot hpanic _ _
    exact ⟨lp, by simpa [runNodes] using hroot, hpanic, by simp [body]⟩
  | cons l ls ih =>
    intro fuel lp inl s hroot hpanic hbuf hls
    have hl := hls l List.mem_cons_self
    have hbuf' : buf.drop s = l ++ LF :: (body ls ++ tail) := by rw [hbuf, body_cons]; simp
    have hll : lineLen (body (l :: ls) ++ tail) = l.length + 1 := by
      rw [body_cons, List.append_assoc, List.cons_append]; exact lineLen_plain l _ hl.1
    have hsrc : (buf.take (s + (l.length + 1))).drop s = l ++ [LF] := by
      rw [List.drop_take, hbuf', Nat.add_sub_cancel_left, take_line]
    obtain ⟨h1, h2⟩ := hstep lp inl _ s l hroot hsrc hl.1 hl.2
    obtain ⟨lp1, r1, p1, e1⟩ := parseLines_line x (fuel + ls.length) lp buf s l (body ls ++ tail) _ hbuf' h1 (h2.trans hpanic)
      (by simp [leafOpen, PB.isOpen, PB.label])
    have hrest : buf.drop (s + (l.length + 1)) = body ls ++ tail := by
      rw [← List.drop_drop, hbuf', drop_line]
    obtain ⟨lp2, r2, p2, e2⟩ := ih fuel lp1 _ (s + (l.length + 1)) r1 p1 hrest
      (fun l' hl' => hls l' (List.mem_cons_of_mem _ hl'))
    refine ⟨lp2, ?_, p2, ?_⟩
    · rw [r2]; simp [runNodes]
    · rw [hll]
      show parseLines (blocksLP x) (fuel + ls.length + 1) lp s _ = _
      rw [e1, e2, body_length_cons]
      simp only [Nat.add_assoc]

/-- The document of a multi-line leaf block: first line, further lines, closing part (empty, or the closing line). -/
def leafDoc (l0 : Bytes) (ls : List Bytes) (tail : Bytes) : Bytes := (l0 ++ [LF]) ++ (body ls ++ tail)

/-- **The run of the stream machine on a multi-line leaf block**, from what the line parser does on the first line
    (`hfirst`), on a continuation line (`hstep`) and at the closing step (`hlast`: the end of input when `tail = []`, the
    closing line otherwise). -/
theorem leaf_run (x : PExt) (kind : Nat) (n : Int) (ik : Nat) (ok : Bytes → Prop) (l0 : Bytes) (ls : List Bytes) (tail : Bytes)
    (fuel : Nat) (inl0 : List Tree) (dl : PLabel) (kfin : PB)
    (hpl0 : plainLine l0 = true) (hnb0 : isBlankLine l0 = false) (hls : ∀ l ∈ ls, plainLine l = true ∧ ok l)
    (htail : lineLen tail = tail.length) (hnt : ∀ b ∈ tail, b ≠ 0)
    (hfirst : ((blocksLP x).line ((blocksLP x).new []) (l0 ++ [LF]) 0).root = doc1 (leafOpen kind n inl0) ∧
      ((blocksLP x).line ((blocksLP x).new []) (l0 ++ [LF]) 0).panic = none)
    (hstep : StepOK x kind n ik ok)
    (hlast : ∀ lp : LP, lp.root = doc1 (leafOpen kind n (inl0 ++ runNodes ik (l0.length + 1) ls)) → lp.panic = none →
      ((blocksLP x).line lp (leafDoc l0 ls tail) (l0.length + 1 + (body ls).length)).root = .mk dl [kfin] [] ∧
      ((blocksLP x).line lp (leafDoc l0 ls tail) (l0.length + 1 + (body ls).length)).panic = none)
    (hk : kfin.label.stop = ((leafDoc l0 ls tail).length : Nat)) (hfuel : 2 ≤ fuel) :
    drain (blocksLP x) fuel (memParser (leafDoc l0 ls tail)) [] =
      ([{ source := leafDoc l0 ls tail, startLine := 1, startOffset := 0, endOffset := (leafDoc l0 ls tail).length,
          block := kfin }],
       .err .eof, doneBP (leafDoc l0 ls tail).length (1 + lineCount (leafDoc l0 ls tail))) := by
  generalize hdoc : leafDoc l0 ls tail = doc at hlast hk ⊢
  have hdoc' : doc = (l0 ++ [LF]) ++ (body ls ++ tail) := hdoc.symm
  have hdoc'' : doc = l0 ++ LF :: (body ls ++ tail) := by rw [hdoc']; simp
  have hnul : ∀ b ∈ doc, b ≠ 0 := by
    intro b hb
    rw [hdoc'] at hb
    rcases List.mem_append.1 hb with hb | hb
    · exact noNul_line hpl0 b hb
    · rcases List.mem_append.1 hb with hb | hb
      · exact noNul_mem (body_noNul ls (fun l hl => (hls l hl).1)) b hb
      · exact hnt b hb
  have hll : lineLen doc = l0.length + 1 := by rw [hdoc'']; exact lineLen_plain l0 _ hpl0
  have hdl : doc.length = (l0.length + 1) + ((body ls).length + tail.length) := by
    rw [hdoc']; simp; omega
  have hbl := body_length_ge ls
  apply drain_single x doc fuel _ hnul (by rw [hll]; omega) (by
    rw [hll, hdoc'', take_line, blank_of_append_LF]; exact hnb0) hfuel
  rw [hll]
  obtain ⟨g, hg⟩ : ∃ g, doc.length + 4 = ((g + 1) + ls.length) + 1 := ⟨doc.length + 2 - ls.length, by omega⟩
  rw [hg]
  -- the first line
  have htake0 : doc.take (0 + (l0.length + 1)) = l0 ++ [LF] := by rw [Nat.zero_add, hdoc'', take_line]
  obtain ⟨lp1, r1, p1, e1⟩ := parseLines_line x ((g + 1) + ls.length) ((blocksLP x).new []) doc 0 l0 (body ls ++ tail)
    (leafOpen kind n inl0) (by rw [List.drop_zero]; exact hdoc'') (by rw [htake0]; exact hfirst.1) (by rw [htake0]; exact hfirst.2)
    (by simp [leafOpen, PB.isOpen, PB.label])
  rw [Nat.zero_add] at e1
  -- the continuation lines
  have hdrop1 : doc.drop (l0.length + 1) = body ls ++ tail := by rw [hdoc'', drop_line]
  obtain ⟨lp2, r2, p2, e2⟩ := parseLines_cont x kind n ik ok hstep doc tail ls (g + 1) lp1 inl0 (l0.length + 1) r1 p1 hdrop1 hls
  -- the closing step
  have hend : l0.length + 1 + (body ls).length + lineLen tail = doc.length := by rw [htail, hdl]; omega
  rw [hend] at e2
  obtain ⟨h1, h2⟩ := hlast lp2 r2 p2
  have e3 := parseLines_last x g lp2 doc (l0.length + 1 + (body ls).length) dl kfin h1 h2 hnul hk
  rw [e1, e2, e3]

end CM.Proofs.Leaf
