import CM.Proofs.EolCursor
/-
C14 (a), block level — the cursor primitives that move the cursor commute with `mapLP`:
`updateTabRemaining`, `advance` (`Advance(n)`), `consumeLine`, `consumeIndent` / `consumeIndentN`.
-/
namespace CM.Proofs
open CM CM.Model CM.Gen CM.Proofs.BT

section
variable {e X body nl : Bytes} {p : LP}

/-! ### `updateTabRemaining` -/

theorem tab_cond (l : Bytes) (i : Nat) :
    (l.getD i 0 == TAB && decide (i < l.length)) = ((l.drop i).head? == some TAB) := by
  by_cases hlt : i < l.length
  · rw [drop_cons_of_lt l i hlt]; simp [hlt]
  · rw [List.drop_eq_nil_of_le (by omega)]; simp [hlt]

theorem head?_append_eol (r : Bytes) {n : Bytes} (hn : EolBytes n) : ((r ++ n).head? == some TAB) = (r.head? == some TAB) := by
  cases r with
  | nil =>
    cases n with
    | nil => rfl
    | cons c t =>
      have hc := (isNL_facts c (hn c (by simp))).2.2.1
      have : c ≠ TAB := by intro h; subst h; simp at hc
      simp [this]
  | cons b t => rfl

theorem mapLP_set_col_i (q : LP) (c j c' j' : Nat) (hc : c' = c + (eolPos e q.line j - j)) (hj : j' = eolPos e q.line j) :
    { mapLP e X q with col := c', i := j' } = mapLP e X { q with col := c, i := j } := by
  subst hc hj; rfl

theorem mapLP_updateTab (h : LineOK X body nl p) (he : StdEol e) :
    (mapLP e X p).updateTabRemaining = mapLP e X p.updateTabRemaining := by
  obtain ⟨r, nl', _, hnl', h1, h2, h3⟩ := h.rest he
  unfold LP.updateTabRemaining
  rw [tab_cond, tab_cond, h1, h2, head?_append_eol r (eolBytes_toEol_nl he hnl'), head?_append_eol r (eolBytes_nl hnl')]
  by_cases hc : (r.head? == some TAB) = true
  · rw [if_pos hc, if_pos hc]
    have hne : r ++ nl' ≠ [] := by
      cases r with
      | nil => simp at hc
      | cons b t => simp
    rw [show columnWidth (mapLP e X p).col [TAB] = columnWidth p.col [TAB] from by rw [(h3 hne).2]]; rfl
  · rw [if_neg hc, if_neg hc]; rfl

/-! ### Column width of a re-written stretch of the line -/

/-- A stretch of a line: bytes without CR/LF, then nothing or one LF. -/
def Stretch (s : Bytes) : Prop := ∃ s0 n, s = s0 ++ n ∧ (∀ c ∈ s0, isNL c = false) ∧ (n = [] ∨ n = [LF])

theorem columnWidth_toEol {s : Bytes} (hs : Stretch s) (he : StdEol e) (col : Nat) :
    columnWidth col (toEol e s) = columnWidth col s + (e.length - 1) * cntLF s := by
  obtain ⟨s0, n, rfl, h0, hn⟩ := hs
  have hc0 : cntLF s0 = 0 := cntLF_eq_zero (noLF_of_noNL h0)
  rw [toEol_body_nl e h0, columnWidth_append_eol col s0 (eolBytes_toEol_nl he hn),
    columnWidth_append_eol col s0 (eolBytes_nl hn), cntLF_append, hc0]
  rcases hn with h | h <;> subst h
  · simp
  · have : toEol e [LF] = e := by simp [toEol]
    have hpos : 0 < e.length := List.length_pos_iff.2 (stdEol_ne_nil he)
    rw [this]; simp [cntLF]; omega

theorem LineOK.stretch (h : LineOK X body nl p) (a k : Nat) : Stretch ((p.line.drop a).take k) := by
  rw [h.shape]
  by_cases ha : a ≤ body.length
  · rw [List.drop_append_of_le_length ha]
    by_cases hk : k ≤ (body.drop a).length
    · refine ⟨(body.drop a).take k, [], by rw [List.take_append_of_le_length hk]; simp, ?_, Or.inl rfl⟩
      intro c hc; exact h.body c (List.mem_of_mem_drop (List.mem_of_mem_take hc))
    · refine ⟨body.drop a, nl.take (k - (body.drop a).length), by rw [List.take_append]; congr 1; exact List.take_of_length_le (by omega), ?_, ?_⟩
      · intro c hc; exact h.body c (List.mem_of_mem_drop hc)
      · rcases h.nl with hn | hn <;> subst hn
        · left; simp
        · cases k - (body.drop a).length with
          | zero => left; rfl
          | succ m => right; simp
  · refine ⟨[], (List.drop a (body ++ nl)).take k, by simp, by simp, ?_⟩
    have : List.drop a (body ++ nl) = nl.drop (a - body.length) := by
      rw [List.drop_append]
      rw [List.drop_eq_nil_of_le (by omega)]; rfl
    rw [this]
    rcases h.nl with hn | hn <;> subst hn
    · left; simp
    · have : a - body.length = (a - body.length - 1) + 1 := by omega
      rw [this]; left; simp

/-- Re-written slices of the line. -/
theorem LineOK.slice_map (h : LineOK X body nl p) (he : StdEol e) (a b : Nat) (hab : a ≤ b) :
    ((toEol e p.line).drop (eolPos e p.line a)).take (eolPos e p.line b - eolPos e p.line a) =
      toEol e ((p.line.drop a).take (b - a)) := by
  rw [drop_toEol e (stdEol_ne_nil he)]
  obtain ⟨k, rfl⟩ := Nat.exists_eq_add_of_le hab
  rw [eolPos_add, Nat.add_sub_cancel_left, Nat.add_sub_cancel_left, take_toEol e (stdEol_ne_nil he)]

/-! ### `advance` -/

/-- The column after `Advance(n)`. -/
def advCol (q : LP) (n : Nat) : Nat :=
  if q.i < q.line.length && q.line.getD q.i 0 == TAB then
    q.col + q.tabRem + columnWidth q.col ((q.line.drop (q.i + 1)).take (q.i + n - (q.i + 1)))
  else q.col + columnWidth q.col ((q.line.drop q.i).take n)

theorem advance_zero (p : LP) : p.advance 0 = p := rfl

theorem advance_pos (p : LP) (n : Nat) (hz : n ≠ 0) :
    p.advance n =
      if p.markMatched.i + n > p.markMatched.line.length then p.markMatched.setPanic "Advance: index out of bounds"
      else ({ p.markMatched with col := advCol p.markMatched n, i := p.markMatched.i + n }).updateTabRemaining := by
  unfold LP.advance advCol
  rw [if_neg (by simpa using hz)]

/-- `Advance(n)` on the two sides: the re-written side advances by the image of the stretch. -/
theorem mapLP_advance (h : LineOK X body nl p) (he : StdEol e) (n n' : Nat)
    (hn : eolPos e p.line (p.i + n) = eolPos e p.line p.i + n') :
    (mapLP e X p).advance n' = mapLP e X (p.advance n) := by
  have hn0 : n' = 0 ↔ n = 0 := by
    constructor
    · intro h0; subst h0
      have := eolPos_inj e p.line hn; omega
    · intro h0; subst h0; simp at hn; omega
  by_cases hz : n = 0
  · have hz' : n' = 0 := hn0.2 hz
    subst hz hz'; rfl
  · have hz' : ¬ n' = 0 := fun h0 => hz (hn0.1 h0)
    rw [advance_pos _ _ hz', advance_pos _ _ hz, mapLP_markMatched]
    have hq : LineOK X body nl p.markMatched := by
      rw [markMatched_eq]; exact h.frame rfl rfl rfl h.hi
    have hqi : p.markMatched.i = p.i := by rw [markMatched_eq]
    have hql : p.markMatched.line = p.line := by rw [markMatched_eq]
    generalize p.markMatched = q at hq hqi hql
    rw [← hqi, ← hql] at hn
    clear hqi hql h
    have hidx : (mapLP e X q).i + n' = eolPos e q.line (q.i + n) := by rw [mapLP_i]; exact hn.symm
    by_cases hp : q.i + n > q.line.length
    · have hp' : (mapLP e X q).i + n' > (mapLP e X q).line.length := by
        rw [hidx, mapLP_line, hq.line_length he]
        exact eolPos_strict e q.line hp
      rw [if_pos hp', if_pos hp, mapLP_setPanic]
    · have hp' : ¬ (mapLP e X q).i + n' > (mapLP e X q).line.length := by
        rw [hidx, mapLP_line, hq.line_length he]
        have := eolPos_mono e q.line (Nat.le_of_not_gt hp)
        omega
      rw [if_neg hp', if_neg hp]
      have hle : q.i + n ≤ q.line.length := Nat.le_of_not_gt hp
      have hlt : q.i < q.line.length := by omega
      -- the cursor is inside the body or on the LF
      have hib : q.i ≤ body.length ∧ eolPos e q.line q.i = q.i := by
        rcases hq.cursor (e := e) with hc | hc
        · exact hc
        · omega
      have hi' : (mapLP e X q).i = q.i := hib.2
      have hcol' : (mapLP e X q).col = q.col := by simp [mapLP, hib.2]
      have hupd : LineOK X body nl { q with col := 0, i := q.i + n } := hq.frame rfl rfl rfl hle
      rw [← mapLP_updateTab (hq.frame (q := { q with col := _, i := q.i + n }) rfl rfl rfl hle) he]
      congr 1
      apply mapLP_set_col_i
      · -- the column
        have hslice : ∀ a, q.i ≤ a → a ≤ q.i + n → a ≤ body.length →
            columnWidth q.col (((toEol e q.line).drop a).take (eolPos e q.line (q.i + n) - a)) =
              columnWidth q.col ((q.line.drop a).take (q.i + n - a)) + (eolPos e q.line (q.i + n) - (q.i + n)) := by
          intro a h1 h2 h3
          have hpa : eolPos e q.line a = a := hq.pos_body h3
          have := hq.slice_map he a (q.i + n) h2
          rw [hpa] at this
          rw [this, columnWidth_toEol (hq.stretch a _) he]
          congr 1
          have hsplit : q.line.take (q.i + n) = q.line.take a ++ (q.line.drop a).take (q.i + n - a) := by
            have : q.i + n = a + (q.i + n - a) := by omega
            conv => lhs; rw [this, List.take_add]
          have hc0 : cntLF (q.line.take a) = 0 := by
            apply cntLF_eq_zero
            intro c hc
            rw [hq.shape, List.take_append_of_le_length h3] at hc
            exact noLF_of_noNL hq.body c (List.mem_of_mem_take hc)
          unfold eolPos
          rw [hsplit, cntLF_append, hc0, Nat.zero_add]; omega
        unfold advCol
        rw [hi', hcol', mapLP_line, mapLP_tabRem]
        have hget : (toEol e q.line).getD q.i 0 == TAB ↔ q.line.getD q.i 0 == TAB := by
          by_cases hb : q.i < body.length
          · rw [hq.getD_body hb]
          · have hieq : q.i = body.length := by omega
            have hnl : nl = [LF] := by
              rcases hq.nl with h0 | h0
              · subst h0; rw [hq.shape] at hlt; simp at hlt; omega
              · exact h0
            subst hnl
            have h1 : q.line.getD q.i 0 = LF := by
              rw [hq.shape, hieq]; simp [List.getD_eq_getElem?_getD]
            have h2 : ∃ c, (toEol e q.line).getD q.i 0 = c ∧ isNL c = true := by
              rw [hq.shape, toEol_body_nl e hq.body, hieq]
              have : toEol e [LF] = e := by simp [toEol]
              rw [this]
              rcases he with h0 | h0 | h0 <;> subst h0 <;> simp [List.getD_eq_getElem?_getD] <;> decide
            obtain ⟨c, hc1, hc2⟩ := h2
            rw [hc1, h1]
            have := (isNL_facts c hc2).2.2.1
            have hct : (c == TAB) = false := by
              revert this; cases c == SP <;> cases c == TAB <;> simp
            rw [hct]; decide
        have hlt' : q.i < (toEol e q.line).length := by
          have := (hq.lt_iff he q.i).2 hlt
          rw [hib.2] at this; exact this
        by_cases htab : (q.line.getD q.i 0 == TAB) = true
        · have htab' : ((toEol e q.line).getD q.i 0 == TAB) = true := hget.2 htab
          simp only [hlt, hlt', htab, htab', decide_true, Bool.and_self, if_true]
          have hb : q.i < body.length := by
            by_cases hb : q.i < body.length
            · exact hb
            · exfalso
              have hieq : q.i = body.length := by omega
              have hnl : nl = [LF] := by
                rcases hq.nl with h0 | h0
                · subst h0; rw [hq.shape] at hlt; simp at hlt; omega
                · exact h0
              subst hnl
              have h1 : q.line.getD q.i 0 = LF := by
                rw [hq.shape, hieq]; simp [List.getD_eq_getElem?_getD]
              rw [h1] at htab; exact absurd htab (by decide)
          have := hslice (q.i + 1) (by omega) (by omega) (by omega)
          have h3 : q.i + n' = eolPos e q.line (q.i + n) := by rw [hn, hib.2]
          rw [h3, this]; omega
        · have htab' : ¬ ((toEol e q.line).getD q.i 0 == TAB) = true := fun h0 => htab (hget.1 h0)
          simp only [htab, htab', Bool.and_false, Bool.false_eq_true, if_false]
          have := hslice q.i (Nat.le_refl _) (by omega) hib.1
          rw [Nat.add_sub_cancel_left] at this
          have h3 : eolPos e q.line (q.i + n) - q.i = n' := by rw [hn, hib.2]; omega
          rw [h3] at this
          rw [this]; omega
      · exact hidx

theorem updateTab_source (q : LP) : q.updateTabRemaining.source = q.source := by
  unfold LP.updateTabRemaining; split <;> rfl
theorem updateTab_lineStart (q : LP) : q.updateTabRemaining.lineStart = q.lineStart := by
  unfold LP.updateTabRemaining; split <;> rfl

theorem LineOK.updateTab {q : LP} (h : LineOK X body nl q) : LineOK X body nl q.updateTabRemaining :=
  h.frame (updateTab_source q) (updateTab_line q) (updateTab_lineStart q) (by rw [updateTab_i, updateTab_line]; exact h.hi)

/-- `Advance` keeps the static facts and the cursor bound. -/
theorem LineOK.advance (h : LineOK X body nl p) (n : Nat) : LineOK X body nl (p.advance n) := by
  by_cases hz : n = 0
  · subst hz; exact h
  · rw [advance_pos _ _ hz]
    have hq : LineOK X body nl p.markMatched := by
      rw [markMatched_eq]; exact h.frame rfl rfl rfl h.hi
    generalize p.markMatched = q at hq
    split
    · unfold LP.setPanic; split
      · exact hq
      · exact hq.frame rfl rfl rfl hq.hi
    · rename_i hp
      exact (hq.frame (q := { q with col := advCol q n, i := q.i + n }) rfl rfl rfl (Nat.le_of_not_gt hp)).updateTab

theorem mapLP_consumeLine (h : LineOK X body nl p) (he : StdEol e) :
    (mapLP e X p).consumeLine = mapLP e X p.consumeLine := by
  unfold LP.consumeLine
  have hadv : (mapLP e X p).advance ((mapLP e X p).line.length - (mapLP e X p).i) =
      mapLP e X (p.advance (p.line.length - p.i)) := by
    apply mapLP_advance h he
    have h1 : p.i + (p.line.length - p.i) = p.line.length := by have := h.hi; omega
    have h2 := (h.le_iff he p.i).2 h.hi
    rw [h1, mapLP_line, mapLP_i, ← h.line_length he]; omega
  simp only []
  rw [hadv]
  generalize p.advance (p.line.length - p.i) = q
  by_cases h1 : (q.state == stateOpening || q.state == stateOpenMatched) = true
  · have h1' : ((mapLP e X q).state == stateOpening || (mapLP e X q).state == stateOpenMatched) = true := h1
    rw [if_pos h1', if_pos h1]; rfl
  · have h1' : ¬ ((mapLP e X q).state == stateOpening || (mapLP e X q).state == stateOpenMatched) = true := h1
    rw [if_neg h1', if_neg h1]
    by_cases h2 : (q.state == stateDescending) = true
    · have h2' : ((mapLP e X q).state == stateDescending) = true := h2
      rw [if_pos h2', if_pos h2]; rfl
    · have h2' : ¬ ((mapLP e X q).state == stateDescending) = true := h2
      rw [if_neg h2', if_neg h2]

theorem LineOK.consumeLine (h : LineOK X body nl p) : LineOK X body nl p.consumeLine := by
  unfold LP.consumeLine
  have := h.advance (p.line.length - p.i)
  simp only []
  generalize p.advance (p.line.length - p.i) = q at this
  split
  · exact this.frame rfl rfl rfl this.hi
  · split
    · exact this.frame rfl rfl rfl this.hi
    · exact this

/-! ### `consumeIndent` -/

theorem byte_cond (l : Bytes) (i : Nat) (c : UInt8) :
    (decide (i < l.length) && l.getD i 0 == c) = ((l.drop i).head? == some c) := by
  by_cases hlt : i < l.length
  · rw [drop_cons_of_lt l i hlt]; simp [hlt]
  · rw [List.drop_eq_nil_of_le (by omega)]; simp [hlt]

theorem head?_append_eol' (r : Bytes) {n : Bytes} (hn : EolBytes n) (c : UInt8) (hc : c = SP ∨ c = TAB) :
    ((r ++ n).head? == some c) = (r.head? == some c) := by
  cases r with
  | nil =>
    cases n with
    | nil => rfl
    | cons d t =>
      have hd := (isNL_facts d (hn d (by simp))).2.2.1
      have : d ≠ c := by
        intro h; subst h
        rcases hc with h | h <;> subst h <;> simp at hd
      simp [this]
  | cons b t => rfl

theorem mapLP_consumeIndent (he : StdEol e) : ∀ (fuel : Nat) (p : LP) (n : Nat), LineOK X body nl p →
    LP.consumeIndent fuel (mapLP e X p) n = mapLP e X (LP.consumeIndent fuel p n) ∧
      LineOK X body nl (LP.consumeIndent fuel p n) := by
  intro fuel
  induction fuel with
  | zero => intro p n h; exact ⟨rfl, h⟩
  | succ fuel ih =>
    intro p n h
    unfold LP.consumeIndent
    by_cases hz : (n == 0) = true
    · rw [if_pos hz, if_pos hz]; exact ⟨rfl, h⟩
    · rw [if_neg hz, if_neg hz]
      simp only []
      rw [mapLP_markMatched]
      have hq : LineOK X body nl p.markMatched := by
        rw [markMatched_eq]; exact h.frame rfl rfl rfl h.hi
      generalize p.markMatched = q at hq
      clear h
      obtain ⟨r, nl', hr, hnl', h1, h2, h3⟩ := hq.rest he
      have hsp : (decide ((mapLP e X q).i < (mapLP e X q).line.length) && (mapLP e X q).line.getD (mapLP e X q).i 0 == SP) =
          (decide (q.i < q.line.length) && q.line.getD q.i 0 == SP) := by
        rw [byte_cond, byte_cond, h1, h2, head?_append_eol' r (eolBytes_toEol_nl he hnl') SP (Or.inl rfl),
          head?_append_eol' r (eolBytes_nl hnl') SP (Or.inl rfl)]
      have htb : (decide ((mapLP e X q).i < (mapLP e X q).line.length) && (mapLP e X q).line.getD (mapLP e X q).i 0 == TAB) =
          (decide (q.i < q.line.length) && q.line.getD q.i 0 == TAB) := by
        rw [byte_cond, byte_cond, h1, h2, head?_append_eol' r (eolBytes_toEol_nl he hnl') TAB (Or.inr rfl),
          head?_append_eol' r (eolBytes_nl hnl') TAB (Or.inr rfl)]
      -- when the byte at the cursor is a space or a tab, the cursor is inside the body
      have hin : ∀ c, (c = SP ∨ c = TAB) → (decide (q.i < q.line.length) && q.line.getD q.i 0 == c) = true →
          q.i < body.length ∧ (mapLP e X q).i = q.i ∧ (mapLP e X q).col = q.col := by
        intro c hc hcond
        rw [byte_cond, h1, head?_append_eol' r (eolBytes_nl hnl') c hc] at hcond
        have hne : r ≠ [] := by intro h0; subst h0; simp at hcond
        have h4 := h3 (by simp [hne])
        refine ⟨?_, h4.1, h4.2⟩
        rcases hq.cursor (e := e) with ⟨hi, _⟩ | ⟨hi, _⟩
        · by_cases hlt : q.i < body.length
          · exact hlt
          · exfalso
            have hieq : q.i = body.length := by omega
            have hd := hq.drop_i hi
            rw [hieq, List.drop_length, List.nil_append] at hd
            rw [hieq] at h1
            rw [hd] at h1
            rcases hq.nl with h0 | h0 <;> subst h0
            · cases r with
              | nil => exact hne rfl
              | cons b t => simp at h1
            · cases r with
              | nil => exact hne rfl
              | cons b t =>
                simp at h1
                have := hr b (by simp)
                rw [← h1.1] at this; exact absurd this (by decide)
        · exfalso
          rw [hi, List.drop_length] at h1
          cases r with
          | nil => exact hne rfl
          | cons b t => simp at h1
      by_cases c1 : (decide (q.i < q.line.length) && q.line.getD q.i 0 == SP) = true
      · have c1' := c1; rw [← hsp] at c1'
        rw [if_pos c1', if_pos c1]
        obtain ⟨hb, hi', hcol'⟩ := hin SP (Or.inl rfl) c1
        have hle : q.i + 1 ≤ q.line.length := by
          simp only [Bool.and_eq_true, decide_eq_true_eq] at c1; omega
        have hq' : LineOK X body nl { q with col := q.col + 1, i := q.i + 1 } := hq.frame rfl rfl rfl hle
        have hrec : { mapLP e X q with col := (mapLP e X q).col + 1, i := (mapLP e X q).i + 1 } =
            mapLP e X { q with col := q.col + 1, i := q.i + 1 } := by
          apply mapLP_set_col_i
          · rw [hcol', hq.pos_body (e := e) (j := q.i + 1) (by omega)]; omega
          · rw [hi', hq.pos_body (e := e) (j := q.i + 1) (by omega)]
        rw [hrec, mapLP_updateTab hq' he]
        exact ih _ _ hq'.updateTab
      · have c1' := c1; rw [← hsp] at c1'
        rw [if_neg c1', if_neg c1]
        by_cases c2 : (decide (q.i < q.line.length) && q.line.getD q.i 0 == TAB) = true
        · have c2' := c2; rw [← htb] at c2'
          rw [if_pos c2', if_pos c2]
          obtain ⟨hb, hi', hcol'⟩ := hin TAB (Or.inr rfl) c2
          have hle : q.i + 1 ≤ q.line.length := by
            simp only [Bool.and_eq_true, decide_eq_true_eq] at c2; omega
          by_cases c3 : n < q.tabRem
          · have c3' : n < (mapLP e X q).tabRem := c3
            rw [if_pos c3', if_pos c3]
            refine ⟨?_, hq.frame rfl rfl rfl hq.hi⟩
            simp only [mapLP]
            congr 1
            omega
          · have c3' : ¬ n < (mapLP e X q).tabRem := c3
            rw [if_neg c3', if_neg c3]
            have hq' : LineOK X body nl { q with col := q.col + q.tabRem, i := q.i + 1 } := hq.frame rfl rfl rfl hle
            have hrec : { mapLP e X q with col := (mapLP e X q).col + (mapLP e X q).tabRem, i := (mapLP e X q).i + 1 } =
                mapLP e X { q with col := q.col + q.tabRem, i := q.i + 1 } := by
              apply mapLP_set_col_i
              · rw [hcol', hq.pos_body (e := e) (j := q.i + 1) (by omega)]; simp only [mapLP_tabRem]; omega
              · rw [hi', hq.pos_body (e := e) (j := q.i + 1) (by omega)]
            rw [hrec, mapLP_updateTab hq' he]
            exact ih _ _ hq'.updateTab
        · have c2' := c2; rw [← htb] at c2'
          rw [if_neg c2', if_neg c2, mapLP_setPanic]
          refine ⟨rfl, ?_⟩
          unfold LP.setPanic; split
          · exact hq
          · exact hq.frame rfl rfl rfl hq.hi

theorem mapLP_consumeIndentN (h : LineOK X body nl p) (he : StdEol e) (n : Nat) :
    (mapLP e X p).consumeIndentN n = mapLP e X (p.consumeIndentN n) :=
  (mapLP_consumeIndent he (n + 1) p n h).1

theorem LineOK.consumeIndentN (h : LineOK X body nl p) (he : StdEol e) (n : Nat) : LineOK X body nl (p.consumeIndentN n) :=
  (mapLP_consumeIndent (e := e) he (n + 1) p n h).2

end

end CM.Proofs
