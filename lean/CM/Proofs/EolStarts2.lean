import CM.Proofs.EolStarts1
import CM.Proofs.EolHtml
/-
C14 (a), block level — the block starts commute with `mapLP` (part 2: fenced code, HTML block, list item), and
`tryStarts` over all eight starts.
HTML start condition 7 (a complete open or closing tag followed by white space only, parsed through the inline reader) is
the hypothesis `Start7Inv`; conditions 1–6 and all end conditions are theorems (EolHtml.lean).
-/
namespace CM.Proofs
open CM CM.Model CM.Gen CM.Proofs.BT

/-- HTML block start condition 7 does not look at the line ending (hypothesis; checked by evaluation on 177,156 lines
    in the counterexample hunt; the condition runs the inline reader over the line). -/
def Start7Inv : Prop := EolInvariant htmlStart7

/-! ### The tree operations do not touch the cursor (unconditionally) -/

theorem cur_setPanic (p : LP) (m : String) : cur (p.setPanic m) = cur p := by
  unfold LP.setPanic; split <;> rfl

theorem cur_markMatched (p : LP) : cur p.markMatched = cur p := by rw [markMatched_eq]; rfl

theorem cur_closeContainer (x : PExt) (p : LP) (endPos : Int) : cur (p.closeContainer x endPos) = cur p := by
  unfold LP.closeContainer; split <;> rfl

theorem cur_openBlockLoop (x : PExt) (kind : Nat) : ∀ (fuel : Nat) (p : LP), cur (LP.openBlockLoop x kind fuel p) = cur p := by
  intro fuel
  induction fuel with
  | zero => intro p; rfl
  | succ fuel ih =>
    intro p
    unfold LP.openBlockLoop
    split
    · rfl
    · split
      · exact cur_setPanic _ _
      · rw [ih, cur_closeContainer]

theorem cur_openBlock (x : PExt) (p : LP) (kind : Nat) (f : PLabel → PLabel) : cur (p.openBlock x kind f) = cur p := by
  unfold LP.openBlock
  split
  · exact cur_setPanic _ _
  · simp only []
    refine Eq.trans (rfl : _ = cur (LP.openBlockLoop x kind (p.markMatched.depth + 1) p.markMatched)) ?_
    rw [cur_openBlockLoop, cur_markMatched]

theorem cur_setContainerIndent (p : LP) (n : Int) : cur (p.setContainerIndent n) = cur p := by
  unfold LP.setContainerIndent
  split
  · exact cur_setPanic _ _
  · split
    · exact cur_setPanic _ _
    · rfl

theorem cur_endBlock (x : PExt) (p : LP) : cur (p.endBlock x) = cur p := by
  unfold LP.endBlock
  split
  · exact cur_setPanic _ _
  · simp only []; rw [cur_closeContainer, cur_markMatched]

section
variable {x : PExt} {e X body nl : Bytes} {p : LP}

/-! ### Fenced code block -/

theorem startFenced_sim (he : StdEol e) (hP : ParaSimAll x e X) (h : Inv p) (hs : p.state = 0)
    (hl : LineOK X body nl p) :
    startFenced x (mapLP e X p) = mapLP e X (startFenced x p) ∧ LineOK X body nl (startFenced x p) := by
  unfold startFenced
  simp only []
  rw [mapLP_indent hl he, mapLP_bai_inv eolInv_fence hl he]
  by_cases c1 : p.indent ≥ codeBlockIndentLimit
  · rw [if_pos c1, if_pos c1]; exact ⟨rfl, hl⟩
  rw [if_neg c1, if_neg c1]
  by_cases c2 : ((parseCodeFence p.bytesAfterIndent).n == 0) = true
  · rw [if_pos c2, if_pos c2]; exact ⟨rfl, hl⟩
  rw [if_neg c2, if_neg c2]
  obtain ⟨ci, hdrop, hil⟩ := consumeAll p h
  rw [mapLP_consumeIndentN hl he]
  have hl1 := hl.consumeIndentN he p.indent
  have hrec := rec_body eolInv_fence hl1 _ hdrop
  generalize p.consumeIndentN p.indent = p1 at ci hdrop hil hl1 hrec ⊢
  have hpos : p1.i ≤ body.length := by
    rcases hl1.cursor (e := e) with ⟨c, _⟩ | ⟨c, _⟩
    · exact c
    · exfalso
      have : p1.line.drop p1.i = [] := by rw [c]; simp
      rw [this] at hdrop
      rw [← hdrop] at c2
      exact c2 (by decide)
  have hb := parseCodeFence_bound (body.drop p1.i)
  rw [← hrec] at hb
  have hb0 := parseCodeFence_bound p.bytesAfterIndent
  generalize parseCodeFence p.bytesAfterIndent = fc at hb hb0 c2 ⊢
  rw [mapLP_openBlock x hl1 he (hP.at hl1) BK.fencedCode _ (fun _ _ _ => rfl)]
  have hl2 := (hl1.openBlock x BK.fencedCode (fun l => { l with char := fc.char, n := fc.n })).1
  have c2cur := cur_openBlock x p1 BK.fencedCode (fun l => { l with char := fc.char, n := fc.n })
  generalize p1.openBlock x BK.fencedCode (fun l => { l with char := fc.char, n := fc.n }) = p2 at hl2 c2cur ⊢
  rw [mapLP_setContainerIndent]
  have hl3 := hl2.setContainerIndent (p.indent : Int)
  have c3cur := cur_setContainerIndent p2 (p.indent : Int)
  generalize p2.setContainerIndent (p.indent : Int) = p3 at hl3 c3cur ⊢
  have e3i : p3.i = p1.i := by rw [cur_i c3cur, cur_i c2cur]
  have e3l : p3.line = p1.line := by rw [cur_line c3cur, cur_line c2cur]
  by_cases c4 : (decide (fc.infoStart ≥ 0) && decide (fc.infoEnd ≥ 0) && decide (fc.infoStart ≤ fc.infoEnd)) = true
  · rw [if_pos c4, if_pos c4]
    simp only [Bool.and_eq_true, decide_eq_true_eq] at c4
    obtain ⟨⟨hc1, hc2⟩, hc3⟩ := c4
    obtain ⟨hb1, _, _⟩ := hb hc1 hc2
    obtain ⟨_, hb2, hb3⟩ := hb0 hc1 hc2
    have hlen : (body.drop p1.i).length = body.length - p1.i := List.length_drop
    rw [hlen] at hb1
    rw [mapLP_advance_rec hl3 he fc.infoStart.toNat (by rw [e3i, hlen]; omega)]
    have hl4 := hl3.advance fc.infoStart.toNat
    have hle4 : p3.i + fc.infoStart.toNat ≤ p3.line.length := by
      rw [e3i, e3l, hl1.shape, List.length_append]; omega
    have e4i : (p3.advance fc.infoStart.toNat).i = p1.i + fc.infoStart.toNat := by
      rw [advance_i p3 _ hle4, e3i]
    have e4l : (p3.advance fc.infoStart.toNat).line = p1.line := by rw [advance_line, e3l]
    generalize p3.advance fc.infoStart.toNat = p4 at hl4 e4i e4l ⊢
    have hdrop4 : p4.line.getD p4.i 0 = p.bytesAfterIndent.getD fc.infoStart.toNat 0 := by
      rw [e4i, e4l]; exact getD_of_drop p1 _ _ hdrop
    have hind4 : p4.indent = 0 := indent_zero_of_getD p4 (by rw [hdrop4]; exact hb2) (by rw [hdrop4]; exact hb3)
    have hbody4 : p4.i + (fc.infoEnd - fc.infoStart).toNat ≤ body.length := by rw [e4i]; omega
    have hil4 : indentLength (p4.line.drop p4.i) = 0 := by
      by_cases hlt : p4.i < p4.line.length
      · rw [drop_cons_of_lt _ _ hlt]
        have h1 : p4.line.getD p4.i 0 ≠ SP := by rw [hdrop4]; exact hb2
        have h2 : p4.line.getD p4.i 0 ≠ TAB := by rw [hdrop4]; exact hb3
        exact indentLength_other _ _ h1 h2
      · rw [List.drop_eq_nil_of_le (by omega)]; rfl
    rw [mapLP_collectInline x hl4 he IK.infoString (fc.infoEnd - fc.infoStart).toNat (fc.infoEnd - fc.infoStart).toNat
      (by rw [hind4]; simp only [Nat.lt_irrefl, if_false, Nat.add_zero]
          rw [hl4.pos_body hbody4, hl4.pos_body (by omega)])
      (by intro _; rw [hil4, Nat.add_zero]; exact hbody4)]
    have hl5 := hl4.collectInline x IK.infoString (fc.infoEnd - fc.infoStart).toNat
    generalize p4.collectInline x IK.infoString (fc.infoEnd - fc.infoStart).toNat = p5 at hl5 ⊢
    exact ⟨mapLP_consumeLine hl5 he, hl5.consumeLine⟩
  · rw [if_neg c4, if_neg c4]
    exact ⟨mapLP_consumeLine hl3 he, hl3.consumeLine⟩

end

end CM.Proofs
