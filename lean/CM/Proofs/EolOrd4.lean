import CM.Proofs.EolOrd3
import CM.Proofs.BlocksSpansStream
/-
Discharging the `kidsOrd` hypothesis for inputs without `[` — part 4.

* From the C02 span invariant `PBSpans` (blocks and top-level inline spans nested and ordered) and `pbInl` (nested inline
  children at or after their parent's start) follows `kidsOrd` (`kidsOrd_of_spansL`).
* Without `[` the `RefDefSpansOK` hypothesis of the C02 theorem holds outright (`spans_upgrade`).
-/
namespace CM.Proofs
open CM CM.Model CM.Gen CM.Proofs.BT CM.Proofs.BSp

/-! ### Monotonicity of `≥ m` -/

mutual
theorem treeGE_mono {m m' : Int} (h : m' ≤ m) : ∀ t : Tree, treeGE m t = true → treeGE m' t = true
  | .node l cs, ht => by
    rw [treeGE] at ht ⊢
    simp only [Bool.and_eq_true, decide_eq_true_eq] at ht ⊢
    exact ⟨⟨by omega, by omega⟩, treesGE_mono h cs ht.2⟩
theorem treesGE_mono {m m' : Int} (h : m' ≤ m) : ∀ ts : List Tree, treesGE m ts = true → treesGE m' ts = true
  | [], _ => rfl
  | t :: ts, ht => by
    rw [treesGE] at ht ⊢
    simp only [Bool.and_eq_true] at ht ⊢
    exact ⟨treeGE_mono h t ht.1, treesGE_mono h ts ht.2⟩
end

mutual
theorem pbGE_mono {m m' : Int} (h : m' ≤ m) : ∀ b : PB, pbGE m b = true → pbGE m' b = true
  | .mk l bs is, hb => by
    rw [pbGE] at hb ⊢
    simp only [Bool.and_eq_true, Bool.or_eq_true, decide_eq_true_eq] at hb ⊢
    refine ⟨⟨⟨by omega, ?_⟩, pbsGE_mono h bs hb.1.2⟩, treesGE_mono h is hb.2⟩
    rcases hb.1.1.2 with h1 | h1
    · exact Or.inl h1
    · exact Or.inr (by omega)
theorem pbsGE_mono {m m' : Int} (h : m' ≤ m) : ∀ bs : List PB, pbsGE m bs = true → pbsGE m' bs = true
  | [], _ => rfl
  | b :: bs, hb => by
    rw [pbsGE] at hb ⊢
    simp only [Bool.and_eq_true] at hb ⊢
    exact ⟨pbGE_mono h b hb.1, pbsGE_mono h bs hb.2⟩
end

/-! ### From spans to order -/

theorem treesGE_of_inls : ∀ (is : List Tree) (lo hi : Int), InlsOK lo hi is → (∀ t ∈ is, inlOK t = true) →
    treesGE lo is = true := by
  intro is
  induction is with
  | nil => intro _ _ _ _; rfl
  | cons t rest ih =>
    intro lo hi h hk
    rw [InlsOK_cons] at h
    obtain ⟨h1, h2, _, h4⟩ := h
    rw [treesGE]
    simp only [Bool.and_eq_true]
    constructor
    · exact treeGE_mono h1 t (hk t (by simp))
    · exact treesGE_mono (by omega) rest (ih _ _ h4 (fun t' ht' => hk t' (by simp [ht'])))

mutual
theorem pbGE_of_spans : ∀ (b : PB) (lo hi : Int), PBSpans QT lo hi b → pbInl b = true → pbGE lo b = true
  | .mk l bs is, lo, hi, h, hi' => by
    rw [PBSpans_mk] at h
    obtain ⟨a1, a2, a3, a4, a5, _⟩ := h
    rw [pbInl_mk] at hi'
    rw [pbGE]
    simp only [Bool.and_eq_true, Bool.or_eq_true, decide_eq_true_eq]
    refine ⟨⟨⟨a1, ?_⟩, ?_⟩, ?_⟩
    · by_cases ho : l.stop < 0
      · exact Or.inl ho
      · right
        rw [endOf_closed (by omega)] at a2
        omega
    · exact pbsGE_mono a1 bs (pbsGE_of_spansL bs _ _ _ a5 ((pbsInl_iff bs).2 hi'.2))
    · exact treesGE_mono a1 is (treesGE_of_inls is _ _ a4 hi'.1)
theorem pbsGE_of_spansL : ∀ (bs : List PB) (po : Bool) (lo hi : Int), PBSpansL QT po lo hi bs → pbsInl bs = true →
    pbsGE lo bs = true
  | [], _, _, _, _, _ => rfl
  | b :: rest, po, lo, hi, h, hi' => by
    rw [PBSpansL_cons] at h
    obtain ⟨h1, h2, h3⟩ := h
    rw [pbsInl] at hi'
    simp only [Bool.and_eq_true] at hi'
    rw [pbsGE]
    simp only [Bool.and_eq_true]
    refine ⟨pbGE_of_spans b lo hi h1 hi'.1, ?_⟩
    by_cases ho : b.isOpen = true
    · rw [(h2 ho).1]; rfl
    · have hc : 0 ≤ b.label.stop := (isOpen_false_iff b).1 (by simpa using ho)
      have hb := PBSpans_closed_bounds h1 hc
      exact pbsGE_mono (by omega) rest (pbsGE_of_spansL rest po _ hi h3 hi'.2)
end

theorem kidsOrd_of_spansL : ∀ (bs : List PB) (po : Bool) (lo hi : Int), PBSpansL QT po lo hi bs → pbsInl bs = true →
    kidsOrd bs = true := by
  intro bs
  induction bs with
  | nil => intro _ _ _ _ _; rfl
  | cons k rest ih =>
    intro po lo hi h hi'
    rw [PBSpansL_cons] at h
    obtain ⟨_, _, h3⟩ := h
    rw [pbsInl] at hi'
    simp only [Bool.and_eq_true] at hi'
    rw [kidsOrd]
    simp only [Bool.and_eq_true, Bool.or_eq_true]
    exact ⟨Or.inr (pbsGE_of_spansL rest po _ hi h3 hi'.2), ih po _ hi h3 hi'.2⟩

/-! ### Without `[`, the `RefDefSpansOK` hypothesis holds -/

mutual
theorem spans_upgrade (x : PExt) (src : Bytes) (hb : NoBracket src) (L E : Int) (h0 : 0 ≤ L) (hLE : L ≤ E) :
    ∀ (b : PB) (lo hi : Int), PBSpans QT lo hi b → (b.label.stop < 0 → hi = L) → PBSpans (RefDefSpansOK x src L E) lo hi b
  | .mk l bs is, lo, hi, h, hopen => by
    rw [PBSpans_mk] at h ⊢
    obtain ⟨a1, a2, a3, a4, a5, a6, a7⟩ := h
    refine ⟨a1, a2, a3, a4, ?_, a6, ?_⟩
    · apply spansL_upgrade x src hb L E h0 hLE bs _ _ _ a5
      intro hpo
      have ho : l.stop < 0 := by simpa using hpo
      rw [endOf_open ho]
      exact hopen ho
    · intro ho
      refine ⟨(a7 ho).1, fun _ => ?_⟩
      have hhi := hopen ho
      rw [endOf_open ho, hhi] at a2 a4
      exact refDefSpansOK_of_no_bracket x src L E l is (fun first rest _ => current_ne_bracket hb _) h0 hLE a2 a4
theorem spansL_upgrade (x : PExt) (src : Bytes) (hb : NoBracket src) (L E : Int) (h0 : 0 ≤ L) (hLE : L ≤ E) :
    ∀ (bs : List PB) (po : Bool) (lo hi : Int), PBSpansL QT po lo hi bs → (po = true → hi = L) →
      PBSpansL (RefDefSpansOK x src L E) po lo hi bs
  | [], _, _, _, _, _ => PBSpansL_nil _ _ _ _
  | b :: rest, po, lo, hi, h, hpo => by
    rw [PBSpansL_cons] at h ⊢
    obtain ⟨h1, h2, h3⟩ := h
    refine ⟨spans_upgrade x src hb L E h0 hLE b lo hi h1 (fun ho => ?_), h2, spansL_upgrade x src hb L E h0 hLE rest po _ hi h3 hpo⟩
    exact hpo (h2 ((isOpen_iff b).2 ho)).2
end

/-! ### Re-basing keeps `pbInl` -/

theorem offsetTree_label_start (n : Int) (t : Tree) : (offsetTree n t).label.start = t.label.start + n := by
  cases t; rw [offsetTree]; rfl

theorem inlOK_offset (n : Int) (hn : n ≤ 0) (t : Tree) (h : inlOK t = true) : inlOK (offsetTree n t) = true := by
  unfold inlOK at h ⊢
  rw [offsetTree_label_start]
  exact treeGE_offset _ n hn t h

mutual
theorem pbInl_offset (n : Int) (hn : n ≤ 0) : ∀ b : PB, pbInl b = true → pbInl (offsetPB n b) = true
  | .mk l bs is, h => by
    rw [pbInl_mk] at h
    rw [offsetPB, pbInl_mk]
    constructor
    · intro t ht
      have : ∀ (ts : List Tree), t ∈ offsetTrees n ts → ∃ t0 ∈ ts, t = offsetTree n t0 := by
        intro ts
        induction ts with
        | nil => intro h; rw [offsetTrees] at h; cases h
        | cons a r ih =>
          intro h
          rw [offsetTrees] at h
          rcases List.mem_cons.1 h with h1 | h1
          · exact ⟨a, by simp, h1⟩
          · obtain ⟨t0, h2, h3⟩ := ih h1
            exact ⟨t0, by simp [h2], h3⟩
      obtain ⟨t0, h1, rfl⟩ := this is ht
      exact inlOK_offset n hn t0 (h.1 t0 h1)
    · exact (pbsInl_iff _).1 (pbsInl_offset n hn bs ((pbsInl_iff bs).2 h.2))
theorem pbsInl_offset (n : Int) (hn : n ≤ 0) : ∀ bs : List PB, pbsInl bs = true → pbsInl (offsetPBs n bs) = true
  | [], _ => rfl
  | b :: bs, h => by
    rw [pbsInl] at h
    simp only [Bool.and_eq_true] at h
    rw [offsetPBs, pbsInl]
    simp only [Bool.and_eq_true]
    exact ⟨pbInl_offset n hn b h.1, pbsInl_offset n hn bs h.2⟩
end

end CM.Proofs
