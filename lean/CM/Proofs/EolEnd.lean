import CM.Proofs.EolOrd5
import CM.Proofs.BlocksWell
import CM.Proofs.BlocksTotal
import CM.Model.Parse
/-
C14 (a), block phase, inputs without `[` — the run hypothesis removed.

On the in-memory parser a `NextBlock` call of the real block parser never panics (`nextBlock_mem_out`): the line parser does
not (C04, `processLine_no_panic`), the fuel of the per-line loop suffices (`parseLines_mem_block`, from the contract
`blocksLP_wellS` of C08), and the stream state records no panic.  So on both sides of the simulation the only way a `drain`
ends other than with an error value is its own fuel `n`, and that runs out on both sides at the same call
(`drain_eolSim_plain`).  Result: `blocks_eol_sim_total`, for EVERY number of calls `n`.
-/
namespace CM.Proofs
open CM CM.Model CM.Gen CM.Proofs.BT CM.Proofs.BSp

section
variable (x : PExt)

/-- The in-memory per-line loop with enough fuel delivers a block (never a panic, never out of fuel). -/
theorem parseLines_mem_block : ∀ (f : Nat) (lp : LP) (ls : Nat) (p : BP), p.err.isSome = true →
    p.i ≤ p.buf.length → (blocksLP_wellS x).Pre lp ls (p.buf.take p.i) → LPInv' lp →
    linesLeft p.buf p.i + 2 ≤ f → ∃ r p', parseLines (blocksLP x) f lp ls p = (.block r, p') := by
  intro f
  induction f with
  | zero => intro lp ls p _ _ _ _ h; omega
  | succ f ih =>
    intro lp ls p herr hi hpre hlp hf
    have hl := blocksLP_line_LPInv' x lp hlp (p.buf.take p.i) ls
    have hpan : (blocksLP x).panicked ((blocksLP x).line lp (p.buf.take p.i) ls) = none := hl.panic
    have hlen : (p.buf.take p.i).length = p.i := by simp; omega
    have key : Closes (blocksLP x) (blocksLP_wellS x).J ((blocksLP x).line lp (p.buf.take p.i) ls) (p.buf.take p.i) ∨
        (blocksLP_wellS x).I (p.buf.take p.i) ((blocksLP x).line lp (p.buf.take p.i) ls) := by
      rcases hpre with ⟨rfl, rfl, hb⟩ | ⟨src0, hI, hpx, rfl⟩ | ⟨src0, k, rest, rfl, hJ, ho, hpx, rfl⟩
      · right; exact (blocksLP_wellS x).fresh _ hb
      · by_cases hl : src0.length < (p.buf.take p.i).length
        · right; exact (blocksLP_wellS x).step _ _ _ hI hpx hl
        · have he := prefix_eq_of_length_ge hpx (by omega)
          left
          rw [← he]
          exact (blocksLP_wellS x).eof _ _ hI
      · by_cases hl : src0.length < (p.buf.take p.i).length
        · right; exact (blocksLP_wellS x).pstep _ _ _ _ hJ ho hpx hl
        · have he := prefix_eq_of_length_ge hpx (by omega)
          left
          rw [← he]
          exact (blocksLP_wellS x).peof _ _ _ hJ ho
    have hclosed : ∀ k rest, (blocksLP x).kids ((blocksLP x).line lp (p.buf.take p.i) ls) = k :: rest →
        k.isOpen = false → ∃ r p', parseLines (blocksLP x) (f + 1) lp ls p = (.block r, p') :=
      fun k rest hk ho => ⟨_, _, parseLines_root _ hpan (by rw [hk]; exact makeRoot_closed _ _ _ ho)⟩
    rcases key with hc | hI
    · rcases hc with ⟨m, hm⟩ | ⟨k, rest, hk, ho, _, _⟩
      · rw [hm] at hpan; cases hpan
      · exact hclosed k rest hk ho
    · have hcont : makeRoot p ((blocksLP x).kids ((blocksLP x).line lp (p.buf.take p.i) ls)) = none →
          ∃ r p', parseLines (blocksLP x) (f + 1) lp ls p = (.block r, p') := by
        intro hmr
        rw [parseLines_next _ hpan hmr]
        obtain ⟨e, he, hr⟩ := readline_site_mem herr
        have hb := eolEndB_bounds he
        rw [hr]
        simp only
        have hie : p.i ≤ e := by
          rcases hb.2 with h | ⟨h, _⟩ <;> omega
        have hpre' : (blocksLP_wellS x).Pre ((blocksLP x).line lp (p.buf.take p.i) ls) p.i (p.buf.take e) := by
          right; left
          exact ⟨p.buf.take p.i, hI, List.take_prefix_take_left hie, hlen.symm⟩
        by_cases hlt : p.i < e
        · have hll := linesLeft_lt he hlt
          exact ih ((blocksLP x).line lp (p.buf.take p.i) ls) p.i { p with i := e } herr hb.1 hpre' hl
            (by simp only; omega)
        · have hee : e = p.buf.length := by
            rcases hb.2 with h | ⟨_, h⟩
            · exact absurd h hlt
            · exact h
          subst hee
          obtain ⟨a, rfl⟩ : ∃ a, f = a + 1 := ⟨f - 1, by omega⟩
          have hpi : p.i = p.buf.length := by omega
          have hc : Closes (blocksLP x) (blocksLP_wellS x).J
              ((blocksLP x).line ((blocksLP x).line lp (p.buf.take p.i) ls) (List.take p.buf.length p.buf) p.i)
              (List.take p.buf.length p.buf) := by
            have := (blocksLP_wellS x).eof _ _ hI
            rw [hlen] at this
            rw [← hpi]
            exact this
          have hl2 := blocksLP_line_LPInv' x _ hl (List.take p.buf.length p.buf) p.i
          rcases hc with ⟨m, hm⟩ | ⟨k, rest, hk, ho, _, _⟩
          · have h1 : (blocksLP x).panicked ((blocksLP x).line ((blocksLP x).line lp (p.buf.take p.i) ls)
                (List.take p.buf.length p.buf) p.i) = none := hl2.panic
            rw [hm] at h1
            cases h1
          · exact ⟨_, _, parseLines_root (p := ({ p with i := p.buf.length } : BP)) _ hl2.panic
              (by rw [hk]; exact makeRoot_closed _ _ _ ho)⟩
      cases hk : (blocksLP x).kids ((blocksLP x).line lp (p.buf.take p.i) ls) with
      | nil => exact hcont (by rw [hk]; rfl)
      | cons k rest =>
        cases ho : k.isOpen with
        | false => exact hclosed k rest hk ho
        | true => exact hcont (by rw [hk]; exact makeRoot_open _ _ _ ho)

/-- The state of the in-memory stream machine between `NextBlock` calls, for the no-panic argument. -/
structure MemOK (p : BP) : Prop where
  err : p.err.isSome = true
  ile : p.i ≤ p.buf.length
  J : BlocksJ (blocksLP_wellS x) p
  panic : p.panic = none

theorem memParser_memOK (inp : Bytes) : MemOK x (memParser inp) :=
  ⟨rfl, Nat.zero_le _, (blocksLP_wellS x).pend_nil _, rfl⟩

/-- **`NextBlock` of the real block parser on the in-memory parser delivers a block or an error value — never a panic**;
    after a block the state invariant holds again. -/
theorem nextBlock_mem_out (p : BP) (h : MemOK x p) :
    (∃ r p', nextBlock (blocksLP x) p = (.block r, p') ∧ MemOK x p') ∨
    (∃ er p', nextBlock (blocksLP x) p = (.err er, p')) := by
  have herr := h.err
  have hi := h.ile
  have hfu := bpFuel_mem_ge p
  have hpost := (nextBlockF_memS (blocksLP_wellS x) p herr hi h.J (bpFuel p) (bpFuel p) (bpFuel p) (bpFuel p)
    (by omega) (by omega) hfu hfu).2
  rw [← nextBlock_eq_F] at hpost
  -- the outcome is a block or an error value
  have hout : (∃ r p', nextBlock (blocksLP x) p = (.block r, p')) ∨ (∃ er p', nextBlock (blocksLP x) p = (.err er, p')) := by
    rw [nextBlock_eq_F]
    have hlen : (p.buf.take p.i).length = p.i := by simp; omega
    cases hbl : p.blocks with
    | nil =>
      have hmr : makeRoot p p.blocks = none := by rw [hbl]; rfl
      have hlen0 : ¬ p.blocks.length > 0 := by rw [hbl]; simp
      rw [nextBlockF_fresh _ hmr hlen0]
      have hfl : linesLeft (freshLine p).buf (freshLine p).i = linesLeft p.buf p.i := linesLeft_drop p.buf p.i
      obtain ⟨_, a2, a3⟩ := skipBlank_mem (bpFuel p) (bpFuel p) (freshLine p) herr (by omega) (by omega)
      rcases hr : skipBlank (bpFuel p) (freshLine p) with ⟨_ | q, q2⟩
      · rw [hr] at a2
        right
        simp only [afterSkip]
        have hq : q2.panic = none := by rw [a2.panic]; exact h.panic
        rw [hq]
        exact ⟨_, _, rfl⟩
      · rw [hr] at a2 a3
        obtain ⟨b1, b2, b3, b4⟩ := a3 q rfl
        simp only at b1
        subst b1
        left
        simp only [afterSkip]
        have hqb : q.blocks = [] := by rw [a2.blocks]; exact hbl
        rw [hqb]
        have herr' : q.err.isSome = true := by rw [a2.err]; exact herr
        exact parseLines_mem_block x (bpFuel p) ((blocksLP x).new []) 0 q herr' b3 (Or.inl ⟨rfl, rfl, b4⟩)
          (new_LPInv' x []) (by omega)
    | cons k rest =>
      have hJ : (blocksLP_wellS x).J (p.buf.take p.i) (k :: rest) := by rw [← hbl]; exact h.J
      cases ho : k.isOpen with
      | false =>
        left
        have hmr : makeRoot p p.blocks = some (rootOf p k, afterRoot p k rest) := by
          rw [hbl]; exact makeRoot_closed _ _ _ ho
        rw [nextBlockF_root _ hmr]
        exact ⟨_, _, rfl⟩
      | true =>
        left
        have hmr : makeRoot p p.blocks = none := by rw [hbl]; exact makeRoot_open _ _ _ ho
        have hlen' : p.blocks.length > 0 := by rw [hbl]; simp
        rw [nextBlockF_pending _ hmr hlen']
        obtain ⟨e, he, hr⟩ := readline_site_mem herr
        have hbd := eolEndB_bounds he
        have hle := linesLeft_readline_le he
        rw [hr]
        simp only
        have hie : p.i ≤ e := by
          rcases hbd.2 with h | ⟨h, _⟩ <;> omega
        have hpre : (blocksLP_wellS x).Pre ((blocksLP x).new p.blocks) p.i (p.buf.take e) := by
          right; right
          exact ⟨p.buf.take p.i, k, rest, by rw [hbl], hJ, ho, List.take_prefix_take_left hie, hlen.symm⟩
        exact parseLines_mem_block x (bpFuel p) ((blocksLP x).new p.blocks) p.i { p with i := e } herr hbd.1 hpre
          (new_LPInv' x _) (by simp only; omega)
  rcases hout with ⟨r, p', hnb⟩ | hr
  · left
    refine ⟨r, p', hnb, ?_⟩
    rw [hnb] at hpost
    obtain ⟨g1, g2⟩ := hpost.good r rfl
    exact ⟨by rw [hpost.err]; exact herr, g1, g2, by rw [hpost.panic]; exact h.panic⟩
  · exact Or.inr hr

end

/-! ### The simulation without a run hypothesis -/

section
variable {x : PExt} {e inp : Bytes}

theorem drain_eolSim_plain (he : StdEol e) (hcr : NoCR inp) (hnul : NoNul inp) (hb : NoBracket inp) :
    ∀ (n : Nat) (p p' : BP) (acc acc' : List Root), BPRel e inp p p' → BPOrd p → MemOK x p →
      acc' = acc.map (mapRoot e inp) →
      (drain (blocksLP x) n p' acc').1 = (drain (blocksLP x) n p acc).1.map (mapRoot e inp) ∧
      (drain (blocksLP x) n p' acc').2.1 = (drain (blocksLP x) n p acc).2.1 := by
  have hP : ∀ o, ParaSimAll x e (inp.drop o) :=
    fun o => paraSimAll_of_noBracket x he (fun c hc => hb c (List.mem_of_mem_drop hc))
  intro n
  induction n with
  | zero =>
    intro p p' acc acc' _ _ _ hacc
    exact ⟨by show acc'.reverse = acc.reverse.map _; rw [hacc, List.map_reverse], rfl⟩
  | succ n ih =>
    intro p p' acc acc' R hO hM hacc
    have hord : kidsOrd p.blocks = true := kidsOrd_of_spansL p.blocks true 0 p.i hO.inv.blocks hO.inl
    obtain ⟨e1, e2⟩ := nextBlock_ordOK (x := x) p hO
    have hsim := nextBlock_eolSim (x := x) he hcr hnul hP start7Inv R hord
    rw [e1] at hsim
    unfold drain
    rcases nextBlock_mem_out x p hM with ⟨r, q, hnb, hMq⟩ | ⟨er, q, hnb⟩
    · rw [hnb] at hsim
      rcases hsim with ⟨m, hm⟩ | hrel
      · cases hm
      · generalize nextBlock (blocksLP x) p' = nb' at hrel
        obtain ⟨o', q'⟩ := nb'
        cases o' with
        | block r' =>
          obtain ⟨h1, h2, _⟩ := hrel
          rw [hnb]
          simp only []
          exact ih q q' (r :: acc) (r' :: acc') h2 (e2 r q hnb) hMq (by rw [h1, hacc]; rfl)
        | err b => exact absurd hrel (by simp [OutRel])
        | panic m => exact absurd hrel (by simp [OutRel])
    · rw [hnb] at hsim
      rcases hsim with ⟨m, hm⟩ | hrel
      · cases hm
      · generalize nextBlock (blocksLP x) p' = nb' at hrel
        obtain ⟨o', q'⟩ := nb'
        cases o' with
        | block r' => exact absurd hrel (by simp [OutRel])
        | err b =>
          have hab : er = b := hrel
          subst hab
          rw [hnb]
          simp only []
          exact ⟨by rw [hacc, List.map_reverse], trivial⟩
        | panic m => exact absurd hrel (by simp [OutRel])

end

/-- **C14 (a), block phase, inputs without `[`, no run hypothesis.**  For every CR-free, NUL-free input without `[`, every
    standard line ending `e` (LF, CR, CRLF) and EVERY number `n` of `NextBlock` calls: the in-memory run on the input with
    every LF re-written to `e` delivers exactly the images (`mapRoot`: offsets and spans through `eolPos`, source re-written,
    line numbers unchanged) of the roots of the run on the original input, and ends with the same outcome. -/
theorem blocks_eol_sim_total (x : PExt) {e : Bytes} (he : StdEol e) (inp : Bytes) (hcr : NoCR inp) (hnul : NoNul inp)
    (hb : NoBracket inp) (n : Nat) :
    (drain (blocksLP x) n (memParser (toEol e inp)) []).1 =
      (drain (blocksLP x) n (memParser inp) []).1.map (mapRoot e inp) ∧
    (drain (blocksLP x) n (memParser (toEol e inp)) []).2.1 = (drain (blocksLP x) n (memParser inp) []).2.1 :=
  drain_eolSim_plain he hcr hnul hb n _ _ [] [] (memParser_rel he hnul) (memParser_ord inp hnul hb)
    (memParser_memOK x inp) rfl

/-- … and that run never panics except by running out of its own fuel `n`: its outcome is an error value (end of input) or
    the fuel panic of `drain`. -/
theorem drain_mem_outcome (x : PExt) : ∀ (n : Nat) (p : BP) (acc : List Root), MemOK x p →
    (∃ er, (drain (blocksLP x) n p acc).2.1 = .err er) ∨ (drain (blocksLP x) n p acc).2.1 = .panic "drain: fuel" := by
  intro n
  induction n with
  | zero => intro p acc _; right; rfl
  | succ n ih =>
    intro p acc hM
    unfold drain
    rcases nextBlock_mem_out x p hM with ⟨r, q, hnb, hMq⟩ | ⟨er, q, hnb⟩
    · rw [hnb]; exact ih q (r :: acc) hMq
    · rw [hnb]; exact Or.inl ⟨er, rfl⟩

/-- The theorem at the fuel the model's `Parse` uses, for CRLF and for CR. -/
theorem blocks_crlf_sim_total (x : PExt) (inp : Bytes) (hcr : NoCR inp) (hnul : NoNul inp) (hb : NoBracket inp) (n : Nat) :
    (drain (blocksLP x) n (memParser (toCRLF inp)) []).1 =
      (drain (blocksLP x) n (memParser inp) []).1.map (mapRoot [CR, LF] inp) :=
  (blocks_eol_sim_total x (Or.inr (Or.inr rfl)) inp hcr hnul hb n).1

theorem blocks_cr_sim_total (x : PExt) (inp : Bytes) (hcr : NoCR inp) (hnul : NoNul inp) (hb : NoBracket inp) (n : Nat) :
    (drain (blocksLP x) n (memParser (toCR inp)) []).1 =
      (drain (blocksLP x) n (memParser inp) []).1.map (mapRoot [CR] inp) :=
  (blocks_eol_sim_total x (Or.inr (Or.inl rfl)) inp hcr hnul hb n).1

/-! ### At the level of `Parse` -/

theorem parseDoc_roots (x : PExt) (ix : IExt) (s : Bytes) :
    (parseDoc x ix s).roots.map (·.root) = (drain (blocksLP x) (s.length + 8) (memParser s) []).1 := by
  unfold parseDoc
  generalize drain (blocksLP x) (s.length + 8) (memParser s) [] = d
  obtain ⟨roots, out, q⟩ := d
  simp only [List.map_map]
  show roots.map (fun r => r) = roots
  exact List.map_id' roots

theorem parseDoc_ending (x : PExt) (ix : IExt) (s : Bytes) :
    (parseDoc x ix s).ending = (drain (blocksLP x) (s.length + 8) (memParser s) []).2.1 := by
  unfold parseDoc
  generalize drain (blocksLP x) (s.length + 8) (memParser s) [] = d
  obtain ⟨roots, out, q⟩ := d
  rfl

/-- **The block roots of the model's `Parse`**: for a CR-free, NUL-free input without `[` on which the `NextBlock` loop of
    `Parse` ends within the model's loop fuel (`hends`: decidable; the fuel is a model artefact — Go has none), `Parse` of the
    re-written input delivers the images of the roots and ends the same way. -/
theorem parseDoc_blocks_eol (x : PExt) (ix : IExt) {e : Bytes} (he : StdEol e) (inp : Bytes) (hcr : NoCR inp)
    (hnul : NoNul inp) (hb : NoBracket inp)
    (hends : drainEnds (blocksLP x) (inp.length + 8) (memParser inp) = true) :
    (parseDoc x ix (toEol e inp)).roots.map (·.root) = (parseDoc x ix inp).roots.map (fun r => mapRoot e inp r.root) ∧
    (parseDoc x ix (toEol e inp)).ending = (parseDoc x ix inp).ending := by
  have hge : inp.length + 8 ≤ (toEol e inp).length + 8 := by
    have := length_toEol_ge e (stdEol_ne_nil he) inp
    omega
  have hmore := drain_more_fuel (blocksLP x) (inp.length + 8) (memParser inp) [] hends _ hge
  obtain ⟨h1, h2⟩ := blocks_eol_sim_total x he inp hcr hnul hb ((toEol e inp).length + 8)
  rw [hmore] at h1 h2
  constructor
  · rw [parseDoc_roots, h1, ← parseDoc_roots x ix inp, List.map_map]; rfl
  · rw [parseDoc_ending, h2, parseDoc_ending]

/-- Non-vacuity: the demo input, no run hypothesis to decide. -/
example : (drain (blocksLP eolDemoX) 23 (memParser (toCRLF eolDemo)) []).1 =
    (drain (blocksLP eolDemoX) 23 (memParser eolDemo) []).1.map (mapRoot [CR, LF] eolDemo) :=
  blocks_crlf_sim_total eolDemoX eolDemo (by decide) (by decide) (by decide) 23
example (ix : IExt) : (parseDoc eolDemoX ix (toCRLF eolDemo)).roots.map (·.root) =
    (parseDoc eolDemoX ix eolDemo).roots.map (fun r => mapRoot [CR, LF] eolDemo r.root) :=
  (parseDoc_blocks_eol eolDemoX ix (Or.inr (Or.inr rfl)) eolDemo (by decide) (by decide) (by decide) (by decide +kernel)).1

end CM.Proofs
