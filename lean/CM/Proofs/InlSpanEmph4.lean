import CM.Proofs.InlSpanEmph3
/-
C02, inline half — from the states of `processEmphasis` to the pure lemmas: the stack as a list, `parentMap` as a
function, the two delimiter nodes of a match.
-/
namespace CM.Proofs.InlH
open CM CM.Model CM.Model.Inl

/-! ### the stack as a list -/

theorem stkOf_length (s : IState) : (stkOf s).length = s.stack.size := by
  unfold stkOf; simp

theorem stkOf_get (s : IState) (i : Nat) (hi : i < s.stack.size) :
    (stkOf s)[i]'(by rw [stkOf_length]; exact hi) = (s.stack[i]!).node := by
  unfold stkOf
  rw [List.getElem_map, getElem!_pos s.stack i hi]
  simp

/-- `delStack i j` on the list of node ids -/
theorem stkOf_del (st : Array DelimE) (i j : Nat) :
    ((st.extract 0 i ++ st.extract j st.size).toList.map (·.node)) =
      (st.toList.map (·.node)).take i ++ (st.toList.map (·.node)).drop j := by
  simp only [Array.toList_append, Array.toList_extract, List.extract_eq_take_drop, List.map_append, List.map_take,
    List.map_drop, List.drop_zero, Nat.sub_zero]
  congr 1
  exact List.take_of_length_le (by simp)

theorem stkOf_del' (st : Array DelimE) (i j : Nat) :
    ((st.extract 0 i ++ st.extract j).toList.map (·.node)) =
      (st.toList.map (·.node)).take i ++ (st.toList.map (·.node)).drop j := stkOf_del st i j

/-- The list around two of its positions. -/
theorem split_two (sk : List Nat) (b oi cur : Nat) (hb : b ≤ oi) (hoc : oi < cur) (hcur : cur < sk.length) :
    ∃ l1 l2 l3, sk.drop b = l1 ++ sk[oi] :: (l2 ++ sk[cur] :: l3) ∧ l1.length = oi - b ∧ l2.length = cur - oi - 1 := by
  refine ⟨(sk.drop b).take (oi - b), (sk.drop (oi + 1)).take (cur - oi - 1), sk.drop (cur + 1), ?_, ?_, ?_⟩
  · have e1 : sk.drop b = (sk.drop b).take (oi - b) ++ (sk.drop b).drop (oi - b) := (List.take_append_drop _ _).symm
    have e2 : (sk.drop b).drop (oi - b) = sk.drop oi := by rw [List.drop_drop]; congr 1; omega
    have e3 : sk.drop oi = sk[oi] :: sk.drop (oi + 1) := List.drop_eq_getElem_cons (by omega)
    have e4 : sk.drop (oi + 1) = (sk.drop (oi + 1)).take (cur - oi - 1) ++ (sk.drop (oi + 1)).drop (cur - oi - 1) :=
      (List.take_append_drop _ _).symm
    have e5 : (sk.drop (oi + 1)).drop (cur - oi - 1) = sk.drop cur := by rw [List.drop_drop]; congr 1; omega
    have e6 : sk.drop cur = sk[cur] :: sk.drop (cur + 1) := List.drop_eq_getElem_cons hcur
    rw [e5, e6] at e4
    rw [e2, e3] at e1
    conv => lhs; rw [e1]
    conv => lhs; rw [e4]
  · rw [List.length_take, List.length_drop]; omega
  · rw [List.length_take, List.length_drop]; omega

/-! ### `parentMap` as a function -/

theorem pmOf_congr {s s' : IState} (h : s'.parentMap = s.parentMap) (i : Nat) : pmOf s' i = pmOf s i := by
  unfold pmOf; rw [h]

theorem pmOf_set_none (s : IState) (pm' : Array (Option Nat)) (k : Nat) (h : pm' = s.parentMap.set! k none)
    (s' : IState) (hs' : s'.parentMap = pm') (i : Nat) : pmOf s' i = if i = k then none else pmOf s i := by
  unfold pmOf
  rw [hs', h, Array.set!_eq_setIfInBounds, Array.getElem?_setIfInBounds]
  by_cases hik : k = i
  · subst hik
    rw [if_pos rfl, if_pos rfl]
    split <;> simp
  · rw [if_neg hik, if_neg (fun h' => hik h'.symm)]

theorem cutMT_unique {l M B : List Nat} {c : Nat} (h : l = M ++ c :: B) (hM : c ∉ M) :
    cutM l (some c) = M ∧ cutT l (some c) = c :: B := by
  subst h
  unfold cutM cutT
  induction M with
  | nil => simp
  | cons a rest ih =>
    have hac : (some a != some c) = true := by
      simp only [List.mem_cons, not_or] at hM
      simpa using fun h => hM.1 h.symm
    simp only [List.cons_append, List.takeWhile_cons, List.dropWhile_cons, hac, if_true]
    have := ih (fun h => hM (List.mem_cons_of_mem _ h))
    exact ⟨by rw [this.1], this.2⟩

/-- The amount by which the two delimiter nodes of a match are shortened fits. -/
theorem width_le (so eo sc ec : Int) (ho : so < eo) (hc : sc < ec) (w : Int)
    (hw : w = if (decide (spanLenI so eo ≥ 2) && decide (spanLenI sc ec ≥ 2)) = true then 2 else 1) :
    1 ≤ w ∧ w ≤ eo - so ∧ w ≤ ec - sc := by
  subst hw
  split
  · rename_i h
    simp only [Bool.and_eq_true, decide_eq_true_eq] at h
    obtain ⟨h1, h2⟩ := h
    unfold spanLenI at h1 h2
    split at h1
    · split at h2
      · omega
      · omega
    · omega
  · omega

/-- One match of `processEmphasis` up to the deletion of the stack entries between the two delimiters. -/
theorem emph_glue {lo hi : Int} {x : Option Nat} {b p : Nat} {F : Int} {s s2 s3 : IState} (hsp : SP lo hi x b p F s)
    (oi cur : Nat) (hb : b ≤ oi) (hoc : oi < cur) (hcur : cur < s.stack.size) (kind : Nat) (w : Int)
    (hw : w = if (decide (spanLenI (s.nodes[(s.stack[oi]!).node]!).start (s.nodes[(s.stack[oi]!).node]!).stop ≥ 2) &&
                  decide (spanLenI (s.nodes[(s.stack[cur]!).node]!).start (s.nodes[(s.stack[cur]!).node]!).stop ≥ 2)) = true
              then 2 else 1)
    (hs2n : s2.nodes = (s.nodes.modify (s.stack[oi]!).node (fun n => { n with stop := n.stop - w })).modify
      (s.stack[cur]!).node (fun n => { n with start := n.start + w }))
    (hs2p : s2.parentMap = s.parentMap)
    (h3n : s3.nodes = wrapNodes s2 kind (s.stack[oi]!).node (some (s.stack[cur]!).node)
        ((pmOf s2 (s.stack[oi]!).node).getD 0)
        (cutA (s2.nodes[(pmOf s2 (s.stack[oi]!).node).getD 0]!).kids.toList (s.stack[oi]!).node)
        (cutM (cutR (s2.nodes[(pmOf s2 (s.stack[oi]!).node).getD 0]!).kids.toList (s.stack[oi]!).node)
          (some (s.stack[cur]!).node))
        (cutT (cutR (s2.nodes[(pmOf s2 (s.stack[oi]!).node).getD 0]!).kids.toList (s.stack[oi]!).node)
          (some (s.stack[cur]!).node)))
    (h3s : s3.parentMap.size = s2.nodes.size + 1)
    (h3p : ∀ i, pmOf s3 i =
      if i ∈ cutM (cutR (s2.nodes[(pmOf s2 (s.stack[oi]!).node).getD 0]!).kids.toList (s.stack[oi]!).node)
          (some (s.stack[cur]!).node) then some s2.nodes.size
      else if i = s2.nodes.size then some ((pmOf s2 (s.stack[oi]!).node).getD 0) else pmOf s2 i) :
    ∃ l1 l3 : List Nat, l1.length = oi - b ∧ ((stkOf s).take b).length = b ∧
      (stkOf s).take (oi + 1) ++ (stkOf s).drop cur =
        (stkOf s).take b ++ (l1 ++ (s.stack[oi]!).node :: (s.stack[cur]!).node :: l3) ∧
      SPA lo hi x b p F [(s.stack[oi]!).node, (s.stack[cur]!).node] s3.nodes
        ((stkOf s).take (oi + 1) ++ (stkOf s).drop cur) (pmOf s3) ∧
      s3.parentMap.size = s3.nodes.size := by
  obtain ⟨inv, hpsz⟩ := hsp
  have hlen := stkOf_length s
  obtain ⟨l1, l2, l3, hdrop, hl1, hl2⟩ := split_two (stkOf s) b oi cur hb hoc (by rw [hlen]; exact hcur)
  rw [stkOf_get s oi (by omega), stkOf_get s cur hcur] at hdrop
  generalize ho : (s.stack[oi]!).node = o at *
  generalize hc : (s.stack[cur]!).node = c at *
  -- the children of `p` around the two nodes
  have hsub := inv.high.1
  rw [hdrop] at hsub
  obtain ⟨A, R, hK, s1, hR⟩ := sublist_split hsub
  obtain ⟨M, B, hRe, s2', s3'⟩ := sublist_split hR
  rw [hRe] at hK
  have hod : o ∈ (stkOf s).drop b := by rw [hdrop]; exact List.mem_append_right _ (List.mem_cons_self ..)
  have hcd : c ∈ (stkOf s).drop b := by
    rw [hdrop]; exact List.mem_append_right _ (List.mem_cons_of_mem _ (List.mem_append_right _ (List.mem_cons_self ..)))
  have po := inv.plain o (List.mem_of_mem_drop hod)
  have pc := inv.plain c (List.mem_of_mem_drop hcd)
  obtain ⟨w1, wo, wc⟩ := width_le _ _ _ _ (po.len (by simp)) (pc.len (by simp)) w hw
  have pre : EmphPre lo hi x b p F s.nodes (stkOf s) (pmOf s) o c w A M B l1 l2 l3 :=
    ⟨inv, hdrop, hK, s1, s2', s3', w1, wo, wc⟩
  obtain ⟨_, _, hoc', hpo, hpc, _, hoA, _, _, _, hcM, _, _, _⟩ := pre.facts
  -- what `wrap` computed
  have hpm2 : ∀ i, pmOf s2 i = pmOf s i := pmOf_congr hs2p
  have hpo2 : pmOf s2 o = some p := by rw [hpm2]; exact inv.high.2 o hod
  rw [hpo2] at h3n h3p
  simp only [Option.getD_some] at h3n h3p
  have hs2sz : s2.nodes.size = s.nodes.size := by rw [hs2n]; simp
  have hkp : (s2.nodes[p]!).kids.toList = A ++ o :: (M ++ c :: B) := by
    rw [hs2n, get!_modify_neS hpc, get!_modify_neS hpo]; exact hK
  rw [hkp] at h3n h3p
  obtain ⟨eA, eR⟩ := cut_unique (l := A ++ o :: (M ++ c :: B)) rfl hoA
  rw [eA, eR] at h3n
  rw [eR] at h3p
  obtain ⟨eM, eT⟩ := cutMT_unique (l := M ++ c :: B) rfl hcM
  rw [eM, eT] at h3n
  rw [eM] at h3p
  have ea := emphArena_of s.nodes s2 o c p w kind A M B hs2n po.lt pc.lt inv.plt hoc' hpo hpc
  rw [← h3n] at ea
  have hpm3 : ∀ i, pmOf s3 i = if i ∈ M then some s.nodes.size else if i = s.nodes.size then some p else pmOf s i := by
    intro i; rw [h3p i, hs2sz, hpm2]
  have core := emph_core pre ea hpm3
  have e1 : b + l1.length + 1 = oi + 1 := by omega
  have e2 : b + l1.length + 1 + l2.length = cur := by omega
  rw [e2, e1] at core
  obtain ⟨hT, hsplit⟩ := sk_split hdrop
  rw [e2, e1] at hsplit
  exact ⟨l1, l3, hl1, hT, hsplit, core, by rw [h3s, hs2sz, ea.size]⟩

end CM.Proofs.InlH
