import CM.Proofs.InlForestRun
import CM.Proofs.InlExport
import CM.Proofs.InlCollect
import CM.Proofs.InlUnparsed
/-
`exportNode`'s markers 996 (dangling child index) and 997 (out of fuel) never occur: after `parseBody` the arena is
acyclic with valid child indices and depth below its size (`S`, `InlForest*.lean`), so the export with fuel `size + 1`
reaches every node.  `parseInlines_nodes_strong`: the generic theorem without the marker alternative;
`parseInlines_inline_kinds`: every inline node of the new children has one of the 17 inline kinds of the library
(no Unparsed node, no marker), if the block-phase inline children have.
-/
namespace CM.Proofs.InlH
open CM CM.Model CM.Model.Inl CM.Spec

/-- A node of an exported tree comes from an arena node: it carries its label or lies in its finished sub-trees. -/
def FromNode (φ : INode → Prop) (t : Tree) : Prop :=
  ∃ m, φ m ∧ (t.label = nodeLabel m ∨ t ∈ T.nodesL m.sub)

theorem exportNode_noMarker {φ : INode → Prop} {a : Array INode} {h : Nat → Nat} (hφ : ANodes φ a) (hd : Dec a h) :
    ∀ (fuel id : Nat), id < a.size → h id < fuel → ∀ t ∈ T.nodes (exportNode a fuel id), FromNode φ t := by
  intro fuel
  induction fuel with
  | zero => intro id _ hf; omega
  | succ fuel ih =>
    intro id hid hf t ht
    rw [exportNode] at ht
    have hget : a[id]? = some a[id] := Array.getElem?_eq_getElem hid
    rw [hget] at ht
    simp only [] at ht
    rw [T.nodes, List.mem_cons] at ht
    rcases ht with rfl | ht
    · exact ⟨a[id], hφ id hid, Or.inl rfl⟩
    · rcases nodesL_append_iff.1 ht with ht | ht
      · obtain ⟨c, hc, htc⟩ := mem_nodesL ht
        obtain ⟨k, hk, rfl⟩ := List.mem_map.1 hc
        obtain ⟨h1, h2⟩ := hd id hid k (Array.mem_toList_iff.1 hk)
        exact ih k h1 (by omega) t htc
      · exact ⟨a[id], hφ id hid, Or.inr ht⟩

/-- THE GENERIC THEOREM, strong form: every node (at any depth) of every tree `parseInlines` returns comes from an
    arena node satisfying `φ` — the markers of `exportNode` do not occur. -/
theorem parseInlines_nodes_strong (x : IExt) (src : Bytes) (srcA : Array UInt8) (matchRef : Bytes → Bool)
    (cstart cstop : Int) (unparsed : List Tree) (φ : INode → Prop)
    (hN : NodeInv (inlCtx x src srcA matchRef unparsed) φ)
    (hroot : φ { kind := 0, start := cstart, stop := cstop })
    (kids : List Tree) (h : parseInlines x src srcA matchRef cstart cstop unparsed = .ok kids) :
    ∀ t ∈ T.nodesL kids, FromNode φ t := by
  unfold parseInlines at h
  simp only [] at h
  split at h
  · cases h
  · rename_i u s hrun
    have hk : kids = (exportNode s.nodes (s.nodes.size + 1) 0).children := by
      cases h; rfl
    have hG0 : G φ { nodes := #[{ kind := 0, start := cstart, stop := cstop }], parentMap := #[none] } :=
      ⟨ANodes.singleton hroot, StackOK.empty, ⟨by simp, rfl⟩⟩
    have hS0 : S { nodes := #[{ kind := 0, start := cstart, stop := cstop }], parentMap := #[none] } :=
      ⟨Acyc.singleton _ rfl, by simp, PMOK.empty _⟩
    have hG : G φ s := triple_run (parseBody_spec (c := inlCtx x src srcA matchRef unparsed) hN) hG0 hrun
    have hS : S s := triple_run (parseBody_specS (c := inlCtx x src srcA matchRef unparsed)) hS0 hrun
    obtain ⟨f, hd, hb⟩ := hS.acyc
    intro t ht
    rw [hk] at ht
    have := hb 0 hS.pos
    exact exportNode_noMarker hG.nodes hd _ 0 hS.pos (by omega) t (nodesL_children_sub ht)

/-! ### the inline kinds of the output -/

/-- An inline node has one of the library's inline kinds other than Unparsed (1 … 17; 0 only for the dummy root). -/
def GoodK (t : Tree) : Prop := t.label.isBlock = false → t.label.kind ≤ 17

def φK (m : INode) : Prop := m.kind ≤ 17 ∧ ∀ t ∈ T.nodesL m.sub, GoodK t

/-- Hypothesis on the block-phase inline children that are taken over. -/
def InKinds (unparsed : List Tree) : Prop :=
  ∀ u ∈ unparsed, u.label.isBlock = false → isUnparsed u = false → ∀ t ∈ T.nodes u, GoodK t

theorem φK.leaf (k : Nat) (a b : Int) (hk : k ≤ 17) : φK { kind := k, start := a, stop := b } :=
  ⟨hk, fun t ht => by simp [T.nodesL] at ht⟩

theorem goodK_mkInline (k : Nat) (a b : Int) (hk : k ≤ 17) : ∀ u ∈ T.nodes (Model.mkInline k a b), GoodK u := by
  intro u hu
  rw [Model.mkInline, T.nodes, T.nodesL, List.mem_singleton] at hu
  subst hu
  exact fun _ => hk

theorem goodK_all {ts : List Tree} (h : ∀ c ∈ ts, ∀ u ∈ T.nodes c, GoodK u) : ∀ t ∈ T.nodesL ts, GoodK t := by
  intro t ht
  obtain ⟨c, hc, htc⟩ := mem_nodesL ht
  exact h c hc t htc

theorem isIndent_inline' {t : Tree} (h : isIndent t = true) : t.label.isBlock = false ∧ isUnparsed t = false := by
  unfold isIndent Node.isI at h
  simp only [Bool.and_eq_true, Bool.not_eq_true', beq_iff_eq] at h
  refine ⟨h.1, ?_⟩
  unfold isUnparsed Node.isI
  rw [h.1, h.2]; rfl

theorem collect_goodK (ext : Ext) (src : Bytes) (stop textKind : Nat) (escapes : Bool) (htk : textKind ≤ 17)
    (spans : List Tree) (hin : InKinds spans) (fuel k p ps : Nat) :
    ∀ t ∈ T.nodesL (collectTextNodes ext src stop textKind escapes fuel (newReader (spans.drop k) p) ps []), GoodK t := by
  apply goodK_all
  exact collect_all ext src stop textKind escapes (fun c => ∀ u ∈ T.nodes c, GoodK u)
    (fun a b => goodK_mkInline _ a b htk) (fun p _ e _ => goodK_mkInline _ _ _ (by decide)) spans
    (fun t ht hi => hin t ht (isIndent_inline' hi).1 (isIndent_inline' hi).2) fuel k p ps

theorem nodeInv_K (x : IExt) (src : Bytes) (srcA : Array UInt8) (matchRef : Bytes → Bool) (unparsed : List Tree)
    (hin : InKinds unparsed) : NodeInv (inlCtx x src srcA matchRef unparsed) φK where
  text a b := φK.leaf _ a b (by decide)
  hardBreak a b := φK.leaf _ a b (by decide)
  charRef pos _ e _ _ _ _ _ := φK.leaf _ _ _ (by decide)
  softBreak1 pos _ _ _ := φK.leaf _ _ _ (by decide)
  softBreak2 pos _ _ _ _ := φK.leaf _ _ _ (by decide)
  wrapped k a b hk := φK.leaf _ a b (by rcases hk with rfl | rfl | rfl | rfl <;> decide)
  imported t ht hb _ hk := by
    have hu : isUnparsed t = false := by
      unfold isUnparsed Node.isI
      simp [hk]
    have hall := hin t (by simpa [inlCtx] using ht) hb hu
    exact ⟨hall t (self_mem_nodes t) hb, fun u hu' => hall u (nodesL_children_sub hu')⟩
  codeSpan a b ks hks := by
    refine ⟨by dsimp only; decide, goodK_all fun c hc u hu => ?_⟩
    obtain ⟨k, hk, rfl⟩ := List.mem_map.1 hc
    rw [CSN.toTree, T.nodes, T.nodesL, List.mem_singleton] at hu
    subst hu
    intro _
    show k.kind ≤ 17
    rcases hks k (Array.mem_toList_iff.1 hk) with h | h <;> (rw [h]; decide)
  autolink a b a' b' := by
    refine ⟨by dsimp only; decide, goodK_all fun c hc u hu => ?_⟩
    rw [List.mem_singleton] at hc
    subst hc
    exact goodK_mkInline _ _ _ (by decide) u hu
  htmlTag a b stop fuel k p ps := ⟨by dsimp only; decide, collect_goodK _ _ _ _ _ (by decide) unparsed hin fuel k p ps⟩
  linkDest a b stop fuel k p ps := ⟨by dsimp only; decide, collect_goodK _ _ _ _ _ (by decide) unparsed hin fuel k p ps⟩
  linkDestEmpty a b := φK.leaf _ a b (by decide)
  linkTitle a b stop fuel k p ps := ⟨by dsimp only; decide, collect_goodK _ _ _ _ _ (by decide) unparsed hin fuel k p ps⟩
  linkTitleEmpty a b := φK.leaf _ a b (by decide)
  linkLabel a b stop fuel k p ps ref _ := ⟨by dsimp only; decide, collect_goodK _ _ _ _ _ (by decide) unparsed hin fuel k p ps⟩
  modKids n ks h := h
  modSpan n a b h _ := h
  modLink n a b r h _ _ := h

/-- Every inline node (any depth) of the new inline children of a container has an inline kind of the library that
    is not Unparsed: in particular no marker (996 / 997) of `exportNode` occurs, and no Unparsed node is left. -/
theorem parseInlines_inline_kinds (x : IExt) (src : Bytes) (srcA : Array UInt8) (matchRef : Bytes → Bool)
    (cstart cstop : Int) (unparsed kids : List Tree) (hin : InKinds unparsed)
    (h : parseInlines x src srcA matchRef cstart cstop unparsed = .ok kids) :
    ∀ t ∈ T.nodesL kids, t.label.isBlock = false → t.label.kind ≤ 17 := by
  intro t ht
  obtain ⟨m, hm, hl | hs⟩ := parseInlines_nodes_strong x src srcA matchRef cstart cstop unparsed φK
    (nodeInv_K x src srcA matchRef unparsed hin) (φK.leaf _ _ _ (by decide)) kids h t ht
  · intro _; rw [hl]; exact hm.1
  · exact hm.2 t hs

/-- …and for `Rewrite`: if every inline node of the block-phase tree is an Unparsed run or has an inline kind ≤ 17,
    no inline node has an Unparsed descendant and the root is not an Unparsed node, then every inline node of the
    rewritten tree has an inline kind ≤ 17 (no Unparsed node, no export marker). -/
theorem rewriteE_inline_kinds (x : IExt) (src : Bytes) (srcA : Array UInt8) (matchRef : Bytes → Bool) (t t' : Tree)
    (hroot : T.isI t IK.unparsed = false)
    (hkinds : ∀ u ∈ T.nodes t, u.label.isBlock = false → T.isI u IK.unparsed = true ∨ u.label.kind ≤ 17)
    (hflat : ∀ u ∈ T.nodes t, u.label.isBlock = false → ∀ v ∈ T.nodesL u.children, T.isI v IK.unparsed = false)
    (h : rewriteE x src srcA matchRef t = .ok t') :
    ∀ u ∈ T.nodes t', u.label.isBlock = false → u.label.kind ≤ 17 := by
  obtain ⟨hs, hc⟩ := flat_key t.size t (Nat.le_refl _) hroot hflat
  have good : ∀ u ∈ T.nodes t, NotUnp u → GoodK u := by
    intro u hu hnu hb
    rcases hkinds u hu hb with h' | h'
    · rw [hnu] at h'; cases h'
    · exact h'
  refine rewriteE_nodes x src srcA matchRef GoodK (fun _ cs => InKinds cs)
    (fun l cs kids hR hp => parseInlines_inline_kinds x src srcA matchRef l.start l.stop cs kids hR hp)
    (fun l cs cs' _ hb hb' => by rw [show (Tree.node l cs').label.isBlock = l.isBlock from rfl, hb] at hb'; cases hb')
    t.size t t' (Nat.le_refl _) ?_ ?_ h
  · intro u hu
    exact good u (surv_sub t.size t (Nat.le_refl _) u hu) (hs u hu)
  · intro p hp c hcm hb hu v hv
    obtain ⟨hmem, _, _⟩ := conts_sub t.size t (Nat.le_refl _) p hp
    exact good v (nodes_trans' hmem (nodesL_children_sub (u := .node p.1 p.2) (nodesL_of_mem hcm hv)))
      (hc p hp c hcm hb hu v hv)

end CM.Proofs.InlH
