import CM.Proofs.EolRd23
import CM.Proofs.EolEnd
/-
C14 (a), discharging the `kidsOrd` check — part 1: a lower bound for `collectTextNodes`.

Every node `collectTextNodes` appends, from a normalised reader over a sorted paragraph (`RDS.Ctx`) at or after `lo`, with
`plainStart ≥ lo`, lies at or after `lo` (`treesGE lo`): the text pieces start at `plainStart`, the Indent nodes handed out
by the reader are one byte long and contain the reader's position, the character references start at the reader's position.
-/
namespace CM.Proofs.EolX
open CM CM.Model CM.Gen CM.Proofs CM.Proofs.RDS CM.Proofs.BSp CM.Proofs.ERd

section
variable {src : Bytes} {is : List Tree}

/-- The reader and `plainStart` of `collectTextNodes`, at or after `lo`. -/
def KI (lo : Nat) (src : Bytes) (is : List Tree) (r : Rd) (ps : Nat) : Prop :=
  RDS.RI src is r ∧ lo ≤ ps ∧ lo ≤ r.pos ∧ (ps < r.pos → (lo : Int) ≤ r.prev + 1)

theorem ri_next_pos (hc : Ctx src is) {lo : Nat} {r : Rd} (h : RDS.RI src is r) (hp : lo ≤ r.pos) :
    RDS.RI src is (r.next src).2 ∧ lo ≤ (r.next src).2.pos ∧ ((r.next src).1 = true → (lo : Int) ≤ (r.next src).2.prev + 1) := by
  obtain ⟨a1, _, a3, a4, _⟩ := next_spec hc h
  refine ⟨a1, by omega, ?_⟩
  intro hok
  cases hs : r.spans with
  | nil => rw [next_dead hc h hs] at hok; cases hok
  | cons t rest =>
    rw [a3 (by rw [hs]; simp)]
    omega

theorem ki_next (hc : Ctx src is) {lo : Nat} {r : Rd} {ps : Nat} (h : KI lo src is r ps) :
    KI lo src is (r.next src).2 ps := by
  obtain ⟨h1, h2, h3, h4⟩ := h
  obtain ⟨a1, a2, _⟩ := ri_next_pos hc h1 h3
  refine ⟨a1, h2, a2, ?_⟩
  intro hlt
  cases hs : r.spans with
  | nil => rw [next_dead hc h1 hs] at hlt ⊢; exact h4 hlt
  | cons t rest =>
    rw [(next_spec hc h1).2.2.1 (by rw [hs]; simp)]
    omega

theorem ri_foldl (hc : Ctx src is) {lo : Nat} : ∀ (l : List Nat) (r : Rd), RDS.RI src is r → lo ≤ r.pos →
    RDS.RI src is (l.foldl (fun r _ => (r.next src).2) r) ∧ lo ≤ (l.foldl (fun r _ => (r.next src).2) r).pos := by
  intro l
  induction l with
  | nil => intro r h hp; exact ⟨h, hp⟩
  | cons a t ih =>
    intro r h hp
    obtain ⟨a1, a2, _⟩ := ri_next_pos hc h hp
    exact ih _ a1 a2

theorem ri_skipNode (hc : Ctx src is) {lo : Nat} (cn : Tree) : ∀ (f : Nat) (r : Rd), RDS.RI src is r → lo ≤ r.pos →
    RDS.RI src is (skipNode src cn f r) ∧ lo ≤ (skipNode src cn f r).pos := by
  intro f
  induction f with
  | zero => intro r h hp; exact ⟨h, hp⟩
  | succ f ih =>
    intro r h hp
    obtain ⟨a1, a2, _⟩ := ri_next_pos hc h hp
    rw [skipNode]
    generalize r.next src = nx at a1 a2
    obtain ⟨ok, r1⟩ := nx
    simp only [] at a1 a2 ⊢
    cases ok with
    | false => exact ⟨a1, a2⟩
    | true =>
      simp only [Bool.not_true, Bool.false_eq_true, if_false]
      rw [currentNode_eq hc a1]
      simp only []
      split
      · exact ih r1 a1 a2
      · exact ⟨a1, a2⟩

theorem remaining_snd (hc : Ctx src is) {r : Rd} (h : RDS.RI src is r) : (r.remainingNodeBytes src).2 = r := by
  unfold Rd.remainingNodeBytes
  rw [currentNode_eq hc h]
  cases r.spans.head? <;> rfl

/-! ### The pieces -/

theorem treesGE_snoc {m : Int} {acc : List Tree} {t : Tree} (h : treesGE m acc = true) (ht : treeGE m t = true) :
    treesGE m (acc ++ [t]) = true := by
  rw [treesGE_append, h, Bool.true_and, treesGE, ht]; rfl

theorem treesGE_ite {m : Int} {acc : List Tree} {t : Tree} (c : Prop) [Decidable c] (h : treesGE m acc = true)
    (ht : c → treeGE m t = true) : treesGE m (if c then acc ++ [t] else acc) = true := by
  split
  · rename_i hc; exact treesGE_snoc h (ht hc)
  · exact h

theorem finish_ge {lo : Nat} (stop tk ps : Nat) (acc : List Tree) (hps : lo ≤ ps) (h : treesGE (lo : Int) acc = true) :
    treesGE (lo : Int) (collectTextNodes.finish stop tk ps acc) = true := by
  unfold collectTextNodes.finish
  exact treesGE_ite _ h (fun hc => treeGE_mkInline _ _ _ _ (by omega) (by omega))

variable (ext : Ext) (stop tk : Nat) (esc : Bool)

/-- The statement for one fuel value. -/
def CollGE (lo : Nat) (src : Bytes) (is : List Tree) (ext : Ext) (stop tk : Nat) (esc : Bool) (f : Nat) : Prop :=
  ∀ (r : Rd) (ps : Nat) (acc : List Tree), KI lo src is r ps → treesGE (lo : Int) acc = true →
    treesGE (lo : Int) (collectTextNodes ext src stop tk esc f r ps acc) = true

theorem goF_ge (hc : Ctx src is) {lo : Nat} (f : Nat) (ih : CollGE lo src is ext stop tk esc f) (r : Rd) (ps : Nat)
    (acc : List Tree) (h : KI lo src is r ps) (hacc : treesGE (lo : Int) acc = true) :
    treesGE (lo : Int) (goF ext src stop tk esc f r ps acc) = true := by
  unfold goF
  split
  · exact finish_ge stop tk ps acc h.2.1 hacc
  · have hn := ki_next hc h
    generalize r.next src = nx at hn
    obtain ⟨ok, r1⟩ := nx
    simp only [] at hn ⊢
    split
    · exact finish_ge stop tk ps acc h.2.1 hacc
    · split
      · apply ih r1 r1.pos _ ⟨hn.1, hn.2.2.1, hn.2.2.1, fun hh => absurd hh (Nat.lt_irrefl _)⟩
        exact treesGE_ite _ hacc (fun hc' => treeGE_mkInline _ _ _ _ (by have := h.2.1; omega) (by have := h.2.1; omega))
      · exact ih r1 ps acc hn hacc

theorem collectStep_ge (hc : Ctx src is) {lo : Nat} (f : Nat) (ih : CollGE lo src is ext stop tk esc f) (cn : Tree) (r : Rd)
    (ps : Nat) (acc : List Tree) (h : KI lo src is r ps) (hacc : treesGE (lo : Int) acc = true) :
    treesGE (lo : Int) (collectTextNodes.collectStep ext src stop tk esc cn r ps acc f) = true := by
  have go := goF_ge ext stop tk esc hc f ih
  have hps := h.2.1
  rw [collectStep_eq']
  split
  · rw [current_eq hc h.1]
    simp only []
    split
    · -- backslash
      have hn := ki_next hc h
      generalize r.next src = nx at hn
      obtain ⟨ok, r1⟩ := nx
      simp only [] at hn ⊢
      have hcu : (if ok = true then Rd.current src r1 else (0, r1)) =
          ((if ok = true then Rd.current src r1 else (0, r1)).1, r1) := by
        split
        · exact current_eq hc hn.1
        · rfl
      rw [hcu]
      simp only []
      generalize (if ok = true then Rd.current src r1 else (0, r1)).1 = c2
      split
      · apply go r1 r1.pos _ ⟨hn.1, hn.2.2.1, hn.2.2.1, fun hh => absurd hh (Nat.lt_irrefl _)⟩
        exact treesGE_ite _ hacc (fun hc' => treeGE_mkInline _ _ _ _ (by omega) (by omega))
      · exact go r1 ps acc hn hacc
    · split
      · -- ampersand
        unfold ampF
        have hrs := remaining_snd hc h.1
        generalize r.remainingNodeBytes src = rb at hrs
        obtain ⟨rest, r2⟩ := rb
        simp only [] at hrs ⊢
        subst hrs
        split
        · rename_i n hn
          have hacc2 : treesGE (lo : Int) ((if r2.pos > ps then acc ++ [mkInline tk (ps : Int) (r2.pos : Int)] else acc) ++
              [mkInline IK.charRef (r2.pos : Int) ((r2.pos : Int) + (n : Int))]) = true := by
            apply treesGE_snoc
            · exact treesGE_ite _ hacc (fun _ => treeGE_mkInline _ _ _ _ (by omega) (by have := h.2.2.1; omega))
            · exact treeGE_mkInline _ _ _ _ (by have := h.2.2.1; omega) (by have := h.2.2.1; omega)
          obtain ⟨f1, f2⟩ := ri_foldl (lo := lo) hc (List.range (n - 1)) r2 h.1 h.2.2.1
          generalize List.foldl (fun r _ => (Rd.next src r).snd) r2 (List.range (n - 1)) = r3 at f1 f2
          obtain ⟨g1, g2, g3⟩ := ri_next_pos hc f1 f2
          generalize r3.next src = nx at g1 g2 g3
          obtain ⟨ok, r4⟩ := nx
          simp only [] at g1 g2 g3 ⊢
          split
          · exact finish_ge stop tk _ _ (by have := h.2.2.1; omega) hacc2
          · rename_i hok
            have hok' : ok = true := by simpa using hok
            exact ih r4 _ _ ⟨g1, by have := h.2.2.1; omega, g2, fun _ => g3 hok'⟩ hacc2
        · exact go r2 ps acc h hacc
      · exact go r ps acc h hacc
  · exact go r ps acc h hacc

/-- **Everything `collectTextNodes` appends lies at or after `lo`.** -/
theorem collect_ge (hc : Ctx src is) (hinl : ∀ t ∈ is, inlOK t = true) {lo : Nat} :
    ∀ f : Nat, CollGE lo src is ext stop tk esc f := by
  intro f
  induction f with
  | zero => intro r ps acc _ hacc; rw [collectTextNodes.eq_1]; exact hacc
  | succ f ih =>
    intro r ps acc h hacc
    rw [collectTextNodes.eq_2]
    split
    · exact treesGE_ite _ hacc (fun _ => treeGE_mkInline _ _ _ _ (by have := h.2.1; omega) (by have := h.2.1; omega))
    · rw [currentNode_eq hc h.1]
      simp only []
      cases hs : r.spans with
      | nil =>
        simp only [List.head?_nil]
        exact collectStep_ge ext stop tk esc hc f ih _ r ps acc h hacc
      | cons cn rest =>
        simp only [List.head?_cons]
        split
        · rename_i hind
          obtain ⟨s1, s2⟩ := ri_skipNode (lo := lo) hc cn f r h.1 h.2.2.1
          apply ih _ _ _ ⟨s1, s2, s2, fun hh => absurd hh (Nat.lt_irrefl _)⟩
          apply treesGE_snoc
          · exact treesGE_ite _ hacc (fun hgt => treeGE_mkInline _ _ _ _ (by have := h.2.1; omega) (h.2.2.2 hgt))
          · -- the Indent node: one byte, at the reader's position
            have hmem : cn ∈ is := h.1.head_mem hs
            obtain ⟨n1, n2⟩ := h.1.norm cn rest hs
            have hone := (hc.ok cn hmem).2.2.1 hind
            have hin := hinl cn hmem
            obtain ⟨l, kids⟩ := cn
            simp only [inlOK, Tree.label, treeGE, Bool.and_eq_true, decide_eq_true_eq] at hin n1 n2 hone ⊢
            have hlo := h.2.2.1
            refine ⟨⟨by omega, by omega⟩, ?_⟩
            exact treesGE_mono (by omega) kids hin.2
        · exact collectStep_ge ext stop tk esc hc f ih _ r ps acc h hacc

/-- The form used by the paragraph hook: a fresh reader at `p`. -/
theorem collect_ge_new (hc : Ctx src is) (hinl : ∀ t ∈ is, inlOK t = true) (p : Nat) :
    treesGE (p : Int) (collectTextNodes ext src stop tk esc (rdFuel src is) (newReader is p) p []) = true := by
  obtain ⟨f, hf⟩ : ∃ f, rdFuel src is = f + 1 := ⟨rdFuel src is - 1, by unfold rdFuel; omega⟩
  have norm1 : ∀ (r : Rd) (ps : Nat) (acc : List Tree),
      collectTextNodes ext src stop tk esc (f + 1) r ps acc =
        collectTextNodes ext src stop tk esc (f + 1) r.currentNode.2 ps acc := by
    intro r ps acc
    rw [collectTextNodes, collectTextNodes, currentNode_idem, (currentNode_pos r).1]
  rw [hf, norm1]
  have hn := new_norm (X := src) (k := src.length) (is := is) p
  rw [List.take_length] at hn
  have hpos : (newReader is p).currentNode.2.pos = p := (currentNode_pos (newReader is p)).1
  rcases hn with hj | hd
  · exact collect_ge ext stop tk esc hc hinl (f + 1) _ p [] ⟨hj.1, Nat.le_refl _, by rw [hpos]; exact Nat.le_refl _,
      fun hh => by rw [hpos] at hh; exact absurd hh (Nat.lt_irrefl _)⟩ rfl
  · rw [collect_dead ext src stop tk esc f _ hd]
    exact finish_ge stop tk p [] (Nat.le_refl _) rfl

end

end CM.Proofs.EolX
