import CM.Proofs.ShapesStream
import CM.Proofs.BlocksGrammarSpec
import CM.Proofs.Recognize1
/-
C13, block half — from the invariant `Sh` on a closed block to the executable statement `Spec.shapeAt` at every block
node of the exported tree `pbToTree b`.
-/
namespace CM.Proofs.Shp
open CM CM.Model CM.Gen CM.Proofs.BG

/-! ### runs and `takeWhile` -/

/-- A list that begins with exactly `n` copies of `ch` (the next element, if the window `m` goes on, is another one). -/
theorem takeWhile_run (l : Bytes) (n m : Nat) (ch : UInt8) (h : l.take n = List.replicate n ch) (hnm : n ≤ m)
    (hx : n = m ∨ ∃ c, l[n]? = some c ∧ c ≠ ch) : ((l.take m).takeWhile (· == ch)).length = n := by
  have e1 : l.take m = List.replicate n ch ++ (l.drop n).take (m - n) := by
    rw [← h]
    conv => lhs; rw [← List.take_append_drop n (l.take m)]
    rw [List.take_take, Nat.min_eq_left hnm, List.drop_take]
  rw [e1, List.takeWhile_append_of_pos (by intro a ha; rw [List.mem_replicate] at ha; simp [ha.2])]
  have e2 : ((l.drop n).take (m - n)).takeWhile (· == ch) = [] := by
    rcases hx with rfl | ⟨c, hc, hne⟩
    · simp
    · have hd : l.drop n = c :: l.drop (n + 1) := by
        have hlt : n < l.length := by
          rcases Nat.lt_or_ge n l.length with h' | h'
          · exact h'
          · rw [List.getElem?_eq_none h'] at hc; cases hc
        rw [List.getElem?_eq_getElem hlt] at hc
        cases hc
        exact List.drop_eq_getElem_cons hlt
      rw [hd]
      cases hmn : m - n with
      | zero => simp
      | succ k =>
        rw [List.take_succ_cons, List.takeWhile_cons]
        have : (c == ch) = false := by simpa using hne
        rw [this]
        simp
  rw [e2]
  simp

/-! ### one block -/

theorem slice_pb (src : Bytes) (l : PLabel) (bs : List PB) (is : List Tree) (h0 : 0 ≤ l.start) (h1 : l.start ≤ l.stop) :
    Spec.T.slice src (pbToTree (.mk l bs is)) = sliceI src l.start l.stop := by
  unfold Spec.T.slice sliceI
  have e1 : (pbToTree (.mk l bs is)).label.start = l.start := rfl
  have e2 : (pbToTree (.mk l bs is)).label.stop = l.stop := rfl
  rw [e1, e2]
  simp [h0, h1]

/-- The run rule gives the `takeWhile` clause of the specification. -/
theorem runOK_takeWhile {src : Bytes} {e : Int} {l : PLabel} {ch : UInt8} (hcl : 0 ≤ l.stop) (h : runOK src e l ch = true) :
    0 ≤ l.start ∧ l.start + l.n ≤ l.stop ∧ ((sliceI src l.start l.stop).takeWhile (· == ch)).length = l.n.toNat := by
  unfold runOK at h
  have hns : ¬ l.stop < 0 := by omega
  simp only [Bool.and_eq_true, decide_eq_true_eq, hns, if_false, endOf] at h
  obtain ⟨⟨⟨⟨h0, hn⟩, hr⟩, hle⟩, hx⟩ := h
  refine ⟨h0, hle, ?_⟩
  unfold sliceI
  apply takeWhile_run
  · rw [runAt_iff] at hr; exact hr
  · omega
  · simp only [Bool.or_eq_true, beq_iff_eq] at hx
    rcases hx with hx | hx
    · left; omega
    · right
      rw [List.getElem?_drop]
      cases hg : src[l.start.toNat + l.n.toNat]? with
      | none => rw [hg] at hx; cases hx
      | some c =>
        rw [hg] at hx
        exact ⟨c, rfl, by simpa using hx⟩

/-- **The rule of the invariant at a closed block gives `Spec.shapeAt` at the exported node.** -/
theorem shapeAt_of_shapeOK {setx : Bool} {src : Bytes} {e : Int} (l : PLabel) (bs : List PB) (is : List Tree)
    (hcl : 0 ≤ l.stop) (h : shapeOK setx src e l = true) (hx : setx = true ∨ l.kind ≠ BK.setextHeading)
    (hsp : 0 ≤ l.start ∧ l.start ≤ l.stop) :
    Spec.shapeAt src (pbToTree (.mk l bs is)) = true := by
  have eb : (pbToTree (.mk l bs is)).label.isBlock = true := rfl
  have ek : (pbToTree (.mk l bs is)).label.kind = l.kind := rfl
  have en : (pbToTree (.mk l bs is)).label.n = l.n := rfl
  have ec : (pbToTree (.mk l bs is)).label.char = l.char := rfl
  have hns : ¬ l.stop < 0 := by omega
  unfold Spec.shapeAt
  simp only [eb, ek, en, ec, if_true]
  unfold shapeOK at h
  by_cases k1 : l.kind = BK.blockQuote
  · rw [k1] at h ⊢
    simp only [BK.blockQuote, BK.atxHeading, BK.setextHeading, BK.fencedCode, BK.listMarker] at h ⊢
    simp only [beq_self_eq_true, if_true, Bool.and_eq_true, decide_eq_true_eq, beq_iff_eq, endOf, hns, if_false] at h
    obtain ⟨⟨h0, hq⟩, hle⟩ := h
    rw [slice_pb src l bs is h0 (by omega)]
    unfold sliceI
    have hpos : (l.stop - l.start).toNat ≠ 0 := by omega
    simp [List.head?_take, hpos, List.head?_drop, hq]
  by_cases k2 : l.kind = BK.atxHeading
  · rw [k2] at h ⊢
    simp only [BK.blockQuote, BK.atxHeading, BK.setextHeading, BK.fencedCode, BK.listMarker] at h ⊢
    have h'' : (decide (1 ≤ l.n) && runOK src e l 0x23) = true := by simpa using h
    rw [Bool.and_eq_true, decide_eq_true_eq] at h''
    have h' := h''.2
    have h1 := h''.1
    obtain ⟨h0, hle, htw⟩ := runOK_takeWhile hcl h'
    rw [slice_pb src l bs is h0 (by omega)]
    simpa using htw
  by_cases k3 : l.kind = BK.fencedCode
  · rw [k3] at h ⊢
    simp only [BK.blockQuote, BK.atxHeading, BK.setextHeading, BK.fencedCode, BK.listMarker] at h ⊢
    have h' : (decide (3 ≤ l.n) && (l.char == 0x60 || l.char == 0x7E) && runOK src e l l.char) = true := by simpa using h
    simp only [Bool.and_eq_true, decide_eq_true_eq] at h'
    obtain ⟨⟨h3, hch⟩, hr⟩ := h'
    obtain ⟨h0, hle, htw⟩ := runOK_takeWhile hcl hr
    rw [slice_pb src l bs is h0 (by omega)]
    simp [hch, h3, htw]
  by_cases k4 : l.kind = BK.listMarker
  · rw [k4] at h ⊢
    simp only [BK.blockQuote, BK.atxHeading, BK.setextHeading, BK.fencedCode, BK.listMarker] at h ⊢
    have h' : (closedIn src l && markerText (sliceI src l.start l.stop)) = true := by simpa using h
    rw [Bool.and_eq_true, closedIn_iff] at h'
    rw [slice_pb src l bs is h'.1.1 h'.1.2.1]
    have := h'.2
    unfold markerText at this
    rw [genDigit_eq] at this
    simpa using this
  by_cases k5 : l.kind = BK.setextHeading
  · rcases hx with hx | hx
    · subst hx
      have hso := setextOK_iff.mp (shapeOK_setext k5 h)
      rw [k5]
      simp only [BK.blockQuote, BK.atxHeading, BK.setextHeading, BK.fencedCode, BK.listMarker]
      rw [slice_pb src l bs is hsp.1 hsp.2]
      have hsl : sliceI src l.start l.stop = (src.take l.stop.toNat).drop l.start.toNat := by
        unfold sliceI
        rw [List.drop_take]
        congr 1
        omega
      have hlt : l.start.toNat < bodyLen src l.stop := by have := hso.2.2.2; omega
      have hbody : (Spec.dropRight Spec.isWs (sliceI src l.start l.stop)).getLast? = some (ulChar l.n) := by
        rw [hsl, dropRight_drop _ _ _ (by unfold bodyLen at hlt; omega), getLast?_drop_of_lt _ _ (by unfold bodyLen at hlt; exact hlt)]
        exact hso.2.2.1
      unfold ulChar at hbody
      simpa using hbody
    · exact absurd k5 hx
  · have e1 : (l.kind == BK.atxHeading) = false := by simpa using k2
    have e2 : (l.kind == BK.setextHeading) = false := by simpa using k5
    have e3 : (l.kind == BK.fencedCode) = false := by simpa using k3
    have e4 : (l.kind == BK.blockQuote) = false := by simpa using k1
    have e5 : (l.kind == BK.listMarker) = false := by simpa using k4
    simp [e1, e2, e3, e4, e5]

/-! ### the inline children of block-phase trees are not blocks -/

/-- No node of the tree is flagged as a block. -/
def NoBlock (u : Tree) : Prop := ∀ t ∈ Spec.T.nodes u, t.label.isBlock = false

theorem noBlock_of_parts (u : Tree) (h1 : u.label.isBlock = false) (h2 : ∀ v ∈ u.children, NoBlock v) : NoBlock u := by
  intro t ht
  rw [nodes_eq, List.mem_cons] at ht
  rcases ht with rfl | ht
  · exact h1
  · obtain ⟨v, hv, htv⟩ := mem_nodesL ht
    exact h2 v hv t htv

theorem noBlock_inl (K : List Nat) (u : Tree) (h : inl K u = true) : NoBlock u := by
  unfold inl at h
  simp only [Bool.and_eq_true, Bool.not_eq_true', List.isEmpty_iff] at h
  apply noBlock_of_parts u h.1.1
  intro v hv
  rw [h.2] at hv
  cases hv

theorem noBlock_all (K : List Nat) (is : List Tree) (h : is.all (inl K) = true) : ∀ u ∈ is, NoBlock u := by
  intro u hu
  rw [List.all_eq_true] at h
  exact noBlock_inl K u (h u hu)

theorem noBlock_isInl_all (k : Nat) (K : List Nat) (u : Tree) (h1 : isInl k u = true) (h2 : u.children.all (inl K) = true) :
    NoBlock u := by
  unfold isInl at h1
  simp only [Bool.and_eq_true, Bool.not_eq_true'] at h1
  exact noBlock_of_parts u h1.1 (noBlock_all K _ h2)

theorem noBlock_info (u : Tree) (h : infoOK u = true) : NoBlock u := by
  unfold infoOK at h
  simp only [Bool.and_eq_true, Bool.not_eq_true'] at h
  exact noBlock_of_parts u h.1.1 (noBlock_all _ _ h.2)

theorem noBlock_label (u : Tree) (h : labelOK u = true) : NoBlock u := by
  unfold labelOK at h
  rw [Bool.and_eq_true] at h
  exact noBlock_isInl_all _ _ u h.1 h.2

theorem noBlock_dest (k : Nat) (u : Tree) (h : destOK k u = true) : NoBlock u := by
  unfold destOK at h
  rw [Bool.and_eq_true] at h
  exact noBlock_isInl_all _ _ u h.1 h.2

/-- The inline children the block grammar allows have no node flagged as a block. -/
theorem noBlock_inlines {l : PLabel} {is : List Tree} (h : inlinesOK l is = true) : ∀ u ∈ is, NoBlock u := by
  rcases inlinesOK_cases h with ⟨_, rfl⟩ | ⟨_, h⟩ | ⟨_, h⟩ | ⟨_, h⟩ | ⟨_, h⟩ | ⟨_, h⟩
  · intro u hu; cases hu
  · exact noBlock_all _ _ h
  · exact noBlock_all _ _ h
  · cases is with
    | nil => intro u hu; cases hu
    | cons c rest =>
      simp only [fencedKids, Bool.and_eq_true, Bool.or_eq_true] at h
      intro u hu
      rcases List.mem_cons.mp hu with rfl | hu
      · rcases h.1 with h1 | h1
        · exact noBlock_info _ h1
        · exact noBlock_inl _ _ h1
      · exact noBlock_all _ _ h.2 u hu
  · exact noBlock_all _ _ h
  · match is, h with
    | [a, b], h =>
      simp only [refDefKids, Bool.and_eq_true] at h
      intro u hu
      simp only [List.mem_cons, List.mem_nil_iff, or_false] at hu
      rcases hu with rfl | rfl
      · exact noBlock_label _ h.1
      · exact noBlock_dest _ _ h.2
    | [a, b, c], h =>
      simp only [refDefKids, Bool.and_eq_true] at h
      intro u hu
      simp only [List.mem_cons, List.mem_nil_iff, or_false] at hu
      rcases hu with rfl | rfl | rfl
      · exact noBlock_label _ h.1.1
      · exact noBlock_dest _ _ h.1.2
      · exact noBlock_dest _ _ h.2

/-! ### every block node of a closed block -/

/-- **Every block node of the exported tree of a closed block that satisfies the invariant has the shape of its
    construct** (setext headings only if `setx`). -/
theorem PBSpansL_mem0 {Q : BSp.ParaPred} {po : Bool} {hi : Int} : ∀ {bs : List PB} {lo : Int}, 0 ≤ lo →
    BSp.PBSpansL Q po lo hi bs → ∀ c ∈ bs, ∃ lo', 0 ≤ lo' ∧ BSp.PBSpans Q lo' hi c := by
  intro bs
  induction bs with
  | nil => intro _ _ _ c hc; cases hc
  | cons b rest ih =>
    intro lo h0 h c hc
    rw [BSp.PBSpansL_cons] at h
    rcases List.mem_cons.mp hc with rfl | hc
    · exact ⟨lo, h0, h.1⟩
    · have hbc : 0 ≤ b.label.stop := by
        cases ho : b.isOpen
        · exact (BSp.isOpen_false_iff b).mp ho
        · have := (h.2.1 ho).1
          rw [this] at hc; cases hc
      exact ih hbc h.2.2 c hc

theorem Sh_shapeAt {setx : Bool} {src : Bytes} {Q : BSp.ParaPred} : ∀ (b : PB) (lo e slo shi : Int), Sh setx src lo e b → 0 ≤ b.label.stop →
    PBGrammar b → 0 ≤ slo → BSp.PBSpans Q slo shi b →
    ∀ t ∈ Spec.T.nodes (pbToTree b), t.label.isBlock = true → (setx = true ∨ t.label.kind ≠ BK.setextHeading) →
      Spec.shapeAt src t = true := by
  apply PB.ind
  intro l bs is ih lo e slo shi h hcl hg hslo hsp t ht hb hx
  have hspb : slo ≤ l.start ∧ l.start ≤ l.stop ∧ l.stop ≤ shi := BSp.PBSpans_closed_bounds hsp hcl
  have hcl' : 0 ≤ l.stop := hcl
  obtain ⟨hloc, hgs⟩ := (PBGrammar_mk l bs is).1 hg
  obtain ⟨hn, hcs⟩ := Sh_mk.mp h
  rw [nodes_eq, List.mem_cons] at ht
  rcases ht with rfl | ht
  · have hk := ((kindOK_iff.mp (nodeOK_iff.mp hn).2.2.2).1)
    exact shapeAt_of_shapeOK l bs is hcl' hk hx ⟨by have := hspb.1; omega, hspb.2.1⟩
  · obtain ⟨v, hv, htv⟩ := mem_nodesL ht
    rw [pbToTree_children] at hv
    split at hv
    · have := noBlock_inlines ((localOK_iff l bs is).1 hloc).2 v hv t htv
      rw [this] at hb; cases hb
    · rw [List.mem_map] at hv
      obtain ⟨c, hc, rfl⟩ := hv
      obtain ⟨lo', _, _, hsc, hop⟩ := ShL_mem hcs c hc
      have hcc : 0 ≤ c.label.stop := by
        rcases Int.lt_or_le c.label.stop 0 with h' | h'
        · have := hop ((isOpen_iff c).2 h')
          have hns : ¬ l.stop < 0 := by omega
          simp [hns] at this
        · exact h'
      obtain ⟨slo', hslo', hspc⟩ := PBSpansL_mem0 (by have := hspb.1; omega) ((BSp.PBSpans_mk.mp hsp).2.2.2.2.1) c hc
      exact ih c hc lo' (endOf e l) slo' _ hsc hcc (hgs c hc) hslo' hspc t htv hb hx

end CM.Proofs.Shp
