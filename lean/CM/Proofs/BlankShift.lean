import CM.Proofs.Stream
/-
C14 (b), part 1: the stream machine does not look at `offset` / `lineno`.

`shiftBP d m q` is `q` with `offset` increased by `d` and `lineno` by `m`. On the in-memory parser (`err` set, so
`readline` never reads and never reports `tooLarge`, the only place where `lineno` is looked at) every function of the
machine commutes with `shiftBP`: the roots delivered are shifted (`shiftRoot`), the outcome is the same, for EVERY
line parser.
-/
namespace CM.Proofs
open CM CM.Model CM.Gen

/-- `q` with the offset increased by `d` and the line number by `m`. -/
def shiftBP (d m : Nat) (q : BP) : BP := { q with offset := q.offset + d, lineno := q.lineno + m }

/-- A root with start/end offsets increased by `d` and the start line by `m`; same `source`, same `block`. -/
def shiftRoot (d m : Nat) (r : Root) : Root :=
  { r with startOffset := r.startOffset + d, endOffset := r.endOffset + d, startLine := r.startLine + m }

def shiftOut (d m : Nat) : NBOut → NBOut
  | .block r => .block (shiftRoot d m r)
  | o => o

/-- The result of `drain`, shifted. -/
def shiftRun (d m : Nat) (r : List Root × NBOut × BP) : List Root × NBOut × BP :=
  (r.1.map (shiftRoot d m), shiftOut d m r.2.1, shiftBP d m r.2.2)

@[simp] theorem shiftBP_buf (d m q) : (shiftBP d m q).buf = q.buf := rfl
@[simp] theorem shiftBP_i (d m q) : (shiftBP d m q).i = q.i := rfl
@[simp] theorem shiftBP_err (d m q) : (shiftBP d m q).err = q.err := rfl
@[simp] theorem shiftBP_rd (d m q) : (shiftBP d m q).rd = q.rd := rfl
@[simp] theorem shiftBP_blocks (d m q) : (shiftBP d m q).blocks = q.blocks := rfl
@[simp] theorem shiftBP_panic (d m q) : (shiftBP d m q).panic = q.panic := rfl
@[simp] theorem shiftBP_offset (d m q) : (shiftBP d m q).offset = q.offset + d := rfl
@[simp] theorem shiftBP_lineno (d m q) : (shiftBP d m q).lineno = q.lineno + m := rfl

theorem shiftBP_zero (q : BP) : shiftBP 0 0 q = q := rfl

theorem shiftBP_shiftBP (d m d' m' : Nat) (q : BP) : shiftBP d m (shiftBP d' m' q) = shiftBP (d' + d) (m' + m) q := by
  simp [shiftBP, Nat.add_assoc]

theorem bpFuel_shiftBP (d m q) : bpFuel (shiftBP d m q) = bpFuel q := rfl

/-! ### `readline` -/

theorem readline_shift (d m : Nat) (f : Nat) (q : BP) (herr : q.err.isSome = true) :
    readline f (shiftBP d m q) = ((readline f q).1, shiftBP d m (readline f q).2) := by
  cases f with
  | zero => rfl
  | succ f =>
    obtain ⟨e, he⟩ := eolEndB_true q.buf q.i
    have h1 : eolEnd? q = some e := by rw [eolEnd?_eq, herr, he]
    have h2 : eolEnd? (shiftBP d m q) = some e := by rw [eolEnd?_eq]; simpa [herr] using he
    rw [readline_some f h1, readline_some f h2]
    rfl

theorem readline_mem_err (f : Nat) (q : BP) (herr : q.err.isSome = true) : (readline f q).2.err = q.err := by
  cases f with
  | zero => rfl
  | succ f =>
    obtain ⟨e, he, hr⟩ := readline_mem herr f
    rw [hr]

/-! ### `makeRoot` -/

theorem rootOf_shift (d m : Nat) (q : BP) (k : PB) : rootOf (shiftBP d m q) k = shiftRoot d m (rootOf q k) := by
  simp only [rootOf, shiftRoot, shiftBP]
  congr 1
  omega

theorem afterRoot_shift (d m : Nat) (q : BP) (k : PB) (rest : List PB) :
    afterRoot (shiftBP d m q) k rest = shiftBP d m (afterRoot q k rest) := by
  simp only [afterRoot, shiftBP]
  congr 1 <;> omega

/-- `makeRoot` copies `offset` and `lineno` into the root and adds to them. -/
theorem makeRoot_shift (d m : Nat) (q : BP) (kids : List PB) :
    makeRoot (shiftBP d m q) kids = (makeRoot q kids).map fun rp => (shiftRoot d m rp.1, shiftBP d m rp.2) := by
  cases kids with
  | nil => rfl
  | cons k rest =>
    cases ho : k.isOpen with
    | true => rw [makeRoot_open _ _ _ ho, makeRoot_open _ _ _ ho]; rfl
    | false =>
      rw [makeRoot_closed _ _ _ ho, makeRoot_closed _ _ _ ho, rootOf_shift, afterRoot_shift]
      rfl

/-! ### The blank-line loop -/

/-- Shifted result of `skipBlank`. -/
def shiftSkip (d m : Nat) (r : Option BP × BP) : Option BP × BP := (r.1.map (shiftBP d m), shiftBP d m r.2)

theorem skipBlank_shift (d m : Nat) : ∀ (f : Nat) (q : BP), q.err.isSome = true →
    skipBlank f (shiftBP d m q) = shiftSkip d m (skipBlank f q) := by
  intro f
  induction f with
  | zero => intro q _; rfl
  | succ f ih =>
    intro q herr
    obtain ⟨e, he, hr⟩ := readline_site_mem herr
    have hr' := readline_shift d m (q.rd.data.length + q.rd.sched.length + 2) q herr
    rw [hr] at hr'
    simp only [skipBlank]
    simp only [shiftBP_rd, hr', hr]
    by_cases hlt : q.i < e
    · simp only [hlt, decide_true, Bool.not_true, Bool.false_eq_true, if_false, shiftBP_buf, shiftBP_i]
      by_cases hb : isBlankLine (q.buf.take e) = true
      · simp only [hb, Bool.not_true, Bool.false_eq_true, if_false]
        have := ih { q with offset := q.offset + unpaddedNullLength (q.buf.take e), lineno := q.lineno + 1,
                            buf := q.buf.drop e, i := 0 } herr
        rw [← this]
        congr 1
        simp only [shiftBP]
        congr 1 <;> omega
      · simp only [hb]
        rfl
    · simp only [hlt, decide_false, Bool.not_false, if_true]
      rfl

/-! ### The per-line loop -/

/-- Shifted result of `parseLines` / `nextBlock`. -/
def shiftRes (d m : Nat) (r : NBOut × BP) : NBOut × BP := (shiftOut d m r.1, shiftBP d m r.2)

section
variable (L : LineParserI)

theorem parseLines_shift (d m : Nat) : ∀ (f : Nat) (lp : L.σ) (ls : Nat) (q : BP), q.err.isSome = true →
    parseLines L f lp ls (shiftBP d m q) = shiftRes d m (parseLines L f lp ls q) := by
  intro f
  induction f with
  | zero => intro lp ls q _; rfl
  | succ f ih =>
    intro lp ls q herr
    cases hpan : L.panicked (L.line lp (q.buf.take q.i) ls) with
    | some msg =>
      rw [parseLines_panicked L hpan, parseLines_panicked L (p := shiftBP d m q) hpan]; rfl
    | none =>
      cases hmr : makeRoot q (L.kids (L.line lp (q.buf.take q.i) ls)) with
      | some rp =>
        have hmr' : makeRoot (shiftBP d m q) (L.kids (L.line lp ((shiftBP d m q).buf.take (shiftBP d m q).i) ls)) =
            some (shiftRoot d m rp.1, shiftBP d m rp.2) := by
          rw [makeRoot_shift]; simp only [shiftBP_buf, shiftBP_i, hmr]; rfl
        rw [parseLines_root L hpan hmr, parseLines_root L (p := shiftBP d m q) hpan hmr']
        rfl
      | none =>
        have hmr' : makeRoot (shiftBP d m q) (L.kids (L.line lp ((shiftBP d m q).buf.take (shiftBP d m q).i) ls)) =
            none := by
          rw [makeRoot_shift]; simp only [shiftBP_buf, shiftBP_i, hmr]; rfl
        rw [parseLines_next L hpan hmr, parseLines_next L (p := shiftBP d m q) hpan hmr']
        simp only [shiftBP_rd, shiftBP_buf, shiftBP_i]
        rw [readline_shift d m _ q herr]
        exact ih _ _ _ (by rw [readline_mem_err _ _ herr]; exact herr)

/-! ### `NextBlock` and `drain` -/

theorem freshLine_shift (d m : Nat) (q : BP) : freshLine (shiftBP d m q) = shiftBP d m (freshLine q) := by
  simp only [freshLine, shiftBP]
  congr 1 <;> omega

theorem afterSkip_shift (d m : Nat) (fp : Nat) (r : Option BP × BP)
    (h1 : ∀ q, r.1 = some q → q.err.isSome = true) :
    afterSkip L fp (shiftSkip d m r) = shiftRes d m (afterSkip L fp r) := by
  rcases r with ⟨_ | q, q2⟩
  · simp only [afterSkip, shiftSkip, Option.map_none, shiftBP_panic, shiftBP_err]
    cases q2.panic <;> rfl
  · simp only [afterSkip, shiftSkip, Option.map_some, shiftBP_blocks]
    exact parseLines_shift L d m fp _ 0 q (h1 q rfl)

theorem skipBlank_some_err {f : Nat} {q q' : BP} (herr : q.err.isSome = true)
    (h : (skipBlank f q).1 = some q') : q'.err.isSome = true := by
  induction f generalizing q with
  | zero => simp [skipBlank] at h
  | succ f ih =>
    obtain ⟨e, he, hr⟩ := readline_site_mem herr
    simp only [skipBlank, hr] at h
    by_cases hlt : q.i < e
    · simp only [hlt, decide_true, Bool.not_true, Bool.false_eq_true, if_false] at h
      by_cases hb : isBlankLine (q.buf.take e) = true
      · simp only [hb, Bool.not_true, Bool.false_eq_true, if_false] at h
        exact ih (q := { q with offset := q.offset + unpaddedNullLength (q.buf.take e), lineno := q.lineno + 1,
                                buf := q.buf.drop e, i := 0 }) herr h
      · simp only [hb] at h
        simp at h
        subst h
        exact herr
    · simp only [hlt, decide_false, Bool.not_false, if_true] at h
      cases h

theorem nextBlockF_shift (d m : Nat) (fs fp : Nat) (q : BP) (herr : q.err.isSome = true) :
    nextBlockF L fs fp (shiftBP d m q) = shiftRes d m (nextBlockF L fs fp q) := by
  cases hmr : makeRoot q q.blocks with
  | some rp =>
    have hmr' : makeRoot (shiftBP d m q) (shiftBP d m q).blocks = some (shiftRoot d m rp.1, shiftBP d m rp.2) := by
      rw [makeRoot_shift]; simp only [shiftBP_blocks, hmr]; rfl
    rw [nextBlockF_root L hmr, nextBlockF_root L hmr']
    rfl
  | none =>
    have hmr' : makeRoot (shiftBP d m q) (shiftBP d m q).blocks = none := by
      rw [makeRoot_shift]; simp only [shiftBP_blocks, hmr]; rfl
    by_cases hb : q.blocks.length > 0
    · rw [nextBlockF_pending L hmr hb, nextBlockF_pending L hmr' hb]
      simp only [shiftBP_rd, shiftBP_i]
      rw [readline_shift d m _ q herr]
      simp only [shiftBP_blocks]
      exact parseLines_shift L d m fp _ _ _ (by rw [readline_mem_err _ _ herr]; exact herr)
    · rw [nextBlockF_fresh L hmr hb, nextBlockF_fresh L hmr' hb, freshLine_shift,
        skipBlank_shift d m fs (freshLine q) herr]
      exact afterSkip_shift L d m fp _ (fun q' h => skipBlank_some_err (q := freshLine q) herr h)

theorem nextBlock_shift (d m : Nat) (q : BP) (herr : q.err.isSome = true) :
    nextBlock L (shiftBP d m q) = shiftRes d m (nextBlock L q) := by
  rw [nextBlock_eq_F, nextBlock_eq_F, bpFuel_shiftBP]
  exact nextBlockF_shift L d m _ _ q herr

/-- The whole run from a shifted state: shifted roots, same outcome, shifted final state. -/
theorem drain_shift (d m : Nat) : ∀ (f : Nat) (q : BP) (acc : List Root), q.err.isSome = true →
    drain L f (shiftBP d m q) (acc.map (shiftRoot d m)) = shiftRun d m (drain L f q acc) := by
  intro f
  induction f with
  | zero =>
    intro q acc _
    simp [drain, shiftRun, shiftOut, List.map_reverse]
  | succ f ih =>
    intro q acc herr
    have hn := nextBlock_shift L d m q herr
    have herr' := (nextBlock_sticky L q herr).1
    rcases hq : nextBlock L q with ⟨o, q'⟩
    rw [hq] at hn herr'
    cases o with
    | block r =>
      simp only [drain, hn, hq, shiftRes, shiftOut]
      have := ih q' (r :: acc) herr'
      simpa using this
    | err e =>
      simp only [drain, hn, hq, shiftRes, shiftOut]
      simp [shiftRun, shiftOut, List.map_reverse]
    | panic msg =>
      simp only [drain, hn, hq, shiftRes, shiftOut]
      simp [shiftRun, shiftOut, List.map_reverse]
end

end CM.Proofs
