import CM.Proofs.CoverageInfo
import CM.Proofs.BlocksGrammar
import CM.Proofs.BlocksSpansStream
/-
C03, part A for the trees of the block phase: **no byte is covered by more than one leaf of `pbToTree b`**, for a closed
block `b` with
  * `PBSpans QT 0 n b` — the span discipline of C02 for blocks and their inline children (`CM/Proofs/BlocksSpans*`),
  * `WF QT b` — in particular the span discipline *below* the inline children (the text pieces of an info string, of a
    link label / destination / title), which `PBSpans` does not look at,
  * `PBGrammar b` — list markers (and nothing else that is a leaf) have no children (`CM/Proofs/BG*`, unconditional).
`roots_no_duplication`: for the roots delivered by `drain`, under the hypothesis of `drain_spans` plus `WF QT` of the
delivered blocks (a Boolean, `wfB QT`).
-/
namespace CM.Proofs.Cov
open CM CM.Model CM.Gen CM.Spec CM.Spec.T CM.Proofs.BT CM.Proofs.BSp CM.Proofs.BG

/-! ### below an inline child -/

mutual
theorem nodes_inside : ∀ t : Tree, (nodes t).all childrenInside = true → ∀ u ∈ nodes t, start t ≤ start u ∧ stop u ≤ stop t
  | .node l cs, h, u, hu => by
    rw [nodes_node, List.all_cons, Bool.and_eq_true] at h
    rw [nodes_node, List.mem_cons] at hu
    rcases hu with rfl | hu
    · exact ⟨Int.le_refl _, Int.le_refl _⟩
    · obtain ⟨c, hc, h1, h2⟩ := nodesL_inside cs h.2 u hu
      have := h.1
      simp only [childrenInside, Tree.children, List.all_eq_true, Bool.and_eq_true, decide_eq_true_eq] at this
      have := this c hc
      exact ⟨by omega, by omega⟩
theorem nodesL_inside : ∀ cs : List Tree, (nodesL cs).all childrenInside = true → ∀ u ∈ nodesL cs,
    ∃ c ∈ cs, start c ≤ start u ∧ stop u ≤ stop c
  | [], _, u, hu => by rw [nodesL_nil] at hu; cases hu
  | c :: rest, h, u, hu => by
    rw [nodesL_cons, List.all_append, Bool.and_eq_true] at h
    rw [nodesL_cons, List.mem_append] at hu
    rcases hu with hu | hu
    · exact ⟨c, List.mem_cons_self, nodes_inside c h.1 u hu⟩
    · obtain ⟨c', hc', h'⟩ := nodesL_inside rest h.2 u hu
      exact ⟨c', List.mem_cons_of_mem _ hc', h'⟩
end

/-- Every node of a well-formed inline child satisfies the per-node clause of `Spec.spansOK`. -/
theorem inl_nodes_ok (n : Nat) (t : Tree) (h : inlOK t = true) (hn : stop t ≤ n) : (nodes t).all (nodeOK n) = true := by
  obtain ⟨h0, h1, hd⟩ := (inlOK_iff t).mp h
  simp only [deepOK, Bool.and_eq_true, List.all_eq_true] at hd
  obtain ⟨hv, hs⟩ := hd
  have hci : (nodes t).all childrenInside = true := by
    rw [List.all_eq_true]; intro u hu
    exact (hs u hu).1
  rw [List.all_eq_true]
  intro u hu
  have hin := nodes_inside t hci u hu
  have hsu := hs u hu
  have hval : start u ≤ stop u := by
    obtain ⟨l, cs⟩ := t
    rw [nodes_node, List.mem_cons] at hu
    rcases hu with rfl | hu
    · exact h1
    · have := hv u hu
      simpa using this
  simp only [nodeOK, spanValid, Bool.and_eq_true, decide_eq_true_eq]
  exact ⟨⟨⟨⟨by omega, hval⟩, by omega⟩, hsu.1⟩, hsu.2⟩

theorem nodesL_all_of {P : Tree → Bool} : ∀ ts : List Tree, (∀ t ∈ ts, (nodes t).all P = true) → (nodesL ts).all P = true := by
  intro ts
  induction ts with
  | nil => intro _; rw [nodesL_nil]; rfl
  | cons t rest ih =>
    intro h
    rw [nodesL_cons, List.all_append, Bool.and_eq_true]
    exact ⟨h t List.mem_cons_self, ih (fun u hu => h u (List.mem_cons_of_mem _ hu))⟩

/-! ### blocks -/

theorem pbToTree_start (b : PB) : start (pbToTree b) = b.label.start := by
  obtain ⟨l, bs, is⟩ := b; rw [pbToTree]; rfl
theorem pbToTree_stop (b : PB) : stop (pbToTree b) = b.label.stop := by
  obtain ⟨l, bs, is⟩ := b; rw [pbToTree]; rfl

mutual
/-- Every node of the tree of a closed block satisfies the per-node clause of `Spec.spansOK`. -/
theorem pb_nodes_ok (n : Nat) : ∀ (b : PB) (lo hi : Int), PBSpans QT lo hi b → 0 ≤ lo → hi ≤ n → 0 ≤ b.label.stop → WF QT b →
    (nodes (pbToTree b)).all (nodeOK n) = true
  | .mk l bs is, lo, hi, hs, hlo, hhi, hc, hw => by
    have hcl : 0 ≤ l.stop := hc
    rw [PBSpans_mk, endOf_closed hcl] at hs
    obtain ⟨a1, a2, a3, a4, a5, _⟩ := hs
    have hd : decide (l.stop < 0) = false := by simp; omega
    rw [hd] at a5
    have hwf := WF_mk.mp hw
    have hkids := pbs_nodes_ok n bs false l.start l.stop a5 (by omega) (by omega) (allClosed_of_false a5) hwf.2.2.2
    have hsib := inlsOK_sibs a4
    rw [pbToTree, nodes_node, List.all_cons, Bool.and_eq_true]
    constructor
    · -- the block itself
      show (spanValid n _ && childrenInside _ && siblingsOrdered _) = true
      rw [Bool.and_eq_true, Bool.and_eq_true]
      refine ⟨⟨?_, ?_⟩, ?_⟩
      · simp only [spanValid, Bool.and_eq_true, decide_eq_true_eq]
        show (0 ≤ l.start ∧ l.start ≤ l.stop) ∧ l.stop ≤ (n : Int)
        exact ⟨⟨by omega, a2⟩, by omega⟩
      · simp only [childrenInside, Tree.children, List.all_eq_true, Bool.and_eq_true, decide_eq_true_eq]
        intro c hcm
        show l.start ≤ start c ∧ stop c ≤ l.stop
        split at hcm
        · have := hsib.2 c hcm
          exact ⟨this.1, this.2.2⟩
        · rw [pbsToTrees_eq_map, List.mem_map] at hcm
          obtain ⟨b, hb, rfl⟩ := hcm
          rw [pbToTree_start, pbToTree_stop]
          exact hkids.2.2 b hb
      · show siblingsOrdered (if bs.isEmpty then is else pbToTree.pbsToTrees bs) = true
        split
        · exact hsib.1
        · rw [pbsToTrees_eq_map]; exact hkids.2.1
    · split
      · apply nodesL_all_of
        intro t ht
        have := hsib.2 t ht
        exact inl_nodes_ok n t (hwf.2.1.1 t ht) (by omega)
      · rw [pbsToTrees_eq_map]; exact hkids.1
theorem pbs_nodes_ok (n : Nat) : ∀ (bs : List PB) (po : Bool) (lo hi : Int), PBSpansL QT po lo hi bs → 0 ≤ lo → hi ≤ n →
    allClosed bs → (∀ b ∈ bs, WF QT b) →
    (nodesL (bs.map pbToTree)).all (nodeOK n) = true ∧ siblingsOrdered (bs.map pbToTree) = true ∧
    ∀ b ∈ bs, lo ≤ b.label.start ∧ b.label.stop ≤ hi
  | [], _, _, _, _, _, _, _, _ => by
    refine ⟨by rw [List.map_nil, nodesL_nil]; rfl, rfl, fun _ h => by cases h⟩
  | b :: rest, po, lo, hi, hs, hlo, hhi, hc, hw => by
    rw [PBSpansL_cons] at hs
    obtain ⟨h1, _, h3⟩ := hs
    have hbc : 0 ≤ b.label.stop := hc b List.mem_cons_self
    have hb := PBSpans_closed_bounds h1 hbc
    have r1 := pb_nodes_ok n b lo hi h1 hlo hhi hbc (hw b List.mem_cons_self)
    have r2 := pbs_nodes_ok n rest po b.label.stop hi h3 (by omega) hhi (fun c hc' => hc c (List.mem_cons_of_mem _ hc'))
      (fun c hc' => hw c (List.mem_cons_of_mem _ hc'))
    refine ⟨?_, ?_, ?_⟩
    · rw [List.map_cons, nodesL_cons, List.all_append, Bool.and_eq_true]
      exact ⟨r1, r2.1⟩
    · cases rest with
      | nil => rfl
      | cons c rest' =>
        simp only [List.map_cons, siblingsOrdered, Bool.and_eq_true, decide_eq_true_eq]
        refine ⟨?_, by simpa using r2.2.1⟩
        rw [pbToTree_stop, pbToTree_start]
        exact (r2.2.2 c List.mem_cons_self).1
    · intro c hc'
      rcases List.mem_cons.mp hc' with rfl | hc'
      · exact ⟨hb.1, hb.2.2⟩
      · have := r2.2.2 c hc'
        exact ⟨by omega, this.2⟩
end

/-! ### list markers have no children; inline nodes are not blocks -/

theorem inl_not_block {ks : List Nat} {t : Tree} (h : BG.inl ks t = true) : t.label.isBlock = false ∧ t.children = [] := by
  simp only [BG.inl, Bool.and_eq_true, Bool.not_eq_true', List.isEmpty_iff] at h
  exact ⟨h.1.1, h.2⟩

theorem markerChildless_of_not_block {t : Tree} (h : t.label.isBlock = false) : markerChildless t = true := by
  simp [markerChildless, isB, h]

theorem nodes_leaf {t : Tree} (h : t.children = []) : nodes t = [t] := by
  obtain ⟨l, cs⟩ := t
  have : cs = [] := h
  subst this
  rw [nodes_node, nodesL_nil]

/-- An inline node all of whose children are inline leaves. -/
theorem nodes_mc_of_kids {t : Tree} {ks : List Nat} (hb : t.label.isBlock = false) (hk : t.children.all (BG.inl ks) = true) :
    (nodes t).all markerChildless = true := by
  obtain ⟨l, cs⟩ := t
  rw [nodes_node, List.all_cons, Bool.and_eq_true]
  refine ⟨markerChildless_of_not_block hb, ?_⟩
  apply nodesL_all_of
  intro c hc
  have := inl_not_block (List.all_eq_true.mp hk c hc)
  rw [nodes_leaf this.2, List.all_cons, List.all_nil, Bool.and_true]
  exact markerChildless_of_not_block this.1

theorem nodes_mc_of_inl {t : Tree} {ks : List Nat} (h : BG.inl ks t = true) : (nodes t).all markerChildless = true := by
  have := inl_not_block h
  rw [nodes_leaf this.2, List.all_cons, List.all_nil, Bool.and_true]
  exact markerChildless_of_not_block this.1

/-- The inline children allowed by the grammar contain no list-marker block with children. -/
theorem inlines_mc {l : PLabel} {bs : List PB} {is : List Tree} (h : localOK l bs is = true) :
    ∀ t ∈ is, (nodes t).all markerChildless = true := by
  have hi := ((BG.localOK_iff l bs is).1 h).2
  unfold inlinesOK at hi
  intro t ht
  split at hi
  · have : is = [] := by simpa using hi
    subst this; cases ht
  split at hi
  · exact nodes_mc_of_inl (List.all_eq_true.mp hi t ht)
  split at hi
  · simp only [Bool.and_eq_true] at hi
    exact nodes_mc_of_inl (List.all_eq_true.mp hi.1.1 t ht)
  split at hi
  · simp only [Bool.and_eq_true] at hi
    exact nodes_mc_of_inl (List.all_eq_true.mp hi.1.1 t ht)
  split at hi
  · exact nodes_mc_of_inl (List.all_eq_true.mp hi t ht)
  split at hi
  · simp only [Bool.and_eq_true] at hi
    have hf := hi.1.1
    cases is with
    | nil => cases ht
    | cons c rest =>
      simp only [fencedKids, Bool.and_eq_true, Bool.or_eq_true] at hf
      rcases List.mem_cons.mp ht with rfl | ht
      · rcases hf.1 with h1 | h1
        · simp only [infoOK, Bool.and_eq_true, Bool.not_eq_true'] at h1
          exact nodes_mc_of_kids h1.1.1 h1.2
        · exact nodes_mc_of_inl h1
      · exact nodes_mc_of_inl (List.all_eq_true.mp hf.2 t ht)
  split at hi
  · simp only [Bool.and_eq_true] at hi
    exact nodes_mc_of_inl (List.all_eq_true.mp hi.1.1 t ht)
  split at hi
  · -- a link reference definition: label, destination, optional title
    have lab : ∀ u, labelOK u = true → (nodes u).all markerChildless = true := by
      intro u hu
      simp only [labelOK, isInl, Bool.and_eq_true, Bool.not_eq_true'] at hu
      exact nodes_mc_of_kids hu.1.1 hu.2
    have dst : ∀ k u, destOK k u = true → (nodes u).all markerChildless = true := by
      intro k u hu
      simp only [destOK, isInl, Bool.and_eq_true, Bool.not_eq_true'] at hu
      exact nodes_mc_of_kids hu.1.1 hu.2
    unfold refDefKids at hi
    split at hi
    · rename_i a b
      simp only [Bool.and_eq_true] at hi
      simp only [List.mem_cons, List.mem_nil_iff, or_false] at ht
      rcases ht with rfl | rfl
      · exact lab _ hi.1
      · exact dst _ _ hi.2
    · rename_i a b c
      simp only [Bool.and_eq_true] at hi
      simp only [List.mem_cons, List.mem_nil_iff, or_false] at ht
      rcases ht with rfl | rfl | rfl
      · exact lab _ hi.1.1
      · exact dst _ _ hi.1.2
      · exact dst _ _ hi.2
    · cases hi
  · cases hi

theorem pb_markers : ∀ b : PB, PBGrammar b → (nodes (pbToTree b)).all markerChildless = true := by
  apply BG.PB.ind
  intro l bs is ih h
  have hg := (PBGrammar_mk l bs is).1 h
  rw [pbToTree, nodes_node, List.all_cons, Bool.and_eq_true]
  constructor
  · -- the block itself: a list marker has no children at all
    simp only [markerChildless, isB, Tree.label, Tree.children, Bool.true_and, Bool.or_eq_true, Bool.not_eq_true',
      List.isEmpty_iff, beq_eq_false_iff_ne, ne_eq]
    by_cases hk : l.kind = BK.listMarker
    · right
      have := (BG.grammar_leaf_inlines hg.1).2.1 (Or.inr hk)
      rw [this.1, this.2]; rfl
    · left; exact hk
  · split
    · apply nodesL_all_of
      exact inlines_mc hg.1
    · rw [pbsToTrees_eq_map]
      apply nodesL_all_of
      intro t ht
      rw [List.mem_map] at ht
      obtain ⟨b, hb, rfl⟩ := ht
      exact ih b hb (hg.2 b hb)

/-! ### the theorem -/

/-- **C03 "not duplicated", block phase.** A closed block with the span discipline of C02 (`PBSpans`), the span
    discipline below its inline children (`WF`), and the node grammar: no position is covered by more than one leaf. -/
theorem pb_no_duplication (n : Nat) (b : PB) (hs : PBSpans QT 0 n b) (hc : 0 ≤ b.label.stop) (hw : WF QT b) (hg : PBGrammar b) :
    ∀ j : Nat, coverCount (leaves (pbToTree b)) j ≤ 1 :=
  no_duplication n (pbToTree b) (pb_nodes_ok n b 0 n hs (Int.le_refl _) (Int.le_refl _) hc hw) (pb_markers b hg)

/-- For a delivered root. -/
theorem root_no_duplication (r : Root) (hs : RootSpansOK r) (hw : WF QT r.block) (hg : PBGrammar r.block) :
    ∀ j : Nat, coverCount (leaves (pbToTree r.block)) j ≤ 1 :=
  pb_no_duplication r.source.length r.block hs.1 (by rw [hs.2]; exact Int.natCast_nonneg _) hw hg

/-- **Every root `Parse` delivers (block phase)**, under the hypothesis of `drain_spans` (the `RefDefSpansOK` check never
    fails along the run) and the Boolean `wfB QT` of the delivered blocks: no position of the root's `Source` is covered
    by more than one leaf. (The node grammar is unconditional: `drain_grammar_mem`.) -/
theorem roots_no_duplication (x : PExt) (inp : Bytes) (fuel : Nat)
    (h : isRefDefFail (drain (blocksLPc x) fuel (memParser inp) []).2.1 = false)
    (hw : ((drain (blocksLP x) fuel (memParser inp) []).1.all fun r => wfB QT r.block) = true) :
    ∀ r ∈ (drain (blocksLP x) fuel (memParser inp) []).1, ∀ j : Nat, coverCount (leaves (pbToTree r.block)) j ≤ 1 :=
  fun r hr => root_no_duplication r (drain_spans x inp fuel h r hr) (List.all_eq_true.mp hw r hr)
    (drain_grammar_mem x fuel inp r hr).1

section Examples

/-- Nested lists in a block quote, a fenced code block with an info string (a node with children), a setext heading. -/
def dupDoc : Bytes := Bytes.ofString "> - a\n>   - b\n> 1. c\n\n``` go\\*\nx\n```\nt\n===\n"

example : ∀ r ∈ (drain (blocksLP btX) 20 (memParser dupDoc) []).1, ∀ j : Nat, coverCount (leaves (pbToTree r.block)) j ≤ 1 :=
  roots_no_duplication btX dupDoc 20 (by decide +kernel) (by decide +kernel)
example : (drain (blocksLP btX) 20 (memParser dupDoc) []).1.map (fun r => r.block.kind) =
    [BK.blockQuote, BK.fencedCode, BK.setextHeading] := by decide +kernel

end Examples

end CM.Proofs.Cov
