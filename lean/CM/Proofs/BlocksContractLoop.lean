import CM.Proofs.BlocksContractSetext
/-
C01 contract for the real block parser — `tryStarts` and the `openingLoop` under the invariant `TopA`.
-/
namespace CM.Proofs
open CM CM.Model CM.Gen

theorem lt_setState {Q : Nat → Prop} {am : Bool} {N : Nat} {p : LP} (h : LT Q am N p) (s : Nat) :
    LT Q am N { p with state := s } :=
  ⟨la_setState h.la s, h.src.of_eq rfl rfl rfl, h.top.of_eq rfl rfl rfl rfl⟩

/-- The result of one pass over the block starts. -/
structure TryT (am : Bool) (N : Nat) (p p' : LP) : Prop where
  res : (LT QB am N p' ∧ (p' = { p with state := stateOpening } ∨
      (Moved p' ∧ (p'.state = stateOpenMatched ∨ p'.state = stateLineConsumed)))) ∨ LBT am N p'

theorem tryStarts_T (H : onCloseParagraph_cuts_target) {am : Bool} {N : Nat} (x : PExt) : ∀ (fs : List (LP → LP)),
    (∀ f ∈ fs, f ∈ blockStartFns x) → ∀ p : LP, LT QB am N p → AL p.containerKind = false →
    TryT am N p (tryStarts fs { p with state := stateOpening }) := by
  intro fs
  induction fs with
  | nil =>
    intro _ p h _
    exact ⟨Or.inl ⟨lt_setState h _, Or.inl rfl⟩⟩
  | cons f rest ih =>
    intro hfs p h hg
    have hf := allStarts_T (am := am) (N := N) H x f (hfs f (by simp)) { p with state := stateOpening }
      (lt_setState h _) hg (Or.inl rfl)
    simp only [tryStarts]
    generalize f { p with state := stateOpening } = p' at hf
    split
    · rename_i hst
      rcases hf.res with ⟨hlt, ⟨he, _⟩ | hm⟩ | hlb
      · subst he
        simp at hst
        rcases hst with h' | h' <;> exact absurd h' (by decide)
      · exact ⟨Or.inl ⟨hlt, Or.inr hm⟩⟩
      · exact ⟨Or.inr hlb⟩
    · rename_i hst
      have hst' : p'.state ≠ stateOpenMatched ∧ p'.state ≠ stateLineConsumed := by
        simp only [Bool.or_eq_true, beq_iff_eq, not_or] at hst
        exact hst
      rcases hf.res with ⟨hlt, ⟨he, _⟩ | ⟨_, hm⟩⟩ | hlb
      · subst he
        exact ih (fun g hg' => hfs g (by simp [hg'])) p h hg
      · rcases hm with h' | h'
        · exact absurd h' hst'.1
        · exact absurd h' hst'.2
      · exact absurd hlb.lb.state hst'.2

theorem Moved.same {p p' : LP} (h : Moved p) (hs : SameButState p p') : Moved p' := by
  unfold SameButState at hs
  have h1 : p'.root = p.root := by rw [hs]
  have h2 : p'.depth = p.depth := by rw [hs]
  exact ⟨by rw [h2]; exact h.1, fun c hc => h.2 c (by rw [← h1]; exact hc)⟩

/-- The result of the opening loop. -/
structure OLoopT (am : Bool) (N : Nat) (fuel : Nat) (p : LP) (ht : Bool) (p' : LP) : Prop where
  res : (LT QB am N p' ∧ ((SameButState p p' ∧ ht = true) ∨ Moved p')) ∨ (LBT am N p' ∧ ht = false)
  st : (fuel = 0 ∧ p' = p) ∨ (AL p.containerKind = true ∧ p' = p) ∨ InOpen p'.state ∨ p'.state = stateLineConsumed

theorem openingLoop_T (H : onCloseParagraph_cuts_target) {am : Bool} {N : Nat} (x : PExt) : ∀ (fuel : Nat) (p : LP),
    LT QB am N p → OLoopT am N fuel p (openingLoop x fuel p).1 (openingLoop x fuel p).2 := by
  intro fuel
  induction fuel with
  | zero =>
    intro p h
    exact ⟨Or.inl ⟨h, Or.inl ⟨rfl, rfl⟩⟩, Or.inl ⟨rfl, rfl⟩⟩
  | succ fuel ih =>
    intro p h
    unfold openingLoop
    split
    · rename_i hguard
      refine ⟨Or.inl ⟨h, Or.inl ⟨rfl, rfl⟩⟩, Or.inr (Or.inl ⟨?_, rfl⟩)⟩
      simp only [Bool.not_eq_true', Bool.or_eq_false_iff, beq_eq_false_iff_ne, Bool.not_eq_false'] at hguard
      unfold AL
      rw [hguard.2]
      simp only [Bool.true_and, bne_iff_ne, ne_eq]
      exact hguard.1
    · rename_i hguard
      have hg : AL p.containerKind = false := by
        simp only [Bool.not_eq_true', Bool.not_eq_false] at hguard
        simp only [Bool.or_eq_true, beq_iff_eq, Bool.not_eq_true'] at hguard
        unfold AL
        rcases hguard with h' | h'
        · rw [h']; decide
        · rw [h']; rfl
      have ht := tryStarts_T (am := am) (N := N) H x (blockStartFns x) (fun f hf => hf) p h hg
      have heq : tryStarts (blockStartFns x) p = tryStarts (blockStartFns x) { p with state := stateOpening } := by
        unfold blockStartFns
        simp only [tryStarts]
      simp only
      rw [heq]
      generalize tryStarts (blockStartFns x) { p with state := stateOpening } = p' at ht
      split
      · rename_i hst
        have hst' : p'.state = stateOpenMatched := by simpa using hst
        rcases ht.res with ⟨hlt, he | ⟨hm, _⟩⟩ | hlb
        · rw [he] at hst'; exact absurd hst' (show stateOpening ≠ stateOpenMatched by decide)
        · have ih' := ih p' hlt
          have hst2 : InOpen (openingLoop x fuel p').2.state ∨ (openingLoop x fuel p').2.state = stateLineConsumed := by
            rcases ih'.st with ⟨_, he⟩ | ⟨_, he⟩ | h' | h'
            · rw [he, hst']; exact Or.inl (Or.inr rfl)
            · rw [he, hst']; exact Or.inl (Or.inr rfl)
            · exact Or.inl h'
            · exact Or.inr h'
          rcases ih'.res with ⟨hlt2, ⟨hsame, _⟩ | hm2⟩ | hlb2
          · exact ⟨Or.inl ⟨hlt2, Or.inr (hm.same hsame)⟩, Or.inr (Or.inr hst2)⟩
          · exact ⟨Or.inl ⟨hlt2, Or.inr hm2⟩, Or.inr (Or.inr hst2)⟩
          · exact ⟨Or.inr hlb2, Or.inr (Or.inr hst2)⟩
        · rw [hlb.lb.state] at hst'; exact absurd hst' (by decide)
      · rename_i hst
        have hst1 : p'.state ≠ stateOpenMatched := by simpa using hst
        split
        · rename_i hst2
          have hst' : p'.state = stateLineConsumed := by simpa using hst2
          rcases ht.res with ⟨hlt, he | ⟨hm, _⟩⟩ | hlb
          · rw [he] at hst'; exact absurd hst' (show stateOpening ≠ stateLineConsumed by decide)
          · exact ⟨Or.inl ⟨hlt, Or.inr hm⟩, Or.inr (Or.inr (Or.inr hst'))⟩
          · exact ⟨Or.inr ⟨hlb, rfl⟩, Or.inr (Or.inr (Or.inr hst'))⟩
        · rename_i hst2
          have hst' : p'.state ≠ stateLineConsumed := by simpa using hst2
          rcases ht.res with ⟨hlt, he | ⟨_, hm⟩⟩ | hlb
          · refine ⟨Or.inl ⟨hlt, Or.inl ⟨?_, rfl⟩⟩, Or.inr (Or.inr (Or.inl (by rw [he]; exact Or.inl rfl)))⟩
            unfold SameButState
            rw [he]
          · rcases hm with h' | h'
            · exact absurd h' hst1
            · exact absurd h' hst'
          · exact absurd hlb.lb.state hst'

end CM.Proofs
