import CM.Proofs.EolRd3
/-
C14 (a), the paragraph hook under the position map — part 4: the CR LF step, and the two cases of `next` packaged for the
scanner simulations (`step_cases`).
-/
namespace CM.Proofs.ERd
open CM CM.Model CM.Gen CM.Proofs CM.Proofs.RDS CM.Proofs.BSp

section
variable {e X : Bytes} {k : Nat} {is : List Tree} {r : Rd}

theorem atLF_cur (hc : Ctx (X.take k) is) (h : RI (X.take k) is r) (ha : AtLF (X.take k) r) :
    (r.current (X.take k)).1 = LF := by
  obtain ⟨t, rest, hs, hi, hb⟩ := ha
  rw [current_live hc h hs, hi, hb]
  rfl

theorem atLF_of_cur (hc : Ctx (X.take k) is) (h : RI (X.take k) is r) {t : Tree} {rest : List Tree}
    (hs : r.spans = t :: rest) (hcur : (r.current (X.take k)).1 = LF) : AtLF (X.take k) r := by
  rw [current_live hc h hs] at hcur
  cases hi : isIndent t with
  | true =>
    rw [hi] at hcur
    simp only [if_true] at hcur
    exact absurd hcur (by decide)
  | false =>
    rw [hi] at hcur
    simp only [Bool.false_eq_true, if_false] at hcur
    refine ⟨t, rest, hs, hi, ?_⟩
    split at hcur
    · exact absurd hcur (nullRepl_ne_LF _)
    · exact hcur

theorem atLF_stop (hc : Ctx (X.take k) is) (h : RI (X.take k) is r) {t : Tree} {rest : List Tree}
    (hs : r.spans = t :: rest) (hi : isIndent t = false) (hb : (X.take k).getD r.pos 0 = LF) :
    (r.pos : Int) + 1 = t.label.stop := by
  obtain ⟨hm, _, n1, n2, _⟩ := live_facts hc h hs
  exact ((hc.ok t hm).2.2.2 hi r.pos n1 n2).1 hb

/-- **The CR LF step.** -/
theorem next_stutter (hcr : NoCR X) (hc : Ctx (X.take k) is) (htab : TabsOK (X.take k) is)
    (h : RI (X.take k) is r) (hv : VZ (X.take k) r) (ha : AtLF (X.take k) r) :
    Rd.next (toEol [CR, LF] (X.take k)) (mapRd [CR, LF] X r) = (true, mid [CR, LF] X r) ∧
    RI (toEol [CR, LF] (X.take k)) (mapTrees (eolPosZ [CR, LF] X) is) (mid [CR, LF] X r) ∧
    (Rd.current (toEol [CR, LF] (X.take k)) (mid [CR, LF] X r)).1 = LF ∧
    Rd.next (toEol [CR, LF] (X.take k)) (mid [CR, LF] X r) =
      ((r.next (X.take k)).1, mapRd [CR, LF] X (r.next (X.take k)).2) := by
  have he : StdEol [CR, LF] := Or.inr (Or.inr rfl)
  have hc' := ctx_map (e := [CR, LF]) he hcr hc htab
  have h' := ri_map (e := [CR, LF]) h
  obtain ⟨t, rest, hs, hi, hb⟩ := ha
  obtain ⟨hm, hp, n1, n2, n3⟩ := live_facts hc h hs
  have hstop := atLF_stop hc h hs hi hb
  have hphi : eolPos [CR, LF] X (r.pos + 1) = eolPos [CR, LF] X r.pos + 2 := eolPos_succ_lf he hp hb
  have hstop' : (mapTree (eolPosZ [CR, LF] X) t).label.stop = ((eolPos [CR, LF] X r.pos + 2 : Nat) : Int) := by
    rw [map_stop, ← hstop, ← hphi]
    have : ((r.pos : Int) + 1) = ((r.pos + 1 : Nat) : Int) := by omega
    rw [this, eolPosZ_ofNat]
  have hi' : isIndent (mapTree (eolPosZ [CR, LF] X) t) = false := by rw [isIndent_map]; exact hi
  have hs' := mapRd_spans (e := [CR, LF]) (X := X) hs
  have hmid : RI (toEol [CR, LF] (X.take k)) (mapTrees (eolPosZ [CR, LF] X) is) (mid [CR, LF] X r) := by
    refine ⟨h'.suf, ?_, ?_, ?_⟩
    · intro t' rest' e1
      have e2 : (mapRd [CR, LF] X r).spans = t' :: rest' := e1
      rw [hs'] at e2
      cases e2
      have := (h'.norm _ _ hs').1
      rw [hstop']
      show _ ≤ ((eolPos [CR, LF] X r.pos + 1 : Nat) : Int) ∧ ((eolPos [CR, LF] X r.pos + 1 : Nat) : Int) < _
      have hpp : ((mapRd [CR, LF] X r).pos : Int) = (eolPos [CR, LF] X r.pos : Nat) := rfl
      omega
    · intro _ _ _ _; show 0 < 3; omega
    · intro e1
      have e2 : (mapRd [CR, LF] X r).spans = [] := e1
      rw [hs'] at e2; cases e2
  have hmids : (mid [CR, LF] X r).spans = mapTree (eolPosZ [CR, LF] X) t :: mapTrees (eolPosZ [CR, LF] X) rest := hs'
  have hb0 := byte_lf (e := [CR, LF]) he hp hb (i := 0) (by simp)
  have hb1 := byte_lf (e := [CR, LF]) he hp hb (i := 1) (by simp)
  rw [Nat.add_zero] at hb0
  have hlen' : eolPos [CR, LF] X r.pos + 1 < (toEol [CR, LF] (X.take k)).length := by
    have := (pos_lt_iff (e := [CR, LF]) (X := X) (k := k) he (r.pos + 1 - 1 + 1)).2
    have h2 := length_src' (e := [CR, LF]) (X := X) (k := k) he
    have h3 : eolPos [CR, LF] X (r.pos + 1) ≤ eolPos [CR, LF] X (X.take k).length := eolPos_mono _ _ (by omega)
    omega
  refine ⟨?_, hmid, ?_, ?_⟩
  · rw [next_live hc' h' hs']
    rw [if_neg (by rw [hi']; simp)]
    have c2 : (!isIndent (mapTree (eolPosZ [CR, LF] X) t) &&
        decide ((((mapRd [CR, LF] X r).pos + 1 : Nat) : Int) < (mapTree (eolPosZ [CR, LF] X) t).label.stop)) = true := by
      rw [hi', hstop']
      simp only [Bool.not_false, Bool.true_and, decide_eq_true_eq]
      show ((eolPos [CR, LF] X r.pos + 1 : Nat) : Int) < _
      omega
    rw [if_pos c2]
    refine Prod.ext rfl (rd_ext rfl rfl ?_ rfl)
    show (if (toEol [CR, LF] (X.take k)).getD (eolPos [CR, LF] X r.pos) 1 == 0 &&
        (toEol [CR, LF] (X.take k)).getD (eolPos [CR, LF] X r.pos + 1) 1 == 0 then _ else 0) = 0
    rw [getD_default (by omega) 1 0, hb0]
    rfl
  · rw [current_live hc' hmid hmids, hi']
    show (if (toEol [CR, LF] (X.take k)).getD (eolPos [CR, LF] X r.pos + 1) 0 == 0 then _ else
      (toEol [CR, LF] (X.take k)).getD (eolPos [CR, LF] X r.pos + 1) 0) = LF
    rw [hb1]
    rfl
  · rw [next_live hc' hmid hmids, next_live hc h hs]
    have c1 : ¬ (isIndent t && decide ((r.vpos : Int) < t.label.indent)) = true := by rw [hi]; simp
    have c1' : ¬ (isIndent (mapTree (eolPosZ [CR, LF] X) t) &&
        decide (((mid [CR, LF] X r).vpos : Int) < (mapTree (eolPosZ [CR, LF] X) t).label.indent)) = true := by
      rw [hi']; simp
    have c2 : ¬ (!isIndent t && decide (((r.pos + 1 : Nat) : Int) < t.label.stop)) = true := by
      simp only [Bool.and_eq_true, decide_eq_true_eq]; omega
    have c2' : ¬ (!isIndent (mapTree (eolPosZ [CR, LF] X) t) &&
        decide ((((mid [CR, LF] X r).pos + 1 : Nat) : Int) < (mapTree (eolPosZ [CR, LF] X) t).label.stop)) = true := by
      rw [hstop']
      simp only [Bool.and_eq_true, decide_eq_true_eq]
      have : (mid [CR, LF] X r).pos = eolPos [CR, LF] X r.pos + 1 := rfl
      omega
    rw [if_neg c1', if_neg c2', if_neg c1, if_neg c2, nextTextNode_map]
    have hprev : mapPrev [CR, LF] X (r.pos : Int) = ((eolPos [CR, LF] X r.pos + 1 : Nat) : Int) := by
      rw [mapPrev_nat, hphi]; omega
    cases nextTextNode rest with
    | none =>
      simp only [Option.map_none]
      refine Prod.ext rfl (rd_ext rfl ?_ ?_ ?_)
      · show eolPos [CR, LF] X r.pos + 1 + 1 = eolPos [CR, LF] X (r.pos + 1)
        omega
      · show 0 = r.vpos
        exact (hv t rest hs hi (by rw [hb]; decide)).symm
      · exact hprev.symm
    | some pr =>
      obtain ⟨t2, sp⟩ := pr
      simp only [Option.map_some]
      refine Prod.ext rfl (rd_ext rfl ?_ ?_ ?_)
      · show (mapTree (eolPosZ [CR, LF] X) t2).label.start.toNat = eolPos [CR, LF] X t2.label.start.toNat
        rw [map_start, eolPosZ_toNat']
      · show computeNullVirtualPosition _ (mapTree (eolPosZ [CR, LF] X) t2).label.start.toNat = _
        rw [map_start, eolPosZ_toNat', cnvp_map he]
        rfl
      · exact hprev.symm

/-! ### The bundle `RJ` -/

/-- Normalised, virtual position 0 on bytes other than NUL, and the previous position is a position (or the initial −1). -/
def RJ (src : Bytes) (is : List Tree) (r : Rd) : Prop := RI src is r ∧ VZ src r ∧ -1 ≤ r.prev

/-- After a `next` the previous position is a position (or the initial −1 of a dead reader at 0). -/
theorem next_prev_ge {src : Bytes} (hc : Ctx src is) (h : RI src is r) : -1 ≤ (r.next src).2.prev := by
  cases hs : r.spans with
  | nil =>
    rw [next_dead hc h hs]
    have := (h.dead hs).1
    show -1 ≤ r.prev
    omega
  | cons t rest =>
    have := (next_spec hc h).2.2.1 (by rw [hs]; simp)
    rw [this]
    omega

theorem vz_next {src : Bytes} (hc : Ctx src is) (h : RI src is r) : VZ src (r.next src).2 := by
  cases hs : r.spans with
  | nil =>
    rw [next_dead hc h hs]
    intro t rest e; rw [hs] at e; cases e
  | cons t rest =>
    have hm := h.head_mem hs
    have hp := RI.pos_lt hc h hs
    have n2 := (h.norm t rest hs).2
    have n3 := (hc.ok t hm).2.1
    rw [next_live hc h hs]
    split
    · rename_i c1
      simp only [Bool.and_eq_true] at c1
      intro t' rest' e hi'
      have e' : r.spans = t' :: rest' := e
      rw [hs] at e'; cases e'
      rw [c1.1] at hi'; cases hi'
    · split
      · rename_i c2
        simp only [Bool.and_eq_true, decide_eq_true_eq] at c2
        intro t' rest' _ _ hb
        show (if src.getD r.pos 1 == 0 && src.getD (r.pos + 1) 1 == 0 then _ else 0) = 0
        have hb' : src.getD (r.pos + 1) 0 ≠ 0 := hb
        rw [getD_default (show r.pos + 1 < src.length by omega) 1 0]
        have : (src.getD (r.pos + 1) 0 == 0) = false := by simpa using hb'
        rw [this, Bool.and_false]
        rfl
      · cases nextTextNode rest with
        | none =>
          intro t' rest' e
          have e' : ([] : List Tree) = t' :: rest' := e
          cases e'
        | some pr =>
          obtain ⟨t2, sp⟩ := pr
          intro t' rest' _ _ hb
          show computeNullVirtualPosition src t2.label.start.toNat = 0
          have hb' : src.getD t2.label.start.toNat 0 ≠ 0 := hb
          unfold computeNullVirtualPosition
          rw [if_pos]
          simp only [Bool.or_eq_true, decide_eq_true_eq, bne_iff_ne, ne_eq]
          exact Or.inr hb'

theorem RJ.next {src : Bytes} (hc : Ctx src is) (h : RJ src is r) : RJ src is (r.next src).2 :=
  ⟨(next_spec hc h.1).1, vz_next hc h.1, next_prev_ge hc h.1⟩

theorem RJ.cur {src : Bytes} (hc : Ctx src is) (h : RJ src is r) : r.current src = ((r.current src).1, r) :=
  current_eq hc h.1

/-- **One `next` on both sides**: the mapped reader arrives at the image, directly or — on a line feed with `e = CR LF` —
    via the state `mid` on which it reads `LF`. -/
theorem step_cases (he : StdEol e) (hcr : NoCR X) (hc : Ctx (X.take k) is) (htab : TabsOK (X.take k) is)
    (h : RJ (X.take k) is r) :
    Rd.next (toEol e (X.take k)) (mapRd e X r) = ((r.next (X.take k)).1, mapRd e X (r.next (X.take k)).2) ∨
    ((r.current (X.take k)).1 = LF ∧ e = [CR, LF] ∧
      Rd.next (toEol e (X.take k)) (mapRd e X r) = (true, mid e X r) ∧
      RI (toEol e (X.take k)) (mapTrees (eolPosZ e X) is) (mid e X r) ∧
      Rd.current (toEol e (X.take k)) (mid e X r) = (LF, mid e X r) ∧
      Rd.next (toEol e (X.take k)) (mid e X r) = ((r.next (X.take k)).1, mapRd e X (r.next (X.take k)).2) ∧
      AtLF (X.take k) r) := by
  by_cases hn : AtLF (X.take k) r ∧ e.length = 2
  · right
    have he2 : e = [CR, LF] := by
      rcases he with h1 | h1 | h1
      · subst h1; simp at hn
      · subst h1; simp at hn
      · exact h1
    subst he2
    obtain ⟨s1, s2, s3, s4⟩ := next_stutter hcr hc htab h.1 h.2.1 hn.1
    have hc' := ctx_map (e := [CR, LF]) he hcr hc htab
    exact ⟨atLF_cur hc h.1 hn.1, rfl, s1, s2, by rw [current_eq hc' s2, s3], s4, hn.1⟩
  · left
    exact next_map he hcr hc htab h.1 hn

/-- When the byte is not a line feed the step is direct. -/
theorem step_plain (he : StdEol e) (hcr : NoCR X) (hc : Ctx (X.take k) is) (htab : TabsOK (X.take k) is)
    (h : RJ (X.take k) is r) (hne : (r.current (X.take k)).1 ≠ LF) :
    Rd.next (toEol e (X.take k)) (mapRd e X r) = ((r.next (X.take k)).1, mapRd e X (r.next (X.take k)).2) := by
  apply next_map he hcr hc htab h.1
  intro hh
  exact hne (atLF_cur hc h.1 hh.1)

end

end CM.Proofs.ERd
