import CM.Proofs.EolRd16
/-
C14 (a), the paragraph hook under the position map — part 17: **`collectTextNodes` commutes with the position map**
(`collect_sim`), for a normalised reader.
-/
namespace CM.Proofs.ERd
open CM CM.Model CM.Gen CM.Proofs CM.Proofs.RDS CM.Proofs.BSp

section
variable {e X : Bytes} {k : Nat} {is : List Tree}

theorem isUnparsed_map (g : Int → Int) (t : Tree) : isUnparsed (mapTree g t) = isUnparsed t := isI_map g t _

theorem collect_sim (he : StdEol e) (hcr : NoCR X) (hc : Ctx (X.take k) is) (htab : TabsOK (X.take k) is)
    (ext : Ext) (stop tk : Nat) (esc : Bool) : ∀ f, CollIH e X k is ext stop tk esc f := by
  have hc' := ctx_map (e := e) he hcr hc htab
  intro f
  induction f with
  | zero => intro g r ps acc _ hm; omega
  | succ f ih =>
    intro g r ps acc h hm hm'
    obtain ⟨g', rfl⟩ : ∃ g', g = g' + 1 := ⟨g - 1, by omega⟩
    rw [collectTextNodes, collectTextNodes]
    have hcond : (decide ((mapRd e X r).pos < eolPos e X stop)) = decide (r.pos < stop) :=
      decide_eq_decide.2 (eolPos_lt_iff e X)
    rw [hcond]
    by_cases h0 : (!decide (r.pos < stop)) = true
    · rw [if_pos h0, if_pos h0]
      exact finish_map stop tk ps acc
    · rw [if_neg h0, if_neg h0]
      obtain ⟨cn1, cn2⟩ := currentNode_map (e := e) he hcr hc htab h.1
      rw [cn1, cn2]
      simp only []
      cases hs : r.spans with
      | nil =>
        simp only [List.head?_nil, Option.map_none]
        rw [collectStep_eq', collectStep_eq']
        have hd : isUnparsed (mkInline 0 (-1) (-1)) = false := by decide
        rw [hd]
        simp only [Bool.and_false, Bool.false_eq_true, if_false]
        exact goF_sim he hcr hc htab ext stop tk esc f g' ih r h (by omega) (by omega) ps acc
      | cons t rest =>
        simp only [List.head?_cons, Option.map_some]
        rw [isIndent_map]
        by_cases hi : isIndent t = true
        · rw [if_pos hi, if_pos hi]
          obtain ⟨s1, s2, s3, s4⟩ := skipNode_sim (e := e) he hcr hc htab t hi f g' r h ⟨t, rest, hs, rfl⟩ (by omega) (by omega)
          rw [s1]
          have hacc : ((if (mapRd e X r).pos > eolPos e X ps then
                mapTrees (eolPosZ e X) acc ++ [mkInline tk ((eolPos e X ps : Nat) : Int) ((mapRd e X r).prev + 1)]
                else mapTrees (eolPosZ e X) acc) ++ [mapTree (eolPosZ e X) t]) =
              mapTrees (eolPosZ e X) ((if r.pos > ps then acc ++ [mkInline tk (ps : Int) (r.prev + 1)] else acc) ++ [t]) := by
            rw [mapTrees_append, mapTrees_singleton]
            congr 1
            by_cases hgt : r.pos > ps
            · rw [if_pos hgt, if_pos (show (mapRd e X r).pos > eolPos e X ps from (eolPos_lt_iff e X).2 hgt), mapTrees_append,
                mapTrees_singleton, mapTree_mkInline, eolPosZ_ofNat]
              have : (mapRd e X r).prev + 1 = eolPosZ e X (r.prev + 1) := mapPrev_succ e X h.2.2
              rw [this]
            · rw [if_neg hgt, if_neg (show ¬ (mapRd e X r).pos > eolPos e X ps from fun hh => hgt ((eolPos_lt_iff e X).1 hh))]
          rw [hacc]
          exact ih g' _ _ _ s2 (by omega) (by omega)
        · rw [if_neg hi, if_neg hi]
          have hi' : isIndent t = false := by simpa using hi
          rw [collectStep_eq', collectStep_eq', isUnparsed_map]
          by_cases hu : (esc && isUnparsed t) = true
          · rw [if_pos hu, if_pos hu]
            have hcur := h.cur hc
            have hcur' := current_map_eq (e := e) he hcr hc htab h.1
            rw [hcur, hcur']
            simp only []
            generalize hcv : (r.current (X.take k)).1 = c at hcur hcur'
            rw [trB_beq he c 92 (by decide) (by decide), trB_beq he c 38 (by decide) (by decide)]
            by_cases c1 : (c == 92) = true
            · rw [if_pos c1, if_pos c1]
              have hc92 : c = 92 := by simpa using c1
              obtain ⟨p1, p2, p3⟩ := plain_pack (e := e) he hcr hc htab h (by rw [hcv, hc92]; decide)
              have hcv' := close_vals (e := e) he hc h.1 (by rw [hs]; simp) (by rw [hcv, hc92]; decide)
                (by rw [hcv, hc92]; decide) (by rw [hcv, hc92]; decide)
              have hprev := (next_spec hc h.1).2.2.1 (by rw [hs]; simp)
              rw [p1]
              rcases hn : r.next (X.take k) with ⟨ok, r1⟩
              rw [hn] at p2 p3 hcv' hprev
              simp only [] at p2 p3 hcv' hprev ⊢
              have hm1 : mu (X.take k) r1 ≤ f := by
                cases ok with
                | false =>
                  have hd := (next_spec hc h.1).2.1
                  rw [hn] at hd
                  rw [mu_dead (hd rfl)]; omega
                | true => have := (p3 rfl).1; omega
              have hm1' : mu (toEol e (X.take k)) (mapRd e X r1) ≤ g' := by
                cases ok with
                | false =>
                  have hd := (next_spec hc h.1).2.1
                  rw [hn] at hd
                  rw [mu_dead (by show mapTrees _ r1.spans = []; rw [hd rfl]; rfl)]; omega
                | true => have := (p3 rfl).2; omega
              have hcur1 := p2.cur hc
              have hcur1' := current_map_eq (e := e) he hcr hc htab p2.1
              have hsec : (if ok = true then Rd.current (toEol e (X.take k)) (mapRd e X r1) else (0, mapRd e X r1)) =
                  (trB e (if ok = true then Rd.current (X.take k) r1 else (0, r1)).1,
                   mapRd e X (if ok = true then Rd.current (X.take k) r1 else (0, r1)).2) := by
                cases ok with
                | false => rfl
                | true =>
                  simp only [if_true]
                  rw [hcur1']
                  refine Prod.ext rfl ?_
                  show mapRd e X r1 = mapRd e X (Rd.current (X.take k) r1).2
                  rw [hcur1]
              have hsec2 : (if ok = true then Rd.current (X.take k) r1 else (0, r1)).2 = r1 := by
                cases ok with
                | false => rfl
                | true => simp only [if_true]; rw [hcur1]
              rw [hsec]
              simp only []
              rw [hsec2, trB_punct he]
              have hdec : decide ((mapRd e X r1).pos < eolPos e X stop) = decide (r1.pos < stop) :=
                decide_eq_decide.2 (eolPos_lt_iff e X)
              rw [hdec]
              by_cases c2 : (ok && decide (r1.pos < stop) &&
                  isASCIIPunctuation (if ok = true then Rd.current (X.take k) r1 else (0, r1)).1) = true
              · rw [if_pos c2, if_pos c2]
                have hacc : (if (mapRd e X r1).prev > ((eolPos e X ps : Nat) : Int) then
                      mapTrees (eolPosZ e X) acc ++ [mkInline tk ((eolPos e X ps : Nat) : Int) (mapRd e X r1).prev]
                      else mapTrees (eolPosZ e X) acc) =
                    mapTrees (eolPosZ e X) (if r1.prev > (ps : Int) then acc ++ [mkInline tk (ps : Int) r1.prev] else acc) := by
                  have hpe : (mapRd e X r1).prev = eolPosZ e X r1.prev := hcv'.2
                  have hcmp : ((mapRd e X r1).prev > ((eolPos e X ps : Nat) : Int)) ↔ (r1.prev > (ps : Int)) := by
                    rw [hpe, ← eolPosZ_ofNat]
                    exact eolPosZ_lt_iff e X _ _
                  by_cases hgt : r1.prev > (ps : Int)
                  · rw [if_pos hgt, if_pos (hcmp.2 hgt), mapTrees_append, mapTrees_singleton, mapTree_mkInline, eolPosZ_ofNat, hpe]
                  · rw [if_neg hgt, if_neg (fun hh => hgt (hcmp.1 hh))]
                rw [hacc]
                exact goF_sim he hcr hc htab ext stop tk esc f g' ih r1 p2 hm1 hm1' r1.pos _
              · rw [if_neg c2, if_neg c2]
                exact goF_sim he hcr hc htab ext stop tk esc f g' ih r1 p2 hm1 hm1' ps acc
            · rw [if_neg c1, if_neg c1]
              by_cases c2 : (c == 38) = true
              · rw [if_pos c2, if_pos c2]
                exact amp_sim he hcr hc htab ext stop tk esc f g' ih h hs hi' (by omega) (by omega) ps acc
              · rw [if_neg c2, if_neg c2]
                exact goF_sim he hcr hc htab ext stop tk esc f g' ih r h (by omega) (by omega) ps acc
          · rw [if_neg hu, if_neg hu]
            exact goF_sim he hcr hc htab ext stop tk esc f g' ih r h (by omega) (by omega) ps acc

end

end CM.Proofs.ERd
