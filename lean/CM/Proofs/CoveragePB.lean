import CM.Proofs.CoverageGeneric
import CM.Model.Stream
/-
C03, part B — definitions and local lemmas on block-phase trees (`PB`).

`covPB b j`: some leaf of `pbToTree b` covers position `j` (a Boolean; `1 ≤ coverCount (leaves (pbToTree b)) j`).
`need c`: the byte must be covered: a letter, a digit, a byte ≥ 0x80 — or NUL, because the parser works on the
NUL-padded buffer and `fillNulls` turns the padding into U+FFFD (three bytes ≥ 0x80) in the delivered `Source`.
`Le N b b'`: every position in `N` covered in `b` is covered in `b'` — the relation all tree edits of the block phase
satisfy. Lemmas: unfolding `covPB` at a block, the edits `appendInl`, `appendChild`, `setLabel`, replacing the last child,
`spineModify`.
-/
namespace CM.Proofs.Cov
open CM CM.Model CM.Spec CM.Spec.T

/-- A byte that must be covered by a leaf (on the NUL-padded buffer). -/
def need (c : UInt8) : Bool := needsCover c || c == 0

/-- Some leaf of the tree covers `j`. -/
def covT (t : Tree) (j : Nat) : Bool := (leaves t).any (covers j)
/-- Some leaf below one of the trees covers `j`. -/
def covTs (ts : List Tree) (j : Nat) : Bool := ts.any (fun t => covT t j)
/-- Some leaf of the block-phase tree covers `j`. -/
def covPB (b : PB) (j : Nat) : Bool := covT (pbToTree b) j
def covPBs (bs : List PB) (j : Nat) : Bool := bs.any (fun b => covPB b j)

theorem covT_iff_count (t : Tree) (j : Nat) : covT t j = true ↔ 1 ≤ coverCount (leaves t) j := by
  rw [coverCount_def, covT, List.any_eq_true]
  constructor
  · rintro ⟨l, hl, hc⟩
    exact List.countP_pos_iff.mpr ⟨l, hl, hc⟩
  · intro h
    exact List.countP_pos_iff.mp h

theorem covTs_nil (j : Nat) : covTs [] j = false := rfl
theorem covTs_cons (t : Tree) (ts : List Tree) (j : Nat) : covTs (t :: ts) j = (covT t j || covTs ts j) := by
  simp only [covTs, List.any_cons]
theorem covTs_append (a b : List Tree) (j : Nat) : covTs (a ++ b) j = (covTs a j || covTs b j) := by
  simp only [covTs, List.any_append]
theorem covPBs_nil (j : Nat) : covPBs [] j = false := rfl
theorem covPBs_cons (b : PB) (bs : List PB) (j : Nat) : covPBs (b :: bs) j = (covPB b j || covPBs bs j) := by
  simp only [covPBs, List.any_cons]
theorem covPBs_append (a b : List PB) (j : Nat) : covPBs (a ++ b) j = (covPBs a j || covPBs b j) := by
  simp only [covPBs, List.any_append]
theorem covPBs_iff (bs : List PB) (j : Nat) : covPBs bs j = true ↔ ∃ b ∈ bs, covPB b j = true := by
  simp only [covPBs, List.any_eq_true]
theorem covTs_iff (ts : List Tree) (j : Nat) : covTs ts j = true ↔ ∃ t ∈ ts, covT t j = true := by
  simp only [covTs, List.any_eq_true]

/-- The leaves below a list of trees cover `j` iff one of the trees does. -/
theorem leavesL_any (ts : List Tree) (j : Nat) : (leavesL ts).any (covers j) = covTs ts j := by
  induction ts with
  | nil => rw [leavesL_nil]; rfl
  | cons t rest ih => rw [leavesL_cons, List.any_append, ih, covTs_cons]; rfl

theorem covT_node (l : Label) (cs : List Tree) (j : Nat) :
    covT (.node l cs) j = ((isLeaf (.node l cs) && covers j (.node l cs)) || covTs cs j) := by
  unfold covT
  rw [leaves_node]
  by_cases h : isLeaf (.node l cs) = true
  · rw [if_pos h, List.any_cons, leavesL_any, h, Bool.true_and]
  · rw [if_neg h, leavesL_any]
    have : isLeaf (.node l cs) = false := by simpa using h
    rw [this, Bool.false_and, Bool.false_or]

/-- A childless inline node covers exactly its span. -/
theorem covT_leaf (l : Label) (j : Nat) (hb : l.isBlock = false) :
    covT (.node l []) j = (decide (l.start ≤ (j : Int)) && decide ((j : Int) < l.stop)) := by
  rw [covT_node, covTs_nil, Bool.or_false]
  have : isLeaf (.node l []) = true := by simp [isLeaf, isBlock, Tree.label, Tree.children, hb]
  rw [this, Bool.true_and]
  rfl

theorem covT_mkInline (k : Nat) (a b : Int) (j : Nat) :
    covT (mkInline k a b) j = (decide (a ≤ (j : Int)) && decide ((j : Int) < b)) := covT_leaf _ j rfl

theorem pbsToTrees_eq_map (bs : List PB) : pbToTree.pbsToTrees bs = bs.map pbToTree := by
  induction bs with
  | nil => simp [pbToTree.pbsToTrees]
  | cons b rest ih => simp [pbToTree.pbsToTrees, ih]

/-- "The block is a list marker whose span contains `j`." -/
def markerCov (l : PLabel) (j : Nat) : Bool :=
  l.kind == BK.listMarker && decide (l.start ≤ (j : Int)) && decide ((j : Int) < l.stop)

theorem covTs_map (bs : List PB) (j : Nat) : covTs (bs.map pbToTree) j = covPBs bs j := by
  simp only [covTs, covPBs, List.any_map, covPB, Function.comp_def]

/-- `covPB` at a block: the block is a covering list marker, or one of its children (block children if there are any,
    else inline children) covers. -/
theorem covPB_mk (l : PLabel) (bs : List PB) (is : List Tree) (j : Nat) :
    covPB (.mk l bs is) j = (markerCov l j || (if bs.isEmpty then covTs is j else covPBs bs j)) := by
  unfold covPB
  rw [pbToTree, covT_node]
  congr 1
  · simp only [isLeaf, isBlock, isB, Tree.label, Tree.children, covers, markerCov, start, stop, Bool.not_true,
      Bool.false_and, Bool.false_or, Bool.true_and, Bool.and_assoc]
    rfl
  · split
    · rfl
    · rw [pbsToTrees_eq_map, covTs_map]

theorem covPB_mk_nil (l : PLabel) (is : List Tree) (j : Nat) :
    covPB (.mk l [] is) j = (markerCov l j || covTs is j) := by
  rw [covPB_mk]; rfl

theorem covPB_mk_blocks (l : PLabel) (bs : List PB) (is : List Tree) (j : Nat) (h : bs ≠ []) :
    covPB (.mk l bs is) j = (markerCov l j || covPBs bs j) := by
  rw [covPB_mk]
  have : bs.isEmpty = false := by cases bs with
    | nil => exact absurd rfl h
    | cons _ _ => rfl
  rw [this]; rfl

/-! ### the coverage order -/

/-- Every position of `N` covered by `b` is covered by `b'`. -/
def Le (N : Nat → Prop) (b b' : PB) : Prop := ∀ j, N j → covPB b j = true → covPB b' j = true
def LeL (N : Nat → Prop) (bs bs' : List PB) : Prop := ∀ j, N j → covPBs bs j = true → covPBs bs' j = true

theorem Le.refl (N : Nat → Prop) (b : PB) : Le N b b := fun _ _ h => h
theorem Le.trans {N : Nat → Prop} {a b c : PB} (h1 : Le N a b) (h2 : Le N b c) : Le N a c :=
  fun j hn h => h2 j hn (h1 j hn h)
theorem LeL.refl (N : Nat → Prop) (bs : List PB) : LeL N bs bs := fun _ _ h => h
theorem LeL.trans {N : Nat → Prop} {a b c : List PB} (h1 : LeL N a b) (h2 : LeL N b c) : LeL N a c :=
  fun j hn h => h2 j hn (h1 j hn h)
theorem Le.of_eq {N : Nat → Prop} {b b' : PB} (h : ∀ j, covPB b' j = covPB b j) : Le N b b' :=
  fun j _ hc => by rw [h]; exact hc

theorem LeL.single {N : Nat → Prop} {b b' : PB} (h : Le N b b') : LeL N [b] [b'] := by
  intro j hn hc
  simp only [covPBs_cons, covPBs_nil, Bool.or_false] at hc ⊢
  exact h j hn hc

theorem LeL.append {N : Nat → Prop} {a a' b b' : List PB} (h1 : LeL N a a') (h2 : LeL N b b') : LeL N (a ++ b) (a' ++ b') := by
  intro j hn hc
  rw [covPBs_append, Bool.or_eq_true] at hc ⊢
  rcases hc with hc | hc
  · exact Or.inl (h1 j hn hc)
  · exact Or.inr (h2 j hn hc)

/-- Replacing the block children (never from some to none unless nothing was covered). -/
theorem Le.kids {N : Nat → Prop} {l : PLabel} {bs bs' : List PB} {is : List Tree} (h : LeL N bs bs')
    (hne : bs = [] → bs' = []) : Le N (.mk l bs is) (.mk l bs' is) := by
  intro j hn hc
  by_cases hb : bs = []
  · have := hne hb
    subst hb; subst this; exact hc
  · rw [covPB_mk_blocks _ _ _ _ hb, Bool.or_eq_true] at hc
    rcases hc with hc | hc
    · rw [covPB_mk, hc]; rfl
    · have h' := h j hn hc
      have hb' : bs' ≠ [] := by
        intro e; rw [e] at h'; cases h'
      rw [covPB_mk_blocks _ _ _ _ hb', h', Bool.or_true]

/-- A label edit that keeps "is a covering list marker". -/
theorem Le.label {N : Nat → Prop} {l l' : PLabel} {bs : List PB} {is : List Tree}
    (h : ∀ j, markerCov l j = true → markerCov l' j = true) : Le N (.mk l bs is) (.mk l' bs is) := by
  intro j _ hc
  rw [covPB_mk, Bool.or_eq_true] at hc ⊢
  rcases hc with hc | hc
  · exact Or.inl (h j hc)
  · exact Or.inr hc

theorem markerCov_congr {l l' : PLabel} (hk : l'.kind = l.kind) (hs : l'.start = l.start) (he : l'.stop = l.stop) (j : Nat) :
    markerCov l' j = markerCov l j := by
  simp only [markerCov, hk, hs, he]

theorem covPB_setLabel (f : PLabel → PLabel) (hk : ∀ l, (f l).kind = l.kind) (hs : ∀ l, (f l).start = l.start)
    (he : ∀ l, (f l).stop = l.stop) (b : PB) (j : Nat) : covPB (b.setLabel f) j = covPB b j := by
  obtain ⟨l, bs, is⟩ := b
  show covPB (.mk (f l) bs is) j = _
  rw [covPB_mk, covPB_mk, markerCov_congr (hk l) (hs l) (he l)]

/-- Closing a label (or any change of `stop` from a negative value) only adds coverage. -/
theorem markerCov_close {l : PLabel} (h : l.stop < 0) (e : Int) (j : Nat) :
    markerCov l j = true → markerCov { l with stop := e } j = true := by
  intro hc
  simp only [markerCov, Bool.and_eq_true, decide_eq_true_eq] at hc
  omega

/-! ### the edits of the line parser -/

/-- The edit `appendInline` applies to the container. -/
def appendInl (t : Tree) : PB → PB := fun b => match b with
  | .mk l bs is => .mk l bs (is ++ [t])

/-- The edit `openBlock` applies to the container. -/
def appendChild (child : PB) : PB → PB := fun b => match b with
  | .mk l bs is => .mk l (bs ++ [child]) is

theorem appendInl_le (N : Nat → Prop) (t : Tree) (b : PB) : Le N b (appendInl t b) := by
  obtain ⟨l, bs, is⟩ := b
  intro j _ hc
  show covPB (.mk l bs (is ++ [t])) j = true
  rw [covPB_mk] at hc ⊢
  rw [Bool.or_eq_true] at hc ⊢
  rcases hc with hc | hc
  · exact Or.inl hc
  · right
    split at hc
    · rename_i he; rw [if_pos he, covTs_append, hc]; rfl
    · rename_i he; rw [if_neg he]; exact hc

/-- What the appended inline adds (when the block has no block children). -/
theorem appendInl_cov (t : Tree) (l : PLabel) (is : List Tree) (j : Nat) (h : covT t j = true) :
    covPB (appendInl t (.mk l [] is)) j = true := by
  show covPB (.mk l [] (is ++ [t])) j = true
  rw [covPB_mk_nil, covTs_append, covTs_cons, h]
  simp

/-- Appending a block child keeps the coverage when the block has block children already or no inline children. -/
theorem appendChild_le (N : Nat → Prop) (C : PB) (b : PB) (h : b.blocks ≠ [] ∨ b.inlines = []) : Le N b (appendChild C b) := by
  obtain ⟨l, bs, is⟩ := b
  intro j _ hc
  show covPB (.mk l (bs ++ [C]) is) j = true
  have hne : bs ++ [C] ≠ [] := by simp
  rw [covPB_mk_blocks _ _ _ _ hne, covPBs_append]
  rw [covPB_mk, Bool.or_eq_true] at hc
  rcases hc with hc | hc
  · rw [hc]; rfl
  · by_cases hb : bs = []
    · subst hb
      rcases h with h | h
      · exact absurd rfl h
      · have : is = [] := h
        subst this
        cases hc
    · have : bs.isEmpty = false := by cases bs with
        | nil => exact absurd rfl hb
        | cons _ _ => rfl
      rw [this] at hc
      simp only [Bool.false_eq_true, if_false] at hc
      rw [hc]; simp

/-- Coverage of the new child shows through. -/
theorem appendChild_cov (C : PB) (b : PB) (j : Nat) (h : covPB C j = true) : covPB (appendChild C b) j = true := by
  obtain ⟨l, bs, is⟩ := b
  show covPB (.mk l (bs ++ [C]) is) j = true
  have hne : bs ++ [C] ≠ [] := by simp
  rw [covPB_mk_blocks _ _ _ _ hne, covPBs_append, covPBs_cons, h]
  simp

end CM.Proofs.Cov
