import CM.Proofs.InlCoverRunM
import CM.Proofs.ParseScanLkCoverRunB

/-
C03, inline half, with `LinkScan2` / `TokScan2` — the tokenizer loop and `parseRun`.
(Generated from `InlCoverRunM.lean`: the same proofs with `LinkScan2` in the place of `LinkScan`.)
-/

namespace CM.Proofs.InlH2
open CM CM.Model CM.Model.Inl CM.Gen CM.Spec CM.Proofs CM.Proofs.InlH
open Std.Do

set_option mvcgen.warning false

theorem tokB_cov (L : Lims) (c : ICtx) (hU : UnpOK c L) (hT : TokScan2 c L.hi) (hV : TokCover c) (s : IState) (b : UInt8)
    (pos plainStart : Int) (done : Bool) (hb : 0 ≤ pos ∧ pos < c.srcA.size ∧ b = c.srcA[pos.toNat]!) :
    ⦃fun st => ⌜st = s ∧ RunInv L c (pos, plainStart, done) s ∧ s.unparsedPos < c.unparsed.size ∧
        pos < spanEndOf c s ∧ StkNN c s ∧ CovBelow c s.nodes plainStart⌝⦄
    tokB c s b pos plainStart done
    ⦃⇓? r st => ⌜RunCov c r.value st⌝⦄ := by
  unfold tokB
  split
  · exact tokSp_cov L c hU s pos plainStart done
  · split
    · rename_i h60
      exact tokCode_cov L c hU hT hV s pos plainStart done ⟨hb.1, hb.2.1, by rw [← hb.2.2]; simpa using h60⟩
    · split
      · rename_i h3c
        exact tokLt_cov L c hU hT hV s pos plainStart done ⟨hb.1, hb.2.1, by rw [← hb.2.2]; simpa using h3c⟩
      · exact tokC_cov L c hU hT s b pos plainStart done hb

theorem tokA_cov (L : Lims) (c : ICtx) (hU : UnpOK c L) (hT : TokScan2 c L.hi) (hS : LinkScan2 c L.hi)
    (hC : LinkCover c) (s : IState)
    (b : UInt8) (pos plainStart : Int) (done : Bool) (hb : 0 ≤ pos ∧ pos < c.srcA.size ∧ b = c.srcA[pos.toNat]!)
    (hB : ∀ s,
      ⦃fun st => ⌜st = s ∧ RunInv L c (pos, plainStart, done) s ∧ s.unparsedPos < c.unparsed.size ∧
          pos < spanEndOf c s ∧ StkNN c s ∧ CovBelow c s.nodes plainStart⌝⦄
      tokB c s b pos plainStart done
      ⦃⇓? r st => ⌜RunCov c r.value st⌝⦄) :
    ⦃fun st => ⌜st = s ∧ RunInv L c (pos, plainStart, done) s ∧ s.unparsedPos < c.unparsed.size ∧
        pos < spanEndOf c s ∧ StkNN c s ∧ CovBelow c s.nodes plainStart⌝⦄
    tokA c s b pos plainStart done
    ⦃⇓? r st => ⌜RunCov c r.value st⌝⦄ := by
  mvcgen [tokA, addText, alloc, addToRoot, nodeLen, getNode, setParent, modifyNode, pushStack, hB, -addToRoot_spec, 
    -addToRoot_specS, -CM.Proofs.InlH2.tokA_specP, -addLeaf_specP, -parseDelimiterRun_specP, 
    -CM.Proofs.InlH2.parseEndBracket_specP, -CM.Proofs.InlH.refPart_specP, -CM.Proofs.InlH.parseEndBracket_specP, 
    -CM.Proofs.InlH.tokC_specP, -CM.Proofs.InlH.tokA_specP, -CM.Proofs.InlH.tokCode_specP, 
    -CM.Proofs.InlH.tokLt_specP, -CM.Proofs.InlH.runBody_specP, -CM.Proofs.InlH.refPart_specC, 
    -CM.Proofs.InlH.parseEndBracket_specC, -CM.Proofs.InlH.runBody_specC, -CM.Proofs.InlH.parseRun_specC]
  all_goals (try (exact fun h => h))
  all_goals (try (exact ExceptConds.entails.refl _))
  all_goals (try (exact hU.arr))
  all_goals (try assumption)
  all_goals tok_setupC
  -- the dead branch of `addToRoot` (the new node is not empty)
  all_goals (try (
    exfalso
    have h2 := ‹(spanLenI _ _ == 0) = true›
    rw [get!_push_eq] at h2
    dsimp only at h2
    have := spanLen_zero h2 (by omega)
    omega))
  all_goals unp_norm
  -- the preconditions
  all_goals (try (first
    | (refine ⟨trivial, ?_, ?_, ?_⟩
       · first | assumption | (apply SP.mono; assumption; omega; omega)
       · omega
       · assumption)
    | (refine ⟨trivial, ?_, ?_, ?_, ?_, ?_⟩
       · first | assumption | (apply SP.mono; assumption; omega; omega)
       · omega
       · omega
       · assumption
       · exact needs_or ‹b = _› ‹(b == 42 || b == 95) = true›)
    | (refine ⟨trivial, ?_, ?_, ?_, ?_, ?_, ?_⟩
       · first | assumption | (apply SP.mono; assumption; omega; omega)
       · omega
       · omega
       · omega
       · assumption
       · exact needs_beq ‹b = _› ‹(b == 93) = true› (by decide +kernel))))
  -- nothing happened
  all_goals (try (exact ⟨hnn0, hcb⟩))
  -- the postconditions
  all_goals (try simp only [RunCov, ForInStep.value])
  all_goals (
    have P1 := hcb.step (by assumption) (CovAll.seg ‹CovAll _ plainStart pos›)
    first
    | (refine ⟨?_, ?_⟩
       · assumption
       first
       | exact P1.step (by assumption) (by assumption)
       | exact P1.step (by assumption) (CovAll.seg (by assumption)))
    | (refine runCov_addRootPush ‹SPT _ _ (max _ _) _› (by assumption) P1 ?_ ?_ ?_ ?_ ?_ ?_ ?_ ?_ ?_
       rotate_left 4
       · rfl
       · rfl
       · exact Int.le_refl _
       · rfl
       · first
         | exact noNeed_beq ‹b = _› ‹(b == 91) = true› (by decide +kernel)
         | exact ((noNeed_beq ‹b = _› ‹(b == 33) = true› (by decide +kernel)).append
             (noNeed_of_eq ‹c.srcA[Int.toNat (pos + 1)]! = 91› (by decide +kernel))).sub (Int.le_refl _)
             (by dsimp only; omega)
       · rfl
       · rfl))

/-- One iteration of the tokenizer loop. -/
theorem runBody_cov (L : Lims) (c : ICtx) (hU : UnpOK c L) (hT : TokScan2 c L.hi) (hS : LinkScan2 c L.hi)
    (hC : LinkCover c) (hV : TokCover c) (x : Nat) (st : TokSt) :
    ⦃fun s => ⌜RunInv L c st s ∧ RunCov c st s⌝⦄ runBody c x st ⦃⇓? r s => ⌜RunCov c r.value s⌝⦄ := by
  mvcgen [runBody, tokA_cov, -CM.Proofs.InlH2.runBody_specP, -CM.Proofs.InlH2.tokA_specP, 
    -CM.Proofs.InlH.refPart_specP, -CM.Proofs.InlH.parseEndBracket_specP, -CM.Proofs.InlH.tokC_specP, 
    -CM.Proofs.InlH.tokA_specP, -CM.Proofs.InlH.tokCode_specP, -CM.Proofs.InlH.tokLt_specP, 
    -CM.Proofs.InlH.runBody_specP, -CM.Proofs.InlH.refPart_specC, -CM.Proofs.InlH.parseEndBracket_specC, 
    -CM.Proofs.InlH.runBody_specC, -CM.Proofs.InlH.parseRun_specC]
  all_goals (try (intros; assumption))
  · exact (‹RunInv _ _ _ _ ∧ RunCov _ _ _›).2
  · -- the precondition of `tokA`
    have hg := ‹¬(!(decide _ && decide _)) = true›
    simp only [Bool.not_eq_true', Bool.not_eq_false', Bool.and_eq_true, decide_eq_true_eq, Bool.not_eq_false] at hg
    obtain ⟨hri, hrc⟩ := ‹RunInv _ _ _ _ ∧ RunCov _ _ _›
    inl_subst
    exact ⟨rfl, hri, hg.1, hg.2, hrc.1, hrc.2⟩
  · intro s _ b1 b2 b3
    exact ⟨b1, b2, b3⟩
  · -- the specification of `tokB`
    intro s hs h1 h2 h3 h4 h5
    obtain ⟨-, b1, b2, b3⟩ := ‹_ = _ ∧ (0 : Int) ≤ _ ∧ _ ∧ _›
    exact tokB_cov L c hU hT hV _ _ _ _ _ ⟨b1, b2, b3⟩ s ⟨hs, h1, h2, h3, h4, h5⟩

@[spec 41000]
theorem runBody_specC (L : Lims) (c : ICtx) (hU : UnpOK c L) (hT : TokScan2 c L.hi) (hS : LinkScan2 c L.hi)
    (hC : LinkCover c) (hV : TokCover c) (x : Nat) (st : TokSt) :
    ⦃fun s => ⌜RunInv L c st s ∧ RunCov c st s⌝⦄ runBody c x st
    ⦃⇓? r s => ⌜RunInv L c r.value s ∧ RunCov c r.value s⌝⦄ :=
  triple_and (runBody_specP L c hU hT hS x st) (runBody_cov L c hU hT hS hC hV x st) fun _ h => ⟨h.1, h⟩

/-- `parseRun` from the tokenizer loop on: afterwards the runs are covered up to the end of the run the tokenizer is
    in. -/
theorem runMain_cov (L : Lims) (c : ICtx) (hU : UnpOK c L) (hT : TokScan2 c L.hi) (hS : LinkScan2 c L.hi)
    (hC : LinkCover c) (hV : TokCover c) (pos : Int) :
    ⦃fun s => ⌜SPT L.lo L.hi pos s ∧ PosOK c s pos ∧ StkNN c s ∧ CovBelow c s.nodes pos⌝⦄ runMain c pos
    ⦃⇓? _ s => ⌜StkNN c s ∧ CovBelow c s.nodes (spanEndOf c s)⌝⦄ := by
  mvcgen [runMain, setIgnoreNextIndent, spanEnd, addText, -CM.Proofs.InlH2.runBody_specP, -addLeaf_specP, 
    -CM.Proofs.InlH.refPart_specP, -CM.Proofs.InlH.parseEndBracket_specP, -CM.Proofs.InlH.tokC_specP, 
    -CM.Proofs.InlH.tokA_specP, -CM.Proofs.InlH.tokCode_specP, -CM.Proofs.InlH.tokLt_specP, 
    -CM.Proofs.InlH.runBody_specP, -CM.Proofs.InlH.refPart_specC, -CM.Proofs.InlH.parseEndBracket_specC, 
    -CM.Proofs.InlH.runBody_specC, -CM.Proofs.InlH.parseRun_specC]
  case inv1 => exact PostCond.mayThrow (fun (q : _ × TokSt) s => ⌜RunInv L c q.2 s ∧ RunCov c q.2 s⌝)
  inl_norm
  all_goals (try (intros; assumption))
  all_goals (try (exact fun h => h))
  · intro s h1 h2
    cases ‹ForInStep TokSt› <;> exact ⟨h1, h2⟩
  · obtain ⟨h1, h2, h3, h4⟩ := ‹SPT _ _ _ _ ∧ _›
    exact ⟨⟨h1.congr rfl rfl rfl, Int.le_refl _, h2⟩, h3, h4⟩
  · obtain ⟨⟨h1, h2, h3⟩, h4, h5⟩ := ‹RunInv _ _ _ _ ∧ RunCov _ _ _›
    exact ⟨trivial, h1, hU.se_le' _ (by have := h1.lo_le; have := h1.F_le; omega), h4⟩
  · intro hq hq2 _ g1 g2 g3
    obtain ⟨⟨h1, h2, h3⟩, h4, h5⟩ := ‹RunInv _ _ _ _ ∧ RunCov _ _ _›
    refine ⟨g1, ?_⟩
    rw [spanEndOf_congrC c hq2]
    exact (h5.addText g2 g3 (Int.le_refl _)).mono (by omega)

theorem parseRun'_cov (L : Lims) (c : ICtx) (hU : UnpOK c L) (hT : TokScan2 c L.hi) (hS : LinkScan2 c L.hi)
    (hC : LinkCover c) (hV : TokCover c) (s0 : IState) :
    ⦃fun s => ⌜s = s0 ∧ SPT L.lo L.hi (c.unparsed[s0.unparsedPos]!).label.start s ∧
        s0.unparsedPos < c.unparsed.size ∧ StkNN c s ∧
        CovBelow c s.nodes (c.unparsed[s0.unparsedPos]!).label.start⌝⦄
    parseRun' c
    ⦃⇓? _ s => ⌜StkNN c s ∧ CovBelow c s.nodes (spanEndOf c s)⌝⦄ := by
  mvcgen [parseRun', spanEnd, runMain_cov, -runMain_specP, -CM.Proofs.InlH.refPart_specP, 
    -CM.Proofs.InlH.parseEndBracket_specP, -CM.Proofs.InlH.tokC_specP, -CM.Proofs.InlH.tokA_specP, 
    -CM.Proofs.InlH.tokCode_specP, -CM.Proofs.InlH.tokLt_specP, -CM.Proofs.InlH.runBody_specP, 
    -CM.Proofs.InlH.refPart_specC, -CM.Proofs.InlH.parseEndBracket_specC, -CM.Proofs.InlH.runBody_specC, 
    -CM.Proofs.InlH.parseRun_specC]
  case inv1 =>
    exact PostCond.mayThrow (fun (q : _ × Int) s =>
      ⌜s = s0 ∧ (c.unparsed[s0.unparsedPos]!).label.start ≤ q.2 ∧ q.2 ≤ spanEndOf c s0 ∧
        CovBelow c s0.nodes q.2⌝)
  inl_norm
  all_goals (try (intros; assumption))
  all_goals (try (exact fun h => h))
  · obtain ⟨rfl, h⟩ := ‹_ = s0 ∧ _ ≤ _ ∧ _›
    obtain ⟨rfl, -⟩ := ‹_ = _ ∧ (0 : Int) ≤ _ ∧ _›
    exact ⟨rfl, h⟩
  · obtain ⟨rfl, h1, h2, h3⟩ := ‹_ = s0 ∧ _ ≤ _ ∧ _›
    obtain ⟨rfl, b0, b1, b2⟩ := ‹_ = _ ∧ (0 : Int) ≤ _ ∧ _›
    have hg := ‹¬(!decide (_ < _)) = true›
    simp only [Bool.not_eq_true', Bool.not_eq_false', decide_eq_true_eq, Bool.not_eq_false] at hg
    have hw := ‹¬(!(_ == CM.SP || _ == TAB)) = true›
    simp only [Bool.not_eq_true', Bool.not_eq_false', Bool.not_eq_false] at hw
    refine ⟨rfl, ?_, ?_, ?_⟩
    · show _ ≤ _ + 1; omega
    · show _ + 1 ≤ _; omega
    · refine h3.step (Keep.refl _ _) (CovSeg.of_noNeed ?_)
      rcases Bool.or_eq_true_iff.1 hw with h | h
      · exact noNeed_beq b2 h (by decide +kernel)
      · exact noNeed_beq b2 h (by decide +kernel)
  · obtain ⟨rfl, hsp, hu, hnn, hcb⟩ := ‹_ = s0 ∧ SPT _ _ _ _ ∧ _›
    obtain ⟨rfl, hr⟩ := ‹_ = _ ∧ _[_]? = some _›
    have e := get!_of_get? hr
    refine ⟨rfl, ?_, ?_, ?_⟩
    · show _ ≤ (Tree.label _).start; rw [e]; exact Int.le_refl _
    · show (Tree.label _).start ≤ _
      rw [← e, spanEndOf_lt c _ hu]; exact (hU.bounds _ hu).2.1
    · show CovBelow c _ (Tree.label _).start
      rw [← e]; exact hcb
  · obtain ⟨rfl, hsp, hu, hnn, hcb⟩ := ‹_ = s0 ∧ SPT _ _ _ _ ∧ _›
    obtain ⟨rfl, h1, h2, h3⟩ := ‹_ = _ ∧ _ ≤ _ ∧ _›
    have := hU.se_le hu
    exact ⟨hsp.mono h1 (by omega), posOK_of rfl h2, hnn, h3⟩
  · obtain ⟨rfl, hsp, hu, hnn, hcb⟩ := ‹_ = s0 ∧ SPT _ _ _ _ ∧ _›
    obtain ⟨rfl, hr⟩ := ‹_ = _ ∧ _[_]? = some _›
    have e := get!_of_get? hr
    show SPT L.lo L.hi (Tree.label _).start _ ∧ PosOK c _ (Tree.label _).start ∧ _ ∧ CovBelow c _ (Tree.label _).start
    rw [← e]
    refine ⟨hsp, posOK_of rfl ?_, hnn, hcb⟩
    rw [spanEndOf_lt c _ hu]; exact (hU.bounds _ hu).2.1

/-- `parseRun`: the span invariant and the coverage up to the end of the run the tokenizer is in afterwards. -/
@[spec 41000]
theorem parseRun_specC (L : Lims) (c : ICtx) (hU : UnpOK c L) (hT : TokScan2 c L.hi) (hS : LinkScan2 c L.hi)
    (hC : LinkCover c) (hV : TokCover c) (s0 : IState) :
    ⦃fun s => ⌜s = s0 ∧ SPT L.lo L.hi (c.unparsed[s0.unparsedPos]!).label.start s ∧
        s0.unparsedPos < c.unparsed.size ∧ StkNN c s ∧
        CovBelow c s.nodes (c.unparsed[s0.unparsedPos]!).label.start⌝⦄
    parseRun c
    ⦃⇓? _ s => ⌜(∃ F, SPT L.lo L.hi F s ∧ PosOK c s F) ∧ StkNN c s ∧ CovBelow c s.nodes (spanEndOf c s)⌝⦄ := by
  rw [parseRun_eq]
  exact triple_and (parseRun'_specP L c hU hT hS s0) (parseRun'_cov L c hU hT hS hC hV s0)
    fun _ h => ⟨⟨h.1, h.2.1, h.2.2.1⟩, h⟩

end CM.Proofs.InlH2
