import CM.Proofs.InlInvRun
import CM.Spec.TreeWF
/-
From the arena to trees: what the nodes of `exportNode` are, the generic theorem about `parseInlines`
(every node of the output comes from an arena node satisfying `φ`, for every `φ` with `NodeInv`), and the
lifting of a property of all tree nodes through `rewriteE`.
-/
namespace CM.Proofs.InlH
open CM CM.Model CM.Model.Inl CM.Spec

/-! ### `T.nodes` -/

theorem nodes_eq (t : Tree) : T.nodes t = t :: T.nodesL t.children := by
  obtain ⟨l, cs⟩ := t
  rw [T.nodes]; rfl

theorem mem_nodesL {t : Tree} : ∀ {cs : List Tree}, t ∈ T.nodesL cs → ∃ c ∈ cs, t ∈ T.nodes c := by
  intro cs
  induction cs with
  | nil => intro h; simp [T.nodesL] at h
  | cons c rest ih =>
    intro h
    rw [T.nodesL, List.mem_append] at h
    rcases h with h | h
    · exact ⟨c, List.mem_cons_self .., h⟩
    · obtain ⟨c', hc', ht⟩ := ih h
      exact ⟨c', List.mem_cons_of_mem _ hc', ht⟩

theorem nodesL_of_mem {t c : Tree} : ∀ {cs : List Tree}, c ∈ cs → t ∈ T.nodes c → t ∈ T.nodesL cs := by
  intro cs
  induction cs with
  | nil => intro h; cases h
  | cons d rest ih =>
    intro h ht
    rw [T.nodesL, List.mem_append]
    rcases List.mem_cons.1 h with rfl | h
    · exact Or.inl ht
    · exact Or.inr (ih h ht)

theorem self_mem_nodes (t : Tree) : t ∈ T.nodes t := by rw [nodes_eq]; exact List.mem_cons_self ..

theorem nodesL_children_sub {t u : Tree} (h : t ∈ T.nodesL u.children) : t ∈ T.nodes u := by
  rw [nodes_eq]; exact List.mem_cons_of_mem _ h

theorem nodesL_append_iff {t : Tree} {a b : List Tree} : t ∈ T.nodesL (a ++ b) ↔ t ∈ T.nodesL a ∨ t ∈ T.nodesL b := by
  constructor
  · intro h
    obtain ⟨c, hc, ht⟩ := mem_nodesL h
    rcases List.mem_append.1 hc with h' | h'
    · exact Or.inl (nodesL_of_mem h' ht)
    · exact Or.inr (nodesL_of_mem h' ht)
  · rintro (h | h)
    · obtain ⟨c, hc, ht⟩ := mem_nodesL h
      exact nodesL_of_mem (List.mem_append_left _ hc) ht
    · obtain ⟨c, hc, ht⟩ := mem_nodesL h
      exact nodesL_of_mem (List.mem_append_right _ hc) ht

/-- Transitivity: a node of a node of `u` is a node of `u`. -/
theorem nodes_trans : ∀ (n : Nat) (u : Tree), u.size ≤ n → ∀ t v, v ∈ T.nodes u → t ∈ T.nodes v → t ∈ T.nodes u := by
  intro n
  induction n with
  | zero => intro u hu; obtain ⟨l, cs⟩ := u; simp [Tree.size] at hu
  | succ n ih =>
    intro u hu t v hv ht
    rw [nodes_eq] at hv
    rcases List.mem_cons.1 hv with rfl | hv
    · exact ht
    · obtain ⟨c, hc, hvc⟩ := mem_nodesL hv
      have hcs : c.size ≤ n := by
        obtain ⟨l, cs⟩ := u
        have : ∀ (cs : List Tree), c ∈ cs → c.size ≤ Tree.sizeL cs := by
          intro cs
          induction cs with
          | nil => intro h; cases h
          | cons d rest ih' =>
            intro h
            rw [Tree.sizeL]
            rcases List.mem_cons.1 h with rfl | h
            · omega
            · have := ih' h; omega
        have h1 := this cs hc
        simp only [Tree.size] at hu
        omega
      exact nodesL_children_sub (nodesL_of_mem hc (ih c hcs t v hvc ht))

theorem nodes_trans' {t v u : Tree} (hv : v ∈ T.nodes u) (ht : t ∈ T.nodes v) : t ∈ T.nodes u :=
  nodes_trans u.size u (Nat.le_refl _) t v hv ht

/-! ### the exported arena -/

/-- The label `exportNode` gives an arena node. -/
def nodeLabel (n : INode) : Label :=
  { isBlock := false, kind := n.kind, start := n.start, stop := n.stop, indent := n.indent, ref := n.ref }

/-- The two marker leaves of `exportNode` (997: out of fuel, 996: dangling index). -/
def IsMarker (t : Tree) : Prop :=
  t = .node { isBlock := false, kind := 997 } [] ∨ t = .node { isBlock := false, kind := 996 } []

/-- Where a node of an exported tree comes from. -/
def FromArena (φ : INode → Prop) (t : Tree) : Prop :=
  IsMarker t ∨ ∃ m, φ m ∧ (t.label = nodeLabel m ∨ t ∈ T.nodesL m.sub)

theorem exportNode_nodes {φ : INode → Prop} {a : Array INode} (h : ANodes φ a) :
    ∀ (fuel id : Nat) (t : Tree), t ∈ T.nodes (exportNode a fuel id) → FromArena φ t := by
  intro fuel
  induction fuel with
  | zero =>
    intro id t ht
    rw [exportNode, T.nodes, T.nodesL, List.mem_singleton] at ht
    exact Or.inl (Or.inl ht)
  | succ fuel ih =>
    intro id t ht
    rw [exportNode] at ht
    split at ht
    · rw [T.nodes, T.nodesL, List.mem_singleton] at ht
      exact Or.inl (Or.inr ht)
    · rename_i n hn
      have hφ : φ n := by
        obtain ⟨hid, rfl⟩ := Array.getElem?_eq_some_iff.1 hn
        exact h id hid
      rw [T.nodes, List.mem_cons] at ht
      rcases ht with rfl | ht
      · exact Or.inr ⟨n, hφ, Or.inl rfl⟩
      · rcases nodesL_append_iff.1 ht with ht | ht
        · obtain ⟨c, hc, htc⟩ := mem_nodesL ht
          obtain ⟨k, _, rfl⟩ := List.mem_map.1 hc
          exact ih k t htc
        · exact Or.inr ⟨n, hφ, Or.inr ht⟩

/-! ### `parseInlines` -/

/-- The context `parseInlines` builds. -/
def inlCtx (x : IExt) (src : Bytes) (srcA : Array UInt8) (matchRef : Bytes → Bool) (unparsed : List Tree) : ICtx :=
  { x := x, src := src, srcA := srcA, unparsed := unparsed.toArray, unparsedL := unparsed,
    matchRef := matchRef, fl := rdFuel src unparsed }

/-- THE GENERIC THEOREM. For every per-node property `φ` that the parser establishes at its allocation sites and
    keeps at its modification sites (`NodeInv`), and that holds of the container's dummy root node: every node (at
    any depth) of every tree `parseInlines` returns is a marker leaf or comes from an arena node satisfying `φ` —
    it carries that node's label, or lies in one of its finished sub-trees. -/
theorem parseInlines_nodes (x : IExt) (src : Bytes) (srcA : Array UInt8) (matchRef : Bytes → Bool)
    (cstart cstop : Int) (unparsed : List Tree) (φ : INode → Prop)
    (hN : NodeInv (inlCtx x src srcA matchRef unparsed) φ)
    (hroot : φ { kind := 0, start := cstart, stop := cstop })
    (kids : List Tree) (h : parseInlines x src srcA matchRef cstart cstop unparsed = .ok kids) :
    ∀ t ∈ T.nodesL kids, FromArena φ t := by
  unfold parseInlines at h
  simp only [] at h
  split at h
  · cases h
  · rename_i u s hrun
    have hk : kids = (exportNode s.nodes (s.nodes.size + 1) 0).children := by
      cases h; rfl
    have hG0 : G φ { nodes := #[{ kind := 0, start := cstart, stop := cstop }], parentMap := #[none] } :=
      ⟨ANodes.singleton hroot, StackOK.empty, ⟨by simp, rfl⟩⟩
    have hG : G φ s := triple_run (parseBody_spec (c := inlCtx x src srcA matchRef unparsed) hN) hG0 hrun
    intro t ht
    rw [hk] at ht
    exact exportNode_nodes hG.nodes _ _ t (nodesL_children_sub ht)

/-! ### lifting through `rewriteE` -/

mutual
/-- The nodes of a block-phase tree that are still there after `Rewrite`: everything, except what lies below a
    container that is parsed (a block with an Unparsed inline child: its children are replaced). -/
def surv : Tree → List Tree
  | .node l cs => .node l cs :: (if !l.isBlock then T.nodesL cs else if hasUnparsed cs then [] else survL cs)
def survL : List Tree → List Tree
  | [] => []
  | c :: cs => surv c ++ survL cs
end

mutual
/-- The containers `Rewrite` parses: label and inline children. -/
def conts : Tree → List (Label × List Tree)
  | .node l cs => if !l.isBlock then [] else if hasUnparsed cs then [(l, cs)] else contsL cs
def contsL : List Tree → List (Label × List Tree)
  | [] => []
  | c :: cs => conts c ++ contsL cs
end

theorem mem_survL {t : Tree} : ∀ {cs : List Tree}, t ∈ survL cs ↔ ∃ c ∈ cs, t ∈ surv c := by
  intro cs
  induction cs with
  | nil => simp [survL]
  | cons c rest ih =>
    rw [survL, List.mem_append, ih]
    constructor
    · rintro (h | ⟨c', hc', h⟩)
      · exact ⟨c, List.mem_cons_self .., h⟩
      · exact ⟨c', List.mem_cons_of_mem _ hc', h⟩
    · rintro ⟨c', hc', h⟩
      rcases List.mem_cons.1 hc' with rfl | hc'
      · exact Or.inl h
      · exact Or.inr ⟨c', hc', h⟩

theorem mem_contsL {p : Label × List Tree} : ∀ {cs : List Tree}, p ∈ contsL cs ↔ ∃ c ∈ cs, p ∈ conts c := by
  intro cs
  induction cs with
  | nil => simp [contsL]
  | cons c rest ih =>
    rw [contsL, List.mem_append, ih]
    constructor
    · rintro (h | ⟨c', hc', h⟩)
      · exact ⟨c, List.mem_cons_self .., h⟩
      · exact ⟨c', List.mem_cons_of_mem _ hc', h⟩
    · rintro ⟨c', hc', h⟩
      rcases List.mem_cons.1 hc' with rfl | hc'
      · exact Or.inl h
      · exact Or.inr ⟨c', hc', h⟩

/-- Survivors are nodes; parsed containers are block nodes with an Unparsed child. -/
theorem surv_sub : ∀ (n : Nat) (t : Tree), t.size ≤ n → ∀ u ∈ surv t, u ∈ T.nodes t := by
  intro n
  induction n with
  | zero => intro t ht; obtain ⟨l, cs⟩ := t; simp [Tree.size] at ht
  | succ n ih =>
    intro t hsz u hu
    obtain ⟨l, cs⟩ := t
    rw [surv, List.mem_cons] at hu
    rcases hu with rfl | hu
    · exact self_mem_nodes _
    · refine nodesL_children_sub (u := .node l cs) ?_
      show u ∈ T.nodesL cs
      split at hu
      · exact hu
      · split at hu
        · cases hu
        · obtain ⟨c, hc, huc⟩ := mem_survL.1 hu
          have hcs : c.size ≤ n := by
            have : ∀ (cs : List Tree), c ∈ cs → c.size ≤ Tree.sizeL cs := by
              intro cs
              induction cs with
              | nil => intro h; cases h
              | cons d rest ih' =>
                intro h
                rw [Tree.sizeL]
                rcases List.mem_cons.1 h with rfl | h
                · omega
                · have := ih' h; omega
            have h1 := this cs hc
            simp only [Tree.size] at hsz
            omega
          exact nodesL_of_mem hc (ih c hcs u huc)

theorem conts_sub : ∀ (n : Nat) (t : Tree), t.size ≤ n → ∀ p ∈ conts t,
    Tree.node p.1 p.2 ∈ T.nodes t ∧ p.1.isBlock = true ∧ hasUnparsed p.2 = true := by
  intro n
  induction n with
  | zero => intro t ht; obtain ⟨l, cs⟩ := t; simp [Tree.size] at ht
  | succ n ih =>
    intro t hsz p hp
    obtain ⟨l, cs⟩ := t
    rw [conts] at hp
    split at hp
    · cases hp
    · rename_i hb
      split at hp
      · rename_i hu
        rw [List.mem_singleton] at hp
        subst hp
        exact ⟨self_mem_nodes _, by simpa using hb, hu⟩
      · obtain ⟨c, hc, hpc⟩ := mem_contsL.1 hp
        have hcs : c.size ≤ n := by
          have : ∀ (cs : List Tree), c ∈ cs → c.size ≤ Tree.sizeL cs := by
            intro cs
            induction cs with
            | nil => intro h; cases h
            | cons d rest ih' =>
              intro h
              rw [Tree.sizeL]
              rcases List.mem_cons.1 h with rfl | h
              · omega
              · have := ih' h; omega
          have h1 := this cs hc
          simp only [Tree.size] at hsz
          omega
        obtain ⟨h1, h2, h3⟩ := ih c hcs p hpc
        exact ⟨nodesL_children_sub (u := .node l cs) (nodesL_of_mem hc h1), h2, h3⟩

/-- A property of all nodes of a tree through `rewriteE`: if it holds of every block-phase node that survives
    (`surv`), and the inline phase establishes it for the new children of every container it parses (`conts`; `R l cs`
    is what is known about the container before), it holds of every node of the rewritten tree.
    (A parsed container keeps its label but gets new children: `hlabel`.) -/
theorem rewriteE_nodes (x : IExt) (src : Bytes) (srcA : Array UInt8) (matchRef : Bytes → Bool) (Q : Tree → Prop)
    (R : Label → List Tree → Prop)
    (hparse : ∀ l cs kids, R l cs → parseInlines x src srcA matchRef l.start l.stop cs = .ok kids →
      ∀ t ∈ T.nodesL kids, Q t)
    (hlabel : ∀ l cs cs', Q (.node l cs) → l.isBlock = true → Q (.node l cs')) :
    ∀ (n : Nat) (t t' : Tree), t.size ≤ n →
      (∀ u ∈ surv t, Q u) → (∀ p ∈ conts t, R p.1 p.2) →
      rewriteE x src srcA matchRef t = .ok t' → ∀ u ∈ T.nodes t', Q u := by
  intro n
  induction n with
  | zero => intro t t' ht; obtain ⟨l, cs⟩ := t; simp [Tree.size] at ht
  | succ n ih =>
    intro t t' hsz hQ hR h
    obtain ⟨l, cs⟩ := t
    rw [rewriteE] at h
    split at h
    · rename_i hb
      cases h
      intro u hu
      refine hQ u ?_
      rw [surv, if_pos hb]
      rw [T.nodes] at hu
      exact hu
    · rename_i hb
      have hb' : l.isBlock = true := by simpa using hb
      have hself : Q (.node l cs) := hQ _ (by rw [surv]; exact List.mem_cons_self ..)
      split at h
      · rename_i hu
        split at h
        · rename_i kids hp
          cases h
          intro u hu'
          rw [T.nodes, List.mem_cons] at hu'
          rcases hu' with rfl | hu'
          · exact hlabel l cs kids hself hb'
          · refine hparse l cs kids (hR (l, cs) ?_) hp u hu'
            rw [conts, if_neg hb, if_pos hu]; exact List.mem_singleton.2 rfl
        · cases h
      · rename_i hu
        -- recurse into the children
        have hforest : ∀ (cs : List Tree) (cs' : List Tree), Tree.sizeL cs ≤ n →
            (∀ u ∈ survL cs, Q u) → (∀ p ∈ contsL cs, R p.1 p.2) →
            rewriteForestE x src srcA matchRef cs = .ok cs' → ∀ c' ∈ cs', ∀ u ∈ T.nodes c', Q u := by
          intro cs
          induction cs with
          | nil =>
            intro cs' _ _ _ h
            rw [rewriteForestE] at h
            cases h
            intro c' hc'; cases hc'
          | cons d rest ih' =>
            intro cs' hs hq hr h
            rw [rewriteForestE] at h
            rw [Tree.sizeL] at hs
            rw [survL] at hq
            rw [contsL] at hr
            split at h
            · cases h
            · rename_i d' hd
              split at h
              · cases h
              · rename_i rest' hrest
                cases h
                intro c' hc'
                rcases List.mem_cons.1 hc' with rfl | hc'
                · exact ih d c' (by omega) (fun u hu => hq u (List.mem_append_left _ hu))
                    (fun p hp => hr p (List.mem_append_left _ hp)) hd
                · exact ih' rest' (by omega) (fun u hu => hq u (List.mem_append_right _ hu))
                    (fun p hp => hr p (List.mem_append_right _ hp)) hrest c' hc'
        split at h
        · rename_i kids hk
          cases h
          intro u hu'
          rw [T.nodes, List.mem_cons] at hu'
          rcases hu' with rfl | hu'
          · exact hlabel l cs kids hself hb'
          · obtain ⟨c', hc', huc⟩ := mem_nodesL hu'
            refine hforest cs kids (by simp only [Tree.size] at hsz; omega) ?_ ?_ hk c' hc' u huc
            · intro u hu'
              refine hQ u ?_
              rw [surv, if_neg hb, if_neg hu]; exact List.mem_cons_of_mem _ hu'
            · intro p hp
              refine hR p ?_
              rw [conts, if_neg hb, if_neg hu]; exact hp
        · cases h

end CM.Proofs.InlH
