import CM.Model.Inlines
/-
C12 — the inline parser returns inline nodes, part 1: a small program logic for "the dummy root of the arena keeps an
empty `sub` list" (`RootSub`), and the arena primitives.
-/
namespace CM.Proofs.RK
open CM CM.Model CM.Gen CM.Model.Inl

/-- The dummy root (arena node 0) exists and has no finished children. -/
def RootSub (s : IState) : Prop := ∃ n, s.nodes[0]? = some n ∧ n.sub = []

/-- `m` keeps `RootSub` when it terminates normally. -/
def Safe {α : Type} (m : IM α) : Prop := ∀ s, RootSub s → ∀ a s', m.run s = .ok (a, s') → RootSub s'

theorem Safe.pure {α : Type} (a : α) : Safe (Pure.pure a : IM α) := by
  intro s hs a' s' h
  cases h; exact hs

theorem Safe.throw {α : Type} (e : IErr) : Safe (throw e : IM α) := by
  intro s hs a' s' h
  cases h

theorem Safe.bind {α β : Type} {m : IM α} {f : α → IM β} (hm : Safe m) (hf : ∀ a, Safe (f a)) : Safe (m >>= f) := by
  intro s hs b s' h
  rw [StateT.run_bind] at h
  cases hms : m.run s with
  | error e => rw [hms] at h; cases h
  | ok p =>
    obtain ⟨a, s1⟩ := p
    rw [hms] at h
    exact hf a s1 (hm s hs a s1 hms) b s' h

/-- After `get` the bound state is the current one. -/
theorem Safe.bind_get {β : Type} {f : IState → IM β} (hf : ∀ s, RootSub s → Safe (f s)) : Safe (get >>= f) := by
  intro s hs b s' h
  rw [StateT.run_bind] at h
  exact hf s hs s hs b s' h

theorem Safe.ite {α : Type} (c : Prop) [Decidable c] {t e : IM α} (ht : Safe t) (he : Safe e) :
    Safe (if c then t else e) := by
  split
  · exact ht
  · exact he

theorem Safe.get : Safe (get : IM IState) := by
  intro s hs a s' h
  cases h; exact hs

theorem Safe.modify {f : IState → IState} (hf : ∀ s, RootSub s → RootSub (f s)) : Safe (modify f : IM Unit) := by
  intro s hs a s' h
  cases h; exact hf s hs

theorem Safe.set_of {s0 : IState} (h0 : RootSub s0) : Safe (set s0 : IM Unit) := by
  intro s hs a s' h
  cases h; exact h0

theorem Safe.forInList {α β : Type} (f : α → β → IM (ForInStep β)) (hf : ∀ a b, Safe (f a b)) :
    ∀ (l : List α) (init : β), Safe (forIn l init f) := by
  intro l
  induction l with
  | nil => intro init; exact Safe.pure init
  | cons a rest ih =>
    intro init
    rw [List.forIn_cons]
    apply Safe.bind (hf a init)
    intro x
    cases x with
    | done b => exact Safe.pure b
    | yield b => exact ih b

theorem Safe.forInRange {β : Type} (r : Std.Legacy.Range) (init : β) (f : Nat → β → IM (ForInStep β))
    (hf : ∀ a b, Safe (f a b)) : Safe (forIn r init f) := by
  rw [Std.Legacy.Range.forIn_eq_forIn_range']
  exact Safe.forInList f hf _ init

theorem Safe.forInArray {α β : Type} (xs : Array α) (init : β) (f : α → β → IM (ForInStep β))
    (hf : ∀ a b, Safe (f a b)) : Safe (forIn xs init f) := by
  rw [← Array.forIn_toList]
  exact Safe.forInList f hf _ init

/-! ### the arena primitives -/

theorem RootSub.of_nodes {s s' : IState} (h : RootSub s) (he : s'.nodes = s.nodes) : RootSub s' := by
  obtain ⟨n, hn, hs⟩ := h
  exact ⟨n, by rw [he]; exact hn, hs⟩

theorem safe_alloc (n : INode) : Safe (alloc n) := by
  intro s hs a s' h
  unfold alloc at h
  cases h
  obtain ⟨n0, hn0, hsub⟩ := hs
  refine ⟨n0, ?_, hsub⟩
  show (s.nodes.push n)[0]? = some n0
  rw [Array.getElem?_push]
  have hlt : 0 < s.nodes.size := by
    rcases Nat.eq_zero_or_pos s.nodes.size with h0 | h0
    · rw [Array.getElem?_eq_none (by omega)] at hn0; cases hn0
    · exact h0
  rw [if_neg (by omega)]
  exact hn0

theorem safe_modifyNode (id : Nat) (f : INode → INode) (hf : ∀ n, (f n).sub = n.sub) : Safe (modifyNode id f) := by
  apply Safe.modify
  intro s hs
  obtain ⟨n0, hn0, hsub⟩ := hs
  show ∃ n, (s.nodes.modify id f)[0]? = some n ∧ n.sub = []
  rw [Array.getElem?_modify]
  split
  · rename_i hid
    subst hid
    rw [hn0]
    exact ⟨f n0, rfl, by rw [hf]; exact hsub⟩
  · exact ⟨n0, hn0, hsub⟩

theorem safe_getNode (id : Nat) : Safe (getNode id) := Safe.bind Safe.get (fun _ => Safe.pure _)

theorem safe_setParent (id : Nat) (p : Option Nat) : Safe (setParent id p) :=
  Safe.modify (fun _ hs => hs.of_nodes rfl)

theorem safe_pushStack (e : DelimE) : Safe (pushStack e) := Safe.modify (fun _ hs => hs.of_nodes rfl)
theorem safe_setUnparsedPos (n : Nat) : Safe (setUnparsedPos n) := Safe.modify (fun _ hs => hs.of_nodes rfl)
theorem safe_setIgnoreNextIndent (b : Bool) : Safe (setIgnoreNextIndent b) := Safe.modify (fun _ hs => hs.of_nodes rfl)

theorem safe_goPanic {α : Type} (msg : String) : Safe (goPanic msg : IM α) := Safe.throw _
theorem safe_outOfFuel {α : Type} (msg : String) : Safe (outOfFuel msg : IM α) := Safe.throw _

/-! ### automation -/

syntax "safe_prim" : tactic
macro_rules | `(tactic| safe_prim) => `(tactic| first
  | exact Safe.pure _
  | exact Safe.throw _
  | exact Safe.get
  | exact safe_goPanic _
  | exact safe_outOfFuel _
  | exact safe_alloc _
  | exact safe_getNode _
  | exact safe_setParent _ _
  | exact safe_pushStack _
  | exact safe_setUnparsedPos _
  | exact safe_setIgnoreNextIndent _
  | (apply safe_modifyNode; intro _; with_unfolding_all rfl)
  | (apply Safe.modify; intro _ hs; exact RootSub.of_nodes hs rfl)
  | (apply Safe.set_of; refine RootSub.of_nodes ‹RootSub _› ?_; with_unfolding_all rfl)
  | assumption)

syntax "safe_step" : tactic
macro_rules | `(tactic| safe_step) => `(tactic| with_reducible first
  | safe_prim
  | (apply Safe.bind_get; intro _ _)
  | apply Safe.bind
  | intro _
  | apply Safe.forInRange
  | apply Safe.forInArray
  | apply Safe.ite
  | split
  | simp only [])

syntax "safe" : tactic
macro_rules | `(tactic| safe) => `(tactic| repeat' safe_step)

theorem safe_nodeLen (id : Nat) : Safe (nodeLen id) := by unfold nodeLen; safe
macro_rules | `(tactic| safe_prim) => `(tactic| exact safe_nodeLen _)

theorem safe_addToRoot (id : Nat) : Safe (addToRoot id) := by unfold addToRoot; safe
macro_rules | `(tactic| safe_prim) => `(tactic| exact safe_addToRoot _)

theorem safe_addLeaf (kind : Nat) (a b : Int) : Safe (addLeaf kind a b) := by unfold addLeaf; safe
macro_rules | `(tactic| safe_prim) => `(tactic| exact safe_addLeaf _ _ _)

theorem safe_addText (a b : Int) : Safe (addText a b) := safe_addLeaf _ _ _
macro_rules | `(tactic| safe_prim) => `(tactic| exact safe_addText _ _)

theorem safe_importNode (t : Tree) : Safe (importNode t) := by unfold importNode; safe
macro_rules | `(tactic| safe_prim) => `(tactic| exact safe_importNode _)

theorem safe_delStack (i j : Nat) : Safe (delStack i j) := by unfold delStack; safe
macro_rules | `(tactic| safe_prim) => `(tactic| exact safe_delStack _ _)

theorem safe_srcAt (c : ICtx) (i : Int) : Safe (srcAt c i) := by unfold srcAt; safe
macro_rules | `(tactic| safe_prim) => `(tactic| exact safe_srcAt _ _)
theorem safe_spanEnd (c : ICtx) : Safe (spanEnd c) := by unfold spanEnd; safe
macro_rules | `(tactic| safe_prim) => `(tactic| exact safe_spanEnd _)

theorem safe_srcIs (c : ICtx) (i : Int) (b : UInt8) : Safe (srcIs c i b) := by unfold srcIs; safe
macro_rules | `(tactic| safe_prim) => `(tactic| exact safe_srcIs _ _ _)

theorem safe_guardAt (cond : Bool) (c : ICtx) (i : Int) (b : UInt8) : Safe (guardAt cond c i b) := by unfold guardAt; safe
macro_rules | `(tactic| safe_prim) => `(tactic| exact safe_guardAt _ _ _ _)

theorem safe_srcSlice (c : ICtx) (lo hi : Int) : Safe (srcSlice c lo hi) := by unfold srcSlice; safe
macro_rules | `(tactic| safe_prim) => `(tactic| exact safe_srcSlice _ _ _)

theorem safe_isLastSpan (c : ICtx) : Safe (isLastSpan c) := by unfold isLastSpan; safe
macro_rules | `(tactic| safe_prim) => `(tactic| exact safe_isLastSpan _)

theorem safe_unparsedFrom (c : ICtx) : Safe (unparsedFrom c) := by unfold unparsedFrom; safe
macro_rules | `(tactic| safe_prim) => `(tactic| exact safe_unparsedFrom _)

theorem safe_unparsedAt (c : ICtx) : Safe (unparsedAt c) := by unfold unparsedAt; safe
macro_rules | `(tactic| safe_prim) => `(tactic| exact safe_unparsedAt _)

theorem safe_wrap (kind startNode : Nat) (endNode : Option Nat) : Safe (wrap kind startNode endNode) := by unfold wrap; safe
macro_rules | `(tactic| safe_prim) => `(tactic| exact safe_wrap _ _ _)

theorem safe_removeNode (node : Nat) : Safe (removeNode node) := by unfold removeNode; safe
macro_rules | `(tactic| safe_prim) => `(tactic| exact safe_removeNode _)

theorem safe_processEmphasis (stackBottom : Nat) : Safe (processEmphasis stackBottom) := by unfold Inl.processEmphasis; safe
macro_rules | `(tactic| safe_prim) => `(tactic| exact safe_processEmphasis _)

theorem safe_parseDelimiterRun (c : ICtx) (start : Int) : Safe (parseDelimiterRun c start) := by unfold parseDelimiterRun; safe
macro_rules | `(tactic| safe_prim) => `(tactic| exact safe_parseDelimiterRun _ _)

theorem safe_parseBackslash (c : ICtx) (start : Int) : Safe (parseBackslash c start) := by unfold parseBackslash; safe
macro_rules | `(tactic| safe_prim) => `(tactic| exact safe_parseBackslash _ _)

theorem safe_parseCodeSpan (c : ICtx) (start : Int) : Safe (parseCodeSpan c start) := by unfold parseCodeSpan; safe
macro_rules | `(tactic| safe_prim) => `(tactic| exact safe_parseCodeSpan _ _)

theorem safe_csAddSpan (c : ICtx) (acc : Array CSN) (start stop : Int) : Safe (csAddSpan c acc start stop) := by unfold csAddSpan; safe
macro_rules | `(tactic| safe_prim) => `(tactic| exact safe_csAddSpan _ _ _ _)

theorem safe_stripCodeSpanSpace (c : ICtx) (slice : Array CSN) : Safe (stripCodeSpanSpace c slice) := by unfold stripCodeSpanSpace; safe
macro_rules | `(tactic| safe_prim) => `(tactic| exact safe_stripCodeSpanSpace _ _)

theorem safe_collectCodeSpan (c : ICtx) (cs : CodeSpan) : Safe (collectCodeSpan c cs) := by unfold collectCodeSpan; safe
macro_rules | `(tactic| safe_prim) => `(tactic| exact safe_collectCodeSpan _ _)

theorem safe_lookForLinkOrImage  : Safe (lookForLinkOrImage) := by unfold lookForLinkOrImage; safe
macro_rules | `(tactic| safe_prim) => `(tactic| exact safe_lookForLinkOrImage)

theorem safe_parseInlineLink (c : ICtx) (start : Int) : Safe (parseInlineLink c start) := by unfold parseInlineLink; safe
macro_rules | `(tactic| safe_prim) => `(tactic| exact safe_parseInlineLink _ _)

theorem safe_finishLink (kind openDelimIndex : Nat) : Safe (finishLink kind openDelimIndex) := by unfold finishLink; safe
macro_rules | `(tactic| safe_prim) => `(tactic| exact safe_finishLink _ _)

theorem safe_appendFinished (parent : Nat) (n : INode) : Safe (appendFinished parent n) := by unfold appendFinished; safe
macro_rules | `(tactic| safe_prim) => `(tactic| exact safe_appendFinished _ _)

theorem safe_parseEndBracket (c : ICtx) (start : Int) : Safe (parseEndBracket c start) := by unfold parseEndBracket; safe
macro_rules | `(tactic| safe_prim) => `(tactic| exact safe_parseEndBracket _ _)

theorem safe_parseRun (c : ICtx) : Safe (parseRun c) := by unfold parseRun; safe
macro_rules | `(tactic| safe_prim) => `(tactic| exact safe_parseRun _)

theorem safe_parseBody (c : ICtx) : Safe (parseBody c) := by unfold parseBody; safe
macro_rules | `(tactic| safe_prim) => `(tactic| exact safe_parseBody _)

/-! ### the result of `parseInlines` -/

theorem exportNode_nonblock (nodes : Array INode) : ∀ (fuel id : Nat), (exportNode nodes fuel id).label.isBlock = false := by
  intro fuel id
  cases fuel with
  | zero => rfl
  | succ f =>
    rw [exportNode]
    split <;> rfl

/-- **The inline parser returns inline nodes**: no tree in the result of `parseInlines` is marked as a block. -/
theorem parseInlines_nonblock (ix : IExt) (src : Bytes) (srcA : Array UInt8) (m : Bytes → Bool) (s e : Int)
    (cs kids : List Tree) (h : parseInlines ix src srcA m s e cs = .ok kids) : ∀ k ∈ kids, k.label.isBlock = false := by
  unfold parseInlines at h
  simp only [] at h
  split at h
  · cases h
  · rename_i u sf hrun
    cases h
    have h0 : RootSub { nodes := #[{ kind := 0, start := s, stop := e }], parentMap := #[none] } := ⟨_, rfl, rfl⟩
    obtain ⟨n0, hn0, hsub⟩ := safe_parseBody _ _ h0 _ _ hrun
    intro k hk
    rw [exportNode, hn0] at hk
    simp only [Tree.children, hsub, List.append_nil, List.mem_map] at hk
    obtain ⟨id, _, rfl⟩ := hk
    exact exportNode_nonblock _ _ _

end CM.Proofs.RK
