import CM.Proofs.BlocksSpansInl
/-
C02, block half — operations that leave the block structure alone (`LFrame`): cursor moves, `appendInline`,
relabelling the container, `collectInline`; and `endBlock` on a leaf, the setext heading.
-/
namespace CM.Proofs.BSp
open CM CM.Model CM.Gen CM.Proofs.BT

/-- `p'` is `p` up to cursor moves (forwards), inline children and label attributes of the container. -/
structure LFrame (p p' : LP) : Prop where
  src : p'.source = p.source
  ls : p'.lineStart = p.lineStart
  line : p'.line = p.line
  depth : p'.depth = p.depth
  belowEq : spineGet p'.root (p'.depth + 1) = spineGet p.root (p.depth + 1)
  above : ChainAbove p.lineStart p.depth p.root → ChainAbove p.lineStart p.depth p'.root
  ile : p.i ≤ p'.i

theorem LFrame.refl (p : LP) : LFrame p p := ⟨rfl, rfl, rfl, rfl, rfl, fun h => h, Nat.le_refl _⟩

theorem LFrame.trans {p q r : LP} (h1 : LFrame p q) (h2 : LFrame q r) : LFrame p r :=
  ⟨by rw [h2.src, h1.src], by rw [h2.ls, h1.ls], by rw [h2.line, h1.line], by rw [h2.depth, h1.depth],
   by rw [h2.belowEq, h1.belowEq], fun h => by
     have := h2.above (by rw [h1.ls, h1.depth]; exact h1.above h)
     rw [h1.ls, h1.depth] at this; exact this,
   Nat.le_trans h1.ile h2.ile⟩

theorem LFrame.of_tree {p p' : LP} (ht : BT.tree p' = BT.tree p) (hl : p'.line = p.line) (hi : p.i ≤ p'.i) : LFrame p p' := by
  simp only [BT.tree, Prod.mk.injEq] at ht
  obtain ⟨hs, hr, hd, hls⟩ := ht
  exact ⟨hs, hls, hl, hd, by rw [hr, hd], fun h => by rw [hr]; exact h, hi⟩

theorem LFrame.setState (p : LP) (s : Nat) : LFrame p { p with state := s } :=
  ⟨rfl, rfl, rfl, rfl, rfl, fun h => h, Nat.le_refl _⟩

theorem LFrame.below {Q : ParaPred} {p p' : LP} (f : LFrame p p') (h : Below Q p) : Below Q p' := by
  intro c hc ho
  rw [f.belowEq] at hc
  rw [f.ls]
  exact h c hc ho

theorem LFrame.tip {p p' : LP} (f : LFrame p p') (h : TipClosed p) : TipClosed p' := by
  intro c hc
  rw [f.belowEq] at hc
  exact h c hc

theorem LFrame.chainAbove {p p' : LP} (f : LFrame p p') (h : ChainAbove p.lineStart p.depth p.root) :
    ChainAbove p'.lineStart p'.depth p'.root := by
  rw [f.ls, f.depth]; exact f.above h

theorem LFrame.closeL {Q : ParaPred} {x : PExt} {p p' : LP} (f : LFrame p p') (h : CloseParaOK Q x p.source p.lineStart) :
    CloseParaOK Q x p'.source p'.lineStart := by rw [f.src, f.ls]; exact h

theorem LFrame.lineEnd {p p' : LP} (f : LFrame p p') : lineEnd p' = lineEnd p := by
  simp only [CM.Proofs.BSp.lineEnd, f.ls, f.line]

theorem LFrame.appendInline (p : LP) (t : Tree) : LFrame p (p.appendInline t) :=
  ⟨rfl, rfl, rfl, rfl, by
    show spineGet (p.appendInline t).root (p.depth + 1) = _
    rw [appendInline_root]; exact spineGet_modify_below _ (appendFn_blocks t) _ _,
   fun h => appendInline_above p t h, Nat.le_refl _⟩

theorem LFrame.modifyLabel (p : LP) (f : PLabel → PLabel) (hk : ∀ l, (f l).kind = l.kind) (he : ∀ l, (f l).stop = l.stop) :
    LFrame p (p.modifyContainer (PB.setLabel f)) :=
  ⟨rfl, rfl, rfl, rfl, spineGet_modify_below _ (setLabel_blocks f) _ _, fun h => modifyLabel_above p f hk he h, Nat.le_refl _⟩

theorem LFrame.of_adv {p p' : LP} {n : Nat} (a : AdvPost p p' n) : LFrame p p' :=
  LFrame.of_tree a.tree a.line (by rw [a.i]; omega)
theorem LFrame.of_ci {p p' : LP} {n : Nat} (a : CIPost p p' n) : LFrame p p' := LFrame.of_tree a.tree a.line a.ige
theorem LFrame.of_cl {p p' : LP} (a : CLPost p p') (hc : CurOK p) : LFrame p p' := LFrame.of_tree a.tree a.line (a.ile hc)

theorem MI.of_adv {Q : ParaPred} {p p' : LP} {n : Nat} (h : MI Q p) (a : AdvPost p p' n) : MI Q p' :=
  h.of_cursor a.tree a.line (by rw [a.i]; omega) a.cur.hi
theorem MI.of_ci {Q : ParaPred} {p p' : LP} {n : Nat} (h : MI Q p) (a : CIPost p p' n) : MI Q p' :=
  h.of_cursor a.tree a.line a.ige a.cur.hi
theorem MI.of_cl {Q : ParaPred} {p p' : LP} (h : MI Q p) (a : CLPost p p') (hc : CurOK p) : MI Q p' :=
  h.of_cursor a.tree a.line (a.ile hc) a.cur.hi

theorem MI.setState {Q : ParaPred} {p : LP} (h : MI Q p) (s : Nat) : MI Q { p with state := s } := ⟨h.base, h.sopen, h.ile⟩

theorem curPos_of_cl {p p' : LP} (a : CLPost p p') : curPos p' = lineEnd p := by
  have := a.tree
  simp only [BT.tree, Prod.mk.injEq] at this
  simp only [curPos, lineEnd, a.i, this.2.2.2]

/-- The chain condition at the container is a matter of the container block and the line start. -/
theorem ChainAt.of_tree {p p' : LP} (ht : BT.tree p' = BT.tree p) (h : ChainAt p) : ChainAt p' := by
  unfold ChainAt at h ⊢
  rw [containerKind_of_tree ht, container_of_tree ht]
  simp only [BT.tree, Prod.mk.injEq] at ht
  rw [ht.2.2.2]; exact h

/-! ### `collectInline` -/

/-- First stage of `collectInline`: the indent node. -/
def ciIndent (p1 : LP) : LP :=
  if p1.indent > 0 then
    (p1.advance (indentLength (p1.line.drop p1.i))).appendInline
      (.node { isBlock := false, kind := IK.indent, start := p1.lineStart + p1.i,
               stop := (p1.advance (indentLength (p1.line.drop p1.i))).lineStart + (p1.advance (indentLength (p1.line.drop p1.i))).i,
               indent := p1.indent } [])
  else p1

/-- The collected node. -/
def ciNode (x : PExt) (kind : Nat) (p2 : LP) (n : Nat) : Tree :=
  if kind == IK.infoString then
    mkInline IK.infoString (p2.lineStart + p2.i) ((p2.advance n).lineStart + (p2.advance n).i)
      (LP.infoStringLoop x.ext (p2.advance n).source ((p2.advance n).lineStart + (p2.advance n).i)
        (((p2.advance n).lineStart + (p2.advance n).i) - (p2.lineStart + p2.i) + 1) (p2.lineStart + p2.i) (p2.lineStart + p2.i) [])
  else mkInline kind (p2.lineStart + p2.i) ((p2.advance n).lineStart + (p2.advance n).i)

theorem collectInline_eq (x : PExt) (p : LP) (kind n : Nat) (hst : p.state ≠ 4) :
    p.collectInline x kind n =
      ((ciIndent { p with state := mm p.state }).advance n).appendInline (ciNode x kind (ciIndent { p with state := mm p.state }) n) := by
  unfold LP.collectInline
  have hs : (p.state == stateDescendTerminated) = false := by simpa [stateDescendTerminated] using hst
  simp only [hs, Bool.false_eq_true, if_false]
  rw [markMatched_eq]
  unfold ciNode
  split
  · rfl
  · rfl

theorem ciNode_label (x : PExt) (kind : Nat) (p2 : LP) (n : Nat) :
    (ciNode x kind p2 n).label.start = curPos p2 ∧ (ciNode x kind p2 n).label.stop = curPos (p2.advance n) := by
  unfold ciNode
  split <;> exact ⟨rfl, rfl⟩

/-- "Advance, then append the inline that spans what was skipped." -/
theorem advance_append_MI {Q : ParaPred} (q : LP) (k : Nat) (t : Tree) (hinv : Inv q) (hmi : MI Q q)
    (hnp : q.containerKind ≠ BK.paragraph) (hk : q.i + k ≤ q.line.length) (hs : t.label.start = curPos q)
    (he : t.label.stop = curPos (q.advance k)) :
    MI Q ((q.advance k).appendInline t) ∧ LFrame q ((q.advance k).appendInline t) ∧ Inv ((q.advance k).appendInline t) ∧
      ((q.advance k).appendInline t).containerKind = q.containerKind := by
  have a := advance_post q k hinv.cur hk
  have ia := a.inv hinv
  have hmia := hmi.of_adv a
  have hroot : (q.advance k).root = q.root := tree_root a.tree
  have hle : curPos q ≤ curPos (q.advance k) := by
    have := a.tree
    simp only [BT.tree, Prod.mk.injEq] at this
    simp only [curPos, a.i, this.2.2.2]; omega
  refine ⟨?_, (LFrame.of_adv a).trans (LFrame.appendInline _ t), appendInline_inv _ _ ia, ?_⟩
  · apply appendInline_MI _ t (curPos q) (by rw [hroot]; exact hmi.base) (by rw [hs]; exact Int.le_refl _) (by rw [hs, he]; exact hle)
      (by rw [he]; exact Int.le_refl _) hmia
    intro hk1
    rw [a.ckind] at hk1
    exact absurd hk1 hnp
  · rw [appendInline_containerKind _ _ ia.tree, a.ckind]

theorem ciIndent_MI {Q : ParaPred} (p1 : LP) (hinv : Inv p1) (hmi : MI Q p1) (hnp : p1.containerKind ≠ BK.paragraph) :
    MI Q (ciIndent p1) ∧ LFrame p1 (ciIndent p1) ∧ Inv (ciIndent p1) ∧ (ciIndent p1).containerKind = p1.containerKind ∧
      (ciIndent p1).i = p1.i + ciSkip p1 ∨
    (ciIndent p1 = p1 ∧ ciSkip p1 = 0) := by
  unfold ciIndent
  by_cases hpos : p1.indent > 0
  · left
    rw [if_pos hpos]
    have hsk : ciSkip p1 = indentLength (p1.line.drop p1.i) := by unfold ciSkip; rw [if_pos hpos]
    have hk : p1.i + indentLength (p1.line.drop p1.i) ≤ p1.line.length := by
      have := indentLength_le (p1.line.drop p1.i)
      simp only [List.length_drop] at this
      have := hinv.cur.hi
      omega
    have a := advance_post p1 _ hinv.cur hk
    obtain ⟨m1, m2, m3, m4⟩ := advance_append_MI p1 (indentLength (p1.line.drop p1.i))
      (.node { isBlock := false, kind := IK.indent, start := p1.lineStart + p1.i,
               stop := (p1.advance (indentLength (p1.line.drop p1.i))).lineStart + (p1.advance (indentLength (p1.line.drop p1.i))).i,
               indent := p1.indent } []) hinv hmi hnp hk rfl rfl
    refine ⟨m1, m2, m3, m4, ?_⟩
    show (p1.advance _).i = _; rw [a.i, hsk]
  · right
    rw [if_neg hpos]
    exact ⟨rfl, by unfold ciSkip; rw [if_neg hpos]⟩

theorem collectInline_MI {Q : ParaPred} (x : PExt) (p : LP) (kind n : Nat) (hinv : Inv p) (hst : p.state ≠ 4)
    (hb : p.i + ciSkip p + n ≤ p.line.length) (hmi : MI Q p) (hnp : p.containerKind ≠ BK.paragraph) :
    MI Q (p.collectInline x kind n) ∧ LFrame p (p.collectInline x kind n) := by
  rw [collectInline_eq x p kind n hst]
  let p1 : LP := { p with state := mm p.state }
  have hinv1 : Inv p1 := ⟨hinv.panic, ⟨hinv.cur.hi, hinv.cur.htab⟩, ⟨hinv.tree.root, hinv.tree.valid⟩⟩
  have hmi1 : MI Q p1 := hmi.setState _
  have hsk1 : ciSkip p1 = ciSkip p := by
    unfold ciSkip
    have : p1.indent = p.indent := indent_of_cur rfl
    rw [this]
  have key : ∀ p2 : LP, MI Q p2 → LFrame p1 p2 → Inv p2 → p2.containerKind = p1.containerKind → p2.i = p1.i + ciSkip p1 →
      MI Q ((p2.advance n).appendInline (ciNode x kind p2 n)) ∧ LFrame p ((p2.advance n).appendInline (ciNode x kind p2 n)) := by
    intro p2 m2 f2 i2 k2 e2
    have hl := ciNode_label x kind p2 n
    obtain ⟨r1, r2, _, _⟩ := advance_append_MI p2 n (ciNode x kind p2 n) i2 m2 (by rw [k2]; exact hnp)
      (by rw [e2, f2.line, hsk1]; exact hb) hl.1 hl.2
    exact ⟨r1, ((LFrame.setState p _).trans f2).trans r2⟩
  rcases ciIndent_MI p1 hinv1 hmi1 hnp with ⟨m1, m2, m3, m4, m5⟩ | ⟨e, hs0⟩
  · exact key _ m1 m2 m3 m4 m5
  · show MI Q (((ciIndent p1).advance n).appendInline (ciNode x kind (ciIndent p1) n)) ∧ _
    rw [e]
    exact key p1 hmi1 (LFrame.refl _) hinv1 rfl (by rw [hs0]; rfl)

/-! ### `endBlock` on a leaf container -/

theorem endBlock_eq (x : PExt) (p : LP) (hst : p.state ≤ 2) :
    p.endBlock x = ({ p with state := mm p.state } : LP).closeContainer x (curPos p) := by
  unfold LP.endBlock
  have hs : (p.state == stateDescending || p.state == stateDescendTerminated) = false := by
    simp only [stateDescending, stateDescendTerminated]
    have : p.state ≠ 3 := by omega
    have : p.state ≠ 4 := by omega
    simp [*]
  simp only [hs, Bool.false_eq_true, if_false]
  rw [markMatched_eq]
  rfl

theorem endBlock_leaf {Q : ParaPred} {x : PExt} {p : LP} (h : MI Q p) (hst : p.state ≤ 2) (hd : p.depth ≠ 0)
    (hk : isContainerKind p.containerKind = false) (hk1 : p.containerKind ≠ BK.paragraph) :
    MI Q (p.endBlock x) ∧ TipClosed (p.endBlock x) := by
  rw [endBlock_eq x p hst]
  exact closeContainer_leaf (p := { p with state := mm p.state }) (h.setState _) hd hk hk1

theorem endBlock_src (x : PExt) (p : LP) (hst : p.state ≤ 2) :
    (p.endBlock x).source = p.source ∧ (p.endBlock x).lineStart = p.lineStart ∧ (p.endBlock x).line = p.line ∧
    (p.endBlock x).i = p.i := by
  rw [endBlock_eq x p hst]
  exact closeContainer_src x _ _

/-- The chain above the container after `closeContainer` (depth ≥ 1). -/
theorem closeContainer_above (x : PExt) (p : LP) (e : Int) (hd : p.depth ≠ 0) (h : ChainAbove p.lineStart p.depth p.root) :
    ChainAbove (p.closeContainer x e).lineStart (p.closeContainer x e).depth (p.closeContainer x e).root := by
  rw [closeContainer_eq x p e hd]
  show ChainAbove p.lineStart (p.depth - 1) (spineReplaceLast _ p.root (p.depth - 1))
  rw [spineReplaceLast_eq]
  apply ChainAbove_modify _ (fun c => by rw [replaceLastFn_label]; exact ⟨rfl, rfl⟩)
  exact ChainAbove_le _ _ _ (by omega) h

theorem endBlock_above (x : PExt) (p : LP) (hst : p.state ≤ 2) (hd : p.depth ≠ 0) (h : ChainAbove p.lineStart p.depth p.root) :
    ChainAbove (p.endBlock x).lineStart (p.endBlock x).depth (p.endBlock x).root := by
  rw [endBlock_eq x p hst]
  exact closeContainer_above x { p with state := mm p.state } _ hd h

end CM.Proofs.BSp
