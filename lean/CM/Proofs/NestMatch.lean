import CM.Proofs.NestStarts
import CM.Proofs.QuoteMatch
/-
C09 (nested documents): the continuation rules (`match`) on related parsers and the loop of `descendOpenBlocks` below
the frame's container (port of `QuoteMatch`).
-/
namespace CM.Proofs.Nest
open CM CM.Model CM.Gen CM.Proofs.BT CM.Proofs.Quote

variable {F : Frame} {E : Env} {G : List Tree → Prop} {k : Nat} {p q : LP} {x : PExt}

/-- The results of a `match` function on both sides. -/
def MR (F : Frame) (E : Env) (G : List Tree → Prop) (k : Nat) (a b : Bool × LP) : Prop := b.1 = a.1 ∧ Sim F E G k a.2 b.2

theorem MR.mk' {a b : LP} (ok : Bool) (h : Sim F E G k a b) : MR F E G k (ok, a) (ok, b) := ⟨rfl, h⟩

theorem Sim.containerIndent_eq (h : Sim F E G k p q) (hd : 1 ≤ p.depth) : q.containerIndent = p.containerIndent := by
  unfold LP.containerIndent
  rw [h.cur.state, (h.container_pos hd).label.indent]

theorem ruleMatch_sim (_HG : GOK x E G) (h : Sim F E G k p q) (hd : 1 ≤ p.depth) (kind : Nat) (hkc : p.containerKind = kind) :
    OR (MR F E G k) (ruleMatch x kind p) (ruleMatch x kind q) := by
  have hcq : q.containerKind = p.containerKind := h.containerKind_pos hd
  have hlab := (h.container_pos hd).label
  by_cases hm : hasMatch kind
  · unfold hasMatch at hm
    rcases hm with rfl | rfl | rfl | rfl | rfl | rfl | rfl | rfl
    · rw [rm_doc, rm_doc]; exact .ss (MR.mk' _ h)
    · rw [rm_list, rm_list]; exact .ss (MR.mk' _ h)
    · -- list item
      rw [rm_item, rm_item, h.cur.isRestBlank]
      split
      · rw [hcq, (h.container_pos hd).childCount (by show p.containerKind ≠ _; rw [hkc]; decide)]
        split
        · exact .ss (MR.mk' _ h)
        · rw [h.cur.indent]; exact .ss (MR.mk' _ (h.consumeIndentN p.indent))
      · rw [h.containerIndent_eq hd]
        split
        · rename_i ci _
          rw [h.cur.indent]
          split
          · exact .ss (MR.mk' _ (h.consumeIndentN ci.toNat))
          · exact .ss (MR.mk' _ h)
        · exact .ss (MR.mk' _ h)
    · -- block quote
      rw [rm_quote, rm_quote, h.cur.indent, h.cur.bai]
      split
      · exact .ss (MR.mk' _ h)
      · split
        · exact .ss (MR.mk' _ h)
        · have h1 := (h.consumeIndentN p.indent).advance blockQuotePrefix.length
          rw [h1.cur.indent]
          split
          · exact .ss (MR.mk' _ (h1.consumeIndentN 1))
          · exact .ss (MR.mk' _ h1)
    · -- fenced code
      have hfc : fencedClosing q = fencedClosing p := by
        unfold fencedClosing
        rw [h.cur.indent, h.cur.bai, hlab.char, hlab.n]
      rw [rm_fenced, rm_fenced, hfc, h.cur.indent, h.containerIndent_eq hd]
      by_cases hcl : fencedClosing p = true
      · rw [if_pos hcl, if_pos hcl]
        exact .ss (MR.mk' _ h.consumeLine)
      · rw [if_neg hcl, if_neg hcl]
        by_cases hlt : p.indent < (p.containerIndent.getD 0).toNat
        · rw [if_pos hlt, if_pos hlt]
          exact .ss (MR.mk' _ (h.consumeIndentN p.indent))
        · rw [if_neg hlt, if_neg hlt]
          exact .ss (MR.mk' _ (h.consumeIndentN (p.containerIndent.getD 0).toNat))
    · -- indented code
      rw [rm_indented, rm_indented, h.cur.indent, h.cur.isRestBlank]
      by_cases hlt : p.indent < codeBlockIndentLimit
      · rw [if_pos hlt, if_pos hlt]
        by_cases hb : (!p.isRestBlank) = true
        · rw [if_pos hb, if_pos hb]
          exact .ss (MR.mk' _ h)
        · rw [if_neg hb, if_neg hb]
          exact .ss (MR.mk' _ (h.consumeIndentN p.indent))
      · rw [if_neg hlt, if_neg hlt]
        exact .ss (MR.mk' _ (h.consumeIndentN codeBlockIndentLimit))
    · -- HTML block
      rw [rm_html, rm_html, h.cur.bai, hlab.n, h.cur.isRestBlank]
      by_cases hend : htmlBlockEnd p.container.label.n.toNat p.bytesAfterIndent = true
      · rw [if_pos hend, if_pos hend]
        by_cases hb : p.isRestBlank = true
        · rw [if_pos hb, if_pos hb]
          exact .ss (MR.mk' _ h)
        · rw [if_neg hb, if_neg hb]
          have h1 := h.collectInline (x := x) hd (by rw [hkc]; decide) (by rw [hkc]; decide) IK.rawHTML p.bytesAfterIndent.length
          exact .ss (MR.mk' _ h1.consumeLine)
      · rw [if_neg hend, if_neg hend]
        exact .ss (MR.mk' _ h)
    · rw [rm_para, rm_para, h.cur.isRestBlank]; exact .ss (MR.mk' _ h)
  · have e1 : ruleMatch x kind p = none := by
      cases hr : ruleMatch x kind p with
      | none => rfl
      | some r => exact absurd (hasMatch_of_some x kind p hr) hm
    have e2 : ruleMatch x kind q = none := by
      cases hr : ruleMatch x kind q with
      | none => rfl
      | some r => exact absurd (hasMatch_of_some x kind q hr) hm
    rw [e1, e2]; exact .nn

/-! ### the child below the container -/

/-- The last child of the two containers: related, or none on the bare side and none or closed on the other. -/
theorem Sim.child (h : Sim F E G k p q) :
    (∃ c c', spineGet p.root (p.depth + 1) = some c ∧ spineGet q.root (q.depth + 1) = some c' ∧ BR E c c') ∨
    (spineGet p.root (p.depth + 1) = none ∧
      (spineGet q.root (q.depth + 1) = none ∨ ∃ c', spineGet q.root (q.depth + 1) = some c' ∧ c'.isOpen = false)) := by
  cases hc : spineGet p.root (p.depth + 1) with
  | some c =>
    left
    obtain ⟨c', e, r⟩ := h.root.spineGet_succ p.depth hc
    exact ⟨c, c', rfl, by rw [h.depth, show p.depth + F.d + 1 = p.depth + 1 + F.d by omega]; exact e, r⟩
  | none =>
    right
    refine ⟨rfl, ?_⟩
    rw [h.depth]
    cases hd : p.depth with
    | zero =>
      rw [hd] at hc
      obtain ⟨Qb, ht, hg⟩ := h.root.top
      rw [show 0 + F.d + 1 = 1 + F.d by omega, hg]
      exact ht.spineGet_one_none hc
    | succ d =>
      left
      have hv := h.valid
      rw [hd] at hv hc
      cases hcont : spineGet p.root (d + 1) with
      | none => rw [hcont] at hv; cases hv
      | some cont =>
        obtain ⟨cont', e', r⟩ := h.root.spineGet_succ d hcont
        rw [spineGet_add (d + 1) 1, hcont] at hc
        rw [spineGet_add (d + 1 + F.d) 1, e']
        simp only [Option.bind_some] at hc ⊢
        have := BR.spineGet_rel 1 cont cont' r
        rw [hc] at this
        exact this.none_left

/-! ### the loop of `descendOpenBlocks` -/

/-- Related up to the state. -/
def SimS (F : Frame) (E : Env) (G : List Tree → Prop) (k : Nat) (p q : LP) : Prop := Sim F E G k { p with state := stateDescending } { q with state := stateDescending }

theorem Sim.toS (h : Sim F E G k p q) : SimS F E G k p q := h.setState _

theorem SimS.toSim {p q : LP} (h : SimS F E G k p q) (hs : q.state = p.state) : Sim F E G k p q := by
  have := Sim.setState h p.state
  have e : ({ { q with state := stateDescending } with state := p.state } : LP) = q := by rw [← hs]
  rw [e] at this
  exact this

theorem Sim.withDepth (h : Sim F E G k p q) (d : Nat) (hv : (spineGet p.root d).isSome) :
    Sim F E G k { p with depth := d } { q with depth := d + F.d } := h.setRoot p.root q.root d h.root h.tp hv

/-- No `match` function is called for the last child of the container at depth `parent`. -/
def NoCall (p : LP) (parent : Nat) : Prop :=
  ∀ c, spineGet p.root (parent + 1) = some c → c.isOpen = true → ¬ hasMatch c.label.kind

theorem descendLoop_sim (HG : GOK x E G) : ∀ (fuelP fuelQ : Nat) (p q : LP) (parent : Nat), fuelP ≤ fuelQ →
    Inv { p with depth := parent } → spineLength p.root < parent + fuelP →
    SimS F E G k { p with depth := parent } { q with depth := parent + F.d } →
    (descendLoop x fuelQ q (parent + F.d)).1 = (descendLoop x fuelP p parent).1 ∧
    SimS F E G k (descendLoop x fuelP p parent).2 (descendLoop x fuelQ q (parent + F.d)).2 ∧
    ((descendLoop x fuelQ q (parent + F.d)).2.state = (descendLoop x fuelP p parent).2.state ∨
      ((descendLoop x fuelP p parent).2.state = p.state ∧ (descendLoop x fuelQ q (parent + F.d)).2.state = q.state ∧
        (descendLoop x fuelP p parent).2.depth = parent ∧ NoCall p parent)) := by
  intro fuelP
  induction fuelP with
  | zero =>
    intro fuelQ p q parent _ hinv hf _
    have := spineGet_le_spineLength parent p.root hinv.tree.valid
    omega
  | succ fuelP ih =>
    intro fuelQ p q parent hle hinv hf h
    obtain ⟨fq, rfl⟩ : ∃ fq, fuelQ = fq + 1 := ⟨fuelQ - 1, by omega⟩
    have hstop : SimS F E G k { p with depth := parent } { q with depth := parent + F.d } := h
    have eN : parent + F.d + 1 = parent + 1 + F.d := by omega
    unfold descendLoop
    rw [eN]
    rcases Sim.child h with ⟨c, c', hc, hc', r⟩ | ⟨hc, hq⟩
    · -- a child on both sides
      have hc1 : spineGet p.root (parent + 1) = some c := hc
      have hc2 : spineGet q.root (parent + 1 + F.d) = some c' := by rw [← eN]; exact hc'
      rw [hc1, hc2]
      simp only []
      rw [r.isOpen]
      by_cases ho : c.isOpen = true
      · rw [if_neg (by simp [ho]), if_neg (by simp [ho])]
        rw [r.kind]
        -- the `match` function of the child's kind
        have h1 : Sim F E G k { p with depth := parent + 1, state := stateDescending }
            { q with depth := parent + 1 + F.d, state := stateDescending } := by
          have := Sim.withDepth h (parent + 1) (by show (spineGet p.root (parent + 1)).isSome; rw [hc1]; rfl)
          exact this
        have hck : ({ p with depth := parent + 1, state := stateDescending } : LP).containerKind = c.kind := by
          simp only [LP.containerKind, LP.container, hc1, Option.getD_some]
        have hrm := ruleMatch_sim (x := x) HG h1 (by show 1 ≤ parent + 1; omega) c.kind hck
        have inv1 : Inv { p with depth := parent + 1, state := stateDescending } :=
          ⟨hinv.panic, ⟨hinv.cur.hi, hinv.cur.htab⟩, ⟨hinv.tree.root, by show (spineGet p.root (parent + 1)).isSome; rw [hc1]; rfl⟩⟩
        cases hrP : ruleMatch x c.kind { p with depth := parent + 1, state := stateDescending } with
        | none =>
          rw [hrP] at hrm
          rw [hrm.none_left]
          refine ⟨rfl, hstop, Or.inr ⟨rfl, rfl, rfl, ?_⟩⟩
          intro c0 hc0 _ hm
          rw [hc1] at hc0; cases hc0
          exact ruleMatch_none x _ _ hrP hm
        | some rp =>
          rw [hrP] at hrm
          obtain ⟨rq, hrQ, hmr⟩ := hrm.some_left
          rw [hrQ]
          obtain ⟨ok', p2⟩ := rp
          obtain ⟨ok, q2⟩ := rq
          obtain ⟨hok, h2⟩ := hmr
          simp only at hok h2
          subst hok
          simp only []
          have rm := ruleMatch_post x c.kind _ inv1 rfl ok p2 hrP
          have d2 : p2.depth = parent + 1 := rm.depth
          rw [h2.cur.state]
          by_cases ht : (p2.state == stateDescendTerminated) = true
          · rw [if_pos ht, if_pos ht]
            have h3 := h2.closeContainer (x := x) HG (by omega) (e := ↑p2.lineStart + ↑p2.i) (e' := ↑q2.lineStart + ↑q2.i)
              (by omega) (by omega) h2.pos
            have hdep : (p2.closeContainer x (↑p2.lineStart + ↑p2.i)).depth = parent := by
              unfold LP.closeContainer
              rw [if_neg (by simp; omega)]
              show p2.depth - 1 = parent
              omega
            have h4 := h3.withDepth parent (by rw [← hdep]; exact h3.valid)
            exact ⟨rfl, h4.toS, Or.inl h3.cur.state⟩
          · rw [if_neg ht, if_neg ht]
            by_cases hok : ok = true
            · rw [if_neg (by simp [hok]), if_neg (by simp [hok])]
              have s3 : p2.state = 3 := by
                rcases rm.st with h3 | h4
                · exact h3
                · rw [h4] at ht; exact absurd rfl ht
              have hr : p2.root = p.root := rm.root s3
              have hi2 : Inv { p2 with depth := parent + 1 } := rm.inv.setDepth (parent + 1) (by omega)
              have hsim2 : SimS F E G k { p2 with depth := parent + 1 } { q2 with depth := parent + 1 + F.d } := by
                apply Sim.toS
                exact h2.withDepth (parent + 1) (by rw [← d2]; exact h2.valid)
              have := ih fq p2 q2 (parent + 1) (by omega) hi2 (by rw [hr]; omega) hsim2
              refine ⟨this.1, this.2.1, Or.inl ?_⟩
              rcases this.2.2 with hs | ⟨hs1, hs2, _, _⟩
              · exact hs
              · rw [hs1, hs2]; exact h2.cur.state
            · rw [if_pos (by simp [hok]), if_pos (by simp [hok])]
              have hv : (spineGet p2.root parent).isSome :=
                spineGet_isSome_of_le p2.depth p2.root parent (by omega) rm.inv.tree.valid
              have h4 := h2.withDepth parent hv
              exact ⟨rfl, h4.toS, Or.inl rfl⟩
      · -- closed on both sides
        rw [if_pos (by simp [ho]), if_pos (by simp [ho])]
        refine ⟨rfl, hstop, Or.inr ⟨rfl, rfl, rfl, ?_⟩⟩
        intro c0 hc0 ho0 _
        rw [hc1] at hc0; cases hc0
        exact absurd ho0 ho
    · -- no child on the bare side
      have hc1 : spineGet p.root (parent + 1) = none := hc
      rw [hc1]
      have hnc : NoCall p parent := by
        intro c0 hc0 _ _
        rw [hc1] at hc0; cases hc0
      rcases hq with hq | ⟨c', hq, hcl⟩
      · have hq1 : spineGet q.root (parent + 1 + F.d) = none := by rw [← eN]; exact hq
        rw [hq1]
        exact ⟨rfl, hstop, Or.inr ⟨rfl, rfl, rfl, hnc⟩⟩
      · have hq1 : spineGet q.root (parent + 1 + F.d) = some c' := by rw [← eN]; exact hq
        rw [hq1]
        have hcl' : (!c'.isOpen) = true := by simp [hcl]
        simp only [hcl', if_true]
        exact ⟨trivial, hstop, Or.inr ⟨trivial, trivial, trivial, hnc⟩⟩


end CM.Proofs.Nest
