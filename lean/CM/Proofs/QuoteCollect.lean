import CM.Proofs.QuoteOps
import CM.Proofs.BGOps
/-
C09 (block-quote half): `CollectInline` on related parsers — the optional Indent node, the collected node, and the
children of an info string (`parseInfoString`, which reads the source at absolute positions).
-/
namespace CM.Proofs.Quote
open CM CM.Model CM.Gen CM.Proofs.BT

variable {E : Env} {k : Nat} {p q : LP}

/-! ### a character reference lies inside the text it is parsed from -/

theorem numericRefLoop_le (d : UInt8 → Bool) : ∀ (l : Bytes) (i n : Nat), numericRefLoop d l i = Int.ofNat n →
    n ≤ l.length + i := by
  intro l
  induction l with
  | nil => intro i n h; simp [numericRefLoop] at h
  | cons c rest ih =>
    intro i n h
    unfold numericRefLoop at h
    split at h
    · split at h
      · simp at h
      · have : (n : Int) = (i : Int) + 1 := by
          have := h; simp only [Int.ofNat_eq_natCast] at this; omega
        simp only [List.length_cons]; omega
    · split at h
      · simp at h
      · have := ih (i + 1) n h
        simp only [List.length_cons]; omega

theorem entityLoop_le (ext : Ext) (text : Bytes) : ∀ (l : Bytes) (i n : Nat), entityLoop ext text l i = Int.ofNat n →
    n ≤ l.length + i + 1 := by
  intro l
  induction l with
  | nil => intro i n h; simp [entityLoop] at h
  | cons c rest ih =>
    intro i n h
    unfold entityLoop at h
    split at h
    · split at h
      · simp at h
      · have : (n : Int) = (i : Int) + 2 := by
          have := h; simp only [Int.ofNat_eq_natCast] at this; omega
        simp only [List.length_cons]; omega
    · split at h
      · simp at h
      · have := ih (i + 1) n h
        simp only [List.length_cons]; omega

theorem parseCharacterEscape_le (ext : Ext) (text : Bytes) (n : Nat) (h : parseCharacterEscape ext text = Int.ofNat n) :
    n ≤ text.length := by
  unfold parseCharacterEscape at h
  split at h
  · simp at h
  · rename_i h3
    have hlen : 3 ≤ text.length := by
      simp only [Bool.or_eq_true, decide_eq_true_eq, not_or, Nat.not_lt] at h3
      exact h3.1
    split at h
    · have := entityLoop_le ext text (text.drop 1) 0 n h
      rw [List.length_drop] at this; omega
    · split at h
      · split at h
        · rename_i m hm
          have := numericRefLoop_le isHex _ 0 m hm
          rw [List.length_take, List.length_drop] at this
          have e : (n : Int) = (hexDigitStart : Int) + (m : Int) := by
            have := h; simp only [Int.ofNat_eq_natCast] at this; omega
          simp only [hexDigitStart] at e this
          omega
        · simp at h
      · split at h
        · rename_i m hm
          have := numericRefLoop_le isASCIIDigit _ 0 m hm
          rw [List.length_take, List.length_drop] at this
          have e : (n : Int) = (decDigitStart : Int) + (m : Int) := by
            have := h; simp only [Int.ofNat_eq_natCast] at this; omega
          simp only [decDigitStart] at e this
          omega
        · simp at h

/-! ### nodes of the current line -/

/-- The windows of the two sources behind corresponding positions of the current line are equal. -/
theorem Sim.suffix (h : Sim E k p q) (a : Nat) : E.src'.drop (q.lineStart + k + a) = E.src.drop (p.lineStart + a) := by
  have h1 : q.line.drop k = p.line := h.cur.rest
  rw [h.lineq, h.linep, h.srcp, h.srcq, List.drop_drop] at h1
  rw [← List.drop_drop, ← List.drop_drop (l := E.src), h1]

theorem Sim.srcLen (h : Sim E k p q) : E.src.length = p.lineStart + p.line.length := by
  rw [h.linep, List.length_drop, h.srcp]
  have := h.lsp; rw [h.srcp] at this; omega

theorem Sim.srcLen' (h : Sim E k p q) : E.src'.length = q.lineStart + k + p.line.length := by
  have := h.cur.len
  rw [h.lineq, List.length_drop, h.srcq] at this
  have h2 := h.lsq; rw [h.srcq] at h2
  rw [h.linep, List.length_drop, h.srcp] at this ⊢
  omega

/-- The label of an inline node `[a, b)` of the current line and of its image. -/
theorem Sim.ilab (h : Sim E k p q) (l : Label) {a b : Nat} (hab : a ≤ b) (hb : b ≤ p.line.length)
    {s t s' t' : Int} (hs : s = ((p.lineStart + a : Nat) : Int)) (ht : t = ((p.lineStart + b : Nat) : Int))
    (hs' : s' = ((q.lineStart + k + a : Nat) : Int)) (ht' : t' = ((q.lineStart + k + b : Nat) : Int)) :
    ILab E { l with start := s, stop := t } { l with start := s', stop := t' } := by
  subst hs ht hs' ht'
  have h1 := h.srcLen
  have h2 := h.srcLen'
  refine ⟨rfl, rfl, rfl, rfl, rfl, rfl, rfl, ?_, ?_, ?_, ?_, ?_, h.here a (by omega), h.here b hb, ?_, ?_⟩
  · show (0 : Int) ≤ ((p.lineStart + a : Nat) : Int); omega
  · show ((p.lineStart + a : Nat) : Int) ≤ ((p.lineStart + b : Nat) : Int); omega
  · show ((p.lineStart + b : Nat) : Int) ≤ _; omega
  · show (0 : Int) ≤ ((q.lineStart + k + a : Nat) : Int); omega
  · show ((q.lineStart + k + b : Nat) : Int) ≤ _; omega
  · show ((q.lineStart + k + b : Nat) : Int) - ((q.lineStart + k + a : Nat) : Int) = ((p.lineStart + b : Nat) : Int) - ((p.lineStart + a : Nat) : Int)
    omega
  · show (E.src'.drop ((q.lineStart + k + a : Nat) : Int).toNat).take _ = (E.src.drop ((p.lineStart + a : Nat) : Int).toNat).take _
    rw [Int.toNat_natCast, Int.toNat_natCast, h.suffix a]

theorem Sim.inode (h : Sim E k p q) (l : Label) {a b : Nat} (hab : a ≤ b) (hb : b ≤ p.line.length)
    {s t s' t' : Int} (hs : s = ((p.lineStart + a : Nat) : Int)) (ht : t = ((p.lineStart + b : Nat) : Int))
    (hs' : s' = ((q.lineStart + k + a : Nat) : Int)) (ht' : t' = ((q.lineStart + k + b : Nat) : Int))
    {cs cs' : List Tree} (hc : L2 (IR E) cs cs') (hn : ∀ c ∈ cs, s ≤ c.label.start) :
    IR E (.node { l with start := s, stop := t } cs) (.node { l with start := s', stop := t' } cs') := by
  rw [IR_iff]
  exact ⟨h.ilab l hab hb hs ht hs' ht', hc, hn⟩

/-! ### `parseInfoString` -/

theorem getD_drop_eq (l : Bytes) (b r : Nat) : l.getD (b + r) 0 = (l.drop b).getD r 0 := by
  simp [List.getD_eq_getElem?_getD]

/-- The children of an info string over two sources that agree behind `bP` / `bQ`. -/
theorem infoStringLoop_core (ext : Ext) (bP bQ n : Nat) (hsuf : E.src'.drop bQ = E.src.drop bP)
    (hlen : bP + n ≤ E.src.length)
    (node : ∀ (kind u v : Nat), u ≤ v → v ≤ n →
      IR E (mkInline kind ((bP + u : Nat) : Int) ((bP + v : Nat) : Int)) (mkInline kind ((bQ + u : Nat) : Int) ((bQ + v : Nat) : Int))) :
    ∀ (fuel r s : Nat) (acc acc' : List Tree), r ≤ n + 1 → s ≤ n → L2 (IR E) acc acc' →
    L2 (IR E) (LP.infoStringLoop ext E.src (bP + n) fuel (bP + r) (bP + s) acc)
      (LP.infoStringLoop ext E.src' (bQ + n) fuel (bQ + r) (bQ + s) acc') := by
  intro fuel
  induction fuel with
  | zero => intro r s acc acc' _ _ hacc; exact hacc
  | succ fuel ih =>
    intro r s acc acc' hr hs hacc
    -- the pending plain text `[s, r)`
    have hplain : ∀ (r : Nat), r ≤ n → L2 (IR E)
        (if s < r then acc ++ [mkInline IK.text ((bP + s : Nat) : Int) ((bP + r : Nat) : Int)] else acc)
        (if s < r then acc' ++ [mkInline IK.text ((bQ + s : Nat) : Int) ((bQ + r : Nat) : Int)] else acc') := by
      intro r hrn
      by_cases hsr : s < r
      · rw [if_pos hsr, if_pos hsr]
        exact hacc.concat (node IK.text s r (by omega) hrn)
      · rw [if_neg hsr, if_neg hsr]
        exact hacc
    unfold LP.infoStringLoop
    simp only [ge_iff_le, Nat.add_le_add_iff_left, Nat.add_lt_add_iff_left, Nat.add_assoc]
    by_cases hge : n ≤ r
    · simp only [hge, if_true]
      exact hplain n (Nat.le_refl _)
    · simp only [hge, if_false]
      have hrn : r < n := by omega
      have hc : E.src'.getD (bQ + r) 0 = E.src.getD (bP + r) 0 := by
        rw [getD_drop_eq E.src' bQ r, getD_drop_eq E.src bP r, hsuf]
      have hc1 : E.src'.getD (bQ + (r + 1)) 0 = E.src.getD (bP + (r + 1)) 0 := by
        rw [getD_drop_eq E.src' bQ (r + 1), getD_drop_eq E.src bP (r + 1), hsuf]
      rw [hc, hc1]
      by_cases hbs : (E.src.getD (bP + r) 0 == 0x5C) = true
      · simp only [hbs, if_true]
        by_cases he : (decide (n ≤ r + 1) || !isASCIIPunctuation (E.src.getD (bP + (r + 1)) 0)) = true
        · simp only [he, if_true]
          exact ih (r + 1) s acc acc' (by omega) hs hacc
        · simp only [he, Bool.false_eq_true, if_false]
          have hlt : r + 1 < n := by
            simp only [Bool.or_eq_true, decide_eq_true_eq, not_or] at he
            omega
          have := ih (r + 2) (r + 2) _ _ (by omega) (by omega)
            ((hplain r (by omega)).concat (node IK.text (r + 1) (r + 2) (by omega) (by omega)))
          simpa only [Int.natCast_add, Nat.add_assoc, Int.add_assoc, Int.cast_ofNat_Int, Int.natCast_one] using this
      · simp only [hbs, Bool.false_eq_true, if_false]
        by_cases ham : (E.src.getD (bP + r) 0 == 0x26) = true
        · simp only [ham, if_true]
          have hwin : (E.src'.take (bQ + n)).drop (bQ + r) = (E.src.take (bP + n)).drop (bP + r) := by
            rw [List.drop_take, List.drop_take]
            have e1 : bQ + n - (bQ + r) = n - r := by omega
            have e2 : bP + n - (bP + r) = n - r := by omega
            rw [e1, e2, ← List.drop_drop, ← List.drop_drop (l := E.src), hsuf]
          rw [hwin]
          cases he : parseCharacterEscape ext ((E.src.take (bP + n)).drop (bP + r)) with
          | ofNat e =>
            simp only []
            have hle := parseCharacterEscape_le ext _ e he
            rw [List.length_drop, List.length_take] at hle
            have hle2 : e ≤ n - r := by omega
            by_cases he0 : (e == 0) = true
            · simp only [he0, if_true]
              exact ih (r + 1) s acc acc' (by omega) hs hacc
            · simp only [he0, Bool.false_eq_true, if_false]
              have := ih (r + e) (r + e) _ _ (by omega) (by omega)
                ((hplain r (by omega)).concat (node IK.charRef r (r + e) (by omega) (by omega)))
              simpa only [Int.natCast_add, Nat.add_assoc, Int.add_assoc, Int.cast_ofNat_Int, Int.natCast_one] using this
          | negSucc e =>
            simp only []
            exact ih (r + 1) s acc acc' (by omega) hs hacc
        · simp only [ham, Bool.false_eq_true, if_false]
          exact ih (r + 1) s acc acc' (by omega) hs hacc

/-- The children of an info string, on related parsers: positions `lineStart + a + ·`. -/
theorem infoStringLoop_rel (h : Sim E k p q) (ext : Ext) (a n : Nat) (hn : a + n ≤ p.line.length)
    (fuel r s : Nat) (hr : r ≤ n + 1) (hs : s ≤ n) :
    L2 (IR E)
      (LP.infoStringLoop ext E.src (p.lineStart + a + n) fuel (p.lineStart + a + r) (p.lineStart + a + s) [])
      (LP.infoStringLoop ext E.src' (q.lineStart + k + a + n) fuel (q.lineStart + k + a + r) (q.lineStart + k + a + s) []) := by
  apply infoStringLoop_core ext (p.lineStart + a) (q.lineStart + k + a) n (h.suffix a) (by have := h.srcLen; omega) _
    fuel r s [] [] hr hs .nil
  intro kind u v huv hv
  exact h.inode { isBlock := false, kind := kind } (a := a + u) (b := a + v) (by omega) (by omega)
    (by show _ = _; congr 1; omega) (by show _ = _; congr 1; omega) (by show _ = _; congr 1; omega)
    (by show _ = _; congr 1; omega) .nil (fun _ hc => by cases hc)

/-- The children of an info string start inside it. -/
theorem infoStringLoop_ge (ext : Ext) (src : Bytes) (stop lo : Nat) : ∀ (fuel i ps : Nat) (acc : List Tree), lo ≤ i → lo ≤ ps →
    (∀ c ∈ acc, (lo : Int) ≤ c.label.start) →
    ∀ c ∈ LP.infoStringLoop ext src stop fuel i ps acc, (lo : Int) ≤ c.label.start := by
  intro fuel
  induction fuel with
  | zero => intro i ps acc _ _ h; exact h
  | succ fuel ih =>
    intro i ps acc hi hps hacc
    have happ : ∀ (acc : List Tree) (kd : Nat) (a : Nat) (b : Int), lo ≤ a → (∀ c ∈ acc, (lo : Int) ≤ c.label.start) →
        ∀ c ∈ acc ++ [mkInline kd (a : Int) b], (lo : Int) ≤ c.label.start := by
      intro acc kd a b ha h c hc
      rcases List.mem_append.mp hc with hc | hc
      · exact h c hc
      · simp only [List.mem_singleton] at hc
        subst hc
        show (lo : Int) ≤ (a : Int)
        omega
    have hif : ∀ (cnd : Prop) [Decidable cnd] (acc : List Tree) (kd : Nat) (a : Nat) (b : Int), lo ≤ a →
        (∀ c ∈ acc, (lo : Int) ≤ c.label.start) →
        ∀ c ∈ (if cnd then acc ++ [mkInline kd (a : Int) b] else acc), (lo : Int) ≤ c.label.start := by
      intro cnd _ acc kd a b ha h
      split
      · exact happ acc kd a b ha h
      · exact h
    unfold LP.infoStringLoop
    split
    · exact hif _ acc _ ps _ hps hacc
    · simp only []
      split
      · split
        · exact ih _ _ _ (by omega) hps hacc
        · apply ih _ _ _ (by omega) (by omega)
          intro c hc
          rcases List.mem_append.mp hc with hc | hc
          · exact hif _ acc _ ps _ hps hacc c hc
          · simp only [List.mem_singleton] at hc
            subst hc
            show (lo : Int) ≤ (i : Int) + 1
            omega
      · split
        · split
          · split
            · exact ih _ _ _ (by omega) hps hacc
            · apply ih _ _ _ (by omega) (by omega)
              exact happ _ _ i _ hi (hif _ acc _ ps _ hps hacc)
          · exact ih _ _ _ (by omega) hps hacc
        · exact ih _ _ _ (by omega) hps hacc

/-! ### `CollectInline` -/

theorem advance_i_ge (p : LP) (n : Nat) : p.i ≤ (p.advance n).i := by
  rw [advance_i]; split <;> omega

theorem advance_lineStart (p : LP) (n : Nat) : (p.advance n).lineStart = p.lineStart := by
  have := advance_tree p n
  simp only [tree, Prod.mk.injEq] at this
  exact this.2.2.2

theorem advance_depth (p : LP) (n : Nat) : (p.advance n).depth = p.depth := by
  have := advance_tree p n
  simp only [tree, Prod.mk.injEq] at this
  exact this.2.2.1

theorem advance_source (p : LP) (n : Nat) : (p.advance n).source = p.source := by
  have := advance_tree p n
  simp only [tree, Prod.mk.injEq] at this
  exact this.1

theorem advance_containerKind (p : LP) (n : Nat) : (p.advance n).containerKind = p.containerKind :=
  containerKind_of_tree (advance_tree p n)

/-- The optional Indent node. -/
theorem Sim.ciIndent (h : Sim E k p q) (hd : 1 ≤ p.depth) (hk : p.containerKind ≠ BK.linkRefDef) :
    Sim E k (BG.ciIndent p) (BG.ciIndent q) ∧ (BG.ciIndent p).depth = p.depth ∧
    (BG.ciIndent p).containerKind = p.containerKind ∧ (BG.ciIndent p).lineStart = p.lineStart ∧
    (BG.ciIndent q).lineStart = q.lineStart ∧ (BG.ciIndent p).line = p.line := by
  unfold BG.ciIndent
  rw [h.cur.indent]
  split
  · simp only []
    rw [h.cur.drop]
    have h2 := h.advance (indentLength (p.line.drop p.i))
    have hdep := advance_depth p (indentLength (p.line.drop p.i))
    have hck := advance_containerKind p (indentLength (p.line.drop p.i))
    refine ⟨?_, ?_, ?_, ?_, ?_, ?_⟩
    · apply h2.appendInline (by rw [hdep]; exact hd) (by rw [hck]; exact hk)
      apply h2.inode { isBlock := false, kind := IK.indent, indent := p.indent } (a := p.i) (b := (p.advance (indentLength (p.line.drop p.i))).i)
        (advance_i_ge _ _) h2.cur.ile
      · show ((p.lineStart + p.i : Nat) : Int) = _; rw [advance_lineStart]
      · show (p.advance _).lineStart + ((p.advance _).i : Int) = _; omega
      · show ((q.lineStart + q.i : Nat) : Int) = _; rw [advance_lineStart, h.cur.i]; congr 1; omega
      · show (q.advance _).lineStart + ((q.advance _).i : Int) = _; rw [h2.cur.i]; omega
      · exact .nil
      · intro _ hc; cases hc
    · show (p.advance _).depth = _; exact hdep
    · rw [appendInline_containerKind _ _ h2.treeOK_p]; exact hck
    · show (p.advance _).lineStart = _; exact advance_lineStart _ _
    · show (q.advance _).lineStart = _; exact advance_lineStart _ _
    · show (p.advance _).line = _; exact advance_line _ _
  · exact ⟨h, rfl, rfl, rfl, rfl, rfl⟩

theorem Sim.collectInline {x : PExt} (h : Sim E k p q) (hd : 1 ≤ p.depth) (hk : p.containerKind ≠ BK.linkRefDef)
    (kind n : Nat) : Sim E k (p.collectInline x kind n) (q.collectInline x kind n) := by
  by_cases hst : p.state = 4
  · unfold LP.collectInline
    have c1 : (p.state == stateDescendTerminated) = true := by simp [stateDescendTerminated, hst]
    have c2 : (q.state == stateDescendTerminated) = true := by rw [h.cur.state]; exact c1
    rw [if_pos c1, if_pos c2]
    exact h.setPanic _
  · rw [BG.collectInline_eq x p kind n hst, BG.collectInline_eq x q kind n (by rw [h.cur.state]; exact hst)]
    simp only []
    have h1 : Sim E k { p with state := mm p.state } { q with state := mm q.state } := by
      rw [h.cur.state]; exact h.setState _
    obtain ⟨h2, hdep, hck, hls, hls', hline⟩ := h1.ciIndent hd hk
    generalize BG.ciIndent { p with state := mm p.state } = p2 at h2 hdep hck hls hls' hline ⊢
    generalize BG.ciIndent { q with state := mm q.state } = q2 at h2 hls' ⊢
    have h3 := h2.advance n
    have hd3 : 1 ≤ (p2.advance n).depth := by rw [advance_depth, hdep]; exact hd
    have hk3 : (p2.advance n).containerKind ≠ BK.linkRefDef := by rw [advance_containerKind, hck]; exact hk
    have hile : (p2.advance n).i ≤ (p2.advance n).line.length := h3.cur.ile
    have hge := advance_i_ge p2 n
    have hnode : ∀ (kd : Nat) (cs cs' : List Tree), L2 (IR E) cs cs' →
        (∀ c ∈ cs, ((p2.lineStart + p2.i : Nat) : Int) ≤ c.label.start) →
        IR E (mkInline kd ((p2.lineStart + p2.i : Nat) : Int) (((p2.advance n).lineStart + (p2.advance n).i : Nat) : Int) cs)
          (mkInline kd ((q2.lineStart + q2.i : Nat) : Int) (((q2.advance n).lineStart + (q2.advance n).i : Nat) : Int) cs') := by
      intro kd cs cs' hc hn
      apply h3.inode { isBlock := false, kind := kd } (a := p2.i) (b := (p2.advance n).i) hge hile
      · show _ = _; rw [advance_lineStart]
      · rfl
      · show _ = _; rw [advance_lineStart, h2.cur.i]; congr 1; omega
      · show _ = _; rw [h3.cur.i]; congr 1; omega
      · exact hc
      · exact hn
    split
    · apply h3.appendInline hd3 hk3
      refine hnode _ _ _ ?_
        (infoStringLoop_ge x.ext _ _ (p2.lineStart + p2.i) _ _ _ [] (Nat.le_refl _) (Nat.le_refl _) (fun _ hc => by cases hc))
      -- the children of the info string
      have hlen : (p2.advance n).line.length = p2.line.length := by rw [advance_line]
      have e0 := infoStringLoop_rel h2 x.ext p2.i ((p2.advance n).i - p2.i) (by rw [← hlen]; omega)
        ((p2.advance n).lineStart + (p2.advance n).i - (p2.lineStart + p2.i) + 1) 0 0 (by omega) (by omega)
      have e1 : (p2.advance n).lineStart = p2.lineStart := advance_lineStart _ _
      have e2 : (q2.advance n).lineStart = q2.lineStart := advance_lineStart _ _
      have e3 : (q2.advance n).i = (p2.advance n).i + k := h3.cur.i
      have e4 : q2.i = p2.i + k := h2.cur.i
      have a1 : p2.lineStart + p2.i + ((p2.advance n).i - p2.i) = (p2.advance n).lineStart + (p2.advance n).i := by omega
      have a2 : q2.lineStart + k + p2.i + ((p2.advance n).i - p2.i) = (q2.advance n).lineStart + (q2.advance n).i := by omega
      have a3 : q2.lineStart + k + p2.i = q2.lineStart + q2.i := by omega
      have a4 : (q2.advance n).lineStart + (q2.advance n).i - (q2.lineStart + q2.i) =
          (p2.advance n).lineStart + (p2.advance n).i - (p2.lineStart + p2.i) := by omega
      rw [Nat.add_zero, Nat.add_zero, a1, a2, a3] at e0
      rw [advance_source, advance_source, h2.srcp, h2.srcq, a4]
      exact e0
    · exact h3.appendInline hd3 hk3 (hnode _ _ _ .nil (fun _ hc => by cases hc))

end CM.Proofs.Quote
