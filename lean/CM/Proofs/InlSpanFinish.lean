import CM.Proofs.InlSpanLinkM
import CM.Proofs.InlSpanFrame
/-
C02, inline half — `finishLink` keeps the span invariant: after it nothing is pending and the frontier is the end of the
link.
-/
namespace CM.Proofs.InlH
open CM CM.Model CM.Model.Inl CM.Gen
open Std.Do

set_option mvcgen.warning false

theorem SP.congr_stk {lo hi : Int} {x : Option Nat} {b p : Nat} {F : Int} {s s' : IState} (h : SP lo hi x b p F s)
    (h1 : s'.nodes = s.nodes) (h2 : stkOf s' = stkOf s) (h3 : s'.parentMap = s.parentMap) : SP lo hi x b p F s' := by
  unfold SP at *
  have : pmOf s' = pmOf s := funext fun i => pmOf_congr h3 i
  rw [h1, h2, h3, this]; exact h

/-- `removeNode opener; delStack odi (odi+1)` at the end of `finishLink` -/
theorem SP.finishLink {lo hi e : Int} {o N odi : Nat} {s s' : IState} {T : List Nat}
    (h : SP lo hi (some o) (odi + 1) N e s) (hst : stkOf s = T ++ [o]) (hT : T.length = odi) (par : Nat)
    (hpar : (s.parentMap[o]?).join = some par)
    (hn : s'.nodes = s.nodes.modify par (fun n => { n with kids := n.kids.filter (· != o) }))
    (hp : s'.parentMap = s.parentMap.set! o none) (hs : stkOf s' = T) : SPT lo hi e s' := by
  obtain ⟨inv, hsz⟩ := h
  have htake : (stkOf s).take (odi + 1) = T ++ [o] := by rw [hst]; exact List.take_of_length_le (by simp [hT])
  have hpo : pmOf s o = some 0 := inv.low.2 o (by rw [htake]; simp)
  have : par = 0 := by
    have h' : pmOf s o = some par := hpar
    rw [hpo] at h'; exact (Option.some.inj h').symm
  subst this
  have hpm : ∀ i, pmOf s' i = if i = o then none else pmOf s i := pmOf_set_none s _ o rfl s' hp
  refine ⟨?_, by rw [hp, hn]; simpa using hsz⟩
  rw [hs, hn]
  exact finishLink_core inv hst (by omega) hpm

theorem stkOf_extract (s : IState) (n : Nat) (st : Array DelimE) (h : st = s.stack.extract 0 n) :
    st.toList.map (·.node) = (stkOf s).take n := by
  subst h
  unfold stkOf
  simp [List.map_take]

theorem finish_state {lo hi e : Int} {o N odi : Nat} {s s0 s' : IState} (h : SP lo hi (some o) (odi + 1) N e s)
    (hstk : s.stack = s0.stack.extract 0 (odi + 1)) (hodi : odi < s0.stack.size) (ho : (s0.stack[odi]!).node = o)
    (e' : DelimE) (he : s.stack[odi]? = some e') (par : Nat) (hpar : (s.parentMap[e'.node]?).join = some par)
    (hn : s'.nodes = s.nodes.modify par (fun n => { n with kids := n.kids.filter (· != e'.node) }))
    (hp : s'.parentMap = s.parentMap.set! e'.node none)
    (hs : stkOf s' = (s.stack.extract 0 odi ++ s.stack.extract (odi + 1)).toList.map (·.node)) : SPT lo hi e s' := by
  have hen : e'.node = o := by
    rw [hstk] at he
    have : (s0.stack.extract 0 (odi + 1))[odi]? = s0.stack[odi]? := by
      rw [Array.getElem?_extract]; simp; omega
    rw [this, Array.getElem?_eq_getElem hodi] at he
    have := Option.some.inj he
    rw [← this, ← ho, getElem!_pos s0.stack odi hodi]
  rw [hen] at hpar hn hp
  have hl := stkOf_length s0
  have hsk : stkOf s = (stkOf s0).take odi ++ [o] := by
    have e1 : stkOf s = (stkOf s0).take (odi + 1) := stkOf_extract s0 (odi + 1) s.stack hstk
    rw [e1, List.take_succ_eq_append_getElem (by omega), stkOf_get s0 odi hodi, ho]
  have hs' : stkOf s' = (stkOf s0).take odi := by
    rw [hs, stkOf_del' s.stack odi (odi + 1)]
    show (stkOf s).take odi ++ (stkOf s).drop (odi + 1) = _
    rw [hsk]
    have hT : ((stkOf s0).take odi).length = odi := by rw [List.length_take]; omega
    rw [List.take_left' hT, List.drop_of_length_le (by simp [hT])]
    simp
  exact SP.finishLink h hsk (by rw [List.length_take]; omega) par hpar hn hp hs'

theorem map_node_set (st : Array DelimE) (i : Nat) (el : DelimElem) :
    (st.set! i { elem := el, node := (st[i]!).node }).toList.map (·.node) = st.toList.map (·.node) := by
  apply List.ext_getElem
  · simp
  · intro j h1 h2
    simp only [List.getElem_map, Array.getElem_toList, Array.set!_eq_setIfInBounds]
    have hj : j < st.size := by simpa using h2
    rw [Array.getElem_setIfInBounds]
    split
    · rename_i hij; subst hij; rw [getElem!_pos st i hj]
    · rfl

theorem Post.const {α} {P : IState → Prop} {m : IM α} {C : Prop} (h : ∀ s, P s → C) : Post P m (fun _ _ => C) := by
  intro s hs
  cases m.run s with
  | error e => trivial
  | ok p => exact h s hs

theorem finishLink_post (lo hi : Int) (o N : Nat) (e : Int) (kind odi : Nat) (s0 : IState) :
    Post (fun s => s = s0 ∧ SP lo hi (some o) (odi + 1) N e s ∧ odi < s0.stack.size ∧ (s0.stack[odi]!).node = o)
      (finishLink kind odi)
      (fun _ s => SPT lo hi e s ∧ s.unparsedPos = s0.unparsedPos ∧ s.ignoreNextIndent = s0.ignoreNextIndent) := by
  unfold finishLink
  refine Post.bind (Q := fun _ s => ((SP lo hi (some o) (odi + 1) N e s ∧ s.stack = s0.stack.extract 0 (odi + 1)) ∧
      FI ⟨s0.unparsedPos, s0.ignoreNextIndent⟩ s) ∧ (odi < s0.stack.size ∧ (s0.stack[odi]!).node = o))
      ?_ (fun _ => Post.of_triple ?_)
  · refine (((Post.of_triple (processEmphasis_specP lo hi (some o) (odi + 1) N e s0)).and
      (Post.of_triple (processEmphasis_frame (odi + 1) ⟨s0.unparsedPos, s0.ignoreNextIndent⟩))).and
      (Post.const (C := odi < s0.stack.size ∧ (s0.stack[odi]!).node = o) (fun _ h => h))).conseq ?_ (fun _ _ h => h)
    rintro s ⟨rfl, h1, h2, h3⟩
    exact ⟨⟨⟨rfl, h1⟩, rfl, rfl⟩, h2, h3⟩
  · mvcgen [removeNode, delStack, setParent, modifyNode, -delStack_spec, -delStack_specS, -removeNode_spec,
      -removeNode_specS]
    case inv4 =>
      have t : Unit × IState := ‹Unit × IState›
      exact PostCond.mayThrow (fun (q : _ × Array DelimE) s =>
        ⌜s.nodes = t.2.nodes ∧ s.parentMap = t.2.parentMap ∧ s.unparsedPos = t.2.unparsedPos ∧
          s.ignoreNextIndent = t.2.ignoreNextIndent ∧
          q.2.toList.map (·.node) = (t.2.stack.extract 0 odi ++ t.2.stack.extract (odi + 1)).toList.map (·.node)⌝)
    inl_norm
    · obtain ⟨h1, h2, h3, h4, h5⟩ := ‹_ ∧ _ ∧ _ ∧ _ ∧ _›
      refine ⟨h1, h2, h3, h4, ?_⟩
      rw [← h5]
      exact map_node_set _ _ _
    · assumption
    · exact ⟨trivial, trivial, trivial, trivial, rfl⟩
    · obtain ⟨⟨⟨hsp, hstk⟩, hu, hg⟩, hodi, ho⟩ := ‹((SP _ _ _ _ _ _ _ ∧ _) ∧ FI _ _) ∧ _›
      obtain ⟨h1, h2, h3, h4, h5⟩ := ‹_ ∧ _ ∧ _ ∧ _ ∧ _›
      refine ⟨finish_state hsp hstk hodi ho _ ‹_› _ ‹_› (by rw [h1]) (by rw [h2]) h5, ?_, ?_⟩
      · show (‹IState›).unparsedPos = _
        rw [h3]; exact hu
      · show (‹IState›).ignoreNextIndent = _
        rw [h4]; exact hg
    · obtain ⟨⟨⟨hsp, hstk⟩, hu, hg⟩, hodi, ho⟩ := ‹((SP _ _ _ _ _ _ _ ∧ _) ∧ FI _ _) ∧ _›
      exact ⟨finish_state hsp hstk hodi ho _ ‹_› _ ‹_› rfl rfl rfl, hu, hg⟩
    · exact False.elim

/-- `finishLink` in the form `mvcgen` uses: no ghost parameters in the precondition. -/
@[spec 20000]
theorem finishLink_specP (kind odi : Nat) (s0 : IState) :
    ⦃fun s => ⌜s = s0⌝⦄ finishLink kind odi
    ⦃⇓? _ s => ⌜∀ (lo hi : Int) (o N : Nat) (K E : Int), LinkInv lo hi o N odi K E true s0 →
        SPT lo hi E s ∧ s.unparsedPos = s0.unparsedPos ∧ s.ignoreNextIndent = s0.ignoreNextIndent⌝⦄ := by
  apply Post.triple
  intro s hs
  subst hs
  cases hr : (finishLink kind odi).run s with
  | error e => trivial
  | ok p =>
    intro lo hi o N K E hL
    have hsp : SP lo hi (some o) (odi + 1) N E s := by simpa using hL.sp
    have := finishLink_post lo hi o N E kind odi s s ⟨rfl, hsp, hL.osk.1, hL.osk.2⟩
    rw [hr] at this
    exact this

/-- `processEmphasis`, likewise. -/
theorem processEmphasis_specGS (b : Nat) (s0 : IState) :
    ⦃fun s => ⌜s = s0⌝⦄ processEmphasis b
    ⦃⇓? _ s => ⌜∀ (lo hi : Int) (x : Option Nat) (p : Nat) (F : Int), SP lo hi x b p F s0 →
        SP lo hi x b p F s ∧ s.stack = s0.stack.extract 0 b ∧ s.unparsedPos = s0.unparsedPos ∧
        s.ignoreNextIndent = s0.ignoreNextIndent⌝⦄ := by
  apply Post.triple
  intro s hs
  subst hs
  cases hr : (processEmphasis b).run s with
  | error e => trivial
  | ok q =>
    intro lo hi x p F hsp
    have h1 := Post.of_triple (processEmphasis_specP lo hi x b p F s) s ⟨rfl, hsp⟩
    have h2 := Post.of_triple (processEmphasis_frame b ⟨s.unparsedPos, s.ignoreNextIndent⟩) s ⟨rfl, rfl⟩
    rw [hr] at h1 h2
    exact ⟨h1.1, h1.2, h2.1, h2.2⟩

end CM.Proofs.InlH
