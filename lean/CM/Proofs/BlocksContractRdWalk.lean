import CM.Proofs.BlocksContractRdEol
/-
C01 contract for the real block parser — the bytes `skipLinkSpace` walks over; a valid link label moves the reader.
-/
namespace CM.Proofs
open CM CM.Model CM.Gen

/-- If `skipLinkSpace` fails, everything from the reader's position to the end of the text is blank. -/
theorem skipLinkSpace_walk {src : Bytes} {b : Nat} (hb : b ≤ src.length) : ∀ (f : Nat) (r r' : Rd), RW b r →
    b - r.pos < f → skipLinkSpace src f r = (false, r') → Gap src r.pos b := by
  intro f
  induction f with
  | zero => intro r r' _ hf _; omega
  | succ f ih =>
    intro r r' h hf e
    rcases hc : r.current src with ⟨c, r1⟩
    obtain ⟨c1, c2, c3, c4, c5⟩ := h.current src hb
    rw [hc] at c1 c2 c3 c4 c5
    simp only at c1 c2 c3 c4 c5
    rcases hn : r1.next src with ⟨ok1, r2⟩
    obtain ⟨n1, n2, n3⟩ := c1.next src
    rw [hn] at n1 n2 n3
    simp only at n1 n2 n3
    simp only [skipLinkSpace, hc, hn] at e
    rcases h.sp with ⟨_, _, _, hlt⟩ | ⟨_, hp⟩
    · have hcb := c4 hlt
      split at e
      · rename_i hz
        exact absurd (by simpa using hz) hcb.ne_zero
      · split at e
        · rename_i hst
          have hsrc : src.getD r.pos 0 = c := hcb.eq_of_ascii (stle_ascii c hst)
          have hbyte : isSpaceTabOrLineEnding (src.getD r.pos 0) = true := by rw [hsrc]; exact hst
          split at e
          · rename_i hok
            have hok' : ok1 = false := by simpa using hok
            obtain ⟨_, _, f3, _⟩ := n3 hok'
            have := (f3 (by rw [c2]; exact hlt)).1
            intro j hj1 hj2
            have : j = r.pos := by rw [c2] at this; omega
            rw [this]; exact hbyte
          · rename_i hok
            have hok' : ok1 = true := by simpa using hok
            obtain ⟨g1, g2, _, _⟩ := n2 hok'
            have := ih r2 r' n1 (by rw [g2, c2]; omega) e
            intro j hj1 hj2
            by_cases hjp : j = r.pos
            · rw [hjp]; exact hbyte
            · exact this j (by rw [g2, c2]; omega) hj2
        · cases e
    · rw [hp]; exact Gap.refl _ _

/-! ### A valid label -/

theorem rdFuel_gt (src : Bytes) (is : List Tree) : 2 * src.length + 8 ≤ rdFuel src is := by
  unfold rdFuel; omega

/-- After a valid link label the reader lies strictly behind the position where the label started. -/
theorem parseLinkLabel_adv {src : Bytes} {b : Nat} (hb : b ≤ src.length) (f : Nat) (r : Rd) (h : RW b r)
    (hv : (parseLinkLabel src (f + 1) r).1.span.isValid = true) :
    RWL b (r.pos + 1) (parseLinkLabel src (f + 1) r).2 := by
  have hI := rwl_closed (src := src) (b := b) (lb := r.pos + 1) hb
  rcases hc : r.current src with ⟨c, r1⟩
  obtain ⟨c1, c2, c3, c4, c5⟩ := h.current src hb
  rw [hc] at c1 c2 c3 c4 c5
  simp only at c1 c2 c3 c4 c5
  simp only [parseLinkLabel, hc] at hv ⊢
  split
  · rename_i hc'; simp [hc', noLabel, nullSpan, SpanI.isValid] at hv
  · rename_i hc'
    simp only [hc'] at hv
    cases hs : labelSkip src (f + 1) r1 0 with
    | none => simp [hs, noLabel, nullSpan, SpanI.isValid] at hv
    | some p =>
      obtain ⟨r2, chars⟩ := p
      -- the first `next` of `labelSkip` succeeded
      have h2 : RWL b (r.pos + 1) r2 := by
        rcases hn : r1.next src with ⟨ok, q1⟩
        obtain ⟨n1, n2, n3⟩ := c1.next src
        rw [hn] at n1 n2 n3
        simp only at n1 n2 n3
        rcases hcq : q1.current src with ⟨cq, q2⟩
        have hs' := hs
        simp only [labelSkip, hn, hcq] at hs'
        split at hs'
        · cases hs'
        · rename_i hok
          have hok' : ok = true := by simpa using hok
          obtain ⟨_, g2, _, _⟩ := n2 hok'
          have hq1 : RWL b (r.pos + 1) q1 := ⟨n1, by rw [g2, c2]; exact Nat.le_refl _⟩
          have hq2 : RWL b (r.pos + 1) q2 := hI.cur' hq1 hcq
          split at hs'
          · cases hs'
          · split at hs'
            · simp only [Option.some.injEq, Prod.mk.injEq] at hs'
              rw [← hs'.1]; exact hq2
            · exact labelSkip_I hI f q2 _ r2 chars hq2 hs'
      simp only
      cases hbd : labelBody src (f + 1) r2 chars (-1) with
      | none => simp [hs, hbd, noLabel, nullSpan, SpanI.isValid] at hv
      | some q =>
        obtain ⟨r3, ie⟩ := q
        have h3 := labelBody_I hI (f + 1) r2 chars (-1) r3 ie h2 hbd
        rcases hc3 : r3.current src with ⟨c3', r4⟩
        have h4 := hI.cur' h3 hc3
        rcases hn4 : r4.next src with ⟨ok, r5⟩
        have h5 := hI.nxt' h4 hn4
        simp only [hc3, hn4]
        split
        · exact h4
        · exact h5

end CM.Proofs
