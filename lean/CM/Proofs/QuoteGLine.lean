import CM.Proofs.NestLine
import CM.Proofs.QuoteFirst
/-
C09 (block-quote half, with link reference definitions): the block quote as a frame of `Nest`, and one line through
both parsers without the hypothesis `CloseParaSim` (instead: `GOK x E G` and the one-sided invariant `TP G`).
-/
namespace CM.Proofs.Quote
open CM CM.Model CM.Gen CM.Proofs.BT CM.Proofs.Nest

variable {E : Env} {G G' : List Tree → Prop} {p q : LP} {x : PExt}

/-- The frame of a block quote. -/
def qF : Nest.Frame := { top := { kind := BK.blockQuote, start := 0 }, two := false, kind_ok := Or.inl rfl }

theorem qF_d : qF.d = 1 := rfl

theorem tl_iff (l : PLabel) : TL qF l ↔ QLab l :=
  ⟨fun h => ⟨h.kind, h.start, h.stop, h.n, h.char, h.indent, h.loose⟩,
   fun h => ⟨h.kind, h.start, h.stop, h.n, h.char, h.indent, h.loose⟩⟩

theorem topR_iff {P Qb : PB} : Nest.TopR qF E P Qb ↔ TopR E P Qb :=
  ⟨fun h => ⟨h.pkind, h.popen, (tl_iff _).mp h.qlab, h.qinl, h.kids⟩,
   fun h => ⟨h.pkind, h.popen, (tl_iff _).mpr h.qlab, h.qinl, h.kids⟩⟩

theorem rootR_iff {P Q : PB} : Nest.RootR qF E P Q ↔ RootR E P Q := by
  constructor
  · intro h
    unfold Nest.RootR at h
    rw [qF_d] at h
    cases h with
    | @step n lq isQ Qc h1 h2 hw =>
      cases hw with
      | base ht =>
        refine ⟨lq, isQ, Qc, rfl, ?_, h1, topR_iff.mp ht⟩
        unfold WL at h2
        rw [if_pos (by rw [qF_d])] at h2
        exact h2
  · rintro ⟨lq, isQ, Qb, rfl, h1, h2, ht⟩
    unfold Nest.RootR
    rw [qF_d]
    refine .step h2 ?_ (.base (topR_iff.mpr ht))
    unfold WL
    rw [if_pos (by rw [qF_d])]
    exact h1

/-- The old relation with the one-sided invariant is the new one. -/
theorem Sim.toNest {k : Nat} (h : Sim E k p q) (htp : TP G p.root) (hul : NoUL p.line) : Nest.Sim qF E G k p q :=
  ⟨h.cur, h.depth, h.valid, rootR_iff.mpr h.root, htp, hul, h.srcp, h.srcq, h.linep, h.lsp, h.lineq, h.lsq, h.here, h.start, h.ord⟩

theorem _root_.CM.Proofs.Nest.Sim.toQuote {k : Nat} (h : Nest.Sim qF E G k p q) : Sim E k p q :=
  ⟨h.cur, h.depth, h.valid, rootR_iff.mp h.root, h.srcp, h.srcq, h.linep, h.lsp, h.lineq, h.lsq, h.here, h.start, h.ord⟩

/-- What the next line needs to know: the old `Btw` and the one-sided invariant. -/
structure BtwG (E : Env) (G : List Tree → Prop) (p q : LP) : Prop where
  btw : Btw E p q
  tp : TP G p.root

theorem _root_.CM.Proofs.Nest.Btw.toQuote (h : Nest.Btw qF E G p q) : BtwG E G p q :=
  ⟨⟨rootR_iff.mp h.root, h.panic⟩, h.tp⟩

/-- **One non-empty line** through both parsers. -/
theorem processLine_simG (HG : GOK x E G) (hm : ∀ is, G is → G' is) (hA : AppendOK G G' p.lineStart p.line)
    (h : LineStart E p q) (htp : TP G p.root) (hul : NoUL p.line) (hne : p.line ≠ []) (hp : Inv p) (hq : Inv q)
    (hT : p.state = stateDescendTerminated → ∃ c, spineGet p.root 1 = some c ∧ c.isOpen = true ∧ hasMatch c.label.kind)
    {src : Bytes} {bd : Int} {ls : Nat} (hgi : RDS.GI src bd ls p) (hbd : bd ≤ (ls : Int)) (hls : ls ≤ src.length) :
    BtwG E G' (processLine x p) (processLine x q) := by
  have m := marker_cursor ({ q with depth := 1, state := stateDescending } : LP) p.line h.lineq h.qi
  have hS := h.simS _ m
  have hfuel : spineLength p.root + 1 ≤ spineLength q.root := h.root.spineLength_ge
  have hq1inv : Inv { afterMarker ({ q with depth := 1, state := stateDescending } : LP) with depth := 1 } := by
    have mt := m.tree
    simp only [tree, Prod.mk.injEq] at mt
    refine ⟨by show (afterMarker _).panic = none; rw [m.panic]; exact hq.panic, ⟨m.cur.hi, m.cur.htab⟩, ⟨?_, ?_⟩⟩
    · show (afterMarker _).root.kind = _; rw [mt.2.1]; exact hq.tree.root
    · show (spineGet (afterMarker _).root 1).isSome
      rw [mt.2.1]
      obtain ⟨Qb, e, _⟩ := h.root.quote
      show (spineGet q.root 1).isSome
      rw [e]; rfl
  have hS' : Nest.SimS qF E G 2 { p with depth := 0 }
      { afterMarker ({ q with depth := 1, state := stateDescending } : LP) with depth := qF.d } :=
    Sim.toNest hS htp hul
  exact (processLine_sim_of (F := qF) (x := x) HG hm hA hne hp hT (quote_step (x := x) h) hfuel hq1inv
    (by rw [m.state]; rfl) hS' hgi hbd hls).toQuote

/-! ### the end of the input -/

/-- Closing both documents. -/
theorem closeDoc_relG (HG : GOK x E G) {P Q : PB} (h : RootR E P Q) (htp : TP G P) {e e' : Int} (he : 0 ≤ e) (he' : 0 ≤ e')
    (hp : E.PR e e') :
    FinR E e' ((closeBlock x E.src e P).headD P).blocks ((closeBlock x E.src' e' Q).headD Q) := by
  obtain ⟨lq, isQ, Qb, rfl, hk, ho, ht⟩ := h
  have hkids := htp.kids
  obtain ⟨lp, bs, isP⟩ := P
  obtain ⟨ql, bq, isq⟩ := Qb
  obtain ⟨pre, bs', ebq, hpre, hr⟩ := ht.kids
  simp only [PB.blocks] at ebq hr hkids
  subst ebq
  have hqi : isq = [] := ht.qinl
  subst hqi
  rw [closeBlock_container x _ e lp bs isP ht.popen (Or.inl ht.pkind)]
  rw [closeBlock_container x _ e' lq _ isQ ho (Or.inl hk)]
  simp only [List.headD_cons, PB.blocks]
  rw [BSp.closeLast_single, closeBlock_container x _ e' ql _ [] ht.qlab.stop (Or.inr ht.qlab.kind)]
  have hcl := Nest.closeLast_rel HG he he' hp bs bs' hr hkids
  by_cases hne : bs' = []
  · subst hne
    have hb : bs = [] := hr.nil_iff.mpr rfl
    subst hb
    rw [List.append_nil, closeLast_closed x _ e' pre hpre.1]
    refine ⟨{ lq with stop := e' }, isQ, { ql with stop := e' }, pre, [], by simp, ht.qlab.kind, ht.qlab.start, rfl,
      ht.qlab.n, ht.qlab.char, ht.qlab.indent, ht.qlab.loose, hpre, ?_⟩
    rw [BSp.closeLast_nil]; exact .nil
  · rw [closeLast_append x _ e' pre bs' hne]
    exact ⟨{ lq with stop := e' }, isQ, { ql with stop := e' }, pre, _, rfl, ht.qlab.kind, ht.qlab.start, rfl,
      ht.qlab.n, ht.qlab.char, ht.qlab.indent, ht.qlab.loose, hpre, hcl⟩

/-- **The end of the input** on both sides. -/
theorem processLine_eof_simG (HG : GOK x E G) (hpl : p.line = []) (hql : q.line = []) (hroot : RootR E p.root q.root)
    (htp : TP G p.root)
    (hsp : p.source = E.src) (hsq : q.source = E.src') (hstart : E.PR (p.lineStart : Int) (q.lineStart : Int))
    (hT : p.state = stateDescendTerminated → ∃ c, spineGet p.root 1 = some c ∧ c.isOpen = true ∧ hasMatch c.label.kind) :
    FinR E q.lineStart (processLine x p).root.blocks (processLine x q).root := by
  rw [(processLine_eof_p (x := x) p hpl hT).1, (processLine_eof_q (x := x) q hql ⟨_, hroot⟩).1, hsp, hsq]
  exact closeDoc_relG HG hroot htp (Int.natCast_nonneg _) (Int.natCast_nonneg _) hstart

/-! ### the first line -/

/-- **The first line** through both parsers. -/
theorem processLine_first_simG (HG : GOK x E G) (hm : ∀ is, G is → G' is) (hA : AppendOK G G' p.lineStart p.line)
    (h : FirstStart E p q) (hul : NoUL p.line) (hne : p.line ≠ []) (hp : Inv p) (hq : Inv q)
    (hsp : p.state ≠ stateDescendTerminated) (hsq : q.state ≠ stateDescendTerminated)
    {src : Bytes} {bd : Int} {ls : Nat} (hgi : RDS.GI src bd ls p) (hbd : bd ≤ (ls : Int)) (hls : ls ≤ src.length) :
    BtwG E G' (processLine x p) (processLine x q) := by
  obtain ⟨lq, isQ, hqr, hqk, hqo⟩ := h.qroot
  -- descendOpenBlocks does nothing on either side
  have hdq : descendOpenBlocks x q = (true, { q with depth := 0 }) := by
    unfold descendOpenBlocks descendLoop
    have : spineGet q.root (0 + 1) = none := by rw [hqr]; rfl
    rw [this]
  have hdp : descendOpenBlocks x p = (true, { p with depth := 0 }) := by
    unfold descendOpenBlocks descendLoop
    have : spineGet p.root (0 + 1) = none := by rw [CM.Proofs.spineGet_one, h.proot.1]; rfl
    rw [this]
  rw [processLine_eq, processLine_eq, hdq, hdp]
  simp only []
  rw [if_neg (by simpa using hsp), if_neg (by simpa using hsq)]
  -- the first iteration of the opening loop on the prefixed side opens the block quote
  obtain ⟨q1, e1, l1, i1, s1, pn1, src1, ls1, d1, r1⟩ := startBlockQuote_fresh x
    ({ q with depth := 0, state := stateOpening } : LP) p.line lq isQ h.lineq h.qi rfl rfl hqr hqk
  have hq0 : Inv ({ q with depth := 0 } : LP) := hq.setDepth 0 (Nat.zero_le _)
  have hts : tryStarts (blockStartFns x) ({ q with depth := 0 } : LP) = q1 := by
    unfold blockStartFns tryStarts
    simp only []
    rw [e1, s1]
    simp
  have hq1 : Inv q1 := by rw [← hts]; exact (tryStarts_blockStarts x _ hq0).inv
  have hlenq : q.line.length = p.line.length + 2 := by rw [h.lineq]; simp
  have hopen : openNewBlocks x ({ q with depth := 0 } : LP) true = openNewBlocks x q1 true := by
    have c1 : q.line ≠ [] := by rw [h.lineq]; simp
    rw [openNewBlocks_true x _ (show ({ q with depth := 0 } : LP).line ≠ [] from c1),
      openNewBlocks_true x q1 (by rw [l1]; exact c1)]
    -- one iteration
    have hstep : openingLoop x ((q.line.length + 7) + 1) ({ q with depth := 0 } : LP) = openingLoop x (q.line.length + 7) q1 := by
      conv => lhs; unfold openingLoop
      have hck : ({ q with depth := 0 } : LP).containerKind = BK.document := by
        simp only [LP.containerKind, LP.container, hqr, spineGet_zero, Option.getD_some, PB.kind, PB.label, hqk]
      rw [hck]
      simp only [show (!(BK.document == BK.paragraph || !acceptsLines BK.document)) = false from rfl, Bool.false_eq_true, if_false]
      rw [hts, s1]
      simp only [beq_self_eq_true, if_true]
    have e8 : ({ q with depth := 0 } : LP).line.length + 8 = q.line.length + 7 + 1 := rfl
    rw [e8, hstep]
    exact (openingLoop_fuel_adequate x q1 hq1 (q.line.length + 7) (by rw [l1, i1]; show q.line.length - 2 < _; omega)).symm
  have htail : lineTail x true ({ q with depth := 0 } : LP) = lineTail x true q1 := by
    unfold lineTail; rw [hopen]
  rw [htail]
  -- below the block quote the two parsers are related
  have hS : SimS E 2 ({ p with depth := 0 } : LP) q1 := by
    have hv : (spineGet p.root 0).isSome := by rw [spineGet_zero]; rfl
    have hroot : RootR E p.root q1.root := by
      rw [r1]
      refine ⟨lq, isQ, firstQuote q.lineStart, rfl, hqk, hqo, ?_⟩
      show TopR E p.root (firstQuote ({ q with depth := 0, state := stateOpening } : LP).lineStart)
      show TopR E p.root (firstQuote q.lineStart)
      rw [h.lsq0]
      exact firstQuote_topR h.proot.1 h.proot.2.1 h.proot.2.2 h.done
    refine ⟨⟨?_, ?_, ?_, ?_, h.notab, rfl, ?_⟩, ?_, hv, hroot, h.srcp, ?_, h.linep, h.lsp, ?_, ?_, ?_, ?_, ?_⟩
    · show q1.line.drop 2 = p.line; rw [l1]; show q.line.drop 2 = _; rw [h.lineq]; rfl
    · show 2 ≤ q1.line.length; rw [l1]; show 2 ≤ q.line.length; omega
    · show q1.i = p.i + 2; rw [i1, h.pi]
    · show p.i ≤ p.line.length; rw [h.pi]; exact Nat.zero_le _
    · show q1.panic = p.panic; rw [pn1]; exact h.panic
    · show q1.depth = 0 + 1; rw [d1]
    · show q1.source = _; rw [src1]; exact h.srcq
    · show q1.line = q1.source.drop q1.lineStart; rw [l1, src1, ls1]; exact h.lineqs
    · show q1.lineStart ≤ q1.source.length; rw [src1, ls1]; exact h.lsq
    · show ∀ j : Nat, j ≤ p.line.length → E.PR ((p.lineStart + j : Nat) : Int) ((q1.lineStart + 2 + j : Nat) : Int)
      rw [ls1]; exact h.here
    · show E.PR (p.lineStart : Int) (q1.lineStart : Int); rw [ls1]; exact h.start
    · show ∀ a a' : Int, E.PR a a' → ((p.lineStart : Int) ≤ a ↔ (q1.lineStart : Int) ≤ a')
      rw [ls1]; exact h.ord
  have htp : TP G p.root := by
    have hb := h.proot
    generalize p.root = P at hb
    obtain ⟨l0, b0, i0⟩ := P
    simp only [PB.blocks, PB.label] at hb
    rw [TP_mk]
    refine ⟨fun hk => ?_, fun c hc => ?_⟩
    · exfalso
      rcases hk with hk | hk <;> rw [hb.2.1] at hk <;> revert hk <;> decide
    · rw [hb.1] at hc; cases hc
  have hgi0 : RDS.GI src bd ls ({ p with depth := 0 } : LP) := ⟨hgi.source, hgi.lineStart, hgi.line, hgi.good⟩
  have hj0 : RDS.J ({ p with depth := 0 } : LP) := by
    intro hk
    rw [containerKind_zero _ rfl] at hk
    have := hp.tree.root
    rw [show ({ p with depth := 0 } : LP).root.kind = p.root.kind from rfl, this] at hk
    cases hk
  have hS' : Nest.SimS qF E G 2 ({ p with depth := 0 } : LP) q1 := Sim.toNest hS htp hul
  have := Nest.lineTail_sim (F := qF) (x := x) (p := ({ p with depth := 0 } : LP)) (q := q1) HG hm hA hS' (Or.inr rfl) hne (hp.setDepth 0 (Nat.zero_le _)) hq1 true
    hgi0 hbd hls hj0
  exact ⟨⟨rootR_iff.mp this.root, this.cur.panic⟩, this.tp⟩


end CM.Proofs.Quote
