import CM.Proofs.EolStream1
import CM.Proofs.BlocksTotal
/-
C14 (a), stream level, part 2 — the per-line loop, the blank-line loop, `NextBlock` and `drain` of the in-memory parser
on the re-written input, in lockstep with the run on the original input.

The run on the original input is the run of `blocksLPo`: the block-phase line parser `blocksLP` that also evaluates,
after every line, the Boolean `kidsOrd` ("every position of a later child of the document lies at or after the end of
each earlier closed child"). The re-basing of the left-over children (`offsetTree` in `makeRoot`) commutes with the
position map only under this ordering; it is a property of the real parser that is not proved in this development
(the C02 span invariant `PBSpans` constrains block spans and top-level inline spans, not the nested inline children),
so it enters the final theorem as the decidable hypothesis "the checked run ends with end of input".
-/
namespace CM.Proofs
open CM CM.Model CM.Gen CM.Proofs.BT

/-! ### The checked line parser -/

def ordFail : String := "kidsOrd failed"

/-- `blocksLP` that also checks `kidsOrd` on the document's children after every line. -/
def blocksLPo (x : PExt) : LineParserI where
  σ := LP × Bool
  new children := ((blocksLP x).new children, true)
  line s source lineStart :=
    (processLine x (s.1.reset source lineStart), s.2 && kidsOrd (processLine x (s.1.reset source lineStart)).root.blocks)
  kids s := s.1.root.blocks
  panicked s := if s.2 then s.1.panic else some ordFail

/-! ### The first line of a buffer -/

theorem first_line_shape (Y : Bytes) (hY : NoCR Y) :
    ∃ body nl, Y.take (lineLen Y) = body ++ nl ∧ (∀ c ∈ body, isNL c = false) ∧ (nl = [] ∨ nl = [LF]) := by
  induction Y using lineLen_cases with
  | hnil => exact ⟨[], [], rfl, by simp, Or.inl rfl⟩
  | hLF rest => exact ⟨[], [LF], by simp [lineLen_LF], by simp, Or.inr rfl⟩
  | hCRLF r => exact absurd rfl (noCR_cons hY).1
  | hCR rest _ => exact absurd rfl (noCR_cons hY).1
  | hother c rest h1 h2 ih =>
    obtain ⟨body, nl, hb1, hb2, hb3⟩ := ih (noCR_cons hY).2
    refine ⟨c :: body, nl, by rw [lineLen_other h1 h2, List.take_succ_cons, hb1]; rfl, ?_, hb3⟩
    intro d hd
    rcases List.mem_cons.1 hd with h | h
    · subst h
      simp only [isNL, Bool.or_eq_false_iff, beq_eq_false_iff_ne, ne_eq]
      exact ⟨h1, h2⟩
    · exact hb2 d h

/-! ### `reset` and `new` -/

section
variable {x : PExt} {e X : Bytes}

/-- The state `reset` builds before it looks at the tab under the cursor. -/
def resetRec (lp : LP) (src : Bytes) (ls : Nat) : LP :=
  { lp with lineStart := ls, source := src, line := src.drop ls, i := 0, col := 0, depth := 0 }

theorem reset_eq (lp : LP) (src : Bytes) (ls : Nat) : lp.reset src ls = (resetRec lp src ls).updateTabRemaining := rfl

theorem reset_sim (he : StdEol e) (hX : NoCR X) (lp : LP) (k ls : Nat) (hls : ls ≤ k) (hk : k ≤ X.length)
    (body nl : Bytes) (hshape : (X.take k).drop ls = body ++ nl) (hb : ∀ c ∈ body, isNL c = false)
    (hnl : nl = [] ∨ nl = [LF]) :
    (mapLP e X lp).reset (toEol e (X.take k)) (eolPos e X ls) = mapLP e X (lp.reset (X.take k) ls) ∧
      LineOK X body nl (lp.reset (X.take k) ls) := by
  have hne := stdEol_ne_nil he
  have hlen : (X.take k).length = k := by rw [List.length_take]; exact Nat.min_eq_left hk
  have hr0 : LineOK X body nl (resetRec lp (X.take k) ls) :=
    ⟨hX, List.take_prefix _ _, by show ls ≤ (X.take k).length; omega, rfl, hshape, hb, hnl, Nat.zero_le _⟩
  have hline : (toEol e (X.take k)).drop (eolPos e X ls) = toEol e ((X.take k).drop ls) := by
    rw [← eolPos_take e X hls, drop_toEol e hne]
  have hrec : resetRec (mapLP e X lp) (toEol e (X.take k)) (eolPos e X ls) = mapLP e X (resetRec lp (X.take k) ls) := by
    simp only [resetRec, mapLP, eolPos_zero, Nat.sub_self, Nat.add_zero]
    rw [hline]
  rw [reset_eq, reset_eq, hrec, mapLP_updateTab hr0 he]
  exact ⟨rfl, hr0.updateTab⟩

theorem new_sim (bs : List PB) :
    (blocksLP x).new (mapPBs (eolPosZ e X) bs) = mapLP e X ((blocksLP x).new bs) := by
  show ({ source := [], root := docRoot (mapPBs (eolPosZ e X) bs), lineStart := 0, line := [] } : LP) = _
  simp only [mapLP, blocksLP, eolPos_zero, toEol_nil]
  rfl

end

/-! ### The outcome of a `NextBlock` call on the two sides -/

/-- Corresponding outcomes: the same kind of outcome; a delivered root is the image of the original root and the
    parsers correspond afterwards. -/
def OutRel (e inp : Bytes) (o o' : NBOut × BP) : Prop :=
  match o.1, o'.1 with
  | .block r, .block r' => r' = mapRoot e inp r ∧ BPRel e inp o.2 o'.2 ∧ kidsOrd o.2.blocks = true
  | .err a, .err b => a = b
  | _, _ => False

def IsPanic (o : NBOut) : Prop := ∃ m, o = .panic m

/-! ### The per-line loop -/

section
variable {x : PExt} {e inp : Bytes}

theorem take_drop_line (b : Bytes) (i : Nat) :
    (b.take (i + lineLen (b.drop i))).drop i = (b.drop i).take (lineLen (b.drop i)) := by
  rw [List.drop_take, Nat.add_sub_cancel_left]

theorem readline_step (p : BP) (herr : p.err = some .eof) (hi : p.i ≤ p.buf.length) :
    readline (p.rd.data.length + p.rd.sched.length + 2) p =
      (decide (0 < lineLen (p.buf.drop p.i)), { p with i := p.i + lineLen (p.buf.drop p.i) }) :=
  CM.Model.readline_mem (p.rd.data.length + p.rd.sched.length + 1) p (by rw [herr]; rfl) hi

theorem BPRel.readline (he : StdEol e) (hcr : NoCR inp) {p p' : BP} (R : BPRel e inp p p') :
    BPRel e inp { p with i := p.i + lineLen (p.buf.drop p.i) } { p' with i := p'.i + lineLen (p'.buf.drop p'.i) } ∧
    decide (0 < lineLen (p'.buf.drop p'.i)) = decide (0 < lineLen (p.buf.drop p.i)) := by
  have hne := stdEol_ne_nil he
  have hbufC : NoCR p.buf := by rw [R.buf]; exact noCR_drop hcr _
  have hd : p'.buf.drop p'.i = toEol e (p.buf.drop p.i) := by rw [R.buf', R.i', drop_toEol e hne]
  have hll := lineLen_toEol he (noCR_drop hbufC p.i)
  have hle := lineLen_le (p.buf.drop p.i)
  simp only [List.length_drop] at hle
  refine ⟨⟨R.buf, R.off, R.buf', ?_, ?_, R.off', R.lineno, R.err, R.err', R.rd, R.blocks, R.panic⟩, ?_⟩
  · show p'.i + lineLen (p'.buf.drop p'.i) = eolPos e p.buf (p.i + lineLen (p.buf.drop p.i))
    rw [hd, hll, R.i', eolPos_add]
  · show p.i + lineLen (p.buf.drop p.i) ≤ p.buf.length
    have := R.ile; omega
  · rw [hd]
    by_cases h : p.buf.drop p.i = []
    · rw [h]; rfl
    · have h' : toEol e (p.buf.drop p.i) ≠ [] := fun h0 => h ((toEol_eq_nil hne).1 h0)
      simp [lineLen_pos h, lineLen_pos h']

/-- The condition on the line the loop is about to feed: it is one line of the buffer. -/
def LineCond (p : BP) (ls : Nat) : Prop :=
  ls ≤ p.i ∧ ∃ body nl, (p.buf.take p.i).drop ls = body ++ nl ∧ (∀ c ∈ body, isNL c = false) ∧ (nl = [] ∨ nl = [LF])

theorem lineCond_next (hcr : NoCR inp) {p p' : BP} (R : BPRel e inp p p') :
    LineCond { p with i := p.i + lineLen (p.buf.drop p.i) } p.i := by
  have hbufC : NoCR p.buf := by rw [R.buf]; exact noCR_drop hcr _
  obtain ⟨body, nl, h1, h2, h3⟩ := first_line_shape (p.buf.drop p.i) (noCR_drop hbufC _)
  exact ⟨Nat.le_add_right _ _, body, nl, by show (p.buf.take (p.i + _)).drop p.i = _; rw [take_drop_line, h1], h2, h3⟩

theorem parseLines_eolSim (he : StdEol e) (hcr : NoCR inp) (hnul : NoNul inp)
    (hP : ∀ o, ParaSimAll x e (inp.drop o)) (h7 : Start7Inv) :
    ∀ (f f' : Nat) (lp : LP) (ok : Bool) (ls : Nat) (p p' : BP), f ≤ f' → BPRel e inp p p' → LPInv' lp → LineCond p ls →
      IsPanic (parseLines (blocksLPo x) f (lp, ok) ls p).1 ∨
      OutRel e inp (parseLines (blocksLPo x) f (lp, ok) ls p)
        (parseLines (blocksLP x) f' (mapLP e p.buf lp) (eolPos e p.buf ls) p') := by
  intro f
  induction f with
  | zero => intro f' lp ok ls p p' _ _ _ _; exact Or.inl ⟨_, rfl⟩
  | succ f ih =>
    intro f' lp ok ls p p' hff R hlp hline
    obtain ⟨g, rfl⟩ : ∃ g, f' = g + 1 := ⟨f' - 1, by omega⟩
    have hne := stdEol_ne_nil he
    have hbufC : NoCR p.buf := by rw [R.buf]; exact noCR_drop hcr _
    obtain ⟨hls, body, nl, hshape, hb, hnl⟩ := hline
    -- the line on the two sides
    have hsrc' : p'.buf.take p'.i = toEol e (p.buf.take p.i) := by rw [R.buf', R.i', take_toEol e hne]
    obtain ⟨r1, r2⟩ := reset_sim (e := e) he hbufC lp p.i ls hls R.ile body nl hshape hb hnl
    have hinv : BT.Inv (lp.reset (p.buf.take p.i) ls) := (reset_LPInv lp hlp _ _).toInv
    have hPb : ParaSimAll x e p.buf := by rw [R.buf]; exact hP _
    obtain ⟨s1, s2⟩ := processLine_sim he hPb h7 hinv r2
    have hnp := processLine_no_panic x _ (reset_LPInv lp hlp (p.buf.take p.i) ls)
    have hline' : (blocksLP x).line (mapLP e p.buf lp) (p'.buf.take p'.i) (eolPos e p.buf ls) =
        mapLP e p.buf (processLine x (lp.reset (p.buf.take p.i) ls)) := by
      show processLine x ((mapLP e p.buf lp).reset (p'.buf.take p'.i) (eolPos e p.buf ls)) = _
      rw [hsrc', r1, s1]
    generalize ht : processLine x (lp.reset (p.buf.take p.i) ls) = t at hline' hnp
    have hlineo : (blocksLPo x).line (lp, ok) (p.buf.take p.i) ls = (t, ok && kidsOrd t.root.blocks) := by
      show (processLine x _, ok && kidsOrd (processLine x _).root.blocks) = _
      rw [ht]
    cases hok : (ok && kidsOrd t.root.blocks) with
    | false =>
      left
      have hpan : (blocksLPo x).panicked ((blocksLPo x).line (lp, ok) (p.buf.take p.i) ls) = some ordFail := by
        rw [hlineo, hok]; rfl
      rw [parseLines_panicked _ hpan]
      exact ⟨_, rfl⟩
    | true =>
      have hpan : (blocksLPo x).panicked ((blocksLPo x).line (lp, ok) (p.buf.take p.i) ls) = none := by
        rw [hlineo, hok]; exact hnp.1
      have hpan' : (blocksLP x).panicked ((blocksLP x).line (mapLP e p.buf lp) (p'.buf.take p'.i) (eolPos e p.buf ls)) = none := by
        rw [hline']; exact hnp.1
      have hord : kidsOrd t.root.blocks = true := by
        simp only [Bool.and_eq_true] at hok; exact hok.2
      have hkids : (blocksLPo x).kids ((blocksLPo x).line (lp, ok) (p.buf.take p.i) ls) = t.root.blocks := by
        rw [hlineo]; rfl
      have hkids' : (blocksLP x).kids ((blocksLP x).line (mapLP e p.buf lp) (p'.buf.take p'.i) (eolPos e p.buf ls)) =
          mapPBs (eolPosZ e p.buf) t.root.blocks := by
        rw [hline']; show (mapPB (eolPosZ e p.buf) t.root).blocks = _; rw [mapPB_blocks]
      rcases makeRoot_eolSim he hcr hnul R t.root.blocks hord with ⟨m1, m2⟩ | ⟨r, q, q', m1, m2, m3, m4⟩
      · -- no root yet: the next line
        rw [parseLines_next _ hpan (by rw [hkids]; exact m1), parseLines_next _ hpan' (by rw [hkids']; exact m2),
          readline_step p R.err R.ile, readline_step p' R.err' (by
            rw [R.buf', R.i', ← eolPos_length e hne]; exact eolPos_mono _ _ R.ile)]
        simp only []
        obtain ⟨Rn, _⟩ := R.readline he hcr
        have := ih g t (ok && kidsOrd t.root.blocks) p.i _ _ (by omega) Rn hnp.2 (lineCond_next hcr R)
        rw [hlineo, hline', hok]
        rw [hok] at this
        have hi' : eolPos e p.buf p.i = p'.i := R.i'.symm
        simp only [] at this
        rw [hi'] at this
        exact this
      · right
        rw [parseLines_root _ hpan (by rw [hkids]; exact m1), parseLines_root _ hpan' (by rw [hkids']; exact m2)]
        exact ⟨rfl, m3, m4⟩

/-! ### The blank-line loop -/

theorem isBlankLine_take_rel (he : StdEol e) {p p' : BP} (R : BPRel e inp p p') :
    isBlankLine (p'.buf.take p'.i) = isBlankLine (p.buf.take p.i) := by
  rw [R.buf', R.i', take_toEol e (stdEol_ne_nil he), isBlankLine_toEol he]

/-- Dropping the bytes before the parse position (`freshLine`, and the step of the blank-line loop). -/
theorem BPRel.advance (he : StdEol e) (hcr : NoCR inp) (hnul : NoNul inp) {p p' : BP} (R : BPRel e inp p p')
    (hb : p.blocks = []) (ln ln' : Nat) (hln : ln' = ln) :
    BPRel e inp { p with offset := p.offset + unpaddedNullLength (p.buf.take p.i), lineno := ln, buf := p.buf.drop p.i, i := 0 }
      { p' with offset := p'.offset + unpaddedNullLength (p'.buf.take p'.i), lineno := ln', buf := p'.buf.drop p'.i, i := 0 } := by
  have hne := stdEol_ne_nil he
  have hbufN : NoNul p.buf := by rw [R.buf]; exact noNul_drop hnul _
  have hlen : (p.buf.take p.i).length = p.i := by rw [List.length_take]; exact Nat.min_eq_left R.ile
  have hsrc' : p'.buf.take p'.i = toEol e (p.buf.take p.i) := by rw [R.buf', R.i', take_toEol e hne]
  have hu : unpaddedNullLength (p.buf.take p.i) = p.i := by rw [unpaddedNullLength_noNul (noNul_take hbufN _), hlen]
  have hu' : unpaddedNullLength (p'.buf.take p'.i) = eolPos e p.buf p.i := by
    rw [hsrc', unpaddedNullLength_noNul (noNul_toEol he (noNul_take hbufN _)), eolPos_eq_length e hne p.buf R.ile]
  refine ⟨?_, ?_, ?_, ?_, Nat.zero_le _, ?_, hln, R.err, R.err', R.rd, ?_, R.panic⟩
  · show p.buf.drop p.i = inp.drop (p.offset + unpaddedNullLength _)
    rw [hu, R.buf, List.drop_drop]
  · show p.offset + unpaddedNullLength _ ≤ inp.length
    rw [hu]
    have := R.ile; rw [R.buf, List.length_drop] at this
    have := R.off; omega
  · show p'.buf.drop p'.i = toEol e (p.buf.drop p.i)
    rw [R.buf', R.i', drop_toEol e hne]
  · show 0 = eolPos e (p.buf.drop p.i) 0
    simp
  · show p'.offset + unpaddedNullLength _ = eolPos e inp (p.offset + unpaddedNullLength _)
    rw [hu, hu', R.off', eolPos_add, ← R.buf]
  · show p'.blocks = mapPBs (eolPosZ e (p.buf.drop p.i)) p.blocks
    rw [R.blocks, hb]; rfl

theorem skipBlank_eolSim (he : StdEol e) (hcr : NoCR inp) (hnul : NoNul inp) :
    ∀ (f f' : Nat) (p p' : BP), f ≤ f' → BPRel e inp p p' → p.blocks = [] → p.i = 0 →
      ((skipBlank f p).1 = none ∧ (skipBlank f p).2.panic.isSome = true) ∨
      ((skipBlank f p).1 = none ∧ (skipBlank f' p').1 = none ∧ (skipBlank f' p').2.panic = (skipBlank f p).2.panic ∧
        (skipBlank f' p').2.err = (skipBlank f p).2.err) ∨
      (∃ q q', (skipBlank f p).1 = some q ∧ (skipBlank f' p').1 = some q' ∧ BPRel e inp q q' ∧ q.blocks = [] ∧
        LineCond q 0) := by
  intro f
  induction f with
  | zero =>
    intro f' p p' _ R _ _; left
    refine ⟨rfl, ?_⟩
    show (p.panic <|> some "skipBlank: fuel").isSome = true
    cases p.panic <;> rfl
  | succ f ih =>
    intro f' p p' hff R hb hi0
    obtain ⟨g, rfl⟩ : ∃ g, f' = g + 1 := ⟨f' - 1, by omega⟩
    have hne := stdEol_ne_nil he
    have hile' : p'.i ≤ p'.buf.length := by
      rw [R.buf', R.i', ← eolPos_length e hne]; exact eolPos_mono _ _ R.ile
    obtain ⟨Rn, hflag⟩ := R.readline he hcr
    unfold skipBlank
    rw [readline_step p R.err R.ile, readline_step p' R.err' hile', hflag]
    simp only []
    by_cases hmove : decide (0 < lineLen (p.buf.drop p.i)) = true
    · rw [hmove]
      simp only [Bool.not_true, Bool.false_eq_true, if_false]
      have hbl := isBlankLine_take_rel he Rn
      simp only [] at hbl
      rw [hbl]
      by_cases hblank : isBlankLine (p.buf.take (p.i + lineLen (p.buf.drop p.i))) = true
      · rw [hblank]
        simp only [Bool.not_true, Bool.false_eq_true, if_false]
        have Ra := Rn.advance he hcr hnul hb (p.lineno + 1) (p'.lineno + 1) (by rw [R.lineno])
        exact ih g _ _ (by omega) Ra hb rfl
      · have hnb : isBlankLine (p.buf.take (p.i + lineLen (p.buf.drop p.i))) = false := by
          cases h : isBlankLine (p.buf.take (p.i + lineLen (p.buf.drop p.i)))
          · rfl
          · exact absurd h hblank
        rw [hnb]
        simp only [Bool.not_false, if_true]
        right; right
        refine ⟨_, _, rfl, rfl, Rn, hb, ?_⟩
        have h := lineCond_next hcr R
        simp only [hi0] at h ⊢
        exact h
    · have hm : decide (0 < lineLen (p.buf.drop p.i)) = false := by
        cases h : decide (0 < lineLen (p.buf.drop p.i))
        · rfl
        · exact absurd h hmove
      rw [hm]
      simp only [Bool.not_false, if_true]
      right; left
      exact ⟨trivial, trivial, R.panic, by rw [R.err, R.err']⟩

/-! ### NextBlock -/

theorem bpFuel_le {p p' : BP} (R : BPRel e inp p p') (he : StdEol e) : bpFuel p ≤ bpFuel p' := by
  unfold bpFuel
  have := length_toEol_ge e (stdEol_ne_nil he) p.buf
  rw [← R.buf'] at this
  have := R.rd
  omega

theorem nextBlock_eolSim (he : StdEol e) (hcr : NoCR inp) (hnul : NoNul inp)
    (hP : ∀ o, ParaSimAll x e (inp.drop o)) (h7 : Start7Inv) {p p' : BP} (R : BPRel e inp p p')
    (hord : kidsOrd p.blocks = true) :
    IsPanic (nextBlock (blocksLPo x) p).1 ∨ OutRel e inp (nextBlock (blocksLPo x) p) (nextBlock (blocksLP x) p') := by
  have hne := stdEol_ne_nil he
  have hfuel := bpFuel_le R he
  have hlen' : p'.blocks.length = p.blocks.length := by rw [R.blocks, mapPBs_length]
  unfold nextBlock
  rcases makeRoot_eolSim he hcr hnul R p.blocks hord with ⟨m1, m2⟩ | ⟨r, q, q', m1, m2, m3, m4⟩
  · rw [← R.blocks] at m2
    rw [m1, m2]
    simp only [hlen']
    have hile' : p'.i ≤ p'.buf.length := by
      rw [R.buf', R.i', ← eolPos_length e hne]; exact eolPos_mono _ _ R.ile
    by_cases hlen : p.blocks.length > 0
    · rw [if_pos hlen, if_pos hlen]
      rw [readline_step p R.err R.ile, readline_step p' R.err' hile']
      simp only []
      obtain ⟨Rn, _⟩ := R.readline he hcr
      have := parseLines_eolSim (x := x) he hcr hnul hP h7 (bpFuel p) (bpFuel p') ((blocksLP x).new p.blocks) true p.i _ _
        hfuel Rn (new_LPInv' x p.blocks) (lineCond_next hcr R)
      simp only [] at this
      rw [← new_sim, ← R.i', ← R.blocks] at this
      exact this
    · rw [if_neg hlen, if_neg hlen]
      have hb : p.blocks = [] := by
        cases h : p.blocks with
        | nil => rfl
        | cons a t => rw [h] at hlen; simp at hlen
      have Rf := R.advance he hcr hnul hb (p.lineno + lineCount (p.buf.take p.i)) (p'.lineno + lineCount (p'.buf.take p'.i))
        (by
          have hbufC : NoCR p.buf := by rw [R.buf]; exact noCR_drop hcr _
          rw [R.buf', R.i', take_toEol e hne, lineCount_toEol he _ (noCR_take hbufC _), R.lineno])
      rcases skipBlank_eolSim he hcr hnul (bpFuel p) (bpFuel p') _ _ hfuel Rf hb rfl with
        ⟨a1, a2⟩ | ⟨a1, a2, a3, a4⟩ | ⟨q, q', a1, a2, a3, a4, a5⟩
      · left
        generalize skipBlank (bpFuel p) _ = sk at a1 a2
        obtain ⟨o1, o2⟩ := sk
        simp only [] at a1 a2
        subst a1
        cases hpn : o2.panic with
        | none => rw [hpn] at a2; cases a2
        | some m => exact ⟨m, by simp only [hpn]⟩
      · generalize skipBlank (bpFuel p) _ = sk at a1 a3 a4
        generalize skipBlank (bpFuel p') _ = sk' at a2 a3 a4
        obtain ⟨o1, o2⟩ := sk
        obtain ⟨o1', o2'⟩ := sk'
        simp only [] at a1 a2 a3 a4
        subst a1; subst a2
        simp only []
        rw [a3, a4]
        cases hpn : o2.panic with
        | some m => left; exact ⟨m, rfl⟩
        | none => right; show OutRel e inp (.err _, _) (.err _, _); exact rfl
      · generalize skipBlank (bpFuel p) _ = sk at a1
        generalize skipBlank (bpFuel p') _ = sk' at a2
        obtain ⟨o1, o2⟩ := sk
        obtain ⟨o1', o2'⟩ := sk'
        simp only [] at a1 a2
        subst a1; subst a2
        simp only []
        have hq'b : q'.blocks = [] := by rw [a3.blocks, a4]; rfl
        rw [hq'b, a4]
        have := parseLines_eolSim (x := x) he hcr hnul hP h7 (bpFuel p) (bpFuel p') ((blocksLP x).new []) true 0 q q'
          hfuel a3 (new_LPInv' x []) a5
        rw [← new_sim] at this
        simp only [eolPos_zero, mapPBs_nil] at this
        exact this
  · right
    rw [← R.blocks] at m2
    rw [m1, m2]
    exact ⟨rfl, m3, m4⟩

/-! ### drain -/

/-- The run on the re-written input delivers the images of the roots of the (checked) run on the original input, and ends
    the same way — unless the checked run panics (fuel, or the `kidsOrd` check). -/
theorem drain_eolSim (he : StdEol e) (hcr : NoCR inp) (hnul : NoNul inp)
    (hP : ∀ o, ParaSimAll x e (inp.drop o)) (h7 : Start7Inv) :
    ∀ (n : Nat) (p p' : BP) (acc acc' : List Root), BPRel e inp p p' → kidsOrd p.blocks = true →
      acc' = acc.map (mapRoot e inp) →
      IsPanic (drain (blocksLPo x) n p acc).2.1 ∨
      ((drain (blocksLP x) n p' acc').1 = (drain (blocksLPo x) n p acc).1.map (mapRoot e inp) ∧
        ∃ er, (drain (blocksLPo x) n p acc).2.1 = .err er ∧ (drain (blocksLP x) n p' acc').2.1 = .err er) := by
  intro n
  induction n with
  | zero => intro p p' acc acc' _ _ _; left; exact ⟨_, rfl⟩
  | succ n ih =>
    intro p p' acc acc' R hord hacc
    unfold drain
    rcases nextBlock_eolSim (x := x) he hcr hnul hP h7 R hord with ⟨m, hm⟩ | hrel
    · left
      generalize nextBlock (blocksLPo x) p = nb at hm
      obtain ⟨o, q⟩ := nb
      simp only [] at hm
      subst hm
      exact ⟨m, rfl⟩
    · generalize nextBlock (blocksLPo x) p = nb at hrel
      generalize nextBlock (blocksLP x) p' = nb' at hrel
      obtain ⟨o, q⟩ := nb
      obtain ⟨o', q'⟩ := nb'
      cases o with
      | block r =>
        cases o' with
        | block r' =>
          obtain ⟨h1, h2, h3⟩ := hrel
          simp only []
          exact ih q q' (r :: acc) (r' :: acc') h2 h3 (by rw [h1, hacc]; rfl)
        | err b => exact absurd hrel (by simp [OutRel])
        | panic m => exact absurd hrel (by simp [OutRel])
      | err a =>
        cases o' with
        | block r' => exact absurd hrel (by simp [OutRel])
        | err b =>
          right
          have hab : a = b := hrel
          subst hab
          simp only []
          exact ⟨by rw [hacc, List.map_reverse], a, rfl, rfl⟩
        | panic m => exact absurd hrel (by simp [OutRel])
      | panic m => exact absurd hrel (by simp [OutRel])

end

end CM.Proofs
