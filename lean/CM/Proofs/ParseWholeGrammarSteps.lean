import CM.Proofs.ParseWholeGrammarWrap
/-
C05, inline half — the invariant `Om` on the states the primitives produce (one lemma per kind of step).
-/
namespace CM.Proofs.InlH
open CM CM.Model CM.Model.Inl CM.Spec

theorem obi_lt {e : Gen.DelimElem} {i : Nat} (h : Gen.openersBottomIndex e = some i) : i < Gen.openersBottomCount := by
  unfold Gen.openersBottomIndex at h
  have : Gen.openersBottomCount = 14 := rfl
  rw [this]
  repeat' split at h
  all_goals first
    | (cases h; omega)
    | cases h

/-- a node's span (or a fresh link's reference-free fields) changes: kind, ref and children stay -/
theorem Om.modify_same {s : IState} {b P0 : Nat} (h : Om s b P0) (id : Nat) (f : INode → INode)
    (hk : ∀ m, (f m).kind = m.kind) (hr : ∀ m, (f m).ref = m.ref) (hc : ∀ m, (f m).kids = m.kids) :
    Om { s with nodes := s.nodes.modify id f } b P0 := by
  refine ⟨h.1.modify_same hk hr hc, ?_⟩
  have hkids : ∀ i : Nat, ((s.nodes.modify id f)[i]!).kids = (s.nodes[i]!).kids := by
    intro i
    by_cases hi : id = i
    · subst hi
      by_cases hlt : id < s.nodes.size
      · rw [kids_modify_self _ hlt, hc]
      · rw [getElem!_neg _ id (by simpa using hlt), getElem!_neg _ id hlt]
    · rw [kids_modify_other _ hi]
  refine h.2.frame (KSame.modify _ _ hk) (by simpa using h.2.pmsz) (by rw [hkids]; exact List.Sublist.refl _)
    (by rw [hkids]; exact List.Sublist.refl _) ?_ (fun _ _ => rfl)
  intro hne x hx
  rw [hkids]; exact h.2.disj hne x hx

/-- `delStack i j` in the upper part -/
theorem Om.del {s : IState} {b P0 : Nat} (h : Om s b P0) {i j : Nat} (hbi : b ≤ i) (hij : i ≤ j) (hi : i ≤ s.stack.size) :
    Om (delState s i j) b P0 := by
  refine ⟨h.1, ?_⟩
  show SOK _ _ (stN (s.stack.extract 0 i ++ s.stack.extract j s.stack.size)) b P0
  rw [stN_del]
  exact h.2.del hbi hij (by rw [stN_length]; exact hi)

theorem stN_delState (s : IState) (i j : Nat) :
    stN (delState s i j).stack = (stN s.stack).take i ++ (stN s.stack).drop j := stN_del _ _ _

/-- `removeNode` of the node of the upper entry `idx`, then `delStack idx (idx+1)` -/
theorem Om.remove {s : IState} {b P0 : Nat} (h : Om s b P0) {idx x P : Nat} (hb : b ≤ idx)
    (hx : (stN s.stack)[idx]? = some x) (hP : (s.parentMap[x]?).join = some P) :
    Om (delState (removeState s x P) idx (idx + 1)) b P0 := by
  have hxU : x ∈ (stN s.stack).drop b := by
    have := list_split_at hx
    rw [this, List.append_assoc, List.drop_append_of_le_length (by rw [List.length_take]; have := getElem?_lt hx; omega)]
    simp
  have hPe : P = P0 := by
    have := h.2.upperP x hxU
    rw [hP] at this; exact Option.some.inj this
  subst hPe
  refine ⟨h.1.removeKid, ?_⟩
  show SOK _ _ (stN (s.stack.extract 0 idx ++ s.stack.extract (idx + 1) s.stack.size)) b P
  rw [stN_del]
  exact h.2.removeUpper h.1 hb hx

theorem getElem!_toList {ks : Array Nat} {i x : Nat} (h : ks[i]! = x) (hx : x ≠ 0) : ks.toList[i]? = some x := by
  by_cases hi : i < ks.size
  · rw [Array.getElem?_toList, Array.getElem?_eq_getElem hi, ← h, getElem!_pos ks i hi]
  · rw [getElem!_neg ks i hi] at h
    exact absurd h.symm hx

theorem ne_of_beq_some_false {ks : Array Nat} {j c : Nat} (h : (some ks[j]! == some c) = false) : ks.toList[j]? ≠ some c := by
  by_cases hj : j < ks.size
  · rw [Array.getElem?_toList, Array.getElem?_eq_getElem hj, ← getElem!_pos ks j hj]
    intro e
    rw [e] at h
    simp at h
  · rw [Array.getElem?_toList, Array.getElem?_eq_none (by omega)]
    intro e; cases e

/-- under the hypotheses of `SOK.wrapEmph`: the closer sits at or behind the end of the moved range -/
theorem SOK.closer_pos {a : Array INode} {pm : Array (Option Nat)} {N : List Nat} {b P0 : Nat} (h : SOK a pm N b P0)
    (hA : AOK a) {oi cur o c si ei : Nat} (hb : b ≤ oi) (hoc : oi < cur)
    (ho : N[oi]? = some o) (hc : N[cur]? = some c)
    (hsi : 1 ≤ si) (hso : (a[P0]!).kids.toList[si - 1]? = some o) (hse : si ≤ ei)
    (hne : ∀ j, si ≤ j → j < ei → (a[P0]!).kids.toList[j]? ≠ some c) :
    ∃ p, ei ≤ p ∧ (a[P0]!).kids.toList[p]? = some c := by
  have hnd : (a[P0]!).kids.toList.Nodup := (hA.get! h.p0).2.1
  have hN1 := list_split_at ho
  have hcU : c ∈ N.drop (oi + 1) := by
    have hc' : (N.drop (oi + 1))[cur - oi - 1]? = some c := by
      rw [List.getElem?_drop]
      have : oi + 1 + (cur - oi - 1) = cur := by omega
      rw [this]; exact hc
    exact List.mem_of_getElem? hc'
  have hU : N.drop b = (N.take oi).drop b ++ [o] ++ N.drop (oi + 1) := by
    conv => lhs; rw [hN1]
    rw [List.append_assoc, List.drop_append_of_le_length (by rw [List.length_take]; have := getElem?_lt ho; omega),
      List.append_assoc]
  have hsub := h.upper
  rw [hU] at hsub
  obtain ⟨_, hY⟩ := sublist_split_at hnd hsub hso
  have e1 : si - 1 + 1 = si := by omega
  rw [e1] at hY
  have hmem : c ∈ (a[P0]!).kids.toList.drop si := hY.subset hcU
  obtain ⟨q, hq, hqe⟩ := List.mem_iff_getElem.1 hmem
  rw [List.getElem_drop] at hqe
  have hlt : si + q < (a[P0]!).kids.toList.length := by rw [List.length_drop] at hq; omega
  refine ⟨si + q, ?_, by rw [List.getElem?_eq_getElem hlt, hqe]⟩
  rcases Nat.lt_or_ge (si + q) ei with hlt' | hge
  · exact absurd (by rw [List.getElem?_eq_getElem hlt, hqe]) (hne (si + q) (by omega) hlt')
  · exact hge

/-- **an emphasis `wrap` between the upper entries `oi < cur`, then `delStack (oi+1) cur`** -/
theorem Om.wrapEmph {s s5 : IState} {b P0 : Nat} (h : Om s b P0) {kind o c r oi cur : Nat}
    (hW : WrapPost s s5 kind o (some c) r) (hkind : kind = IK.emphasis ∨ kind = IK.strong)
    (hb : b ≤ oi) (hoc : oi < cur) (ho : (stN s.stack)[oi]? = some o) (hc : (stN s.stack)[cur]? = some c) :
    Om (delState s5 (oi + 1) cur) b P0 := by
  obtain ⟨P, si, ei, nd, hj, hk, _, _, hsi, _, hso, hse, hne, _, hn, hst, hpm⟩ := hW
  have hol := getElem?_lt ho
  have hoU : o ∈ (stN s.stack).drop b := by
    have := list_split_at ho
    rw [this, List.append_assoc, List.drop_append_of_le_length (by rw [List.length_take]; omega)]
    simp
  have hPe : P = P0 := by
    have := h.2.upperP o hoU
    rw [hj] at this; exact Option.some.inj this
  subst hPe
  have ho0 : o ≠ 0 := by
    intro e
    have := (h.2.stk o ((List.drop_sublist _ _).subset hoU)).2
    rw [e, h.1.root] at this
    revert this; decide
  have hso' := getElem!_toList hso ho0
  have hne' : ∀ j, si ≤ j → j < ei → (s.nodes[P]!).kids.toList[j]? ≠ some c :=
    fun j h1 h2 => ne_of_beq_some_false (hne j h1 h2)
  have hkindw : nd.kind = IK.emphasis ∨ nd.kind = IK.strong ∨ nd.kind = IK.link ∨ nd.kind = IK.image := by
    rw [hk]; rcases hkind with e | e
    · exact Or.inl e
    · exact Or.inr (Or.inl e)
  have hPk : isWrapKind (kindOf s.nodes P) ∨ isLinkKind (kindOf s.nodes P) := by
    rcases h.2.p0k with e | e
    · left; rw [e, h.1.root]; exact Or.inl rfl
    · exact Or.inr e
  obtain ⟨p, hpe, hpc⟩ := h.2.closer_pos h.1 hb hoc ho hc hsi hso' hse hne'
  have hcU : c ∈ stN s.stack := List.mem_of_getElem? hc
  have hA' : AOK (wrapArena s.nodes nd P si ei) := by
    refine h.1.wrap h.2.p0 hkindw hse hPk (fun _ => ⟨c, p, hpe, hpc, ?_⟩)
    rw [(h.2.stk c hcU).2]; decide
  have hS' := h.2.wrapEmph h.1 nd hb hoc ho hc hsi hso' hse hne' hpm
  refine ⟨by show AOK s5.nodes; rw [hn]; exact hA', ?_⟩
  show SOK s5.nodes s5.parentMap (stN (s5.stack.extract 0 (oi + 1) ++ s5.stack.extract cur s5.stack.size)) b P
  rw [stN_del, hst, hn]
  exact hS'

/-! ### the steps of `processEmphasis`, in the form the verification conditions have -/

theorem take_drop_get_lt {N : List Nat} {i j k : Nat} (hk : k < i) (hi : i ≤ N.length) :
    (N.take i ++ N.drop j)[k]? = N[k]? := by
  rw [List.getElem?_append_left (by rw [List.length_take]; omega), List.getElem?_take_of_lt hk]

theorem take_drop_get_ge {N : List Nat} {i j k : Nat} (hi : i ≤ N.length) :
    (N.take i ++ N.drop j)[i + k]? = N[j + k]? := by
  rw [List.getElem?_append_right (by rw [List.length_take]; omega), List.length_take, List.getElem?_drop]
  congr 1
  omega

/-- after the `wrap` and `delStack (oi+1) cur`: the opener is entry `oi`, the closer entry `oi+1` -/
theorem pe_wrap {s s5 s4 : IState} {b P0 kind o c r oi cur : Nat} (h : Om s b P0)
    (hW : WrapPost s s5 kind o (some c) r) (hkind : kind = IK.emphasis ∨ kind = IK.strong)
    (hb : b ≤ oi) (hoc : oi < cur) (ho : (stN s.stack)[oi]? = some o) (hc : (stN s.stack)[cur]? = some c)
    (hd : s4 = delState s5 (oi + 1) cur) :
    Om s4 b P0 ∧ (stN s4.stack)[oi]? = some o ∧ (stN s4.stack)[oi + 1]? = some c := by
  subst hd
  refine ⟨h.wrapEmph hW hkind hb hoc ho hc, ?_, ?_⟩
  all_goals
    obtain ⟨_, _, _, _, _, _, _, _, _, _, _, _, _, _, _, hst, _⟩ := hW
    rw [stN_delState, hst]
    have hcl := getElem?_lt hc
  · rw [take_drop_get_lt (by omega) (by omega)]; exact ho
  · have := take_drop_get_ge (N := stN s.stack) (i := oi + 1) (j := cur) (k := 0) (by omega)
    simp only [Nat.add_zero] at this
    rw [this]; exact hc

/-- `removeNode` of entry `idx`, `delStack idx (idx+1)`: the next entry moves down -/
theorem pe_remove {s s3 s2 : IState} {b P0 idx x : Nat} (h : Om s b P0) (hb : b ≤ idx)
    (hx : (stN s.stack)[idx]? = some x)
    (hR : ∃ P, (s.parentMap[x]?).join = some P ∧ s3 = removeState s x P) (hd : s2 = delState s3 idx (idx + 1)) :
    Om s2 b P0 ∧ ∀ y, (stN s.stack)[idx + 1]? = some y → (stN s2.stack)[idx]? = some y := by
  obtain ⟨P, hP, rfl⟩ := hR
  subst hd
  refine ⟨h.remove hb hx hP, fun y hy => ?_⟩
  rw [stN_delState]
  show ((stN s.stack).take idx ++ (stN s.stack).drop (idx + 1))[idx]? = some y
  have := take_drop_get_ge (N := stN s.stack) (i := idx) (j := idx + 1) (k := 0) (by have := getElem?_lt hx; omega)
  simp only [Nat.add_zero] at this
  rw [this]; exact hy

end CM.Proofs.InlH
