import CM.Proofs.InlineSerLines
/-
Inline serialisation — part 6: the self-contained constructs that are `Piece.node`s: character references and
autolinks (acceptance by the pure recognisers `parseCharacterEscape` / `parseAutolink` is the hypothesis).
-/
namespace CM.Proofs.InlSer
open CM CM.Gen CM.Model CM.Model.Inl CM.Proofs.EscText

def refNode (e : Nat) (p : Nat) : INode := leafN IK.charRef p (p + e)

/-- **A character reference is a segment**: one CharRef node spanning it. -/
theorem ref_seg {c : ICtx} {src : Bytes} {f : Nat → LS → IM (ForInStep LS)} (hf : Steps c src f) {a E : Nat} {last : Bool}
    (hE : E ≤ src.length) (p e : Nat) (hlt : p < E) (he0 : 0 < e) (hb : src[p]? = some 0x26)
    (he : parseCharacterEscape c.x.ext (upTo src p E) = (e : Int)) (ps : Nat) :
    Seg c f a E last p ps (p + e) (p + e) (pushP (refNode e p) ∘ pushAll (flushN ps p)) :=
  Seg.ofStep (by omega) (fun s => by simp [Function.comp, pushAll_up]) (fun s hs i => by
    have := hf.amp i p a E last (ps : Int) s e hs hlt hE hb he
    have e1 : ((p : Nat) : Int) + ((e : Nat) : Int) = ((p + e : Nat) : Int) := by simp
    have a2 : addLeafP IK.charRef ((p : Nat) : Int) ((p + e : Nat) : Int) = pushAll [leafN IK.charRef p (p + e)] := by
      rw [addLeafP_cast, if_pos (by omega)]
    rw [e1, a2, addText_flush] at this
    rw [this]
    rfl)

def autoNode (e : Nat) (p : Nat) : INode :=
  { kind := IK.autolink, start := (p : Int), stop := ((p + e : Nat) : Int),
    sub := [mkInline IK.text ((p + 1 : Nat) : Int) ((p + e - 1 : Nat) : Int)] }

/-- **An autolink is a segment**: one Autolink node with one Text child (the URI between the angle brackets). -/
theorem auto_seg {c : ICtx} {src : Bytes} {f : Nat → LS → IM (ForInStep LS)} (hf : Steps c src f) {a E : Nat} {last : Bool}
    (hE : E ≤ src.length) (p e : Nat) (hlt : p < E) (he0 : 1 ≤ e) (hb : src[p]? = some 0x3C)
    (he : parseAutolink (upTo src p E) = (e : Int)) (ps : Nat) :
    Seg c f a E last p ps (p + e) (p + e) (pushP (autoNode e p) ∘ pushAll (flushN ps p)) :=
  Seg.ofStep (by omega) (fun s => by simp [Function.comp, pushAll_up]) (fun s hs i => by
    have := hf.auto i p a E last (ps : Int) s e hs hlt hE hb he (by omega)
    have e1 : ((e : Nat) : Int) + ((p : Nat) : Int) = ((p + e : Nat) : Int) := by simp [Int.add_comm]
    have e2 : ((p : Nat) : Int) + 1 = ((p + 1 : Nat) : Int) := by simp
    have e3 : ((p + e : Nat) : Int) - 1 = ((p + e - 1 : Nat) : Int) := by omega
    rw [e1, e2, e3, addText_flush] at this
    rw [this]
    rfl)

end CM.Proofs.InlSer
