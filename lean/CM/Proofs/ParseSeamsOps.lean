import CM.Proofs.ParseSeamsDef
/-
C17 (b) for parser output, part 3 (block phase): the creation sites of inline nodes other than RawHTML runs, closing
blocks, and the operations of the line parser under the two invariants

    `GJ S p` (before / during a line: `PBI (RawEol S) p.root`)   and   `GT S p` (after the raw node of the line: `Tail S p.root`).

The generic part is that of `ParseWholeOps.lean` (`PW.Sites` asks `Q S (mkInline k a b)` for EVERY span, which is false of
`RawEol` for `k = RawHTML`: `Sites'` excludes that kind; the three sites that make RawHTML nodes are treated in
`ParseSeamsLine.lean` with the cursor facts of `BT.Inv`).
-/
namespace CM.Proofs.PS
open CM CM.Model CM.Gen CM.Spec
open CM.Proofs.BT CM.Proofs.BG CM.Proofs.PW

/-- `PW.Sites` without the RawHTML leaves. -/
structure Sites' (x : PExt) (Q : Bytes → Tree → Prop) : Prop where
  leaf : ∀ S k (a b : Int), k ≠ IK.softBreak → k ≠ IK.charRef → k ≠ IK.rawHTML → Q S (mkInline k a b)
  indent : ∀ S (a b n : Int), Q S (.node { isBlock := false, kind := IK.indent, start := a, stop := b, indent := n } [])
  soft : ∀ S (a : Int), Q S (mkInline IK.softBreak a a)
  info : ∀ S (start stop : Nat),
    Q S (mkInline IK.infoString start stop (LP.infoStringLoop x.ext S stop (stop - start + 1) start start []))
  label : ∀ S (is : List Tree) (a b : Int) (ref : Bytes) (stop fuel st ps : Nat), (∀ t ∈ is, Q S t) →
    Q S (mkInlineRef IK.linkLabel a b ref (collectTextNodes x.ext S stop IK.text false fuel (newReader is st) ps []))
  dest : ∀ S (is : List Tree) (k : Nat) (a b : Int) (stop fuel st ps : Nat), k = IK.linkDest ∨ k = IK.linkTitle →
    (∀ t ∈ is, Q S t) →
    Q S (mkInline k a b (collectTextNodes x.ext S stop IK.text true fuel (newReader is st) ps []))

section Generic
variable {x : PExt} {Q : Bytes → Tree → Prop} {S : Bytes}

/-! ### refDefLoop, onCloseParagraph -/

theorem I_refdef2' (hS : Sites' x Q) (is : List Tree) (his : ∀ t ∈ is, Q S t) (s e a b : Int) (ref : Bytes)
    (stop fuel st ps : Nat) (a' b' : Int) (stop' fuel' st' ps' : Nat) :
    AllI (Q S) [mkPB BK.linkRefDef s e
      [mkInlineRef IK.linkLabel a b ref (collectTextNodes x.ext S stop IK.text false fuel (newReader is st) ps []),
       mkInline IK.linkDest a' b' (collectTextNodes x.ext S stop' IK.text true fuel' (newReader is st') ps' [])]] := by
  apply leaf_I
  intro t ht
  simp only [List.mem_cons, List.not_mem_nil, or_false] at ht
  rcases ht with rfl | rfl
  · exact hS.label S is _ _ _ _ _ _ _ his
  · exact hS.dest S is _ _ _ _ _ _ _ (Or.inl rfl) his

theorem I_refdef3' (hS : Sites' x Q) (is : List Tree) (his : ∀ t ∈ is, Q S t) (s e a b : Int) (ref : Bytes)
    (stop fuel st ps : Nat) (a' b' : Int) (stop' fuel' st' ps' : Nat) (a'' b'' : Int) (stop'' fuel'' st'' ps'' : Nat) :
    AllI (Q S) [mkPB BK.linkRefDef s e
      [mkInlineRef IK.linkLabel a b ref (collectTextNodes x.ext S stop IK.text false fuel (newReader is st) ps []),
       mkInline IK.linkDest a' b' (collectTextNodes x.ext S stop' IK.text true fuel' (newReader is st') ps' []),
       mkInline IK.linkTitle a'' b'' (collectTextNodes x.ext S stop'' IK.text true fuel'' (newReader is st'') ps'' [])]] := by
  apply leaf_I
  intro t ht
  simp only [List.mem_cons, List.not_mem_nil, or_false] at ht
  rcases ht with rfl | rfl | rfl
  · exact hS.label S is _ _ _ _ _ _ _ his
  · exact hS.dest S is _ _ _ _ _ _ _ (Or.inl rfl) his
  · exact hS.dest S is _ _ _ _ _ _ _ (Or.inr rfl) his

theorem I_drop' {is : List Tree} (h : ∀ t ∈ is, Q S t) (fc : Nat) : ∀ t ∈ is.drop fc, Q S t :=
  fun t ht => h t (List.mem_of_mem_drop ht)

/-- `refDefLoop`: the definitions it builds are made of the three sites; everything else is taken over from the
    paragraph. -/
theorem refDefLoop_R (hS : Sites' x Q) (orphan : Option PB)
    (fuel : Nat) (r : Rd) (l : PLabel) (is : List Tree) (result : List PB) :
    (∀ o, orphan = some o → AllI (Q S) [o]) → (∀ t ∈ is, Q S t) → AllI (Q S) result →
    AllI (Q S) (refDefLoop x S orphan fuel r l is result) := by
  cases orphan <;> fun_induction refDefLoop x S _ fuel r l is result
  all_goals intro ho his hres
  all_goals first
    | exact hres.append (leaf_I his)
    | exact hres.append (I_refdef2' hS _ his _ _ _ _ _ _ _ _ _ _ _ _ _ _ _)
    | exact hres.append (I_refdef3' hS _ his _ _ _ _ _ _ _ _ _ _ _ _ _ _ _ _ _ _ _ _ _)
    | exact (hres.append (I_refdef2' hS _ his _ _ _ _ _ _ _ _ _ _ _ _ _ _ _)).append (ho _ rfl)
    | exact (hres.append (I_refdef3' hS _ his _ _ _ _ _ _ _ _ _ _ _ _ _ _ _ _ _ _ _ _ _)).append (ho _ rfl)
    | exact (hres.append (I_refdef2' hS _ his _ _ _ _ _ _ _ _ _ _ _ _ _ _ _)).append (leaf_I (I_drop' his _))
    | (rename_i ih; exact ih ho (I_drop' his _) (hres.append (I_refdef2' hS _ his _ _ _ _ _ _ _ _ _ _ _ _ _ _ _)))
    | (rename_i ih; exact ih ho (I_drop' his _)
        (hres.append (I_refdef3' hS _ his _ _ _ _ _ _ _ _ _ _ _ _ _ _ _ _ _ _ _ _ _)))

theorem onCloseParagraph_R (hS : Sites' x Q) (b : PB) (h : PBI (Q S) b) : AllI (Q S) (onCloseParagraph x S b) := by
  obtain ⟨l, bs, is⟩ := b
  cases is with
  | nil =>
    unfold onCloseParagraph
    exact AllI.single h
  | cons first rest =>
    unfold onCloseParagraph
    simp only []
    apply refDefLoop_R hS _ _ _ _ _ _ _ ((PBI_mk _ _ _).1 h).1 AllI.nil
    intro o ho
    split at ho
    · simp only [Option.some.injEq] at ho
      subst ho
      apply leaf_I
      intro t ht
      simp only [List.mem_singleton] at ht
      subst ht
      exact hS.leaf S _ _ _ (by decide) (by decide) (by decide)
    · cases ho

/-! ### the invariant of the line parser -/

/-- The line parser's source is `S`, and every inline child in its tree satisfies `Q S`. -/
def J (Q : Bytes → Tree → Prop) (S : Bytes) (p : LP) : Prop := p.source = S ∧ PBI (Q S) p.root

end Generic

/-! ### `RawEol` at the creation sites -/

theorem rawEol_node {S : Bytes} {l : Label} {cs : List Tree} (hk : l.kind ≠ IK.rawHTML) (h : ∀ c ∈ cs, RawEol S c) :
    RawEol S (.node l cs) := by
  intro u hu hr
  rw [T.nodes, List.mem_cons] at hu
  rcases hu with rfl | hu
  · simp only [T.isI, Bool.and_eq_true, beq_iff_eq] at hr
    exact absurd hr.2 hk
  · obtain ⟨c, hc, huc⟩ := InlH.mem_nodesL hu
    exact h c hc u huc hr

theorem rawEol_leaf {S : Bytes} (k : Nat) (a b : Int) (hk : k ≠ IK.rawHTML) : RawEol S (mkInline k a b) :=
  rawEol_node hk (fun _ h => by cases h)

theorem collect_rawEol (ext : Ext) (S : Bytes) (stop : Nat) (escapes : Bool) (is : List Tree)
    (his : ∀ t ∈ is, RawEol S t) (fuel st ps : Nat) :
    ∀ c ∈ collectTextNodes ext S stop IK.text escapes fuel (newReader is st) ps [], RawEol S c := by
  refine InlH.collectTextNodesP ext S stop IK.text escapes (RawEol S)
    (fun a b => rawEol_leaf _ a b (by decide)) (fun p k e _ => rawEol_leaf _ _ _ (by decide)) fuel _ _ _ ?_ InlH.AccP.nil
  intro t ht _
  exact his t ht

theorem sites_rawEol (x : PExt) : Sites' x RawEol where
  leaf S k a b _ _ h3 := rawEol_leaf k a b h3
  indent S a b n := rawEol_node (by dsimp only; decide) (fun _ h => by cases h)
  soft S a := rawEol_leaf _ a a (by decide)
  info S start stop := by
    refine rawEol_node (by dsimp only; decide) ?_
    exact PW.infoStringLoop_all x.ext S stop (RawEol S) start (fun a b => rawEol_leaf _ a b (by decide))
      (fun p e _ _ _ => rawEol_leaf _ _ _ (by decide)) _ _ _ [] (Nat.le_refl _) InlH.AccP.nil
  label S is a b ref stop fuel st ps his :=
    rawEol_node (by dsimp only [mkInlineRef]; decide) (collect_rawEol x.ext S stop false is his fuel st ps)
  dest S is k a b stop fuel st ps hk his := by
    refine rawEol_node ?_ (collect_rawEol x.ext S stop true is his fuel st ps)
    rcases hk with rfl | rfl <;> (dsimp only; decide)

/-! ### closing blocks -/

theorem onCloseParagraph_rawEol (x : PExt) (S : Bytes) (b : PB) (h : PBI (RawEol S) b) :
    AllI (RawEol S) (onCloseParagraph x S b) := onCloseParagraph_R (sites_rawEol x) b h

theorem closeBlock_rawEol (x : PExt) (S : Bytes) (e : Int) : ∀ b : PB, PBI (RawEol S) b → AllI (RawEol S) (closeBlock x S e b) :=
  closeBlock_I x S (onCloseParagraph_rawEol x S) e

/-- `onCloseParagraph` does not look at the block children. -/
theorem onCloseParagraph_bs (x : PExt) (src : Bytes) (l : PLabel) (bs : List PB) (is : List Tree) (h : is ≠ []) :
    onCloseParagraph x src (.mk l bs is) = onCloseParagraph x src (.mk l [] is) := by
  cases is with
  | nil => exact absurd rfl h
  | cons a rest => rfl

theorem TailIs.kind {S : Bytes} {l l' : PLabel} {is : List Tree} (h : TailIs S l is) (hk : l'.kind = l.kind) : TailIs S l' is := by
  rcases h with h | ⟨h1, h2⟩
  · exact Or.inl h
  · exact Or.inr ⟨by rw [hk]; exact h1, h2⟩

theorem TailIs.all {S : Bytes} {l : PLabel} {is : List Tree} (h : TailIs S l is) (hk : l.kind ≠ BK.htmlBlock) :
    ∀ t ∈ is, RawEol S t := by
  rcases h with h | ⟨h1, _⟩
  · exact h
  · exact absurd h1 hk

theorem closeLast_Tail (x : PExt) (S : Bytes) (e : Int) {bs : List PB} (h : TailL S bs)
    (ih : ∀ c ∈ bs, Tail S c → TailL S (closeBlock x S e c)) : TailL S (closeLast x S e bs) := by
  cases hgl : bs.getLast? with
  | none => rw [closeLast_none x S e bs hgl]; exact h
  | some c =>
    rw [closeLast_some x S e bs c hgl]
    exact TailL_replaceLast h (ih c (List.mem_of_getLast? hgl) (TailL_last h hgl))

/-- Closing a block keeps `Tail` (the result is a list: a paragraph may be split into definitions and a rest). -/
theorem closeBlock_Tail (x : PExt) (S : Bytes) (e : Int) : ∀ b : PB, Tail S b → TailL S (closeBlock x S e b) := by
  apply PB.ind
  intro l bs is ih h
  rw [closeBlock]
  split
  · exact TailL_single h
  simp only []
  rw [Tail_mk] at h
  split
  · split
    · apply TailL_single
      rw [Tail_mk]
      exact ⟨h.1.kind rfl, TailL_map_setLabel (fun il => { il with loose := true }) (fun _ => rfl) (closeLast_Tail x S e h.2 ih)⟩
    · apply TailL_single
      rw [Tail_mk]
      exact ⟨h.1.kind rfl, closeLast_Tail x S e h.2 ih⟩
  split
  · rename_i hk hp
    have hnk : l.kind ≠ BK.htmlBlock := by
      intro e0
      simp only [e0, BK.htmlBlock, BK.paragraph, BK.setextHeading] at hp
      revert hp; decide
    have hall := h.1.all hnk
    by_cases hne : is = []
    · subst hne
      rw [onCloseParagraph]
      apply TailL_single
      rw [Tail_mk]
      exact ⟨Or.inl hall, h.2⟩
    · rw [onCloseParagraph_bs x S _ bs is hne]
      apply TailL_of_AllI
      apply onCloseParagraph_rawEol
      rw [PBI_mk]
      exact ⟨hall, fun _ hb => by cases hb⟩
  split
  · rename_i hk hp hc
    have hnk : l.kind ≠ BK.htmlBlock := by
      intro e0
      simp only [e0, BK.htmlBlock, BK.indentedCode] at hc
      revert hc; decide
    obtain ⟨is', heq, hsub⟩ := indentedOnClose_eq S { l with stop := e } bs is
    rw [heq]
    apply TailL_single
    rw [Tail_mk]
    exact ⟨Or.inl (fun t ht => h.1.all hnk t (hsub t ht)), h.2⟩
  · apply TailL_single
    rw [Tail_mk]
    exact ⟨h.1.kind rfl, closeLast_Tail x S e h.2 ih⟩

theorem closeBlock_head_Tail (x : PExt) (S : Bytes) (e : Int) (root : PB) (h : Tail S root) :
    Tail S ((closeBlock x S e root).headD root) := by
  have hc := closeBlock_Tail x S e root h
  cases hcb : closeBlock x S e root with
  | nil => exact h
  | cons a rest =>
    rw [hcb] at hc
    exact TailL_head hc

theorem spineReplaceLast_Tail (x : PExt) (S : Bytes) (e : Int) (root : PB) (d : Nat) (h : Tail S root) :
    Tail S (spineReplaceLast (closeBlock x S e) root d) := by
  rw [BT.spineReplaceLast_eq]
  refine Tail_spineModify _ d root h (fun c _ hc => ?_)
  obtain ⟨l, bs, is⟩ := c
  simp only [replaceLastFn]
  cases hgl : bs.getLast? with
  | none => exact hc
  | some c0 =>
    simp only []
    rw [Tail_mk] at hc ⊢
    exact ⟨hc.1, TailL_replaceLast hc.2 (closeBlock_Tail x S e c0 (TailL_last hc.2 hgl))⟩

/-! ### the invariants of the line parser -/

/-- Before / during a line: every RawHTML node ends with a line ending. The line ends where the source ends. -/
structure GJ (S : Bytes) (p : LP) : Prop where
  source : p.source = S
  lend : p.lineStart + p.line.length = S.length
  good : PBI (RawEol S) p.root

/-- After the raw node of the line. -/
structure GT (S : Bytes) (p : LP) : Prop where
  source : p.source = S
  lend : p.lineStart + p.line.length = S.length
  good : Tail S p.root

variable {x : PExt} {S : Bytes}

theorem GJ.toGT {p : LP} (h : GJ S p) : GT S p := ⟨h.source, h.lend, Tail_of_PBI _ h.good⟩

theorem GJ.of_fr {p q : LP} (h : GJ S p) (e : RDS.fr q = RDS.fr p) : GJ S q := by
  simp only [RDS.fr, Prod.mk.injEq] at e
  obtain ⟨e1, e2, e3, e4, _⟩ := e
  exact ⟨by rw [e1]; exact h.source, by rw [e2, e3]; exact h.lend, by rw [e4]; exact h.good⟩

theorem GT.of_fr {p q : LP} (h : GT S p) (e : RDS.fr q = RDS.fr p) : GT S q := by
  simp only [RDS.fr, Prod.mk.injEq] at e
  obtain ⟨e1, e2, e3, e4, _⟩ := e
  exact ⟨by rw [e1]; exact h.source, by rw [e2, e3]; exact h.lend, by rw [e4]; exact h.good⟩

theorem GJ.setRoot {p : LP} (h : GJ S p) {r : PB} (hr : PBI (RawEol S) r) (d : Nat) :
    GJ S { p with root := r, depth := d } := ⟨h.source, h.lend, hr⟩

theorem GT.setRoot {p : LP} (h : GT S p) {r : PB} (hr : Tail S r) (d : Nat) :
    GT S { p with root := r, depth := d } := ⟨h.source, h.lend, hr⟩

theorem GJ.setDepth {p : LP} (h : GJ S p) (d : Nat) : GJ S { p with depth := d } := ⟨h.source, h.lend, h.good⟩
theorem GT.setDepth {p : LP} (h : GT S p) (d : Nat) : GT S { p with depth := d } := ⟨h.source, h.lend, h.good⟩
theorem GJ.setState {p : LP} (h : GJ S p) (s : Nat) : GJ S { p with state := s } := ⟨h.source, h.lend, h.good⟩
theorem GT.setState {p : LP} (h : GT S p) (s : Nat) : GT S { p with state := s } := ⟨h.source, h.lend, h.good⟩

/-! ### cursor operations -/

theorem setPanic_GJ (p : LP) (m : String) (h : GJ S p) : GJ S (p.setPanic m) := h.of_fr (RDS.fr_setPanic p m)
theorem markMatched_GJ (p : LP) (h : GJ S p) : GJ S p.markMatched := h.of_fr (RDS.fr_markMatched p)
theorem advance_GJ (p : LP) (n : Nat) (h : GJ S p) : GJ S (p.advance n) := h.of_fr (RDS.fr_advance p n)
theorem consumeIndentN_GJ (p : LP) (n : Nat) (h : GJ S p) : GJ S (p.consumeIndentN n) := h.of_fr (RDS.fr_consumeIndentN p n)
theorem consumeLine_GJ (p : LP) (h : GJ S p) : GJ S p.consumeLine := h.of_fr (RDS.fr_consumeLine p)
theorem setPanic_GT (p : LP) (m : String) (h : GT S p) : GT S (p.setPanic m) := h.of_fr (RDS.fr_setPanic p m)
theorem markMatched_GT (p : LP) (h : GT S p) : GT S p.markMatched := h.of_fr (RDS.fr_markMatched p)
theorem consumeLine_GT (p : LP) (h : GT S p) : GT S p.consumeLine := h.of_fr (RDS.fr_consumeLine p)

/-! ### tree operations, strong invariant -/

theorem closeContainer_GJ (p : LP) (e : Int) (h : GJ S p) : GJ S (p.closeContainer x e) := by
  unfold LP.closeContainer
  split
  · refine ⟨h.source, h.lend, ?_⟩
    show PBI (RawEol S) ((closeBlock x p.source e p.root).headD p.root)
    rw [h.source]
    have r := closeBlock_rawEol x S e p.root h.good
    cases hc : closeBlock x S e p.root with
    | nil => exact h.good
    | cons a rest => exact r a (by rw [hc]; exact List.mem_cons_self ..)
  · refine ⟨h.source, h.lend, ?_⟩
    show PBI (RawEol S) (spineReplaceLast (closeBlock x p.source e) p.root (p.depth - 1))
    rw [h.source]
    exact spineReplaceLast_I x S (onCloseParagraph_rawEol x S) e p.root _ h.good

theorem closeLastChild_GJ (p : LP) (e : Int) (h : GJ S p) : GJ S (p.closeLastChild x e) := by
  refine ⟨h.source, h.lend, ?_⟩
  show PBI (RawEol S) (spineReplaceLast (closeBlock x p.source e) p.root p.depth)
  rw [h.source]
  exact spineReplaceLast_I x S (onCloseParagraph_rawEol x S) e p.root _ h.good

theorem endBlock_GJ (p : LP) (h : GJ S p) : GJ S (p.endBlock x) := by
  unfold LP.endBlock
  split
  · exact setPanic_GJ _ _ h
  · exact closeContainer_GJ _ _ (markMatched_GJ _ h)

theorem openBlockLoop_GJ (kind : Nat) : ∀ (fuel : Nat) (p : LP), GJ S p → GJ S (LP.openBlockLoop x kind fuel p) := by
  intro fuel
  induction fuel with
  | zero => intro p h; exact h
  | succ fuel ih =>
    intro p h
    unfold LP.openBlockLoop
    split
    · exact h
    · split
      · exact setPanic_GJ _ _ h
      · exact ih _ (closeContainer_GJ p _ h)

theorem modifyContainer_GJ (p : LP) (f : PB → PB) (hf : ∀ c, PBI (RawEol S) c → PBI (RawEol S) (f c)) (h : GJ S p) :
    GJ S (p.modifyContainer f) :=
  ⟨h.source, h.lend, PBI_spineModify f hf p.depth p.root h.good⟩

theorem appendInline_GJ (p : LP) (t : Tree) (ht : RawEol S t) (h : GJ S p) : GJ S (p.appendInline t) := by
  rw [BG.appendInline_eq]
  exact modifyContainer_GJ p _ (fun c hc => PBI_appendInl ht hc) h

theorem setContainerIndent_GJ (p : LP) (n : Int) (h : GJ S p) : GJ S (p.setContainerIndent n) := by
  unfold LP.setContainerIndent
  split
  · exact setPanic_GJ _ _ h
  · split
    · exact setPanic_GJ _ _ h
    · exact modifyContainer_GJ p _ (fun c hc => PBI_setLabel _ hc) h

theorem openBlock_GJ (p : LP) (kind : Nat) (attrs : PLabel → PLabel) (h : GJ S p) : GJ S (p.openBlock x kind attrs) := by
  unfold LP.openBlock
  split
  · exact setPanic_GJ _ _ h
  · simp only []
    have h3 := closeLastChild_GJ (x := x) _ (LP.openBlockLoop x kind (p.markMatched.depth + 1) p.markMatched).lineStart
      (openBlockLoop_GJ (x := x) kind (p.markMatched.depth + 1) _ (markMatched_GJ p h))
    refine ⟨h3.source, h3.lend, PBI_spineModify _ ?_ _ _ h3.good⟩
    intro c hc
    obtain ⟨l, bs, is⟩ := c
    simp only []
    rw [PBI_mk] at hc ⊢
    refine ⟨hc.1, ?_⟩
    intro b hb
    rcases List.mem_append.1 hb with hb | hb
    · exact hc.2 b hb
    · simp only [List.mem_singleton] at hb
      subst hb
      rw [PBI_mk]
      exact ⟨fun _ ht => (by cases ht), fun _ hb => (by cases hb)⟩

/-- `collectInline` of a kind other than RawHTML. -/
theorem collectInline_GJ (p : LP) (kind n : Nat) (hk : kind ≠ IK.softBreak ∧ kind ≠ IK.charRef ∧ kind ≠ IK.rawHTML)
    (h : GJ S p) : GJ S (p.collectInline x kind n) := by
  have hS := sites_rawEol x
  unfold LP.collectInline
  split
  · exact setPanic_GJ _ _ h
  · simp only []
    have h1 := markMatched_GJ p h
    generalize p.markMatched = p1 at h1
    generalize hp2 : (if p1.indent > 0 then _ else p1) = p2
    have h2 : GJ S p2 := by
      rw [← hp2]
      split
      · exact appendInline_GJ _ _ (hS.indent S _ _ _) (advance_GJ _ _ h1)
      · exact h1
    clear hp2
    have ha := advance_GJ p2 n h2
    generalize p2.advance n = p3 at ha ⊢
    split
    · refine appendInline_GJ _ _ ?_ ha
      rw [ha.source]
      have := hS.info S (p2.lineStart + p2.i) (p3.lineStart + p3.i)
      simp only [Int.natCast_add] at this ⊢
      exact this
    · refine appendInline_GJ _ _ ?_ ha
      have := hS.leaf S kind ((p2.lineStart + p2.i : Nat) : Int) ((p3.lineStart + p3.i : Nat) : Int) hk.1 hk.2.1 hk.2.2
      simp only [Int.natCast_add] at this ⊢
      exact this

/-! ### tree operations after the raw node of the line -/

theorem closeContainer_GT (p : LP) (e : Int) (h : GT S p) : GT S (p.closeContainer x e) := by
  unfold LP.closeContainer
  split
  · refine ⟨h.source, h.lend, ?_⟩
    show Tail S ((closeBlock x p.source e p.root).headD p.root)
    rw [h.source]
    exact closeBlock_head_Tail x S e p.root h.good
  · refine ⟨h.source, h.lend, ?_⟩
    show Tail S (spineReplaceLast (closeBlock x p.source e) p.root (p.depth - 1))
    rw [h.source]
    exact spineReplaceLast_Tail x S e p.root _ h.good

theorem closeLastChild_GT (p : LP) (e : Int) (h : GT S p) : GT S (p.closeLastChild x e) := by
  refine ⟨h.source, h.lend, ?_⟩
  show Tail S (spineReplaceLast (closeBlock x p.source e) p.root p.depth)
  rw [h.source]
  exact spineReplaceLast_Tail x S e p.root _ h.good

theorem endBlock_GT (p : LP) (h : GT S p) : GT S (p.endBlock x) := by
  unfold LP.endBlock
  split
  · exact setPanic_GT _ _ h
  · exact closeContainer_GT _ _ (markMatched_GT _ h)

/-- Appending the raw node of the line (a leaf that ends where the source ends) to an HTML block. -/
theorem appendInline_create (p : LP) (t : Tree) (ht : LastOK S t) (hk : p.containerKind = BK.htmlBlock) (h : GJ S p) :
    GT S (p.appendInline t) := by
  rw [BG.appendInline_eq]
  refine ⟨h.source, h.lend, ?_⟩
  show Tail S (spineModify (BG.appendInl t) p.root p.depth)
  refine Tail_create ht p.depth p.root h.good ?_
  intro c hc
  have : p.containerKind = c.kind := by
    show PB.kind ((spineGet p.root p.depth).getD p.root) = c.kind
    rw [hc]; rfl
  rw [← this]; exact hk

end CM.Proofs.PS
