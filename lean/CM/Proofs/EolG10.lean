import CM.Proofs.EolG9
import CM.Proofs.EolX4
import CM.Proofs.RefDefSpansStream
/-
C14 (a), block phase with link reference definitions — part 10: the decidable per-paragraph condition `paraChk w`
(`w` = how many bytes longer the new line ending is than LF: 1 for CR LF, 0 for CR): the first byte is not `[`, or no link
label of a definition candidate of the paragraph straddles the byte limit when every line feed counts `1 + w` bytes
(`labelsAgree`); and: with the invariants C02 proves along every run (`PBSpans`, `GoodT`) and `XT`, a tree that passes the
check is `FineT`.  For `w = 0` the check always passes (`chkB_zero`).
-/
namespace CM.Proofs.EolG
open CM CM.Model CM.Gen CM.Proofs CM.Proofs.RDS CM.Proofs.BSp CM.Proofs.ERd CM.Proofs.BG CM.Proofs.BT CM.Proofs.EolX

/-! ### The check -/

def noBracketB (src : Bytes) (is : List Tree) : Bool :=
  match is with
  | [] => false
  | first :: _ => !isIndent first && decide (0 ≤ first.label.start) && decide (first.label.start < first.label.stop) &&
      decide (first.label.start < (src.length : Int)) && src.getD first.label.start.toNat 0 != 0x5B

def agreeB (w : Nat) (src : Bytes) (is : List Tree) : Bool :=
  match is with
  | [] => true
  | first :: _ => labelsAgree w src (is.length + 2) (newReader is first.label.start.toNat) is

def paraChk (w : Nat) (src : Bytes) (is : List Tree) : Bool := noBracketB src is || agreeB w src is

mutual
/-- Every open paragraph of the tree passes `paraChk`. -/
def chkB (w : Nat) (src : Bytes) : PB → Bool
  | .mk l bs is => (!(decide (l.stop < 0) && l.kind == BK.paragraph) || paraChk w src is) && chkBL w src bs
def chkBL (w : Nat) (src : Bytes) : List PB → Bool
  | [] => true
  | b :: rest => chkB w src b && chkBL w src rest
end

theorem chkBL_iff (w : Nat) (src : Bytes) (bs : List PB) : chkBL w src bs = true ↔ ∀ b ∈ bs, chkB w src b = true := by
  induction bs with
  | nil => simp [chkBL]
  | cons b rest ih => simp [chkBL, ih]

theorem chkB_mk (w : Nat) (src : Bytes) (l : PLabel) (bs : List PB) (is : List Tree) :
    chkB w src (.mk l bs is) = true ↔
      (l.stop < 0 → l.kind = BK.paragraph → paraChk w src is = true) ∧ ∀ b ∈ bs, chkB w src b = true := by
  rw [chkB, Bool.and_eq_true, chkBL_iff]
  constructor
  · rintro ⟨h1, h2⟩
    refine ⟨fun ho hk => ?_, h2⟩
    simp only [Bool.or_eq_true, Bool.not_eq_true', Bool.and_eq_false_imp, decide_eq_true_eq] at h1
    rcases h1 with h1 | h1
    · have := h1 ho
      rw [hk] at this; exact absurd this (by decide)
    · exact h1
  · rintro ⟨h1, h2⟩
    refine ⟨?_, h2⟩
    by_cases ho : l.stop < 0
    · by_cases hk : l.kind = BK.paragraph
      · rw [h1 ho hk]; simp
      · have : (l.kind == BK.paragraph) = false := by simpa using hk
        rw [this]; simp
    · have : decide (l.stop < 0) = false := by simpa using ho
      rw [this]; simp

theorem noBracket_of_B {src : Bytes} {is : List Tree} (h : noBracketB src is = true) : RDS.NoBracket src is := by
  cases is with
  | nil => cases h
  | cons first rest =>
    simp only [noBracketB, Bool.and_eq_true, Bool.not_eq_true', decide_eq_true_eq, bne_iff_ne, ne_eq] at h
    obtain ⟨⟨⟨⟨h1, h2⟩, h3⟩, h4⟩, h5⟩ := h
    exact ⟨first, rest, rfl, h1, h2, h3, h4, h5⟩

section
variable {e X : Bytes} {k : Nat}

/-! ### From the run invariants and the check to `FineT` -/

theorem fineT_of_chk (ls : Nat) : ∀ b : PB, ∀ lo hi : Int, 0 ≤ lo → PBSpans QT lo hi b →
    GoodT (X.take k) (ls : Int) b → XT (X.take k) b → chkB (e.length - 1) (X.take k) b = true → FineT e X k (ls : Int) b := by
  apply BG.PB.ind
  intro l bs is ih lo hi hlo hsp hg hx hc
  rw [GoodT_mk] at hg
  rw [chkB_mk] at hc
  rw [PBSpans_mk] at hsp
  rw [XT_mk] at hx
  obtain ⟨a1, a2, a3, a4, a5, a6⟩ := hsp
  rw [FineT_mk]
  refine ⟨⟨fun ho hk => ?_, hg.1.2⟩, ?_⟩
  · have hpg : ParaGood (X.take k) (ls : Int) is := hg.1.1 hk
    rcases hpg with hN | hnb
    · have hchk := hc.1 ho hk
      simp only [paraChk, Bool.or_eq_true] at hchk
      rcases hchk with h1 | h2
      · exact Or.inl (noBracket_of_B h1)
      · right
        have hctx : Ctx (X.take k) is := ctx_of_inls (by omega) a4 (fun t ht => (hN t ht).1)
        refine ⟨hctx, (hx.1.2 hk).tabs, ?_, fun t ht => (hN t ht).2⟩
        intro first rest hfr
        subst hfr
        exact h2
    · exact Or.inl hnb
  · intro c hcm
    obtain ⟨lo', hlo', hspc⟩ := PBSpansL_mem a5 c hcm
    exact ih c hcm lo' _ (by omega) hspc (hg.2 c hcm) (hx.2 c hcm) (hc.2 c hcm)

end

/-- For `w = 0` (re-writing LF to CR) the check always passes. -/
theorem chkB_zero (src : Bytes) : ∀ b : PB, chkB 0 src b = true := by
  apply BG.PB.ind
  intro l bs is ih
  rw [chkB_mk]
  refine ⟨fun _ _ => ?_, ih⟩
  simp only [paraChk, Bool.or_eq_true]
  right
  cases is with
  | nil => rfl
  | cons first rest => exact labelsAgree_zero _ _ _ _


end CM.Proofs.EolG
