import CM.Proofs.NestFrame
/-
C09 (nested documents): the root of the prefixed side.  `Wr T W n Q`: `Q` consists of `n` open blocks with a single
child each (their labels satisfy `W`, indexed by the number of wrappers below) around a block that satisfies `T`.
`RootR F E P Q`: the document of the prefixed side, (the list,) and the container `Qb` with `TopR F E P Qb`.
-/
namespace CM.Proofs.Nest
open CM CM.Model CM.Gen CM.Proofs.BT CM.Proofs.Quote

inductive Wr (T : PB → Prop) (W : Nat → PLabel → Prop) : Nat → PB → Prop
  | base {Qb : PB} : T Qb → Wr T W 0 Qb
  | step {n : Nat} {lq : PLabel} {isQ : List Tree} {Qc : PB} : lq.stop < 0 → W n lq → Wr T W n Qc →
      Wr T W (n + 1) (.mk lq [Qc] isQ)

namespace Wr
variable {T T' : PB → Prop} {W : Nat → PLabel → Prop}

theorem mono {n : Nat} {Q : PB} (h : Wr T W n Q) (hT : ∀ Qb, T Qb → T' Qb) : Wr T' W n Q := by
  induction h with
  | base t => exact .base (hT _ t)
  | step h1 h2 _ ih => exact .step h1 h2 ih

/-- The block inside. -/
theorem inner {n : Nat} {Q : PB} (h : Wr T W n Q) : ∃ Qb, T Qb ∧ ∀ d, spineGet Q (d + n) = spineGet Qb d := by
  induction h with
  | base t => exact ⟨_, t, fun _ => rfl⟩
  | step _ _ _ ih =>
    obtain ⟨Qb, t, hg⟩ := ih
    refine ⟨Qb, t, fun d => ?_⟩
    rw [← Nat.add_assoc, spineGet_wrap]; exact hg d

/-- Modifying inside. -/
theorem modify {n : Nat} {Q : PB} (h : Wr T W n Q) (f : PB → PB) (d : Nat)
    (hT : ∀ Qb, T Qb → (∀ d', spineGet Q (d' + n) = spineGet Qb d') → T' (spineModify f Qb d)) :
    Wr T' W n (spineModify f Q (d + n)) := by
  induction h with
  | base t => exact .base (hT _ t fun _ => rfl)
  | step h1 h2 _ ih =>
    rw [← Nat.add_assoc, spineModify_wrap]
    refine .step h1 h2 (ih fun Qb t hg => hT Qb t fun d' => ?_)
    rw [← Nat.add_assoc, spineGet_wrap]; exact hg d'

/-- The blank-line flags along the spine. -/
theorem blankFlags {n : Nat} {Q : PB} (h : Wr T W n Q) (v : Bool) (d : Nat)
    (hW : ∀ m l, W m l → W m { l with lastLineBlank := v }) (hT : ∀ Qb, T Qb → T' (setBlankFlags v Qb d)) :
    Wr T' W n (setBlankFlags v Q (d + n)) := by
  induction h with
  | base t => exact .base (hT _ t)
  | step h1 h2 _ ih =>
    rw [← Nat.add_assoc, setBlankFlags_succ]
    simp only [List.getLast?_singleton, List.dropLast_singleton, List.nil_append]
    exact .step h1 (hW _ _ h2) ih

/-- All wrappers are open: the tip is inside. -/
theorem tipDepth_eq {n : Nat} {Q : PB} (h : Wr T W n Q) (hT : ∀ Qb, T Qb → Qb.isOpen = true) :
    ∃ Qb, T Qb ∧ ∀ d, tipDepth Q d = tipDepth Qb (d + n) ∧ (1 ≤ n → Q.isOpen = true) := by
  induction h with
  | base t => exact ⟨_, t, fun d => ⟨rfl, fun h => by omega⟩⟩
  | @step n lq isQ Qc h1 _ hw ih =>
    obtain ⟨Qb, t, hg⟩ := ih
    refine ⟨Qb, t, fun d => ⟨?_, fun _ => by simp only [PB.isOpen, decide_eq_true_eq]; exact h1⟩⟩
    have ho : Qc.isOpen = true := by
      cases n with
      | zero => cases hw with | base t2 => exact hT _ t2
      | succ m => exact (hg 0).2 (by omega)
    rw [tipDepth_mk]
    simp only [List.getLast?_singleton, ho, if_true]
    rw [(hg (d + 1)).1]
    congr 1; omega

end Wr

/-- The labels of the wrappers: the document; the list. -/
def WL (F : Frame) (m : Nat) (l : PLabel) : Prop :=
  if m + 1 = F.d then l.kind = BK.document
  else l.kind = BK.list ∧ l.start = F.list.start ∧ l.n = F.list.n ∧ l.char = F.list.char ∧ l.indent = F.list.indent

theorem WL_blank (F : Frame) (v : Bool) (m : Nat) (l : PLabel) (h : WL F m l) : WL F m { l with lastLineBlank := v } := by
  unfold WL at h ⊢
  split
  · rename_i hm; rw [if_pos hm] at h; exact h
  · rename_i hm; rw [if_neg hm] at h; exact h

/-- The root of the prefixed side. -/
def RootR (F : Frame) (E : Env) (P Q : PB) : Prop := Wr (TopR F E P) (WL F) F.d Q

variable {F : Frame} {E : Env} {G : List Tree → Prop}

theorem RootR.qkind {P Q : PB} (h : RootR F E P Q) : Q.kind = BK.document := by
  unfold RootR at h
  have hd := F.d_pos
  generalize hn : F.d = n at h hd
  cases h with
  | base _ => omega
  | @step m lq isQ Qc _ h2 _ =>
    unfold WL at h2
    rw [if_pos (by omega)] at h2
    exact h2

theorem RootR.top {P Q : PB} (h : RootR F E P Q) :
    ∃ Qb, TopR F E P Qb ∧ ∀ d, spineGet Q (d + F.d) = spineGet Qb d := Wr.inner h

theorem RootR.pkind {P Q : PB} (h : RootR F E P Q) : P.kind = BK.document := by
  obtain ⟨_, ht, _⟩ := h.top
  exact ht.pkind

/-- Modifying the two roots at corresponding depths. -/
theorem RootR.modify {P Q : PB} (h : RootR F E P Q) (f f' : PB → PB) (d : Nat) (hv : (spineGet P d).isSome)
    (hf1 : 1 ≤ d → ∀ c c', spineGet P d = some c → spineGet Q (d + F.d) = some c' → BR E c c' → BR E (f c) (f' c'))
    (hf0 : d = 0 → ∀ Qb, TopR F E P Qb → TopR F E (f P) (f' Qb)) :
    RootR F E (spineModify f P d) (spineModify f' Q (d + F.d)) := by
  apply Wr.modify h f' d
  intro Qb ht hg
  cases d with
  | zero => rw [spineModify_zero, spineModify_zero]; exact hf0 rfl Qb ht
  | succ d =>
    apply ht.spineModify_succ f f' d hv
    intro c c' hc hc' r
    exact hf1 (by omega) c c' hc (by rw [hg]; exact hc') r

/-- The blocks at corresponding depths below the top. -/
theorem RootR.spineGet_succ {P Q : PB} (h : RootR F E P Q) (d : Nat) {c : PB} (hc : spineGet P (d + 1) = some c) :
    ∃ c', spineGet Q (d + 1 + F.d) = some c' ∧ BR E c c' := by
  obtain ⟨Qb, ht, hg⟩ := h.top
  obtain ⟨c', e, r⟩ := ht.spineGet_succ d hc
  exact ⟨c', by rw [hg]; exact e, r⟩

/-- The sources have grown (the next line has been read). -/
theorem RootR.mono {E E2 : Env} (hle : E.le E2) (hd : E2.done = E.done) {P Q : PB} (h : RootR F E P Q) : RootR F E2 P Q :=
  Wr.mono h fun _ ht => ht.mono hle hd

/-- Closing the last child of the blocks at depth `d` / `d + F.d`. -/
theorem RootR.closeLast {x : PExt} (HG : GOK x E G) {e e' : Int} (he : 0 ≤ e) (he' : 0 ≤ e') (hp : E.PR e e')
    {P Q : PB} (h : RootR F E P Q) (htp : TP G P) (d : Nat) (hv : (spineGet P d).isSome) :
    RootR F E (spineReplaceLast (closeBlock x E.src e) P d) (spineReplaceLast (closeBlock x E.src' e') Q (d + F.d)) := by
  rw [spineReplaceLast_eq, spineReplaceLast_eq]
  apply h.modify _ _ d hv
  · intro _ c c' hc _ r
    exact BR.replaceLast_close HG he he' hp r (TP_spineGet d P c htp hc)
  · intro _ Qb ht
    exact ht.closeLast0 HG he he' hp htp

theorem RootR.blankFlags {P Q : PB} (h : RootR F E P Q) (v v' : Bool) (d : Nat) (hv : (spineGet P d).isSome)
    (hvv : 1 ≤ d → v' = v) : RootR F E (setBlankFlags v P d) (setBlankFlags v' Q (d + F.d)) :=
  Wr.blankFlags h v' d (WL_blank F v') fun _ ht => ht.blankFlags v v' d hv hvv

theorem RootR.tipDepth_eq {P Q : PB} (h : RootR F E P Q) : tipDepth Q 0 = tipDepth P 0 + F.d := by
  obtain ⟨Qb, ht, hg⟩ := Wr.tipDepth_eq h fun Qb ht => by
    simp only [PB.isOpen, decide_eq_true_eq]; exact ht.qlab.stop
  rw [(hg 0).1, ht.tipDepth_eq]
  generalize F.d = n
  induction n with
  | zero => rfl
  | succ n ih => rw [← Nat.add_assoc, tipDepth_shift, ih]; omega

end CM.Proofs.Nest
