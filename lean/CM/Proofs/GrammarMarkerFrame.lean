import CM.Proofs.BlocksContractSource
/-
The block phase never changes the `lineStart` and `line` fields of the line parser within a line (only `reset` sets
them): the clones of `BlocksContractSource.lean` for these two fields, up to `descendLoop` and `openingLoop`.
-/
namespace CM.Proofs.GM
open CM CM.Model CM.Gen CM.Proofs

/-! ### lineStart -/

@[simp] theorem setPanic_ls (p : LP) (m : String) : (p.setPanic m).lineStart = p.lineStart := (setPanic_frame p m).1.lineStart
@[simp] theorem markMatched_ls (p : LP) : p.markMatched.lineStart = p.lineStart := (markMatched_frame p).1.lineStart
@[simp] theorem advance_ls (p : LP) (n : Nat) : (p.advance n).lineStart = p.lineStart := (advance_frame p n).1.lineStart
@[simp] theorem consumeLine_ls (p : LP) : p.consumeLine.lineStart = p.lineStart := (consumeLine_frame p).1.lineStart
@[simp] theorem consumeIndentN_ls (p : LP) (n : Nat) : (p.consumeIndentN n).lineStart = p.lineStart :=
  (consumeIndentN_frame p n).1.lineStart

@[simp] theorem closeContainer_ls (x : PExt) (p : LP) (e : Int) : (p.closeContainer x e).lineStart = p.lineStart := by
  unfold LP.closeContainer; split <;> rfl

@[simp] theorem closeLastChild_ls (x : PExt) (p : LP) (e : Int) : (p.closeLastChild x e).lineStart = p.lineStart := rfl

@[simp] theorem openBlockLoop_ls (x : PExt) (kind : Nat) : ∀ (fuel : Nat) (p : LP),
    (LP.openBlockLoop x kind fuel p).lineStart = p.lineStart := by
  intro fuel
  induction fuel with
  | zero => intro p; rfl
  | succ fuel ih =>
    intro p
    unfold LP.openBlockLoop
    split
    · rfl
    · split
      · simp
      · rw [ih]; simp

@[simp] theorem openBlock_ls (x : PExt) (p : LP) (kind : Nat) (a : PLabel → PLabel) :
    (p.openBlock x kind a).lineStart = p.lineStart := by
  unfold LP.openBlock
  split
  · simp
  · simp

@[simp] theorem modifyContainer_ls (p : LP) (f : PB → PB) : (p.modifyContainer f).lineStart = p.lineStart := rfl
@[simp] theorem appendInline_ls (p : LP) (t : Tree) : (p.appendInline t).lineStart = p.lineStart := rfl

@[simp] theorem setContainerIndent_ls (p : LP) (n : Int) : (p.setContainerIndent n).lineStart = p.lineStart := by
  unfold LP.setContainerIndent
  split
  · simp
  · split <;> simp

@[simp] theorem collectInline_ls (x : PExt) (p : LP) (kind n : Nat) : (p.collectInline x kind n).lineStart = p.lineStart := by
  unfold LP.collectInline
  split
  · simp
  · simp only
    split <;> split <;> simp

@[simp] theorem endBlock_ls (x : PExt) (p : LP) : (p.endBlock x).lineStart = p.lineStart := by
  unfold LP.endBlock
  split <;> simp

@[simp] theorem startBlockQuote_ls (x : PExt) (p : LP) : (startBlockQuote x p).lineStart = p.lineStart := by
  unfold startBlockQuote
  simp only
  repeat' split
  all_goals simp

@[simp] theorem startATX_ls (x : PExt) (p : LP) : (startATX x p).lineStart = p.lineStart := by
  unfold startATX
  simp only
  repeat' split
  all_goals simp

@[simp] theorem startFenced_ls (x : PExt) (p : LP) : (startFenced x p).lineStart = p.lineStart := by
  unfold startFenced
  simp only
  repeat' split
  all_goals simp

@[simp] theorem htmlStartLoop_ls (x : PExt) (line : Bytes) : ∀ (fuel i : Nat) (p : LP),
    (htmlStartLoop x line fuel i p).lineStart = p.lineStart := by
  intro fuel
  induction fuel with
  | zero => intro i p; rfl
  | succ fuel ih =>
    intro i p
    unfold htmlStartLoop
    split
    · rfl
    · split
      · split
        · rfl
        · simp only
          split <;> simp
      · exact ih _ _

@[simp] theorem startHTML_ls (x : PExt) (p : LP) : (startHTML x p).lineStart = p.lineStart := by
  unfold startHTML
  simp only
  repeat' split
  all_goals simp

@[simp] theorem startSetext_ls (x : PExt) (p : LP) : (startSetext x p).lineStart = p.lineStart := by
  unfold startSetext
  split
  · rfl
  · simp only
    repeat' split
    all_goals simp

@[simp] theorem startThematicBreak_ls (x : PExt) (p : LP) : (startThematicBreak x p).lineStart = p.lineStart := by
  unfold startThematicBreak
  simp only
  repeat' split
  all_goals simp

@[simp] theorem startListItem_ls (x : PExt) (p : LP) : (startListItem x p).lineStart = p.lineStart := by
  unfold startListItem
  simp only
  repeat' split
  all_goals simp

@[simp] theorem startIndentedCode_ls (x : PExt) (p : LP) : (startIndentedCode x p).lineStart = p.lineStart := by
  unfold startIndentedCode
  repeat' split
  all_goals simp

theorem blockStarts_ls (x : PExt) : ∀ f ∈ blockStartFns x, ∀ p : LP, (f p).lineStart = p.lineStart := by
  intro f hf p
  simp only [blockStartFns, List.mem_cons, List.mem_nil_iff, or_false] at hf
  rcases hf with rfl | rfl | rfl | rfl | rfl | rfl | rfl | rfl <;> simp

theorem tryStarts_ls (x : PExt) : ∀ (fs : List (LP → LP)), (∀ f ∈ fs, f ∈ blockStartFns x) → ∀ p : LP,
    (tryStarts fs p).lineStart = p.lineStart := by
  intro fs
  induction fs with
  | nil => intro _ p; rfl
  | cons f rest ih =>
    intro hfs p
    have hf := blockStarts_ls x f (hfs f (by simp)) { p with state := stateOpening }
    simp only [tryStarts]
    split
    · exact hf
    · rw [ih (fun g hg => hfs g (by simp [hg]))]; exact hf

@[simp] theorem openingLoop_ls (x : PExt) : ∀ (fuel : Nat) (p : LP), (openingLoop x fuel p).2.lineStart = p.lineStart := by
  intro fuel
  induction fuel with
  | zero => intro p; rfl
  | succ fuel ih =>
    intro p
    unfold openingLoop
    split
    · rfl
    · have ht := tryStarts_ls x (blockStartFns x) (fun f hf => hf) p
      simp only
      split
      · rw [ih]; exact ht
      · split <;> exact ht

theorem ruleMatch_ls (x : PExt) (kind : Nat) (p : LP) {ok : Bool} {p' : LP} (e : ruleMatch x kind p = some (ok, p')) :
    p'.lineStart = p.lineStart := by
  unfold ruleMatch at e
  split at e
  · cases e; rfl
  · split at e
    · split at e
      · split at e
        · cases e; rfl
        · cases e; simp
      · split at e
        · split at e
          · cases e; simp
          · cases e; rfl
        · cases e; rfl
    · split at e
      · simp only at e
        split at e
        · cases e; rfl
        · split at e
          · cases e; rfl
          · cases e
            split <;> simp
      · split at e
        · simp only at e
          split at e
          · cases e; simp
          · cases e
            split <;> simp
        · split at e
          · simp only at e
            split at e
            · split at e
              · cases e; rfl
              · cases e; simp
            · cases e; simp
          · split at e
            · split at e
              · split at e
                · cases e; rfl
                · cases e; simp
              · cases e; rfl
            · split at e
              · cases e; rfl
              · cases e

@[simp] theorem descendLoop_ls (x : PExt) : ∀ (fuel : Nat) (p : LP) (parent : Nat),
    (descendLoop x fuel p parent).2.lineStart = p.lineStart := by
  intro fuel
  induction fuel with
  | zero => intro p parent; rfl
  | succ fuel ih =>
    intro p parent
    unfold descendLoop
    cases hc : spineGet p.root (parent + 1) with
    | none => rfl
    | some c =>
      simp only
      split
      · rfl
      · cases hr : ruleMatch x c.kind { p with depth := parent + 1, state := stateDescending } with
        | none => rfl
        | some r =>
          obtain ⟨ok, p2⟩ := r
          have h2 : p2.lineStart = p.lineStart := by
            have := ruleMatch_ls x _ _ hr
            exact this
          simp only
          split
          · show (p2.closeContainer x _).lineStart = p.lineStart
            rw [closeContainer_ls]; exact h2
          · split
            · exact h2
            · rw [ih]; exact h2


/-! ### line -/

@[simp] theorem setPanic_ln (p : LP) (m : String) : (p.setPanic m).line = p.line := (setPanic_frame p m).1.line
@[simp] theorem markMatched_ln (p : LP) : p.markMatched.line = p.line := (markMatched_frame p).1.line
@[simp] theorem advance_ln (p : LP) (n : Nat) : (p.advance n).line = p.line := (advance_frame p n).1.line
@[simp] theorem consumeLine_ln (p : LP) : p.consumeLine.line = p.line := (consumeLine_frame p).1.line
@[simp] theorem consumeIndentN_ln (p : LP) (n : Nat) : (p.consumeIndentN n).line = p.line :=
  (consumeIndentN_frame p n).1.line

@[simp] theorem closeContainer_ln (x : PExt) (p : LP) (e : Int) : (p.closeContainer x e).line = p.line := by
  unfold LP.closeContainer; split <;> rfl

@[simp] theorem closeLastChild_ln (x : PExt) (p : LP) (e : Int) : (p.closeLastChild x e).line = p.line := rfl

@[simp] theorem openBlockLoop_ln (x : PExt) (kind : Nat) : ∀ (fuel : Nat) (p : LP),
    (LP.openBlockLoop x kind fuel p).line = p.line := by
  intro fuel
  induction fuel with
  | zero => intro p; rfl
  | succ fuel ih =>
    intro p
    unfold LP.openBlockLoop
    split
    · rfl
    · split
      · simp
      · rw [ih]; simp

@[simp] theorem openBlock_ln (x : PExt) (p : LP) (kind : Nat) (a : PLabel → PLabel) :
    (p.openBlock x kind a).line = p.line := by
  unfold LP.openBlock
  split
  · simp
  · simp

@[simp] theorem modifyContainer_ln (p : LP) (f : PB → PB) : (p.modifyContainer f).line = p.line := rfl
@[simp] theorem appendInline_ln (p : LP) (t : Tree) : (p.appendInline t).line = p.line := rfl

@[simp] theorem setContainerIndent_ln (p : LP) (n : Int) : (p.setContainerIndent n).line = p.line := by
  unfold LP.setContainerIndent
  split
  · simp
  · split <;> simp

@[simp] theorem collectInline_ln (x : PExt) (p : LP) (kind n : Nat) : (p.collectInline x kind n).line = p.line := by
  unfold LP.collectInline
  split
  · simp
  · simp only
    split <;> split <;> simp

@[simp] theorem endBlock_ln (x : PExt) (p : LP) : (p.endBlock x).line = p.line := by
  unfold LP.endBlock
  split <;> simp

@[simp] theorem startBlockQuote_ln (x : PExt) (p : LP) : (startBlockQuote x p).line = p.line := by
  unfold startBlockQuote
  simp only
  repeat' split
  all_goals simp

@[simp] theorem startATX_ln (x : PExt) (p : LP) : (startATX x p).line = p.line := by
  unfold startATX
  simp only
  repeat' split
  all_goals simp

@[simp] theorem startFenced_ln (x : PExt) (p : LP) : (startFenced x p).line = p.line := by
  unfold startFenced
  simp only
  repeat' split
  all_goals simp

@[simp] theorem htmlStartLoop_ln (x : PExt) (line : Bytes) : ∀ (fuel i : Nat) (p : LP),
    (htmlStartLoop x line fuel i p).line = p.line := by
  intro fuel
  induction fuel with
  | zero => intro i p; rfl
  | succ fuel ih =>
    intro i p
    unfold htmlStartLoop
    split
    · rfl
    · split
      · split
        · rfl
        · simp only
          split <;> simp
      · exact ih _ _

@[simp] theorem startHTML_ln (x : PExt) (p : LP) : (startHTML x p).line = p.line := by
  unfold startHTML
  simp only
  repeat' split
  all_goals simp

@[simp] theorem startSetext_ln (x : PExt) (p : LP) : (startSetext x p).line = p.line := by
  unfold startSetext
  split
  · rfl
  · simp only
    repeat' split
    all_goals simp

@[simp] theorem startThematicBreak_ln (x : PExt) (p : LP) : (startThematicBreak x p).line = p.line := by
  unfold startThematicBreak
  simp only
  repeat' split
  all_goals simp

@[simp] theorem startListItem_ln (x : PExt) (p : LP) : (startListItem x p).line = p.line := by
  unfold startListItem
  simp only
  repeat' split
  all_goals simp

@[simp] theorem startIndentedCode_ln (x : PExt) (p : LP) : (startIndentedCode x p).line = p.line := by
  unfold startIndentedCode
  repeat' split
  all_goals simp

theorem blockStarts_ln (x : PExt) : ∀ f ∈ blockStartFns x, ∀ p : LP, (f p).line = p.line := by
  intro f hf p
  simp only [blockStartFns, List.mem_cons, List.mem_nil_iff, or_false] at hf
  rcases hf with rfl | rfl | rfl | rfl | rfl | rfl | rfl | rfl <;> simp

theorem tryStarts_ln (x : PExt) : ∀ (fs : List (LP → LP)), (∀ f ∈ fs, f ∈ blockStartFns x) → ∀ p : LP,
    (tryStarts fs p).line = p.line := by
  intro fs
  induction fs with
  | nil => intro _ p; rfl
  | cons f rest ih =>
    intro hfs p
    have hf := blockStarts_ln x f (hfs f (by simp)) { p with state := stateOpening }
    simp only [tryStarts]
    split
    · exact hf
    · rw [ih (fun g hg => hfs g (by simp [hg]))]; exact hf

@[simp] theorem openingLoop_ln (x : PExt) : ∀ (fuel : Nat) (p : LP), (openingLoop x fuel p).2.line = p.line := by
  intro fuel
  induction fuel with
  | zero => intro p; rfl
  | succ fuel ih =>
    intro p
    unfold openingLoop
    split
    · rfl
    · have ht := tryStarts_ln x (blockStartFns x) (fun f hf => hf) p
      simp only
      split
      · rw [ih]; exact ht
      · split <;> exact ht

theorem ruleMatch_ln (x : PExt) (kind : Nat) (p : LP) {ok : Bool} {p' : LP} (e : ruleMatch x kind p = some (ok, p')) :
    p'.line = p.line := by
  unfold ruleMatch at e
  split at e
  · cases e; rfl
  · split at e
    · split at e
      · split at e
        · cases e; rfl
        · cases e; simp
      · split at e
        · split at e
          · cases e; simp
          · cases e; rfl
        · cases e; rfl
    · split at e
      · simp only at e
        split at e
        · cases e; rfl
        · split at e
          · cases e; rfl
          · cases e
            split <;> simp
      · split at e
        · simp only at e
          split at e
          · cases e; simp
          · cases e
            split <;> simp
        · split at e
          · simp only at e
            split at e
            · split at e
              · cases e; rfl
              · cases e; simp
            · cases e; simp
          · split at e
            · split at e
              · split at e
                · cases e; rfl
                · cases e; simp
              · cases e; rfl
            · split at e
              · cases e; rfl
              · cases e

@[simp] theorem descendLoop_ln (x : PExt) : ∀ (fuel : Nat) (p : LP) (parent : Nat),
    (descendLoop x fuel p parent).2.line = p.line := by
  intro fuel
  induction fuel with
  | zero => intro p parent; rfl
  | succ fuel ih =>
    intro p parent
    unfold descendLoop
    cases hc : spineGet p.root (parent + 1) with
    | none => rfl
    | some c =>
      simp only
      split
      · rfl
      · cases hr : ruleMatch x c.kind { p with depth := parent + 1, state := stateDescending } with
        | none => rfl
        | some r =>
          obtain ⟨ok, p2⟩ := r
          have h2 : p2.line = p.line := by
            have := ruleMatch_ln x _ _ hr
            exact this
          simp only
          split
          · show (p2.closeContainer x _).line = p.line
            rw [closeContainer_ln]; exact h2
          · split
            · exact h2
            · rw [ih]; exact h2


end CM.Proofs.GM
