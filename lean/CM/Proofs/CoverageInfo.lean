import CM.Proofs.CoverageTree
import CM.Proofs.BlocksSpansBasic
/-
C03, part B — the info string of a fenced code block. `parseInfoString` (`LP.infoStringLoop`) cuts `[start, stop)` into
Text and CharacterReference leaves, in order, inside the range; the only bytes it leaves out are backslashes before an
ASCII punctuation character. So the info-string node is `inlOK` and covers every needed byte of its span
(`infoNode_ok`), and `collectInline … InfoString` transports `CI` (`collectInline_info_C`).
-/
namespace CM.Proofs.Cov
open CM CM.Model CM.Gen CM.Spec CM.Spec.T CM.Proofs.BT
open CM.Proofs.BSp (ParaPred QT isContainerKind InlsOK InlsOK_nil InlsOK_cons inlLast InlsOK_snoc inlLast_append)

/-! ### character references are inside the text -/

theorem entityLoop_le (ext : Ext) (text : Bytes) : ∀ (l : Bytes) (i e : Nat), entityLoop ext text l i = Int.ofNat e →
    e ≤ i + 1 + l.length := by
  intro l
  induction l with
  | nil => intro i e h; simp [entityLoop] at h
  | cons c rest ih =>
    intro i e h
    unfold entityLoop at h
    simp only [List.length_cons]
    split at h
    · split at h
      · cases h
      · have : ((i + 2 : Nat) : Int) = (e : Int) := h
        omega
    · split at h
      · cases h
      · have := ih (i + 1) e h; omega

theorem numericRefLoop_le (isDigit : UInt8 → Bool) : ∀ (l : Bytes) (i e : Nat), numericRefLoop isDigit l i = Int.ofNat e →
    e ≤ i + l.length := by
  intro l
  induction l with
  | nil => intro i e h; simp [numericRefLoop] at h
  | cons c rest ih =>
    intro i e h
    unfold numericRefLoop at h
    simp only [List.length_cons]
    split at h
    · split at h
      · cases h
      · have : ((i + 1 : Nat) : Int) = (e : Int) := h
        omega
    · split at h
      · cases h
      · have := ih (i + 1) e h; omega

theorem parseCharacterEscape_le (ext : Ext) (text : Bytes) (e : Nat) (h : parseCharacterEscape ext text = Int.ofNat e) :
    e ≤ text.length := by
  unfold parseCharacterEscape at h
  split at h
  · cases h
  · rename_i hlen
    have hl : 3 ≤ text.length := by
      simp only [Bool.or_eq_true, decide_eq_true_eq, not_or, Nat.not_lt] at hlen
      exact hlen.1
    split at h
    · have := entityLoop_le ext text (text.drop 1) 0 e h
      simp only [List.length_drop] at this
      omega
    · split at h
      · split at h
        · rename_i n hn
          have := numericRefLoop_le Gen.isHex _ 0 n hn
          simp only [List.length_take, List.length_drop, hexDigitStart, hexDigitLimit] at this
          have : ((hexDigitStart + n : Nat) : Int) = (e : Int) := h
          simp only [hexDigitStart] at this
          omega
        · cases h
      · split at h
        · rename_i n hn
          have := numericRefLoop_le Gen.isASCIIDigit _ 0 n hn
          simp only [List.length_take, List.length_drop, decDigitStart, decDigitLimit] at this
          have : ((decDigitStart + n : Nat) : Int) = (e : Int) := h
          simp only [decDigitStart] at this
          omega
        · cases h

/-! ### the invariant of the loop -/

/-- The pieces collected so far: leaves, in order inside `[start, stop]`, ending at or before `ps`, covering every needed
    byte of `[start, ps)`. -/
structure Pieces (src : Bytes) (start stop : Nat) (acc : List Tree) (ps : Nat) : Prop where
  ord : InlsOK start stop acc
  last : inlLast start acc ≤ ps
  leaf : ∀ t ∈ acc, t.children = [] ∧ t.label.isBlock = false
  cov : ∀ j, start ≤ j → j < ps → need (src.getD j 0) = true → covTs acc j = true

theorem Pieces.nil (src : Bytes) (start stop : Nat) (h : start ≤ stop) : Pieces src start stop [] start :=
  ⟨InlsOK_nil _ _, Int.le_refl _, fun _ h => (by cases h), fun j h1 h2 _ => (by omega)⟩

/-- Appending the leaf `[a, b)`. -/
theorem Pieces.snoc {src : Bytes} {start stop : Nat} {acc : List Tree} {ps : Nat} (h : Pieces src start stop acc ps) (k : Nat)
    (a b : Nat) (h1 : ps ≤ a) (h2 : a ≤ b) (h3 : b ≤ stop)
    (hgap : ∀ j, ps ≤ j → j < a → need (src.getD j 0) = false) : Pieces src start stop (acc ++ [mkInline k a b]) b := by
  have hlab : (mkInline k (a : Int) (b : Int)).label.start = a ∧ (mkInline k (a : Int) (b : Int)).label.stop = b := ⟨rfl, rfl⟩
  refine ⟨?_, ?_, ?_, ?_⟩
  · apply InlsOK_snoc h.ord (t := mkInline k a b)
    · rw [hlab.1]; have := h.last; omega
    · rw [hlab.1, hlab.2]; omega
    · rw [hlab.2]; omega
    · exact Int.le_refl _
  · rw [inlLast_append]; show ((b : Nat) : Int) ≤ b; exact Int.le_refl _
  · intro t ht
    rw [List.mem_append] at ht
    rcases ht with ht | ht
    · exact h.leaf t ht
    · simp only [List.mem_singleton] at ht; subst ht; exact ⟨rfl, rfl⟩
  · intro j hj1 hj2 hn
    rw [covTs_append, Bool.or_eq_true]
    by_cases hjp : j < ps
    · exact Or.inl (h.cov j hj1 hjp hn)
    · by_cases hja : j < a
      · rw [hgap j (by omega) hja] at hn; cases hn
      · right
        rw [covTs_cons, covT_mkInline]
        simp only [covTs_nil, Bool.or_false, Bool.and_eq_true, decide_eq_true_eq]
        omega

/-- The optional flush of the pending plain text `[ps, i)`. -/
theorem Pieces.flush {src : Bytes} {start stop : Nat} {acc : List Tree} {ps : Nat} (h : Pieces src start stop acc ps) (i : Nat)
    (h1 : ps ≤ i) (h2 : i ≤ stop) :
    Pieces src start stop (if ps < i then acc ++ [mkInline IK.text ps i] else acc) i := by
  split
  · exact h.snoc IK.text ps i (Nat.le_refl _) h1 h2 (fun j a b => by omega)
  · have : ps = i := by omega
    subst this; exact h

theorem bs_not_need : need 0x5C = false := by decide +kernel

theorem infoStringLoop_pieces (ext : Ext) (src : Bytes) (start stop : Nat) : ∀ (fuel i ps : Nat) (acc : List Tree),
    ps ≤ i → i ≤ stop → stop - i < fuel → Pieces src start stop acc ps →
    Pieces src start stop (LP.infoStringLoop ext src stop fuel i ps acc) stop := by
  intro fuel
  induction fuel with
  | zero => intro i ps acc _ _ h; omega
  | succ fuel ih =>
    intro i ps acc h1 h2 hf hp
    unfold LP.infoStringLoop
    split
    · -- the end
      rename_i hge
      have : i = stop := by omega
      subst this
      have := hp.flush i h1 h2
      exact this
    · rename_i hlt
      have hlt' : i < stop := by omega
      simp only []
      split
      · -- a backslash
        rename_i hbs
        split
        · exact ih (i + 1) ps acc (by omega) (by omega) (by omega) hp
        · rename_i hcond
          have hi1 : i + 1 < stop := by
            simp only [Bool.or_eq_true, decide_eq_true_eq, not_or] at hcond
            omega
          have hfl := hp.flush i h1 h2
          have := hfl.snoc IK.text (i + 1) (i + 2) (by omega) (by omega) (by omega) (by
            intro j a b
            have : j = i := by omega
            subst this
            have hb : src.getD j 0 = 0x5C := by simpa using hbs
            rw [hb]; exact bs_not_need)
          have e1 : ((i + 1 : Nat) : Int) = (i : Int) + 1 := by omega
          have e2 : ((i + 2 : Nat) : Int) = (i : Int) + 2 := by omega
          rw [e1, e2] at this
          exact ih (i + 2) (i + 2) _ (Nat.le_refl _) (by omega) (by omega) this
      · split
        · -- an ampersand
          split
          · rename_i e he
            split
            · exact ih (i + 1) ps acc (by omega) (by omega) (by omega) hp
            · rename_i hne
              have hepos : 1 ≤ e := by
                have : e ≠ 0 := by simpa using hne
                omega
              have hle := parseCharacterEscape_le ext _ e he
              simp only [List.length_drop, List.length_take] at hle
              have hie : i + e ≤ stop := by omega
              have hfl := hp.flush i h1 h2
              have := hfl.snoc IK.charRef i (i + e) (Nat.le_refl _) (by omega) hie (fun j a b => by omega)
              have e2 : ((i + e : Nat) : Int) = (i : Int) + e := by omega
              rw [e2] at this
              exact ih (i + e) (i + e) _ (Nat.le_refl _) hie (by omega) this
          · exact ih (i + 1) ps acc (by omega) (by omega) (by omega) hp
        · exact ih (i + 1) ps acc (by omega) (by omega) (by omega) hp

/-! ### from ordered leaves to the span discipline -/

theorem inlsOK_sibs {lo hi : Int} : ∀ {is : List Tree}, InlsOK lo hi is →
    siblingsOrdered is = true ∧ ∀ t ∈ is, lo ≤ start t ∧ start t ≤ stop t ∧ stop t ≤ hi := by
  intro is
  induction is generalizing lo with
  | nil => intro _; exact ⟨rfl, fun _ h => by cases h⟩
  | cons t rest ih =>
    intro h
    rw [InlsOK_cons] at h
    obtain ⟨h1, h2, h3, h4⟩ := h
    have r := ih h4
    constructor
    · cases rest with
      | nil => rfl
      | cons u rest' =>
        simp only [siblingsOrdered, Bool.and_eq_true, decide_eq_true_eq]
        refine ⟨?_, r.1⟩
        have := (r.2 u List.mem_cons_self).1
        exact this
    · intro u hu
      rcases List.mem_cons.mp hu with rfl | hu
      · exact ⟨h1, h2, h3⟩
      · have := r.2 u hu
        simp only [start, stop] at this ⊢
        exact ⟨by omega, this.2.1, this.2.2⟩

/-- An inline node whose children are ordered leaves inside its span. -/
theorem inlOK_of_pieces (k : Nat) (a b : Nat) (kids : List Tree) (hab : a ≤ b) (ho : InlsOK a b kids)
    (hl : ∀ t ∈ kids, t.children = [] ∧ t.label.isBlock = false) : inlOK (mkInline k a b kids) = true := by
  have hs := inlsOK_sibs ho
  rw [inlOK_iff]
  refine ⟨by show (0 : Int) ≤ (a : Int); omega, by show (a : Int) ≤ (b : Int); omega, ?_⟩
  -- all nodes below are the children themselves
  have hnodes : ∀ ts : List Tree, (∀ t ∈ ts, t.children = []) → nodesL ts = ts := by
    intro ts
    induction ts with
    | nil => intro _; exact nodesL_nil
    | cons t rest ih =>
      intro h
      rw [nodesL_cons, ih (fun u hu => h u (List.mem_cons_of_mem _ hu))]
      obtain ⟨l, cs⟩ := t
      have : cs = [] := h _ List.mem_cons_self
      subst this
      rw [nodes_node, nodesL_nil]; rfl
  have hk : nodesL kids = kids := hnodes kids (fun t ht => (hl t ht).1)
  unfold deepOK
  rw [Bool.and_eq_true]
  constructor
  · show (nodesL kids).all _ = true
    rw [hk, List.all_eq_true]
    intro t ht
    exact decide_eq_true (hs.2 t ht).2.1
  · show (nodes (mkInline k a b kids)).all _ = true
    rw [mkInline, nodes_node, hk, List.all_cons, Bool.and_eq_true]
    constructor
    · rw [Bool.and_eq_true]
      refine ⟨?_, hs.1⟩
      simp only [childrenInside, Tree.children, List.all_eq_true, Bool.and_eq_true, decide_eq_true_eq]
      intro t ht
      have := hs.2 t ht
      exact ⟨this.1, this.2.2⟩
    · rw [List.all_eq_true]
      intro t ht
      obtain ⟨l, cs⟩ := t
      have : cs = [] := (hl _ ht).1
      subst this
      simp [childrenInside, siblingsOrdered, Tree.children]

/-- The info-string node `collectInline` builds for `[a, b)`. -/
theorem infoNode_ok (ext : Ext) (src : Bytes) (a b : Nat) (hab : a ≤ b) :
    inlOK (mkInline IK.infoString a b (LP.infoStringLoop ext src b (b - a + 1) a a [])) = true ∧
    ∀ j, a ≤ j → j < b → need (src.getD j 0) = true →
      covT (mkInline IK.infoString a b (LP.infoStringLoop ext src b (b - a + 1) a a [])) j = true := by
  have hp := infoStringLoop_pieces ext src a b (b - a + 1) a a [] (Nat.le_refl _) hab (by omega) (Pieces.nil src a b hab)
  refine ⟨inlOK_of_pieces _ a b _ hab hp.ord hp.leaf, ?_⟩
  intro j h1 h2 hn
  rw [mkInline, covT_node, Bool.or_eq_true]
  exact Or.inr (hp.cov j h1 h2 hn)

/-! ### collectInline of the info string -/

/-- `collectInline … InfoString n` when the cursor is not on a space or tab (no Indent node), in a fenced code block. -/
theorem collectInline_info_C {Q : ParaPred} (x : PExt) (p : LP) (n : Nat) (h : CI Q S L Z p) (hst : p.state ≠ 4)
    (hind : p.indent = 0) (hb : p.i + n ≤ p.line.length) (hk : p.containerKind = BK.fencedCode) :
    CI Q S L Z (p.collectInline x IK.infoString n) := by
  rw [BG.collectInline_eq x p IK.infoString n hst]
  simp only []
  rw [if_pos (by rfl)]
  have h1 : CI Q S L Z ({ p with state := mm p.state } : LP) := h.setMM
  have hind1 : ({ p with state := mm p.state } : LP).indent = 0 := by rw [← hind]; exact indent_of_cur rfl
  have hci : BG.ciIndent { p with state := mm p.state } = { p with state := mm p.state } := by
    unfold BG.ciIndent; rw [if_neg (by omega)]
  rw [hci]
  generalize hp1 : ({ p with state := mm p.state } : LP) = p1 at h1
  have hk1 : p1.containerKind = BK.fencedCode := by rw [← hp1]; exact hk
  have hb1 : p1.i + n ≤ p1.line.length := by rw [← hp1]; exact hb
  have a := advance_post p1 n h1.inv.cur hb1
  have hat := a.tree
  simp only [BT.tree, Prod.mk.injEq] at hat
  obtain ⟨hs, hr, hd, hl⟩ := hat
  rw [hl, a.i, hs]
  have hinfo := infoNode_ok x.ext p1.source (p1.lineStart + p1.i) (p1.lineStart + (p1.i + n)) (by omega)
  have r := advance_append_C (Q' := Q) (fun _ _ h => h) p1 n
    (mkInline IK.infoString ((p1.lineStart + p1.i : Nat) : Int) ((p1.lineStart + (p1.i + n) : Nat) : Int)
      (LP.infoStringLoop x.ext p1.source (p1.lineStart + (p1.i + n)) (p1.lineStart + (p1.i + n) - (p1.lineStart + p1.i) + 1)
        (p1.lineStart + p1.i) (p1.lineStart + p1.i) []))
    h1 hb1 (by rw [hk1]; rfl) (Or.inl (by rw [hk1]; decide)) (Or.inr (by rw [hk1]; decide)) hinfo.1
    (by
      intro m hm1 hm2 hn
      apply hinfo.2 _ (by omega) (by omega)
      rw [← h1.line_getD]; exact hn)
  exact r.1

end CM.Proofs.Cov
