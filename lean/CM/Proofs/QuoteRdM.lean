import CM.Proofs.QuoteRdL
/-
C09, `onCloseParagraph` with `[` (13): `rdTail` and `refDefLoop` on both sides: the blocks of the results are related.
-/
namespace CM.Proofs.Quote
open CM CM.Model CM.Gen

variable {E : Env} {is is' : List Tree}

/-- `rdTail` with a dead reader: the definition (without title) is the last block. -/
theorem rdTail_dead (x : PExt) {src : Bytes} {is : List Tree} (hc : RDS.Ctx src is) (orphan : Option PB) (fuel : Nat)
    (l : PLabel) (result : List PB) (lstart : Int) (li di : Tree) {destEOL : Int} (h0 : 0 ≤ destEOL) {cloned : Rd}
    (h : RDS.RI src is cloned) (hd : cloned.spans = []) (hn : nodeIndexForPosition is cloned.pos 0 = none) :
    rdTail x src orphan fuel l is result lstart li di destEOL cloned cloned =
      wOrph orphan (result ++ [mkPB BK.linkRefDef lstart destEOL [li, di]]) := by
  unfold rdTail
  have e1 := skipLinkSpace_dead hc h hd (rdFuel src is)
  rcases hs : skipLinkSpace src (rdFuel src is) cloned with ⟨ok, r6⟩
  rw [hs] at e1
  simp only at e1
  subst e1
  cases ok with
  | false => rfl
  | true =>
    have e2 := parseLinkTitle_dead hc h hd (rdFuel src is)
    simp only [Bool.not_true, Bool.false_eq_true, if_false]
    rcases ht : parseLinkTitle src (rdFuel src is) r6 with ⟨title, r7⟩
    rw [ht] at e2
    simp only at e2
    simp only [e2, Bool.not_false, if_true, hn]
    rw [if_neg (by omega)]

/-- **`rdTail`** on both sides. -/
theorem rdTail_sim (x : PExt) (HD : DRIntro E) {orphan orphan' : Option PB} (ho : OR (BR E) orphan orphan') {fuel : Nat}
    (IH : LoopIH x E orphan orphan' fuel) {l l' : PLabel} (h : LH E is is' l l') {result result' : List PB}
    (hres : L2 (BR E) result result') {lstart lstart' : Int} (hls : PosP is is' lstart lstart') {li li' di di' : Tree}
    (hk1 : KidR E li li') (hk2 : KidR E di di') {destEOL destEOL' : Int} {cloned cloned' : Rd}
    (hr : RR E is is' cloned cloned')
    (hde : (destEOL = -1 ∧ destEOL' = -1 ∧ cloned.spans ≠ []) ∨ PosP is is' destEOL destEOL') :
    L2 (BR E) (rdTail x E.src orphan fuel l is result lstart li di destEOL cloned cloned)
      (rdTail x E.src' orphan' fuel l' is' result' lstart' li' di' destEOL' cloned' cloned') := by
  have hc := h.pc
  have hF : rdFuel E.src is ≤ rdFuel E.src is := Nat.le_refl _
  have hF' : rdFuel E.src' is' ≤ rdFuel E.src' is' := Nat.le_refl _
  have giveUp : L2 (BR E) (result ++ [PB.mk l [] is]) (result' ++ [PB.mk l' [] is']) :=
    hres.concat (br_para h.lr h.kind h.ir)
  by_cases hd : cloned.spans = []
  · -- dead reader
    have hd' := hr.dead' hc hd
    obtain ⟨e1, e2⟩ := nodeIndex_dead hc hr hd
    have hpp : PosP is is' destEOL destEOL' := by
      rcases hde with ⟨_, _, hl⟩ | hp
      · exact absurd hd hl
      · exact hp
    obtain ⟨n1, n2⟩ := hpp.nonneg hc
    rw [rdTail_dead x hc.c orphan fuel l result lstart li di n1 hr.ri hd e1,
      rdTail_dead x hc.c' orphan' fuel l' result' lstart' li' di' n2 hr.ri' hd' e2]
    exact withOrphan_rel ho (hres.concat (br_refdef hc HD hls hpp (.cons hk1 (.cons hk2 .nil))))
  · -- live reader
    unfold rdTail
    obtain ⟨m1, m2⟩ := hr.adeq hF hF'
    obtain ⟨b, r6, r6', s1, s2, hr6, hb6⟩ := skipLinkSpace_sim hc _ _ cloned cloned' hr (safe_of_live hd) m1 m2
    rw [s1, s2]
    cases b with
    | false =>
      simp only [Bool.not_false, if_true]
      rcases hde with ⟨e1, e2, _⟩ | hp
      · -- (the Go code appends the definition with end −1 here; both sides do)
        subst e1; subst e2
        refine withOrphan_rel ho (hres.concat ?_)
        unfold mkPB
        rw [BR_mk]
        refine ⟨⟨rfl, rfl, rfl, rfl, rfl, rfl, hls.pr hc, Iff.rfl, fun h0 => (by have : (0 : Int) ≤ -1 := h0; omega)⟩, .nil, ?_⟩
        unfold InlR
        rw [if_pos rfl]
        exact HD _ _ (.cons hk1 (.cons hk2 .nil))
      · exact withOrphan_rel ho (hres.concat (br_refdef hc HD hls hp (.cons hk1 (.cons hk2 .nil))))
    | true =>
      have hl6 := hb6 rfl
      simp only [Bool.not_true, Bool.false_eq_true, if_false]
      obtain ⟨t, t', r7, r7', t1, t2, htc⟩ := parseLinkTitle_sim hc _ _ r6 r6' hr6 (safe_of_live hl6) hF hF'
      rw [t1, t2]
      rcases htc with ⟨v1, v2⟩ | ⟨htr, hr7, hs7⟩
      · simp only [v1, v2, Bool.not_false, if_true]
        rcases hde with ⟨e1, e2, _⟩ | hp
        · rw [if_pos (by omega), if_pos (by omega)]; exact giveUp
        · obtain ⟨n1, n2⟩ := hp.nonneg hc
          rw [if_neg (by omega), if_neg (by omega)]
          exact loop_continue IH ho h hr (hres.concat (br_refdef hc HD hls hp (.cons hk1 (.cons hk2 .nil))))
      · simp only [htr.valid, htr.valid', Bool.not_true, Bool.false_eq_true, if_false]
        obtain ⟨m3, m4⟩ := hr7.adeq hF hF'
        obtain ⟨te, te', r8, r8', q1, q2, hr8, hte⟩ := readEOL_sim hc _ _ r7 r7' hr7 hs7 m3 m4
        rw [q1, q2]
        simp only []
        rcases hte with ⟨e1, e2, _, _⟩ | hp8
        · subst e1; subst e2
          have hm1 : ((-1 : Int) < 0) = True := eq_true (by decide)
          simp only [hm1, if_true]
          rcases hde with ⟨e1, e2, _⟩ | hp
          · rw [if_pos (by omega), if_pos (by omega)]; exact giveUp
          · obtain ⟨n1, n2⟩ := hp.nonneg hc
            rw [if_neg (by omega), if_neg (by omega)]
            exact loop_rest ho h hr (hres.concat (br_refdef hc HD hls hp (.cons hk1 (.cons hk2 .nil))))
        · obtain ⟨n1, n2⟩ := hp8.nonneg hc
          rw [if_neg (by omega), if_neg (by omega)]
          exact loop_continue IH ho h hr8
            (hres.concat (br_refdef hc HD hls hp8 (.cons hk1 (.cons hk2 (.cons (kid_title hc x htr) .nil)))))

end CM.Proofs.Quote
