import CM.Proofs.ParseShapesRuns
import CM.Proofs.RefDefSpansStream
import CM.Proofs.ParseSeamsParaDef
/-
C13 for the whole of `Parse`, part 5 (block phase — definitions and tree lemmas): **the invariant `PQ S bd b`.**

For every block of `b`
  * of kind Paragraph or SetextHeading: every inline child that starts inside the source satisfies `NodeQ S` (an Indent
    node is one TAB; any other node is a non-blank line: not empty, line endings only at its end, a byte that is no
    white space), ends at or before `bd` (the start of the line being processed) and inside `S`; and no child but the
    first is preceded by a backtick (`ParaQ`);
  * of kind ATXHeading: at most one inline child.
The clauses are guarded by `0 ≤ start`, so that re-basing (`offsetPB (-n)`) needs no knowledge about the positions.
The tree lemmas follow `RefDefSpansTree.lean`.
-/
namespace CM.Proofs.PSh
open CM CM.Model CM.Gen CM.Spec
open CM.Proofs.BSp CM.Proofs.BT CM.Proofs.BG CM.Proofs.RDS

/-! ### nodes -/

/-- The rule for one inline child of a paragraph. -/
def NodeR (S : Bytes) (bd : Int) (t : Tree) : Prop :=
  0 ≤ t.label.start → NodeQ S t ∧ t.label.stop ≤ bd ∧ t.label.stop ≤ (S.length : Int)

/-- The inline children of a paragraph / setext heading. -/
def ParaQ (S : Bytes) (bd : Int) (is : List Tree) : Prop :=
  (∀ t ∈ is, NodeR S bd t) ∧ ∀ t ∈ is.tail, NoTickBeforeI S t.label.start

theorem getElem?_prefix {S S' : Bytes} (hp : S <+: S') {j : Nat} {c : UInt8} (h : S[j]? = some c) : S'[j]? = some c := by
  obtain ⟨t, rfl⟩ := hp
  obtain ⟨hj, _⟩ := List.getElem?_eq_some_iff.1 h
  rw [List.getElem?_append_left hj]; exact h

theorem NodeQ.stop_pos {S : Bytes} {t : Tree} (h : NodeQ S t) : t.label.start < t.label.stop := by
  cases hi : isIndent t with
  | true => have := (h.ind hi).1; omega
  | false => exact (h.run hi).1

theorem NodeQ_mono {S S' : Bytes} (hp : S <+: S') {t : Tree} (hs : t.label.stop ≤ (S.length : Int)) (h : NodeQ S t) :
    NodeQ S' t where
  ind hi := ⟨(h.ind hi).1, getElem?_prefix hp (h.ind hi).2⟩
  run hi := by
    obtain ⟨h1, h2, j, j1, j2, c, hc, hcs⟩ := h.run hi
    exact ⟨h1, EolAtEnd_mono hp hs h2, j, j1, j2, c, getElem?_prefix hp hc, hcs⟩

theorem NodeR_mono {S S' : Bytes} {bd bd' : Int} (hp : S <+: S') (hb : bd ≤ bd') {t : Tree} (h : NodeR S bd t) :
    NodeR S' bd' t := by
  intro h0
  obtain ⟨h1, h2, h3⟩ := h h0
  have hl : S.length ≤ S'.length := hp.length_le
  exact ⟨NodeQ_mono hp h3 h1, by omega, by omega⟩

theorem NoTick_mono {S S' : Bytes} {bd : Int} (hp : S <+: S') {t : Tree} (hr : NodeR S bd t)
    (h : NoTickBeforeI S t.label.start) : NoTickBeforeI S' t.label.start := by
  intro q hq hc
  obtain ⟨h1, _, h3⟩ := hr (by omega)
  have hlt := h1.stop_pos
  have hq' : q < S.length := by omega
  obtain ⟨u, rfl⟩ := hp
  rw [List.getElem?_append_left hq'] at hc
  exact h q hq hc

theorem ParaQ_mono {S S' : Bytes} {bd bd' : Int} (hp : S <+: S') (hb : bd ≤ bd') {is : List Tree} (h : ParaQ S bd is) :
    ParaQ S' bd' is :=
  ⟨fun t ht => NodeR_mono hp hb (h.1 t ht),
   fun t ht => NoTick_mono hp (h.1 t (List.mem_of_mem_tail ht)) (h.2 t ht)⟩

theorem ParaQ_nil (S : Bytes) (bd : Int) : ParaQ S bd [] :=
  ⟨fun _ h => (by cases h), fun _ h => (by cases h)⟩

theorem tail_append_singleton {α} (l : List α) (a : α) (h : l ≠ []) : (l ++ [a]).tail = l.tail ++ [a] := by
  cases l with
  | nil => exact absurd rfl h
  | cons b r => rfl

theorem ParaQ_snoc {S : Bytes} {bd : Int} {is : List Tree} {t : Tree} (h : ParaQ S bd is) (ht : NodeR S bd t)
    (hp : is ≠ [] → NoTickBeforeI S t.label.start) : ParaQ S bd (is ++ [t]) := by
  refine ⟨fun u hu => ?_, fun u hu => ?_⟩
  · rcases List.mem_append.1 hu with h' | h'
    · exact h.1 u h'
    · rw [List.mem_singleton] at h'; subst h'; exact ht
  · by_cases hn : is = []
    · subst hn; simp at hu
    · rw [tail_append_singleton is t hn] at hu
      rcases List.mem_append.1 hu with h' | h'
      · exact h.2 u h'
      · rw [List.mem_singleton] at h'; subst h'; exact hp hn

theorem ParaQ_drop {S : Bytes} {bd : Int} {is : List Tree} (h : ParaQ S bd is) (k : Nat) : ParaQ S bd (is.drop k) := by
  refine ⟨fun t ht => h.1 t (List.mem_of_mem_drop ht), fun t ht => h.2 t ?_⟩
  rw [List.tail_drop] at ht
  rw [← List.drop_one]
  have : is.drop (k + 1) = (is.drop 1).drop k := by rw [List.drop_drop]; congr 1; omega
  rw [this] at ht
  exact List.mem_of_mem_drop ht

/-! ### blocks -/

/-- The rule at one block. -/
def BlockQ (S : Bytes) (bd : Int) (b : PB) : Prop :=
  ((b.kind = BK.paragraph ∨ b.kind = BK.setextHeading) → ParaQ S bd b.inlines) ∧
  (b.kind = BK.atxHeading → b.inlines.length ≤ 1)

mutual
/-- Every block of the tree satisfies `BlockQ S bd`. -/
def PQ (S : Bytes) (bd : Int) : PB → Prop
  | .mk l bs is => BlockQ S bd (.mk l bs is) ∧ PQL S bd bs
def PQL (S : Bytes) (bd : Int) : List PB → Prop
  | [] => True
  | b :: rest => PQ S bd b ∧ PQL S bd rest
end

variable {S : Bytes} {bd : Int}

theorem PQL_iff (bs : List PB) : PQL S bd bs ↔ ∀ b ∈ bs, PQ S bd b := by
  induction bs with
  | nil => simp [PQL]
  | cons b rest ih => simp [PQL, ih]

theorem PQ_mk (l : PLabel) (bs : List PB) (is : List Tree) :
    PQ S bd (.mk l bs is) ↔ BlockQ S bd (.mk l bs is) ∧ ∀ b ∈ bs, PQ S bd b := by
  rw [PQ, PQL_iff]

theorem BlockQ_congr {b b' : PB} (hk : b'.kind = b.kind) (hi : b'.inlines = b.inlines) (h : BlockQ S bd b) :
    BlockQ S bd b' := by
  unfold BlockQ at *
  rw [hk, hi]; exact h

theorem BlockQ_of_kind {b : PB} (h1 : b.kind ≠ BK.paragraph) (h2 : b.kind ≠ BK.setextHeading)
    (h3 : b.kind ≠ BK.atxHeading) : BlockQ S bd b :=
  ⟨fun h => by rcases h with h | h; exact absurd h h1; exact absurd h h2, fun h => absurd h h3⟩

theorem BlockQ_mono {S' : Bytes} {bd' : Int} (hp : S <+: S') (hb : bd ≤ bd') {b : PB} (h : BlockQ S bd b) :
    BlockQ S' bd' b :=
  ⟨fun hk => ParaQ_mono hp hb (h.1 hk), h.2⟩

theorem PQ_mono {S' : Bytes} {bd' : Int} (hp : S <+: S') (hb : bd ≤ bd') : ∀ b : PB, PQ S bd b → PQ S' bd' b := by
  apply PB.ind
  intro l bs is ih h
  rw [PQ_mk] at h ⊢
  exact ⟨BlockQ_mono hp hb h.1, fun b hb' => ih b hb' (h.2 b hb')⟩

theorem PQ_setLabel {f : PLabel → PLabel} (hk : ∀ l, (f l).kind = l.kind) {b : PB} (h : PQ S bd b) :
    PQ S bd (b.setLabel f) := by
  obtain ⟨l, bs, is⟩ := b
  simp only [PB.setLabel]
  rw [PQ_mk] at h ⊢
  refine ⟨BlockQ_congr (b := .mk l bs is) ?_ rfl h.1, h.2⟩
  simp only [PB.kind, PB.label]; exact hk l

theorem PQ.block {b : PB} (h : PQ S bd b) : BlockQ S bd b := by
  obtain ⟨l, bs, is⟩ := b
  exact ((PQ_mk l bs is).1 h).1

theorem PQ.kids {b : PB} (h : PQ S bd b) : ∀ c ∈ b.blocks, PQ S bd c := by
  obtain ⟨l, bs, is⟩ := b
  exact ((PQ_mk l bs is).1 h).2

/-! ### spine operations -/

theorem PQ_spineGet : ∀ (d : Nat) (b c : PB), PQ S bd b → spineGet b d = some c → PQ S bd c := by
  intro d
  induction d with
  | zero => intro b c h e; rw [spineGet_zero] at e; cases e; exact h
  | succ d ih =>
    intro b c h e
    obtain ⟨l, bs, is⟩ := b
    rw [spineGet_succ] at e
    cases hgl : bs.getLast? with
    | none => rw [hgl] at e; cases e
    | some c' =>
      rw [hgl] at e
      exact ih c' c (h.kids c' (List.mem_of_getLast? hgl)) e

theorem PQ_spineModify (f : PB → PB) : ∀ (d : Nat) (b : PB), PQ S bd b →
    (∀ c, spineGet b d = some c → PQ S bd c → PQ S bd (f c)) → PQ S bd (spineModify f b d) := by
  intro d
  induction d with
  | zero => intro b h hf; rw [spineModify_zero]; exact hf b (spineGet_zero b) h
  | succ d ih =>
    intro b h hf
    obtain ⟨l, bs, is⟩ := b
    rw [spineModify_succ]
    rw [spineGet_succ] at hf
    cases hgl : bs.getLast? with
    | none => exact h
    | some c =>
      rw [hgl] at hf
      simp only [] at hf ⊢
      rw [PQ_mk] at h ⊢
      refine ⟨BlockQ_congr (b := .mk l bs is) rfl rfl h.1, ?_⟩
      intro b hb
      rcases List.mem_append.mp hb with h' | h'
      · exact h.2 b ((List.dropLast_sublist bs).subset h')
      · simp only [List.mem_singleton] at h'
        subst h'
        exact ih c (h.2 c (List.mem_of_getLast? hgl)) hf

theorem PQ_spineReplaceLast (g : PB → List PB) (root : PB) (d : Nat) (h : PQ S bd root)
    (hg : ∀ c, spineGet root (d + 1) = some c → PQ S bd c → ∀ c' ∈ g c, PQ S bd c') :
    PQ S bd (spineReplaceLast g root d) := by
  rw [BT.spineReplaceLast_eq]
  apply PQ_spineModify _ d root h
  intro b hb hbg
  obtain ⟨l, bs, is⟩ := b
  simp only [replaceLastFn]
  cases hgl : bs.getLast? with
  | none => exact hbg
  | some c =>
    simp only []
    have hc : spineGet root (d + 1) = some c := by
      rw [spineGet_succ_eq, hb]; simpa [PB.blocks] using hgl
    rw [PQ_mk] at hbg ⊢
    refine ⟨BlockQ_congr (b := .mk l bs is) rfl rfl hbg.1, ?_⟩
    intro b' hb'
    rcases List.mem_append.mp hb' with h' | h'
    · exact hbg.2 b' ((List.dropLast_sublist bs).subset h')
    · exact hg c hc (hbg.2 c (List.mem_of_getLast? hgl)) b' h'

theorem PQ_setBlankFlags (v : Bool) : ∀ (d : Nat) (b : PB), PQ S bd b → PQ S bd (setBlankFlags v b d) := by
  intro d
  induction d with
  | zero =>
    intro b h
    obtain ⟨l, bs, is⟩ := b
    simp only [setBlankFlags]
    rw [PQ_mk] at h ⊢
    exact ⟨BlockQ_congr (b := .mk l bs is) rfl rfl h.1, h.2⟩
  | succ d ih =>
    intro b h
    obtain ⟨l, bs, is⟩ := b
    simp only [setBlankFlags]
    rw [PQ_mk] at h
    cases hgl : bs.getLast? with
    | none =>
      simp only []
      rw [PQ_mk]
      exact ⟨BlockQ_congr (b := .mk l bs is) rfl rfl h.1, h.2⟩
    | some c =>
      simp only []
      rw [PQ_mk]
      refine ⟨BlockQ_congr (b := .mk l bs is) rfl rfl h.1, ?_⟩
      intro b hb
      rcases List.mem_append.mp hb with h' | h'
      · exact h.2 b ((List.dropLast_sublist bs).subset h')
      · simp only [List.mem_singleton] at h'
        subst h'
        exact ih c (h.2 c (List.mem_of_getLast? hgl))

/-! ### lists of blocks; `refDefLoop` -/

/-- A list of blocks. -/
def AllQ (S : Bytes) (bd : Int) (L : List PB) : Prop := ∀ b ∈ L, PQ S bd b

theorem AllQ.append {a b : List PB} (h1 : AllQ S bd a) (h2 : AllQ S bd b) : AllQ S bd (a ++ b) := by
  intro c hc
  rcases List.mem_append.mp hc with h | h
  · exact h1 c h
  · exact h2 c h

theorem AllQ.single {b : PB} (h : PQ S bd b) : AllQ S bd [b] := by
  intro c hc; simp only [List.mem_singleton] at hc; subst hc; exact h

theorem AllQ.nil : AllQ S bd [] := fun _ h => by cases h

theorem PQ_refdef (s e : Int) (kids : List Tree) : AllQ S bd [mkPB BK.linkRefDef s e kids] := by
  apply AllQ.single
  rw [mkPB, PQ_mk]
  exact ⟨BlockQ_of_kind (show BK.linkRefDef ≠ _ by decide) (show BK.linkRefDef ≠ _ by decide)
    (show BK.linkRefDef ≠ _ by decide), fun _ h => by cases h⟩

/-- A leaf paragraph / setext heading with good children. -/
theorem PQ_para {l : PLabel} {is : List Tree} (hk : l.kind = BK.paragraph ∨ l.kind = BK.setextHeading)
    (h : ParaQ S bd is) : AllQ S bd [PB.mk l [] is] := by
  apply AllQ.single
  rw [PQ_mk]
  refine ⟨⟨fun _ => h, fun ha => ?_⟩, fun _ hb => by cases hb⟩
  have ha' : l.kind = BK.atxHeading := ha
  rcases hk with hk | hk <;> (rw [hk] at ha'; exact absurd ha' (by decide))

theorem refDefLoop_PQ (x : PExt) (src : Bytes) (orphan : Option PB)
    (fuel : Nat) (r : Rd) (l : PLabel) (is : List Tree) (result : List PB) :
    (l.kind = BK.paragraph ∨ l.kind = BK.setextHeading) →
    (∀ o, orphan = some o → AllQ S bd [o]) → ParaQ S bd is → AllQ S bd result →
    AllQ S bd (refDefLoop x src orphan fuel r l is result) := by
  cases orphan <;> fun_induction refDefLoop x src _ fuel r l is result
  all_goals intro hk ho his hres
  all_goals first
    | exact hres.append (PQ_para (by exact hk) his)
    | exact hres.append (PQ_refdef _ _ _)
    | exact (hres.append (PQ_refdef _ _ _)).append (ho _ rfl)
    | exact (hres.append (PQ_refdef _ _ _)).append (PQ_para (by exact hk) (ParaQ_drop his _))
    | (rename_i ih; exact ih hk ho (ParaQ_drop his _) (hres.append (PQ_refdef _ _ _)))

theorem PQ_docRoot {bs : List PB} (h : AllQ S bd bs) : PQ S bd (docRoot bs) := by
  unfold docRoot
  rw [PQ_mk]
  exact ⟨BlockQ_of_kind (show BK.document ≠ _ by decide) (show BK.document ≠ _ by decide)
    (show BK.document ≠ _ by decide), h⟩

/-! ### re-basing -/

theorem NodeR_offset (n : Nat) {t : Tree} (h : NodeR S bd t) :
    NodeR (S.drop n) (bd - (n : Int)) (offsetTree (-(n : Int)) t) := by
  intro h0
  rw [PS.offsetTree_start] at h0
  obtain ⟨hq, hb, hs⟩ := h (by omega)
  have hlt := hq.stop_pos
  have hstop : (offsetTree (-(n : Int)) t).label.stop = t.label.stop - (n : Int) := by
    rw [PS.offsetTree_stop, if_pos (by omega)]; omega
  have hstart : (offsetTree (-(n : Int)) t).label.start = t.label.start - (n : Int) := by
    rw [PS.offsetTree_start]; omega
  refine ⟨⟨fun hi => ?_, fun hi => ?_⟩, by rw [hstop]; omega, by rw [hstop, List.length_drop]; omega⟩
  · rw [PS.isIndent_offsetTree] at hi
    obtain ⟨i1, i2⟩ := hq.ind hi
    refine ⟨by rw [hstop, hstart]; omega, ?_⟩
    rw [hstart, List.getElem?_drop]
    have : n + (t.label.start - (n : Int)).toNat = t.label.start.toNat := by omega
    rw [this]; exact i2
  · rw [PS.isIndent_offsetTree] at hi
    obtain ⟨r1, r2, j, j1, j2, c, hc, hcs⟩ := hq.run hi
    rw [hstop, hstart]
    refine ⟨by omega, ?_, j - n, by omega, by omega, c, ?_, hcs⟩
    · intro k hk1 hk2
      have := r2 (n + k) (by omega) (by omega)
      rw [getD_drop', getD_drop']
      rw [show n + (k + 1) = n + k + 1 by omega]
      refine ⟨fun hc' => ?_, fun hc' => ?_⟩
      · have := this.1 hc'; omega
      · rcases this.2 hc' with h' | ⟨h', h''⟩
        · left; omega
        · right; exact ⟨by omega, h''⟩
    · rw [List.getElem?_drop]
      have : n + (j - n) = j := by omega
      rw [this]; exact hc

theorem NoTick_offset (n : Nat) {t : Tree} (h : NoTickBeforeI S t.label.start) :
    NoTickBeforeI (S.drop n) (offsetTree (-(n : Int)) t).label.start := by
  intro q hq
  rw [PS.offsetTree_start] at hq
  rw [List.getElem?_drop]
  exact h (n + q) (by omega)

theorem ParaQ_offset (n : Nat) {is : List Tree} (h : ParaQ S bd is) :
    ParaQ (S.drop n) (bd - (n : Int)) (is.map (offsetTree (-(n : Int)))) := by
  refine ⟨fun t ht => ?_, fun t ht => ?_⟩
  · rw [List.mem_map] at ht
    obtain ⟨u, hu, rfl⟩ := ht
    exact NodeR_offset n (h.1 u hu)
  · rw [← List.map_tail, List.mem_map] at ht
    obtain ⟨u, hu, rfl⟩ := ht
    exact NoTick_offset n (h.2 u hu)

theorem PQ_offsetPB (n : Nat) : ∀ b : PB, PQ S bd b → PQ (S.drop n) (bd - (n : Int)) (offsetPB (-(n : Int)) b) := by
  apply PB.ind
  intro l bs is ih h
  rw [PQ_mk] at h
  rw [offsetPB, offsetPBs_eq_map, offsetTrees_eq_map, PQ_mk]
  refine ⟨⟨fun hk => ?_, fun hk => ?_⟩, fun b hb => ?_⟩
  · exact ParaQ_offset n (h.1.1 hk)
  · have := h.1.2 hk
    simp only [PB.inlines, List.length_map] at this ⊢
    exact this
  · rw [List.mem_map] at hb
    obtain ⟨c, hc, rfl⟩ := hb
    exact ih c hc (h.2 c hc)

theorem AllQ_offsetPBs (n : Nat) {bs : List PB} (h : AllQ S bd bs) :
    AllQ (S.drop n) (bd - (n : Int)) (offsetPBs (-(n : Int)) bs) := by
  intro b hb
  rw [offsetPBs_eq_map, List.mem_map] at hb
  obtain ⟨c, hc, rfl⟩ := hb
  exact PQ_offsetPB n c (h c hc)

end CM.Proofs.PSh
