import CM.Proofs.ReparseLeafLine
/-
C16, Layer B, part 9: the end-of-input line on a parser whose only top-level block is open, and the shape of
`closeBlock` on a leaf block.
-/
namespace CM.Proofs.Rp
open CM CM.Model CM.Gen CM.Proofs

theorem hasMatch_leaf {k : Nat} (h : LeafK k) : hasMatch k := by
  unfold hasMatch
  rcases h with rfl | rfl | rfl | rfl <;> simp

/-- **The end-of-input line.** The only child `k0` of the document is open and its kind has a `match` function (in
    particular: a leaf kind): the children of the document become `closeBlock x src |src| k0`. -/
theorem eof_line (x : PExt) (σ : LP) (s : Bytes) (k0 : PB) (hI : blocksI s σ) (hb : σ.root.blocks = [k0])
    (ho : k0.label.stop < 0) (hm : hasMatch k0.label.kind) :
    ((blocksLP x).line σ s s.length).root.blocks = closeBlock x s (s.length : Int) k0 := by
  show (processLine x (σ.reset s s.length)).root.blocks = _
  obtain ⟨r1, r2, r3, r4, r5, r6⟩ := reset_fields σ s s.length
  have rsrc := reset_source σ s s.length
  have hline : (σ.reset s s.length).line = [] := by rw [r4]; simp
  generalize σ.reset s s.length = p at r1 r2 r3 r4 r5 r6 rsrc hline
  obtain ⟨h1, h2, h3⟩ := hI
  unfold processLine
  obtain ⟨d, st, e1, e2⟩ := descend_empty_top x p hline
  generalize descendOpenBlocks x p = r at e1
  obtain ⟨b, p1⟩ := r
  simp only at e1
  subst e1
  simp only
  have hlast : p.root.blocks.getLast? = some k0 := by rw [r1, hb]; rfl
  have hopen : k0.isOpen = true := by unfold PB.isOpen; simpa using ho
  split
  · rename_i hterm
    exfalso
    have hs' : st = stateDescendTerminated := by simpa using hterm
    obtain ⟨_, t2⟩ := e2 hs'
    exact t2 k0 hlast hopen hm
  · unfold openNewBlocks
    simp only [hline, List.isEmpty_nil, if_true]
    unfold LP.closeContainer
    simp only [beq_self_eq_true, if_true, Bool.false_eq_true, if_false]
    rw [eof_root_blocks x _ _ p.root (by rw [r1]; exact h1.kind) (by rw [r1]; exact h1.stop)]
    obtain ⟨l, is, hr⟩ := root_single (show p.root.blocks = [k0] by rw [r1]; exact hb)
    rw [hr, replLast_single, rsrc, r3]
    rfl

/-! ### `closeBlock` on a leaf block -/

/-- Fenced code blocks and HTML blocks: the block itself with its `stop` set; the source is not looked at. -/
theorem closeBlock_plain (x : PExt) (src : Bytes) (e : Int) (l : PLabel) (is : List Tree) (ho : l.stop < 0)
    (hk : l.kind = BK.fencedCode ∨ l.kind = BK.htmlBlock) :
    closeBlock x src e (.mk l [] is) = [.mk { l with stop := e } [] is] := by
  rw [closeBlock]
  have hcl : ¬ l.stop ≥ 0 := by omega
  simp only [hcl, if_false]
  rcases hk with hk | hk <;> simp [hk, BK.fencedCode, BK.htmlBlock, BK.list, BK.paragraph, BK.setextHeading,
    BK.indentedCode, closeLast]

/-- Paragraphs and setext headings: the block itself, or a list that starts with a link reference definition. -/
theorem closeBlock_para (x : PExt) (src : Bytes) (e : Int) (l : PLabel) (is : List Tree) (ho : l.stop < 0)
    (hk : l.kind = BK.paragraph ∨ l.kind = BK.setextHeading) :
    closeBlock x src e (.mk l [] is) = [.mk { l with stop := e } [] is] ∨
    ∃ h m, closeBlock x src e (.mk l [] is) = h :: m ∧ h.kind = BK.linkRefDef := by
  rw [closeBlock]
  have hcl : ¬ l.stop ≥ 0 := by omega
  simp only [hcl, if_false]
  have h1 : ((l.kind == BK.list) = false) := by
    rcases hk with hk | hk <;> rw [hk] <;> rfl
  have h2 : ((l.kind == BK.paragraph || l.kind == BK.setextHeading) = true) := by
    rcases hk with hk | hk <;> rw [hk] <;> rfl
  simp only [h1, h2, Bool.false_eq_true, if_false, if_true]
  unfold onCloseParagraph
  cases is with
  | nil => left; rfl
  | cons first rest =>
    simp only []
    exact refDefLoop_head x src _ _ _ _ _

/-- A block of a leaf kind (or a paragraph turned setext heading) without block children, closed: if the first block
    of the result is not a link reference definition, the result is that one block, closed at `e`, of the same kind. -/
theorem closeBlock_single (x : PExt) (src : Bytes) (e : Int) (k0 h : PB) (tl : List PB) (ho : k0.label.stop < 0)
    (hk : k0.blocks = [])
    (hkind : k0.label.kind = BK.paragraph ∨ k0.label.kind = BK.setextHeading ∨ k0.label.kind = BK.fencedCode ∨
      k0.label.kind = BK.htmlBlock)
    (hc : closeBlock x src e k0 = h :: tl) (hnd : h.kind ≠ BK.linkRefDef) :
    tl = [] ∧ h = .mk { k0.label with stop := e } [] k0.inlines := by
  cases k0 with
  | mk l bs is =>
    simp only [PB.blocks] at hk
    subst hk
    simp only [PB.label, PB.inlines] at ho hkind ⊢
    rcases hkind with hk1 | hk1 | hk1 | hk1
    · rcases closeBlock_para x src e l is ho (Or.inl hk1) with h1 | ⟨h', m, h1, h2⟩
      · rw [h1] at hc; simp only [List.cons.injEq] at hc; exact ⟨hc.2.symm, hc.1.symm⟩
      · rw [h1] at hc; simp only [List.cons.injEq] at hc; rw [hc.1] at h2; exact absurd h2 hnd
    · rcases closeBlock_para x src e l is ho (Or.inr hk1) with h1 | ⟨h', m, h1, h2⟩
      · rw [h1] at hc; simp only [List.cons.injEq] at hc; exact ⟨hc.2.symm, hc.1.symm⟩
      · rw [h1] at hc; simp only [List.cons.injEq] at hc; rw [hc.1] at h2; exact absurd h2 hnd
    · rw [closeBlock_plain x src e l is ho (Or.inl hk1)] at hc
      simp only [List.cons.injEq] at hc; exact ⟨hc.2.symm, hc.1.symm⟩
    · rw [closeBlock_plain x src e l is ho (Or.inr hk1)] at hc
      simp only [List.cons.injEq] at hc; exact ⟨hc.2.symm, hc.1.symm⟩

/-! ### The flag does not show in the block-phase tree -/

theorem FlagRel.tree {a b : PB} (h : FlagRel a b) : pbToTree a = pbToTree b := by
  rcases h with rfl | rfl
  · rfl
  · cases a; rfl

theorem FlagRel.label {a b : PB} (h : FlagRel a b) : b.label.stop = a.label.stop ∧ b.label.kind = a.label.kind := by
  rcases h with rfl | rfl
  · exact ⟨rfl, rfl⟩
  · cases a; exact ⟨rfl, rfl⟩

theorem FlagRel.inlines {a b : PB} (h : FlagRel a b) : b.inlines = a.inlines := by
  rcases h with rfl | rfl
  · rfl
  · cases a; rfl

end CM.Proofs.Rp
