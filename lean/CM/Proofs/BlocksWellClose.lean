import CM.Proofs.BlocksWellRefDef
/-
`closeBlock`: the shape of the list of blocks that replaces a block when it is closed at a position `e`.
-/
namespace CM.Proofs
open CM CM.Model CM.Gen

/-- Inline children of an open paragraph: inside the first `P` bytes, in source order, each a valid span;
    the paragraph has no block children. -/
structure ParaOK (P : Nat) (b : PB) : Prop where
  spans : SpansOK P b.inlines
  sorted : SortedSpans b.inlines
  valid : ∀ t ∈ b.inlines, t.label.start ≤ t.label.stop
  nokids : b.blocks = []

theorem ParaOK.mono {P Q : Nat} {b : PB} (h : ParaOK P b) (hle : P ≤ Q) : ParaOK Q b :=
  ⟨h.spans.mono hle, h.sorted, h.valid, h.nokids⟩

/-- The orphan paragraph a setext heading leaves behind when all its text was link reference definitions. -/
structure OrphanOK (lo : Int) (e : Int) (o : PB) : Prop where
  stop : o.label.stop < 0
  kind : o.label.kind = BK.paragraph
  nokids : o.blocks = []
  inl : ∃ t, o.inlines = [t] ∧ lo ≤ t.label.start ∧ t.label.start ≤ t.label.stop ∧ t.label.stop = e

/-- The result of closing a paragraph with inline children `first :: _`. -/
def ParaShape (P : Nat) (e : Int) (isSetext : Prop) (first : Tree) (out : List PB) : Prop :=
  ∃ (Pb : Nat) (pre : List PB), Pb ≤ P ∧ PreOK first.label.start.toNat Pb pre ∧
    ((out = pre ∧ pre ≠ []) ∨ (∃ last, out = pre ++ [last] ∧ last.label.stop = e) ∨
     (∃ o, out = pre ++ [o] ∧ pre ≠ [] ∧ isSetext ∧ OrphanOK Pb e o))

@[simp] theorem mkInline_start (k : Nat) (a b : Int) (ks : List Tree) : (mkInline k a b ks).label.start = a := rfl
@[simp] theorem mkInline_stop (k : Nat) (a b : Int) (ks : List Tree) : (mkInline k a b ks).label.stop = b := rfl

theorem dropWhile_length_le {α : Type} (p : α → Bool) (l : List α) : (l.dropWhile p).length ≤ l.length := by
  induction l with
  | nil => simp
  | cons a t ih =>
    simp only [List.dropWhile_cons]
    split
    · simp only [List.length_cons]; omega
    · exact Nat.le_refl _

/-- In a sorted list of valid spans every span lies before the end of the last one. -/
theorem sorted_le_last {l : List Tree} (hs : SortedSpans l) (hv : ∀ t ∈ l, t.label.start ≤ t.label.stop)
    {last : Tree} (hl : l.getLast? = some last) : ∀ t ∈ l, t.label.start ≤ last.label.stop ∧ t.label.stop ≤ last.label.stop := by
  induction l with
  | nil => cases hl
  | cons a rest ih =>
    intro t ht
    cases rest with
    | nil =>
      simp only [List.getLast?_singleton, Option.some.injEq] at hl
      subst hl
      simp only [List.mem_singleton] at ht
      subst ht
      exact ⟨hv _ (by simp), Int.le_refl _⟩
    | cons b rest' =>
      have hl' : (b :: rest').getLast? = some last := by rw [List.getLast?_cons_cons] at hl; exact hl
      have hs' : SortedSpans (b :: rest') := (List.pairwise_cons.mp hs).2
      have ih' := ih hs' (fun t ht => hv t (by simp [ht])) hl'
      rcases List.mem_cons.mp ht with h | h
      · subst h
        have hlm : last ∈ b :: rest' := List.mem_of_getLast? hl'
        have h1 := (List.pairwise_cons.mp hs).1 last hlm
        have h2 := hv t (by simp)
        have h3 := hv last (by simp [hlm])
        exact ⟨by omega, by omega⟩
      · exact ih' t h

theorem onCloseParagraph_shape {P : Nat} (x : PExt) (src : Bytes) (l : PLabel) (bs : List PB) (first : Tree) (rest : List Tree)
    (hp : ParaOK P (.mk l bs (first :: rest))) (hPe : (P : Int) ≤ l.stop) :
    ParaShape P l.stop (l.kind = BK.setextHeading) first (onCloseParagraph x src (.mk l bs (first :: rest))) := by
  have hlastex : ∃ last, (first :: rest).getLast? = some last := by
    cases h : (first :: rest).getLast? with
    | none => exact absurd (List.getLast?_eq_none_iff.mp h) (by simp)
    | some t => exact ⟨t, rfl⟩
  obtain ⟨last, hlast⟩ := hlastex
  have hle := sorted_le_last hp.sorted hp.valid hlast
  have hlastmem : last ∈ first :: rest := List.mem_of_getLast? hlast
  have hlastP := (hp.spans last hlastmem).2
  -- the bound of the reader: the end of the last inline child
  have hPbP : last.label.stop.toNat ≤ P := by omega
  have hspans : SpansOK last.label.stop.toNat (first :: rest) := by
    intro t ht
    have := hle t ht
    unfold TB
    omega
  have hf := hle first List.mem_cons_self
  have hrd : RdOK first.label.start.toNat last.label.stop.toNat false (newReader (first :: rest) first.label.start.toNat) := by
    refine ⟨hspans, hp.sorted, ?_, Nat.le_refl _, ?_, ?_, fun h => (by cases h), Or.inl ?_⟩
    · show first.label.start.toNat ≤ last.label.stop.toNat
      omega
    · show (-1 : Int) + 1 ≤ _
      omega
    · show (-1 : Int) ≤ -1
      omega
    · show (-1 : Int) + 1 ≤ ((first.label.start.toNat : Nat) : Int)
      omega
  have hpre0 : PreOK first.label.start.toNat last.label.stop.toNat [] := ⟨fun _ h => (by cases h), List.Pairwise.nil⟩
  have key : ∀ orphan, (∀ o, orphan = some o → l.kind = BK.setextHeading ∧ OrphanOK last.label.stop.toNat l.stop o) →
      ParaShape P l.stop (l.kind = BK.setextHeading) first
        (refDefLoop x src orphan ((first :: rest).length + 2) (newReader (first :: rest) first.label.start.toNat) l
          (first :: rest) []) := by
    intro orphan ho
    obtain ⟨pre, hpre, hsh⟩ := refDefLoop_ok x src orphan _ _ l (first :: rest) [] _ false hrd (Nat.le_refl _) hpre0
      (fun _ h => (by cases h))
    refine ⟨last.label.stop.toNat, pre, hPbP, hpre, ?_⟩
    rcases hsh with h | h | ⟨o, h1, h2, h3⟩
    · exact Or.inl h
    · exact Or.inr (Or.inl h)
    · exact Or.inr (Or.inr ⟨o, h1, h2, (ho o h3).1, (ho o h3).2⟩)
  by_cases hk : l.kind = BK.setextHeading
  · have hk' : (l.kind == BK.setextHeading) = true := by simpa using hk
    simp only [onCloseParagraph, hk', if_true]
    apply key
    intro o ho
    simp only [Option.some.injEq] at ho
    subst ho
    refine ⟨hk, ?_⟩
    rw [hlast]
    simp only [Option.map_some, Option.getD_some]
    refine ⟨by simp [mkPB, PB.label], by simp [mkPB, PB.label], by simp [mkPB, PB.blocks], ?_⟩
    refine ⟨_, rfl, ?_⟩
    have hbody : ((src.take l.stop.toNat).drop last.label.stop.toNat).length ≤ l.stop.toNat - last.label.stop.toNat := by
      simp only [List.length_drop, List.length_take]; omega
    generalize (src.take l.stop.toNat).drop last.label.stop.toNat = body at hbody ⊢
    have hw : (body.reverse.dropWhile isSpaceTabOrLineEnding).length ≤ body.length := by
      have := dropWhile_length_le isSpaceTabOrLineEnding body.reverse
      simpa using this
    generalize body.reverse.dropWhile isSpaceTabOrLineEnding = noWs at hw ⊢
    cases noWs with
    | nil =>
      simp only [mkInline_start, mkInline_stop]
      refine ⟨?_, ?_, trivial⟩ <;> omega
    | cons u t =>
      have := dropWhile_length_le (· == u) (u :: t)
      simp only [mkInline_start, mkInline_stop]
      simp only [List.length_cons] at this hw
      refine ⟨?_, ?_, trivial⟩ <;> omega
  · have hk' : (l.kind == BK.setextHeading) = false := by simpa using hk
    simp only [onCloseParagraph, hk', Bool.false_eq_true, if_false]
    exact key none (fun _ h => (by cases h))

theorem indentedOnClose_label (src : Bytes) (b : PB) : (indentedOnClose src b).label = b.label := by
  cases b with
  | mk l bs is => simp [indentedOnClose, PB.label]

/-- The shape of `closeBlock x src e c`. -/
def CloseShape (P : Nat) (e : Int) (c : PB) (out : List PB) : Prop :=
  (0 ≤ c.label.stop ∧ out = [c]) ∨
  (c.label.stop < 0 ∧ ∃ b, out = [b] ∧ b.label.stop = e ∧ b.label.kind = c.label.kind) ∨
  (c.label.stop < 0 ∧ (c.label.kind = BK.paragraph ∨ c.label.kind = BK.setextHeading) ∧
    ∃ first rest, c.inlines = first :: rest ∧ ParaShape P e (c.label.kind = BK.setextHeading) first out)

theorem closeBlock_shape {P : Nat} (x : PExt) (src : Bytes) (e : Int) (hPe : (P : Int) ≤ e) (c : PB)
    (hp : c.label.stop < 0 → (c.label.kind = BK.paragraph ∨ c.label.kind = BK.setextHeading) → ParaOK P c) :
    CloseShape P e c (closeBlock x src e c) := by
  cases c with
  | mk l bs is =>
    by_cases hcl : l.stop ≥ 0
    · left
      refine ⟨hcl, ?_⟩
      rw [closeBlock]; simp [hcl]
    · have hop : l.stop < 0 := by omega
      right
      rw [closeBlock]
      simp only [hcl, if_false]
      split
      · left
        split
        · exact ⟨hop, _, rfl, rfl, rfl⟩
        · exact ⟨hop, _, rfl, rfl, rfl⟩
      · split
        · rename_i hk
          have hk' : l.kind = BK.paragraph ∨ l.kind = BK.setextHeading := by simpa using hk
          cases is with
          | nil =>
            left
            refine ⟨hop, PB.mk { l with stop := e } bs [], ?_, rfl, rfl⟩
            simp only [onCloseParagraph]
          | cons first rest =>
            right
            refine ⟨hop, hk', first, rest, rfl, ?_⟩
            have hp' := hp hop hk'
            exact onCloseParagraph_shape x src { l with stop := e } bs first rest
              ⟨hp'.spans, hp'.sorted, hp'.valid, hp'.nokids⟩ hPe
        · left
          split
          · refine ⟨hop, _, rfl, ?_, ?_⟩ <;> rw [indentedOnClose_label] <;> rfl
          · exact ⟨hop, _, rfl, rfl, rfl⟩

end CM.Proofs
