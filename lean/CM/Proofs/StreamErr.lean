import CM.Proofs.StreamDrain
/-
Errors are persistent: once `NextBlock` has reported an error, every further call reports the same error and
delivers no block. No hypothesis on the line parser, the reader or the state the first call started from.
-/
namespace CM.Proofs
open CM CM.Model CM.Gen

/-- The buffer size `readline` grows to. -/
def newSize (len : Nat) : Nat :=
  if len + Model.chunkSize * nullReplacementString.length > Model.maxBlockSize
  then len + (Model.maxBlockSize - len) / nullReplacementString.length
  else len + Model.chunkSize

/-- The three ways `readline` continues when the line end is not yet known. -/
theorem readline_none_cases {p : BP} (fuel : Nat) (h : eolEnd? p = none) :
    (∃ n, readline (fuel + 1) p = (false, { p with buf := p.buf.take p.i, err := some (.tooLarge n) })) ∨
    readline (fuel + 1) p =
      readline fuel { p with buf := padNulls (p.buf ++ (p.rd.read (readReq p.buf.length)).1) p.buf.length,
                             err := (p.rd.read (readReq p.buf.length)).2.1.map PErr.ofR,
                             rd := (p.rd.read (readReq p.buf.length)).2.2 } := by
  have key : readline (fuel + 1) p =
      if newSize p.buf.length ≤ p.buf.length then
        (false, { p with buf := p.buf.take p.i,
                         err := some (.tooLarge (p.lineno + lineCount ((p.buf.take p.i).take p.i))) })
      else
        readline fuel { p with buf := padNulls (p.buf ++ (p.rd.read (readReq p.buf.length)).1) p.buf.length,
                               err := (p.rd.read (readReq p.buf.length)).2.1.map PErr.ofR,
                               rd := (p.rd.read (readReq p.buf.length)).2.2 } := by
    simp only [readline, h]; rfl
  rw [key]
  by_cases hc : newSize p.buf.length ≤ p.buf.length
  · left; rw [if_pos hc]; exact ⟨_, rfl⟩
  · right; rw [if_neg hc]

/-- `readline` from position 0 (any parser, any reader): if it reports "no line" without a panic, the parser has
    an error set and nothing is left in its buffer. -/
theorem readline_false : ∀ (f : Nat) (p p1 : BP), p.i = 0 → readline f p = (false, p1) → p1.panic = none →
    p1.err.isSome = true ∧ p1.buf = [] ∧ p1.blocks = p.blocks ∧ p1.i = 0 := by
  intro f
  induction f with
  | zero =>
    intro p p1 _ h hp
    simp only [readline] at h
    cases h
    simp only at hp
    cases hpp : p.panic <;> simp [hpp] at hp
  | succ f ih =>
    intro p p1 hi h hp
    cases hq : eolEnd? p with
    | some e =>
      rw [readline_some f hq] at h
      rw [eolEnd?_eq] at hq
      have hb := eolEndB_bounds hq
      simp only [Prod.mk.injEq, decide_eq_false_iff_not] at h
      obtain ⟨h1, h2⟩ := h
      subst h2
      rcases hb.2 with hlt | ⟨he, hl⟩
      · exact absurd hlt h1
      · have : e = 0 := by omega
        subst this
        refine ⟨he, ?_, rfl, rfl⟩
        exact List.eq_nil_of_length_eq_zero hl.symm
    | none =>
      rcases readline_none_cases f hq with ⟨n, hr⟩ | hr
      · rw [hr] at h
        simp only [Prod.mk.injEq, true_and] at h
        subst h
        simp [hi]
      · rw [hr] at h
        have := ih _ p1 (by exact hi) h hp
        exact this

theorem readline_blocks : ∀ (f : Nat) (p : BP), (readline f p).2.blocks = p.blocks := by
  intro f
  induction f with
  | zero => intro p; rfl
  | succ f ih =>
    intro p
    cases hq : eolEnd? p with
    | some e => rw [readline_some f hq]
    | none =>
      rcases readline_none_cases f hq with ⟨n, hr⟩ | hr
      · rw [hr]
      · rw [hr, ih]

theorem skipBlank_none : ∀ (f : Nat) (p q : BP), p.i = 0 → skipBlank f p = (none, q) → q.panic = none →
    q.err.isSome = true ∧ q.buf = [] ∧ q.blocks = p.blocks := by
  intro f
  induction f with
  | zero =>
    intro p q _ h hq
    simp only [skipBlank, Prod.mk.injEq, true_and] at h
    subst h
    simp only at hq
    cases hpp : p.panic <;> simp [hpp] at hq
  | succ f ih =>
    intro p q hi h hq
    rcases hr : readline (p.rd.data.length + p.rd.sched.length + 2) p with ⟨ok, p1⟩
    have hbl : p1.blocks = p.blocks := by
      have := readline_blocks (p.rd.data.length + p.rd.sched.length + 2) p
      rw [hr] at this; exact this
    simp only [skipBlank, hr] at h
    cases ok with
    | false =>
      simp only [Bool.not_false, if_true, Prod.mk.injEq, true_and] at h
      subst h
      obtain ⟨a, b, _, _⟩ := readline_false _ p p1 hi hr hq
      exact ⟨a, b, hbl⟩
    | true =>
      simp only [Bool.not_true, Bool.false_eq_true, if_false] at h
      split at h
      · cases h
      · have := ih _ q rfl h hq
        rw [← hbl]
        exact this

theorem parseLines_not_err (L : LineParserI) : ∀ (f : Nat) (lp : L.σ) (ls : Nat) (p : BP) (e : PErr),
    (parseLines L f lp ls p).1 ≠ .err e := by
  intro f
  induction f with
  | zero => intro lp ls p e h; cases h
  | succ f ih =>
    intro lp ls p e
    cases hpan : L.panicked (L.line lp (p.buf.take p.i) ls) with
    | some m => rw [parseLines_panicked L hpan]; intro h; cases h
    | none =>
      cases hmr : makeRoot p (L.kids (L.line lp (p.buf.take p.i) ls)) with
      | some rp => rw [parseLines_root L hpan hmr]; intro h; cases h
      | none => rw [parseLines_next L hpan hmr]; exact ih _ _ _ _

/-- The state `NextBlock` is in after it reported the error `e`. -/
structure ErrState (e : PErr) (p : BP) : Prop where
  err : p.err = some e
  blocks : p.blocks = []
  buf : p.buf = []
  panic : p.panic = none

theorem errState_of_err (L : LineParserI) {p0 p : BP} {e : PErr} (h : nextBlock L p0 = (.err e, p)) :
    ErrState e p := by
  rw [nextBlock_eq_F] at h
  cases hmr : makeRoot p0 p0.blocks with
  | some rp => rw [nextBlockF_root L hmr] at h; cases h
  | none =>
    by_cases hb : p0.blocks.length > 0
    · rw [nextBlockF_pending L hmr hb] at h
      have := parseLines_not_err L (bpFuel p0) (L.new (readline (p0.rd.data.length + p0.rd.sched.length + 2) p0).2.blocks)
        p0.i (readline (p0.rd.data.length + p0.rd.sched.length + 2) p0).2 e
      rw [h] at this
      exact absurd rfl this
    · rw [nextBlockF_fresh L hmr hb] at h
      rcases hr : skipBlank (bpFuel p0) (freshLine p0) with ⟨_ | q, q2⟩
      · rw [hr] at h
        simp only [afterSkip] at h
        cases hq : q2.panic with
        | some m => rw [hq] at h; cases h
        | none =>
          rw [hq] at h
          simp only [Prod.mk.injEq, NBOut.err.injEq] at h
          obtain ⟨h1, h2⟩ := h
          subst h2
          obtain ⟨a, b, c⟩ := skipBlank_none _ _ _ rfl hr hq
          refine ⟨?_, ?_, b, hq⟩
          · cases he : q2.err with
            | none => rw [he] at a; cases a
            | some e' => rw [he] at h1; simp at h1; rw [h1]
          · rw [c]
            show p0.blocks = []
            cases hbb : p0.blocks with
            | nil => rfl
            | cons a t => rw [hbb] at hb; simp at hb
      · rw [hr] at h
        simp only [afterSkip] at h
        have := parseLines_not_err L (bpFuel p0) (L.new q.blocks) 0 q e
        rw [h] at this
        exact absurd rfl this

theorem nextBlock_errState (L : LineParserI) {p : BP} {e : PErr} (h : ErrState e p) :
    ∃ p', nextBlock L p = (.err e, p') ∧ ErrState e p' := by
  have hmr : makeRoot p p.blocks = none := by rw [h.blocks]; rfl
  have hb : ¬ p.blocks.length > 0 := by rw [h.blocks]; simp
  rw [nextBlock_eq_F, nextBlockF_fresh L hmr hb]
  have hf : bpFuel p = (bpFuel p - 1) + 1 := by unfold bpFuel; omega
  rw [hf]
  have herr : (freshLine p).err.isSome = true := by show p.err.isSome = true; rw [h.err]; rfl
  obtain ⟨e', he', hr⟩ := readline_site_mem herr
  have hbuf : (freshLine p).buf = [] := by show p.buf.drop p.i = []; rw [h.buf]; simp
  have he0 : e' = 0 := by
    have := (eolEndB_bounds he').1
    rw [hbuf] at this; simpa using this
  subst he0
  simp only [skipBlank, hr]
  have : (freshLine p).i = 0 := rfl
  simp only [this, Nat.lt_irrefl, decide_false, Bool.not_false, if_true, afterSkip]
  have hp : (freshLine p).panic = none := h.panic
  rw [hp]
  have he : (freshLine p).err = some e := h.err
  rw [he]
  refine ⟨_, rfl, ?_, ?_, ?_, ?_⟩
  · rfl
  · exact h.blocks
  · exact hbuf
  · rfl

/-- The outcome of the `(n+1)`-th further call of `NextBlock`. -/
def callN (L : LineParserI) : Nat → BP → NBOut × BP
  | 0, p => nextBlock L p
  | n + 1, p => callN L n (nextBlock L p).2

theorem callN_errState (L : LineParserI) {e : PErr} : ∀ (n : Nat) {p : BP}, ErrState e p →
    (callN L n p).1 = .err e ∧ ErrState e (callN L n p).2 := by
  intro n
  induction n with
  | zero =>
    intro p h
    obtain ⟨p', h1, h2⟩ := nextBlock_errState L h
    simp only [callN, h1]; exact ⟨by trivial, h2⟩
  | succ n ih =>
    intro p h
    obtain ⟨p', h1, h2⟩ := nextBlock_errState L h
    simp only [callN, h1]
    exact ih h2

theorem drain_err_source (L : LineParserI) : ∀ (f : Nat) (p0 : BP) (acc rs : List Root) (e : PErr) (p : BP),
    drain L f p0 acc = (rs, .err e, p) → ∃ p1, nextBlock L p1 = (.err e, p) := by
  intro f
  induction f with
  | zero => intro p0 acc rs e p h; simp [drain] at h
  | succ f ih =>
    intro p0 acc rs e p h
    rcases hn : nextBlock L p0 with ⟨o, p'⟩
    cases o with
    | block r =>
      simp only [drain, hn] at h
      exact ih _ _ _ _ _ h
    | err e' =>
      simp only [drain, hn, Prod.mk.injEq, NBOut.err.injEq] at h
      obtain ⟨_, h1, h2⟩ := h
      subst h1; subst h2
      exact ⟨p0, hn⟩
    | panic m => simp [drain, hn] at h

/-- (C) After `drain` ended with the error `e` in state `p`, every further `NextBlock` call reports `e` again
    (and therefore delivers no block). Any line parser, any reader (end of input, reader failure, block too large),
    any starting state. -/
theorem err_persistent (L : LineParserI) {f : Nat} {p0 : BP} {acc rs : List Root} {e : PErr} {p : BP}
    (h : drain L f p0 acc = (rs, .err e, p)) : ∀ n, (callN L n p).1 = .err e := by
  obtain ⟨p1, h1⟩ := drain_err_source L f p0 acc rs e p h
  intro n
  exact (callN_errState L n (errState_of_err L h1)).1

end CM.Proofs
