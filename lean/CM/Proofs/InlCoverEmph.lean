import CM.Proofs.InlCoverTok
/-
C03, inline half — one match of `processEmphasis` keeps the coverage of needed bytes: the two delimiter nodes lose
delimiter bytes only (`StkNN`), `wrap` moves the nodes between them below the new node, a delimiter node that has become
empty is removed.
-/
namespace CM.Proofs.InlH
open CM CM.Model CM.Model.Inl CM.Gen CM.Spec

/-- a delimiter node: a leaf without needed bytes -/
def DelimOK (c : ICtx) (a : Array INode) (k : Nat) : Prop :=
  (a[k]!).kids = #[] ∧ (a[k]!).sub = [] ∧ NoNeed c (a[k]!).start (a[k]!).stop

theorem DelimOK.rm {c : ICtx} {a : Array INode} {k : Nat} (h : DelimOK c a k) (par k' : Nat) :
    DelimOK c (a.modify par (fun n => { n with kids := n.kids.filter (· != k') })) k := by
  obtain ⟨h1, h2, h3⟩ := h
  rw [DelimOK, get!_modify]
  split
  · refine ⟨?_, h2, h3⟩
    show Array.filter _ _ = #[]
    rw [h1]; rfl
  · exact ⟨h1, h2, h3⟩

theorem Keep.rm {c : ICtx} {a : Array INode} {k : Nat} (h : DelimOK c a k) (par : Nat) :
    Keep c a (a.modify par (fun n => { n with kids := n.kids.filter (· != k) })) :=
  (KeepX.remove c 0 par k h.1 h.2.1 h.2.2).keep

theorem mem_extract {st : Array DelimE} {i j : Nat} {e : DelimE} (h : e ∈ (st.extract i j).toList) : e ∈ st.toList := by
  simp only [Array.toList_extract, List.extract_eq_take_drop] at h
  exact List.mem_of_mem_drop (List.mem_of_mem_take h)

theorem stkOf_delSt_sub (s : IState) (i j : Nat) : ∀ k ∈ stkOf (delSt s i j), k ∈ stkOf s := by
  intro k hk
  unfold stkOf at hk ⊢
  obtain ⟨e, he, rfl⟩ := List.mem_map.1 hk
  refine List.mem_map.2 ⟨e, ?_, rfl⟩
  have he' : e ∈ (s.stack.extract 0 i).toList ++ (s.stack.extract j).toList := by simpa using he
  rcases List.mem_append.1 he' with h | h
  · exact mem_extract h
  · exact mem_extract h

theorem StkNN.delSt {c : ICtx} {s : IState} (h : StkNN c s) (i j : Nat) : StkNN c (delSt s i j) :=
  h.of_same (stkOf_delSt_sub s i j) fun _ _ => ⟨Int.le_refl _, Int.le_refl _⟩

theorem StkNN.rmSt {c : ICtx} {s : IState} (h : StkNN c s) (par k : Nat) : StkNN c (rmSt s par k) := by
  refine h.of_same (fun k hk => hk) fun k' _ => ?_
  show _ ≤ ((s.nodes.modify par _)[k']!).start ∧ ((s.nodes.modify par _)[k']!).stop ≤ _
  rw [get!_modify]
  split <;> exact ⟨Int.le_refl _, Int.le_refl _⟩

/-- What the span invariant says about the two delimiters of a match. -/
theorem emph_facts {lo hi : Int} {x : Option Nat} {b p : Nat} {F : Int} {s : IState} (hsp : SP lo hi x b p F s)
    (oi cur : Nat) (hb : b ≤ oi) (hoc : oi < cur) (hcur : cur < s.stack.size) :
    PlainLeaf s.nodes [] (s.stack[oi]!).node ∧ PlainLeaf s.nodes [] (s.stack[cur]!).node ∧
    (s.stack[oi]!).node ≠ (s.stack[cur]!).node ∧ p ≠ (s.stack[oi]!).node ∧ p ≠ (s.stack[cur]!).node ∧
    p < s.nodes.size ∧ (s.stack[oi]!).node ∈ kidsLS s.nodes p ∧ pmOf s (s.stack[oi]!).node = some p ∧
    (s.stack[oi]!).node ∈ stkOf s ∧ (s.stack[cur]!).node ∈ stkOf s := by
  obtain ⟨inv, hpsz⟩ := hsp
  have hlen := stkOf_length s
  obtain ⟨l1, l2, l3, hdrop, _, _⟩ := split_two (stkOf s) b oi cur hb hoc (by rw [hlen]; exact hcur)
  rw [stkOf_get s oi (by omega), stkOf_get s cur hcur] at hdrop
  generalize (s.stack[oi]!).node = o at *
  generalize (s.stack[cur]!).node = c at *
  have hod : o ∈ (stkOf s).drop b := by rw [hdrop]; exact List.mem_append_right _ (List.mem_cons_self ..)
  have hcd : c ∈ (stkOf s).drop b := by
    rw [hdrop]; exact List.mem_append_right _ (List.mem_cons_of_mem _ (List.mem_append_right _ (List.mem_cons_self ..)))
  have po := inv.plain o (List.mem_of_mem_drop hod)
  have pc := inv.plain c (List.mem_of_mem_drop hcd)
  have hoK : o ∈ kidsLS s.nodes p := inv.high.1.subset hod
  have hpo : p ≠ o := by
    rintro rfl
    have : kidsLS s.nodes p = [] := by unfold kidsLS; rw [po.kids]
    rw [this] at hoK; cases hoK
  have hpc : p ≠ c := by
    rintro rfl
    have : kidsLS s.nodes p = [] := by unfold kidsLS; rw [pc.kids]
    rw [this] at hoK; cases hoK
  have hnd : ((stkOf s).drop b).Nodup := List.Nodup.sublist (List.drop_sublist _ _) inv.stk_nodup
  rw [hdrop] at hnd
  have hocne : o ≠ c := by
    rintro rfl
    have := (List.nodup_append.1 hnd).2.1
    rw [List.nodup_cons] at this
    exact this.1 (List.mem_append_right _ (List.mem_cons_self ..))
  exact ⟨po, pc, hocne, hpo, hpc, inv.plt, hoK, inv.high.2 o hod, List.mem_of_mem_drop hod, List.mem_of_mem_drop hcd⟩

theorem emphW_pos (s : IState) (o c : Nat) : 0 ≤ emphW s o c := by
  unfold emphW; split <;> omega

/-- The match up to the deletion of the stack entries between the two delimiters. -/
theorem emph_keep_core {c : ICtx} {lo hi : Int} {x : Option Nat} {b p : Nat} {F : Int} {s : IState}
    (hsp : SP lo hi x b p F s) (hnn : StkNN c s)
    (oi cur : Nat) (hb : b ≤ oi) (hoc : oi < cur) (hcur : cur < s.stack.size) (kind : Nat) (s3 : IState)
    (h3 : WrapPostS (shrinkSt s (s.stack[oi]!).node (s.stack[cur]!).node
      (emphW s (s.stack[oi]!).node (s.stack[cur]!).node)) s3 kind (s.stack[oi]!).node (s.stack[cur]!).node)
    (h3st : s3.stack = s.stack) :
    Keep c s.nodes s3.nodes ∧ StkNN c s3 ∧ DelimOK c s3.nodes (s.stack[oi]!).node ∧
      DelimOK c s3.nodes (s.stack[cur]!).node := by
  obtain ⟨po, pc, hocne, hpo, hpc, hplt, hoK, hpm, hos, hcs⟩ := emph_facts hsp oi cur hb hoc hcur
  have hw := emphW_pos s (s.stack[oi]!).node (s.stack[cur]!).node
  generalize emphW s (s.stack[oi]!).node (s.stack[cur]!).node = w at *
  generalize (s.stack[oi]!).node = o at *
  generalize (s.stack[cur]!).node = cN at *
  obtain ⟨h3n, -, -⟩ := h3
  -- the state after the two shortenings
  have hpm2 : pmOf (shrinkSt s o cN w) o = some p := hpm
  rw [hpm2] at h3n
  simp only [Option.getD_some] at h3n
  have r2 : ∀ i : Nat, i ≠ o → i ≠ cN → (shrinkSt s o cN w).nodes[i]! = s.nodes[i]! := by
    intro i h1 h2
    show ((s.nodes.modify o _).modify cN _)[i]! = _
    rw [get!_modify_neS h2, get!_modify_neS h1]
  have r2o : (shrinkSt s o cN w).nodes[o]! = { s.nodes[o]! with stop := (s.nodes[o]!).stop - w } := by
    show ((s.nodes.modify o _).modify cN _)[o]! = _
    rw [get!_modify_neS hocne, get!_modify_eqS po.lt]
  have r2c : (shrinkSt s o cN w).nodes[cN]! = { s.nodes[cN]! with start := (s.nodes[cN]!).start + w } := by
    show ((s.nodes.modify o _).modify cN _)[cN]! = _
    rw [get!_modify_eqS (by simpa using pc.lt), get!_modify_neS (fun h => hocne h.symm)]
  have hsz2 : (shrinkSt s o cN w).nodes.size = s.nodes.size := by
    show ((s.nodes.modify o _).modify cN _).size = _
    simp
  have hkp : kidsLS (shrinkSt s o cN w).nodes p = kidsLS s.nodes p := by
    unfold kidsLS; rw [r2 p hpo hpc]
  have hK : kidsLS (shrinkSt s o cN w).nodes p =
      cutA (kidsLS (shrinkSt s o cN w).nodes p) o ++ o ::
        (cutM (cutR (kidsLS (shrinkSt s o cN w).nodes p) o) (some cN) ++
         cutT (cutR (kidsLS (shrinkSt s o cN w).nodes p) o) (some cN)) := by
    have h1 := cut_eq (l := kidsLS (shrinkSt s o cN w).nodes p) (k := o) (by rw [hkp]; exact hoK)
    rw [← cutMT]
    exact h1
  -- the three steps
  have k1 : Keep c s.nodes (shrinkSt s o cN w).nodes := by
    refine (KeepX.trans
      (KeepX.respan c 0 o (fun n => { n with stop := n.stop - w }) (fun _ => rfl) (fun _ => rfl) fun _ => hnn o hos)
      (KeepX.respan c 0 cN (fun n => { n with start := n.start + w }) (fun _ => rfl) (fun _ => rfl) fun _ => ?_)).keep
    rw [get!_modify_neS (fun h => hocne h.symm)]
    exact hnn cN hcs
  have k2 : Keep c (shrinkSt s o cN w).nodes s3.nodes := by
    rw [h3n]
    exact (KeepX.wrap c 0 _ kind o (some cN) p _ _ _ hK (by rw [hsz2]; exact hplt)).keep
  -- nodes other than `p` after `wrap`
  have r3 : ∀ i : Nat, i < s.nodes.size → i ≠ p → s3.nodes[i]! = (shrinkSt s o cN w).nodes[i]! := by
    intro i hi hip
    rw [h3n]
    exact wrapNodes_lt _ kind o (some cN) _ _ _ (by rw [hsz2]; exact hi) hip
  have hsub : ∀ k ∈ stkOf s, (s.nodes[k]!).start ≤ (s3.nodes[k]!).start ∧ (s3.nodes[k]!).stop ≤ (s.nodes[k]!).stop ∧
      (s3.nodes[k]!).kids = (s.nodes[k]!).kids ∧ (s3.nodes[k]!).sub = (s.nodes[k]!).sub := by
    intro k hk
    have pk := hsp.1.plain k hk
    have hkp' : k ≠ p := by
      rintro rfl
      have : kidsLS s.nodes k = [] := by unfold kidsLS; rw [pk.kids]
      rw [this] at hoK; cases hoK
    rw [r3 k pk.lt hkp']
    by_cases hko : k = o
    · subst hko; rw [r2o]; exact ⟨Int.le_refl _, by show _ - w ≤ _; omega, rfl, rfl⟩
    · by_cases hkc : k = cN
      · subst hkc; rw [r2c]; exact ⟨by show _ ≤ _ + w; omega, Int.le_refl _, rfl, rfl⟩
      · rw [r2 k hko hkc]; exact ⟨Int.le_refl _, Int.le_refl _, rfl, rfl⟩
  have hd : ∀ k ∈ stkOf s, DelimOK c s3.nodes k := by
    intro k hk
    obtain ⟨a1, a2, a3, a4⟩ := hsub k hk
    have pk := hsp.1.plain k hk
    exact ⟨by rw [a3]; exact pk.kids, by rw [a4]; exact pk.sub, (hnn k hk).sub a1 a2⟩
  refine ⟨k1.trans k2, ?_, hd o hos, hd cN hcs⟩
  have hstk : stkOf s3 = stkOf s := by unfold stkOf; rw [h3st]
  exact hnn.of_same (fun k hk => by rw [← hstk]; exact hk) fun k hk =>
    ⟨(hsub k (by rw [← hstk]; exact hk)).1, (hsub k (by rw [← hstk]; exact hk)).2.1⟩

/-! ### the four ways a match ends (cf. `emph_fin_nn` … `emph_fin_oc`) -/

section
variable {c : ICtx} {lo hi : Int} {x : Option Nat} {b p : Nat} {F : Int} {s : IState}

theorem emph_nn_nn (hsp : SP lo hi x b p F s) (hnn : StkNN c s)
    (oi cur : Nat) (hb : b ≤ oi) (hoc : oi < cur) (hcur : cur < s.stack.size) (kind : Nat) (s3 : IState)
    (h3 : WrapPostS (shrinkSt s (s.stack[oi]!).node (s.stack[cur]!).node
      (emphW s (s.stack[oi]!).node (s.stack[cur]!).node)) s3 kind (s.stack[oi]!).node (s.stack[cur]!).node)
    (h3st : s3.stack = s.stack) :
    StkNN c (delSt s3 (oi + 1) cur) :=
  (emph_keep_core hsp hnn oi cur hb hoc hcur kind s3 h3 h3st).2.1.delSt _ _

theorem emph_keep_nn (hsp : SP lo hi x b p F s) (hnn : StkNN c s)
    (oi cur : Nat) (hb : b ≤ oi) (hoc : oi < cur) (hcur : cur < s.stack.size) (kind : Nat) (s3 : IState)
    (h3 : WrapPostS (shrinkSt s (s.stack[oi]!).node (s.stack[cur]!).node
      (emphW s (s.stack[oi]!).node (s.stack[cur]!).node)) s3 kind (s.stack[oi]!).node (s.stack[cur]!).node)
    (h3st : s3.stack = s.stack) :
    Keep c s.nodes s3.nodes :=
  (emph_keep_core hsp hnn oi cur hb hoc hcur kind s3 h3 h3st).1

theorem emph_nn_on (hsp : SP lo hi x b p F s) (hnn : StkNN c s)
    (oi cur : Nat) (hb : b ≤ oi) (hoc : oi < cur) (hcur : cur < s.stack.size) (kind : Nat) (s3 : IState)
    (h3 : WrapPostS (shrinkSt s (s.stack[oi]!).node (s.stack[cur]!).node
      (emphW s (s.stack[oi]!).node (s.stack[cur]!).node)) s3 kind (s.stack[oi]!).node (s.stack[cur]!).node)
    (h3st : s3.stack = s.stack) (par i j : Nat) :
    StkNN c (delSt (rmSt (delSt s3 (oi + 1) cur) par (s.stack[oi]!).node) i j) :=
  (((emph_keep_core hsp hnn oi cur hb hoc hcur kind s3 h3 h3st).2.1.delSt _ _).rmSt _ _).delSt _ _

theorem emph_keep_on (hsp : SP lo hi x b p F s) (hnn : StkNN c s)
    (oi cur : Nat) (hb : b ≤ oi) (hoc : oi < cur) (hcur : cur < s.stack.size) (kind : Nat) (s3 : IState)
    (h3 : WrapPostS (shrinkSt s (s.stack[oi]!).node (s.stack[cur]!).node
      (emphW s (s.stack[oi]!).node (s.stack[cur]!).node)) s3 kind (s.stack[oi]!).node (s.stack[cur]!).node)
    (h3st : s3.stack = s.stack) (par : Nat) :
    Keep c s.nodes (rmSt s3 par (s.stack[oi]!).node).nodes := by
  obtain ⟨k, n3, d1, -⟩ := emph_keep_core hsp hnn oi cur hb hoc hcur kind s3 h3 h3st
  exact k.trans (Keep.rm d1 par)

theorem emph_nn_nc (hsp : SP lo hi x b p F s) (hnn : StkNN c s)
    (oi cur : Nat) (hb : b ≤ oi) (hoc : oi < cur) (hcur : cur < s.stack.size) (kind : Nat) (s3 : IState)
    (h3 : WrapPostS (shrinkSt s (s.stack[oi]!).node (s.stack[cur]!).node
      (emphW s (s.stack[oi]!).node (s.stack[cur]!).node)) s3 kind (s.stack[oi]!).node (s.stack[cur]!).node)
    (h3st : s3.stack = s.stack) (par i j : Nat) :
    StkNN c (delSt (rmSt (delSt s3 (oi + 1) cur) par (s.stack[cur]!).node) i j) :=
  (((emph_keep_core hsp hnn oi cur hb hoc hcur kind s3 h3 h3st).2.1.delSt _ _).rmSt _ _).delSt _ _

theorem emph_keep_nc (hsp : SP lo hi x b p F s) (hnn : StkNN c s)
    (oi cur : Nat) (hb : b ≤ oi) (hoc : oi < cur) (hcur : cur < s.stack.size) (kind : Nat) (s3 : IState)
    (h3 : WrapPostS (shrinkSt s (s.stack[oi]!).node (s.stack[cur]!).node
      (emphW s (s.stack[oi]!).node (s.stack[cur]!).node)) s3 kind (s.stack[oi]!).node (s.stack[cur]!).node)
    (h3st : s3.stack = s.stack) (par : Nat) :
    Keep c s.nodes (rmSt s3 par (s.stack[cur]!).node).nodes := by
  obtain ⟨k, n3, -, d2⟩ := emph_keep_core hsp hnn oi cur hb hoc hcur kind s3 h3 h3st
  exact k.trans (Keep.rm d2 par)

theorem emph_nn_oc (hsp : SP lo hi x b p F s) (hnn : StkNN c s)
    (oi cur : Nat) (hb : b ≤ oi) (hoc : oi < cur) (hcur : cur < s.stack.size) (kind : Nat) (s3 : IState)
    (h3 : WrapPostS (shrinkSt s (s.stack[oi]!).node (s.stack[cur]!).node
      (emphW s (s.stack[oi]!).node (s.stack[cur]!).node)) s3 kind (s.stack[oi]!).node (s.stack[cur]!).node)
    (h3st : s3.stack = s.stack) (par i j par' i' j' : Nat) :
    StkNN c (delSt (rmSt (delSt (rmSt (delSt s3 (oi + 1) cur) par (s.stack[oi]!).node) i j)
      par' (s.stack[cur]!).node) i' j') :=
  (((((emph_keep_core hsp hnn oi cur hb hoc hcur kind s3 h3 h3st).2.1.delSt _ _).rmSt _ _).delSt _ _).rmSt _ _).delSt _ _

theorem emph_keep_oc (hsp : SP lo hi x b p F s) (hnn : StkNN c s)
    (oi cur : Nat) (hb : b ≤ oi) (hoc : oi < cur) (hcur : cur < s.stack.size) (kind : Nat) (s3 : IState)
    (h3 : WrapPostS (shrinkSt s (s.stack[oi]!).node (s.stack[cur]!).node
      (emphW s (s.stack[oi]!).node (s.stack[cur]!).node)) s3 kind (s.stack[oi]!).node (s.stack[cur]!).node)
    (h3st : s3.stack = s.stack) (par par' : Nat) :
    Keep c s.nodes (rmSt (rmSt s3 par (s.stack[oi]!).node) par' (s.stack[cur]!).node).nodes := by
  obtain ⟨k, n3, d1, d2⟩ := emph_keep_core hsp hnn oi cur hb hoc hcur kind s3 h3 h3st
  exact (k.trans (Keep.rm d1 par)).trans (Keep.rm (d2.rm par _) par')

end

end CM.Proofs.InlH
