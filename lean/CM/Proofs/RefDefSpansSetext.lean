import CM.Proofs.RefDefSpansOps
import CM.Proofs.BlocksSpansSetext
import CM.Proofs.BlocksWellClose
/-
C02, block half — the setext heading: the orphan paragraph `onCloseParagraph` may leave behind (its text is the
underline) does not begin with `[`; `startSetext` keeps the invariant `GI`.
-/
namespace CM.Proofs.RDS
open CM CM.Model CM.Gen CM.Proofs.BSp CM.Proofs.BT CM.Proofs.BG

/-! ### scanning back over the underline -/

theorem dropWhile_append_all {α : Type} (p : α → Bool) : ∀ (a b : List α), a.all p = true → (a ++ b).dropWhile p = b.dropWhile p := by
  intro a
  induction a with
  | nil => intro b _; rfl
  | cons x a ih =>
    intro b h
    simp only [List.all_cons, Bool.and_eq_true] at h
    simp only [List.cons_append, List.dropWhile_cons, h.1, if_true]
    exact ih b h.2

theorem mem_takeWhile_p {α : Type} (p : α → Bool) : ∀ (l : List α) (t : α), t ∈ l.takeWhile p → p t = true := by
  intro l
  induction l with
  | nil => intro t h; cases h
  | cons a l ih =>
    intro t h
    rw [List.takeWhile_cons] at h
    split at h
    · rcases List.mem_cons.mp h with rfl | h'
      · assumption
      · exact ih t h'
    · cases h

/-- The backward scan of `onCloseParagraph` over `pre ++ c…c ++ white space`: it stops on a `c`. -/
theorem scanBack (c : UInt8) (hc : isSpaceTabOrLineEnding c = false) (pre w : Bytes) (m : Nat) (hm : 1 ≤ m)
    (hw : w.all isSpaceTabOrLineEnding = true) (body : Bytes) (hb : body = pre ++ (List.replicate m c ++ w)) :
    ∃ rest', body.reverse.dropWhile isSpaceTabOrLineEnding = c :: rest' ∧
      ((body.reverse.dropWhile isSpaceTabOrLineEnding).dropWhile (· == c)).length < body.length ∧
      body.getD ((body.reverse.dropWhile isSpaceTabOrLineEnding).dropWhile (· == c)).length 0 = c := by
  obtain ⟨m', rfl⟩ : ∃ m', m = m' + 1 := ⟨m - 1, by omega⟩
  have hrev : body.reverse = w.reverse ++ (List.replicate (m' + 1) c ++ pre.reverse) := by
    rw [hb]; simp [List.reverse_append]
  have h1 : body.reverse.dropWhile isSpaceTabOrLineEnding = List.replicate (m' + 1) c ++ pre.reverse := by
    rw [hrev, dropWhile_append_all _ _ _ (by simpa using hw)]
    simp only [List.replicate_succ, List.cons_append, List.dropWhile_cons, hc, Bool.false_eq_true, if_false]
  rw [h1]
  have h2 : (List.replicate (m' + 1) c ++ pre.reverse).dropWhile (· == c) = pre.reverse.dropWhile (· == c) := by
    apply dropWhile_append_all
    simp
  rw [h2]
  refine ⟨List.replicate m' c ++ pre.reverse, by simp [List.replicate_succ], ?_, ?_⟩
  · have := dropWhile_length_le (· == c) pre.reverse
    rw [hb]
    simp only [List.length_append, List.length_replicate, List.length_reverse] at this ⊢
    omega
  · have hsplit := List.takeWhile_append_dropWhile (p := (· == c)) (l := pre.reverse)
    generalize hR : pre.reverse.dropWhile (· == c) = R at hsplit
    generalize hT : pre.reverse.takeWhile (· == c) = T at hsplit
    have hTall : ∀ t ∈ T, t = c := by
      intro t ht
      rw [← hT] at ht
      have := mem_takeWhile_p _ _ _ ht
      simpa using this
    have hpre : pre = R.reverse ++ T.reverse := by
      have := congrArg List.reverse hsplit
      simpa [List.reverse_append] using this.symm
    have hbody : body = R.reverse ++ ((T.reverse ++ List.replicate (m' + 1) c) ++ w) := by
      rw [hb, hpre]; simp [List.append_assoc]
    have hX : ∃ X', T.reverse ++ List.replicate (m' + 1) c = c :: X' := by
      cases hTr : T.reverse with
      | nil => exact ⟨List.replicate m' c, by simp [List.replicate_succ]⟩
      | cons t T' =>
        have : t = c := hTall t (by rw [← List.mem_reverse, hTr]; simp)
        subst this
        exact ⟨_, rfl⟩
    obtain ⟨X', hX'⟩ := hX
    rw [hbody, hX']
    have hl : R.length = R.reverse.length := by simp
    rw [hl]
    simp [List.getD_eq_getElem?_getD]

/-- The shape of a setext underline: a run of `=` (or `-`), then white space. -/
theorem setextRest_shape (c : UInt8) : ∀ rest : Bytes, setextRest c rest = true →
    ∃ (m : Nat) (w : Bytes), rest = List.replicate m c ++ w ∧ w.all isSpaceTabOrLineEnding = true := by
  intro rest
  induction rest with
  | nil => intro _; exact ⟨0, [], rfl, rfl⟩
  | cons b r ih =>
    intro h
    rw [setextRest] at h
    split at h
    · exact ⟨0, b :: r, rfl, h⟩
    · rename_i hbc
      have hb : b = c := by simpa using hbc
      subst hb
      obtain ⟨m, w, e, hw⟩ := ih h
      exact ⟨m + 1, w, by rw [e]; simp [List.replicate_succ], hw⟩

theorem underline_shape (bai : Bytes) (h : parseSetextHeadingUnderline bai ≠ 0) :
    ∃ (c : UInt8) (m : Nat) (w : Bytes), isSpaceTabOrLineEnding c = false ∧ c ≠ 0x5B ∧ 1 ≤ m ∧
      bai = List.replicate m c ++ w ∧ w.all isSpaceTabOrLineEnding = true := by
  cases bai with
  | nil => exact absurd rfl h
  | cons c rest =>
    simp only [parseSetextHeadingUnderline] at h
    split at h
    · rename_i hc
      have hc' : c = 0x3D := by simpa using hc
      subst hc'
      split at h
      · rename_i hr
        obtain ⟨m, w, e, hw⟩ := setextRest_shape _ rest hr
        exact ⟨0x3D, m + 1, w, by decide, by decide, by omega, by rw [e]; simp [List.replicate_succ], hw⟩
      · exact absurd rfl h
    · split at h
      · rename_i hc
        have hc' : c = 0x2D := by simpa using hc
        subst hc'
        split at h
        · rename_i hr
          obtain ⟨m, w, e, hw⟩ := setextRest_shape _ rest hr
          exact ⟨0x2D, m + 1, w, by decide, by decide, by omega, by rw [e]; simp [List.replicate_succ], hw⟩
        · exact absurd rfl h
      · exact absurd rfl h

/-! ### the orphan paragraph -/

/-- The orphan paragraph of a setext heading whose lines end at or before the start `ls` of the underline line
    (`src = A ++ bai`, `bai` = the underline after its indentation): its text begins with the underline character. -/
theorem orphan_good {src : Bytes} {bd bd' : Int} (l : PLabel) (is : List Tree) (ls : Nat)
    (hN : ∀ t ∈ is, NodeOK src t ∧ t.label.stop ≤ bd) (hbd : bd ≤ (ls : Int)) (hstop : l.stop = (src.length : Int))
    (A bai : Bytes) (hsrc : src = A ++ bai) (hA : ls ≤ A.length) (hbai : parseSetextHeadingUnderline bai ≠ 0) :
    GoodAll src bd' [orphanOf src l is] := by
  obtain ⟨c, m, w, hcws, hcb, hm, hbaie, hw⟩ := underline_shape bai hbai
  -- the start of the scan
  have hbs : ((is.getLast?.map (fun t : Tree => t.label.stop)).getD 0).toNat ≤ ls := by
    cases hgl : is.getLast? with
    | none => simp
    | some t =>
      have := (hN t (List.mem_of_getLast? hgl)).2
      simp only [Option.map_some, Option.getD_some]
      omega
  generalize hbsd : (is.getLast?.map (fun t : Tree => t.label.stop)).getD 0 = bs at hbs
  have hstopN : l.stop.toNat = src.length := by rw [hstop]; simp
  have hbody : (src.take l.stop.toNat).drop bs.toNat = A.drop bs.toNat ++ (List.replicate m c ++ w) := by
    rw [hstopN, List.take_length, hsrc, List.drop_append_of_le_length (by omega), hbaie]
  obtain ⟨rest', h1, h2, h3⟩ := scanBack c hcws (A.drop bs.toNat) w m hm hw _ hbody
  have horph : orphanOf src l is = mkPB BK.paragraph bs (-1)
      [mkInline IK.unparsed ((bs.toNat + (((((src.take l.stop.toNat).drop bs.toNat).reverse.dropWhile isSpaceTabOrLineEnding).dropWhile (· == c)).length : Nat) : Nat)) l.stop] := by
    unfold orphanOf
    simp only [hbsd]
    rw [h1]
  rw [horph]
  generalize hk : ((((src.take l.stop.toNat).drop bs.toNat).reverse.dropWhile isSpaceTabOrLineEnding).dropWhile (· == c)).length = k at h2 h3
  have hlen : ((src.take l.stop.toNat).drop bs.toNat).length = src.length - bs.toNat := by
    rw [hstopN, List.take_length, List.length_drop]
  rw [hlen] at h2
  have hget : src.getD (bs.toNat + k) 0 = c := by
    rw [← h3, hstopN, List.take_length, getD_drop_add]
  apply GoodAll.single
  rw [mkPB, GoodT_mk]
  refine ⟨⟨fun _ => Or.inr ?_, fun _ => (show BK.paragraph ≠ BK.setextHeading by decide)⟩, fun _ h => by cases h⟩
  refine ⟨_, [], rfl, rfl, ?_, ?_, ?_, ?_⟩
  · show (0 : Int) ≤ ((bs.toNat + k : Nat) : Int)
    exact Int.natCast_nonneg _
  · show ((bs.toNat + k : Nat) : Int) < l.stop
    rw [hstop]; omega
  · show ((bs.toNat + k : Nat) : Int) < (src.length : Int)
    omega
  · show src.getD ((bs.toNat + k : Nat) : Int).toNat 0 ≠ 0x5B
    rw [Int.toNat_natCast, hget]
    exact hcb

/-! ### `startSetext` -/

/-- The source is `A ++ bytesAfterIndent` with `A` at least as long as the line start. -/
theorem src_split {src : Bytes} {ls : Nat} (q : LP) (hline : q.line = src.drop ls) (hls : ls ≤ src.length) :
    ∃ A, src = A ++ q.bytesAfterIndent ∧ ls ≤ A.length := by
  refine ⟨src.take ls ++ (q.line.take q.i ++ (q.line.drop q.i).takeWhile (fun c => c == SP || c == TAB)), ?_, ?_⟩
  · unfold LP.bytesAfterIndent
    rw [List.append_assoc, List.append_assoc, List.takeWhile_append_dropWhile, List.take_append_drop, hline,
      List.take_append_drop]
  · simp only [List.length_append, List.length_take]
    omega

/-- The tree operation of `startSetext` on a good tree whose container (depth `d + 1`) is a paragraph. -/
theorem setext_tree {src : Bytes} {bd : Int} (x : PExt) (root : PB) (d : Nat) (n : Int) (ls : Nat) (hg : GoodT src bd root)
    (P : PB) (hP : spineGet root (d + 1) = some P) (hkP : P.kind = BK.paragraph) (hbd : bd ≤ (ls : Int))
    (A bai : Bytes) (hsrc : src = A ++ bai) (hA : ls ≤ A.length) (hbai : parseSetextHeadingUnderline bai ≠ 0) :
    GoodT src bd (spineReplaceLast (closeBlock x src (src.length : Int))
      (spineModify (PB.setLabel fun l => { l with kind := BK.setextHeading, n := n }) root (d + 1)) d) := by
  rw [spineReplaceLast_eq, BSp.spineModify_comp]
  apply GoodT_spineModify _ d root hg
  intro b hb hbg
  obtain ⟨l, bs, is⟩ := b
  have hgl : bs.getLast? = some P := by
    have := spineGet_succ_eq root d
    rw [hP, hb] at this
    simpa [PB.blocks] using this.symm
  obtain ⟨lP, bsP, isP⟩ := P
  simp only [PB.kind, PB.label] at hkP
  rw [GoodT_mk] at hbg
  have hPg := hbg.2 _ (List.mem_of_getLast? hgl)
  rw [GoodT_mk] at hPg
  have hnew : replaceLastFn (closeBlock x src (src.length : Int))
      (spineModify (PB.setLabel fun l => { l with kind := BK.setextHeading, n := n }) (PB.mk l bs is) 1)
      = PB.mk l (bs.dropLast ++ closeBlock x src (src.length : Int) (.mk { lP with kind := BK.setextHeading, n := n } bsP isP)) is := by
    rw [spineModify_succ, hgl]
    simp only [spineModify_zero, replaceLastFn, List.getLast?_append, List.getLast?_singleton, Option.some_or,
      List.dropLast_concat, PB.setLabel]
  show GoodT src bd (replaceLastFn _ _)
  rw [hnew, GoodT_mk]
  refine ⟨BlockOK_congr (b := .mk l bs is) rfl rfl rfl hbg.1, ?_⟩
  have hcl : GoodAll src bd (closeBlock x src (src.length : Int) (.mk { lP with kind := BK.setextHeading, n := n } bsP isP)) := by
    by_cases ho : lP.stop < 0
    · rw [closeBlock_setext x src _ { lP with kind := BK.setextHeading, n := n } bsP isP ho rfl]
      apply onCloseParagraph_good x src bd _ bsP isP (Or.inr ⟨rfl, Int.natCast_nonneg _⟩) (hPg.1.1 hkP) hPg.2
      intro _ hN
      exact orphan_good _ isP ls hN hbd rfl A bai hsrc hA hbai
    · rw [closeBlock, if_pos (by show lP.stop ≥ 0; omega)]
      apply GoodAll.single
      rw [GoodT_mk]
      refine ⟨⟨fun hk => ?_, fun hs => ?_⟩, hPg.2⟩
      · exact absurd (show BK.setextHeading = BK.paragraph from hk) (by decide)
      · exact absurd (show lP.stop < 0 from hs) ho
  intro c hc
  rcases List.mem_append.mp hc with h' | h'
  · exact hbg.2 c ((List.dropLast_sublist bs).subset h')
  · exact hcl c h'

theorem startSetext_st {src : Bytes} {bd : Int} {ls : Nat} (x : PExt) (hbd : bd ≤ (ls : Int)) (hls : ls ≤ src.length)
    (q : LP) (h : BT.Inv q) (hs : q.state = 0) (hg : GI src bd ls q) : StPost src bd ls q (startSetext x q) := by
  unfold startSetext
  split
  · exact StPost.refl hg hs
  rename_i hk'
  have hk : q.containerKind = BK.paragraph := by simpa using hk'
  simp only []
  split
  · exact StPost.refl hg hs
  split
  · exact StPost.refl hg hs
  rename_i _ hlev'
  have hlev : parseSetextHeadingUnderline q.bytesAfterIndent ≠ 0 := by simpa using hlev'
  generalize hn : ((parseSetextHeadingUnderline q.bytesAfterIndent : Nat) : Int) = n
  have hd : q.depth ≠ 0 := by
    intro h0
    rw [containerKind_zero q h0, h.tree.root] at hk
    cases hk
  let f : PB → PB := PB.setLabel fun l => { l with kind := BK.setextHeading, n := n }
  have hc1 : CurOK (q.modifyContainer f) := ⟨h.cur.hi, h.cur.htab⟩
  have cl := consumeLine_post (q.modifyContainer f) hc1
  have hst2 : (q.modifyContainer f).consumeLine.state = 2 := cl.st (by show q.state ≤ 2; omega)
  have hfr := fr_consumeLine (q.modifyContainer f)
  generalize (q.modifyContainer f).consumeLine = p2 at cl hst2 hfr
  have hsrc2 : p2.source = src := by rw [fr_source hfr]; exact hg.source
  have hls2 : p2.lineStart = ls := by rw [fr_lineStart hfr]; exact hg.lineStart
  have hline2 : p2.line = src.drop ls := by rw [fr_line hfr]; exact hg.line
  have hdep2 : p2.depth = q.depth := by rw [fr_depth hfr]; rfl
  have hroot2 : p2.root = spineModify f q.root q.depth := by rw [fr_root hfr]; rfl
  have hi2 : p2.i = q.line.length := cl.i
  have hcp : curPos p2 = (src.length : Int) := by
    simp only [curPos, hls2, hi2, hg.line, List.length_drop]
    omega
  rw [endBlock_eq x p2 (by omega), closeContainer_eq x _ _ (by show p2.depth ≠ 0; rw [hdep2]; exact hd)]
  have hmm : mm p2.state = 2 := by rw [hst2]; rfl
  refine ⟨⟨hsrc2, hls2, hline2, ?_⟩, fun h0 => ?_, fun h1 => ?_⟩
  · show GoodT src bd (spineReplaceLast (closeBlock x p2.source (curPos p2)) p2.root (p2.depth - 1))
    rw [hsrc2, hcp, hroot2, hdep2]
    obtain ⟨P, hPg⟩ : ∃ P, spineGet q.root q.depth = some P := by
      have := h.tree.valid
      cases hsg : spineGet q.root q.depth with
      | none => rw [hsg] at this; cases this
      | some P => exact ⟨P, rfl⟩
    have hkP : P.kind = BK.paragraph := by rw [← kind_of_container hPg]; exact hk
    obtain ⟨A, hA1, hA2⟩ := src_split q hg.line hls
    have hd1 : q.depth = (q.depth - 1) + 1 := by omega
    have key := setext_tree x q.root (q.depth - 1) n ls hg.good P (by rw [← hd1]; exact hPg) hkP hbd A _ hA1 hA2 hlev
    rw [← hd1] at key
    exact key
  · have : mm p2.state = 0 := h0
    omega
  · have : mm p2.state = 1 := h1
    omega

end CM.Proofs.RDS
